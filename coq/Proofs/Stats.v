(** Proofs about Model/Stats.v (C09).

    The conservation theorem is a refinement: alongside the model's state a
    ghost record is kept, computed by plain recursion over the history:

      [g_ev i k]   how many accepted updates were counted while hour [i] was
                   current, for counter [k] (the total, or one result category),
                   since the last clear;
      [g_low]      the largest [id - limit] seen at a flush or restart since the
                   last clear: hours [<= g_low] have been outside the retention
                   window at some flush/restart;
      [g_raised]   the limit has been raised since the last clear;
      [g_clock]    the last value of the hour clock the code has read.

    The invariant [Inv] ties every stored unit and the current unit to [g_ev]. *)
From Coq Require Import ZArith List Bool Lia.
From AGH Require Import Model.Stats.
Import ListNotations.
Local Open Scope Z_scope.
Ltac Zify.zify_post_hook ::= Z.to_euclidean_division_equations.

(** * Arithmetic and lists *)

Definition min_id := 8762.            (* > 365 * 24 + 1: no unsigned wrap in id - limit - 1 *)
Definition max_id := 4294967296.

Lemma u32_small x : 0 <= x < 4294967296 -> u32 x = x.
Proof. intros; unfold u32; apply Z.mod_small; assumption. Qed.

Lemma lim_bounds ms : valid_ivl ms = true -> 1 <= ms / ms_hour <= 8760.
Proof.
  unfold valid_ivl, ms_day, ms_hour. rewrite andb_true_iff, !Z.leb_le. lia.
Qed.

Lemma zsum_app a b : zsum (a ++ b) = zsum a + zsum b.
Proof. induction a; cbn [zsum fold_right app] in *; unfold zsum in *; cbn; lia. Qed.

Lemma zsum_map_le {A} (f g : A -> Z) l :
  (forall x, In x l -> f x <= g x) -> zsum (map f l) <= zsum (map g l).
Proof.
  induction l as [|a l IH]; intros H; cbn; [lia|].
  assert (f a <= g a) by (apply H; left; reflexivity).
  assert (zsum (map f l) <= zsum (map g l)) by (apply IH; intros; apply H; right; assumption).
  unfold zsum in *; lia.
Qed.

Lemma zsum_map_eq {A} (f g : A -> Z) l :
  (forall x, In x l -> f x = g x) -> zsum (map f l) = zsum (map g l).
Proof. intros H. f_equal. apply map_ext_in. exact H. Qed.

Lemma zsum_nonneg l : Forall (fun x => 0 <= x) l -> 0 <= zsum l.
Proof. induction 1; cbn; unfold zsum in *; lia. Qed.

Lemma zseq_In a n x : In x (zseq a n) <-> a <= x < a + Z.of_nat n.
Proof.
  revert a; induction n as [|n IH]; intros a; cbn [zseq In].
  - lia.
  - rewrite IH. lia.
Qed.

Lemma zseq_snoc a n : zseq a (S n) = zseq a n ++ [a + Z.of_nat n].
Proof.
  revert a; induction n as [|n IH]; intros a.
  - cbn. f_equal. lia.
  - change (zseq a (S (S n))) with (a :: zseq (a + 1) (S n)). rewrite IH.
    cbn [zseq app]. do 3 f_equal. lia.
Qed.

Lemma zseq_length a n : length (zseq a n) = n.
Proof. revert a; induction n; intros; cbn; auto. Qed.

(** * The database *)

Lemma db_get_filter (P : Z -> bool) i d :
  db_get i (filter (fun p => P (fst p)) d) = if P i then db_get i d else None.
Proof.
  induction d as [|[j u] d IH]; cbn [filter db_get fst].
  - destruct (P i); reflexivity.
  - destruct (P j) eqn:Pj; cbn [db_get]; destruct (Z.eqb_spec i j) as [->|N].
    + rewrite Pj. reflexivity.
    + exact IH.
    + rewrite Pj. rewrite IH, Pj. reflexivity.
    + exact IH.
Qed.

Lemma db_get_del i j d : db_get i (db_del j d) = if i =? j then None else db_get i d.
Proof.
  unfold db_del. rewrite (db_get_filter (fun x => negb (x =? j))).
  destruct (i =? j); reflexivity.
Qed.

Lemma db_get_put i j u d : db_get i (db_put j u d) = if i =? j then Some u else db_get i d.
Proof.
  unfold db_put. cbn [db_get]. destruct (Z.eqb_spec i j) as [->|N]; [reflexivity|].
  rewrite db_get_del. destruct (Z.eqb_spec i j); [contradiction|reflexivity].
Qed.

Lemma db_get_del_below i f d :
  db_get i (db_del_below f d) = if f <=? i then db_get i d else None.
Proof. unfold db_del_below. apply (db_get_filter (fun x => f <=? x)). Qed.

(** * Counters *)

Inductive ctr := CTotal | CCat (c : cat).

Definition proj (k : ctr) (u : unit) : Z :=
  match k with CTotal => u_total u | CCat c => u_cat c u end.

Definition cat_eqb (a b : cat) : bool :=
  match a, b with
  | NF, NF | F, F | SB, SB | SS, SS | P, P => true
  | _, _ => false
  end.

(** Which counters an update of category [c] moves. *)
Definition hits (c : cat) (k : ctr) : bool :=
  match k with CTotal => true | CCat c' => cat_eqb c c' end.

Lemma proj_add_cat c e u k :
  proj k (add_cat c e u) = proj k u + (if hits c k then 1 else 0).
Proof. destruct c, k as [|[]]; cbn; lia. Qed.

Lemma proj_empty k : proj k empty_unit = 0.
Proof. destruct k as [|[]]; reflexivity. Qed.

(** Serialisation (the cut to the top 100, the time average) does not touch
    the total or any result category. *)
Lemma proj_ser k u : proj k (ser u) = proj k u.
Proof. destruct k as [|[]]; reflexivity. Qed.

(** [C09_one_category], step form: an accepted update adds one to the total
    and to exactly one category, and nothing to the other four. *)
Lemma update_one_category s e :
  accepts s e = true -> 0 <= e_res e ->
  exists c,
    u_total (cur (update s e)) = u_total (cur s) + 1 /\
    u_cat c (cur (update s e)) = u_cat c (cur s) + 1 /\
    (forall c', c' <> c -> u_cat c' (cur (update s e)) = u_cat c' (cur s)) /\
    cur_id (update s e) = cur_id s /\ db (update s e) = db s.
Proof.
  intros Ha Hr. unfold update. rewrite Ha.
  assert (Hv : validate e = true).
  { unfold accepts in Ha. rewrite !andb_true_iff in Ha. tauto. }
  unfold validate in Hv. rewrite !andb_true_iff, !negb_true_iff in Hv.
  destruct Hv as [[[H0 H6] _] _]. apply Z.eqb_neq in H0. apply Z.leb_gt in H6.
  assert (Hc : exists c, cat_of (e_res e) = Some c).
  { unfold cat_of.
    destruct (Z.eqb_spec (e_res e) 1); [eauto|]. destruct (Z.eqb_spec (e_res e) 2); [eauto|].
    destruct (Z.eqb_spec (e_res e) 3); [eauto|]. destruct (Z.eqb_spec (e_res e) 4); [eauto|].
    destruct (Z.eqb_spec (e_res e) 5); [eauto|]. lia. }
  destruct Hc as [c Hc]. rewrite Hc. exists c. cbn [with_cur cur cur_id db].
  repeat split.
  - apply (proj_add_cat c e (cur s) CTotal).
  - pose proof (proj_add_cat c e (cur s) (CCat c)) as H. cbn [proj] in H. rewrite H.
    destruct c; reflexivity.
  - intros c' Hn. pose proof (proj_add_cat c e (cur s) (CCat c')) as H. cbn [proj] in H.
    rewrite H. destruct c, c'; cbn; try lia; contradiction.
Qed.

(** * Ghost state *)

Definition ghost := Z -> ctr -> Z.
Definition g0 : ghost := fun _ _ => 0.

(** Where the reset handler's clear() stands: not running; file closed and db
    pointer nil; new database opened, current unit not yet replaced. *)
Inductive phase := PNormal | PClosed | PReopened.

Record gs := {
  g_clock : Z;
  g_st : state;
  g_ev : ghost;
  g_low : Z;
  g_raised : bool;
  g_phase : phase
}.

(** The category an update is counted in, if it is accepted. *)
Definition counted (s : state) (e : entry) : option cat :=
  if accepts s e then cat_of (e_res e) else None.

Definition ev_step (s : state) (o : op) (ev : ghost) : ghost :=
  match o with
  | OUpdate e =>
      match counted s e with
      | Some c => fun i k => if (i =? cur_id s) && hits c k then ev i k + 1 else ev i k
      | None => ev
      end
  | OClear _ => g0
  | OSetDays d _ => if d =? 0 then g0 else ev
  | OClearReopen => fun i k => if i =? cur_id s then ev i k else 0   (* the file is gone, the current unit is not *)
  | OClearFinish _ => fun i k => if i =? cur_id s then 0 else ev i k  (* the current unit is dropped *)
  | _ => ev
  end.

Definition low_step (s : state) (o : op) (low : Z) : Z :=
  match o with
  | OFlush id => if (lim s =? 0) || (cur_id s =? id) || dbnil s then low else Z.max low (id - lim s)
  | ORestart id => Z.max low (id - lim s)
  | OClear _ | OClearReopen => 0
  | OSetDays d _ => if d =? 0 then 0 else low
  | _ => low
  end.

Definition raised_step (s : state) (o : op) (r : bool) : bool :=
  match o with
  | OClear _ | OClearReopen => false
  | OSetDays d _ => if d =? 0 then false else r || (lim s <? lim (step s o))
  | OPutConfig _ _ => r || (lim s <? lim (step s o))
  | _ => r
  end.

(** The clock value an operation reads, if it reads the clock. *)
Definition op_id (o : op) : option Z :=
  match o with
  | OFlush id | ORestart id | OClear id | OSetDays _ id | OClearFinish id => Some id
  | _ => None
  end.

Definition phase_step (o : op) (ph : phase) : phase :=
  match o with
  | OClearClose => PClosed
  | OClearReopen => PReopened
  | OClearFinish _ => PNormal
  | _ => ph
  end.

(** What may happen in which phase: the steps of the reset in their order;
    between them only updates and flushes (the other state-changing handlers
    are serialised with the reset by home.controlLock, a restart during a
    reset is outside the histories). *)
Definition phase_ok (ph : phase) (o : op) : Prop :=
  match o with
  | OUpdate _ | OFlush _ => True
  | OClearClose => ph = PNormal
  | OClearReopen => ph = PClosed
  | OClearFinish _ => ph = PReopened
  | _ => ph = PNormal
  end.

Definition gstep (g : gs) (o : op) : gs :=
  {| g_clock := match op_id o with Some id => id | None => g_clock g end;
     g_st := step (g_st g) o;
     g_ev := ev_step (g_st g) o (g_ev g);
     g_low := low_step (g_st g) o (g_low g);
     g_raised := raised_step (g_st g) o (g_raised g);
     g_phase := phase_step o (g_phase g) |}.

Definition ginit (id ms : Z) (en : bool) : gs :=
  {| g_clock := id; g_st := init id ms en; g_ev := g0; g_low := 0; g_raised := false; g_phase := PNormal |}.

Definition grun (g : gs) (h : list op) : gs := fold_left gstep h g.

Lemma grun_st g h : g_st (grun g h) = run (g_st g) h.
Proof.
  revert g; induction h as [|o h IH]; intros g; [reflexivity|].
  change (grun g (o :: h)) with (grun (gstep g o) h). rewrite IH. reflexivity.
Qed.

(** Histories: the clock never goes back and stays a uint32; the steps of a
    reset come in their order with only updates and flushes between them. *)
Fixpoint wf_from (c : Z) (ph : phase) (h : list op) : Prop :=
  match h with
  | [] => True
  | o :: h' =>
      phase_ok ph o /\
      match op_id o with
      | Some id => c <= id < max_id /\ wf_from id (phase_step o ph) h'
      | None => wf_from c (phase_step o ph) h'
      end
  end.

Definition wf_hist (c : Z) (h : list op) : Prop := wf_from c PNormal h.

Definition init_ok (id ms : Z) : Prop := min_id <= id < max_id /\ valid_ivl ms = true.

(** * The invariant *)

Record Inv (g : gs) : Prop := {
  i_range : min_id <= cur_id (g_st g) <= g_clock g /\ g_clock g < max_id;
  i_lim : valid_ivl (lim_ms (g_st g)) = true;
  i_future : forall i k, cur_id (g_st g) < i -> g_ev g i k = 0;
  i_cur : forall k, proj k (cur (g_st g)) = g_ev g (cur_id (g_st g)) k;
  i_dbtop : forall i u, db_get i (db (g_st g)) = Some u -> i <= cur_id (g_st g);
  i_db : forall i k, i < cur_id (g_st g) ->
           match db_get i (db (g_st g)) with
           | Some u => proj k u = g_ev g i k
           | None => i <= g_low g \/ g_ev g i k = 0
           end;
  i_nonneg : forall i k, 0 <= g_ev g i k;
  i_onecat : forall i, g_ev g i CTotal =
               g_ev g i (CCat NF) + g_ev g i (CCat F) + g_ev g i (CCat SB) +
               g_ev g i (CCat SS) + g_ev g i (CCat P);
  i_low : g_raised g = false -> g_low g <= cur_id (g_st g) - lim (g_st g);
  i_nil : dbnil (g_st g) = true <-> g_phase g = PClosed;
  i_reop : g_phase g = PReopened -> db_get (cur_id (g_st g)) (db (g_st g)) = None
}.

Definition op_ok (g : gs) (o : op) : Prop :=
  phase_ok (g_phase g) o /\
  match op_id o with Some id => g_clock g <= id < max_id | None => True end.

Lemma inv_init id ms en : init_ok id ms -> Inv (ginit id ms en).
Proof.
  intros [Hid Hms]. pose proof (lim_bounds ms Hms) as HL. unfold min_id, max_id in *.
  constructor; cbn; unfold lim, min_id, max_id; cbn; intros; try assumption; try reflexivity; try lia; try discriminate.
  - apply proj_empty.
  - right; reflexivity.
  - split; discriminate.
Qed.

(** Moving the clock only. *)
Lemma inv_clock g c' :
  Inv g -> g_clock g <= c' < max_id ->
  Inv {| g_clock := c'; g_st := g_st g; g_ev := g_ev g; g_low := g_low g; g_raised := g_raised g;
         g_phase := g_phase g |}.
Proof. intros [] Hc. constructor; cbn; auto. lia. Qed.

(** Changing the configuration only. *)
Lemma inv_conf g c' ms en :
  Inv g -> g_clock g <= c' < max_id -> valid_ivl ms = true ->
  Inv {| g_clock := c'; g_st := with_conf (g_st g) ms en; g_ev := g_ev g; g_low := g_low g;
         g_raised := g_raised g || (lim (g_st g) <? ms / ms_hour); g_phase := g_phase g |}.
Proof.
  intros [] Hc Hms. constructor; cbn; auto. lia.
  intros Hr. apply orb_false_iff in Hr. destruct Hr as [Hr Hl]. apply Z.ltb_ge in Hl.
  specialize (i_low0 Hr). unfold lim at 1. cbn. lia.
Qed.

(** Clearing. *)
Lemma inv_clear g id en :
  Inv g -> g_clock g <= id < max_id -> g_phase g = PNormal ->
  Inv {| g_clock := id;
         g_st := clear (with_conf (g_st g) (lim_ms (g_st g)) en) id;
         g_ev := g0; g_low := 0; g_raised := false; g_phase := g_phase g |}.
Proof.
  intros [] Hc Hp. pose proof (lim_bounds _ i_lim0) as HL. unfold min_id, max_id in *.
  constructor; cbn; unfold lim, min_id, max_id; cbn; intros; try assumption; try reflexivity; try lia; try discriminate; auto.
  - apply proj_empty.
  - rewrite Hp. split; discriminate.
Qed.

Lemma inv_update g e : Inv g -> Inv (gstep g (OUpdate e)).
Proof.
  intros H. unfold gstep; cbn [op_id step ev_step low_step raised_step phase_step].
  unfold update, counted. destruct (accepts (g_st g) e); [|destruct g; exact H].
  destruct (cat_of (e_res e)) as [c|]; [|destruct g; exact H].
  destruct H. constructor; cbn; auto.
  - intros i k Hi. destruct (Z.eqb_spec i (cur_id (g_st g))); [lia|]. cbn. auto.
  - intros k. rewrite proj_add_cat, Z.eqb_refl, i_cur0. cbn. destruct (hits c k); lia.
  - intros i k Hi. destruct (Z.eqb_spec i (cur_id (g_st g))); [lia|]. cbn. apply i_db0; assumption.
  - intros i k. specialize (i_nonneg0 i k).
    destruct ((i =? cur_id (g_st g)) && hits c k); lia.
  - intros i. specialize (i_onecat0 i).
    destruct (i =? cur_id (g_st g)); cbn; [|assumption]. destruct c; cbn; lia.
Qed.

Ltac sfields :=
  cbn [g_st g_ev g_low g_raised g_clock g_phase cur_id cur db lim_ms enabled dbnil with_cur with_conf with_nil].

Lemma inv_flush g id : Inv g -> g_clock g <= id < max_id -> Inv (gstep g (OFlush id)).
Proof.
  intros H Hc. unfold gstep; cbn [op_id step ev_step low_step raised_step phase_step]. unfold flush.
  destruct ((lim (g_st g) =? 0) || (cur_id (g_st g) =? id)) eqn:E.
  { cbn [orb]. apply inv_clock; assumption. }
  cbn [orb]. destruct (dbnil (g_st g)) eqn:Enil.
  { apply inv_clock; assumption. }
  apply orb_false_iff in E. destruct E as [_ E]. apply Z.eqb_neq in E.
  destruct H. pose proof (lim_bounds _ i_lim0) as HL. fold (lim (g_st g)) in HL.
  unfold min_id, max_id in *.
  rewrite u32_small by lia.
  constructor; sfields.
  - unfold min_id, max_id; lia.
  - assumption.
  - intros i k Hi. apply i_future0. lia.
  - intros k. rewrite proj_empty. symmetry. apply i_future0. lia.
  - intros i u. rewrite db_get_del, db_get_put.
    destruct (i =? id - lim (g_st g)); [discriminate|].
    destruct (Z.eqb_spec i (cur_id (g_st g))); [lia|]. intros G. apply i_dbtop0 in G. lia.
  - intros i k Hi. rewrite db_get_del, db_get_put.
    destruct (Z.eqb_spec i (id - lim (g_st g))); [left; lia|].
    destruct (Z.eqb_spec i (cur_id (g_st g))) as [->|Ne]; [rewrite proj_ser; apply i_cur0|].
    destruct (Z_lt_le_dec i (cur_id (g_st g))) as [Lt|Ge].
    + specialize (i_db0 i k Lt). destruct (db_get i (db (g_st g))); [assumption|].
      destruct i_db0; [left; lia|right; assumption].
    + destruct (db_get i (db (g_st g))) eqn:G.
      * apply i_dbtop0 in G. lia.
      * right. apply i_future0. lia.
  - assumption.
  - assumption.
  - intros Hr. specialize (i_low0 Hr). unfold lim in *; sfields. lia.
  - rewrite <- i_nil0, Enil. reflexivity.
  - intros _. rewrite db_get_del, db_get_put.
    destruct (id =? id - lim (g_st g)); [reflexivity|].
    destruct (Z.eqb_spec id (cur_id (g_st g))); [lia|].
    destruct (db_get id (db (g_st g))) eqn:G; [|reflexivity]. apply i_dbtop0 in G. lia.
Qed.

Lemma inv_restart g id :
  Inv g -> g_clock g <= id < max_id -> g_phase g = PNormal -> Inv (gstep g (ORestart id)).
Proof.
  intros H Hc Hp. unfold gstep; cbn [op_id step ev_step low_step raised_step phase_step].
  unfold restart, open_db, close_db.
  destruct H. pose proof (lim_bounds _ i_lim0) as HL. fold (lim (g_st g)) in *.
  unfold min_id, max_id in *.
  rewrite u32_small by lia.
  assert (Hcur : forall k,
    proj k match db_get id (db_del_below (id - lim (g_st g) - 1)
                   (db_put (cur_id (g_st g)) (ser (cur (g_st g))) (db (g_st g)))) with
           | Some u => u | None => empty_unit end = g_ev g id k).
  { intros k. rewrite db_get_del_below, db_get_put.
    destruct (Z.leb_spec (id - lim (g_st g) - 1) id); [|lia].
    destruct (Z.eqb_spec id (cur_id (g_st g))) as [->|Ne]; [rewrite proj_ser; apply i_cur0|].
    destruct (db_get id (db (g_st g))) eqn:G.
    - apply i_dbtop0 in G. lia.
    - rewrite proj_empty. symmetry. apply i_future0. lia. }
  constructor; sfields.
  - unfold min_id, max_id; lia.
  - assumption.
  - intros i k Hi. apply i_future0. lia.
  - exact Hcur.
  - intros i u. rewrite db_get_del_below, db_get_put.
    destruct (id - lim (g_st g) - 1 <=? i); [|discriminate].
    destruct (Z.eqb_spec i (cur_id (g_st g))); [lia|]. intros G. apply i_dbtop0 in G. lia.
  - intros i k Hi. rewrite db_get_del_below, db_get_put.
    destruct (Z.leb_spec (id - lim (g_st g) - 1) i); [|left; lia].
    destruct (Z.eqb_spec i (cur_id (g_st g))) as [->|Ne]; [rewrite proj_ser; apply i_cur0|].
    destruct (Z_lt_le_dec i (cur_id (g_st g))) as [Lt|Ge].
    + specialize (i_db0 i k Lt). destruct (db_get i (db (g_st g))); [assumption|].
      destruct i_db0; [left; lia|right; assumption].
    + destruct (db_get i (db (g_st g))) eqn:G.
      * apply i_dbtop0 in G. lia.
      * right. apply i_future0. lia.
  - assumption.
  - assumption.
  - intros Hr. specialize (i_low0 Hr). unfold lim in *; sfields. lia.
  - rewrite Hp. split; discriminate.
  - rewrite Hp. discriminate.
Qed.

(** The three steps of the reset. *)
Lemma inv_clear_close g : Inv g -> Inv (gstep g OClearClose).
Proof.
  intros []. unfold gstep; cbn [op_id step ev_step low_step raised_step phase_step]. unfold clear_close.
  constructor; sfields; auto.
  - split; reflexivity.
  - discriminate.
Qed.

Lemma inv_clear_reopen g : Inv g -> Inv (gstep g OClearReopen).
Proof.
  intros []. pose proof (lim_bounds _ i_lim0) as HL.
  unfold gstep; cbn [op_id step ev_step low_step raised_step phase_step]. unfold clear_reopen.
  constructor; sfields; auto.
  - intros i k Hi. destruct (Z.eqb_spec i (cur_id (g_st g))); [lia|reflexivity].
  - intros k. rewrite Z.eqb_refl. apply i_cur0.
  - intros i u. cbn. discriminate.
  - intros i k Hi. cbn [db_get]. right. destruct (Z.eqb_spec i (cur_id (g_st g))); [lia|reflexivity].
  - intros i k. destruct (i =? cur_id (g_st g)); [apply i_nonneg0|lia].
  - intros i. destruct (i =? cur_id (g_st g)); [apply i_onecat0|reflexivity].
  - intros _. unfold lim in *; sfields. unfold min_id in *. lia.
  - split; discriminate.
Qed.

Lemma inv_clear_finish g id :
  Inv g -> g_clock g <= id < max_id -> g_phase g = PReopened -> Inv (gstep g (OClearFinish id)).
Proof.
  intros [] Hc Hp. specialize (i_reop0 Hp).
  unfold gstep; cbn [op_id step ev_step low_step raised_step phase_step]. unfold clear_finish.
  constructor; sfields; auto.
  - lia.
  - intros i k Hi. destruct (Z.eqb_spec i (cur_id (g_st g))); [reflexivity|]. apply i_future0. lia.
  - intros k. rewrite proj_empty. destruct (Z.eqb_spec id (cur_id (g_st g))); [reflexivity|].
    symmetry. apply i_future0. lia.
  - intros i u G. pose proof (i_dbtop0 _ _ G). lia.
  - intros i k Hi. destruct (Z.eqb_spec i (cur_id (g_st g))) as [->|Ne].
    + rewrite i_reop0. right; reflexivity.
    + destruct (Z_lt_le_dec i (cur_id (g_st g))) as [Lt|Ge]; [apply i_db0; assumption|].
      destruct (db_get i (db (g_st g))) eqn:G.
      * apply i_dbtop0 in G. lia.
      * right. apply i_future0. lia.
  - intros i k. destruct (i =? cur_id (g_st g)); [lia|apply i_nonneg0].
  - intros i. destruct (i =? cur_id (g_st g)); [reflexivity|apply i_onecat0].
  - intros Hr. specialize (i_low0 Hr). unfold lim in *; sfields. lia.
  - split; [|discriminate]. intros E. apply i_nil0 in E. congruence.
  - discriminate.
Qed.

Lemma checked_days_valid d : checked_days d = true -> d <> 0 -> valid_ivl (d * ms_day) = true.
Proof.
  unfold checked_days. rewrite !orb_true_iff, !Z.eqb_eq.
  intros [[[[->| ->]| ->]| ->]| ->] Hd; try reflexivity. contradiction.
Qed.

Lemma inv_step g o : Inv g -> op_ok g o -> Inv (gstep g o).
Proof.
  intros H [Hph Hok]. destruct o as [e|id|id|id|d id|ms en| | |id]; cbn [op_id phase_ok] in Hok, Hph.
  - apply inv_update; assumption.
  - apply inv_flush; assumption.
  - apply inv_restart; assumption.
  - exact (inv_clear g id (enabled (g_st g)) H Hok Hph).
  - unfold gstep; cbn [op_id step ev_step low_step raised_step phase_step]. unfold set_limit_days.
    destruct (checked_days d) eqn:C; cbn [negb].
    + destruct (Z.eqb_spec d 0) as [->|Nd].
      * exact (inv_clear g id false H Hok Hph).
      * exact (inv_conf g id (d * ms_day) true H Hok (checked_days_valid d C Nd)).
    + destruct (Z.eqb_spec d 0) as [->|Nd]; [discriminate C|].
      rewrite Z.ltb_irrefl, orb_false_r. apply inv_clock; assumption.
  - unfold gstep; cbn [op_id step ev_step low_step raised_step phase_step]. unfold put_config.
    assert (Hc : g_clock g <= g_clock g < max_id) by (destruct H; lia).
    destruct (valid_ivl ms) eqn:V.
    + exact (inv_conf g (g_clock g) ms en H Hc V).
    + rewrite Z.ltb_irrefl, orb_false_r. destruct g; exact H.
  - apply inv_clear_close; assumption.
  - apply inv_clear_reopen; assumption.
  - apply inv_clear_finish; assumption.
Qed.

Lemma inv_run h : forall g, Inv g -> wf_from (g_clock g) (g_phase g) h -> Inv (grun g h).
Proof.
  induction h as [|o h IH]; intros g H W; [exact H|].
  change (grun g (o :: h)) with (grun (gstep g o) h).
  cbn [wf_from] in W. destruct W as [Wp W].
  assert (Hok : op_ok g o /\ wf_from (g_clock (gstep g o)) (g_phase (gstep g o)) h).
  { unfold op_ok, gstep; cbn [g_clock g_phase]. destruct (op_id o); tauto. }
  apply IH; [apply inv_step; tauto|tauto].
Qed.

(** Every reachable ghost state satisfies the invariant. *)
Theorem reachable_inv id ms en h :
  init_ok id ms -> wf_hist id h -> Inv (grun (ginit id ms en) h).
Proof. intros Hi W. apply inv_run; [apply inv_init; assumption|exact W]. Qed.

(** * Conservation *)

(** The hours of the retention window (cur - limit, cur]. *)
Definition window_hours (s : state) : list Z :=
  zseq (cur_id s - lim s + 1) (Z.to_nat (lim s)).

(** Sum of [f] over the window. *)
Definition wsum (s : state) (f : Z -> Z) : Z := zsum (map f (window_hours s)).

(** What the API reports for counter [k]: the sum over the loaded units. *)
Definition rep (k : ctr) (s : state) : Z := zsum (map (proj k) (load_units s)).

Lemma rep_get_data s :
  d_num (get_data s) = rep CTotal s /\ num_nf s = rep (CCat NF) s /\
  d_num_f (get_data s) = rep (CCat F) s /\ d_num_sb (get_data s) = rep (CCat SB) s /\
  d_num_ss (get_data s) = rep (CCat SS) s /\ d_num_p (get_data s) = rep (CCat P) s.
Proof. repeat split; reflexivity. Qed.

(** The abstraction: the unit that stands for hour [i]. *)
Definition unit_of (s : state) (i : Z) : unit :=
  if i =? cur_id s then cur s else stored s i.

Lemma window_ids_nowrap s :
  min_id <= cur_id s < max_id -> 1 <= lim s <= 8760 ->
  window_ids s = zseq (cur_id s - lim s + 1) (Z.to_nat (lim s - 1)).
Proof.
  intros Hc HL. unfold window_ids. rewrite <- (map_id (zseq _ _)) at 2.
  apply map_ext_in. intros x Hx. apply zseq_In in Hx. unfold min_id, max_id in *.
  apply u32_small. lia.
Qed.

Lemma window_hours_split s :
  1 <= lim s ->
  window_hours s = zseq (cur_id s - lim s + 1) (Z.to_nat (lim s - 1)) ++ [cur_id s].
Proof.
  intros HL. unfold window_hours.
  replace (Z.to_nat (lim s)) with (S (Z.to_nat (lim s - 1))) by lia.
  rewrite zseq_snoc. do 2 f_equal. lia.
Qed.

Lemma rep_wsum s k :
  min_id <= cur_id s < max_id -> 1 <= lim s <= 8760 ->
  rep k s = wsum s (fun i => proj k (unit_of s i)).
Proof.
  intros Hc HL. unfold rep, wsum, load_units.
  rewrite window_ids_nowrap, window_hours_split by lia.
  rewrite !map_app, !zsum_app, map_map. cbn [map]. unfold unit_of at 2. rewrite Z.eqb_refl.
  f_equal. apply zsum_map_eq. intros x Hx. apply zseq_In in Hx. unfold unit_of.
  destruct (Z.eqb_spec x (cur_id s)); [lia|reflexivity].
Qed.

Lemma window_hours_In s i : 0 <= lim s -> In i (window_hours s) <-> cur_id s - lim s < i <= cur_id s.
Proof. intros HL. unfold window_hours. rewrite zseq_In. lia. Qed.

(** Per hour: what is reported for an hour of the window is what was counted
    in it, or nothing if the hour has been outside the window at a flush or
    restart (or, equivalently for the sums, has no events). *)
Lemma hour_bounds g i k :
  Inv g -> i <= cur_id (g_st g) ->
  (if i <=? g_low g then 0 else g_ev g i k) <= proj k (unit_of (g_st g) i) <= g_ev g i k.
Proof.
  intros [] Hi. pose proof (i_nonneg0 i k) as Hn. unfold unit_of.
  destruct (Z.eqb_spec i (cur_id (g_st g))) as [->|Ne].
  - rewrite i_cur0. destruct (_ <=? _); lia.
  - assert (Lt : i < cur_id (g_st g)) by lia. specialize (i_db0 i k Lt). unfold stored.
    destruct (db_get i (db (g_st g))).
    + rewrite i_db0. destruct (_ <=? _); lia.
    + rewrite proj_empty. destruct (Z.leb_spec i (g_low g)); lia.
Qed.

Section Conservation.
  Variable g : gs.
  Hypothesis HI : Inv g.
  Local Notation s := (g_st g).

  Lemma inv_bounds : min_id <= cur_id s < max_id /\ 1 <= lim s <= 8760.
  Proof. destruct HI. pose proof (lim_bounds _ i_lim0). unfold lim. lia. Qed.

  (** (a) never more than the accepted, un-cleared updates of the window *)
  Lemma conservation_upper k : rep k s <= wsum s (fun i => g_ev g i k).
  Proof.
    destruct inv_bounds as [Hc HL]. rewrite rep_wsum by assumption.
    apply zsum_map_le. intros i Hi. apply window_hours_In in Hi; [|lia].
    apply hour_bounds; [assumption|lia].
  Qed.

  (** (b) nothing lost of hours that stayed inside the window *)
  Lemma conservation_lower k :
    wsum s (fun i => if i <=? g_low g then 0 else g_ev g i k) <= rep k s.
  Proof.
    destruct inv_bounds as [Hc HL]. rewrite rep_wsum by assumption.
    apply zsum_map_le. intros i Hi. apply window_hours_In in Hi; [|lia].
    apply hour_bounds; [assumption|lia].
  Qed.

  (** equality outright while the limit has not been raised *)
  Lemma conservation_exact k :
    g_raised g = false -> rep k s = wsum s (fun i => g_ev g i k).
  Proof.
    intros Hr. pose proof (conservation_upper k) as U. pose proof (conservation_lower k) as L.
    destruct inv_bounds as [Hc HL].
    assert (E : wsum s (fun i => if i <=? g_low g then 0 else g_ev g i k) = wsum s (fun i => g_ev g i k)).
    { apply zsum_map_eq. intros i Hi. apply window_hours_In in Hi; [|lia].
      pose proof (i_low g HI Hr) as Hl.
      destruct (Z.leb_spec i (g_low g)); [lia|reflexivity]. }
    lia.
  Qed.

  (** The reported total is the sum of the five categories. *)
  Lemma reported_one_category :
    rep CTotal s = rep (CCat NF) s + rep (CCat F) s + rep (CCat SB) s + rep (CCat SS) s + rep (CCat P) s.
  Proof.
    destruct inv_bounds as [Hc HL]. rewrite !rep_wsum by assumption.
    unfold wsum. generalize (window_hours_In s). intros HW.
    assert (Hu : forall i, In i (window_hours s) ->
      proj CTotal (unit_of s i) = proj (CCat NF) (unit_of s i) + proj (CCat F) (unit_of s i) +
        proj (CCat SB) (unit_of s i) + proj (CCat SS) (unit_of s i) + proj (CCat P) (unit_of s i)).
    { intros i Hi. apply HW in Hi; [|lia]. destruct HI. unfold unit_of.
      destruct (Z.eqb_spec i (cur_id s)) as [->|Ne].
      - rewrite !i_cur0. apply i_onecat0.
      - assert (Lt : i < cur_id s) by lia. unfold stored.
        pose proof (fun k => i_db0 i k Lt) as D.
        destruct (db_get i (db s)).
        + rewrite !D. apply i_onecat0.
        + reflexivity. }
    clear HW. induction (window_hours s) as [|a l IH]; [reflexivity|].
    cbn [map]. unfold zsum in *. cbn [fold_right].
    rewrite (Hu a) by (left; reflexivity).
    rewrite IH by (intros; apply Hu; right; assumption). lia.
  Qed.
End Conservation.

(** * Series *)

(** [C09_hourly_sums]: in every state, hourly series sum to the totals. *)
Lemma hourly_sums s :
  d_days (get_data s) = false ->
  zsum (d_dns (get_data s)) = d_num (get_data s) /\
  zsum (d_blocked (get_data s)) = d_num_f (get_data s) /\
  zsum (d_sb (get_data s)) = d_num_sb (get_data s) /\
  zsum (d_par (get_data s)) = d_num_p (get_data s).
Proof.
  unfold get_data. cbn [d_days d_dns d_blocked d_sb d_par d_num d_num_f d_num_sb d_num_p].
  intros E. rewrite E. cbn [series]. auto.
Qed.

Lemma hourly_length s :
  d_days (get_data s) = false -> 1 <= lim s ->
  Z.of_nat (length (d_dns (get_data s))) = lim s.
Proof.
  unfold get_data. cbn [d_days d_dns]. intros E HL. rewrite E. cbn [series].
  unfold load_units, window_ids. rewrite map_length, app_length, !map_length, zseq_length.
  cbn [length]. lia.
Qed.

Lemma firstn_add {A} a b (l : list A) : firstn (a + b) l = firstn a l ++ firstn b (skipn a l).
Proof.
  revert l; induction a as [|a IH]; intros l; [reflexivity|].
  destruct l as [|x l]; cbn [Nat.add firstn skipn app].
  - destruct b; reflexivity.
  - rewrite IH. reflexivity.
Qed.

Lemma zsum_chunk_sums n l : zsum (chunk_sums n l) = zsum (firstn (24 * n) l).
Proof.
  revert l; induction n as [|n IH]; intros l; [reflexivity|].
  replace (24 * S n)%nat with (24 + 24 * n)%nat by lia.
  rewrite firstn_add, zsum_app. cbn [chunk_sums]. rewrite <- IH. reflexivity.
Qed.

Definition nonneg (l : list Z) : Prop := Forall (fun x => 0 <= x) l.

Lemma nonneg_skipn n l : nonneg l -> nonneg (skipn n l).
Proof.
  revert l; induction n as [|n IH]; intros l H; [exact H|].
  destruct l; [exact H|]. cbn [skipn]. apply IH. inversion H; assumption.
Qed.

Lemma zsum_firstn_le n l : nonneg l -> zsum (firstn n l) <= zsum l.
Proof.
  intros H. rewrite <- (firstn_skipn n l) at 2. rewrite zsum_app.
  pose proof (zsum_nonneg _ (nonneg_skipn n l H)). lia.
Qed.

Lemma zsum_skipn_le n l : nonneg l -> zsum (skipn n l) <= zsum l.
Proof.
  intros H. rewrite <- (firstn_skipn n l) at 2. rewrite zsum_app.
  assert (nonneg (firstn n l)).
  { clear -H. revert l H; induction n; intros l H; [constructor|].
    destruct l; [constructor|]. inversion H; subst. cbn [firstn]. constructor; [assumption|apply IHn; assumption]. }
  pose proof (zsum_nonneg _ H0). lia.
Qed.

Lemma series_le days c n l : nonneg l -> zsum (series days c n l) <= zsum l.
Proof.
  intros H. unfold series. destruct days; [|lia].
  rewrite zsum_chunk_sums.
  etransitivity; [apply zsum_firstn_le, nonneg_skipn, H|apply zsum_skipn_le, H].
Qed.

(** Counters of the loaded units of a reachable state are non-negative. *)
Lemma loaded_nonneg g k : Inv g -> nonneg (map (proj k) (load_units (g_st g))).
Proof.
  intros HI. destruct (inv_bounds g HI) as [Hc HL]. destruct HI.
  unfold load_units. rewrite window_ids_nowrap by assumption.
  rewrite map_app. apply Forall_app. split.
  - rewrite map_map. apply Forall_forall. intros x Hx. apply in_map_iff in Hx.
    destruct Hx as [i [<- Hi]]. apply zseq_In in Hi.
    assert (Lt : i < cur_id (g_st g)) by lia. specialize (i_db0 i k Lt). unfold stored.
    destruct (db_get i (db (g_st g))).
    + rewrite i_db0. apply i_nonneg0.
    + rewrite proj_empty. lia.
  - constructor; [|constructor]. rewrite proj_ser, i_cur0. apply i_nonneg0.
Qed.

(** [C09_daily_le_total] (reachable states, hourly or daily): no series sums
    to more than its total. *)
Lemma series_le_total g :
  Inv g ->
  zsum (d_dns (get_data (g_st g))) <= d_num (get_data (g_st g)) /\
  zsum (d_blocked (get_data (g_st g))) <= d_num_f (get_data (g_st g)) /\
  zsum (d_sb (get_data (g_st g))) <= d_num_sb (get_data (g_st g)) /\
  zsum (d_par (get_data (g_st g))) <= d_num_p (get_data (g_st g)).
Proof.
  intros HI. unfold get_data. cbn [d_dns d_blocked d_sb d_par d_num d_num_f d_num_sb d_num_p].
  repeat split; apply series_le.
  - exact (loaded_nonneg g CTotal HI).
  - exact (loaded_nonneg g (CCat F) HI).
  - exact (loaded_nonneg g (CCat SB) HI).
  - exact (loaded_nonneg g (CCat P) HI).
Qed.

(** * Serialisation is idempotent *)

Lemma filter_filter_length {A} (f g : A -> bool) l :
  (length (filter f (filter g l)) <= length (filter f l))%nat.
Proof.
  induction l as [|a l IH]; cbn [filter]; [lia|].
  destruct (g a); cbn [filter]; destruct (f a); cbn [length]; lia.
Qed.

Lemma filter_id {A} (f : A -> bool) l : (forall x, In x l -> f x = true) -> filter f l = l.
Proof.
  induction l as [|a l IH]; intros H; cbn [filter]; [reflexivity|].
  rewrite (H a) by (left; reflexivity). f_equal. apply IH. intros; apply H; right; assumption.
Qed.

Lemma cut100_idem m : cut100 (cut100 m) = cut100 m.
Proof.
  destruct (Z.leb_spec (Z.of_nat (length m)) max_top) as [Le|Gt].
  - assert (E : cut100 m = m).
    { unfold cut100. destruct (Z.leb_spec (Z.of_nat (length m)) max_top); [reflexivity|lia]. }
    rewrite !E. reflexivity.
  - set (m' := filter (fun b => rank m b <? max_top) m).
    assert (E : cut100 m = m').
    { unfold cut100. destruct (Z.leb_spec (Z.of_nat (length m)) max_top); [lia|reflexivity]. }
    rewrite E. unfold cut100.
    destruct (Z.of_nat (length m') <=? max_top); [reflexivity|].
    apply filter_id. intros b Hb. apply filter_In in Hb. destruct Hb as [_ Hb].
    apply Z.ltb_lt in Hb. apply Z.ltb_lt.
    pose proof (filter_filter_length (fun a => before a b) (fun b => rank m b <? max_top) m) as H.
    fold m' in H. unfold rank at 1. unfold rank in Hb. lia.
Qed.

Lemma u32_idem x : u32 (u32 x) = u32 x.
Proof. unfold u32. apply Z.mod_mod. lia. Qed.

Lemma time_avg_ser u : time_avg (ser u) = time_avg u.
Proof.
  unfold time_avg at 1. cbn [ser u_total u_tsum].
  destruct (Z.eqb_spec (u_total u) 0) as [E|N].
  - unfold time_avg. rewrite E. reflexivity.
  - rewrite Z.div_mul by assumption. unfold time_avg.
    destruct (Z.eqb_spec (u_total u) 0); [contradiction|]. apply u32_idem.
Qed.

Lemma ser_idem u : ser (ser u) = ser u.
Proof.
  unfold ser at 1. rewrite time_avg_ser. cbn [ser u_total u_nf u_f u_sb u_ss u_p u_dom u_blk u_cli u_up u_upt].
  rewrite !cut100_idem. reflexivity.
Qed.

(** The cut only removes pairs: every name it keeps has its own count. *)
Lemma cut100_incl m : incl (cut100 m) m.
Proof.
  unfold cut100. destruct (_ <=? _); [apply incl_refl|].
  intros x Hx. apply filter_In in Hx. tauto.
Qed.

(** * Restart *)

(** Close; New in the same hour changes nothing that can be read. *)
Lemma restart_same_hour g :
  Inv g ->
  let s := g_st g in
  load_units (restart s (cur_id s)) = load_units s /\ cur_id (restart s (cur_id s)) = cur_id s /\
  lim_ms (restart s (cur_id s)) = lim_ms s /\ enabled (restart s (cur_id s)) = enabled s.
Proof.
  intros HI s. destruct (inv_bounds g HI) as [Hc HL]. fold s in Hc, HL.
  unfold min_id, max_id in *.
  repeat split. unfold load_units. f_equal.
  - assert (W : window_ids (restart s (cur_id s)) = window_ids s) by reflexivity.
    rewrite W. rewrite window_ids_nowrap by (unfold min_id, max_id; lia).
    apply map_ext_in. intros i Hi. apply zseq_In in Hi.
    unfold stored, restart, open_db, close_db. cbn [db]. fold (lim s).
    rewrite u32_small by lia. rewrite db_get_del_below, db_get_put.
    destruct (Z.leb_spec (cur_id s - lim s - 1) i); [|lia].
    destruct (Z.eqb_spec i (cur_id s)); [lia|reflexivity].
  - f_equal. unfold restart, open_db, close_db. cbn [cur]. fold (lim s).
    rewrite u32_small by lia. rewrite db_get_del_below, db_get_put, Z.eqb_refl.
    destruct (Z.leb_spec (cur_id s - lim s - 1) (cur_id s)); [apply ser_idem|lia].
Qed.

Lemma get_data_ext s s' :
  load_units s' = load_units s -> cur_id s' = cur_id s -> get_data s' = get_data s.
Proof. intros E C. unfold get_data. rewrite E, C. reflexivity. Qed.

(** [C09_restart]: close; new preserves the invariant with the same events
    (the abstraction is unchanged); in the same hour the answers are equal. *)
Lemma restart_preserves g id :
  Inv g -> g_clock g <= id < max_id -> g_phase g = PNormal ->
  Inv (gstep g (ORestart id)) /\
  g_ev (gstep g (ORestart id)) = g_ev g /\
  (id = cur_id (g_st g) ->
   get_data (restart (g_st g) id) = get_data (g_st g) /\
   num_nf (restart (g_st g) id) = num_nf (g_st g)).
Proof.
  intros HI Hc Hp. split; [apply inv_restart; assumption|]. split; [reflexivity|].
  intros ->. destruct (restart_same_hour g HI) as [E [C _]]. split.
  - apply get_data_ext; assumption.
  - unfold num_nf. rewrite E. reflexivity.
Qed.

(** * The theorems over histories *)

Theorem conservation id ms en h k :
  init_ok id ms -> wf_hist id h ->
  let g := grun (ginit id ms en) h in
  let s := run (init id ms en) h in
  rep k s <= wsum s (fun i => g_ev g i k) /\
  wsum s (fun i => if i <=? g_low g then 0 else g_ev g i k) <= rep k s /\
  (g_raised g = false -> rep k s = wsum s (fun i => g_ev g i k)).
Proof.
  intros Hi W g s. pose proof (reachable_inv id ms en h Hi W) as HI. fold g in HI.
  assert (E : s = g_st g) by (unfold s, g; rewrite grun_st; reflexivity).
  rewrite E. split; [apply conservation_upper; assumption|].
  split; [apply conservation_lower; assumption|apply conservation_exact; assumption].
Qed.

Theorem one_category_reported id ms en h :
  init_ok id ms -> wf_hist id h ->
  let s := run (init id ms en) h in
  d_num (get_data s) =
    num_nf s + d_num_f (get_data s) + d_num_sb (get_data s) + d_num_ss (get_data s) + d_num_p (get_data s).
Proof.
  intros Hi W s. pose proof (reachable_inv id ms en h Hi W) as HI.
  assert (E : s = g_st (grun (ginit id ms en) h)) by (unfold s; rewrite grun_st; reflexivity).
  rewrite E. apply (reported_one_category _ HI).
Qed.

Theorem daily_le_total id ms en h :
  init_ok id ms -> wf_hist id h ->
  let d := get_data (run (init id ms en) h) in
  zsum (d_dns d) <= d_num d /\ zsum (d_blocked d) <= d_num_f d /\
  zsum (d_sb d) <= d_num_sb d /\ zsum (d_par d) <= d_num_p d.
Proof.
  intros Hi W. pose proof (reachable_inv id ms en h Hi W) as HI.
  cbv zeta. change (init id ms en) with (g_st (ginit id ms en)).
  rewrite <- (grun_st (ginit id ms en) h). apply series_le_total. exact HI.
Qed.

(** * The premises are satisfiable, the conclusions not vacuous *)

Definition ex_e (r : Z) : entry := {| e_res := r; e_dom := 1; e_cli := 2; e_ups := [(1, true, 2500)]; e_time := 1500 |}.
Definition ex_all5 := [OUpdate (ex_e 1); OUpdate (ex_e 2); OUpdate (ex_e 3); OUpdate (ex_e 4); OUpdate (ex_e 5)].

(** Three hours with five updates each under a 48 h limit; the limit is
    lowered to 2 h for two flushes (hour +2 is deleted), then raised again:
    15 updates in the window, 10 reported (two undeleted hours reappear), none
    guaranteed. *)
Definition ex_hist : list op :=
  ex_all5 ++ [OFlush 490001] ++ ex_all5 ++ [OFlush 490002] ++ ex_all5 ++
  [OFlush 490003; OPutConfig (2 * ms_hour) true; OFlush 490004; OFlush 490005;
   OPutConfig (48 * ms_hour) true; OFlush 490006].

Example conservation_premises :
  init_ok 490000 (48 * ms_hour) /\ wf_hist 490000 ex_hist /\
  let g := grun (ginit 490000 (48 * ms_hour) true) ex_hist in
  let s := g_st g in
  rep CTotal s = 10 /\ wsum s (fun i => g_ev g i CTotal) = 15 /\
  wsum s (fun i => if i <=? g_low g then 0 else g_ev g i CTotal) = 0 /\ g_raised g = true.
Proof.
  split; [split; [unfold min_id, max_id; lia|reflexivity]|].
  split; [unfold wf_hist; cbn [wf_from op_id phase_ok phase_step ex_hist ex_all5 app]; unfold max_id; repeat split; lia|].
  vm_compute. repeat split.
Qed.

(** Without raising the limit: hour +0 falls out of a 2 h window, 7 of 12
    updates remain and are reported exactly; restart in between. *)
Definition ex_hist2 : list op :=
  ex_all5 ++ [OFlush 490001] ++ ex_all5 ++ [ORestart 490001; OUpdate (ex_e 2); ORestart 490002; OUpdate (ex_e 3)].

Example conservation_exact_premises :
  wf_hist 490000 ex_hist2 /\
  let g := grun (ginit 490000 (2 * ms_hour) true) ex_hist2 in
  let s := g_st g in
  g_raised g = false /\ rep CTotal s = 7 /\ wsum s (fun i => g_ev g i CTotal) = 7 /\
  rep (CCat F) s = 2 /\ zsum (d_dns (get_data s)) = 7 /\ d_days (get_data s) = false.
Proof.
  split; [unfold wf_hist; cbn [wf_from op_id phase_ok phase_step ex_hist2 ex_all5 app]; unfold max_id; repeat split; lia|].
  vm_compute. repeat split.
Qed.

Example update_one_category_premises :
  let s := init 490000 (24 * ms_hour) true in
  accepts s (ex_e 3) = true /\ 0 <= e_res (ex_e 3) /\ u_sb (cur (update s (ex_e 3))) = 1.
Proof. vm_compute. repeat split; discriminate. Qed.

(** A negative result code passes validation (and panics in the code). *)
Example negative_result_panics :
  update_panics (init 490000 (24 * ms_hour) true) (ex_e (-1)) = true.
Proof. reflexivity. Qed.

(** * Time units and series lengths *)

Lemma load_units_length s : 1 <= lim s -> Z.of_nat (length (load_units s)) = lim s.
Proof.
  intros HL. unfold load_units, window_ids.
  rewrite app_length, !map_length, zseq_length. cbn [length]. lia.
Qed.

(** The switch to days: more than 7 whole days of limit. *)
Lemma time_units s : 1 <= lim s -> d_days (get_data s) = (7 <? lim s / 24).
Proof.
  intros HL. unfold get_data. cbn [d_days]. rewrite load_units_length by assumption. reflexivity.
Qed.

Lemma chunk_sums_length n l : length (chunk_sums n l) = n.
Proof. revert l; induction n; intros l; cbn [chunk_sums length]; auto. Qed.

Lemma daily_length s :
  1 <= lim s -> d_days (get_data s) = true ->
  Z.of_nat (length (d_dns (get_data s))) = lim s / 24.
Proof.
  intros HL. unfold get_data. cbn [d_days d_dns]. intros E. rewrite E. cbn [series].
  rewrite chunk_sums_length, load_units_length by assumption. lia.
Qed.

(** * Restart in a later hour reads like the hourly flush *)

Lemma restart_later_hour g id :
  Inv g -> cur_id (g_st g) < id < max_id -> g_phase g = PNormal ->
  load_units (restart (g_st g) id) = load_units (flush (g_st g) id) /\
  cur_id (restart (g_st g) id) = cur_id (flush (g_st g) id).
Proof.
  intros HI Hid Hp. destruct (inv_bounds g HI) as [Hc HL]. destruct HI.
  unfold min_id, max_id in *.
  assert (Hnil : dbnil (g_st g) = false).
  { destruct (dbnil (g_st g)); [|reflexivity]. destruct i_nil0 as [N _]. specialize (N eq_refl). congruence. }
  unfold flush. destruct (Z.eqb_spec (lim (g_st g)) 0) as [E0|_]; [lia|].
  destruct (Z.eqb_spec (cur_id (g_st g)) id) as [E1|_]; [lia|]. cbn [orb]. rewrite Hnil.
  split; [|reflexivity].
  unfold load_units. f_equal.
  - assert (W : window_ids (restart (g_st g) id) =
                window_ids (with_cur (g_st g) id empty_unit
                  (db_del (u32 (id - lim (g_st g)))
                     (db_put (cur_id (g_st g)) (ser (cur (g_st g))) (db (g_st g)))))) by reflexivity.
    rewrite W. rewrite window_ids_nowrap by (unfold min_id, max_id, lim in *; cbn; lia).
    apply map_ext_in. intros i Hi. apply zseq_In in Hi. cbn [cur_id with_cur] in Hi.
    change (lim (with_cur (g_st g) id empty_unit _)) with (lim (g_st g)) in Hi.
    unfold stored, restart, open_db, close_db. cbn [db with_cur]. fold (lim (g_st g)).
    rewrite !u32_small by lia. rewrite db_get_del_below, db_get_del.
    destruct (Z.leb_spec (id - lim (g_st g) - 1) i); [|lia].
    destruct (Z.eqb_spec i (id - lim (g_st g))); [lia|reflexivity].
  - f_equal. unfold restart, open_db, close_db. cbn [cur with_cur]. fold (lim (g_st g)).
    rewrite u32_small by lia. rewrite db_get_del_below, db_get_put.
    destruct (Z.leb_spec (id - lim (g_st g) - 1) id); [|lia].
    destruct (Z.eqb_spec id (cur_id (g_st g))); [lia|].
    destruct (db_get id (db (g_st g))) eqn:G; [|reflexivity].
    apply i_dbtop0 in G. lia.
Qed.

(** Daily series strictly below the total: 8 days of limit, five updates in
    the first hours of the window (which the daily series skips), three in
    the current hour. *)
Definition ex_hist3 : list op :=
  ex_all5 ++ [OFlush 490191; OUpdate (ex_e 1); OUpdate (ex_e 2); OUpdate (ex_e 2)].

Example daily_premises :
  wf_hist 490000 ex_hist3 /\
  let d := get_data (run (init 490000 (192 * ms_hour) true) ex_hist3) in
  d_days d = true /\ zsum (d_dns d) = 3 /\ d_num d = 8 /\ length (d_dns d) = 8%nat /\
  zsum (d_blocked d) = 2 /\ d_num_f d = 3.
Proof.
  split; [unfold wf_hist; cbn [wf_from op_id phase_ok phase_step ex_hist3 ex_all5 app]; unfold max_id; repeat split; lia|].
  vm_compute. repeat split.
Qed.


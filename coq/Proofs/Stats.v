(** Proofs about Model/Stats.v (C09).

    The conservation theorem is a refinement: alongside the model's state a
    ghost record is kept, computed by plain recursion over the history:

      [g_ev i k]   how many accepted updates were counted while hour [i] was
                   current, for counter [k] (the total, or one result category),
                   since the last clear;
      [g_low]      the largest [id - limit] seen at a flush or restart since the
                   last clear: hours [<= g_low] have been outside the retention
                   window at some flush/restart;
      [g_raised]   the limit has been raised since the last clear;
      [g_clock]    the last value of the hour clock the code has read.

    The invariant [Inv] ties every stored unit and the current unit to [g_ev]. *)
From Coq Require Import ZArith List Bool Lia.
From AGH Require Import Model.Stats.
Import ListNotations.
Local Open Scope Z_scope.
Ltac Zify.zify_post_hook ::= Z.to_euclidean_division_equations.

(** * Arithmetic and lists *)

Definition min_id := 8762.            (* > 365 * 24 + 1: no unsigned wrap in id - limit - 1 *)
Definition max_id := 4294967296.

Lemma u32_small x : 0 <= x < 4294967296 -> u32 x = x.
Proof. intros; unfold u32; apply Z.mod_small; assumption. Qed.

Lemma lim_bounds ms : valid_ivl ms = true -> 1 <= ms / ms_hour <= 8760.
Proof.
  unfold valid_ivl, ms_day, ms_hour. rewrite andb_true_iff, !Z.leb_le. lia.
Qed.

Lemma zsum_app a b : zsum (a ++ b) = zsum a + zsum b.
Proof. induction a; cbn [zsum fold_right app] in *; unfold zsum in *; cbn; lia. Qed.

Lemma zsum_map_le {A} (f g : A -> Z) l :
  (forall x, In x l -> f x <= g x) -> zsum (map f l) <= zsum (map g l).
Proof.
  induction l as [|a l IH]; intros H; cbn; [lia|].
  assert (f a <= g a) by (apply H; left; reflexivity).
  assert (zsum (map f l) <= zsum (map g l)) by (apply IH; intros; apply H; right; assumption).
  unfold zsum in *; lia.
Qed.

Lemma zsum_map_eq {A} (f g : A -> Z) l :
  (forall x, In x l -> f x = g x) -> zsum (map f l) = zsum (map g l).
Proof. intros H. f_equal. apply map_ext_in. exact H. Qed.

Lemma zsum_nonneg l : Forall (fun x => 0 <= x) l -> 0 <= zsum l.
Proof. induction 1; cbn; unfold zsum in *; lia. Qed.

Lemma zseq_In a n x : In x (zseq a n) <-> a <= x < a + Z.of_nat n.
Proof.
  revert a; induction n as [|n IH]; intros a; cbn [zseq In].
  - lia.
  - rewrite IH. lia.
Qed.

Lemma zseq_snoc a n : zseq a (S n) = zseq a n ++ [a + Z.of_nat n].
Proof.
  revert a; induction n as [|n IH]; intros a.
  - cbn. f_equal. lia.
  - change (zseq a (S (S n))) with (a :: zseq (a + 1) (S n)). rewrite IH.
    cbn [zseq app]. do 3 f_equal. lia.
Qed.

Lemma zseq_length a n : length (zseq a n) = n.
Proof. revert a; induction n; intros; cbn; auto. Qed.

(** * The database *)

Lemma db_get_filter (P : Z -> bool) i d :
  db_get i (filter (fun p => P (fst p)) d) = if P i then db_get i d else None.
Proof.
  induction d as [|[j u] d IH]; cbn [filter db_get fst].
  - destruct (P i); reflexivity.
  - destruct (P j) eqn:Pj; cbn [db_get]; destruct (Z.eqb_spec i j) as [->|N].
    + rewrite Pj. reflexivity.
    + exact IH.
    + rewrite Pj. rewrite IH, Pj. reflexivity.
    + exact IH.
Qed.

Lemma db_get_del i j d : db_get i (db_del j d) = if i =? j then None else db_get i d.
Proof.
  unfold db_del. rewrite (db_get_filter (fun x => negb (x =? j))).
  destruct (i =? j); reflexivity.
Qed.

Lemma db_get_put i j u d : db_get i (db_put j u d) = if i =? j then Some u else db_get i d.
Proof.
  unfold db_put. cbn [db_get]. destruct (Z.eqb_spec i j) as [->|N]; [reflexivity|].
  rewrite db_get_del. destruct (Z.eqb_spec i j); [contradiction|reflexivity].
Qed.

Lemma db_get_del_below i f d :
  db_get i (db_del_below f d) = if f <=? i then db_get i d else None.
Proof. unfold db_del_below. apply (db_get_filter (fun x => f <=? x)). Qed.

(** * Counters *)

Inductive ctr := CTotal | CCat (c : cat).

Definition proj (k : ctr) (u : unit) : Z :=
  match k with CTotal => u_total u | CCat c => u_cat c u end.

Definition cat_eqb (a b : cat) : bool :=
  match a, b with
  | NF, NF | F, F | SB, SB | SS, SS | P, P => true
  | _, _ => false
  end.

(** Which counters an update of category [c] moves. *)
Definition hits (c : cat) (k : ctr) : bool :=
  match k with CTotal => true | CCat c' => cat_eqb c c' end.

Lemma proj_add_cat c e u k :
  proj k (add_cat c e u) = proj k u + (if hits c k then 1 else 0).
Proof. destruct c, k as [|[]]; cbn; lia. Qed.

Lemma proj_empty k : proj k empty_unit = 0.
Proof. destruct k as [|[]]; reflexivity. Qed.

(** [C09_one_category], step form: an accepted update adds one to the total
    and to exactly one category, and nothing to the other four. *)
Lemma update_one_category s e :
  accepts s e = true -> 0 <= e_res e ->
  exists c,
    u_total (cur (update s e)) = u_total (cur s) + 1 /\
    u_cat c (cur (update s e)) = u_cat c (cur s) + 1 /\
    (forall c', c' <> c -> u_cat c' (cur (update s e)) = u_cat c' (cur s)) /\
    cur_id (update s e) = cur_id s /\ db (update s e) = db s.
Proof.
  intros Ha Hr. unfold update. rewrite Ha.
  assert (Hv : validate e = true).
  { unfold accepts in Ha. rewrite !andb_true_iff in Ha. tauto. }
  unfold validate in Hv. rewrite !andb_true_iff, !negb_true_iff in Hv.
  destruct Hv as [[[H0 H6] _] _]. apply Z.eqb_neq in H0. apply Z.leb_gt in H6.
  assert (Hc : exists c, cat_of (e_res e) = Some c).
  { unfold cat_of.
    destruct (Z.eqb_spec (e_res e) 1); [eauto|]. destruct (Z.eqb_spec (e_res e) 2); [eauto|].
    destruct (Z.eqb_spec (e_res e) 3); [eauto|]. destruct (Z.eqb_spec (e_res e) 4); [eauto|].
    destruct (Z.eqb_spec (e_res e) 5); [eauto|]. lia. }
  destruct Hc as [c Hc]. rewrite Hc. exists c. cbn [with_cur cur cur_id db].
  repeat split.
  - apply (proj_add_cat c e (cur s) CTotal).
  - pose proof (proj_add_cat c e (cur s) (CCat c)) as H. cbn [proj] in H. rewrite H.
    destruct c; reflexivity.
  - intros c' Hn. pose proof (proj_add_cat c e (cur s) (CCat c')) as H. cbn [proj] in H.
    rewrite H. destruct c, c'; cbn; try lia; contradiction.
Qed.

(** * Ghost state *)

Definition ghost := Z -> ctr -> Z.
Definition g0 : ghost := fun _ _ => 0.

Record gs := {
  g_clock : Z;
  g_st : state;
  g_ev : ghost;
  g_low : Z;
  g_raised : bool
}.

(** The category an update is counted in, if it is accepted. *)
Definition counted (s : state) (e : entry) : option cat :=
  if accepts s e then cat_of (e_res e) else None.

Definition ev_step (s : state) (o : op) (ev : ghost) : ghost :=
  match o with
  | OUpdate e =>
      match counted s e with
      | Some c => fun i k => if (i =? cur_id s) && hits c k then ev i k + 1 else ev i k
      | None => ev
      end
  | OClear _ => g0
  | OSetDays d _ => if d =? 0 then g0 else ev
  | _ => ev
  end.

Definition low_step (s : state) (o : op) (low : Z) : Z :=
  match o with
  | OFlush id => if (lim s =? 0) || (cur_id s =? id) then low else Z.max low (id - lim s)
  | ORestart id => Z.max low (id - lim s)
  | OClear _ => 0
  | OSetDays d _ => if d =? 0 then 0 else low
  | _ => low
  end.

Definition raised_step (s : state) (o : op) (r : bool) : bool :=
  match o with
  | OClear _ => false
  | OSetDays d _ => if d =? 0 then false else r || (lim s <? lim (step s o))
  | OPutConfig _ _ => r || (lim s <? lim (step s o))
  | _ => r
  end.

(** The clock value an operation reads, if it reads the clock. *)
Definition op_id (o : op) : option Z :=
  match o with
  | OFlush id | ORestart id | OClear id | OSetDays _ id => Some id
  | _ => None
  end.

Definition gstep (g : gs) (o : op) : gs :=
  {| g_clock := match op_id o with Some id => id | None => g_clock g end;
     g_st := step (g_st g) o;
     g_ev := ev_step (g_st g) o (g_ev g);
     g_low := low_step (g_st g) o (g_low g);
     g_raised := raised_step (g_st g) o (g_raised g) |}.

Definition ginit (id ms : Z) (en : bool) : gs :=
  {| g_clock := id; g_st := init id ms en; g_ev := g0; g_low := 0; g_raised := false |}.

Definition grun (g : gs) (h : list op) : gs := fold_left gstep h g.

Lemma grun_st g h : g_st (grun g h) = run (g_st g) h.
Proof.
  revert g; induction h as [|o h IH]; intros g; [reflexivity|].
  change (grun g (o :: h)) with (grun (gstep g o) h). rewrite IH. reflexivity.
Qed.

(** Histories: the clock never goes back and stays a uint32. *)
Fixpoint wf_hist (c : Z) (h : list op) : Prop :=
  match h with
  | [] => True
  | o :: h' =>
      match op_id o with
      | Some id => c <= id < max_id /\ wf_hist id h'
      | None => wf_hist c h'
      end
  end.

Definition init_ok (id ms : Z) : Prop := min_id <= id < max_id /\ valid_ivl ms = true.

(** * The invariant *)

Record Inv (g : gs) : Prop := {
  i_range : min_id <= cur_id (g_st g) <= g_clock g /\ g_clock g < max_id;
  i_lim : valid_ivl (lim_ms (g_st g)) = true;
  i_future : forall i k, cur_id (g_st g) < i -> g_ev g i k = 0;
  i_cur : forall k, proj k (cur (g_st g)) = g_ev g (cur_id (g_st g)) k;
  i_dbtop : forall i u, db_get i (db (g_st g)) = Some u -> i <= cur_id (g_st g);
  i_db : forall i k, i < cur_id (g_st g) ->
           match db_get i (db (g_st g)) with
           | Some u => proj k u = g_ev g i k
           | None => i <= g_low g \/ g_ev g i k = 0
           end;
  i_nonneg : forall i k, 0 <= g_ev g i k;
  i_onecat : forall i, g_ev g i CTotal =
               g_ev g i (CCat NF) + g_ev g i (CCat F) + g_ev g i (CCat SB) +
               g_ev g i (CCat SS) + g_ev g i (CCat P);
  i_low : g_raised g = false -> g_low g <= cur_id (g_st g) - lim (g_st g)
}.

Definition op_ok (c : Z) (o : op) : Prop :=
  match op_id o with Some id => c <= id < max_id | None => True end.

Lemma inv_init id ms en : init_ok id ms -> Inv (ginit id ms en).
Proof.
  intros [Hid Hms]. pose proof (lim_bounds ms Hms) as HL. unfold min_id, max_id in *.
  constructor; cbn; unfold lim, min_id, max_id; cbn; intros; try assumption; try reflexivity; try lia; try discriminate.
  - apply proj_empty.
  - right; reflexivity.
Qed.

(** Moving the clock only. *)
Lemma inv_clock g c' :
  Inv g -> g_clock g <= c' < max_id ->
  Inv {| g_clock := c'; g_st := g_st g; g_ev := g_ev g; g_low := g_low g; g_raised := g_raised g |}.
Proof. intros [] Hc. constructor; cbn; auto. lia. Qed.

(** Changing the configuration only. *)
Lemma inv_conf g c' ms en :
  Inv g -> g_clock g <= c' < max_id -> valid_ivl ms = true ->
  Inv {| g_clock := c'; g_st := with_conf (g_st g) ms en; g_ev := g_ev g; g_low := g_low g;
         g_raised := g_raised g || (lim (g_st g) <? ms / ms_hour) |}.
Proof.
  intros [] Hc Hms. constructor; cbn; auto. lia.
  intros Hr. apply orb_false_iff in Hr. destruct Hr as [Hr Hl]. apply Z.ltb_ge in Hl.
  specialize (i_low0 Hr). unfold lim at 1. cbn. lia.
Qed.

(** Clearing. *)
Lemma inv_clear g id en :
  Inv g -> g_clock g <= id < max_id ->
  Inv {| g_clock := id;
         g_st := clear (with_conf (g_st g) (lim_ms (g_st g)) en) id;
         g_ev := g0; g_low := 0; g_raised := false |}.
Proof.
  intros [] Hc. pose proof (lim_bounds _ i_lim0) as HL. unfold min_id, max_id in *.
  constructor; cbn; unfold lim, min_id, max_id; cbn; intros; try assumption; try reflexivity; try lia; try discriminate; auto.
  apply proj_empty.
Qed.

Lemma inv_update g e : Inv g -> Inv (gstep g (OUpdate e)).
Proof.
  intros H. unfold gstep; cbn [op_id step ev_step low_step raised_step].
  unfold update, counted. destruct (accepts (g_st g) e); [|destruct g; exact H].
  destruct (cat_of (e_res e)) as [c|]; [|destruct g; exact H].
  destruct H. constructor; cbn; auto.
  - intros i k Hi. destruct (Z.eqb_spec i (cur_id (g_st g))); [lia|]. cbn. auto.
  - intros k. rewrite proj_add_cat, Z.eqb_refl, i_cur0. cbn. destruct (hits c k); lia.
  - intros i k Hi. destruct (Z.eqb_spec i (cur_id (g_st g))); [lia|]. cbn. apply i_db0; assumption.
  - intros i k. specialize (i_nonneg0 i k).
    destruct ((i =? cur_id (g_st g)) && hits c k); lia.
  - intros i. specialize (i_onecat0 i).
    destruct (i =? cur_id (g_st g)); cbn; [|assumption]. destruct c; cbn; lia.
Qed.

Ltac sfields :=
  cbn [g_st g_ev g_low g_raised g_clock cur_id cur db lim_ms enabled with_cur with_conf].

Lemma inv_flush g id : Inv g -> g_clock g <= id < max_id -> Inv (gstep g (OFlush id)).
Proof.
  intros H Hc. unfold gstep; cbn [op_id step ev_step low_step raised_step]. unfold flush.
  destruct ((lim (g_st g) =? 0) || (cur_id (g_st g) =? id)) eqn:E.
  { apply inv_clock; assumption. }
  apply orb_false_iff in E. destruct E as [_ E]. apply Z.eqb_neq in E.
  destruct H. pose proof (lim_bounds _ i_lim0) as HL. fold (lim (g_st g)) in HL.
  unfold min_id, max_id in *.
  rewrite u32_small by lia.
  constructor; sfields.
  - unfold min_id, max_id; lia.
  - assumption.
  - intros i k Hi. apply i_future0. lia.
  - intros k. rewrite proj_empty. symmetry. apply i_future0. lia.
  - intros i u. rewrite db_get_del, db_get_put.
    destruct (i =? id - lim (g_st g)); [discriminate|].
    destruct (Z.eqb_spec i (cur_id (g_st g))); [lia|]. intros G. apply i_dbtop0 in G. lia.
  - intros i k Hi. rewrite db_get_del, db_get_put.
    destruct (Z.eqb_spec i (id - lim (g_st g))); [left; lia|].
    destruct (Z.eqb_spec i (cur_id (g_st g))) as [->|Ne]; [apply i_cur0|].
    destruct (Z_lt_le_dec i (cur_id (g_st g))) as [Lt|Ge].
    + specialize (i_db0 i k Lt). destruct (db_get i (db (g_st g))); [assumption|].
      destruct i_db0; [left; lia|right; assumption].
    + destruct (db_get i (db (g_st g))) eqn:G.
      * apply i_dbtop0 in G. lia.
      * right. apply i_future0. lia.
  - assumption.
  - assumption.
  - intros Hr. specialize (i_low0 Hr). unfold lim in *; sfields. lia.
Qed.

Lemma inv_restart g id : Inv g -> g_clock g <= id < max_id -> Inv (gstep g (ORestart id)).
Proof.
  intros H Hc. unfold gstep; cbn [op_id step ev_step low_step raised_step].
  unfold restart, open_db, close_db.
  destruct H. pose proof (lim_bounds _ i_lim0) as HL. fold (lim (g_st g)) in *.
  unfold min_id, max_id in *.
  rewrite u32_small by lia.
  assert (Hcur : forall k,
    proj k match db_get id (db_del_below (id - lim (g_st g) - 1)
                   (db_put (cur_id (g_st g)) (cur (g_st g)) (db (g_st g)))) with
           | Some u => u | None => empty_unit end = g_ev g id k).
  { intros k. rewrite db_get_del_below, db_get_put.
    destruct (Z.leb_spec (id - lim (g_st g) - 1) id); [|lia].
    destruct (Z.eqb_spec id (cur_id (g_st g))) as [->|Ne]; [apply i_cur0|].
    destruct (db_get id (db (g_st g))) eqn:G.
    - apply i_dbtop0 in G. lia.
    - rewrite proj_empty. symmetry. apply i_future0. lia. }
  constructor; sfields.
  - unfold min_id, max_id; lia.
  - assumption.
  - intros i k Hi. apply i_future0. lia.
  - exact Hcur.
  - intros i u. rewrite db_get_del_below, db_get_put.
    destruct (id - lim (g_st g) - 1 <=? i); [|discriminate].
    destruct (Z.eqb_spec i (cur_id (g_st g))); [lia|]. intros G. apply i_dbtop0 in G. lia.
  - intros i k Hi. rewrite db_get_del_below, db_get_put.
    destruct (Z.leb_spec (id - lim (g_st g) - 1) i); [|left; lia].
    destruct (Z.eqb_spec i (cur_id (g_st g))) as [->|Ne]; [apply i_cur0|].
    destruct (Z_lt_le_dec i (cur_id (g_st g))) as [Lt|Ge].
    + specialize (i_db0 i k Lt). destruct (db_get i (db (g_st g))); [assumption|].
      destruct i_db0; [left; lia|right; assumption].
    + destruct (db_get i (db (g_st g))) eqn:G.
      * apply i_dbtop0 in G. lia.
      * right. apply i_future0. lia.
  - assumption.
  - assumption.
  - intros Hr. specialize (i_low0 Hr). unfold lim in *; sfields. lia.
Qed.

Lemma checked_days_valid d : checked_days d = true -> d <> 0 -> valid_ivl (d * ms_day) = true.
Proof.
  unfold checked_days. rewrite !orb_true_iff, !Z.eqb_eq.
  intros [[[[->| ->]| ->]| ->]| ->] Hd; try reflexivity. contradiction.
Qed.

Lemma inv_step g o : Inv g -> op_ok (g_clock g) o -> Inv (gstep g o).
Proof.
  intros H Hok. destruct o as [e|id|id|id|d id|ms en]; unfold op_ok in Hok; cbn [op_id] in Hok.
  - apply inv_update; assumption.
  - apply inv_flush; assumption.
  - apply inv_restart; assumption.
  - exact (inv_clear g id (enabled (g_st g)) H Hok).
  - unfold gstep; cbn [op_id step ev_step low_step raised_step]. unfold set_limit_days.
    destruct (checked_days d) eqn:C; cbn [negb].
    + destruct (Z.eqb_spec d 0) as [->|Nd].
      * exact (inv_clear g id false H Hok).
      * exact (inv_conf g id (d * ms_day) true H Hok (checked_days_valid d C Nd)).
    + destruct (Z.eqb_spec d 0) as [->|Nd]; [discriminate C|].
      rewrite Z.ltb_irrefl, orb_false_r. apply inv_clock; assumption.
  - unfold gstep; cbn [op_id step ev_step low_step raised_step]. unfold put_config.
    assert (Hc : g_clock g <= g_clock g < max_id) by (destruct H; lia).
    destruct (valid_ivl ms) eqn:V.
    + exact (inv_conf g (g_clock g) ms en H Hc V).
    + rewrite Z.ltb_irrefl, orb_false_r. destruct g; exact H.
Qed.

Lemma wf_hist_app c h o :
  wf_hist c (h ++ [o]) <->
  wf_hist c h /\ op_ok (fold_left (fun c o => match op_id o with Some id => id | None => c end) h c) o.
Proof.
  revert c; induction h as [|a h IH]; intros c; cbn [app wf_hist fold_left].
  - unfold op_ok. destruct (op_id o); tauto.
  - destruct (op_id a); rewrite IH; tauto.
Qed.

Lemma inv_run h : forall g, Inv g -> wf_hist (g_clock g) h -> Inv (grun g h).
Proof.
  induction h as [|o h IH]; intros g H W; [exact H|].
  change (grun g (o :: h)) with (grun (gstep g o) h).
  cbn [wf_hist] in W.
  assert (Hok : op_ok (g_clock g) o /\ wf_hist (g_clock (gstep g o)) h).
  { unfold op_ok, gstep; cbn [g_clock]. destruct (op_id o); tauto. }
  apply IH; [apply inv_step; tauto|tauto].
Qed.

(** Every reachable ghost state satisfies the invariant. *)
Theorem reachable_inv id ms en h :
  init_ok id ms -> wf_hist id h -> Inv (grun (ginit id ms en) h).
Proof. intros Hi W. apply inv_run; [apply inv_init; assumption|exact W]. Qed.

(** Simultaneous logins (Model/LoginConc.v): with the control lock around the
    handler every interleaving of any number of login requests is a sequential
    history of handleLogin, so the throttling theorems (stated for sequential
    histories) hold for concurrent attempts; without it they do not. *)
From AGH Require Import Base.Run Model.RateLimit Model.LoginConc Proofs.RateLimit.
From stdpp Require Import gmap.
From Coq Require Import Lia.
Local Open Scope Z_scope.

Definition log_atts (l : list (nat * att * login_out)) : list att := map (fun x => snd (fst x)) l.
Definition log_outs (l : list (nat * att * login_out)) : list login_out := map snd l.

Lemma run_logins_snoc c s h e :
  run_logins c s (h ++ [e]) =
  (fst (login c e (fst (run_logins c s h))), snd (run_logins c s h) ++ [snd (login c e (fst (run_logins c s h)))]).
Proof.
  revert s. induction h as [|x h IH]; intros s; cbn [app run_logins].
  - cbn [fst snd app]. destruct (login c e s) as [s1 o]. reflexivity.
  - destruct (login c x s) as [s1 o]. rewrite IH. destruct (run_logins c s1 h) as [s2 os]. cbn [fst snd app]. reflexivity.
Qed.

Definition mid (pc : lpc) : Prop := pc = LChecked \/ pc = LEvald.

Record linv (c : rl_conf) (s0 : rl_state) (st : lstate) : Prop := {
  li_seq : run_logins c s0 (log_atts (l_log st)) = (l_seq st, log_outs (l_log st));
  li_free : l_ctl st = None -> l_tab st = l_seq st;
  li_held : forall i, l_ctl st = Some i ->
      exists e pc lft, l_thr st !! i = Some (e, pc) /\ mid pc /\
        rl_check c (a_now e) (l_seq st) (a_addr e) = (l_tab st, lft) /\ (0 <? lft) = false;
  li_mid : forall j e pc, l_thr st !! j = Some (e, pc) -> mid pc -> l_ctl st = Some j;
  li_done : forall j e o, l_thr st !! j = Some (e, LDone o) -> (j, e, o) ∈ l_log st;
}.

Lemma linv_init c s0 atts : linv c s0 (linit s0 atts).
Proof.
  split; cbn; auto; try discriminate.
  - intros j e pc H [-> | ->]; apply list_lookup_fmap_Some in H as (x & _ & Hx); inversion Hx.
  - intros j e o H. apply list_lookup_fmap_Some in H as (x & _ & Hx). inversion Hx.
Qed.

Lemma lk_upd {A} (l : list A) i x j y :
  <[i := x]> l !! j = Some y -> (j = i /\ y = x) \/ (j <> i /\ l !! j = Some y).
Proof.
  intros H. destruct (decide (j = i)) as [->|Hne].
  - left. split; auto. destruct (l !! i) eqn:E.
    + rewrite list_lookup_insert in H by (eapply lookup_lt_Some; eauto). congruence.
    + rewrite list_insert_ge in H by (apply lookup_ge_None; auto). congruence.
  - right. split; auto. rewrite list_lookup_insert_ne in H by auto. auto.
Qed.

Lemma login_of_check c e s s1 lft :
  rl_check c (a_now e) s (a_addr e) = (s1, lft) ->
  login c e s = if 0 <? lft then (s1, L429 lft)
                else if a_ok e then (rl_remove s1 (a_addr e), L200)
                else (rl_inc c (a_now2 e) s1 (a_addr e), L403).
Proof. intros H. unfold login, login_with. cbn [pick]. rewrite H. reflexivity. Qed.

Local Opaque login rl_check.

Lemma lstep_linv c s0 i st st' : linv c s0 st -> lstep true c i st = Some st' -> linv c s0 st'.
Proof.
  intros Hi Hs. unfold lstep in Hs.
  destruct (l_thr st !! i) as [[e pc]|] eqn:Et; [|discriminate].
  destruct pc as [| | |o0].
  - (* the first step: the lock must be free *)
    destruct (l_ctl st) as [h|] eqn:Ec; cbn [andb] in Hs; [discriminate|].
    pose proof (li_free _ _ _ Hi Ec) as Hts.
    destruct (rl_check c (a_now e) (l_tab st) (a_addr e)) as [s1 lft] eqn:Ek.
    assert (Ek' : rl_check c (a_now e) (l_seq st) (a_addr e) = (s1, lft)) by (rewrite <- Hts; exact Ek).
    pose proof (login_of_check _ _ _ _ _ Ek') as Hl.
    destruct (0 <? lft) eqn:Eb; injection Hs as <-; split; cbn.
    + unfold log_atts, log_outs. rewrite !map_app. cbn. fold (log_atts (l_log st)). fold (log_outs (l_log st)).
      rewrite run_logins_snoc, (li_seq _ _ _ Hi). cbn. rewrite Hl. reflexivity.
    + intros _. rewrite Hl. reflexivity.
    + discriminate.
    + intros j e' pc' Hj Hm. apply lk_upd in Hj as [[-> [= -> ->]]|[Hne Hj]].
      * destruct Hm; discriminate.
      * pose proof (li_mid _ _ _ Hi _ _ _ Hj Hm). congruence.
    + intros j e' o' Hj. apply elem_of_app. apply lk_upd in Hj as [[-> [= -> ->]]|[Hne Hj]].
      * right. left.
      * left. eapply li_done; eauto.
    + exact (li_seq _ _ _ Hi).
    + discriminate.
    + intros i' [= <-]. exists e, LChecked, lft. rewrite list_lookup_insert by (eapply lookup_lt_Some; eauto).
      repeat split; auto. left; reflexivity.
    + intros j e' pc' Hj Hm. apply lk_upd in Hj as [[-> _]|[Hne Hj]]; [reflexivity|].
      pose proof (li_mid _ _ _ Hi _ _ _ Hj Hm). congruence.
    + intros j e' o' Hj. apply lk_upd in Hj as [[-> Hx]|[Hne Hj]]; [inversion Hx|].
      eapply li_done; eauto.
  - (* evaluate *)
    assert (Hc : l_ctl st = Some i) by (eapply li_mid; eauto; left; reflexivity).
    injection Hs as <-. split; cbn.
    + exact (li_seq _ _ _ Hi).
    + rewrite Hc. discriminate.
    + intros i' Hi'. rewrite Hc in Hi'. injection Hi' as <-.
      destruct (li_held _ _ _ Hi i Hc) as (e' & pc' & lft & Ht & _ & Hk & Hb).
      rewrite Et in Ht. injection Ht as <- <-.
      exists e, LEvald, lft. rewrite list_lookup_insert by (eapply lookup_lt_Some; eauto).
      repeat split; auto. right; reflexivity.
    + intros j e' pc' Hj Hm. apply lk_upd in Hj as [[-> _]|[Hne Hj]]; [exact Hc|]. eapply li_mid; eauto.
    + intros j e' o' Hj. apply lk_upd in Hj as [[-> Hx]|[Hne Hj]]; [inversion Hx|]. eapply li_done; eauto.
  - (* count *)
    assert (Hc : l_ctl st = Some i) by (eapply li_mid; eauto; right; reflexivity).
    destruct (li_held _ _ _ Hi i Hc) as (e' & pc' & lft & Ht & _ & Hk & Hb).
    rewrite Et in Ht. injection Ht as <- <-.
    pose proof (login_of_check _ _ _ _ _ Hk) as Hl. rewrite Hb in Hl.
    destruct (a_ok e) eqn:Eo; injection Hs as <-; split; cbn;
      try (unfold log_atts, log_outs; rewrite !map_app; cbn; fold (log_atts (l_log st)); fold (log_outs (l_log st));
           rewrite run_logins_snoc, (li_seq _ _ _ Hi); cbn; rewrite Hl; reflexivity);
      try (intros _; rewrite Hl; reflexivity);
      try discriminate;
      try (intros j e' pc' Hj Hm; apply lk_upd in Hj as [[-> [= -> ->]]|[Hne Hj]];
           [destruct Hm; discriminate|pose proof (li_mid _ _ _ Hi _ _ _ Hj Hm); congruence]);
      try (intros j e' o' Hj; apply elem_of_app; apply lk_upd in Hj as [[-> [= -> ->]]|[Hne Hj]];
           [right; left|left; eapply li_done; eauto]).
  - discriminate.
Qed.

Local Transparent login rl_check.

Lemma lrun_linv c s0 sched : forall st st', linv c s0 st -> lrun true c sched st = Some st' -> linv c s0 st'.
Proof.
  induction sched as [|i sched IH]; intros st st' Hi H; cbn in H; [congruence|].
  destruct (lstep true c i st) as [st1|] eqn:E; [|discriminate].
  eapply IH; [eapply lstep_linv; eauto|exact H].
Qed.

(** With the control lock, whatever the interleaving: when every request has
    been answered, table and answers are those of handleLogin run
    sequentially over the attempts in the order the log gives, and every
    request is in that log with the answer it got. *)
Theorem logins_serialised c s0 atts sched st :
  lrun true c sched (linit s0 atts) = Some st ->
  Forall (fun p => ldone p = true) (l_thr st) ->
  run_logins c s0 (log_atts (l_log st)) = (l_tab st, log_outs (l_log st)) /\
  (forall j e o, l_thr st !! j = Some (e, LDone o) -> (j, e, o) ∈ l_log st).
Proof.
  intros Hr Hd. pose proof (lrun_linv c s0 sched _ _ (linv_init c s0 atts) Hr) as Hi.
  assert (Hc : l_ctl st = None).
  { destruct (l_ctl st) as [i|] eqn:Ec; [|reflexivity]. exfalso.
    destruct (li_held _ _ _ Hi i Ec) as (e & pc & lft & Ht & Hm & _).
    rewrite Forall_forall in Hd. apply elem_of_list_lookup_2 in Ht. specialize (Hd _ Ht).
    destruct Hm as [-> | ->]; discriminate. }
  split; [|exact (li_done _ _ _ Hi)].
  rewrite (li_free _ _ _ Hi Hc). exact (li_seq _ _ _ Hi).
Qed.

(** Mutual exclusion: while a request is between the limiter's check and its
    count, no other request can pass the check. *)
Theorem login_sections_exclusive c s0 atts sched st i j e :
  lrun true c sched (linit s0 atts) = Some st ->
  l_ctl st = Some i -> l_thr st !! j = Some (e, LStart) -> lstep true c j st = None.
Proof. intros _ Hc Hj. unfold lstep. rewrite Hj, Hc. reflexivity. Qed.

(** Without the lock (seeded change C12-M): limit 3, four wrong passwords from
    one address, all four pass the check before the first failure is counted:
    four passwords evaluated.  On the code that schedule does not exist (the
    second request cannot move) and every complete schedule evaluates three. *)
Definition ex_conf : rl_conf := {| rl_ttl := minute_ns; rl_block := 15 * minute_ns; rl_max := 3 |}.
Definition ex_att : att := {| a_now := 0; a_now2 := 0; a_addr := [49%N]; a_hdr := None; a_trusted := false; a_ok := false |}.
Definition ex_burst_sched : list nat := [0; 1; 2; 3; 0; 1; 2; 3; 0; 1; 2; 3]%nat.
Definition ex_seq_sched : list nat := [0; 0; 0; 1; 1; 1; 2; 2; 2; 3]%nat.

Example unserialised_refuted :
  (exists st, lrun false ex_conf ex_burst_sched (linit ∅ (repeat ex_att 4)) = Some st /\
              map lout (l_thr st) = [Some L403; Some L403; Some L403; Some L403] /\ levaluated st = 4%nat) /\
  lrun true ex_conf ex_burst_sched (linit ∅ (repeat ex_att 4)) = None /\
  (exists st, lrun true ex_conf ex_seq_sched (linit ∅ (repeat ex_att 4)) = Some st /\
              Forall (fun p => ldone p = true) (l_thr st) /\ levaluated st = 3%nat /\
              snd (run_logins ex_conf ∅ (repeat ex_att 4)) = log_outs (l_log st)).
Proof.
  split; [eexists; split; [vm_compute; reflexivity|split; vm_compute; reflexivity]|].
  split; [vm_compute; reflexivity|].
  eexists. split; [vm_compute; reflexivity|]. split; [|split; vm_compute; reflexivity].
  repeat constructor.
Qed.

(** The question section in the pre-request hook (C03): class and question
    count. *)
From Coq Require Import List NArith Bool.
From AGH Require Import Base.Run Base.NetAddr Base.RuleEngine Model.Access Model.AccessPersist Proofs.Access.
Import ListNotations.
Local Open Scope N_scope.

(** The verdict is the same for every class of the question. *)
Theorem blocked_host_ignores_class a p cid ip name qt c1 c2 :
  handle_before_msg a p cid ip [mkQ name qt c1] = handle_before_msg a p cid ip [mkQ name qt c2].
Proof. reflexivity. Qed.

(** A name on the blocked-hosts list asked with any class: the protocol's
    refusal (no reply over UDP / DNSCrypt, REFUSED elsewhere). *)
Theorem blocked_host_any_class a p id ip name qt c :
  is_blocked_host a (normalize_domain name) qt = true ->
  handle_before_msg a p (Some id) ip [mkQ name qt c] = pre_blocked p.
Proof.
  intros H. unfold handle_before_msg. apply handle_before_blocked.
  right. exists name, qt. split; [reflexivity | exact H].
Qed.

(** ... and, in front of any handler, nothing runs. *)
Theorem blocked_host_any_class_not_served
    (S Req Resp : Type) (handler : S -> Req -> S * Resp) a p id ip name qt c cache st rq :
  is_blocked_host a (normalize_domain name) qt = true ->
  serve handler a p (Some id) ip (the_question [mkQ name qt c]) cache st rq =
  (st, cache, expected_refusal p).
Proof.
  intros H. apply blocked_not_served. right. exists name, qt. split; [reflexivity | exact H].
Qed.

(** Zero or several questions: only the client decides. *)
Theorem question_count a p cid ip qs :
  length qs <> 1%nat ->
  handle_before_msg a p cid ip qs = handle_before a p cid ip None.
Proof.
  intros H. unfold handle_before_msg. destruct qs as [|q [|q' r]]; try reflexivity.
  exfalso. apply H. reflexivity.
Qed.

Theorem one_question a p cid ip q :
  handle_before_msg a p cid ip [q] = handle_before a p cid ip (Some (q_name q, q_type q)).
Proof. reflexivity. Qed.

(** The variant that tests the blocked hosts for class IN only. *)
Definition the_question_in_only (qs : list question) : option (bytes * N) :=
  match qs with
  | [q] => if q_class q =? 1 then Some (q_name q, q_type q) else None
  | _ => None
  end.

Definition version_bind_fqdn : bytes := version_bind ++ [46].
Definition default_access : access := new_access [] [] (map hl_rule default_blocked_hosts).

(** It is refuted by the query the default list exists for: CH TXT
    version.bind is refused by the code as it is and let through by the
    variant (IN TXT version.bind is refused by both). *)
Theorem in_only_refuted :
  let q := mkQ version_bind_fqdn 16 3 in
  is_blocked_host default_access (normalize_domain (q_name q)) (q_type q) = true /\
  handle_before default_access PTCP (Some []) (Some ex_ip) (the_question [q]) = BRefused /\
  handle_before default_access PUDP (Some []) (Some ex_ip) (the_question [q]) = BDrop /\
  handle_before default_access PTCP (Some []) (Some ex_ip) (the_question_in_only [q]) = BContinue None /\
  handle_before default_access PTCP (Some []) (Some ex_ip)
    (the_question_in_only [mkQ version_bind_fqdn 16 1]) = BRefused.
Proof. repeat split. Qed.

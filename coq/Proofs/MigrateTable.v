(** C13: the step table extracted from migrator.go (Gen/MigrateTable.v,
    regenerated at every run) is the table the model composes: same functions
    in the same order, entry [i] stamping version [i+1], same last version,
    nothing unresolved. *)
From Coq Require Import List ZArith String.
From AGH Require Import Model.Migrate Gen.MigrateTable.
Import ListNotations.

Lemma table_matches O :
  map (fun e => snd (fst e)) step_table = map fst (steps O) /\
  map (fun e => fst (fst e)) step_table = seq 0 (List.length (steps O)) /\
  map snd step_table = map (fun i => Z.of_nat (S i)) (seq 0 (List.length (steps O))) /\
  last_schema_version = last_version /\
  Z.of_nat (List.length (steps O)) = last_version /\
  unresolved = [].
Proof. repeat split. Qed.

(** C13, part 6a: per-step preservation of [loadable], steps 2, 5, 8, 9
    (see Proofs/MigrateLoadable.v; lemmas and tactics of Proofs/MigrateLoadTools.v). *)
From Coq Require Import List ZArith String Ascii Bool Lia Arith.
From AGH Require Import Model.Migrate Model.MigrateLoad Proofs.Migrate Proofs.MigrateLoadable Proofs.MigrateLoadTools.
Import ListNotations.
Local Open Scope string_scope.
Local Open Scope list_scope.

Section WithOracles.
Variable O : oracles.

Lemma keep2 : step_keeps L 1 (step2).
Proof.
  intros m m' Hm E. open_schema Hm. open_goal. unfold step2 in E. stamp_in Hm E m0.
  unfold move_in in E.
  destruct (field_val TAny m0 "coredns") as [|v|] eqn:F; try discriminate E; injection E as <-; [fin Hm|].
  apply fv_any_ok in F. pose proof (fok_look _ _ _ _ _ Hm F eq_refl) as Hv.
  pose proof (fok_del_same _ _ "coredns" (fok_set _ _ "dns" _ _ Hm Hv)) as H1.
  fin H1.
Qed.

Lemma keep5 : step_keeps L 4 (step5 O).
Proof.
  intros m m' Hm E. open_schema Hm. open_goal. unfold step5 in E. stamp_in Hm E m0.
  destruct (move_val TStr m0 [] "auth_name" "name") as [[m1 user]|] eqn:Mv; [|discriminate E].
  let e := goal_arr_elem "users" in
  lazymatch e with SObj _ ?fu => pose proof (fok_nil fu) as Hu0 end.
  do_moves Mv Hm Hu0 Hs Hd.
  destruct (field_val TStr m1 "auth_pass") as [|p|] eqn:F; try discriminate E; [injection E as <-; fin Hs|].
  destruct (o_bcrypt O (zstr p)) as [h|]; [|discriminate E]. injection E as <-.
  pose proof (fok_upd_same _ _ "password" (VStr h) Hd eq_refl) as Hu.
  pose proof (fok_del_same _ _ "auth_pass" Hs) as H1.
  let s := goal_shape "users" in refine (fin_set _ _ "users" s _ _ H1 _ _); [|vmr].
  rewrite conforms_arr. cbn [forallb]. rewrite conforms_obj, Hu. reflexivity.
Qed.

Lemma keep8 : step_keeps L 7 (step8).
Proof.
  intros m m' Hm E. open_schema Hm. open_goal. unfold step8 in E. stamp_in Hm E m0.
  let fo := goal_obj_fields "dns" in
  refine (with_obj_fok _ _ _ _ _ _ _ fo _ E Hm eq_refl _ _); [|vmr].
  clear. intros o o' Ho Ef.
  destruct (field_val TStr o "bind_host") as [|b|] eqn:F; try discriminate Ef; injection Ef as <-; [fin Ho|].
  destruct (fv_str_ok _ _ _ F) as [s ->].
  refine (fin_set _ _ "bind_hosts" (SArr SStr) _ _ (fok_del_same _ _ "bind_host" Ho) _ _); [reflexivity|vmr].
Qed.

Lemma keep9 : step_keeps L 8 (step9).
Proof.
  intros m m' Hm E. open_schema Hm. open_goal. unfold step9 in E. stamp_in Hm E m0.
  let fo := goal_obj_fields "dns" in
  refine (with_obj_fok _ _ _ _ _ _ _ fo _ E Hm eq_refl _ _); [|vmr].
  clear. intros o o' Ho Ef. unfold move_in in Ef.
  destruct (field_val TStr o "autohost_tld") as [|v|] eqn:F; try discriminate Ef; injection Ef as <-; [fin Ho|].
  destruct (fv_str_ok _ _ _ F) as [s ->].
  pose proof (fok_del_same _ _ "autohost_tld" (fok_set _ _ "local_domain_name" SStr (VStr s) Ho eq_refl)) as H1.
  fin H1.
Qed.

End WithOracles.

(** C13, part 6a: per-step preservation of [loadable] (see Proofs/MigrateLoadable.v). *)
From Coq Require Import List ZArith String Ascii Bool Lia Arith.
From AGH Require Import Model.Migrate Model.MigrateLoad Proofs.Migrate Proofs.MigrateFrame Proofs.MigrateLoadable.
Import ListNotations.
Local Open Scope string_scope.
Local Open Scope list_scope.

Section WithOracles.
Variable O : oracles.

Lemma keep2 : step_keeps L 1 (step2).
Proof. unfold step2. pres_step. Qed.

Lemma keep5 : step_keeps L 4 (step5 O).
Proof. unfold step5. pres_step. Qed.

Lemma keep8 : step_keeps L 7 (step8).
Proof. unfold step8. pres_step. Qed.

Lemma keep9 : step_keeps L 8 (step9).
Proof. unfold step9. pres_step. Qed.

End WithOracles.

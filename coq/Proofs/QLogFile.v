(** C20 proofs about Model/QLogFile.v. *)
From Coq Require Import ZArith List Bool Lia.
From AGH Require Import Model.QLogFile.
Import ListNotations.
Local Open Scope Z_scope.
Ltac Zify.zify_post_hook ::= Z.to_euclidean_division_equations.

(** ** Specification vocabulary *)

(** (start, length) of every line of a file whose first line starts at [o]. *)
Fixpoint spans (f : qfile) (o : Z) : list (Z * Z) :=
  match f with [] => [] | (l, _) :: r => (o, l) :: spans r (o + l + 1) end.

(** Lines are non-empty and shorter than [me] (so line + newline fit in [me]). *)
Definition lines_ok (me : Z) (f : qfile) : Prop := Forall (fun x : line => 0 < fst x < me) f.

Lemma fsize_app f g : fsize (f ++ g) = fsize f + fsize g.
Proof. induction f as [|[l t] f IH]; cbn [fsize app]; lia. Qed.

Lemma fsize_nonneg me f : lines_ok me f -> 0 <= fsize f.
Proof. induction 1 as [|[l t] f H _ IH]; cbn [fsize] in *; [lia|]. cbv beta in H; cbn [fst] in H; lia. Qed.

Lemma spans_app f g o : spans (f ++ g) o = spans f o ++ spans g (o + fsize f).
Proof.
  revert o; induction f as [|[l t] f IH]; intro o; cbn [spans fsize app].
  - f_equal; lia.
  - rewrite IH. do 3 f_equal. lia.
Qed.

Lemma lines_ok_app me f g : lines_ok me (f ++ g) <-> lines_ok me f /\ lines_ok me g.
Proof. apply Forall_app. Qed.

(** ** line_at *)

(** The byte at the newline of the line that follows the prefix [f] belongs
    to that line. *)
Lemma line_at_prefix me (f : qfile) l t (g : qfile) o p :
  lines_ok me f -> o + fsize f <= p <= o + fsize f + l ->
  line_at (f ++ (l, t) :: g) o p = Some (o + fsize f, l, t).
Proof.
  intro H; revert o; induction H as [|[l' t'] f Hl Hf IH]; intros o Hp; cbn [fsize app line_at fst] in *.
  - destruct (Z.ltb_spec (o + l) p); [lia|]. do 3 f_equal; lia.
  - apply (fsize_nonneg me) in Hf. cbv beta in Hl; cbn [fst] in Hl.
    destruct (Z.ltb_spec (o + l') p); [|lia].
    rewrite IH by lia. do 3 f_equal; lia.
Qed.

Lemma line_at_beyond me f o p : lines_ok me f -> o + fsize f <= p -> line_at f o p = None.
Proof.
  intro H; revert o; induction H as [|[l' t'] f Hl Hf IH]; intros o Hp; cbn [fsize line_at fst] in *; auto.
  apply (fsize_nonneg me) in Hf. cbv beta in Hl; cbn [fst] in Hl.
  destruct (Z.ltb_spec (o + l') p); [|lia]. apply IH; lia.
Qed.

Lemma line_start_prefix me (f : qfile) l t (g : qfile) p :
  lines_ok me f -> fsize f <= p <= fsize f + l ->
  line_start (f ++ (l, t) :: g) p = fsize f.
Proof.
  intros H Hp. unfold line_start. rewrite (line_at_prefix me) by (auto; lia). lia.
Qed.

(** ** One reverse-read step *)

(** From the newline of the line after prefix [f], whatever the window state,
    ReadNext returns exactly that line and moves to the previous newline (or
    to 0 = EOF when it was the first line). *)
Lemma read_next_step me buf (f : qfile) l t (g : qfile) s :
  0 < me <= buf -> lines_ok me f -> 0 < l < me ->
  pos s = fsize f + l ->
  exists s',
    read_next me buf (f ++ (l, t) :: g) s = (Some (fsize f, l), s') /\
    pos s' = (if fsize f =? 0 then 0 else fsize f - 1).
Proof.
  intros Hme Hf Hl Hp. unfold read_next.
  pose proof (fsize_nonneg _ _ Hf) as Hn.
  destruct (Z.eqb_spec (pos s) 0); [lia|].
  rewrite (line_start_prefix me) by (auto; lia).
  set (bs := if _ : bool then _ else _).
  assert (Hbs : bs <= fsize f).
  { subst bs.
    destruct (negb (buf_valid s) || ((pos s - buf_start s <? me) && negb (buf_start s =? 0))) eqn:E.
    - destruct (Z.gtb_spec (pos s) buf); lia.
    - apply orb_false_elim in E as [_ E]. apply andb_false_elim in E as [E|E].
      + apply Z.ltb_ge in E. lia.
      + apply negb_false_iff, Z.eqb_eq in E. lia. }
  rewrite Z.max_r by lia.
  eexists; split; [do 3 f_equal; lia|]. reflexivity.
Qed.

(** Reading on from the newline of the last line of a prefix returns the
    prefix's lines in reverse and then EOF, wherever the windows fall. *)
Lemma read_all_prefix me buf f : 0 < me <= buf -> lines_ok me f ->
  forall (g : qfile) s fuel, pos s = Z.max 0 (fsize f - 1) -> (length f < fuel)%nat ->
  read_all me buf (f ++ g) fuel s = (rev (spans f 0), true).
Proof.
  intros Hme. induction f as [|[l t] f IH] using rev_ind; intros Hf g s fuel Hp Hfuel.
  - destruct fuel; [cbn in Hfuel; lia|]. cbn [read_all app]. unfold read_next.
    cbn [fsize] in Hp. rewrite Hp. reflexivity.
  - apply lines_ok_app in Hf as [Hf Hl]. inversion Hl as [|? ? Hl' _]; subst; cbn [fst] in Hl'.
    pose proof (fsize_nonneg _ _ Hf) as Hn.
    rewrite app_length in Hfuel; cbn [length] in Hfuel.
    destruct fuel; [lia|]. cbn [read_all].
    rewrite <- app_assoc; cbn [app].
    rewrite fsize_app in Hp; cbn [fsize] in Hp.
    destruct (read_next_step me buf f l t g s Hme Hf Hl' ltac:(lia)) as (s' & -> & Hp').
    rewrite (IH Hf ((l, t) :: g) s' fuel) by (try lia; rewrite Hp';
      destruct (Z.eqb_spec (fsize f) 0); lia).
    rewrite spans_app, rev_app_distr. cbn [spans rev app]. repeat f_equal; lia.
Qed.

(** *** C20_reverse_complete *)
Theorem reverse_complete me buf f s0 :
  0 < me <= buf -> lines_ok me f ->
  read_all me buf f (S (length f)) (seek_start f s0) = (rev (spans f 0), true).
Proof.
  intros Hme Hf.
  rewrite <- (app_nil_r f) at 1.
  apply read_all_prefix; auto.
Qed.

(** The Go constants satisfy the hypothesis. *)
Lemma go_consts_ok : 0 < max_entry_size <= buffer_size.
Proof. vm_compute. split; [reflexivity|discriminate]. Qed.

(** Premises satisfiable: a three-line file that does not fit the window
    (me = 8, buf = 10), read completely. *)
Example reverse_complete_example :
  let f := [(5, 11); (7, 12); (3, 13)] in
  lines_ok 8 f /\
  read_all 8 10 f 4 (seek_start f rstate0) = ([(14, 3); (6, 7); (0, 5)], true).
Proof. split; [repeat constructor; cbn; lia|reflexivity]. Qed.

(** Each line is returned exactly once: the result has as many elements as
    the file has lines and its starts are strictly decreasing. *)
Lemma spans_length f o : length (spans f o) = length f.
Proof. revert o; induction f as [|[l t] f IH]; intro o; cbn; auto. Qed.

(** The k-th line read (0 = first read) is line n-1-k of the file. *)
Lemma spans_nth f o k l t :
  nth_error f k = Some (l, t) ->
  nth_error (spans f o) k = Some (o + fsize (firstn k f), l).
Proof.
  revert o k; induction f as [|[l' t'] f IH]; intros o k H; destruct k; cbn in *; try discriminate.
  - injection H as -> ->. f_equal. f_equal. lia.
  - rewrite (IH _ _ H). do 2 f_equal. lia.
Qed.

(** ** Timestamp seek: soundness of a returned position *)

(** [is_line f k s l t]: line number k of f starts at byte s, has length l and
    stamp t. *)
Definition is_line (f : qfile) (k : nat) (s l t : Z) : Prop :=
  nth_error f k = Some (l, t) /\ s = fsize (firstn k f).

Lemma line_at_sound f : forall o p s l t,
  line_at f o p = Some (s, l, t) ->
  exists k, nth_error f k = Some (l, t) /\ s = o + fsize (firstn k f).
Proof.
  induction f as [|[l' t'] f IH]; intros o p s l t H; cbn [line_at] in H; [discriminate|].
  destruct (o + l' <? p).
  - apply IH in H as (k & Hk & ->). exists (S k). cbn [nth_error firstn fsize]. split; auto. lia.
  - injection H as <- <- <-. exists 0%nat. cbn. split; auto. lia.
Qed.

Lemma probe_line_stamp me f p li le len lts :
  probe_line me f p = Some (li, le, len, lts) -> lts <> 0 ->
  exists k l, is_line f k li l lts /\ len = l /\ le = li + l + 1.
Proof.
  unfold probe_line. destruct (_ <=? 0); [discriminate|].
  destruct (line_at f 0 p) as [[[s l] t]|] eqn:E.
  - destruct (s + l <? _).
    + intros H Hne. injection H as <- <- <- <-.
      destruct (Z.eqb_spec (Z.max (if p >? me then p - me else 0) s) s) as [Heq|]; [|congruence].
      apply line_at_sound in E as (k & Hk & Hs). exists k, l. unfold is_line.
      rewrite Heq. repeat split; auto; lia.
    + intros H Hne. injection H as <- <- <- <-. congruence.
  - intros H Hne. injection H as <- <- <- <-. congruence.
Qed.

(** Whatever the file (sorted or not, any line lengths) and whatever the
    fuel: a position returned by seekTS is the newline of a line that carries
    exactly the wanted stamp, and the depth stayed under the fuel. *)
Lemma seek_loop_sound fuel me f ts : forall start end_ probe last depth p d,
  seek_loop fuel me f ts start end_ probe last depth = Found p d ->
  exists k s l, is_line f k s l ts /\ p = s + l /\ depth <= d < depth + Z.of_nat fuel.
Proof.
  induction fuel as [|fuel IH]; intros start end_ probe last depth p d H; cbn [seek_loop] in H; [discriminate|].
  destruct (probe_line me f probe) as [[[[li le] len] lts]|] eqn:E; [|discriminate].
  destruct (li =? last); [destruct (li =? 0); discriminate|].
  destruct (li =? fsize f); [discriminate|].
  destruct (Z.eqb_spec lts 0); [discriminate|].
  destruct (Z.eqb_spec lts ts).
  - injection H as <- <-. subst lts.
    destruct (probe_line_stamp _ _ _ _ _ _ _ E n) as (k & l & Hk & -> & _).
    exists k, li, l. split; [exact Hk|]. lia.
  - apply IH in H as (k & s & l & Hk & -> & Hd). exists k, s, l. split; [exact Hk|]. lia.
Qed.

Theorem seek_found_sound me f ts p d :
  seek_ts me f ts = Found p d ->
  exists k s l, is_line f k s l ts /\ p = s + l /\ 0 <= d < 100.
Proof.
  unfold seek_ts, seek_ts_fuel. intro H. apply seek_loop_sound in H as (k & s & l & ? & ? & ?).
  exists k, s, l. split; [assumption|]. cbn in *; lia.
Qed.

(** A failed seek leaves the read position untouched. *)
Theorem seek_absent_keeps_position me f ts s :
  (forall p d, seek_ts me f ts <> Found p d) ->
  pos (snd (seek_ts_state me f ts s)) = pos s.
Proof.
  unfold seek_ts_state. cbn [snd pos]. intro H. destruct (seek_ts me f ts); try reflexivity.
  exfalso; eapply H; reflexivity.
Qed.

(** After a successful seek the next read returns exactly the found line
    (lines shorter than [me]). *)
Lemma firstn_skipn_nth {A} (f : list A) k x :
  nth_error f k = Some x -> f = firstn k f ++ x :: skipn (S k) f.
Proof.
  revert k; induction f as [|a f IH]; intros [|k] H; cbn in *; try discriminate.
  - congruence.
  - f_equal. auto.
Qed.

Lemma lines_ok_firstn me f k : lines_ok me f -> lines_ok me (firstn k f).
Proof. intro H. rewrite <- (firstn_skipn k f) in H. apply lines_ok_app in H. tauto. Qed.

Theorem seek_then_read me buf f ts s p d :
  0 < me <= buf -> lines_ok me f ->
  seek_ts_state me f ts s = (Found p d, {| pos := p; buf_start := buf_start s; buf_valid := false |}) ->
  exists k st l s',
    is_line f k st l ts /\
    read_next me buf f {| pos := p; buf_start := buf_start s; buf_valid := false |} = (Some (st, l), s').
Proof.
  intros Hme Hf H. unfold seek_ts_state in H.
  destruct (seek_ts me f ts) eqn:E; try discriminate. injection H as -> ->.
  apply seek_found_sound in E as (k & st & l & [Hk Hs] & -> & _).
  pose proof (firstn_skipn_nth _ _ _ Hk) as Hsplit.
  assert (Hl : 0 < l < me).
  { unfold lines_ok in Hf. rewrite Forall_forall in Hf.
    apply nth_error_In in Hk. apply Hf in Hk. exact Hk. }
  destruct (read_next_step me buf (firstn k f) l ts (skipn (S k) f)
              {| pos := st + l; buf_start := buf_start s; buf_valid := false |} Hme
              (lines_ok_firstn _ _ k Hf) Hl ltac:(cbn; lia)) as (s' & Hr & _).
  rewrite <- Hsplit in Hr. exists k, st, l, s'. split; [split; auto|]. rewrite Hr. subst st. reflexivity.
Qed.

(** ** The multi-file reader: reverse reading across files *)

Definition files (r : reader) : list qfile := map fst (r_files r).

Definition tagged (i : nat) (f : qfile) : list (Z * Z * Z) :=
  map (fun x : Z * Z => (Z.of_nat i, fst x, snd x)) (rev (spans f 0)).

(** Files i-1, ..., 0 (newest of them first), each read backwards. *)
Fixpoint all_rev_upto (i : nat) (fs : list qfile) : list (Z * Z * Z) :=
  match i with O => [] | S i' => tagged i' (nth i' fs []) ++ all_rev_upto i' fs end.

Definition all_rev (fs : list qfile) : list (Z * Z * Z) := all_rev_upto (length fs) fs.

(** The reader is on file [i], with the lines [p] of it still to be returned
    (and [g] already returned). *)
Definition rinv (me : Z) (r : reader) (i : nat) (p g : qfile) : Prop :=
  r_cur r = Z.of_nat i /\
  (exists s, nth_error (r_files r) i = Some (p ++ g, s) /\ pos s = Z.max 0 (fsize p - 1)) /\
  Forall (lines_ok me) (files r).

Definition rexp (r : reader) (i : nat) (p : qfile) : list (Z * Z * Z) :=
  tagged i p ++ all_rev_upto i (files r).

Lemma set_nth_length {A} (l : list A) n x : length (set_nth l n x) = length l.
Proof. revert n; induction l; intros [|n]; cbn; auto. Qed.

Lemma nth_error_set_nth_same {A} (l : list A) n x y :
  nth_error l n = Some y -> nth_error (set_nth l n x) n = Some x.
Proof. revert n; induction l; intros [|n]; cbn; auto; discriminate. Qed.

Lemma nth_error_set_nth_other {A} (l : list A) n m x :
  n <> m -> nth_error (set_nth l n x) m = nth_error l m.
Proof. revert n m; induction l; intros [|n] [|m] H; cbn; auto; congruence. Qed.

Lemma map_fst_set_nth {A B} (l : list (A * B)) n a b b0 :
  nth_error l n = Some (a, b0) -> map fst (set_nth l n (a, b)) = map fst l.
Proof.
  revert n; induction l as [|[a' b'] l IH]; intros [|n]; cbn; auto; intro H.
  - congruence.
  - f_equal; auto.
Qed.

Lemma nth_error_Some_length {A} (l : list A) n x : nth_error l n = Some x -> (n < length l)%nat.
Proof. intro H. apply nth_error_Some. congruence. Qed.

Lemma nth_file_nth_error r i x :
  nth_error (r_files r) i = Some x -> nth_file r (Z.of_nat i) = x.
Proof. intro H. unfold nth_file. rewrite Nat2Z.id. apply nth_error_nth; auto. Qed.

Lemma tagged_snoc i (p : qfile) l t :
  tagged i (p ++ [(l, t)]) = (Z.of_nat i, fsize p, l) :: tagged i p.
Proof.
  unfold tagged. rewrite spans_app, rev_app_distr. cbn [spans rev app map fst snd].
  repeat f_equal; lia.
Qed.

Lemma files_nth r i f s : nth_error (r_files r) i = Some (f, s) -> nth i (files r) [] = f.
Proof.
  intro H. unfold files. apply nth_error_nth. rewrite nth_error_map, H. reflexivity.
Qed.

(** One ReadNext of the reader: it returns the head of what is expected, or
    EOF when nothing is expected, and stays in the invariant. *)
Lemma reader_read_loop_spec me buf : 0 < me <= buf ->
  forall n r i p g, rinv me r i p g -> (i < n)%nat ->
  match rexp r i p with
  | [] => fst (reader_read_loop me buf n r) = None
  | x :: rest =>
      exists r' i' p' g', reader_read_loop me buf n r = (Some x, r') /\
        rinv me r' i' p' g' /\ rexp r' i' p' = rest /\ files r' = files r
  end.
Proof.
  intros Hme. induction n as [|n IH]; intros r i p g (Hc & (s & Hs & Hp) & Hok) Hn; [lia|].
  cbn [reader_read_loop]. rewrite Hc.
  destruct (Z.ltb_spec (Z.of_nat i) 0); [lia|].
  rewrite (nth_file_nth_error _ _ _ Hs).
  assert (Hf : lines_ok me (p ++ g)).
  { unfold files in Hok. rewrite Forall_forall in Hok. apply Hok.
    apply in_map_iff. exists (p ++ g, s). split; auto. eapply nth_error_In; eauto. }
  apply lines_ok_app in Hf as [Hfp Hfg].
  destruct p as [|[l t] p'] using rev_ind.
  - (* nothing left in this file *)
    cbn [fsize] in Hp. unfold read_next. rewrite Hp. cbn [Z.max Z.eqb app].
    change (Z.max 0 (0 - 1)) with 0. cbn [Z.eqb].
    destruct i as [|i'].
    + cbn. reflexivity.
    + replace (Z.of_nat (S i') - 1) with (Z.of_nat i') by lia.
      destruct (Z.ltb_spec (Z.of_nat i') 0); [lia|].
      destruct (nth_error (r_files r) i') as [[f' s']|] eqn:E'.
      2:{ apply nth_error_None in E'. apply nth_error_Some_length in Hs. lia. }
      rewrite (nth_file_nth_error _ _ _ E').
      set (r2 := {| r_files := _; r_cur := _; r_fellback := _ |}).
      assert (Hfiles : files r2 = files r).
      { unfold files, r2, set_state. cbn [r_files]. rewrite Nat2Z.id.
        rewrite (nth_file_nth_error _ _ _ E'). cbn [fst].
        eapply map_fst_set_nth; eauto. }
      assert (Hinv : rinv me r2 i' f' []).
      { split; [reflexivity|]. split.
        - exists (seek_start f' s'). split; [|reflexivity].
          unfold r2, set_state. cbn [r_files]. rewrite Nat2Z.id, app_nil_r.
          rewrite (nth_file_nth_error _ _ _ E'). cbn [fst].
          eapply nth_error_set_nth_same; eauto.
        - rewrite Hfiles; auto. }
      assert (Hexp : rexp r (S i') [] = rexp r2 i' f').
      { unfold rexp. rewrite Hfiles. cbn [all_rev_upto tagged spans rev map app].
        rewrite (files_nth _ _ _ _ E'). reflexivity. }
      rewrite Hexp.
      specialize (IH r2 i' f' [] Hinv ltac:(lia)).
      destruct (rexp r2 i' f') as [|x rest]; auto.
      destruct IH as (r' & i2 & p2 & g2 & H1 & H2 & H3 & H4).
      exists r', i2, p2, g2. split; [exact H1|]. split; [exact H2|]. split; [exact H3|]. congruence.
  - (* a line is left *)
    clear IHp'. apply lines_ok_app in Hfp as [Hfp' Hl].
    inversion Hl as [|? ? Hl' _]; subst; cbn [fst] in Hl'.
    rewrite fsize_app in Hp; cbn [fsize] in Hp.
    pose proof (fsize_nonneg _ _ Hfp') as Hnn.
    rewrite <- app_assoc in *; cbn [app] in *.
    destruct (read_next_step me buf p' l t g s Hme Hfp' Hl' ltac:(lia)) as (s2 & Hr & Hp2).
    rewrite Hr.
    unfold rexp. rewrite tagged_snoc. cbn [app].
    set (r2 := {| r_files := _; r_cur := _; r_fellback := _ |}).
    assert (Hfiles : files r2 = files r).
    { unfold files, r2, set_state. cbn [r_files]. rewrite Nat2Z.id.
      rewrite (nth_file_nth_error _ _ _ Hs). cbn [fst]. eapply map_fst_set_nth; eauto. }
    exists r2, i, p', ((l, t) :: g). split; [reflexivity|]. split; [|split].
    + split; [reflexivity|]. split.
      * exists s2. split.
        -- unfold r2, set_state. cbn [r_files]. rewrite Nat2Z.id.
           rewrite (nth_file_nth_error _ _ _ Hs). cbn [fst].
           eapply nth_error_set_nth_same; eauto.
        -- rewrite Hp2. destruct (Z.eqb_spec (fsize p') 0); lia.
      * rewrite Hfiles; auto.
    + rewrite Hfiles. reflexivity.
    + exact Hfiles.
Qed.

Lemma reader_read_all_spec me buf : 0 < me <= buf ->
  forall fuel r i p g, rinv me r i p g -> (length (rexp r i p) < fuel)%nat ->
  reader_read_all me buf fuel r = rexp r i p.
Proof.
  intros Hme. induction fuel as [|fuel IH]; intros r i p g Hinv Hfuel; [lia|].
  cbn [reader_read_all].
  pose proof Hinv as (Hc & (s & Hs & _) & _).
  pose proof (nth_error_Some_length _ _ _ Hs) as Hlen.
  pose proof (reader_read_loop_spec me buf Hme (S (length (r_files r))) r i p g Hinv ltac:(lia)) as H.
  assert (Hrn : reader_read_next me buf r = reader_read_loop me buf (S (length (r_files r))) r).
  { unfold reader_read_next. destruct (r_files r); [cbn in Hlen; lia|reflexivity]. }
  rewrite Hrn.
  destruct (rexp r i p) as [|x rest] eqn:E.
  - destruct (reader_read_loop _ _ _ r) as [[y|] r']; cbn in H; congruence.
  - destruct H as (r' & i' & p' & g' & -> & Hinv' & Hexp & _).
    f_equal. rewrite <- Hexp. eapply IH; eauto. rewrite Hexp. cbn in Hfuel. lia.
Qed.

(** *** C20_two_files (reading part): from SeekStart the reader returns every
    line of every file, newest file first, each file backwards, each line
    once; then EOF. *)
Definition total_len (fs : list qfile) : nat := fold_right (fun f n => (length f + n)%nat) 0%nat fs.

Lemma total_len_app a b : total_len (a ++ b) = (total_len a + total_len b)%nat.
Proof. induction a; cbn; auto. unfold total_len in *. cbn. lia. Qed.

Lemma firstn_S_snoc {A} (l : list A) i d :
  (i < length l)%nat -> firstn (S i) l = firstn i l ++ [nth i l d].
Proof.
  revert i; induction l as [|a l IH]; intros [|i] H; cbn in *; try lia; auto.
  f_equal. apply IH. lia.
Qed.

Lemma all_rev_upto_length fs : forall i, (i <= length fs)%nat ->
  length (all_rev_upto i fs) = total_len (firstn i fs).
Proof.
  induction i as [|i IH]; intro Hi; [reflexivity|].
  cbn [all_rev_upto]. rewrite app_length, IH by lia.
  unfold tagged. rewrite map_length, rev_length, spans_length.
  rewrite (firstn_S_snoc fs i []) by lia. rewrite total_len_app. cbn. lia.
Qed.

Lemma all_rev_length fs : length (all_rev fs) = total_len fs.
Proof. unfold all_rev. rewrite all_rev_upto_length, firstn_all; auto. Qed.

Lemma reader_seek_start_nonempty r : r_files r <> [] ->
  reader_seek_start r =
    let i := Z.of_nat (length (r_files r)) - 1 in
    let (f, s) := nth_file r i in
    {| r_files := set_state r i (seek_start f s); r_cur := i; r_fellback := r_fellback r |}.
Proof. unfold reader_seek_start. destruct (r_files r); congruence. Qed.

Theorem reader_reverse_complete me buf (fs : list qfile) :
  0 < me <= buf -> Forall (lines_ok me) fs ->
  reader_read_all me buf (S (total_len fs))
    (reader_seek_start (new_reader fs)) = all_rev fs.
Proof.
  intros Hme Hok. destruct fs as [|f0 fs0] eqn:Efs; [reflexivity|]. rewrite <- Efs in *.
  assert (Hlen : (0 < length fs)%nat) by (subst; cbn; lia).
  set (i := (length fs - 1)%nat).
  destruct (nth_error fs i) as [f|] eqn:E; [|apply nth_error_None in E; lia].
  assert (Hrf : r_files (new_reader fs) = map (fun f => (f, rstate0)) fs) by reflexivity.
  assert (Hs : nth_error (r_files (new_reader fs)) i = Some (f, rstate0)).
  { rewrite Hrf, nth_error_map, E. reflexivity. }
  assert (Hfl : files (new_reader fs) = fs).
  { unfold files. rewrite Hrf, map_map. cbn. apply map_id. }
  rewrite reader_seek_start_nonempty by (rewrite Hrf; subst fs; discriminate).
  cbv zeta.
  replace (Z.of_nat (length (r_files (new_reader fs))) - 1) with (Z.of_nat i)
    by (rewrite Hrf, map_length; lia).
  rewrite (nth_file_nth_error _ _ _ Hs).
  set (r2 := {| r_files := _; r_cur := _; r_fellback := _ |}).
  assert (Hfiles : files r2 = fs).
  { transitivity (files (new_reader fs)); [|exact Hfl].
    unfold files, r2, set_state. cbn [r_files]. rewrite Nat2Z.id.
    rewrite (nth_file_nth_error _ _ _ Hs). cbn [fst]. eapply map_fst_set_nth; eauto. }
  assert (Hinv : rinv me r2 i f []).
  { split; [reflexivity|]. split.
    - exists (seek_start f rstate0). split; [|reflexivity].
      unfold r2, set_state. cbn [r_files]. rewrite Nat2Z.id, app_nil_r.
      rewrite (nth_file_nth_error _ _ _ Hs). cbn [fst]. eapply nth_error_set_nth_same; eauto.
    - rewrite Hfiles; auto. }
  assert (Hexp : rexp r2 i f = all_rev fs).
  { unfold rexp, all_rev. rewrite Hfiles. replace (length fs) with (S i) by lia.
    cbn [all_rev_upto]. rewrite (nth_error_nth _ _ _ E). reflexivity. }
  rewrite <- Hexp. eapply reader_read_all_spec; eauto.
  rewrite Hexp, all_rev_length. lia.
Qed.

(** ** Timestamp seek: completeness *)

(** Start offset of line [k]. *)
Definition St (f : qfile) (k : nat) : Z := fsize (firstn k f).

Definition sorted_ts (f : qfile) : Prop :=
  forall i j li ti lj tj, nth_error f i = Some (li, ti) -> nth_error f j = Some (lj, tj) ->
    (i < j)%nat -> ti < tj.

Definition stamps_nonzero (f : qfile) : Prop := Forall (fun x : Z * Z => snd x <> 0) f.

Lemma St_0 f : St f 0 = 0.
Proof. reflexivity. Qed.

Lemma St_all f : St f (length f) = fsize f.
Proof. unfold St. rewrite firstn_all. reflexivity. Qed.

Lemma St_succ f k l t : nth_error f k = Some (l, t) -> St f (S k) = St f k + l + 1.
Proof.
  intro H. unfold St. rewrite (firstn_S_snoc f k (0, 0)) by (eapply nth_error_Some_length; eauto).
  rewrite fsize_app. rewrite (nth_error_nth _ _ _ H). cbn [fsize]. lia.
Qed.

Lemma St_mono me f : lines_ok me f -> forall a b, (a <= b)%nat -> St f a <= St f b.
Proof.
  intros Hf a b Hab. induction Hab; [lia|].
  destruct (nth_error f m) as [[l t]|] eqn:E.
  - rewrite (St_succ _ _ _ _ E). unfold lines_ok in Hf. rewrite Forall_forall in Hf.
    apply nth_error_In in E. apply Hf in E. cbn in E. lia.
  - unfold St in *. apply nth_error_None in E.
    rewrite (firstn_all2 (n := S m)) by lia. rewrite (firstn_all2 (n := m)) in IHHab by lia. lia.
Qed.

Lemma nth_line_ok me f k l t : lines_ok me f -> nth_error f k = Some (l, t) -> 0 < l < me.
Proof.
  intros Hf E. unfold lines_ok in Hf. rewrite Forall_forall in Hf.
  apply nth_error_In in E. apply Hf in E. exact E.
Qed.

(** The line containing a byte between two line starts. *)
Lemma locate me f : lines_ok me f -> forall b a p, (a <= b <= length f)%nat ->
  St f a <= p < St f b ->
  exists k l t, (a <= k < b)%nat /\ nth_error f k = Some (l, t) /\ St f k <= p <= St f k + l.
Proof.
  intros Hf. induction b as [|b IH]; intros a p Hab Hp.
  - assert (a = 0)%nat by lia. subst. rewrite St_0 in Hp. lia.
  - destruct (nth_error f b) as [[l t]|] eqn:E; [|apply nth_error_None in E; lia].
    rewrite (St_succ _ _ _ _ E) in Hp.
    destruct (Z_lt_le_dec p (St f b)).
    + assert (a <= b)%nat.
      { destruct (Nat.eq_dec a (S b)); [|lia]. subst a. rewrite (St_succ _ _ _ _ E) in Hp. lia. }
      destruct (IH a p ltac:(lia) ltac:(lia)) as (k & l' & t' & ? & ? & ?).
      exists k, l', t'. repeat split; auto; lia.
    + assert (a <= b)%nat.
      { destruct (Nat.eq_dec a (S b)); [|lia]. subst a. rewrite (St_succ _ _ _ _ E) in Hp. lia. }
      exists b, l, t. repeat split; auto; lia.
Qed.

(** A probe inside a line shorter than [me] sees the whole line. *)
Lemma probe_line_in me f k l t p :
  0 < me -> lines_ok me f -> nth_error f k = Some (l, t) ->
  St f k <= p <= St f k + l ->
  probe_line me f p = Some (St f k, St f k + l + 1, l, t).
Proof.
  intros Hme Hf E Hp.
  pose proof (nth_line_ok _ _ _ _ _ Hf E) as Hl.
  pose proof (firstn_skipn_nth _ _ _ E) as Hsplit.
  pose proof (lines_ok_firstn me f k Hf) as Hpre.
  pose proof (fsize_nonneg _ _ Hpre) as Hnn. fold (St f k) in Hnn.
  assert (Hsize : St f k + l + 1 <= fsize f).
  { rewrite Hsplit at 2. rewrite fsize_app. cbn [fsize]. fold (St f k).
    assert (0 <= fsize (skipn (S k) f)).
    { apply (fsize_nonneg me). rewrite <- (firstn_skipn (S k) f) in Hf. apply lines_ok_app in Hf. tauto. }
    lia. }
  unfold probe_line. rewrite Hsplit at 2.
  rewrite (line_at_prefix me) by (auto; fold (St f k); lia). fold (St f k).
  set (sp := if p >? me then p - me else 0).
  assert (Hsp : 0 <= sp <= St f k /\ sp <= p /\ p <= sp + me).
  { subst sp. destruct (Z.gtb_spec p me); lia. }
  destruct (Z.leb_spec (Z.min (fsize f - sp) (2 * me)) 0); [lia|].
  rewrite Z.add_0_l. rewrite Z.max_r by lia.
  destruct (Z.ltb_spec (St f k + l) (sp + Z.min (fsize f - sp) (2 * me))); [|lia].
  rewrite Z.eqb_refl. repeat f_equal; lia.
Qed.

(** Beyond the last byte of a non-empty file the probe reports [size]. *)
Lemma probe_line_end me f : 0 < me -> lines_ok me f -> f <> [] ->
  exists le len, probe_line me f (fsize f) = Some (fsize f, le, len, 0).
Proof.
  intros Hme Hf Hne. unfold probe_line.
  assert (0 < fsize f).
  { destruct f as [|[l t] f]; [congruence|]. inversion Hf; subst. cbn [fsize fst] in *.
    pose proof (fsize_nonneg _ _ H2). lia. }
  set (sp := if fsize f >? me then fsize f - me else 0).
  assert (0 <= sp < fsize f) by (subst sp; destruct (Z.gtb_spec (fsize f) me); lia).
  destruct (Z.leb_spec (Z.min (fsize f - sp) (2 * me)) 0); [lia|].
  rewrite (line_at_beyond me) by (auto; lia). rewrite Z.max_r by lia. eauto.
Qed.

Lemma pow2_succ n : 2 ^ Z.of_nat (S n) = 2 * 2 ^ Z.of_nat n.
Proof. rewrite Nat2Z.inj_succ, Z.pow_succ_r by lia. reflexivity. Qed.

Lemma pow2_pos n : 0 < 2 ^ Z.of_nat n.
Proof. apply Z.pow_pos_nonneg; lia. Qed.

Lemma nth_stamp_nonzero f k l t : stamps_nonzero f -> nth_error f k = Some (l, t) -> t <> 0.
Proof.
  intros H E. unfold stamps_nonzero in H. rewrite Forall_forall in H.
  apply nth_error_In in E. apply H in E. exact E.
Qed.

Section Seek.
  Variables (me : Z) (f : qfile).
  Hypothesis Hme : 0 < me.
  Hypothesis Hf : lines_ok me f.
  Hypothesis Hnz : stamps_nonzero f.

  Let St_nonneg k : 0 <= St f k.
  Proof. apply (fsize_nonneg me). apply lines_ok_firstn; auto. Qed.

  Let St_le_size k : St f k <= fsize f.
  Proof.
    destruct (le_lt_dec k (length f)).
    - rewrite <- St_all. eapply St_mono; eauto.
    - unfold St. rewrite firstn_all2 by lia. lia.
  Qed.

  (** *** present stamp *)
  Lemma seek_loop_present t l ts : sorted_ts f -> nth_error f t = Some (l, ts) ->
    forall fuel a b last depth, (a <= t < b)%nat -> (b <= length f)%nat ->
    (last < St f a \/ St f b <= last) -> St f b - St f a < 2 ^ Z.of_nat fuel ->
    exists d, seek_loop fuel me f ts (St f a) (St f b) (St f a + (St f b - St f a) ÷ 2) last depth
              = Found (St f t + l) d.
  Proof.
    intros Hs Et. pose proof (nth_line_ok _ _ _ _ _ Hf Et) as Hl.
    induction fuel as [|fuel IH]; intros a b last depth Hab Hb Hlast Hw.
    - exfalso. cbn in Hw.
      pose proof (St_mono me f Hf a t ltac:(lia)). pose proof (St_mono me f Hf (S t) b ltac:(lia)).
      rewrite (St_succ _ _ _ _ Et) in *. lia.
    - assert (Hwide : St f a + 2 <= St f b).
      { pose proof (St_mono me f Hf a t ltac:(lia)). pose proof (St_mono me f Hf (S t) b ltac:(lia)).
        rewrite (St_succ _ _ _ _ Et) in *. lia. }
      set (w := St f b - St f a) in *.
      assert (Hq : 2 * (w ÷ 2) <= w <= 2 * (w ÷ 2) + 1) by (rewrite Z.quot_div_nonneg by lia; lia).
      set (p := St f a + w ÷ 2).
      destruct (locate me f Hf b a p ltac:(lia) ltac:(subst p; lia)) as (k & lk & tk & Hk & Ek & Hpk).
      cbn [seek_loop]. rewrite (probe_line_in me f k lk tk p Hme Hf Ek Hpk).
      pose proof (St_mono me f Hf a k ltac:(lia)) as Hak.
      pose proof (nth_line_ok _ _ _ _ _ Hf Ek) as Hlk.
      destruct (Z.eqb_spec (St f k) last); [lia|].
      pose proof (St_le_size b).
      destruct (Z.eqb_spec (St f k) (fsize f)); [lia|].
      destruct (Z.eqb_spec tk 0); [exfalso; eapply nth_stamp_nonzero; eauto|].
      rewrite pow2_succ in Hw.
      destruct (lt_eq_lt_dec k t) as [[Hlt|Heq]|Hgt].
      + (* probed line older than the target: continue to the right of it *)
        pose proof (Hs _ _ _ _ _ _ Ek Et Hlt).
        destruct (Z.eqb_spec tk ts); [lia|]. destruct (Z.gtb_spec tk ts); [lia|].
        pose proof (St_succ _ _ _ _ Ek) as Hsk. rewrite <- Hsk.
        apply IH; subst p w; lia.
      + subst k. rewrite Et in Ek. injection Ek as <- <-.
        rewrite Z.eqb_refl. eauto.
      + pose proof (Hs _ _ _ _ _ _ Et Ek Hgt).
        destruct (Z.eqb_spec tk ts); [lia|]. destruct (Z.gtb_spec tk ts); [|lia].
        apply IH; subst p w; lia.
  Qed.

  (** *** stamp newer than every line: too late *)
  Lemma too_late_final ts fuel a last depth : f <> [] -> last < fsize f -> St f a = fsize f ->
    seek_loop (S fuel) me f ts (St f a) (fsize f) (St f a + (fsize f - St f a) ÷ 2) last depth = TooLate.
  Proof.
    intros Hne Hlast ->. rewrite Z.sub_diag. change (0 ÷ 2) with 0. rewrite Z.add_0_r.
    destruct (probe_line_end me f Hme Hf Hne) as (le & len & Hp).
    cbn [seek_loop]. rewrite Hp.
    destruct (Z.eqb_spec (fsize f) last); [lia|]. rewrite Z.eqb_refl. reflexivity.
  Qed.

  Lemma seek_loop_too_late ts : f <> [] ->
    (forall k l t, nth_error f k = Some (l, t) -> t < ts) ->
    forall fuel a last depth, (a <= length f)%nat -> last < St f a ->
    fsize f - St f a < 2 ^ Z.of_nat fuel ->
    seek_loop (S fuel) me f ts (St f a) (fsize f) (St f a + (fsize f - St f a) ÷ 2) last depth = TooLate.
  Proof.
    intros Hne Hall.
    induction fuel as [|fuel IH]; intros a last depth Ha Hlast Hw;
      pose proof (St_le_size a) as Hsz; pose proof (St_nonneg a) as Hnn;
      (assert (Hq : 2 * ((fsize f - St f a) ÷ 2) <= fsize f - St f a <= 2 * ((fsize f - St f a) ÷ 2) + 1)
         by (rewrite Z.quot_div_nonneg by lia; lia));
      (destruct (Z.eq_dec (fsize f - St f a) 0) as [Hw0|Hw0]; [apply too_late_final; auto; lia|]).
    - cbn in Hw. lia.
    - rewrite pow2_succ in Hw.
      set (p := St f a + (fsize f - St f a) ÷ 2) in *.
      destruct (locate me f Hf (length f) a p ltac:(lia) ltac:(rewrite St_all; subst p; lia))
        as (k & lk & tk & Hk & Ek & Hpk).
      cbn [seek_loop]. rewrite (probe_line_in me f k lk tk p Hme Hf Ek Hpk).
      pose proof (St_mono me f Hf a k ltac:(lia)) as Hak.
      pose proof (nth_line_ok _ _ _ _ _ Hf Ek) as Hlk.
      destruct (Z.eqb_spec (St f k) last); [lia|].
      pose proof (St_le_size (S k)) as Hsk'.
      pose proof (St_succ _ _ _ _ Ek) as Hsk. rewrite Hsk in Hsk'.
      destruct (Z.eqb_spec (St f k) (fsize f)); [lia|].
      destruct (Z.eqb_spec tk 0); [exfalso; eapply nth_stamp_nonzero; eauto|].
      pose proof (Hall _ _ _ Ek).
      destruct (Z.eqb_spec tk ts); [lia|]. destruct (Z.gtb_spec tk ts); [lia|].
      rewrite <- Hsk.
      apply IH; subst p; lia.
  Qed.

  (** *** stamp older than every line: too early *)
  Lemma seek_loop_too_early ts : f <> [] ->
    (forall k l t, nth_error f k = Some (l, t) -> ts < t) ->
    forall fuel b last depth, (b <= length f)%nat ->
    (last = St f b \/ (last = -1 /\ b = length f)) ->
    St f b < 2 ^ Z.of_nat fuel ->
    seek_loop (S fuel) me f ts 0 (St f b) (0 + (St f b - 0) ÷ 2) last depth = TooEarly.
  Proof.
    intros Hne Hall.
    assert (Hsize : 0 < fsize f).
    { destruct f as [|[l t] f']; [congruence|]. inversion Hf; subst. cbn [fsize fst] in *.
      pose proof (fsize_nonneg _ _ H2). lia. }
    assert (H0 : exists l0 t0, nth_error f 0 = Some (l0, t0)).
    { destruct f as [|[l t] f']; [congruence|]. cbn. eauto. }
    destruct H0 as (l0 & t0 & E0). pose proof (nth_line_ok _ _ _ _ _ Hf E0) as Hl0.
    induction fuel as [|fuel IH]; intros b last depth Hb Hlast Hw;
      pose proof (St_nonneg b) as Hnn; rewrite Z.add_0_l, Z.sub_0_r;
      (assert (Hq : 2 * (St f b ÷ 2) <= St f b <= 2 * (St f b ÷ 2) + 1) by (rewrite Z.quot_div_nonneg by lia; lia));
      (destruct (Z.eq_dec (St f b) 0) as [Hb0|Hb0];
       [ rewrite Hb0 in *; change (0 ÷ 2) with 0;
         cbn [seek_loop];
         rewrite (probe_line_in me f 0 l0 t0 0 Hme Hf E0) by (rewrite St_0; lia);
         rewrite St_0;
         assert (last = 0) as -> by (destruct Hlast as [?|[? ->]]; [lia|rewrite St_all in Hb0; lia]);
         reflexivity | ]).
    - cbn in Hw. lia.
    - rewrite pow2_succ in Hw.
      set (p := St f b ÷ 2) in *.
      destruct (locate me f Hf b 0%nat p ltac:(lia) ltac:(rewrite St_0; subst p; lia)) as (k & lk & tk & Hk & Ek & Hpk).
      cbn [seek_loop]. rewrite (probe_line_in me f k lk tk p Hme Hf Ek Hpk).
      pose proof (St_nonneg k). pose proof (St_le_size b).
      destruct (Z.eqb_spec (St f k) last); [destruct Hlast as [?|[? ?]]; lia|].
      destruct (Z.eqb_spec (St f k) (fsize f)); [lia|].
      destruct (Z.eqb_spec tk 0); [exfalso; eapply nth_stamp_nonzero; eauto|].
      pose proof (Hall _ _ _ Ek).
      destruct (Z.eqb_spec tk ts); [lia|]. destruct (Z.gtb_spec tk ts); [|lia].
      apply IH; try lia.
  Qed.
End Seek.

(** *** C20_seek_present / C20_seek_absent at the level of qLogFile.seekTS *)
Definition size_ok (f : qfile) : Prop := fsize f < 2 ^ 63.

Lemma pow63_le_99 : 2 ^ 63 <= 2 ^ Z.of_nat 99.
Proof. vm_compute. discriminate. Qed.

Theorem seek_present me f t l ts :
  0 < me -> lines_ok me f -> stamps_nonzero f -> sorted_ts f -> size_ok f ->
  nth_error f t = Some (l, ts) ->
  exists d, seek_ts me f ts = Found (St f t + l) d.
Proof.
  intros Hme Hf Hnz Hs Hsz Et. unfold seek_ts, seek_ts_fuel.
  pose proof (seek_loop_present me f Hme Hf Hnz t l ts Hs Et max_depth 0 (length f) (-1) 0) as H.
  rewrite St_0, St_all, Z.add_0_l, Z.sub_0_r in H. apply H.
  - split; [lia|]. eapply nth_error_Some_length; eauto.
  - lia.
  - left; lia.
  - unfold size_ok in Hsz. pose proof pow63_le_99. change max_depth with (S 99). rewrite pow2_succ.
    pose proof (pow2_pos 99). lia.
Qed.

Theorem seek_too_late me f ts :
  0 < me -> lines_ok me f -> stamps_nonzero f -> size_ok f -> f <> [] ->
  (forall k l t, nth_error f k = Some (l, t) -> t < ts) ->
  seek_ts me f ts = TooLate.
Proof.
  intros Hme Hf Hnz Hsz Hne Hall. unfold seek_ts, seek_ts_fuel. change max_depth with (S 99).
  pose proof (seek_loop_too_late me f Hme Hf Hnz ts Hne Hall 99 0 (-1) 0) as H.
  rewrite St_0, Z.add_0_l, Z.sub_0_r in H. apply H; try lia.
  unfold size_ok in Hsz. pose proof pow63_le_99. lia.
Qed.

Theorem seek_too_early me f ts :
  0 < me -> lines_ok me f -> stamps_nonzero f -> size_ok f -> f <> [] ->
  (forall k l t, nth_error f k = Some (l, t) -> ts < t) ->
  seek_ts me f ts = TooEarly.
Proof.
  intros Hme Hf Hnz Hsz Hne Hall. unfold seek_ts, seek_ts_fuel. change max_depth with (S 99).
  pose proof (seek_loop_too_early me f Hme Hf Hnz ts Hne Hall 99 (length f) (-1) 0) as H.
  rewrite St_all, Z.add_0_l, Z.sub_0_r in H. apply H; try lia.
  unfold size_ok in Hsz. pose proof pow63_le_99. lia.
Qed.

(** Premises satisfiable: three lines, me = 8. *)
Example seek_example :
  let f := [(5, 11); (7, 12); (3, 13)] in
  lines_ok 8 f /\ stamps_nonzero f /\ size_ok f /\
  seek_ts 8 f 12 = Found 13 0 /\ seek_ts 8 f 11 = Found 5 1 /\
  seek_ts 8 f 99 = TooLate /\ seek_ts 8 f 1 = TooEarly.
Proof.
  cbv zeta. split; [repeat constructor; cbn; lia|]. split; [repeat constructor; cbn; lia|].
  split; [unfold size_ok; cbn; lia|]. vm_compute. repeat split.
Qed.

(** ** The multi-file reader: seeking (C20_two_files, seek part) *)

Definition file_ok (me : Z) (f : qfile) : Prop :=
  lines_ok me f /\ stamps_nonzero f /\ size_ok f /\ f <> [].

Definition all_newer (ts : Z) (f : qfile) : Prop := forall k l t, nth_error f k = Some (l, t) -> ts < t.
Definition all_older (ts : Z) (f : qfile) : Prop := forall k l t, nth_error f k = Some (l, t) -> t < ts.

Lemma files_set_state r i s f s0 :
  nth_error (r_files r) i = Some (f, s0) ->
  map fst (set_state r (Z.of_nat i) s) = files r.
Proof.
  intro H. unfold set_state, files. rewrite Nat2Z.id, (nth_file_nth_error _ _ _ H). cbn [fst].
  eapply map_fst_set_nth; eauto.
Qed.

Lemma nth_files r i f : nth_error (files r) i = Some f -> exists s, nth_error (r_files r) i = Some (f, s).
Proof.
  unfold files. rewrite nth_error_map. destruct (nth_error (r_files r) i) as [[f' s]|]; cbn; [|discriminate].
  intro H; injection H as <-. eauto.
Qed.

(** Files newer than the wanted stamp answer too-early and are passed over. *)
Lemma reader_seek_loop_skip me ts : 0 < me ->
  forall n r i, (i < n <= length (r_files r))%nat ->
  Forall (file_ok me) (files r) ->
  (forall j f, (i < j < n)%nat -> nth_error (files r) j = Some f -> all_newer ts f) ->
  exists r', reader_seek_loop me n ts r = reader_seek_loop me (S i) ts r' /\
             files r' = files r /\ r_cur r' = r_cur r /\ r_fellback r' = r_fellback r.
Proof.
  intros Hme. induction n as [|n IH]; intros r i Hn Hok Hnew; [lia|].
  destruct (Nat.eq_dec n i) as [->|Hne]; [exists r; auto|].
  destruct (nth_error (r_files r) n) as [[f s]|] eqn:E; [|apply nth_error_None in E; lia].
  assert (Ef : nth_error (files r) n = Some f) by (unfold files; rewrite nth_error_map, E; reflexivity).
  assert (Hfok : file_ok me f).
  { rewrite Forall_forall in Hok. apply Hok. eapply nth_error_In; eauto. }
  destruct Hfok as (H1 & H2 & H3 & H4).
  cbn [reader_seek_loop]. rewrite (nth_file_nth_error _ _ _ E).
  unfold seek_ts_state. rewrite (seek_too_early me f ts Hme H1 H2 H3 H4 (Hnew n f ltac:(lia) Ef)).
  set (r2 := {| r_files := _; r_cur := _; r_fellback := _ |}).
  assert (Hfiles : files r2 = files r) by (unfold r2, files at 1; cbn [r_files]; eapply files_set_state; eauto).
  destruct (IH r2 i) as (r' & Hr' & Hf' & Hc' & Hb').
  - unfold r2. cbn [r_files]. unfold set_state. rewrite set_nth_length. lia.
  - rewrite Hfiles; auto.
  - intros j f' Hj. rewrite Hfiles. apply Hnew. lia.
  - exists r'. rewrite Hr'. repeat split; auto; congruence.
Qed.

(** The file holding the stamp is found; the reader stands on that line. *)
Lemma reader_seek_loop_found me ts r i f t l : 0 < me ->
  Forall (file_ok me) (files r) -> nth_error (files r) i = Some f ->
  sorted_ts f -> nth_error f t = Some (l, ts) ->
  exists r' s, reader_seek_loop me (S i) ts r = (RFound, r') /\ files r' = files r /\
    r_cur r' = Z.of_nat i /\ r_fellback r' = r_fellback r /\
    nth_error (r_files r') i = Some (f, s) /\ pos s = St f t + l.
Proof.
  intros Hme Hok Ef Hs Et. destruct (nth_files _ _ _ Ef) as [s0 E].
  assert (Hfok : file_ok me f).
  { rewrite Forall_forall in Hok. apply Hok. eapply nth_error_In; eauto. }
  destruct Hfok as (H1 & H2 & H3 & H4).
  cbn [reader_seek_loop]. rewrite (nth_file_nth_error _ _ _ E).
  unfold seek_ts_state. destruct (seek_present me f t l ts Hme H1 H2 Hs H3 Et) as [d ->].
  eexists; eexists. split; [reflexivity|]. cbn [r_files r_cur r_fellback].
  split; [eapply files_set_state; eauto|]. split; [reflexivity|]. split; [reflexivity|].
  split.
  - unfold set_state. rewrite Nat2Z.id, (nth_file_nth_error _ _ _ E). cbn [fst].
    eapply nth_error_set_nth_same; eauto.
  - reflexivity.
Qed.

(** A stamp newer than the newest file: fall back to the newest end. *)
Lemma reader_seek_loop_late me ts r n f : 0 < me ->
  Forall (file_ok me) (files r) -> length (r_files r) = S n ->
  nth_error (files r) n = Some f -> all_older ts f ->
  exists r', reader_seek_loop me (S n) ts r = (RFellBack, r') /\ files r' = files r /\
    r_cur r' = Z.of_nat n /\
    exists s, nth_error (r_files r') n = Some (f, s) /\ pos s = Z.max 0 (fsize f - 1).
Proof.
  intros Hme Hok Hlen Ef Hold. destruct (nth_files _ _ _ Ef) as [s0 E].
  assert (Hfok : file_ok me f).
  { rewrite Forall_forall in Hok. apply Hok. eapply nth_error_In; eauto. }
  destruct Hfok as (H1 & H2 & H3 & H4).
  cbn [reader_seek_loop]. rewrite (nth_file_nth_error _ _ _ E).
  unfold seek_ts_state. rewrite (seek_too_late me f ts Hme H1 H2 H3 H4 Hold).
  set (r1 := {| r_files := set_state r (Z.of_nat n) _; r_cur := r_cur r; r_fellback := r_fellback r |}).
  assert (E1 : nth_error (r_files r1) n = Some (f, {| pos := pos s0; buf_start := buf_start s0; buf_valid := false |})).
  { unfold r1. cbn [r_files]. unfold set_state. rewrite Nat2Z.id, (nth_file_nth_error _ _ _ E). cbn [fst].
    eapply nth_error_set_nth_same; eauto. }
  assert (Hf1 : files r1 = files r) by (unfold r1, files at 1; cbn [r_files]; eapply files_set_state; eauto).
  assert (Hl1 : length (r_files r1) = S n).
  { unfold r1. cbn [r_files]. unfold set_state. rewrite set_nth_length. auto. }
  rewrite reader_seek_start_nonempty by (intro Hx; rewrite Hx in Hl1; discriminate).
  cbv zeta. rewrite Hl1. replace (Z.of_nat (S n) - 1) with (Z.of_nat n) by lia.
  rewrite (nth_file_nth_error _ _ _ E1).
  eexists. split; [reflexivity|]. cbn [r_files r_cur].
  split; [rewrite <- Hf1; eapply files_set_state; eauto|]. split; [reflexivity|].
  eexists. split.
  - unfold set_state. rewrite Nat2Z.id, (nth_file_nth_error _ _ _ E1). cbn [fst].
    eapply nth_error_set_nth_same; eauto.
  - reflexivity.
Qed.

Lemma reader_read_next_spec me buf r i p g x rest : 0 < me <= buf ->
  rinv me r i p g -> rexp r i p = x :: rest ->
  exists r' i' p' g', reader_read_next me buf r = (Some x, r') /\
    rinv me r' i' p' g' /\ rexp r' i' p' = rest /\ files r' = files r.
Proof.
  intros Hme Hinv Hexp.
  pose proof Hinv as (Hc & (s & Hs & _) & _).
  pose proof (nth_error_Some_length _ _ _ Hs) as Hlen.
  pose proof (reader_read_loop_spec me buf Hme (S (length (r_files r))) r i p g Hinv ltac:(lia)) as H.
  assert (Hrn : reader_read_next me buf r = reader_read_loop me buf (S (length (r_files r))) r).
  { unfold reader_read_next. destruct (r_files r); [cbn in Hlen; lia|reflexivity]. }
  rewrite Hrn. rewrite Hexp in H. exact H.
Qed.

(** Seeking a present stamp in file [i], line [t] (all newer files lie wholly
    after it), then skipping the found line: what remains to be read is the
    older part of that file and the older files. *)
Theorem reader_seek_present me buf (fs : list qfile) i f t l ts :
  0 < me <= buf -> Forall (file_ok me) fs ->
  nth_error fs i = Some f -> sorted_ts f -> nth_error f t = Some (l, ts) ->
  (forall j f', (i < j)%nat -> nth_error fs j = Some f' -> all_newer ts f') ->
  exists r' r'' x, reader_seek_ts me ts (new_reader fs) = (RFound, r') /\
    reader_read_next me buf r' = (Some x, r'') /\
    forall fuel, (length (tagged i (firstn t f) ++ all_rev_upto i fs) < fuel)%nat ->
      reader_read_all me buf fuel r'' = tagged i (firstn t f) ++ all_rev_upto i fs.
Proof.
  intros Hme Hok Ef Hs Et Hnew.
  set (r0 := {| r_files := r_files (new_reader fs); r_cur := r_cur (new_reader fs); r_fellback := false |}).
  assert (Hf0 : files r0 = fs).
  { unfold files, r0. cbn [r_files new_reader]. rewrite map_map. cbn. apply map_id. }
  assert (Hl0 : length (r_files r0) = length fs) by (unfold r0; cbn; apply map_length).
  pose proof (nth_error_Some_length _ _ _ Ef) as Hi.
  assert (Hst : reader_seek_ts me ts (new_reader fs) = reader_seek_loop me (length fs) ts r0).
  { unfold reader_seek_ts. fold r0. change (r_files (new_reader fs)) with (r_files r0).
    rewrite Hl0. destruct (r_files r0) eqn:E; [cbn in Hl0; lia|]. reflexivity. }
  destruct (reader_seek_loop_skip me ts ltac:(lia) (length fs) r0 i ltac:(lia)
              ltac:(rewrite Hf0; auto) ltac:(intros j f' Hj; rewrite Hf0; apply Hnew; lia))
    as (r1 & Hr1 & Hf1 & _ & _).
  destruct (reader_seek_loop_found me ts r1 i f t l ltac:(lia) ltac:(rewrite Hf1, Hf0; auto)
              ltac:(rewrite Hf1, Hf0; auto) Hs Et) as (r' & s & Hr' & Hf' & Hc' & _ & Hn' & Hp').
  assert (Hinv : rinv me r' i (firstn (S t) f) (skipn (S t) f)).
  { split; [exact Hc'|]. split.
    - exists s. rewrite firstn_skipn. split; auto. rewrite Hp'.
      fold (St f (S t)). rewrite (St_succ _ _ _ _ Et).
      assert (Hlf : lines_ok me f).
      { rewrite Forall_forall in Hok. apply (Hok f). eapply nth_error_In; eauto. }
      assert (0 <= St f t) by (apply (fsize_nonneg me); apply lines_ok_firstn; auto).
      pose proof (nth_line_ok _ _ _ _ _ Hlf Et). lia.
    - rewrite Hf', Hf1, Hf0. eapply Forall_impl; [|exact Hok]. intros a Ha. apply Ha. }
  assert (Hexp : rexp r' i (firstn (S t) f) =
                 (Z.of_nat i, St f t, l) :: (tagged i (firstn t f) ++ all_rev_upto i fs)).
  { unfold rexp. rewrite Hf', Hf1, Hf0. rewrite (firstn_S_snoc f t (0, 0)) by (eapply nth_error_Some_length; eauto).
    rewrite (nth_error_nth _ _ _ Et), tagged_snoc. reflexivity. }
  destruct (reader_read_next_spec me buf r' i _ _ _ _ Hme Hinv Hexp) as (r'' & i' & p' & g' & Hn & Hinv' & Hexp' & _).
  exists r', r'', (Z.of_nat i, St f t, l). split; [rewrite Hst, Hr1; exact Hr'|]. split; [exact Hn|].
  intros fuel Hfuel. rewrite <- Hexp'. eapply reader_read_all_spec; eauto. rewrite Hexp'. exact Hfuel.
Qed.

(** Seeking a stamp newer than everything in the (non-empty) newest file:
    the reader falls back to the newest end and everything is read. *)
Theorem reader_seek_newer me buf (fs : list qfile) n f ts :
  0 < me <= buf -> Forall (file_ok me) fs -> length fs = S n ->
  nth_error fs n = Some f -> all_older ts f ->
  exists r', reader_seek_ts me ts (new_reader fs) = (RFellBack, r') /\
    forall fuel, (length (all_rev fs) < fuel)%nat -> reader_read_all me buf fuel r' = all_rev fs.
Proof.
  intros Hme Hok Hlen Ef Hold.
  set (r0 := {| r_files := r_files (new_reader fs); r_cur := r_cur (new_reader fs); r_fellback := false |}).
  assert (Hf0 : files r0 = fs).
  { unfold files, r0. cbn [r_files new_reader]. rewrite map_map. cbn. apply map_id. }
  assert (Hl0 : length (r_files r0) = S n) by (unfold r0; cbn; rewrite map_length; auto).
  assert (Hst : reader_seek_ts me ts (new_reader fs) = reader_seek_loop me (S n) ts r0).
  { unfold reader_seek_ts. fold r0. change (r_files (new_reader fs)) with (r_files r0).
    rewrite Hl0. destruct (r_files r0) eqn:E; [cbn in Hl0; lia|]. reflexivity. }
  destruct (reader_seek_loop_late me ts r0 n f ltac:(lia) ltac:(rewrite Hf0; auto) Hl0
              ltac:(rewrite Hf0; auto) Hold) as (r1 & Hr1 & Hf1 & Hc1 & s & Hs & Hp).
  set (r' := {| r_files := r_files r1; r_cur := r_cur r1; r_fellback := true |}).
  exists r1. split; [rewrite Hst; exact Hr1|].
  assert (Hinv : rinv me r1 n f []).
  { split; [exact Hc1|]. split.
    - exists s. rewrite app_nil_r. auto.
    - rewrite Hf1, Hf0. eapply Forall_impl; [|exact Hok]. intros a Ha. apply Ha. }
  assert (Hexp : rexp r1 n f = all_rev fs).
  { unfold rexp, all_rev. rewrite Hf1, Hf0, Hlen. cbn [all_rev_upto]. rewrite (nth_error_nth _ _ _ Ef). reflexivity. }
  intros fuel Hfuel. rewrite <- Hexp. eapply reader_read_all_spec; eauto. rewrite Hexp. exact Hfuel.
Qed.

(** C20 proofs about Model/QLogFile.v. *)
From Coq Require Import ZArith List Bool Lia.
From AGH Require Import Model.QLogFile.
Import ListNotations.
Local Open Scope Z_scope.
Ltac Zify.zify_post_hook ::= Z.to_euclidean_division_equations.

(** ** Specification vocabulary *)

(** (start, length) of every line of a file whose first line starts at [o]. *)
Fixpoint spans (f : qfile) (o : Z) : list (Z * Z) :=
  match f with [] => [] | (l, _) :: r => (o, l) :: spans r (o + l + 1) end.

(** Lines are non-empty and shorter than [me] (so line + newline fit in [me]). *)
Definition lines_ok (me : Z) (f : qfile) : Prop := Forall (fun x : line => 0 < fst x < me) f.

Lemma fsize_app f g : fsize (f ++ g) = fsize f + fsize g.
Proof. induction f as [|[l t] f IH]; cbn [fsize app]; lia. Qed.

Lemma fsize_nonneg me f : lines_ok me f -> 0 <= fsize f.
Proof. induction 1 as [|[l t] f H _ IH]; cbn [fsize] in *; [lia|]. cbv beta in H; cbn [fst] in H; lia. Qed.

Lemma spans_app f g o : spans (f ++ g) o = spans f o ++ spans g (o + fsize f).
Proof.
  revert o; induction f as [|[l t] f IH]; intro o; cbn [spans fsize app].
  - f_equal; lia.
  - rewrite IH. do 3 f_equal. lia.
Qed.

Lemma lines_ok_app me f g : lines_ok me (f ++ g) <-> lines_ok me f /\ lines_ok me g.
Proof. apply Forall_app. Qed.

(** ** line_at *)

(** The byte at the newline of the line that follows the prefix [f] belongs
    to that line. *)
Lemma line_at_prefix me (f : qfile) l t (g : qfile) o p :
  lines_ok me f -> o + fsize f <= p <= o + fsize f + l ->
  line_at (f ++ (l, t) :: g) o p = Some (o + fsize f, l, t).
Proof.
  intro H; revert o; induction H as [|[l' t'] f Hl Hf IH]; intros o Hp; cbn [fsize app line_at fst] in *.
  - destruct (Z.ltb_spec (o + l) p); [lia|]. do 3 f_equal; lia.
  - apply (fsize_nonneg me) in Hf. cbv beta in Hl; cbn [fst] in Hl.
    destruct (Z.ltb_spec (o + l') p); [|lia].
    rewrite IH by lia. do 3 f_equal; lia.
Qed.

Lemma line_at_beyond me f o p : lines_ok me f -> o + fsize f <= p -> line_at f o p = None.
Proof.
  intro H; revert o; induction H as [|[l' t'] f Hl Hf IH]; intros o Hp; cbn [fsize line_at fst] in *; auto.
  apply (fsize_nonneg me) in Hf. cbv beta in Hl; cbn [fst] in Hl.
  destruct (Z.ltb_spec (o + l') p); [|lia]. apply IH; lia.
Qed.

Lemma line_start_prefix me (f : qfile) l t (g : qfile) p :
  lines_ok me f -> fsize f <= p <= fsize f + l ->
  line_start (f ++ (l, t) :: g) p = fsize f.
Proof.
  intros H Hp. unfold line_start. rewrite (line_at_prefix me) by (auto; lia). lia.
Qed.

(** ** One reverse-read step *)

(** From the newline of the line after prefix [f], whatever the window state,
    ReadNext returns exactly that line and moves to the previous newline (or
    to 0 = EOF when it was the first line). *)
Lemma read_next_step me buf (f : qfile) l t (g : qfile) s :
  0 < me <= buf -> lines_ok me f -> 0 < l < me ->
  pos s = fsize f + l ->
  exists s',
    read_next me buf (f ++ (l, t) :: g) s = (Some (fsize f, l), s') /\
    pos s' = (if fsize f =? 0 then 0 else fsize f - 1).
Proof.
  intros Hme Hf Hl Hp. unfold read_next.
  pose proof (fsize_nonneg _ _ Hf) as Hn.
  destruct (Z.eqb_spec (pos s) 0); [lia|].
  rewrite (line_start_prefix me) by (auto; lia).
  set (bs := if _ : bool then _ else _).
  assert (Hbs : bs <= fsize f).
  { subst bs.
    destruct (negb (buf_valid s) || ((pos s - buf_start s <? me) && negb (buf_start s =? 0))) eqn:E.
    - destruct (Z.gtb_spec (pos s) buf); lia.
    - apply orb_false_elim in E as [_ E]. apply andb_false_elim in E as [E|E].
      + apply Z.ltb_ge in E. lia.
      + apply negb_false_iff, Z.eqb_eq in E. lia. }
  rewrite Z.max_r by lia.
  eexists; split; [do 3 f_equal; lia|]. reflexivity.
Qed.

(** Reading on from the newline of the last line of a prefix returns the
    prefix's lines in reverse and then EOF, wherever the windows fall. *)
Lemma read_all_prefix me buf f : 0 < me <= buf -> lines_ok me f ->
  forall (g : qfile) s fuel, pos s = Z.max 0 (fsize f - 1) -> (length f < fuel)%nat ->
  read_all me buf (f ++ g) fuel s = (rev (spans f 0), true).
Proof.
  intros Hme. induction f as [|[l t] f IH] using rev_ind; intros Hf g s fuel Hp Hfuel.
  - destruct fuel; [cbn in Hfuel; lia|]. cbn [read_all app]. unfold read_next.
    cbn [fsize] in Hp. rewrite Hp. reflexivity.
  - apply lines_ok_app in Hf as [Hf Hl]. inversion Hl as [|? ? Hl' _]; subst; cbn [fst] in Hl'.
    pose proof (fsize_nonneg _ _ Hf) as Hn.
    rewrite app_length in Hfuel; cbn [length] in Hfuel.
    destruct fuel; [lia|]. cbn [read_all].
    rewrite <- app_assoc; cbn [app].
    rewrite fsize_app in Hp; cbn [fsize] in Hp.
    destruct (read_next_step me buf f l t g s Hme Hf Hl' ltac:(lia)) as (s' & -> & Hp').
    rewrite (IH Hf ((l, t) :: g) s' fuel) by (try lia; rewrite Hp';
      destruct (Z.eqb_spec (fsize f) 0); lia).
    rewrite spans_app, rev_app_distr. cbn [spans rev app]. repeat f_equal; lia.
Qed.

(** *** C20_reverse_complete *)
Theorem reverse_complete me buf f s0 :
  0 < me <= buf -> lines_ok me f ->
  read_all me buf f (S (length f)) (seek_start f s0) = (rev (spans f 0), true).
Proof.
  intros Hme Hf.
  rewrite <- (app_nil_r f) at 1.
  apply read_all_prefix; auto.
Qed.

(** The Go constants satisfy the hypothesis. *)
Lemma go_consts_ok : 0 < max_entry_size <= buffer_size.
Proof. vm_compute. split; [reflexivity|discriminate]. Qed.

(** Premises satisfiable: a three-line file that does not fit the window
    (me = 8, buf = 10), read completely. *)
Example reverse_complete_example :
  let f := [(5, 11); (7, 12); (3, 13)] in
  lines_ok 8 f /\
  read_all 8 10 f 4 (seek_start f rstate0) = ([(14, 3); (6, 7); (0, 5)], true).
Proof. split; [repeat constructor; cbn; lia|reflexivity]. Qed.

(** Each line is returned exactly once: the result has as many elements as
    the file has lines and its starts are strictly decreasing. *)
Lemma spans_length f o : length (spans f o) = length f.
Proof. revert o; induction f as [|[l t] f IH]; intro o; cbn; auto. Qed.

(** The k-th line read (0 = first read) is line n-1-k of the file. *)
Lemma spans_nth f o k l t :
  nth_error f k = Some (l, t) ->
  nth_error (spans f o) k = Some (o + fsize (firstn k f), l).
Proof.
  revert o k; induction f as [|[l' t'] f IH]; intros o k H; destruct k; cbn in *; try discriminate.
  - injection H as -> ->. f_equal. f_equal. lia.
  - rewrite (IH _ _ H). do 2 f_equal. lia.
Qed.

(** ** Timestamp seek: soundness of a returned position *)

(** [is_line f k s l t]: line number k of f starts at byte s, has length l and
    stamp t. *)
Definition is_line (f : qfile) (k : nat) (s l t : Z) : Prop :=
  nth_error f k = Some (l, t) /\ s = fsize (firstn k f).

Lemma line_at_sound f : forall o p s l t,
  line_at f o p = Some (s, l, t) ->
  exists k, nth_error f k = Some (l, t) /\ s = o + fsize (firstn k f).
Proof.
  induction f as [|[l' t'] f IH]; intros o p s l t H; cbn [line_at] in H; [discriminate|].
  destruct (o + l' <? p).
  - apply IH in H as (k & Hk & ->). exists (S k). cbn [nth_error firstn fsize]. split; auto. lia.
  - injection H as <- <- <-. exists 0%nat. cbn. split; auto. lia.
Qed.

Lemma probe_line_stamp me f p li le len lts :
  probe_line me f p = Some (li, le, len, lts) -> lts <> 0 ->
  exists k l, is_line f k li l lts /\ len = l /\ le = li + l + 1.
Proof.
  unfold probe_line. destruct (_ <=? 0); [discriminate|].
  destruct (line_at f 0 p) as [[[s l] t]|] eqn:E.
  - destruct (s + l <? _).
    + intros H Hne. injection H as <- <- <- <-.
      destruct (Z.eqb_spec (Z.max (if p >? me then p - me else 0) s) s) as [Heq|]; [|congruence].
      apply line_at_sound in E as (k & Hk & Hs). exists k, l. unfold is_line.
      rewrite Heq. repeat split; auto; lia.
    + intros H Hne. injection H as <- <- <- <-. congruence.
  - intros H Hne. injection H as <- <- <- <-. congruence.
Qed.

(** Whatever the file (sorted or not, any line lengths) and whatever the
    fuel: a position returned by seekTS is the newline of a line that carries
    exactly the wanted stamp, and the depth stayed under the fuel. *)
Lemma seek_loop_sound fuel me f ts : forall start end_ probe last depth p d,
  seek_loop fuel me f ts start end_ probe last depth = Found p d ->
  exists k s l, is_line f k s l ts /\ p = s + l /\ depth <= d < depth + Z.of_nat fuel.
Proof.
  induction fuel as [|fuel IH]; intros start end_ probe last depth p d H; cbn [seek_loop] in H; [discriminate|].
  destruct (probe_line me f probe) as [[[[li le] len] lts]|] eqn:E; [|discriminate].
  destruct (li =? last); [destruct (li =? 0); discriminate|].
  destruct (li =? fsize f); [discriminate|].
  destruct (Z.eqb_spec lts 0); [discriminate|].
  destruct (Z.eqb_spec lts ts).
  - injection H as <- <-. subst lts.
    destruct (probe_line_stamp _ _ _ _ _ _ _ E n) as (k & l & Hk & -> & _).
    exists k, li, l. split; [exact Hk|]. lia.
  - apply IH in H as (k & s & l & Hk & -> & Hd). exists k, s, l. split; [exact Hk|]. lia.
Qed.

Theorem seek_found_sound me f ts p d :
  seek_ts me f ts = Found p d ->
  exists k s l, is_line f k s l ts /\ p = s + l /\ 0 <= d < 100.
Proof.
  unfold seek_ts, seek_ts_fuel. intro H. apply seek_loop_sound in H as (k & s & l & ? & ? & ?).
  exists k, s, l. split; [assumption|]. cbn in *; lia.
Qed.

(** A failed seek leaves the read position untouched. *)
Theorem seek_absent_keeps_position me f ts s :
  (forall p d, seek_ts me f ts <> Found p d) ->
  pos (snd (seek_ts_state me f ts s)) = pos s.
Proof.
  unfold seek_ts_state. cbn [snd pos]. intro H. destruct (seek_ts me f ts); try reflexivity.
  exfalso; eapply H; reflexivity.
Qed.

(** After a successful seek the next read returns exactly the found line
    (lines shorter than [me]). *)
Lemma firstn_skipn_nth {A} (f : list A) k x :
  nth_error f k = Some x -> f = firstn k f ++ x :: skipn (S k) f.
Proof.
  revert k; induction f as [|a f IH]; intros [|k] H; cbn in *; try discriminate.
  - congruence.
  - f_equal. auto.
Qed.

Lemma lines_ok_firstn me f k : lines_ok me f -> lines_ok me (firstn k f).
Proof. intro H. rewrite <- (firstn_skipn k f) in H. apply lines_ok_app in H. tauto. Qed.

Theorem seek_then_read me buf f ts s p d :
  0 < me <= buf -> lines_ok me f ->
  seek_ts_state me f ts s = (Found p d, {| pos := p; buf_start := buf_start s; buf_valid := false |}) ->
  exists k st l s',
    is_line f k st l ts /\
    read_next me buf f {| pos := p; buf_start := buf_start s; buf_valid := false |} = (Some (st, l), s').
Proof.
  intros Hme Hf H. unfold seek_ts_state in H.
  destruct (seek_ts me f ts) eqn:E; try discriminate. injection H as -> ->.
  apply seek_found_sound in E as (k & st & l & [Hk Hs] & -> & _).
  pose proof (firstn_skipn_nth _ _ _ Hk) as Hsplit.
  assert (Hl : 0 < l < me).
  { unfold lines_ok in Hf. rewrite Forall_forall in Hf.
    apply nth_error_In in Hk. apply Hf in Hk. exact Hk. }
  destruct (read_next_step me buf (firstn k f) l ts (skipn (S k) f)
              {| pos := st + l; buf_start := buf_start s; buf_valid := false |} Hme
              (lines_ok_firstn _ _ k Hf) Hl ltac:(cbn; lia)) as (s' & Hr & _).
  rewrite <- Hsplit in Hr. exists k, st, l, s'. split; [split; auto|]. rewrite Hr. subst st. reflexivity.
Qed.

(** ** The multi-file reader: reverse reading across files *)

Definition files (r : reader) : list qfile := map fst (r_files r).

Definition tagged (i : nat) (f : qfile) : list (Z * Z * Z) :=
  map (fun x : Z * Z => (Z.of_nat i, fst x, snd x)) (rev (spans f 0)).

(** Files i-1, ..., 0 (newest of them first), each read backwards. *)
Fixpoint all_rev_upto (i : nat) (fs : list qfile) : list (Z * Z * Z) :=
  match i with O => [] | S i' => tagged i' (nth i' fs []) ++ all_rev_upto i' fs end.

Definition all_rev (fs : list qfile) : list (Z * Z * Z) := all_rev_upto (length fs) fs.

(** The reader is on file [i], with the lines [p] of it still to be returned
    (and [g] already returned). *)
Definition rinv (me : Z) (r : reader) (i : nat) (p g : qfile) : Prop :=
  r_cur r = Z.of_nat i /\
  (exists s, nth_error (r_files r) i = Some (p ++ g, s) /\ pos s = Z.max 0 (fsize p - 1)) /\
  Forall (lines_ok me) (files r).

Definition rexp (r : reader) (i : nat) (p : qfile) : list (Z * Z * Z) :=
  tagged i p ++ all_rev_upto i (files r).

Lemma set_nth_length {A} (l : list A) n x : length (set_nth l n x) = length l.
Proof. revert n; induction l; intros [|n]; cbn; auto. Qed.

Lemma nth_error_set_nth_same {A} (l : list A) n x y :
  nth_error l n = Some y -> nth_error (set_nth l n x) n = Some x.
Proof. revert n; induction l; intros [|n]; cbn; auto; discriminate. Qed.

Lemma nth_error_set_nth_other {A} (l : list A) n m x :
  n <> m -> nth_error (set_nth l n x) m = nth_error l m.
Proof. revert n m; induction l; intros [|n] [|m] H; cbn; auto; congruence. Qed.

Lemma map_fst_set_nth {A B} (l : list (A * B)) n a b b0 :
  nth_error l n = Some (a, b0) -> map fst (set_nth l n (a, b)) = map fst l.
Proof.
  revert n; induction l as [|[a' b'] l IH]; intros [|n]; cbn; auto; intro H.
  - congruence.
  - f_equal; auto.
Qed.

Lemma nth_error_Some_length {A} (l : list A) n x : nth_error l n = Some x -> (n < length l)%nat.
Proof. intro H. apply nth_error_Some. congruence. Qed.

Lemma nth_file_nth_error r i x :
  nth_error (r_files r) i = Some x -> nth_file r (Z.of_nat i) = x.
Proof. intro H. unfold nth_file. rewrite Nat2Z.id. apply nth_error_nth; auto. Qed.

Lemma tagged_snoc i (p : qfile) l t :
  tagged i (p ++ [(l, t)]) = (Z.of_nat i, fsize p, l) :: tagged i p.
Proof.
  unfold tagged. rewrite spans_app, rev_app_distr. cbn [spans rev app map fst snd].
  repeat f_equal; lia.
Qed.

Lemma files_nth r i f s : nth_error (r_files r) i = Some (f, s) -> nth i (files r) [] = f.
Proof.
  intro H. unfold files. apply nth_error_nth. rewrite nth_error_map, H. reflexivity.
Qed.

(** One ReadNext of the reader: it returns the head of what is expected, or
    EOF when nothing is expected, and stays in the invariant. *)
Lemma reader_read_loop_spec me buf : 0 < me <= buf ->
  forall n r i p g, rinv me r i p g -> (i < n)%nat ->
  match rexp r i p with
  | [] => fst (reader_read_loop me buf n r) = None
  | x :: rest =>
      exists r' i' p' g', reader_read_loop me buf n r = (Some x, r') /\
        rinv me r' i' p' g' /\ rexp r' i' p' = rest /\ files r' = files r
  end.
Proof.
  intros Hme. induction n as [|n IH]; intros r i p g (Hc & (s & Hs & Hp) & Hok) Hn; [lia|].
  cbn [reader_read_loop]. rewrite Hc.
  destruct (Z.ltb_spec (Z.of_nat i) 0); [lia|].
  rewrite (nth_file_nth_error _ _ _ Hs).
  assert (Hf : lines_ok me (p ++ g)).
  { unfold files in Hok. rewrite Forall_forall in Hok. apply Hok.
    apply in_map_iff. exists (p ++ g, s). split; auto. eapply nth_error_In; eauto. }
  apply lines_ok_app in Hf as [Hfp Hfg].
  destruct p as [|[l t] p'] using rev_ind.
  - (* nothing left in this file *)
    cbn [fsize] in Hp. unfold read_next. rewrite Hp. cbn [Z.max Z.eqb app].
    change (Z.max 0 (0 - 1)) with 0. cbn [Z.eqb].
    destruct i as [|i'].
    + cbn. reflexivity.
    + replace (Z.of_nat (S i') - 1) with (Z.of_nat i') by lia.
      destruct (Z.ltb_spec (Z.of_nat i') 0); [lia|].
      destruct (nth_error (r_files r) i') as [[f' s']|] eqn:E'.
      2:{ apply nth_error_None in E'. apply nth_error_Some_length in Hs. lia. }
      rewrite (nth_file_nth_error _ _ _ E').
      set (r2 := {| r_files := _; r_cur := _; r_fellback := _ |}).
      assert (Hfiles : files r2 = files r).
      { unfold files, r2, set_state. cbn [r_files]. rewrite Nat2Z.id.
        rewrite (nth_file_nth_error _ _ _ E'). cbn [fst].
        eapply map_fst_set_nth; eauto. }
      assert (Hinv : rinv me r2 i' f' []).
      { split; [reflexivity|]. split.
        - exists (seek_start f' s'). split; [|reflexivity].
          unfold r2, set_state. cbn [r_files]. rewrite Nat2Z.id, app_nil_r.
          rewrite (nth_file_nth_error _ _ _ E'). cbn [fst].
          eapply nth_error_set_nth_same; eauto.
        - rewrite Hfiles; auto. }
      assert (Hexp : rexp r (S i') [] = rexp r2 i' f').
      { unfold rexp. rewrite Hfiles. cbn [all_rev_upto tagged spans rev map app].
        rewrite (files_nth _ _ _ _ E'). reflexivity. }
      rewrite Hexp.
      specialize (IH r2 i' f' [] Hinv ltac:(lia)).
      destruct (rexp r2 i' f') as [|x rest]; auto.
      destruct IH as (r' & i2 & p2 & g2 & H1 & H2 & H3 & H4).
      exists r', i2, p2, g2. split; [exact H1|]. split; [exact H2|]. split; [exact H3|]. congruence.
  - (* a line is left *)
    clear IHp'. apply lines_ok_app in Hfp as [Hfp' Hl].
    inversion Hl as [|? ? Hl' _]; subst; cbn [fst] in Hl'.
    rewrite fsize_app in Hp; cbn [fsize] in Hp.
    pose proof (fsize_nonneg _ _ Hfp') as Hnn.
    rewrite <- app_assoc in *; cbn [app] in *.
    destruct (read_next_step me buf p' l t g s Hme Hfp' Hl' ltac:(lia)) as (s2 & Hr & Hp2).
    rewrite Hr.
    unfold rexp. rewrite tagged_snoc. cbn [app].
    set (r2 := {| r_files := _; r_cur := _; r_fellback := _ |}).
    assert (Hfiles : files r2 = files r).
    { unfold files, r2, set_state. cbn [r_files]. rewrite Nat2Z.id.
      rewrite (nth_file_nth_error _ _ _ Hs). cbn [fst]. eapply map_fst_set_nth; eauto. }
    exists r2, i, p', ((l, t) :: g). split; [reflexivity|]. split; [|split].
    + split; [reflexivity|]. split.
      * exists s2. split.
        -- unfold r2, set_state. cbn [r_files]. rewrite Nat2Z.id.
           rewrite (nth_file_nth_error _ _ _ Hs). cbn [fst].
           eapply nth_error_set_nth_same; eauto.
        -- rewrite Hp2. destruct (Z.eqb_spec (fsize p') 0); lia.
      * rewrite Hfiles; auto.
    + rewrite Hfiles. reflexivity.
    + exact Hfiles.
Qed.

Lemma reader_read_all_spec me buf : 0 < me <= buf ->
  forall fuel r i p g, rinv me r i p g -> (length (rexp r i p) < fuel)%nat ->
  reader_read_all me buf fuel r = rexp r i p.
Proof.
  intros Hme. induction fuel as [|fuel IH]; intros r i p g Hinv Hfuel; [lia|].
  cbn [reader_read_all].
  pose proof Hinv as (Hc & (s & Hs & _) & _).
  pose proof (nth_error_Some_length _ _ _ Hs) as Hlen.
  pose proof (reader_read_loop_spec me buf Hme (S (length (r_files r))) r i p g Hinv ltac:(lia)) as H.
  assert (Hrn : reader_read_next me buf r = reader_read_loop me buf (S (length (r_files r))) r).
  { unfold reader_read_next. destruct (r_files r); [cbn in Hlen; lia|reflexivity]. }
  rewrite Hrn.
  destruct (rexp r i p) as [|x rest] eqn:E.
  - destruct (reader_read_loop _ _ _ r) as [[y|] r']; cbn in H; congruence.
  - destruct H as (r' & i' & p' & g' & -> & Hinv' & Hexp & _).
    f_equal. rewrite <- Hexp. eapply IH; eauto. rewrite Hexp. cbn in Hfuel. lia.
Qed.

(** *** C20_two_files (reading part): from SeekStart the reader returns every
    line of every file, newest file first, each file backwards, each line
    once; then EOF. *)
Definition total_len (fs : list qfile) : nat := fold_right (fun f n => (length f + n)%nat) 0%nat fs.

Lemma total_len_app a b : total_len (a ++ b) = (total_len a + total_len b)%nat.
Proof. induction a; cbn; auto. unfold total_len in *. cbn. lia. Qed.

Lemma firstn_S_snoc {A} (l : list A) i d :
  (i < length l)%nat -> firstn (S i) l = firstn i l ++ [nth i l d].
Proof.
  revert i; induction l as [|a l IH]; intros [|i] H; cbn in *; try lia; auto.
  f_equal. apply IH. lia.
Qed.

Lemma all_rev_upto_length fs : forall i, (i <= length fs)%nat ->
  length (all_rev_upto i fs) = total_len (firstn i fs).
Proof.
  induction i as [|i IH]; intro Hi; [reflexivity|].
  cbn [all_rev_upto]. rewrite app_length, IH by lia.
  unfold tagged. rewrite map_length, rev_length, spans_length.
  rewrite (firstn_S_snoc fs i []) by lia. rewrite total_len_app. cbn. lia.
Qed.

Lemma all_rev_length fs : length (all_rev fs) = total_len fs.
Proof. unfold all_rev. rewrite all_rev_upto_length, firstn_all; auto. Qed.

Lemma reader_seek_start_nonempty r : r_files r <> [] ->
  reader_seek_start r =
    let i := Z.of_nat (length (r_files r)) - 1 in
    let (f, s) := nth_file r i in
    {| r_files := set_state r i (seek_start f s); r_cur := i; r_fellback := r_fellback r |}.
Proof. unfold reader_seek_start. destruct (r_files r); congruence. Qed.

Theorem reader_reverse_complete me buf (fs : list qfile) :
  0 < me <= buf -> Forall (lines_ok me) fs ->
  reader_read_all me buf (S (total_len fs))
    (reader_seek_start (new_reader fs)) = all_rev fs.
Proof.
  intros Hme Hok. destruct fs as [|f0 fs0] eqn:Efs; [reflexivity|]. rewrite <- Efs in *.
  assert (Hlen : (0 < length fs)%nat) by (subst; cbn; lia).
  set (i := (length fs - 1)%nat).
  destruct (nth_error fs i) as [f|] eqn:E; [|apply nth_error_None in E; lia].
  assert (Hrf : r_files (new_reader fs) = map (fun f => (f, rstate0)) fs) by reflexivity.
  assert (Hs : nth_error (r_files (new_reader fs)) i = Some (f, rstate0)).
  { rewrite Hrf, nth_error_map, E. reflexivity. }
  assert (Hfl : files (new_reader fs) = fs).
  { unfold files. rewrite Hrf, map_map. cbn. apply map_id. }
  rewrite reader_seek_start_nonempty by (rewrite Hrf; subst fs; discriminate).
  cbv zeta.
  replace (Z.of_nat (length (r_files (new_reader fs))) - 1) with (Z.of_nat i)
    by (rewrite Hrf, map_length; lia).
  rewrite (nth_file_nth_error _ _ _ Hs).
  set (r2 := {| r_files := _; r_cur := _; r_fellback := _ |}).
  assert (Hfiles : files r2 = fs).
  { transitivity (files (new_reader fs)); [|exact Hfl].
    unfold files, r2, set_state. cbn [r_files]. rewrite Nat2Z.id.
    rewrite (nth_file_nth_error _ _ _ Hs). cbn [fst]. eapply map_fst_set_nth; eauto. }
  assert (Hinv : rinv me r2 i f []).
  { split; [reflexivity|]. split.
    - exists (seek_start f rstate0). split; [|reflexivity].
      unfold r2, set_state. cbn [r_files]. rewrite Nat2Z.id, app_nil_r.
      rewrite (nth_file_nth_error _ _ _ Hs). cbn [fst]. eapply nth_error_set_nth_same; eauto.
    - rewrite Hfiles; auto. }
  assert (Hexp : rexp r2 i f = all_rev fs).
  { unfold rexp, all_rev. rewrite Hfiles. replace (length fs) with (S i) by lia.
    cbn [all_rev_upto]. rewrite (nth_error_nth _ _ _ E). reflexivity. }
  rewrite <- Hexp. eapply reader_read_all_spec; eauto.
  rewrite Hexp, all_rev_length. lia.
Qed.

(** The order tables extracted from the current source (Gen/PipelineTables.v,
    written by tools/ordertables) are the ones the model is built on. *)
From Coq Require Import List String.
From AGH Require Import Model.Pipeline Model.PipelineNames Gen.PipelineTables.
Import ListNotations.

Theorem tables_match_source :
  Gen.PipelineTables.unresolved = [] /\
  Gen.PipelineTables.host_checkers = expected_checkers /\
  Gen.PipelineTables.stages = expected_stages.
Proof. repeat split; vm_compute; reflexivity. Qed.

Lemma tables_no_diff :
  table_diff 0 expected_checkers Gen.PipelineTables.host_checkers = [] /\
  table_diff 0 expected_stages Gen.PipelineTables.stages = [].
Proof. split; vm_compute; reflexivity. Qed.

(** Proofs about the life cycle of the blocked-services configuration (C18,
    round 6): accepted request -> ConfigModified callback -> what the callback
    can read -> YAML on disk -> restart -> the schedule in force.

    With the order the handlers have now (store under the lock, THEN the
    callback) the file holds the stored value after every history; a rejected
    request changes neither; a restart is the identity on a state whose ids
    are in the service table (and is refused otherwise), so it changes no
    verdict; the in-memory value after a history with restarts is that of the
    same history without them, hence the schedule is the one of the last
    accepted update.  With the callback in front of the store (seeded change
    C18-L) the running process is the same but the restarted one is not. *)
From Coq Require Import ZArith List Bool Lia.
From AGH Require Import Base.Run Model.Schedule Model.ScheduleText Model.BlockedSvcHttp
  Model.ScheduleZone Model.BlockedSvcPersist.
From AGH Require Import Proofs.Schedule Proofs.ScheduleText Proofs.BlockedSvcHttp Proofs.ScheduleZone.
Import ListNotations.
Local Open Scope Z_scope.

(** * Vocabulary *)

(** A stored value the configuration file can carry: seven validated ranges
    in a zone that loads as itself. *)
Definition mem_ok (tz : bytes -> bool) (m : bsvc) : Prop :=
  sched_ok (bs_sched m) /\ zone_reloads tz (sc_zone (bs_sched m)).

(** The file holds the stored value. *)
Definition synced (l : ylife) : Prop := lf_disk l = save_yaml (lf_mem l).

Definition good (tz : bytes -> bool) (l : ylife) : Prop := synced l /\ mem_ok tz (lf_mem l).

(** The oracle of Model/BlockedSvcHttp.v (the name [time.LoadLocation]
    reports for the "time_zone" text of an update) answers as a tz database
    does: a reported name loads as itself. *)
Definition op_zone_ok (tz : bytes -> bool) (o : op) : Prop :=
  match o with
  | OUpdate (Some d) _ => forall z, sd_zone d = Some z -> zone_reloads tz z
  | _ => True
  end.

Definition lop_zone_ok (tz : bytes -> bool) (o : lop) : Prop :=
  match o with LReq o => op_zone_ok tz o | LRestart => True end.

(** No request of the history changes the stored value: no accepted update,
    no legacy set. *)
Definition quiet (known : list bytes) (ops : list op) : Prop :=
  forall o, In o ops -> (forall sc, ~ accepted_update known o sc) /\ (forall ids, o <> OSet ids).

Lemma bsvc_eta (m : bsvc) : {| bs_ids := bs_ids m; bs_sched := bs_sched m |} = m.
Proof. destruct m; reflexivity. Qed.

Lemma life_eta (l : ylife) : {| lf_mem := lf_mem l; lf_disk := lf_disk l |} = l.
Proof. destruct l; reflexivity. Qed.

(** * Written and read again *)

Lemma load_save tz m : mem_ok tz m -> load_yaml tz (save_yaml m) = Some m.
Proof.
  intros [Hok Hz]. unfold load_yaml, save_yaml; cbn [pd_sched pd_ids].
  rewrite (yaml_zdoc_roundtrip tz (bs_sched m) Hok Hz). apply f_equal, bsvc_eta.
Qed.

(** Built from the database, the oracle premise holds. *)
Lemma sched_doc_of_zone_ok tz d ids : op_zone_ok tz (OUpdate (Some (sched_doc_of tz d)) ids).
Proof. cbn. intros z H. eapply loaded_name_reloads. exact H. Qed.

(** * One request *)

Lemma step_mem_ok tz known o m :
  mem_ok tz m -> op_zone_ok tz o -> mem_ok tz (snd (step known o m)).
Proof.
  intros Hm Hz. destruct o as [|sch ids| |ids|]; try exact Hm.
  destruct (update_step_cases known sch ids m) as [(sc & [Hs _] & E)|(_ & E & _)].
  - rewrite E. cbn [snd bs_sched]. split; [eapply sent_sched_ok; exact Hs|].
    destruct sch as [d|]; cbn [sent_sched] in Hs.
    + apply decode_sched_spec in Hs. destruct Hs as [Hd _]. apply (Hz _ Hd).
    + injection Hs as <-. apply load_local.
  - rewrite E. exact Hm.
Qed.

Lemma not_modified_noop known o m :
  calls_modified o (fst (step known o m)) = false -> snd (step known o m) = m.
Proof.
  intros H. destruct (Z.eq_dec (fst (step known o m)) st_ok) as [E|E].
  - unfold calls_modified in H. rewrite E in H. destruct o; try reflexivity; discriminate.
  - apply failed_request_is_noop. exact E.
Qed.

(** The stored value does not depend on where the callback stands. *)
Lemma ystep_mem ord known o l :
  lf_mem (snd (ystep_ord ord known o l)) = snd (step known o (lf_mem l)) /\
  fst (ystep_ord ord known o l) = fst (step known o (lf_mem l)).
Proof.
  unfold ystep_ord, lstep_ord. destruct (step known o (lf_mem l)) as [st m]. cbn [fst snd].
  destruct (calls_modified o st); [destruct (ord o)|]; split; reflexivity.
Qed.

(** After a request answered by the handlers as they are, the file holds the
    stored value. *)
Lemma ystep_synced known o l : synced l -> synced (snd (ystep known o l)).
Proof.
  intros Hs. unfold ystep, lstep, lstep_ord, code_order.
  pose proof (not_modified_noop known o (lf_mem l)) as Hn.
  destruct (step known o (lf_mem l)) as [st m]. cbn [fst snd] in *.
  destruct (calls_modified o st).
  - reflexivity.
  - rewrite (Hn eq_refl). unfold synced, store; cbn [lf_mem lf_disk]. exact Hs.
Qed.

Lemma ystep_good tz known o l :
  good tz l -> op_zone_ok tz o -> good tz (snd (ystep known o l)).
Proof.
  intros [Hs Hm] Hz. split; [apply ystep_synced; exact Hs|].
  destruct (ystep_mem code_order known o l) as [E _]. unfold ystep, lstep. unfold ystep_ord in E.
  rewrite E. apply step_mem_ok; assumption.
Qed.

(** A request that is not answered 200 changes neither the stored value nor
    the file. *)
Lemma ystep_rejected_noop known o l :
  fst (ystep known o l) <> st_ok -> snd (ystep known o l) = l.
Proof.
  unfold ystep, lstep, lstep_ord, code_order.
  pose proof (failed_request_is_noop known o (lf_mem l)) as Hn.
  destruct (step known o (lf_mem l)) as [st m]. cbn [fst snd] in *. intros H.
  assert (Hc : calls_modified o st = false).
  { unfold calls_modified. destruct (st =? st_ok) eqn:E; [|reflexivity].
    apply Z.eqb_eq in E. contradiction. }
  rewrite Hc, (Hn H). apply life_eta.
Qed.

(** * Restart *)

Lemma restart_good tz known l :
  good tz l ->
  yrestart tz known l = if ids_known known (bs_ids (lf_mem l)) then Some l else None.
Proof.
  intros [Hs Hm]. unfold yrestart, restart. rewrite Hs, (load_save tz _ Hm).
  destruct (ids_known known (bs_ids (lf_mem l))); [|reflexivity].
  rewrite <- Hs. apply f_equal, life_eta.
Qed.

Lemma restart_is_identity tz known l l' :
  good tz l -> yrestart tz known l = Some l' -> l' = l.
Proof.
  intros Hg H. rewrite (restart_good tz known l Hg) in H.
  destruct (ids_known known (bs_ids (lf_mem l))); [|discriminate]. injection H as <-. reflexivity.
Qed.

Lemma restart_refused_iff tz known l :
  good tz l -> (yrestart tz known l = None <-> ids_known known (bs_ids (lf_mem l)) = false).
Proof.
  intros Hg. rewrite (restart_good tz known l Hg).
  destruct (ids_known known (bs_ids (lf_mem l))); split; intros H; try reflexivity; discriminate.
Qed.

(** A restart changes no answer: GET, the verdict at every instant in every
    zone, and the services blocked. *)
Lemma restart_keeps_verdict tz known l l' :
  good tz l -> yrestart tz known l = Some l' ->
  get (lf_mem l') = get (lf_mem l) /\
  (forall off t, contains (sc_days (bs_sched (lf_mem l'))) off t =
                 contains (sc_days (bs_sched (lf_mem l))) off t) /\
  (forall paused, apply known (lf_mem l') paused = apply known (lf_mem l) paused).
Proof.
  intros Hg H. rewrite (restart_is_identity tz known l l' Hg H). repeat split.
Qed.

(** * Histories *)

Lemma lop_step_good tz known o l l' :
  good tz l -> lop_zone_ok tz o ->
  lop_step save_yaml (load_yaml tz) code_order known o l = Some l' ->
  good tz l' /\ lf_mem l' = match o with LReq o => snd (step known o (lf_mem l)) | LRestart => lf_mem l end.
Proof.
  intros Hg Hz H. destruct o as [o|]; cbn [lop_step] in H.
  - injection H as <-. split; [apply (ystep_good tz known o l Hg Hz)|].
    apply (ystep_mem code_order known o l).
  - pose proof (restart_is_identity tz known l l' Hg H) as ->. split; [exact Hg|reflexivity].
Qed.

(** Invariant: after every history the file holds the stored value, and the
    stored value is one the file can carry. *)
Lemma yrun_good tz known ops : forall l l',
  good tz l -> Forall (lop_zone_ok tz) ops -> yrun tz known l ops = Some l' -> good tz l'.
Proof.
  induction ops as [|o ops IH]; intros l l' Hg Hz H; cbn in H.
  - injection H as <-. exact Hg.
  - inversion Hz as [|? ? Ho Hr]; subst.
    destruct (lop_step save_yaml (load_yaml tz) code_order known o l) as [l1|] eqn:E; [|discriminate].
    destruct (lop_step_good tz known o l l1 Hg Ho E) as [Hg1 _].
    exact (IH l1 l' Hg1 Hr H).
Qed.

Lemma yrun_persisted_loads tz known ops l l' :
  good tz l -> Forall (lop_zone_ok tz) ops -> yrun tz known l ops = Some l' ->
  lf_disk l' = save_yaml (lf_mem l') /\ load_yaml tz (lf_disk l') = Some (lf_mem l').
Proof.
  intros Hg Hz H. destruct (yrun_good tz known ops l l' Hg Hz H) as [Hs Hm].
  split; [exact Hs|]. rewrite Hs. apply load_save. exact Hm.
Qed.

(** Restarts are invisible: the stored value after a history is that of the
    same history with the restarts left out. *)
Lemma restart_transparent tz known ops : forall l l',
  good tz l -> Forall (lop_zone_ok tz) ops -> yrun tz known l ops = Some l' ->
  lf_mem l' = run known (lf_mem l) (reqs_of ops).
Proof.
  induction ops as [|o ops IH]; intros l l' Hg Hz H; cbn in H.
  - injection H as <-. reflexivity.
  - inversion Hz as [|? ? Ho Hr]; subst.
    destruct (lop_step save_yaml (load_yaml tz) code_order known o l) as [l1|] eqn:E; [|discriminate].
    destruct (lop_step_good tz known o l l1 Hg Ho E) as [Hg1 Hm1].
    rewrite (IH l1 l' Hg1 Hr H), Hm1. destruct o; reflexivity.
Qed.

Lemma reqs_of_app ops1 ops2 : reqs_of (ops1 ++ ops2) = reqs_of ops1 ++ reqs_of ops2.
Proof.
  induction ops1 as [|[o|] ops1 IH]; cbn; [reflexivity| |exact IH]. rewrite IH. reflexivity.
Qed.

Lemma run_quiet known ops : forall s, quiet known ops -> run known s ops = s.
Proof.
  induction ops as [|o ops IH]; intros s H; cbn [run]; [reflexivity|].
  assert (Ho : snd (step known o s) = s).
  { destruct (H o (or_introl eq_refl)) as [Hu Hs].
    destruct o as [|sch ids| |ids|]; try reflexivity.
    - apply failed_update_is_noop. intros sc Ha. apply (Hu sc). exists sch, ids. split; [reflexivity|exact Ha].
    - exfalso. apply (Hs ids). reflexivity. }
  rewrite Ho. apply IH. intros o' Hin. apply H. right; exact Hin.
Qed.

Lemma quiet_no_update known ops : quiet known ops -> no_accepted_update known ops.
Proof. intros H o sc Hin. apply (H o Hin). Qed.

(** The schedule (zone and bounds) after any history with restarts is the one
    of the last accepted update; when nothing was accepted since, the id list
    is that update's too, the file holds both, and the pause is in effect
    exactly per the wall clock of the ranges that update asked for. *)
Lemma restart_keeps_last_update tz known l ops1 sch ids sc ops2 l' :
  good tz l -> Forall (lop_zone_ok tz) (ops1 ++ LReq (OUpdate sch ids) :: ops2) ->
  update_accepted known sch ids sc -> no_accepted_update known (reqs_of ops2) ->
  yrun tz known l (ops1 ++ LReq (OUpdate sch ids) :: ops2) = Some l' ->
  bs_sched (lf_mem l') = sc /\
  load_yaml tz (lf_disk l') = Some (lf_mem l') /\
  (forall off t, contains (sc_days (bs_sched (lf_mem l'))) off t = true <-> in_effect (sc_days sc) off t) /\
  (quiet known (reqs_of ops2) -> lf_mem l' = {| bs_ids := ids; bs_sched := sc |}).
Proof.
  intros Hg Hz Ha Hn H.
  pose proof (restart_transparent tz known _ l l' Hg Hz H) as Hm.
  rewrite reqs_of_app in Hm. cbn [reqs_of] in Hm.
  assert (Hs : bs_sched (lf_mem l') = sc).
  { rewrite Hm. apply schedule_is_last_update; [|exact Hn].
    exists sch, ids. split; [reflexivity|exact Ha]. }
  split; [exact Hs|]. split; [apply (yrun_persisted_loads tz known _ l l' Hg Hz H)|].
  split; [intros off t; rewrite Hs; apply contains_wall_clock|].
  intros Hq. rewrite Hm, run_app. cbn [run].
  rewrite (update_accepted_step known sch ids sc _ Ha). cbn [snd]. apply run_quiet. exact Hq.
Qed.

(** * The callback in front of the store (seeded change C18-L) *)

(** Without a restart nothing shows: whatever the order, the stored value
    after a history of requests is the same, so GET and every verdict of the
    running process are. *)
Lemma order_invisible_without_restart ord tz known ops : forall l,
  (forall o, In o ops -> o <> LRestart) ->
  option_map lf_mem (yrun_ord tz ord known l ops) = Some (run known (lf_mem l) (reqs_of ops)).
Proof.
  induction ops as [|o ops IH]; intros l Hn; [reflexivity|].
  destruct o as [o|]; [|exfalso; apply (Hn LRestart); [left; reflexivity|reflexivity]].
  unfold yrun_ord in *. cbn [lrun_ord lop_step reqs_of run].
  rewrite IH by (intros o' Hin; apply Hn; right; exact Hin).
  destruct (ystep_mem ord known o l) as [E _]. unfold ystep_ord in E. rewrite E. reflexivity.
Qed.

Definition zone_kolkata : bytes := [65; 115; 105; 97; 47; 75; 111; 108; 107; 97; 116; 97]%N.
Definition txt_0 : bytes := [48]%N.
Definition txt_day_ms : bytes := [56; 54; 52; 48; 48; 48; 48; 48]%N.

(** {"time_zone":"UTC"}: no pause. *)
Definition l_doc_none : sched_doc := {| sd_zone := Some zone_utc; sd_fields := [] |}.
(** Every day 0 .. 86400000 ms, Asia/Kolkata: paused all week. *)
Definition l_doc_full : sched_doc :=
  {| sd_zone := Some zone_kolkata;
     sd_fields := flatten_days 0 (repeat (Some (txt_0, txt_day_ms)) 7) |}.
Definition l_sched_full : sched := {| sc_zone := zone_kolkata; sc_days := repeat full_day 7 |}.
Definition l_svc : bytes := [52; 99; 104; 97; 110]%N.
Definition l_init : bsvc := {| bs_ids := []; bs_sched := empty_weekly |}.
Definition l_history : list lop :=
  [LReq (OUpdate (Some l_doc_none) [l_svc]); LReq (OUpdate (Some l_doc_full) [l_svc]); LRestart].

Lemma l_premises :
  good (fun _ => true) (ylife_init l_init) /\ Forall (lop_zone_ok (fun _ => true)) l_history /\
  update_accepted [l_svc] (Some l_doc_full) [l_svc] l_sched_full /\
  no_accepted_update [l_svc] (reqs_of [LRestart]).
Proof.
  split; [split; [reflexivity|split; [apply empty_weekly_ok|reflexivity]]|].
  split.
  - repeat constructor; cbn; intros z H; injection H as <-; reflexivity.
  - split; [split; vm_compute; reflexivity|]. intros o sc [].
Qed.

(** The seed's sequence: block a service with no pause, then pause it all
    week, then restart.  As the handlers are, the restarted process is paused
    at every instant; with the callback in front of the store the file still
    holds the first request, and the restarted process blocks the service
    although the accepted pause covers every instant. *)
Lemma callback_first_refuted :
  let tz := fun _ : bytes => true in
  let known := [l_svc] in
  let kolkata := fun _ : Z => 19800 in
  (exists l', yrun tz known (ylife_init l_init) l_history = Some l' /\
              bs_sched (lf_mem l') = l_sched_full /\
              contains (sc_days (bs_sched (lf_mem l'))) kolkata 0 = true /\
              apply known (lf_mem l') (contains (sc_days (bs_sched (lf_mem l'))) kolkata 0) = []) /\
  (exists l', yrun_ord tz callback_first_order known (ylife_init l_init) l_history = Some l' /\
              bs_sched (lf_mem l') <> l_sched_full /\
              in_effect (sc_days l_sched_full) kolkata 0 /\
              contains (sc_days (bs_sched (lf_mem l'))) kolkata 0 = false /\
              apply known (lf_mem l') (contains (sc_days (bs_sched (lf_mem l'))) kolkata 0) = [l_svc]).
Proof.
  cbn zeta. split.
  - eexists. split; [vm_compute; reflexivity|]. repeat split; vm_compute; reflexivity.
  - eexists. split; [vm_compute; reflexivity|].
    split; [vm_compute; discriminate|].
    split; [apply contains_wall_clock; vm_compute; reflexivity|].
    split; vm_compute; reflexivity.
Qed.

(** * Non-vacuity *)

(** A state with a working-hours style schedule and a known id satisfies the
    premises; a restart is the identity there; with an id outside the table
    (which only the legacy set endpoint lets in) the restart is refused. *)
Lemma ex_persist :
  let tz := fun _ : bytes => true in
  let m := {| bs_ids := [[97]%N]; bs_sched := ex_sched |} in
  good tz (ylife_init m) /\
  yrestart tz ex_known (ylife_init m) = Some (ylife_init m) /\
  yrun tz ex_known (ylife_init m) [LReq (OSet [[120]%N]); LRestart] = None /\
  (exists l', yrun tz ex_known (ylife_init m)
                [LReq (OUpdate (Some ex_doc) [[98]%N]); LRestart; LReq (OSet [[97]%N]); LRestart; LReq OGet]
              = Some l' /\ lf_mem l' = {| bs_ids := [[97]%N]; bs_sched := ex_sched |}).
Proof.
  cbn zeta.
  assert (Hg : good (fun _ => true) (ylife_init {| bs_ids := [[97]%N]; bs_sched := ex_sched |})).
  { split; [reflexivity|]. split; [eapply decode_sched_ok; apply ex_update_accepted|reflexivity]. }
  split; [exact Hg|]. split; [rewrite (restart_good _ ex_known _ Hg); reflexivity|].
  split; [vm_compute; reflexivity|]. eexists. split; vm_compute; reflexivity.
Qed.

(** C13, part 6e: per-step preservation of [loadable], steps 13 to 17
    (see Proofs/MigrateLoadable.v; lemmas and tactics of Proofs/MigrateLoadTools.v). *)
From Coq Require Import List ZArith String Ascii Bool Lia Arith.
From AGH Require Import Model.Migrate Model.MigrateLoad Proofs.Migrate Proofs.MigrateLoadable Proofs.MigrateLoadTools.
Import ListNotations.
Local Open Scope string_scope.
Local Open Scope list_scope.

Lemma keep13 : step_keeps L 12 step13.
Proof.
  intros m m' Hm E. open_schema Hm. open_goal. unfold step13 in E. stamp_in Hm E m0.
  destruct (field_val TObj m0 "dns") as [|dnsv|] eqn:F1; try discriminate E; [injection E as <-; fin Hm|].
  destruct (field_val TObj m0 "dhcp") as [|dhcpv|] eqn:F2; try discriminate E; [injection E as <-; fin Hm|].
  destruct (fv_obj_ok _ _ _ F1) as [dns [-> G1]]. destruct (fv_obj_ok _ _ _ F2) as [dhcp [-> G2]].
  cbn [zobj] in E.
  destruct (move_val TStr dns dhcp "local_domain_name" "local_domain_name") as [[dns' dhcp']|] eqn:Mv;
    [|discriminate E].
  injection E as <-.
  pose proof (obj_field _ _ _ _ _ _ Hm G1 eq_refl) as Hdns.
  pose proof (obj_field _ _ _ _ _ _ Hm G2 eq_refl) as Hdhcp.
  let fd := goal_obj_fields "dhcp" in assert (Hd0 : fields_ok dhcp fd = true) by fin Hdhcp.
  do_moves Mv Hdns Hd0 Hs Hd.
  pose proof (fok_set_obj _ _ "dns" false _ _ Hm Hs) as H1.
  refine (fin_set_obj _ _ "dhcp" false _ _ _ H1 Hd _). vmr.
Qed.

Lemma keep14 : step_keeps L 13 step14.
Proof.
  intros m m' Hm E. open_schema Hm. open_goal. unfold step14 in E. stamp_in Hm E m0.
  (* the list of persistent clients: the old list, or none *)
  assert (P : exists l, (match field_val TArr m0 "clients" with FOk v => v | _ => VArr [] end) = VArr l /\
                        (l = [] \/ get "clients" m0 = Some (VArr l))).
  { destruct (field_val TArr m0 "clients") as [|pv|] eqn:F1; try (exists []; split; [reflexivity | now left]).
    destruct (fv_arr_ok _ _ _ F1) as [l [-> G]]. exists l. split; [reflexivity | now right]. }
  destruct P as [l [P Gl]].
  assert (E' : match field_val TObj m0 "dns" with
               | FErr => Err
               | FAbsent => Ok (upd "clients" (clients14 (VArr l) runtime0) m0)
               | FOk dnsv =>
                   match move_val TBool (zobj dnsv) runtime0 "resolve_clients" "rdns" with
                   | None => Err
                   | Some (dns, rt) => Ok (upd "dns" (VObj dns) (upd "clients" (clients14 (VArr l) rt) m0))
                   end
               end = Ok m').
  { rewrite <- P. destruct (field_val TArr m0 "clients"); try discriminate E; exact E. }
  clear E P.
  let fc := goal_obj_fields "clients" in
  let e := arr_elem_in "persistent" fc in
  assert (Hp : conforms (SArr e) (VArr l) = true).
  { destruct Gl as [->|G]; [reflexivity|]. rewrite conforms_arr.
    generalize (arr_field _ _ _ _ _ Hm G eq_refl). apply forallb_impl. intros c _ C.
    refine (conforms_sub _ _ _ C _). vmr. }
  clear Gl. unfold clients14 in E'.
  let fc := goal_obj_fields "clients" in
  let frt := obj_fields_in "runtime_sources" fc in
  assert (Hrt : fields_ok runtime0 frt = true) by vmr.
  lazymatch type of Hp with conforms ?sp _ = true =>
  assert (Hc : forall rt frt, fields_ok rt frt = true ->
     fields_ok [("persistent", VArr l); ("runtime_sources", VObj rt)]
       (("runtime_sources", SObj false frt) :: rm "runtime_sources" (("persistent", sp) :: rm "persistent" [])) = true)
  end.
  { intros rt frt H.
    change [("persistent", VArr l); ("runtime_sources", VObj rt)]
      with (upd "runtime_sources" (VObj rt) (upd "persistent" (VArr l) [])).
    exact (fok_set_obj _ _ _ _ _ _ (fok_set _ _ _ _ _ (fok_nil _) Hp) H). }
  destruct (field_val TObj m0 "dns") as [|dnsv|] eqn:F2; try discriminate E'.
  - injection E' as <-. refine (fin_set_obj _ _ "clients" false _ _ _ Hm (Hc _ _ Hrt) _). vmr.
  - destruct (fv_obj_ok _ _ _ F2) as [dns [-> G2]]. cbn [zobj] in E'.
    destruct (move_val TBool dns runtime0 "resolve_clients" "rdns") as [[dns' rt]|] eqn:Mv; [|discriminate E'].
    injection E' as <-.
    pose proof (obj_field _ _ _ _ _ _ Hm G2 eq_refl) as Hdns.
    do_moves Mv Hdns Hrt Hs Hd.
    pose proof (fok_set_obj _ _ "clients" false _ _ Hm (Hc _ _ Hd)) as H1.
    refine (fin_set_obj _ _ "dns" false _ _ _ H1 Hs _). vmr.
Qed.

Lemma keep15 : step_keeps L 14 step15.
Proof.
  intros m m' Hm E. open_schema Hm. open_goal. unfold step15 in E. stamp_in Hm E m0.
  destruct (field_val TObj m0 "dns") as [|dnsv|] eqn:F; try discriminate E; [injection E as <-; fin Hm|].
  destruct (fv_obj_ok _ _ _ F) as [dns [-> G]]. cbn [zobj] in E.
  destruct (moves moves15 dns qlog0) as [[dns' qlog]|] eqn:Mv; [|discriminate E]. injection E as <-.
  pose proof (obj_field _ _ _ _ _ _ Hm G eq_refl) as Hdns.
  let fq := goal_obj_fields "querylog" in assert (Hq : fields_ok qlog0 fq = true) by vmr.
  do_moves Mv Hdns Hq Hs Hd.
  pose proof (fok_set_obj _ _ "querylog" false _ _ Hm Hd) as H1.
  refine (fin_set_obj _ _ "dns" false _ _ _ H1 Hs _). vmr.
Qed.

Lemma keep16 : step_keeps L 15 step16.
Proof.
  intros m m' Hm E. open_schema Hm. open_goal. unfold step16 in E. stamp_in Hm E m0.
  destruct (field_val TObj m0 "dns") as [|dnsv|] eqn:F; try discriminate E; [injection E as <-; fin Hm|].
  destruct (fv_obj_ok _ _ _ F) as [dns [-> G]]. cbn [zobj] in E. cbv zeta in E.
  pose proof (obj_field _ _ _ _ _ _ Hm G eq_refl) as Hdns.
  let fst := goal_obj_fields "statistics" in assert (H0 : fields_ok stats0 fst = true) by vmr.
  destruct (field_val TInt dns "statistics_interval") as [|v|] eqn:F2; try discriminate E; injection E as <-.
  - refine (fin_set_obj _ _ "statistics" false _ _ _ Hm H0 _). vmr.
  - destruct (fv_int_ok _ _ _ F2) as [z ->]. cbn [zint].
    pose proof (fok_del_same _ _ "statistics_interval" Hdns) as Hs.
    assert (Hst : fields_ok (if (z =? 0)%Z then upd "enabled" (VBool false) stats0 else upd "interval" (VInt z) stats0)
                    ltac:(let t := hyp_table H0 in exact t) = true).
    { destruct (z =? 0)%Z; [vmr|]. refine (fin_set _ _ "interval" SInt (VInt z) _ H0 eq_refl _). vmr. }
    pose proof (fok_set_obj _ _ "statistics" false _ _ Hm Hst) as H1.
    refine (fin_set_obj _ _ "dns" false _ _ _ H1 Hs _). vmr.
Qed.

Lemma keep17 : step_keeps L 16 step17.
Proof.
  intros m m' Hm E. open_schema Hm. open_goal. unfold step17 in E. stamp_in Hm E m0.
  let fo := goal_obj_fields "dns" in
  refine (with_obj_fok _ _ _ _ _ _ _ fo _ E Hm eq_refl _ _); [|vmr].
  clear. intros o o' Ho Ef. cbv zeta in Ef. injection Ef as <-.
  destruct (fv_val_bool o "edns_client_subnet") as [b ->].
  refine (fin_upd _ _ "edns_client_subnet" _ _ Ho _ _); [vmr|]. destruct b; vmr.
Qed.

(** Overlapping downloads drawing their scanner buffers from one pool
    (Model/SaveLoop.v, round 5 (I)).

    - The buffered line scanner is a parser stage in the sense of
      Proofs/SaveLoop.v: it does not depend on how the body is cut into chunks
      ([buf_chunking_independent]), so every theorem of the download path
      holds for it.
    - With the code's deferred Put (a download holds its buffer until its copy
      loop has finished), for ANY number of downloads, ANY inputs and ANY
      interleaving of their steps, every download requests exactly the writes
      the same download requests when it runs alone ([pool_run_independent]);
      together with [update_list_served_identity] each file gets the normal
      form of ITS OWN body.
    - With the early Put the statement is refuted: a second download
      overwrites the first one's pending half line ([early_put_mixes]). *)
From Coq Require Import List NArith Bool Lia.
From AGH Require Import Base.FS Proofs.FS Model.SaveLoop Proofs.SaveLoop.
Import ListNotations.
Local Open Scope N_scope.

Lemma split_nl_app a : forall cur b,
  split_nl cur (a ++ b) =
  let (l1, r1) := split_nl cur a in let (l2, r2) := split_nl r1 b in (l1 ++ l2, r2).
Proof.
  induction a as [|x a IH]; intros cur b; cbn [app split_nl].
  - destruct (split_nl cur b); reflexivity.
  - destruct (x =? nl).
    + rewrite IH. destruct (split_nl [] a) as [l1 r1]. destruct (split_nl r1 b) as [l2 r2]. reflexivity.
    + apply IH.
Qed.

(** The scanner keeps the bytes: lines and rest put together again are the input. *)
Fixpoint join_nl (ls : list data) (rest : data) : data :=
  match ls with [] => rest | l :: r => l ++ nl :: join_nl r rest end.

Lemma split_nl_join d : forall cur, let (ls, r) := split_nl cur d in join_nl ls r = cur ++ d.
Proof.
  induction d as [|x d IH]; intros cur; cbn [split_nl].
  - cbn. now rewrite app_nil_r.
  - destruct (x =? nl) eqn:E.
    + specialize (IH []). destruct (split_nl [] d) as [ls r]. cbn [join_nl app] in *.
      apply N.eqb_eq in E. subst x. now rewrite IH.
    + specialize (IH (cur ++ [x])). destruct (split_nl (cur ++ [x]) d) as [ls r].
      rewrite IH, <- app_assoc. reflexivity.
Qed.

Section BufferedProofs.
  Variable PS : Type.
  Variable ps0 : PS.
  Variable pl : PS -> data -> option (PS * list data).

  Notation lines_fold := (lines_fold PS pl).
  Notation buf_feed := (buf_feed PS pl).
  Notation buf_finish := (buf_finish PS pl).
  Notation pumpB := (pump (bst PS) buf_feed buf_finish).
  Notation pstep := (pstep PS pl).
  Notation prun := (prun PS pl).
  Notation cell := (cell PS).

  Lemma lines_fold_app l1 : forall l2 ps,
    lines_fold ps (l1 ++ l2) =
    match lines_fold ps l1 with
    | Some (ps1, w1) => match lines_fold ps1 l2 with Some (ps2, w2) => Some (ps2, w1 ++ w2) | None => None end
    | None => None
    end.
  Proof.
    induction l1 as [|l l1 IH]; intros l2 ps; cbn [app SaveLoop.lines_fold].
    - destruct (lines_fold ps l2) as [[ps2 w2]|]; reflexivity.
    - destruct (pl ps l) as [[ps1 w1]|]; [|reflexivity].
      rewrite IH. destruct (lines_fold ps1 l1) as [[ps2 w2]|]; [|reflexivity].
      destruct (lines_fold ps2 l2) as [[ps3 w3]|]; [|reflexivity].
      now rewrite app_assoc.
  Qed.

  (** The buffered scanner is a chunking-independent stage. *)
  Theorem buf_chunking_independent : chunking_independent (bst PS) buf_feed.
  Proof.
    split.
    - intros [ps pend]. reflexivity.
    - intros [ps pend] a b. unfold feedc, SaveLoop.buf_feed. cbn [fst snd].
      rewrite split_nl_app.
      destruct (split_nl pend a) as [l1 r1]. destruct (split_nl r1 b) as [l2 r2] eqn:E2.
      rewrite lines_fold_app.
      destruct (lines_fold ps l1) as [[ps1 w1]|]; [|reflexivity].
      cbn [fst snd]. rewrite E2.
      destruct (lines_fold ps1 l2) as [[ps2 w2]|]; [|reflexivity].
      now rewrite concat_app.
  Qed.

  (** *** Exclusive ownership *)

  Definition pump_from (ws : list data) (st : bst PS) (r : reader) : list data * bool :=
    let (ws', ok) := pumpB st r in (ws ++ ws', ok).

  Lemma pump_from_nil st r : pump_from [] st r = pumpB st r.
  Proof. unfold pump_from. destruct (pumpB st r) as [ws' ok]. reflexivity. Qed.

  (** Download [sv] of input [r0], with [pend] in its buffer, is where the
      download running alone would be. *)
  Definition saver_ok (r0 : reader) (pend : data) (sv : saver PS) : Prop :=
    match sv_phase PS sv with
    | SNew => sv_ws PS sv = [] /\ sv_ps PS sv = ps0 /\ sv_in PS sv = r0
    | SCopy => pump_from (sv_ws PS sv) (sv_ps PS sv, pend) (sv_in PS sv) = pumpB (ps0, []) r0
    | SEnded ok => pumpB (ps0, []) r0 = (sv_ws PS sv, ok)
    end.

  Lemma saver_ok_pend r0 p p' sv : sv_phase PS sv <> SCopy -> saver_ok r0 p sv -> saver_ok r0 p' sv.
  Proof. unfold saver_ok. destruct (sv_phase PS sv); auto. now intros []. Qed.

  Record pool_ok (orig : N -> reader) (w : pool PS) : Prop := {
    ok_nodup : NoDup (po_free PS w);
    ok_free_lt : forall b, In b (po_free PS w) -> b < po_next PS w;
    ok_held : forall i sv, aget (po_savers PS w) i = Some sv -> sv_phase PS sv = SCopy ->
                           sv_buf PS sv < po_next PS w /\ ~ In (sv_buf PS sv) (po_free PS w);
    ok_distinct : forall i j svi svj, i <> j ->
                  aget (po_savers PS w) i = Some svi -> aget (po_savers PS w) j = Some svj ->
                  sv_phase PS svi = SCopy -> sv_phase PS svj = SCopy -> sv_buf PS svi <> sv_buf PS svj;
    ok_progress : forall i sv, aget (po_savers PS w) i = Some sv -> saver_ok (orig i) (cell w (sv_buf PS sv)) sv
  }.

  Lemma cell_aset w b v x :
    match aget (aset (po_cells PS w) b v) x with Some c => c | None => [] end =
    if x =? b then v else cell w x.
  Proof. rewrite aget_aset. unfold SaveLoop.cell. destruct (x =? b); reflexivity. Qed.

  (** The end of a download gives its buffer back. *)
  Lemma end_saver_ok orig w i sv ok ws :
    pool_ok orig w -> aget (po_savers PS w) i = Some sv -> sv_phase PS sv = SCopy ->
    pumpB (ps0, []) (orig i) = (ws, ok) ->
    pool_ok orig (end_saver PS false w i sv ok ws).
  Proof.
    intros H Ei Eph Hp. destruct (ok_held _ _ H i sv Ei Eph) as [Hlt Hnin].
    constructor; cbn [end_saver po_free po_next po_savers po_cells].
    - constructor; [exact Hnin|apply (ok_nodup _ _ H)].
    - intros b [<-|Hb]; [exact Hlt|apply (ok_free_lt _ _ H), Hb].
    - intros j svj. rewrite aget_aset. destruct (j =? i) eqn:Eji.
      + intros Hs Hc. inversion Hs; subst svj. discriminate.
      + intros Hs Hc. destruct (ok_held _ _ H j svj Hs Hc) as [H1 H2]. split; [exact H1|].
        intros [Hb|Hb]; [|auto].
        apply N.eqb_neq in Eji. apply (ok_distinct _ _ H j i svj sv Eji Hs Ei Hc Eph). now symmetry.
    - intros j k svj svk Hjk. rewrite !aget_aset.
      destruct (j =? i) eqn:Eji.
      { intros Hs _ Hc. inversion Hs; subst svj. discriminate. }
      destruct (k =? i) eqn:Eki.
      { intros _ Hs _ Hc. inversion Hs; subst svk. discriminate. }
      apply (ok_distinct _ _ H j k svj svk Hjk).
    - intros j svj. rewrite aget_aset. destruct (j =? i) eqn:Eji.
      + intros Hs. inversion Hs; subst svj. apply N.eqb_eq in Eji. subst j.
        unfold saver_ok. cbn [sv_phase sv_ws]. exact Hp.
      + intros Hs. exact (ok_progress _ _ H j svj Hs).
  Qed.

  (** One step of any download keeps the invariant. *)
  Lemma pstep_ok orig w i : pool_ok orig w -> pool_ok orig (pstep false w i).
  Proof.
    intros H. unfold SaveLoop.pstep.
    destruct (aget (po_savers PS w) i) as [sv|] eqn:Ei; [|exact H].
    pose proof (ok_progress _ _ H i sv Ei) as Hprog.
    destruct (sv_phase PS sv) eqn:Eph; [| |exact H].
    - (* Get *)
      unfold saver_ok in Hprog. rewrite Eph in Hprog. destruct Hprog as (Hws & Hps & Hin).
      set (sv' b := {| sv_phase := SCopy; sv_in := sv_in PS sv; sv_ps := sv_ps PS sv; sv_buf := b; sv_ws := sv_ws PS sv |}).
      assert (Hgen : forall b fr nx,
                NoDup fr -> (forall x, In x fr -> x < nx) -> b < nx -> ~ In b fr ->
                (forall x, In x fr -> In x (po_free PS w)) -> po_next PS w <= nx ->
                (forall j svj, aget (po_savers PS w) j = Some svj -> sv_phase PS svj = SCopy -> sv_buf PS svj <> b) ->
                pool_ok orig {| po_cells := aset (po_cells PS w) b []; po_free := fr; po_next := nx;
                                po_savers := aset (po_savers PS w) i (sv' b) |}).
      { intros b fr nx Hnd Hfl Hb Hbn Hsub Hnx Hother.
        constructor; cbn [po_free po_next po_savers po_cells].
        - exact Hnd.
        - exact Hfl.
        - intros j svj. rewrite aget_aset. destruct (j =? i) eqn:Eji.
          + intros Hs _. inversion Hs; subst svj. cbn [sv_buf sv']. auto.
          + intros Hs Hc. destruct (ok_held _ _ H j svj Hs Hc) as [H1 H2]. split; [lia|]. auto.
        - intros j k svj svk Hjk. rewrite !aget_aset.
          destruct (j =? i) eqn:Eji; destruct (k =? i) eqn:Eki.
          + apply N.eqb_eq in Eji, Eki. congruence.
          + intros Hs Hk _ Hc. inversion Hs; subst svj. cbn [sv_buf sv']. intros E. exact (Hother k svk Hk Hc (eq_sym E)).
          + intros Hj Hs Hc _. inversion Hs; subst svk. cbn [sv_buf sv']. exact (Hother j svj Hj Hc).
          + apply (ok_distinct _ _ H j k svj svk Hjk).
        - intros j svj. rewrite aget_aset. destruct (j =? i) eqn:Eji.
          + intros Hs. inversion Hs; subst svj. apply N.eqb_eq in Eji. subst j.
            unfold saver_ok, SaveLoop.cell. cbn [sv_phase sv_buf sv_ws sv_ps sv_in sv' po_cells].
            rewrite aget_aset, N.eqb_refl. rewrite Hws, Hps, Hin.
            apply pump_from_nil.
          + intros Hs. pose proof (ok_progress _ _ H j svj Hs) as Hj.
            destruct (sv_phase PS svj) eqn:Ephj.
            * eapply saver_ok_pend; [congruence|exact Hj].
            * unfold SaveLoop.cell in *. cbn [po_cells]. rewrite aget_aset.
              destruct (sv_buf PS svj =? b) eqn:Eb; [|exact Hj].
              apply N.eqb_eq in Eb. elim (Hother j svj Hs Ephj Eb).
            * eapply saver_ok_pend; [congruence|exact Hj]. }
      destruct (po_free PS w) as [|b f] eqn:Ef.
      + apply Hgen.
        * constructor.
        * intros x [].
        * lia.
        * intros [].
        * intros x [].
        * lia.
        * intros j svj Hs Hc. destruct (ok_held _ _ H j svj Hs Hc) as [H1 _]. lia.
      + pose proof (ok_nodup _ _ H) as Hnd. rewrite Ef in Hnd. inversion Hnd as [|? ? Hbn Hnd']; subst.
        apply Hgen.
        * exact Hnd'.
        * intros x Hx. apply (ok_free_lt _ _ H). rewrite Ef. now right.
        * apply (ok_free_lt _ _ H). rewrite Ef. now left.
        * exact Hbn.
        * intros x Hx. now right.
        * lia.
        * intros j svj Hs Hc Eb. destruct (ok_held _ _ H j svj Hs Hc) as [_ H2]. apply H2. rewrite Ef, Eb. now left.
    - (* a Read result *)
      unfold saver_ok in Hprog. rewrite Eph in Hprog. unfold pump_from in Hprog.
      assert (Hfail : pumpB (sv_ps PS sv, cell w (sv_buf PS sv)) (sv_in PS sv) = ([], false) ->
                      pool_ok orig (end_saver PS false w i sv false (sv_ws PS sv))).
      { intros E. rewrite E, app_nil_r in Hprog. apply end_saver_ok; auto. }
      assert (Heof : (forall st, pumpB st (sv_in PS sv) = match buf_finish st with Some ws => (ws, true) | None => ([], false) end) ->
                     pool_ok orig match buf_finish (sv_ps PS sv, cell w (sv_buf PS sv)) with
                                  | Some ws => end_saver PS false w i sv true (sv_ws PS sv ++ ws)
                                  | None => end_saver PS false w i sv false (sv_ws PS sv)
                                  end).
      { intros E. specialize (E (sv_ps PS sv, cell w (sv_buf PS sv))).
        destruct (buf_finish (sv_ps PS sv, cell w (sv_buf PS sv))) as [ws|].
        - rewrite E in Hprog. apply end_saver_ok; auto.
        - apply Hfail, E. }
      destruct (sv_in PS sv) as [|[d| |] r'] eqn:Ein.
      + apply Heof. intros st. reflexivity.
      + cbn [pump] in Hprog, Hfail.
        destruct (buf_feed (sv_ps PS sv, cell w (sv_buf PS sv)) d) as [[[ps' rest] ws]|] eqn:Ef.
        2:{ apply Hfail. reflexivity. }
        clear Hfail Heof.
        destruct (pumpB (ps', rest) r') as [ws' ok] eqn:Ep.
        destruct (ok_held _ _ H i sv Ei Eph) as [Hlt Hnin].
        constructor; cbn [po_free po_next po_savers po_cells].
        * apply (ok_nodup _ _ H).
        * apply (ok_free_lt _ _ H).
        * intros j svj. rewrite aget_aset. destruct (j =? i) eqn:Eji.
          -- intros Hs _. inversion Hs; subst svj. cbn [sv_buf]. auto.
          -- apply (ok_held _ _ H j svj).
        * intros j k svj svk Hjk. rewrite !aget_aset.
          destruct (j =? i) eqn:Eji; destruct (k =? i) eqn:Eki.
          -- apply N.eqb_eq in Eji, Eki. congruence.
          -- intros Hs Hk _ Hc. inversion Hs; subst svj. cbn [sv_buf].
             apply N.eqb_eq in Eji. subst j. exact (ok_distinct _ _ H i k sv svk Hjk Ei Hk Eph Hc).
          -- intros Hj Hs Hc _. inversion Hs; subst svk. cbn [sv_buf].
             apply N.eqb_eq in Eki. subst k. exact (ok_distinct _ _ H j i svj sv Hjk Hj Ei Hc Eph).
          -- apply (ok_distinct _ _ H j k svj svk Hjk).
        * intros j svj. rewrite aget_aset. destruct (j =? i) eqn:Eji.
          -- intros Hs. inversion Hs; subst svj. apply N.eqb_eq in Eji. subst j.
             unfold saver_ok, SaveLoop.cell. cbn [sv_phase sv_buf sv_ws sv_ps sv_in po_cells].
             rewrite aget_aset, N.eqb_refl. unfold pump_from. rewrite Ep.
             rewrite <- Hprog. now rewrite app_assoc.
          -- intros Hs. pose proof (ok_progress _ _ H j svj Hs) as Hj.
             destruct (sv_phase PS svj) eqn:Ephj.
             ++ eapply saver_ok_pend; [congruence|exact Hj].
             ++ unfold SaveLoop.cell in *. cbn [po_cells]. rewrite aget_aset.
                destruct (sv_buf PS svj =? sv_buf PS sv) eqn:Eb; [|exact Hj].
                apply N.eqb_eq in Eb. apply N.eqb_neq in Eji.
                elim (ok_distinct _ _ H j i svj sv Eji Hs Ei Ephj Eph Eb).
             ++ eapply saver_ok_pend; [congruence|exact Hj].
      + apply Heof. intros st. reflexivity.
      + apply Hfail. reflexivity.
  Qed.

  Lemma prun_ok orig sched : forall w, pool_ok orig w -> pool_ok orig (prun false w sched).
  Proof.
    induction sched as [|i sched IH]; intros w H; [exact H|].
    unfold SaveLoop.prun. cbn [fold_left]. apply IH, pstep_ok, H.
  Qed.

  Definition orig_of (inputs : amap reader) (i : N) : reader :=
    match aget inputs i with Some r => r | None => [] end.

  Lemma aget_map_savers inputs i :
    aget (map (fun ir : N * reader => (fst ir, new_saver PS ps0 (snd ir))) inputs) i =
    option_map (new_saver PS ps0) (aget inputs i).
  Proof.
    induction inputs as [|[k r] m IH]; cbn [map aget fst snd]; [reflexivity|].
    destruct (k =? i); [reflexivity|exact IH].
  Qed.

  Lemma pinit_ok inputs : pool_ok (orig_of inputs) (pinit PS ps0 inputs).
  Proof.
    constructor; cbn [pinit po_free po_next po_savers po_cells].
    - constructor.
    - intros b [].
    - intros i sv. rewrite aget_map_savers. destruct (aget inputs i); cbn [option_map]; [|discriminate].
      intros Hs Hc. inversion Hs; subst sv. discriminate.
    - intros i j svi svj _. rewrite aget_map_savers. destruct (aget inputs i); cbn [option_map]; [|discriminate].
      intros Hs _ Hc. inversion Hs; subst svi. discriminate.
    - intros i sv. rewrite aget_map_savers. unfold orig_of. destruct (aget inputs i) as [r|]; cbn [option_map]; [|discriminate].
      intros Hs. inversion Hs; subst sv. unfold saver_ok. cbn. auto.
  Qed.

  (** Any number of downloads, any inputs, any interleaving of their steps:
      a download that has ended has requested exactly the writes, and reports
      exactly the end, of the same download running alone. *)
  Theorem pool_run_independent inputs sched i ws ok :
    saver_result PS (prun false (pinit PS ps0 inputs) sched) i = Some (ws, ok) ->
    pumpB (ps0, []) (orig_of inputs i) = (ws, ok).
  Proof.
    pose proof (prun_ok (orig_of inputs) sched _ (pinit_ok inputs)) as H.
    unfold SaveLoop.saver_result.
    destruct (aget (po_savers PS (prun false (pinit PS ps0 inputs) sched)) i) as [sv|] eqn:Ei; [|discriminate].
    pose proof (ok_progress _ _ H i sv Ei) as Hp. unfold saver_ok in Hp.
    destruct (sv_phase PS sv); try discriminate.
    intros E. inversion E; subst. exact Hp.
  Qed.

  (** ... and while it runs, what it has written so far together with what
      the lone download would still write from here is the lone download's
      output (nothing of another download can have entered). *)
  Theorem pool_run_prefix inputs sched i sv :
    let w := prun false (pinit PS ps0 inputs) sched in
    aget (po_savers PS w) i = Some sv -> sv_phase PS sv = SCopy ->
    pump_from (sv_ws PS sv) (sv_ps PS sv, cell w (sv_buf PS sv)) (sv_in PS sv) = pumpB (ps0, []) (orig_of inputs i).
  Proof.
    intros w Ei Eph.
    pose proof (prun_ok (orig_of inputs) sched _ (pinit_ok inputs)) as H.
    pose proof (ok_progress _ _ H i sv Ei) as Hp. unfold saver_ok in Hp. rewrite Eph in Hp. exact Hp.
  Qed.

  (** No two running downloads ever share a buffer, and a buffer in the pool
      is nobody's. *)
  Theorem pool_run_exclusive inputs sched i j svi svj :
    let w := prun false (pinit PS ps0 inputs) sched in
    i <> j -> aget (po_savers PS w) i = Some svi -> aget (po_savers PS w) j = Some svj ->
    sv_phase PS svi = SCopy -> sv_phase PS svj = SCopy ->
    sv_buf PS svi <> sv_buf PS svj /\ ~ In (sv_buf PS svi) (po_free PS w).
  Proof.
    intros w Hij Ei Ej Hi Hj.
    pose proof (prun_ok (orig_of inputs) sched _ (pinit_ok inputs)) as H.
    split; [exact (ok_distinct _ _ H i j svi svj Hij Ei Ej Hi Hj)|].
    exact (proj2 (ok_held _ _ H i svi Ei Hi)).
  Qed.
End BufferedProofs.

(** Composition with the download path: in any overlapped run a download of a
    completely served body [concat chunks], whatever the other downloads do,
    has requested writes whose concatenation is the normal form of that body
    (the [norm] of [update_list_served_identity]). *)
Theorem pool_run_own_normal_form PS ps0 pl inputs sched i chunks ws ok :
  aget inputs i = Some (serve chunks false) ->
  saver_result PS (prun PS pl false (pinit PS ps0 inputs) sched) i = Some (ws, ok) ->
  if ok then norm (bst PS) (buf_feed PS pl) (buf_finish PS pl) (ps0, []) (concat chunks) = Some (concat ws)
  else norm (bst PS) (buf_feed PS pl) (buf_finish PS pl) (ps0, []) (concat chunks) = None.
Proof.
  intros Hin Hres. apply pool_run_independent in Hres. unfold orig_of in Hres. rewrite Hin in Hres.
  pose proof (pump_complete (bst PS) (buf_feed PS pl) (buf_finish PS pl) (buf_chunking_independent PS pl) chunks (ps0, [])) as Hc.
  rewrite Hres in Hc. destruct ok; exact Hc.
Qed.

(** *** Instances *)

(** Premises satisfiable: three downloads (one cut, one with a rejected
    line), rules split across chunks, interleaved; each ends with its own
    lines.  97.. = letters. *)
Example pool_run_example :
  let inputs := [(1, serve [[97; 97]; [97; 10; 97]; [97; 97; 10]] false);
                 (2, serve [[98; 10; 98]; [98; 10; 35; 98; 10]; [98]] false);
                 (3, serve [[99; 99; 10; 99]] true)] in
  let w := prun bool simple_pl false (pinit bool false inputs) [1; 1; 2; 2; 3; 1; 3; 2; 2; 1; 3; 1; 2] in
  saver_result bool w 1 = Some ([[97; 97; 97; 10]; [97; 97; 97; 10]], true) /\
  saver_result bool w 2 = Some ([[98; 10]; [98; 98; 10]; [98; 10]], true) /\
  saver_result bool w 3 = Some ([[99; 99; 10]], false) /\
  po_free bool w <> [] /\ po_next bool w = 3.
Proof. vm_compute. repeat split; discriminate. Qed.

(** Early Put (the buffer goes back to the pool before the copy loop reads
    into it): download 2 gets download 1's buffer while half a line of 1 is
    pending in it, and leaves a half line of its own there; 1 then completes
    ITS line from 2's bytes, 2 completes its line from nothing.  Both
    "succeed"; 1's file holds a line with a foreign byte, 2's a truncated
    line; with the deferred Put the same schedule gives each its own. *)
Theorem early_put_mixes :
  let inputs := [(1, serve [[97; 10; 97; 97]; [97; 10]] false);
                 (2, serve [[98; 98; 10; 98]; [98; 10]] false)] in
  let sched := [1; 1; 2; 2; 1; 1; 2; 2] in
  let w := prun bool simple_pl true (pinit bool false inputs) sched in
  saver_result bool w 1 = Some ([[97; 10]; [98; 97; 10]], true) /\
  saver_result bool w 2 = Some ([[98; 98; 10]; [98; 10]], true) /\
  pump (bst bool) (buf_feed bool simple_pl) (buf_finish bool simple_pl) (false, []) (orig_of inputs 1)
    = ([[97; 10]; [97; 97; 97; 10]], true) /\
  (let w' := prun bool simple_pl false (pinit bool false inputs) sched in
   saver_result bool w' 1 = Some ([[97; 10]; [97; 97; 97; 10]], true) /\
   saver_result bool w' 2 = Some ([[98; 98; 10]; [98; 98; 10]], true)).
Proof. vm_compute. repeat split; reflexivity. Qed.

(** The same with nothing else in the file: 1 is stalled with "aa" pending, 2
    leaves "b" pending in the shared buffer, 1's next chunk completes the line
    as "b" ++ "a". *)
Theorem early_put_foreign_line :
  let inputs := [(1, serve [[97; 97]; [97; 10]] false);
                 (2, serve [[98; 98; 10; 98]; [98; 10]] false)] in
  let w := prun bool simple_pl true (pinit bool false inputs) [1; 1; 2; 2; 1; 1; 2; 2] in
  saver_result bool w 1 = Some ([[98; 97; 10]], true) /\
  In 98 (concat (fst (match saver_result bool w 1 with Some x => x | None => ([], false) end))).
Proof. vm_compute. split; [reflexivity|]. left. reflexivity. Qed.

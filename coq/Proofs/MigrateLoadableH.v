(** C13, part 6h: what [Migrate] hands back is loadable, in memory and as the
    file it writes.  [loadable_preserved] (Proofs/MigrateLoadableC.v) speaks
    of a range of steps on a tree; here it is carried to [migrate] and through
    serialise-and-re-read ([norm_obj]), which is what the loader sees. *)
From Coq Require Import List ZArith String Ascii Bool Lia Arith.
From AGH Require Import Model.Migrate Model.MigrateLoad Proofs.Migrate Proofs.MigrateFrame Proofs.MigrateSim
  Proofs.MigrateElems Proofs.MigrateLoadable Proofs.MigrateLoadableC.
Import ListNotations.
Local Open Scope string_scope.
Local Open Scope list_scope.

Lemma forallb_map_VStr e l : (forall s, conforms e (VStr s) = true) -> forallb (conforms e) (map VStr l) = true.
Proof. intros H. induction l as [|a l IH]; cbn [map forallb]; [reflexivity|]. now rewrite H, IH. Qed.

(** Erasing Go's dynamic types keeps every kind: a whole float is an int, a
    duration and an upstream mode are text, a [[]string] is a list of text. *)
Lemma conforms_norm : forall s v, conforms s v = true -> conforms s (norm v) = true.
Proof.
  fix IH 1. intros s v. destruct s as [| | | | | |e|n fs].
  - reflexivity.
  - discriminate.
  - destruct v as [| | | |[?|] ?| | | | | |]; cbn; congruence.
  - destruct v as [| | | |[?|] ?| | | | | |]; cbn; congruence.
  - destruct v as [| | | |[?|] ?| | | | | |]; cbn; congruence.
  - destruct v as [| | | |[?|] ?| | | | | |]; cbn; congruence.
  - destruct v as [| | | |[?|] ?| | |m| | |ls]; try (cbn; congruence).
    + cbn [conforms norm]. induction l as [|a l IHl]; cbn [map forallb]; [reflexivity|]. intros H.
      apply andb_prop in H. destruct H as [H1 H2]. now rewrite (IH e a H1), (IHl H2).
    + cbn [conforms norm]. destruct e; try discriminate; intros _; now apply forallb_map_VStr.
  - destruct v as [| | | |[?|] ?| | |m| | |]; try (cbn; congruence).
    change (norm (VObj m)) with (VObj (norm_obj m)). rewrite !conforms_obj.
    induction fs as [|[k s'] fs IHfs]; cbn [fields_ok]; [reflexivity|]. intros H.
    apply andb_prop in H. destruct H as [H1 H2]. rewrite get_norm_obj, (IHfs H2), andb_true_r.
    destruct (get k m) as [x|]; cbn [option_map]; [exact (IH s' x H1) | reflexivity].
Qed.

Lemma loadable_norm v m : loadable v m = true -> loadable v (norm_obj m) = true.
Proof. unfold loadable. exact (conforms_norm (schema v) (VObj m)). Qed.

(** The statement the evaluator checks on every document ([loadable_kept] in
    Run/C13.v), for all documents: if the input is loadable at the version it
    carries, the new body is loadable at the target version, as the tree the
    steps leave and as the file written from it. *)
Theorem migrate_output_loadable O top t a :
  migrate O top t = ONew a ->
  loadable (nat_version (input_map top)) (input_map top) = true ->
  loadable (Z.to_nat t) a = true /\ loadable (Z.to_nat t) (norm_obj a) = true.
Proof.
  intros H Hl. destruct (migrate_new_inv' O _ _ _ H) as (_ & R & U). unfold last_version in R.
  assert (V0 : (0 <= version_of (input_map top))%Z) by (apply Z.mod_pos_bound; lia).
  assert (L1 : loadable (Z.to_nat t) a = true).
  { apply (loadable_preserved O (nat_version (input_map top)) (Z.to_nat t) (input_map top) a); auto.
    unfold nat_version. lia. }
  split; [exact L1 | now apply loadable_norm].
Qed.

(** A typed tree and its file are told apart by no shape: the in-memory
    result of the version-22 example holds a typed upstream mode and a
    [[]string]; both forms are loadable. *)
Example doc22_loadable_both :
  exists a, migrate oracles0 (Some doc22) 29 = ONew a /\ loadable 22 doc22 = true /\
    loadable 29 a = true /\ loadable 29 (norm_obj a) = true /\ plain (VObj a) = false.
Proof. eexists. split; [vm_compute; reflexivity|]. repeat split; vm_compute; reflexivity. Qed.

(** Proofs about the concrete text syntax of the pause schedule (C18). *)
From Coq Require Import ZArith NArith List Bool Lia.
From AGH Require Import Base.Run Model.Schedule Model.ScheduleText Proofs.Schedule.
Import ListNotations.
Local Open Scope Z_scope.
Ltac Zify.zify_post_hook ::= Z.to_euclidean_division_equations.

(** * From a computed check over 0..n to the quantified statement *)

Definition upto (n : nat) : list Z := map Z.of_nat (seq 0 (S n)).

Lemma forallb_upto (P : Z -> bool) (n : nat) :
  forallb P (upto n) = true -> forall k, 0 <= k <= Z.of_nat n -> P k = true.
Proof.
  intros H k Hk. rewrite forallb_forall in H. apply H.
  unfold upto. apply in_map_iff. exists (Z.to_nat k). split; [lia|].
  apply in_seq. lia.
Qed.

(** * The whole minutes of a day: print then parse is the identity *)

Definition yaml_minute_ok (k : Z) : bool :=
  match parse_duration (tu_string (k * ns_min)) with
  | inr v => v =? k * ns_min
  | inl _ => false
  end.

Definition json_minute_ok (k : Z) : bool :=
  match parse_ms_text (print_ms_text (k * ns_min)) with
  | Some v => v =? k * ns_min
  | None => false
  end.

Lemma yaml_minutes_computed : forallb yaml_minute_ok (upto 1440) = true.
Proof. vm_compute. reflexivity. Qed.

Lemma json_minutes_computed : forallb json_minute_ok (upto 1440) = true.
Proof. vm_compute. reflexivity. Qed.

Lemma yaml_minute_roundtrip k :
  0 <= k <= 1440 -> parse_duration (tu_string (k * ns_min)) = inr (k * ns_min).
Proof.
  intros Hk. pose proof (forallb_upto yaml_minute_ok 1440 yaml_minutes_computed k) as H.
  specialize (H ltac:(lia)). unfold yaml_minute_ok in H.
  destruct (parse_duration (tu_string (k * ns_min))) as [e|v]; [discriminate|].
  apply Z.eqb_eq in H. congruence.
Qed.

Lemma json_minute_roundtrip k :
  0 <= k <= 1440 -> parse_ms_text (print_ms_text (k * ns_min)) = Some (k * ns_min).
Proof.
  intros Hk. pose proof (forallb_upto json_minute_ok 1440 json_minutes_computed k) as H.
  specialize (H ltac:(lia)). unfold json_minute_ok in H.
  destruct (parse_ms_text (print_ms_text (k * ns_min))) as [v|]; [|discriminate].
  apply Z.eqb_eq in H. congruence.
Qed.

(** Both ends of a validated range are such whole minutes. *)
Lemma range_ok_minutes r :
  range_ok r ->
  exists ks ke, 0 <= ks <= 1440 /\ 0 <= ke <= 1440 /\
                dr_start r = ks * ns_min /\ dr_end r = ke * ns_min.
Proof.
  intros H. exists (dr_start r / ns_min), (dr_end r / ns_min).
  unfold range_ok, ns_day, ns_min, ns_sec in *.
  destruct H as [[-> ->]|H]; cbn; lia.
Qed.

Lemma range_ok_yaml_text r :
  range_ok r ->
  parse_yaml_dur (tu_string (dr_start r)) = inr (dr_start r) /\
  parse_yaml_dur (tu_string (dr_end r)) = inr (dr_end r).
Proof.
  intros H. destruct (range_ok_minutes r H) as (ks & ke & Hs & He & -> & ->).
  unfold parse_yaml_dur. rewrite !yaml_minute_roundtrip by assumption. split; reflexivity.
Qed.

Lemma range_ok_json_text r :
  range_ok r ->
  parse_json_dur (print_ms_text (dr_start r)) = inr (dr_start r) /\
  parse_json_dur (print_ms_text (dr_end r)) = inr (dr_end r).
Proof.
  intros H. destruct (range_ok_minutes r H) as (ks & ke & Hs & He & -> & ->).
  unfold parse_json_dur. rewrite !json_minute_roundtrip by assumption. split; reflexivity.
Qed.

(** * Documents *)

Lemma upd_app_length {A} (pre : list A) x rest f :
  upd (pre ++ x :: rest) (length pre) f = pre ++ f x :: rest.
Proof. induction pre as [|a pre IH]; cbn; [reflexivity|]. rewrite IH. reflexivity. Qed.

Lemma is_zero_range_true r : is_zero_range r = true -> r = zero_range.
Proof.
  destruct r as [s e]. unfold is_zero_range; cbn [dr_start dr_end].
  rewrite andb_true_iff, !Z.eqb_eq. intros [-> ->]. reflexivity.
Qed.

(** Whatever the printer and parser: if parsing undoes printing on both ends
    of every range of [w], decoding the marshalled fields rebuilds [w]. *)
Lemma apply_fields_marshal parse print w :
  (forall r, In r w -> parse (print (dr_start r)) = inr (dr_start r) /\
                       parse (print (dr_end r)) = inr (dr_end r)) ->
  forall pre,
    apply_fields parse (pre ++ repeat zero_range (length w))
      (flatten_days (length pre) (marshal_text print w)) = inr (pre ++ w).
Proof.
  induction w as [|r w IH]; intros H pre.
  - cbn. reflexivity.
  - assert (Hstep : apply_fields parse ((pre ++ [r]) ++ repeat zero_range (length w))
                      (flatten_days (length (pre ++ [r])) (marshal_text print w))
                    = inr ((pre ++ [r]) ++ w)).
    { apply IH. intros r' Hr'. apply H. right. exact Hr'. }
    rewrite app_length in Hstep. cbn [length] in Hstep. rewrite Nat.add_1_r in Hstep.
    rewrite <- !app_assoc in Hstep. cbn [app] in Hstep.
    cbn [marshal_text map length repeat].
    destruct (is_zero_range r) eqn:Ez.
    + apply is_zero_range_true in Ez. subst r. cbn [flatten_days]. exact Hstep.
    + cbn [flatten_days apply_fields].
      destruct (H r (or_introl eq_refl)) as [Hs He]. rewrite Hs.
      rewrite upd_app_length. rewrite He. rewrite upd_app_length.
      unfold set_field, zero_range; cbn [dr_start dr_end].
      destruct r as [s e]; cbn [dr_start dr_end] in *. exact Hstep.
Qed.

Lemma text_roundtrip parse print w :
  (forall r, range_ok r -> parse (print (dr_start r)) = inr (dr_start r) /\
                           parse (print (dr_end r)) = inr (dr_end r)) ->
  weekly_ok w ->
  unmarshal_fields parse (length (marshal_text print w))
    (flatten_days 0 (marshal_text print w)) = inr w.
Proof.
  intros Hp Hw. unfold unmarshal_fields.
  assert (Hl : length (marshal_text print w) = length w) by apply map_length.
  rewrite Hl.
  pose proof (apply_fields_marshal parse print w) as H.
  specialize (H (fun r Hr => Hp r (proj1 (Forall_forall _ _) Hw r Hr)) []).
  cbn [app length] in H. rewrite H.
  unfold unmarshal_ranges. rewrite first_error_none by exact Hw. reflexivity.
Qed.

Lemma yaml_text_roundtrip w :
  weekly_ok w -> unmarshal_yaml_text (marshal_yaml_text w) = inr w.
Proof. intros H. apply text_roundtrip; [exact range_ok_yaml_text | exact H]. Qed.

Lemma json_text_roundtrip w :
  weekly_ok w -> unmarshal_json_text (marshal_json_text w) = inr w.
Proof. intros H. apply text_roundtrip; [exact range_ok_json_text | exact H]. Qed.

(** What the text decoders accept is validated (whatever the texts were). *)
Lemma unmarshal_fields_only_valid parse n fs w :
  unmarshal_fields parse n fs = inr w -> weekly_ok w.
Proof.
  unfold unmarshal_fields. destruct (apply_fields parse _ fs) as [c|w']; [discriminate|].
  destruct (unmarshal_ranges w') as [[i e]|w''] eqn:E; [discriminate|].
  intros Hw; injection Hw as <-. apply unmarshal_accepts_only_valid in E. tauto.
Qed.

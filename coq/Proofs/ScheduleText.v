(** Proofs about the concrete text syntax of the pause schedule (C18). *)
From Coq Require Import ZArith NArith List Bool Lia.
From AGH Require Import Base.Run Model.Schedule Model.ScheduleText Proofs.Schedule.
Import ListNotations.
Local Open Scope Z_scope.
Ltac Zify.zify_post_hook ::= Z.to_euclidean_division_equations.

(** * From a computed check over 0..n to the quantified statement *)

Definition upto (n : nat) : list Z := map Z.of_nat (seq 0 (S n)).

Lemma forallb_upto (P : Z -> bool) (n : nat) :
  forallb P (upto n) = true -> forall k, 0 <= k <= Z.of_nat n -> P k = true.
Proof.
  intros H k Hk. rewrite forallb_forall in H. apply H.
  unfold upto. apply in_map_iff. exists (Z.to_nat k). split; [lia|].
  apply in_seq. lia.
Qed.

(** * The whole minutes of a day: print then parse is the identity *)

Definition yaml_minute_ok (k : Z) : bool :=
  match parse_duration (tu_string (k * ns_min)) with
  | inr v => v =? k * ns_min
  | inl _ => false
  end.

Definition json_minute_ok (k : Z) : bool :=
  match parse_ms_text (print_ms_text (k * ns_min)) with
  | Some v => v =? k * ns_min
  | None => false
  end.

Lemma yaml_minutes_computed : forallb yaml_minute_ok (upto 1440) = true.
Proof. vm_compute. reflexivity. Qed.

Lemma json_minutes_computed : forallb json_minute_ok (upto 1440) = true.
Proof. vm_compute. reflexivity. Qed.

Lemma yaml_minute_roundtrip k :
  0 <= k <= 1440 -> parse_duration (tu_string (k * ns_min)) = inr (k * ns_min).
Proof.
  intros Hk. pose proof (forallb_upto yaml_minute_ok 1440 yaml_minutes_computed k) as H.
  specialize (H ltac:(lia)). unfold yaml_minute_ok in H.
  destruct (parse_duration (tu_string (k * ns_min))) as [e|v]; [discriminate|].
  apply Z.eqb_eq in H. congruence.
Qed.

Lemma json_minute_roundtrip k :
  0 <= k <= 1440 -> parse_ms_text (print_ms_text (k * ns_min)) = Some (k * ns_min).
Proof.
  intros Hk. pose proof (forallb_upto json_minute_ok 1440 json_minutes_computed k) as H.
  specialize (H ltac:(lia)). unfold json_minute_ok in H.
  destruct (parse_ms_text (print_ms_text (k * ns_min))) as [v|]; [|discriminate].
  apply Z.eqb_eq in H. congruence.
Qed.

(** Both ends of a validated range are such whole minutes. *)
Lemma range_ok_minutes r :
  range_ok r ->
  exists ks ke, 0 <= ks <= 1440 /\ 0 <= ke <= 1440 /\
                dr_start r = ks * ns_min /\ dr_end r = ke * ns_min.
Proof.
  intros H. exists (dr_start r / ns_min), (dr_end r / ns_min).
  unfold range_ok, ns_day, ns_min, ns_sec in *.
  destruct H as [[-> ->]|H]; cbn; lia.
Qed.

Lemma range_ok_yaml_text r :
  range_ok r ->
  parse_yaml_dur (tu_string (dr_start r)) = inr (dr_start r) /\
  parse_yaml_dur (tu_string (dr_end r)) = inr (dr_end r).
Proof.
  intros H. destruct (range_ok_minutes r H) as (ks & ke & Hs & He & -> & ->).
  unfold parse_yaml_dur. rewrite !yaml_minute_roundtrip by assumption. split; reflexivity.
Qed.

Lemma range_ok_json_text r :
  range_ok r ->
  parse_json_dur (print_ms_text (dr_start r)) = inr (dr_start r) /\
  parse_json_dur (print_ms_text (dr_end r)) = inr (dr_end r).
Proof.
  intros H. destruct (range_ok_minutes r H) as (ks & ke & Hs & He & -> & ->).
  unfold parse_json_dur. rewrite !json_minute_roundtrip by assumption. split; reflexivity.
Qed.

(** * Documents *)

Lemma upd_app_length {A} (pre : list A) x rest f :
  upd (pre ++ x :: rest) (length pre) f = pre ++ f x :: rest.
Proof. induction pre as [|a pre IH]; cbn; [reflexivity|]. rewrite IH. reflexivity. Qed.

Lemma is_zero_range_true r : is_zero_range r = true -> r = zero_range.
Proof.
  destruct r as [s e]. unfold is_zero_range; cbn [dr_start dr_end].
  rewrite andb_true_iff, !Z.eqb_eq. intros [-> ->]. reflexivity.
Qed.

(** Whatever the printer and parser: if parsing undoes printing on both ends
    of every range of [w], decoding the marshalled fields rebuilds [w]. *)
Lemma apply_fields_marshal parse print w :
  (forall r, In r w -> parse (print (dr_start r)) = inr (dr_start r) /\
                       parse (print (dr_end r)) = inr (dr_end r)) ->
  forall pre,
    apply_fields parse (pre ++ repeat zero_range (length w))
      (flatten_days (length pre) (marshal_text print w)) = inr (pre ++ w).
Proof.
  induction w as [|r w IH]; intros H pre.
  - cbn. reflexivity.
  - assert (Hstep : apply_fields parse ((pre ++ [r]) ++ repeat zero_range (length w))
                      (flatten_days (length (pre ++ [r])) (marshal_text print w))
                    = inr ((pre ++ [r]) ++ w)).
    { apply IH. intros r' Hr'. apply H. right. exact Hr'. }
    rewrite app_length in Hstep. cbn [length] in Hstep. rewrite Nat.add_1_r in Hstep.
    rewrite <- !app_assoc in Hstep. cbn [app] in Hstep.
    cbn [marshal_text map length repeat].
    destruct (is_zero_range r) eqn:Ez.
    + apply is_zero_range_true in Ez. subst r. cbn [flatten_days]. exact Hstep.
    + cbn [flatten_days apply_fields].
      destruct (H r (or_introl eq_refl)) as [Hs He]. rewrite Hs.
      rewrite upd_app_length. rewrite He. rewrite upd_app_length.
      unfold set_field, zero_range; cbn [dr_start dr_end].
      destruct r as [s e]; cbn [dr_start dr_end] in *. exact Hstep.
Qed.

Lemma text_roundtrip parse print w :
  (forall r, range_ok r -> parse (print (dr_start r)) = inr (dr_start r) /\
                           parse (print (dr_end r)) = inr (dr_end r)) ->
  weekly_ok w ->
  unmarshal_fields parse (length (marshal_text print w))
    (flatten_days 0 (marshal_text print w)) = inr w.
Proof.
  intros Hp Hw. unfold unmarshal_fields.
  assert (Hl : length (marshal_text print w) = length w) by apply map_length.
  rewrite Hl.
  pose proof (apply_fields_marshal parse print w) as H.
  specialize (H (fun r Hr => Hp r (proj1 (Forall_forall _ _) Hw r Hr)) []).
  cbn [app length] in H. rewrite H.
  unfold unmarshal_ranges. rewrite first_error_none by exact Hw. reflexivity.
Qed.

Lemma yaml_text_roundtrip w :
  weekly_ok w -> unmarshal_yaml_text (marshal_yaml_text w) = inr w.
Proof. intros H. apply text_roundtrip; [exact range_ok_yaml_text | exact H]. Qed.

Lemma json_text_roundtrip w :
  weekly_ok w -> unmarshal_json_text (marshal_json_text w) = inr w.
Proof. intros H. apply text_roundtrip; [exact range_ok_json_text | exact H]. Qed.

(** What the text decoders accept is validated (whatever the texts were). *)
Lemma unmarshal_fields_only_valid parse n fs w :
  unmarshal_fields parse n fs = inr w -> weekly_ok w.
Proof.
  unfold unmarshal_fields. destruct (apply_fields parse _ fs) as [c|w']; [discriminate|].
  destruct (unmarshal_ranges w') as [[i e]|w''] eqn:E; [discriminate|].
  intros Hw; injection Hw as <-. apply unmarshal_accepts_only_valid in E. tauto.
Qed.

(** * Canonical-order documents, whatever the texts *)

(** The decoders on a document in canonical order amount to parsing day by
    day (first syntax error wins) and then validating. *)
Fixpoint parse_days (parse : bytes -> Z + Z) (days : list text_day) : Z + list day_range :=
  match days with
  | [] => inr []
  | None :: days =>
      match parse_days parse days with
      | inl c => inl c
      | inr rs => inr (zero_range :: rs)
      end
  | Some (s, e) :: days =>
      match parse s with
      | inl c => inl c
      | inr a =>
        match parse e with
        | inl c => inl c
        | inr b =>
          match parse_days parse days with
          | inl c => inl c
          | inr rs => inr ({| dr_start := a; dr_end := b |} :: rs)
          end
        end
      end
  end.

Lemma apply_fields_flatten parse days :
  forall pre,
    apply_fields parse (pre ++ repeat zero_range (length days))
      (flatten_days (length pre) days)
    = match parse_days parse days with
      | inl c => inl c
      | inr rs => inr (pre ++ rs)
      end.
Proof.
  induction days as [|d days IH]; intros pre.
  - cbn. reflexivity.
  - assert (Hstep : forall r,
      apply_fields parse (pre ++ r :: repeat zero_range (length days))
        (flatten_days (S (length pre)) days)
      = match parse_days parse days with
        | inl c => inl c
        | inr rs => inr (pre ++ r :: rs)
        end).
    { intros r. specialize (IH (pre ++ [r])).
      rewrite app_length in IH. cbn [length] in IH. rewrite Nat.add_1_r in IH.
      rewrite <- !app_assoc in IH. cbn [app] in IH. rewrite IH.
      destruct (parse_days parse days); [reflexivity|].
      rewrite <- app_assoc. reflexivity. }
    cbn [length repeat]. destruct d as [[s e]|].
    + cbn [flatten_days apply_fields parse_days].
      destruct (parse s) as [c|a]; [reflexivity|].
      rewrite upd_app_length.
      destruct (parse e) as [c|b]; [reflexivity|].
      rewrite upd_app_length.
      unfold set_field; cbn [dr_start dr_end zero_range].
      rewrite Hstep. destruct (parse_days parse days); reflexivity.
    + cbn [flatten_days parse_days]. rewrite Hstep.
      destruct (parse_days parse days); reflexivity.
Qed.

Lemma unmarshal_days_spec parse days :
  unmarshal_fields parse (length days) (flatten_days 0 days)
  = match parse_days parse days with
    | inl c => inl (TSyntax c)
    | inr rs => match unmarshal_ranges rs with
                | inl (i, e) => inl (TRange i e)
                | inr w => inr w
                end
    end.
Proof.
  unfold unmarshal_fields.
  pose proof (apply_fields_flatten parse days []) as H. cbn [app length] in H.
  rewrite H. destruct (parse_days parse days); reflexivity.
Qed.

Lemma parse_days_nth parse days rs d s e a b :
  parse_days parse days = inr rs ->
  nth_error days d = Some (Some (s, e)) ->
  parse s = inr a -> parse e = inr b ->
  nth_error rs d = Some {| dr_start := a; dr_end := b |}.
Proof.
  revert rs d. induction days as [|x days IH]; intros rs d Hp Hn Hs He.
  - destruct d; discriminate.
  - destruct d as [|d]; cbn [nth_error] in Hn.
    + injection Hn as ->. cbn [parse_days] in Hp. rewrite Hs, He in Hp.
      destruct (parse_days parse days); [discriminate|]. injection Hp as <-. reflexivity.
    + cbn [parse_days] in Hp. destruct x as [[s' e']|].
      * destruct (parse s'); [discriminate|]. destruct (parse e'); [discriminate|].
        destruct (parse_days parse days) as [|rs'] eqn:E; [discriminate|].
        injection Hp as <-. cbn [nth_error]. eapply IH; eauto.
      * destruct (parse_days parse days) as [|rs'] eqn:E; [discriminate|].
        injection Hp as <-. cbn [nth_error]. eapply IH; eauto.
Qed.

(** A day whose texts read as a range that is not validated makes the
    decoder reject the document, whatever the other days say. *)
Lemma text_day_rejected parse days d s e a b :
  nth_error days d = Some (Some (s, e)) ->
  parse s = inr a -> parse e = inr b ->
  ~ range_ok {| dr_start := a; dr_end := b |} ->
  exists err, unmarshal_fields parse (length days) (flatten_days 0 days) = inl err.
Proof.
  intros Hn Hs He Hbad. rewrite unmarshal_days_spec.
  destruct (parse_days parse days) as [c|rs] eqn:E; [eauto|].
  pose proof (parse_days_nth parse days rs d s e a b E Hn Hs He) as Hr.
  destruct (unmarshal_rejects_invalid rs) as [[i er] Hrej].
  - intros Hok. apply Hbad. eapply Forall_forall; [exact Hok|].
    eapply nth_error_In; exact Hr.
  - rewrite Hrej. eauto.
Qed.

(** JSON: the value of a number text is the exact decimal (nothing is cut
    before the scaling to nanoseconds); a bound that is not a whole number of
    minutes, e.g. by a fraction of a millisecond, is rejected. *)
Lemma json_fraction_rejected days d s e vs ve :
  nth_error days d = Some (Some (s, e)) ->
  parse_ms_text s = Some vs -> parse_ms_text e = Some ve ->
  vs mod ns_min <> 0 \/ ve mod ns_min <> 0 ->
  exists err, unmarshal_json_text days = inl err.
Proof.
  intros Hn Hs He Hbad. unfold unmarshal_json_text.
  eapply text_day_rejected with (a := vs) (b := ve); eauto.
  - unfold parse_json_dur. rewrite Hs. reflexivity.
  - unfold parse_json_dur. rewrite He. reflexivity.
  - unfold range_ok; cbn [dr_start dr_end]. intros [[-> ->]|H].
    + cbn in Hbad. destruct Hbad as [H|H]; apply H; reflexivity.
    + tauto.
Qed.

Lemma yaml_fraction_rejected days d s e vs ve :
  nth_error days d = Some (Some (s, e)) ->
  parse_duration s = inr vs -> parse_duration e = inr ve ->
  vs mod ns_min <> 0 \/ ve mod ns_min <> 0 ->
  exists err, unmarshal_yaml_text days = inl err.
Proof.
  intros Hn Hs He Hbad. unfold unmarshal_yaml_text.
  eapply text_day_rejected with (a := vs) (b := ve); eauto.
  - unfold parse_yaml_dur. rewrite Hs. reflexivity.
  - unfold parse_yaml_dur. rewrite He. reflexivity.
  - unfold range_ok; cbn [dr_start dr_end]. intros [[-> ->]|H].
    + cbn in Hbad. destruct Hbad as [H|H]; apply H; reflexivity.
    + tauto.
Qed.

(** The premises are satisfiable: 120000.5 ms is 120000500000 ns, not a
    whole minute, and {"mon":{"start":60000,"end":120000.5}} is rejected for
    its end (weekday 1, error 7), as is a full day longer by half a
    millisecond (error 5: end beyond 24h). *)
Definition txt_60000 : bytes := [54; 48; 48; 48; 48]%N.
Definition txt_120000_5 : bytes := [49; 50; 48; 48; 48; 48; 46; 53]%N.
Definition txt_0 : bytes := [48]%N.
Definition txt_86400000_5 : bytes := [56; 54; 52; 48; 48; 48; 48; 48; 46; 53]%N.

Lemma json_fraction_examples :
  parse_ms_text txt_120000_5 = Some 120000500000 /\
  120000500000 mod ns_min <> 0 /\
  unmarshal_json_text [None; Some (txt_60000, txt_120000_5); None; None; None; None; None]
    = inl (TRange 1 EEndNotMin) /\
  unmarshal_json_text [Some (txt_0, txt_86400000_5); None; None; None; None; None; None]
    = inl (TRange 0 EEndGtMax).
Proof. vm_compute. repeat split; discriminate. Qed.

(** The scaling to nanoseconds truncates toward zero, so a fraction below one
    nanosecond disappears: "51600000.0000001" is 51600000000000 ns, a whole
    minute, and {"thu":{"start":51600000.0000001,"end":58140000}} is accepted
    with the range 14h20m-16h09m; one nanosecond more ("51600000.000001") is
    rejected. *)
Definition txt_51600000_0000001 : bytes := [53; 49; 54; 48; 48; 48; 48; 48; 46; 48; 48; 48; 48; 48; 48; 49]%N.
Definition txt_51600000_000001 : bytes := [53; 49; 54; 48; 48; 48; 48; 48; 46; 48; 48; 48; 48; 48; 49]%N.
Definition txt_58140000 : bytes := [53; 56; 49; 52; 48; 48; 48; 48]%N.

Lemma json_sub_nanosecond_examples :
  parse_ms_text txt_51600000_0000001 = Some 51600000000000 /\
  51600000000000 mod ns_min = 0 /\
  unmarshal_json_text [None; None; None; None; Some (txt_51600000_0000001, txt_58140000); None; None]
    = inr [zero_range; zero_range; zero_range; zero_range;
           {| dr_start := 51600000000000; dr_end := 58140000000000 |}; zero_range; zero_range] /\
  unmarshal_json_text [None; None; None; None; Some (txt_51600000_000001, txt_58140000); None; None]
    = inl (TRange 4 EStartNotMin).
Proof. repeat split; vm_compute; reflexivity. Qed.

(** C15, round 5: a restart of the process inside the histories.

    The old process writes its lists into the configuration file (ID, URL,
    name, enabled flag; rule count, checksum and time of the last update are
    not written), the new one runs [filtering.New] ([loadFilters] for both
    arrays, [deduplicateFilters]) and [EnableFilters(false)] on the same data
    directory ([Model.Refresh.restart]).  Here: a restart changes no file; the
    metadata it computes for the enabled lists from their files are the ones
    they had (that is the "stable form" clause: re-parsing what is stored
    yields the same rule count and checksum), disabled lists stay unloaded;
    hence every invariant survives ([Proofs.Refresh.restart_wf],
    [Proofs.RefreshEngine.restart_consistent], [restart_urls]) and all the
    history theorems range over histories with restarts ([hop] has
    [HRestart]).  Disabling a list, restarting and enabling it again while its
    source serves what is stored keeps the file and puts its rules in force.
    That last clause depends on disabled lists NOT being loaded at start-up:
    the variant that loads them ([restart_v true]) refutes it. *)
From Coq Require Import NArith List Bool Lia.
From AGH Require Import Base.Run Model.RuleListParser Model.Refresh Proofs.RuleListParser Proofs.RuleListWrite
  Proofs.Refresh Proofs.RefreshEngine.
Import ListNotations.
Local Open Scope N_scope.

Section Restart.
  Variable crc : N -> bytes -> N.
  Notation restart := (restart crc).
  Notation restart_v := (restart_v crc).
  Notation set_props := (set_props crc).

  (** ** No file is touched *)
  Theorem restart_files all st : r_files (restart_v all st) = r_files st.
  Proof. reflexivity. Qed.

  (** ** The invariants survive *)
  Theorem restart_preserves_invariants st : wf crc st -> NoDup (urls st) ->
    wf crc (restart st) /\ NoDup (urls (restart st)) /\ engine_consistent (restart st) /\
    r_files (restart st) = r_files st.
  Proof.
    intros W ND. split; [now apply restart_wf|]. split; [now rewrite restart_urls|].
    split; [apply restart_consistent|reflexivity].
  Qed.

  (** ... so they hold after every history of refreshes, set_url calls,
      rebuilds and restarts; the engine is in step with the files whenever no
      pass ended with a network error, and in any case right after a restart. *)
  Theorem history_with_restarts_invariants hs st : wf crc st -> NoDup (urls st) ->
    wf crc (run_hist crc hs st) /\ NoDup (urls (run_hist crc hs st)) /\
    (engine_consistent st -> passes_ok crc hs st -> engine_consistent (run_hist crc hs st)) /\
    engine_consistent (run_hist crc (hs ++ [HRestart]) st).
  Proof.
    intros W ND. split; [now apply history_wf|]. split; [now apply history_urls_unique|].
    split; [apply history_engine_consistent|]. now apply rebuilding_step_consistent.
  Qed.

  (** ** What [loadFilters] computes is what was there *)

  (** The only thing a restart can change in an entry that was in step with
      its file: an enabled list without a name whose file is stored gets the
      default name ([ensureName] in [load]; a stored file has no title line). *)
  Definition named (fs : files) (f : flist) : flist :=
    if f_enabled f && match fget (f_id f) fs with Some _ => true | None => false end
    then {| f_id := f_id f; f_url := f_url f; f_enabled := f_enabled f;
            f_name := ensure_name (f_id f) (f_name f) []; f_count := f_count f; f_sum := f_sum f |}
    else f.

  Lemma describes_no_title c st :
    parse crc c false = (st, None) -> output st = c -> p_title st = [].
  Proof.
    intros P O. destruct (parse_stored_no_title crc c false st P) as (st' & P' & T).
    rewrite O, P in P'. now injection P' as <-.
  Qed.

  Lemma load_persisted_spec fs f : list_ok crc fs f -> load_entry crc false fs (persisted f) = named fs f.
  Proof.
    intros OK. unfold list_ok, load_entry, load_file, named in *. cbn [persisted f_enabled f_id]. rewrite orb_false_r.
    destruct (f_enabled f) eqn:En; cbv iota in *; cbn [andb].
    - destruct (fget (f_id f) fs) as [c|] eqn:G.
      + destruct OK as (st & P & O & C & S). rewrite P. unfold filled. cbn [f_enabled f_id f_url f_name persisted].
        rewrite (describes_no_title c st P O), C, S, En. reflexivity.
      + destruct OK as [C S]. destruct f. cbn in *. now subst.
    - destruct OK as [C S]. destruct f. cbn in *. now subst.
  Qed.

  Lemma named_fields fs f :
    f_id (named fs f) = f_id f /\ f_url (named fs f) = f_url f /\ f_enabled (named fs f) = f_enabled f /\
    f_count (named fs f) = f_count f /\ f_sum (named fs f) = f_sum f /\
    (f_name f <> [] \/ fget (f_id f) fs = None \/ f_enabled f = false -> named fs f = f).
  Proof.
    unfold named. destruct (f_enabled f) eqn:En; cbn [andb]; [|repeat split; auto].
    destruct (fget (f_id f) fs) as [c|]; [|repeat split; auto].
    repeat split; auto. intros [H|[H|H]]; [|discriminate H|discriminate H].
    unfold ensure_name. destruct (f_name f) as [|b r] eqn:Nm; [congruence|].
    destruct f. cbn in *. now subst.
  Qed.

  Lemma snapshot_named fs : forall ls, snapshot (map (named fs) ls) fs = snapshot ls fs.
  Proof.
    induction ls as [|f ls IH]; [reflexivity|]. cbn [map]. rewrite !snapshot_cons, IH.
    destruct (named_fields fs f) as (-> & _ & -> & _). reflexivity.
  Qed.

  (** The whole state after a restart: files as they were; entries as they
      were up to [named]; the engine built from the files of the enabled
      lists. *)
  Theorem restart_spec st : wf crc st -> NoDup (urls st) ->
    restart st =
    {| r_block := map (named (r_files st)) (r_block st); r_allow := map (named (r_files st)) (r_allow st);
       r_files := r_files st; r_engine := rebuild (r_block st) (r_allow st) (r_files st) |}.
  Proof.
    intros [_ OK] ND. apply Forall_app in OK. destruct OK as [OKb OKa].
    assert (M : forall ls, Forall (list_ok crc (r_files st)) ls ->
                map (fun f => load_entry crc false (r_files st) (persisted f)) ls = map (named (r_files st)) ls).
    { intros ls H. apply map_ext_in. intros f Hf. apply load_persisted_spec.
      exact (proj1 (Forall_forall _ _) H f Hf). }
    destruct (restart_v_arrays crc false st ND) as [B A]. rewrite (M _ OKb) in B. rewrite (M _ OKa) in A.
    unfold Refresh.restart in *. unfold Refresh.restart_v in *. cbn [r_block r_allow] in B, A.
    rewrite B, A. unfold rebuild. now rewrite !snapshot_named.
  Qed.

  (** With every stored, enabled list named (as after any successful refresh)
      a restart is an engine rebuild and nothing else. *)
  Corollary restart_is_rebuild st : wf crc st -> NoDup (urls st) ->
    Forall (fun f => f_name f <> [] \/ fget (f_id f) (r_files st) = None \/ f_enabled f = false)
           (r_block st ++ r_allow st) ->
    restart st = rebuild_now st.
  Proof.
    intros W ND Hn. rewrite (restart_spec st W ND). apply Forall_app in Hn. destruct Hn as [Hb Ha].
    assert (M : forall ls, Forall (fun f => f_name f <> [] \/ fget (f_id f) (r_files st) = None \/ f_enabled f = false) ls ->
                map (named (r_files st)) ls = ls).
    { intros ls H. rewrite <- (map_id ls) at 2. apply map_ext_in. intros f Hf.
      apply named_fields. exact (proj1 (Forall_forall _ _) H f Hf). }
    rewrite (M _ Hb), (M _ Ha). reflexivity.
  Qed.

  (** Entry by entry: ID, URL, enabled flag, rule count and checksum are the
      same after the restart; so is the name unless it was empty. *)
  Definition same_meta (fs : files) (l l' : flist) : Prop :=
    f_id l' = f_id l /\ f_url l' = f_url l /\ f_enabled l' = f_enabled l /\
    f_count l' = f_count l /\ f_sum l' = f_sum l /\
    (f_name l <> [] \/ fget (f_id l) fs = None \/ f_enabled l = false -> l' = l).

  Theorem restart_recomputes_same_metadata st allow k l : wf crc st -> NoDup (urls st) ->
    nth_error (arr allow st) k = Some l ->
    exists l', nth_error (arr allow (restart st)) k = Some l' /\ same_meta (r_files st) l l' /\
               (f_enabled l = true -> forall c, fget (f_id l) (r_files st) = Some c ->
                  describes crc (f_count l') (f_sum l') c).
  Proof.
    intros W ND Hk. rewrite (restart_spec st W ND). exists (named (r_files st) l).
    split; [|split].
    - destruct allow; cbn [arr r_block r_allow] in *; rewrite nth_error_map, Hk; reflexivity.
    - destruct (named_fields (r_files st) l) as (A & B & C & D & E & F). unfold same_meta. tauto.
    - intros En c G. destruct (named_fields (r_files st) l) as (_ & _ & _ & -> & -> & _).
      destruct W as [_ OK]. assert (Hin : In l (r_block st ++ r_allow st)).
      { apply in_app_iff. apply nth_error_In in Hk. destruct allow; cbn [arr] in Hk; auto. }
      pose proof (proj1 (Forall_forall _ _) OK l Hin) as H. unfold list_ok in H. now rewrite En, G in H.
  Qed.

  (** ** Disable, restart, enable again *)

  (** Any state, a disabled list: after the restart it is enabled again
      through set_url with its URL kept; its source delivers a list text with
      rules.  No error, the engine is rebuilt, the normal form of that text is
      stored and in force, rule count and checksum are its. *)
  Theorem reenable_after_restart allow u i name d re pst st pre f post :
    NoDup (urls st) ->
    arr allow st = pre ++ f :: post -> Forall (other_url u) pre -> f_url f = u -> f_id f = i ->
    f_enabled f = false ->
    parse crc d re = (pst, None) -> p_sum pst <> 0 ->
    let '(rs, er, st') := set_props allow u name u true (OBody d re) (restart st) in
    er = false /\ rs = true /\ engine_consistent st' /\
    fget i (r_files st') = Some (output pst) /\
    lookup i (eng_arr allow (r_engine st')) = Some (output pst) /\
    exists f', In f' (arr allow st') /\ f_id f' = i /\ f_url f' = u /\ f_enabled f' = true /\
               f_count f' = p_count pst /\ f_sum f' = p_sum pst.
  Proof.
    intros ND Ha Hp Hu Hi En P NZ.
    set (g := fun f => load_entry crc false (r_files st) (persisted f)).
    assert (A : arr allow (restart st) = map g pre ++ g f :: map g post).
    { destruct (restart_v_arrays crc false st ND) as [B A'].
      unfold Refresh.restart. destruct allow; cbn [arr] in *; [rewrite A'|rewrite B]; rewrite Ha, map_app; reflexivity. }
    destruct (load_entry_fields crc false (r_files st) f) as (G1 & G2 & G3). fold (g f) in G1, G2, G3.
    assert (S0 : f_sum (g f) = 0).
    { unfold g, load_entry. cbn [persisted f_enabled]. now rewrite En. }
    assert (Hp' : Forall (other_url u) (map g pre)).
    { apply Forall_forall. intros x Hx. apply in_map_iff in Hx. destruct Hx as (y & <- & Hy).
      unfold other_url, g. destruct (load_entry_fields crc false (r_files st) y) as (_ & -> & _).
      exact (proj1 (Forall_forall _ _) Hp y Hy). }
    pose proof (download_puts_rules_in_force crc allow u i name u d re pst (restart st) (map g pre) (g f) (map g post)
                  A Hp' (eq_trans G2 Hu) (eq_trans G1 Hi)
                  (or_introl (conj eq_refl (conj (eq_trans G3 En) S0))) P) as H.
    destruct (set_props allow u name u true (OBody d re) (restart st)) as [[rs er] st'].
    destruct H as (E1 & E2 & E3 & E4 & E5 & f' & F1 & F2 & F3 & F4 & F5 & F6).
    apply N.eqb_neq in NZ. rewrite NZ in E4, E5.
    repeat split; auto. exists f'. repeat split; auto.
    rewrite F1. apply in_app_iff. right. now left.
  Qed.

  (** The sequence of the property's clause: an enabled list whose file [c]
      is stored is disabled, the process is restarted, the list is enabled
      again while its source serves content with the normal form [c] (in any
      spelling).  The file is still [c] (written once more, from the download),
      its rules are in force, rule count and checksum are those the list had
      before it was disabled. *)
  Theorem disable_restart_reenable allow u i name name' o d re pst st pre f post c :
    wf crc st -> NoDup (urls st) ->
    arr allow st = pre ++ f :: post -> Forall (other_url u) pre ->
    Forall (other_id i) pre -> Forall (other_id i) post -> f_url f = u -> f_id f = i ->
    f_enabled f = true -> fget i (r_files st) = Some c -> f_sum f <> 0 ->
    parse crc d re = (pst, None) -> output pst = c ->
    let st1 := snd (set_props allow u name u false o st) in
    let '(rs, er, st3) := set_props allow u name' u true (OBody d re) (restart st1) in
    er = false /\ rs = true /\ engine_consistent st3 /\
    fget i (r_files st3) = Some c /\
    lookup i (eng_arr allow (r_engine st3)) = Some c /\
    exists f', In f' (arr allow st3) /\ f_id f' = i /\ f_enabled f' = true /\
               f_count f' = f_count f /\ f_sum f' = f_sum f.
  Proof.
    intros W ND Ha Hp Hpi Hq Hu Hi En G NZ P O st1.
    (* the metadata of [f] are those of [c], and so are those of the download *)
    assert (Hin : In f (r_block st ++ r_allow st)).
    { apply in_app_iff. destruct allow; cbn [arr] in Ha; rewrite Ha; [right|left]; apply in_app_iff; right; now left. }
    destruct W as [NDi OK]. pose proof (proj1 (Forall_forall _ _) OK f Hin) as Lf.
    unfold list_ok in Lf. rewrite En, Hi, G in Lf. destruct Lf as (s1 & P1 & O1 & C1 & S1).
    destruct (parse_fixed_point crc d re pst P) as (s2 & P2 & _ & C2 & S2 & _).
    rewrite O, P1 in P2. injection P2 as <-.
    (* the disabling call *)
    pose proof (disable_takes_rules_out crc allow u i name u o st pre f post Ha Hp Hpi Hq Hu Hi En (or_introl eq_refl)) as D.
    pose proof (set_props_urls crc allow u name u false o st ND) as ND1. fold st1 in ND1.
    unfold st1 in *. clear st1.
    destruct (set_props allow u name u false o st) as [[rs0 er0] st1]. cbn [snd] in *.
    destruct D as (_ & _ & _ & _ & Fs & A1).
    pose proof (reenable_after_restart allow u i name' d re pst st1 pre _ post ND1 A1 Hp eq_refl eq_refl eq_refl P) as R.
    cbn [f_url f_id f_enabled] in R.
    destruct (set_props allow u name' u true (OBody d re) (restart st1)) as [[rs er] st3].
    destruct R as (E1 & E2 & E3 & E4 & E5 & f' & F1 & F2 & _ & F4 & F5 & F6); [congruence|].
    rewrite O in E4, E5. repeat split; auto. exists f'. repeat split; auto; congruence.
  Qed.
End Restart.

(** * The variant that loads disabled lists as well *)

(** The clause, for a start-up procedure [rst]: a disabled list that is
    enabled again after the restart, its source delivering a list text with
    rules, has the normal form of that text stored. *)
Definition reenable_keeps_file_statement (crc : N -> bytes -> N) (rst : rstate -> rstate) : Prop :=
  forall allow u i name d re pst st pre f post,
    NoDup (urls st) ->
    arr allow st = pre ++ f :: post -> Forall (other_url u) pre -> f_url f = u -> f_id f = i ->
    f_enabled f = false ->
    parse crc d re = (pst, None) -> p_sum pst <> 0 ->
    fget i (r_files (snd (set_props crc allow u name u true (OBody d re) (rst st)))) = Some (output pst).

Theorem reenable_keeps_file crc : reenable_keeps_file_statement crc (restart crc).
Proof.
  intros allow u i name d re pst st pre f post ND Ha Hp Hu Hi En P NZ.
  pose proof (reenable_after_restart crc allow u i name d re pst st pre f post ND Ha Hp Hu Hi En P NZ) as H.
  destruct (set_props crc allow u name u true (OBody d re) (restart crc st)) as [[rs er] st']. cbn [snd]. tauto.
Qed.

(** The witness.  Block list 1 holds the two rules "ab", "c" and has been
    disabled; the process restarts; the list is enabled again and its source
    now delivers "a", "bc".  The checksum is the CRC of the rule lines
    concatenated, so both texts have the same one.  With disabled lists loaded
    at start-up the entry carries the checksum of its file, the download counts
    as "no change" and the file with the OLD rules stays in force; the code
    (disabled lists not loaded: checksum zero) stores the new text.  (Until fix
    7322afe the "no change" case removed the file whatever the checksum; with
    [good] stored and delivered the variant then lost the file, see
    Proofs/RefreshOverlap.v for that removal; now it keeps it.) *)
Module LoadDisabled.
  Import RExamples SetExamples.
  Definition st_up := restart_v crc32_update true st_off.
  Definition st_on' := snd (set_props crc32_update false 1 [120] 1 true (OBody good false) st_up).
  Definition st_later := refresh crc32_update true true true all (fun _ => OBody good false) st_on'.
  (* the code as it is *)
  Definition st_up_ok := restart crc32_update st_off.
  Definition st_on_ok := snd (set_props crc32_update false 1 [120] 1 true (OBody good false) st_up_ok).
  (* equal checksums, different rules *)
  Definition ab_c : bytes := [97; 98; 10; 99; 10].
  Definition a_bc : bytes := [97; 10; 98; 99; 10].
  Definition c1 := refresh crc32_update true true true all (fun _ => OBody ab_c false) st0.
  Definition c_off := snd (set_props crc32_update false 1 [120] 1 false OOpenErr c1).
  Definition c_on' := snd (set_props crc32_update false 1 [120] 1 true (OBody a_bc false) (restart_v crc32_update true c_off)).
  Definition c_on_ok := snd (set_props crc32_update false 1 [120] 1 true (OBody a_bc false) (restart crc32_update c_off)).
End LoadDisabled.

Example load_disabled_example :
  fget 1 (r_files SetExamples.st_off) = Some RExamples.good /\
  map f_enabled (r_block SetExamples.st_off) = [false] /\
  (* the code: the disabled list stays unloaded, the re-enabled list is stored and in force *)
  map f_sum (r_block LoadDisabled.st_up_ok) = [0] /\
  LoadDisabled.st_up_ok = SetExamples.st_off /\
  fget 1 (r_files LoadDisabled.st_on_ok) = Some RExamples.good /\
  verdict (r_engine LoadDisabled.st_on_ok) [112;49] = 2 /\
  lookup 1 (e_block (r_engine LoadDisabled.st_on_ok)) = Some RExamples.good /\
  (* the variant: the disabled list is loaded; enabling it with the stored content keeps the file *)
  map f_count (r_block LoadDisabled.st_up) = [1] /\
  map f_sum (r_block LoadDisabled.st_up) <> [0] /\
  r_files LoadDisabled.st_up = r_files SetExamples.st_off /\
  fst (set_props crc32_update false 1 [120] 1 true (OBody RExamples.good false) LoadDisabled.st_up) = (true, false) /\
  fget 1 (r_files LoadDisabled.st_on') = Some RExamples.good /\
  map f_enabled (r_block LoadDisabled.st_on') = [true] /\
  map f_count (r_block LoadDisabled.st_on') = [1] /\
  lookup 1 (e_block (r_engine LoadDisabled.st_on')) = Some RExamples.good /\
  fget 1 (r_files LoadDisabled.st_later) = Some RExamples.good /\
  (* ... but content with the same checksum and other rules is not stored by the variant *)
  p_sum (fst (parse crc32_update LoadDisabled.ab_c false)) = p_sum (fst (parse crc32_update LoadDisabled.a_bc false)) /\
  fget 1 (r_files LoadDisabled.c_off) = Some LoadDisabled.ab_c /\
  fget 1 (r_files LoadDisabled.c_on') = Some LoadDisabled.ab_c /\
  lookup 1 (e_block (r_engine LoadDisabled.c_on')) = Some LoadDisabled.ab_c /\
  fget 1 (r_files LoadDisabled.c_on_ok) = Some LoadDisabled.a_bc /\
  lookup 1 (e_block (r_engine LoadDisabled.c_on_ok)) = Some LoadDisabled.a_bc.
Proof. vm_compute. repeat split; congruence. Qed.

Theorem reenable_keeps_file_loading_disabled_refuted :
  ~ reenable_keeps_file_statement crc32_update (restart_v crc32_update true).
Proof.
  intros H.
  specialize (H false 1 1 [120] LoadDisabled.a_bc false (fst (parse crc32_update LoadDisabled.a_bc false))
                LoadDisabled.c_off [] (hd (RExamples.mk 0) (r_block LoadDisabled.c_off)) []).
  assert (E : fget 1 (r_files LoadDisabled.c_on') = Some LoadDisabled.a_bc).
  { apply H; try (vm_compute; reflexivity).
    - vm_compute. repeat constructor; cbn; intuition discriminate.
    - constructor.
    - vm_compute. discriminate. }
  vm_compute in E. discriminate E.
Qed.

(** Non-vacuity: restarts inside a history; [st1] after a restart is [st1]
    (both lists are named, stored and enabled); the premises of
    [disable_restart_reenable] hold for the block list of [st1]. *)
Example restart_example :
  restart crc32_update RExamples.st1 = RExamples.st1 /\
  run_hist crc32_update [HRestart; HSet false 1 [120] 1 false OOpenErr; HRestart;
                         HSet false 1 [120] 1 true (OBody RExamples.good false); HRestart] RExamples.st1
  = LoadDisabled.st_on_ok /\
  fget 1 (r_files RExamples.st1) = Some RExamples.good /\
  map f_sum (r_block RExamples.st1) <> [0] /\
  output (fst (parse crc32_update RExamples.good false)) = RExamples.good.
Proof. vm_compute. repeat split; congruence. Qed.

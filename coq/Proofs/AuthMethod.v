(** C11, round 4: the method gate of [ensure].

    "State-changing endpoints additionally accept only their declared method
    and a JSON content type."  A method is a byte string (net/http hands the
    token of the request line to the handlers as it was sent: [post], [Post],
    [pOST], [POSTX] are four methods, none of them [POST]); [ensure] compares
    it with the declared one byte by byte, and decides "state-changing" by
    [modifiesData] on the method as sent.  The two decisions agree only
    because the comparison is exact: the theorems below are about
    [ensure_gen eqb_bytes]; [ensure_gen equal_fold] is refuted.

    The handler is told whether [globalContext.controlLock] is held while it
    runs ([ensure_gen], [apply_chain_l] of Model/AuthHttp.v). *)
From AGH Require Import Base.Run Model.Session Model.AuthHttp Proofs.AuthHttp.
From stdpp Require Import gmap.
Local Open Scope Z_scope.

Lemma modifies_data_iff m : modifies_data m = true <-> m = str_POST \/ m = str_PUT \/ m = str_DELETE.
Proof. unfold modifies_data. rewrite !orb_true_iff, !eqb_bytes_eq. tauto. Qed.

Section Gate.
Context {A R : Type}.
Notation H := (handler A R).

(** [blocks] / [runs] for a wrapper whose argument is told about the lock. *)
Definition blocks_l (W : (bool -> H) -> H) (e : env) (w : world A) (r : request) (w' : world A) (a : answer R) : Prop :=
  (forall hl, W hl e w r = (w', a)) /\ w_app w' = w_app w /\ not_handler a.

Definition runs_l (W : (bool -> H) -> H) (e : env) (w : world A) (r : request) (w' : world A) (locked : bool) : Prop :=
  (forall hl, W hl e w r = hl locked e w' r) /\ w_app w' = w_app w.

(** ** [ensure] alone: an exact trichotomy *)
Theorem ensure_gate m e (w : world A) r :
  (r_method r <> m /\ blocks_l (ensure_gen eqb_bytes m) e w r w (AStatus 405)) \/
  (r_method r = m /\ modifies_data m = true /\ ctype_ok r = false /\
     blocks_l (ensure_gen eqb_bytes m) e w r w (AStatus 415)) \/
  (r_method r = m /\ (modifies_data m = true -> ctype_ok r = true) /\
     runs_l (ensure_gen eqb_bytes m) e w r w (modifies_data m)).
Proof.
  unfold blocks_l, runs_l, ensure_gen.
  destruct (eqb_bytes (r_method r) m) eqn:E; cbn [negb].
  - apply eqb_bytes_eq in E. rewrite E. right.
    destruct (modifies_data m) eqn:Em.
    + destruct (ctype_ok r) eqn:Ec; cbn [negb]; [right|left]; repeat split; auto.
    + right. repeat split; auto. discriminate.
  - left. split; [|repeat split; auto].
    intros Heq. apply eqb_bytes_eq in Heq. congruence.
Qed.

(** Every method string other than the declared one is answered 405 and the
    handler does not run: case variants, prefixes, extensions, the empty
    string, anything. *)
Corollary ensure_other_method_405 m e (w : world A) r :
  r_method r <> m -> blocks (R := R) (ensure m) e w r w (AStatus 405).
Proof.
  intros Hne. destruct (ensure_gate m e w r) as [[_ (Hb & Ha & Hn)]|[[? _]|[? _]]]; try congruence.
  repeat split; auto. intros h. apply (Hb (fun _ => h)).
Qed.

(** ** The flagged chains and the plain ones *)

Lemma apply_wrapper_ext x (h h' : H) :
  (forall e w r, h e w r = h' e w r) -> forall e w r, apply_wrapper x h e w r = apply_wrapper x h' e w r.
Proof.
  intros E e w r. destruct x; cbn [apply_wrapper]; auto.
  - unfold post_install. destruct (e_first_run e && _ && _); auto. destruct (https_redirect e r); auto.
  - unfold pre_install. destruct (negb (e_first_run e)); auto.
  - unfold optional_auth.
    destruct (eqb_bytes (r_path r) str_login_html).
    + destruct (r_cookie r) as [|tok]; auto. destruct (e_auth_required e); auto.
      destruct (check_cookie e w tok) as [w' ok]. destruct ok; auto.
    + destruct (is_public (r_path r)); auto. destruct (e_auth_required e); auto.
      destruct (match r_cookie r with CTok tok => check_cookie e w tok | CNone => (w, basic_ok e r) end) as [w' ok].
      destruct ok; auto.
  - unfold ensure, ensure_gen. destruct (negb _); auto. destruct (modifies_data _); auto. destruct (negb _); auto.
Qed.

(** A handler that ignores the flag: the flagged chain is the plain one, so
    everything proved about [apply_chain] holds for [apply_chain_l]. *)
Lemma apply_chain_l_const ws (h : H) : forall b e w r,
  apply_chain_l ws (fun _ => h) b e w r = apply_chain ws h e w r.
Proof.
  induction ws as [|x ws IH]; intros b e w r; [reflexivity|].
  change (apply_chain_l (x :: ws) (fun _ => h) b) with (apply_wrapper_l x (apply_chain_l ws (fun _ => h)) b).
  change (apply_chain (x :: ws) h) with (apply_wrapper x (apply_chain ws h)).
  unfold apply_wrapper_l. destruct x; try (apply apply_wrapper_ext; intros; apply IH).
  cbn [apply_wrapper]. unfold ensure, ensure_gen.
  destruct (negb _); auto. destruct (modifies_data _); auto. destruct (negb _); auto.
Qed.

(** ** The chain of httpRegister *)

(** In general: the chain answers by itself, or runs the handler; when it
    runs it the method is the declared one, a modifying method came with a
    JSON content type (or no body and no content type), the control lock is
    held exactly for the modifying methods, and the request is authenticated
    or the path public. *)
Theorem chain_method_gate m e (w : world A) r :
  let W := fun hl : bool -> H => apply_chain_l (http_register_chain m) hl false in
  (exists w' a, blocks_l W e w r w' a /\ session_effect e w r w') \/
  (exists w', runs_l W e w r w' (modifies_data m) /\ session_effect e w r w' /\
     r_method r = m /\ (modifies_data m = true -> ctype_ok r = true) /\
     (e_auth_required e = true -> is_public (r_path r) = true \/ authenticated e (w_sess w) r = true)).
Proof.
  intros W.
  assert (HW : forall hl, W hl = post_install (optional_auth (gzip (ensure_gen eqb_bytes m hl)))) by reflexivity.
  destruct (post_install_cases (A := A) (R := R) e w r) as [(a & (Hb & Ha & Hn) & _)|[Hr _]].
  { left. exists w, a. split; [|left; reflexivity]. repeat split; auto. intros hl. rewrite HW. apply Hb. }
  destruct (optional_auth_cases (A := A) (R := R) e w r) as [(w' & a & (Hb & Ha & Hn) & Hs)|(w' & [Hr2 Ha] & Hs & Hwhy)].
  { left. exists w', a. split; auto. repeat split; auto. intros hl. rewrite HW, Hr. apply Hb. }
  destruct (ensure_gate m e w' r) as [[_ (Hb & _ & Hn)]|[(_ & _ & _ & (Hb & _ & Hn))|(Hm & Hc & (Hr3 & _))]].
  - left. exists w', (AStatus 405). split; auto. repeat split; auto.
    intros hl. rewrite HW, Hr, Hr2. unfold gzip. apply Hb.
  - left. exists w', (AStatus 415). split; auto. repeat split; auto.
    intros hl. rewrite HW, Hr, Hr2. unfold gzip. apply Hb.
  - right. exists w'. repeat split; auto.
    intros hl. rewrite HW, Hr, Hr2. unfold gzip. apply Hr3.
Qed.

(** Authentication does not mask the method gate.  [passes_auth]: the request
    is one that postInstall and optionalAuth hand on (no first run, no HTTPS
    server, not the login page, and authenticated / public / no user). *)
Definition passes_auth (e : env) (w : world A) (r : request) : Prop :=
  e_first_run e = false /\ e_https e = false /\ eqb_bytes (r_path r) str_login_html = false /\
  (e_auth_required e = true -> is_public (r_path r) = true \/ authenticated e (w_sess w) r = true).

Lemma passes_auth_runs e w r :
  passes_auth e w r ->
  exists w', (forall h : H, post_install (optional_auth h) e w r = h e w' r) /\
             w_app w' = w_app w /\ session_effect e w r w'.
Proof.
  intros (Hf & Hh & Hl & Hwhy). unfold post_install, https_redirect, optional_auth, session_effect.
  rewrite Hf, Hh, Hl. cbn [andb negb].
  destruct (is_public (r_path r)) eqn:Hp; [exists w; auto|].
  destruct (e_auth_required e) eqn:Hreq; [|exists w; auto].
  destruct (Hwhy eq_refl) as [?|Hauth]; [discriminate|].
  unfold authenticated, sess_after in *. destruct (r_cookie r) as [|tok].
  - rewrite Hauth. exists w. auto.
  - rewrite check_cookie_spec, Hauth. eexists. split; [reflexivity|]. cbn. auto.
Qed.

(** For such a request the answer of the chain is decided by the method and
    the content type alone, exactly: another method string => 405; the
    declared, modifying method without a JSON content type => 415; otherwise
    the handler runs, under the control lock iff the method modifies data. *)
Theorem chain_gate_exact m e (w : world A) r :
  passes_auth e w r ->
  let W := fun hl : bool -> H => apply_chain_l (http_register_chain m) hl false in
  exists w', session_effect e w r w' /\
    ((r_method r <> m /\ blocks_l W e w r w' (AStatus 405)) \/
     (r_method r = m /\ modifies_data m = true /\ ctype_ok r = false /\ blocks_l W e w r w' (AStatus 415)) \/
     (r_method r = m /\ (modifies_data m = true -> ctype_ok r = true) /\ runs_l W e w r w' (modifies_data m))).
Proof.
  intros Hp W.
  assert (HW : forall hl, W hl = post_install (optional_auth (gzip (ensure_gen eqb_bytes m hl)))) by reflexivity.
  destruct (passes_auth_runs e w r Hp) as (w' & Hr & Ha & Hs). exists w'. split; [exact Hs|].
  destruct (ensure_gate m e w' r) as [[Hne (Hb & _ & Hn)]|[(Hm & Hmd & Hc & (Hb & _ & Hn))|(Hm & Hc & (Hr3 & _))]].
  - left. split; auto. repeat split; auto. intros hl. rewrite HW, Hr. unfold gzip. apply Hb.
  - right. left. repeat split; auto. intros hl. rewrite HW, Hr. unfold gzip. apply Hb.
  - right. right. repeat split; auto. intros hl. rewrite HW, Hr. unfold gzip. apply Hr3.
Qed.

(** The plain chain: a method string other than the declared one, sent with
    valid credentials, is answered 405; the handler does not run. *)
Corollary chain_other_method_405 m e (w : world A) r :
  passes_auth e w r -> r_method r <> m ->
  exists w', blocks (R := R) (apply_chain (http_register_chain m)) e w r w' (AStatus 405) /\ session_effect e w r w'.
Proof.
  intros Hp Hne. destruct (chain_gate_exact m e w r Hp) as (w' & Hs & [[_ (Hb & Ha & Hn)]|[[? _]|[? _]]]); try congruence.
  exists w'. split; auto. repeat split; auto. intros h.
  rewrite <- (apply_chain_l_const (http_register_chain m) h false). apply Hb.
Qed.

(** In particular every case variant of the declared method. *)
Corollary chain_case_variant_405 m e (w : world A) r :
  passes_auth e w r -> equal_fold (r_method r) m = true -> r_method r <> m ->
  exists w', blocks (R := R) (apply_chain (http_register_chain m)) e w r w' (AStatus 405) /\ session_effect e w r w'.
Proof. intros Hp _ Hne. apply chain_other_method_405; auto. Qed.

End Gate.

(** ** The lenient comparison, refuted

    [ensure_gen equal_fold]: compare the method with [strings.EqualFold] and
    leave [modifiesData] on the raw spelling.  A request [post ... text/plain]
    with a valid cookie passes the method check of a POST route, is not
    classed as modifying, skips the content-type check and the control lock,
    and the handler runs. *)
Definition str_post : bytes := [112;111;115;116]%N.                       (* post *)
Definition str_Post : bytes := [80;111;115;116]%N.                        (* Post *)
Definition str_pOST : bytes := [112;79;83;84]%N.                          (* pOST *)
Definition str_POSTX : bytes := [80;79;83;84;88]%N.                       (* POSTX *)
Definition str_text_plain : bytes := [116;101;120;116;47;112;108;97;105;110]%N.   (* text/plain *)

Definition ex_req_m (m ct : bytes) : request :=
  {| r_method := m; r_path := ex_path; r_ctype := ct; r_clen := 7; r_cookie := ex_cookie;
     r_basic := BNone; r_tls := false; r_host_ok := true; r_hdrs := [] |}.

Definition slip_fold_chain {A R} (m : bytes) (hl : bool -> handler A R) : handler A R :=
  post_install (optional_auth (gzip (ensure_gen equal_fold m hl))).

Definition ex_handler_l : bool -> handler nat unit :=
  fun b _ w _ => ({| w_app := (if b then 2 else 1)%nat; w_sess := w_sess w |}, AHandler tt).

Example ensure_fold_refuted :
  let r := ex_req_m str_post str_text_plain in
  r_method r <> str_POST /\ equal_fold (r_method r) str_POST = true /\ ctype_ok r = false /\
  authenticated ex_env (w_sess ex_world) r = true /\
  (* the code: 405, the handler does not run *)
  snd (apply_chain_l (http_register_chain str_POST) ex_handler_l false ex_env ex_world r) = AStatus 405 /\
  (* the lenient comparison: the handler runs, with a text/plain body, outside the lock *)
  (forall (A R : Type) (hl : bool -> handler A R) e w, ensure_gen equal_fold str_POST hl e w r = hl false e w r) /\
  slip_fold_chain str_POST ex_handler_l ex_env ex_world r =
    ({| w_app := 1%nat; w_sess := w_sess ex_world |}, AHandler tt).
Proof.
  cbv zeta. split; [discriminate|]. split; [reflexivity|]. split; [reflexivity|].
  split; [vm_compute; reflexivity|]. split; [vm_compute; reflexivity|].
  split; [intros; reflexivity|]. vm_compute. reflexivity.
Qed.

(** Non-vacuity of [chain_gate_exact]: with a valid cookie, the declared
    method + JSON runs under the lock, the declared method + text/plain is
    415, and [post], [Post], [pOST], [POSTX], [GET], the empty string are 405;
    a GET route runs without the lock. *)
Example gate_premises_satisfiable :
  passes_auth ex_env ex_world (ex_req_m str_POST str_json) /\
  apply_chain_l (http_register_chain str_POST) ex_handler_l false ex_env ex_world (ex_req_m str_POST str_json) =
    ({| w_app := 2%nat; w_sess := w_sess ex_world |}, AHandler tt) /\
  snd (apply_chain_l (http_register_chain str_POST) ex_handler_l false ex_env ex_world (ex_req_m str_POST str_text_plain)) = AStatus 415 /\
  Forall (fun m => snd (apply_chain_l (http_register_chain str_POST) ex_handler_l false ex_env ex_world (ex_req_m m str_json)) = AStatus 405)
    [str_post; str_Post; str_pOST; str_POSTX; str_GET; []] /\
  apply_chain_l (http_register_chain str_GET) ex_handler_l false ex_env ex_world (ex_req_m str_GET str_text_plain) =
    ({| w_app := 1%nat; w_sess := w_sess ex_world |}, AHandler tt).
Proof.
  split; [repeat split; try reflexivity; intros _; right; vm_compute; reflexivity|].
  split; [vm_compute; reflexivity|]. split; [vm_compute; reflexivity|].
  split; [|vm_compute; reflexivity].
  repeat (constructor; [vm_compute; reflexivity|]). constructor.
Qed.

(** * The declared methods of the route table *)

(** [ensure] decides "state-changing" by
    [modifiesData] on the method string: POST, PUT, DELETE, exactly.  A route
    declared with any other spelling ([Post], [PATCH]) would be a
    state-changing route without the JSON gate and without the control lock
    (or one no browser can reach).  Every method-bound route of the table is
    declared with GET, POST, PUT or DELETE, so for the routes of the source
    "not GET" and "has the JSON gate and the lock" coincide
    (Proofs/AuthMethod.v [chain_gate_exact]). *)
Definition canonical_method (m : bytes) : bool := eqb_bytes m str_GET || modifies_data m.

Definition wrapper_method_ok (x : wrapper) : bool :=
  match x with WEnsure m => canonical_method m | _ => true end.

(** A pattern is a plain path: no method in it ("POST /x") and no host
    ("example.org/x").  With a method-qualified pattern the mux itself would
    answer 405 before any wrapper runs, and the method gate would not be
    [ensure]'s alone. *)
Definition pattern_plain (p : bytes) : bool :=
  match p with 47%N :: _ => forallb (fun c => negb (c =? 32)%N) p | _ => false end.

Definition route_method_ok (rt : route) : bool :=
  pattern_plain (rt_pattern rt) &&
  match rt_kind rt with
  | ViaRegister m => eqb_bytes m [] || canonical_method m
  | Direct ws => forallb wrapper_method_ok ws
  | Unresolved _ => false
  end.

Lemma canonical_method_gate m :
  canonical_method m = true -> (modifies_data m = false <-> m = str_GET).
Proof.
  unfold canonical_method. rewrite orb_true_iff, eqb_bytes_eq. intros [->|H].
  - split; reflexivity.
  - rewrite H. split; [discriminate|]. intros ->. discriminate.
Qed.

(** clientsContainer.Init and the clients.runtime_sources switches (C04,
    round 4): the switches (whois, arp, rdns, dhcp, hosts) decide where
    RUNTIME client information comes from; they do not take part in matching a
    request to a PERSISTENT client.  In particular precedence level 4 (the MAC
    of the DHCP lease of the request's address) asks the DHCP server handed to
    Init whatever the dhcp switch says. *)
From Coq Require Import ZArith.
From AGH Require Import Base.Run Model.ClientIndex Model.ClientConfig.
From AGH Require Import Proofs.ClientIndex Proofs.ClientConfig Proofs.ClientConfigLoad.
Local Open Scope N_scope.

(** What Init loads does not depend on the switches. *)
Lemma sources_do_not_affect_load cfg known s s' server hh hh' objs :
  fst (init cfg known s server hh objs) = fst (init cfg known s' server hh' objs).
Proof. reflexivity. Qed.

(** The storage's lease oracle is the server's, for every setting of the switches. *)
Lemma init_dhcp_is_server s server hh a : sc_dhcp (init_conf s server hh) a = server a.
Proof. reflexivity. Qed.

(** The client a request is attributed to, its effective settings and the
    nil-schedule observation are the same under any two settings. *)
Lemma sources_do_not_affect_persistent_lookup s s' server hh hh' r id a :
  container_lookup (init_conf s server hh) r id a = container_lookup (init_conf s' server hh') r id a.
Proof. reflexivity. Qed.

Lemma sources_do_not_affect_settings s s' server hh hh' r id a g :
  container_acf (init_conf s server hh) r id a g = container_acf (init_conf s' server hh') r id a g.
Proof. reflexivity. Qed.

(** Whatever the switches, a loaded container attributes by the full
    precedence, with the SERVER's leases at level 4. *)
Lemma init_resolves cfg known s server hh objs r sc id a :
  init cfg known s server hh objs = (LOk r, sc) ->
  resolves (fst r) server id a (container_lookup sc r id a).
Proof.
  unfold init. intros E. injection E as El <-.
  apply load_good in El. unfold container_lookup. cbn [sc_dhcp init_conf].
  apply precedence. exact (g_inv _ _ _ El).
Qed.

(** Level 4 is reached under every setting: a request without a registered
    ClientID, from an address that is nobody's identifier and lies in nobody's
    CIDR, whose lease carries the MAC of a client, is that client's. *)
Lemma mac_client_found_any_sources s server hh r id a m u :
  Inv (fst r) ->
  no_cid (fst r) id -> no_ip (fst r) a -> no_cidr (fst r) a ->
  server a = Some m -> owner_of (fst r) c_macs m u ->
  container_lookup (init_conf s server hh) r id a = Some u.
Proof.
  intros HI Nc Ni Nn Hd Ho. unfold container_lookup. cbn [sc_dhcp init_conf].
  apply (resolves_functional (fst r) server id a HI).
  - apply precedence. exact HI.
  - eapply RMac; eassumption.
Qed.

(** Premises satisfiable: a file with one client identified by a MAC only,
    loaded with the dhcp switch OFF (and every other switch off): the request
    from the leased address is the client's and gets its own settings. *)
Definition ex_kid : cobj :=
  {| o_name := [107;105;100]; o_ids := [PMac [170;187;204;221;238;255]]; o_tags := []; o_upstreams := []; o_uid := 3;
     o_ss := zero_ss; o_blocked := None; o_cache_size := 0; o_cache_enabled := false;
     o_use_global_settings := false; o_filtering := true; o_parental := true; o_safebrowsing := true;
     o_use_global_blocked := true; o_ignore_qlog := false; o_ignore_stats := false |}.
Definition all_off : sources :=
  {| src_whois := false; src_arp := false; src_rdns := false; src_dhcp := false; src_hosts := false |}.
Definition ex_server (a : addr) : option bytes :=
  if addr_eqb a ([192;168;1;50], []) then Some [170;187;204;221;238;255] else None.
Definition ex_global : settings :=
  {| s_client_name := []; s_filtering := false; s_safesearch := false; s_safebrowsing := false;
     s_parental := false; s_blocked := None; s_tags := []; s_services := [] |}.

Lemma example_mac_client_sources_off :
  exists r sc,
    init ex_conf_cfg [] all_off ex_server false [(0, ex_kid)] = (LOk r, sc) /\
    sc_runtime_dhcp sc = false /\
    container_lookup sc r [] ([192;168;1;50], []) = Some 3 /\
    (exists st, container_acf sc r [] ([192;168;1;50], []) ex_global = Some st /\
                s_client_name st = [107;105;100] /\ s_parental st = true) /\
    container_lookup sc r [] ([192;168;1;51], []) = None /\
    no_cid (fst r) [] /\ no_ip (fst r) ([192;168;1;50], []) /\ no_cidr (fst r) ([192;168;1;50], []).
Proof.
  destruct (init ex_conf_cfg [] all_off ex_server false [(0, ex_kid)]) as [l sc] eqn:E.
  vm_compute in E. injection E as <- <-.
  eexists. eexists. split; [reflexivity|]. split; [reflexivity|]. split; [vm_compute; reflexivity|].
  split; [eexists; split; [vm_compute; reflexivity|split; reflexivity]|].
  split; [vm_compute; reflexivity|].
  split; [|split].
  - intros u (c & Hc & Hin). cbn in Hc.
    destruct (u =? 3) eqn:Eu; cbn in Hc; [|discriminate].
    injection Hc as <-. cbn in Hin. exact Hin.
  - intros u (c & Hc & Hin). cbn in Hc.
    destruct (u =? 3) eqn:Eu; cbn in Hc; [|discriminate].
    injection Hc as <-. cbn in Hin. exact Hin.
  - intros p u (c & Hc & Hin). cbn in Hc.
    destruct (u =? 3) eqn:Eu; cbn in Hc; [|discriminate].
    injection Hc as <-. cbn in Hin. destruct Hin.
Qed.

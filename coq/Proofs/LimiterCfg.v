(** C12, round 3: the limiter as home.go initUsers builds it from the
    configuration ([auth_attempts], [block_auth_min]).  Which configurations
    have a limiter, with which parameters; the blocking theorem for every
    configuration for which the code creates one; what the others mean. *)
From AGH Require Import Base.Run Model.RateLimit Proofs.RateLimit.
From stdpp Require Import gmap.
From Coq Require Import Lia.
Local Open Scope Z_scope.

Lemma run_logins_opt_some c s h : run_logins_opt (Some c) s h = run_logins c s h.
Proof.
  revert s; induction h as [|e h IH]; intros s; cbn [run_logins_opt run_logins login_opt]; [reflexivity|].
  destruct (login c e s) as [s1 o]. rewrite IH. reflexivity.
Qed.

Lemma cond_code_iff cfg : cond_code cfg = true <-> 0 < ac_attempts cfg /\ 0 < ac_block_min cfg.
Proof. unfold cond_code. rewrite andb_true_iff, !Z.ltb_lt. reflexivity. Qed.

(** The code creates a limiter exactly when both settings are positive; its
    parameters are the configured limit, the one-minute window and the
    configured number of minutes (as int64 nanoseconds). *)
Theorem mk_limiter_present cfg :
  0 < ac_attempts cfg -> 0 < ac_block_min cfg ->
  mk_limiter cfg = Some {| rl_ttl := minute_ns; rl_block := block_dur cfg; rl_max := Z.to_N (ac_attempts cfg) |} /\
  (1 <= Z.to_N (ac_attempts cfg))%N.
Proof.
  intros Ha Hb. unfold mk_limiter, mk_limiter_with.
  rewrite (proj2 (cond_code_iff cfg)) by auto. split; [reflexivity|lia].
Qed.

(** Throttling is off, by design, exactly for [auth_attempts: 0] or
    [block_auth_min: 0] (both are unsigned). *)
Theorem mk_limiter_absent_iff cfg :
  mk_limiter cfg = None <-> ac_attempts cfg <= 0 \/ ac_block_min cfg <= 0.
Proof.
  unfold mk_limiter, mk_limiter_with. destruct (cond_code cfg) eqn:E.
  - apply cond_code_iff in E. split; [discriminate|lia].
  - split; [intros _|reflexivity].
    destruct (Z.ltb_spec 0 (ac_attempts cfg)); [|lia].
    destruct (Z.ltb_spec 0 (ac_block_min cfg)); [|lia].
    exfalso. assert (cond_code cfg = true) by (apply cond_code_iff; lia). congruence.
Qed.

Lemma wrap64_small z : 0 <= z < 2 ^ 63 -> wrap64 z = z.
Proof.
  unfold wrap64. replace (2 ^ 63) with 9223372036854775808 by reflexivity.
  replace (2 ^ 64) with 18446744073709551616 by reflexivity.
  intros H. rewrite Z.mod_small by lia. lia.
Qed.

(** Up to 153722867 minutes (292 years) nothing wraps: the block lasts the
    configured number of minutes, which is at least the one-minute window. *)
Theorem block_dur_exact cfg :
  0 <= ac_block_min cfg <= 153722867 -> block_dur cfg = ac_block_min cfg * minute_ns.
Proof.
  intros H. unfold block_dur, minute_ns.
  assert (H63 : 2 ^ 63 = 9223372036854775808) by reflexivity.
  rewrite (wrap64_small (ac_block_min cfg)) by lia. apply wrap64_small. lia.
Qed.

Corollary block_dur_covers_window cfg :
  1 <= ac_block_min cfg <= 153722867 -> minute_ns <= block_dur cfg.
Proof. intros H. rewrite block_dur_exact by lia. unfold minute_ns. lia. Qed.

(** [C12_block_after_limit] for every configuration for which the code's
    condition creates a limiter, over the login path as it runs with
    [Auth.rateLimiter] set by initUsers. *)
Theorem block_after_limit_configured cfg a :
  0 < ac_attempts cfg -> 0 < ac_block_min cfg ->
  exists c, mk_limiter cfg = Some c /\
    rl_max c = Z.to_N (ac_attempts cfg) /\ rl_ttl c = minute_ns /\ rl_block c = block_dur cfg /\
    forall s0 t0 f1 F' fk G x,
      wf_from t0 ((f1 :: F') ++ G ++ [x]) ->
      burst a (N.to_nat (rl_max c)) (f1 :: F') fk ->
      a_addr f1 = a ->
      ~ live (a_now f1) s0 a ->
      Forall (fun e => a_addr e = a -> a_now e <= a_now2 f1 + rl_ttl c) F' ->
      a_addr x = a ->
      a_now x < a_now2 fk + rl_block c ->
      let s := fst (run_logins_opt (mk_limiter cfg) s0 ((f1 :: F') ++ G)) in
      exists lft, 0 < lft /\
        login_opt (mk_limiter cfg) x s = (rl_cleanup (a_now x) s, L429 lft) /\
        rl_cleanup (a_now x) s !! a = s !! a /\
        fst (run_logins_opt (mk_limiter cfg) s0 (f1 :: F')) !! a =
          Some {| fa_until := a_now2 fk + rl_block c; fa_num := rl_max c |}.
Proof.
  intros Ha Hb. destruct (mk_limiter_present cfg Ha Hb) as [Hmk Hmax].
  eexists. split; [exact Hmk|]. cbn [rl_max rl_ttl rl_block]. repeat split.
  intros s0 t0 f1 F' fk G x Hwf Hburst Hf1 Hlive Hwin Hx Hbefore.
  rewrite Hmk, !run_logins_opt_some. cbn [login_opt].
  exact (block_after_limit {| rl_ttl := minute_ns; rl_block := block_dur cfg; rl_max := Z.to_N (ac_attempts cfg) |}
           a Hmax s0 t0 f1 F' fk G x Hwf Hburst Hf1 Hlive Hwin Hx Hbefore).
Qed.

(** Round 4: the block period to the nanosecond, for every configuration for
    which the code creates a limiter ([block_period_exact] over the login path
    with [Auth.rateLimiter] as initUsers sets it): after the burst and any
    attempts of other addresses, an attempt of [a] is rejected iff its check
    reads an instant strictly before [a_now2 fk + block_dur cfg]. *)
Theorem block_period_exact_configured cfg a :
  0 < ac_attempts cfg -> 0 < ac_block_min cfg ->
  forall s0 t0 f1 F' fk G x,
    wf_from t0 ((f1 :: F') ++ G ++ [x]) ->
    burst a (Z.to_nat (ac_attempts cfg)) (f1 :: F') fk ->
    a_addr f1 = a ->
    ~ live (a_now f1) s0 a ->
    Forall (fun e => a_addr e = a -> a_now e <= a_now2 f1 + minute_ns) F' ->
    Forall (fun e => a_addr e <> a) G ->
    a_addr x = a ->
    let s := fst (run_logins_opt (mk_limiter cfg) s0 ((f1 :: F') ++ G)) in
    evaluated (snd (login_opt (mk_limiter cfg) x s)) = false <-> a_now x < a_now2 fk + block_dur cfg.
Proof.
  intros Ha Hb. destruct (mk_limiter_present cfg Ha Hb) as [Hmk Hmax].
  intros s0 t0 f1 F' fk G x Hwf Hburst Hf1 Hlive Hwin HG Hx.
  rewrite Hmk, !run_logins_opt_some. cbn [login_opt].
  set (c := {| rl_ttl := minute_ns; rl_block := block_dur cfg; rl_max := Z.to_N (ac_attempts cfg) |}).
  assert (Hb' : burst a (N.to_nat (rl_max c)) (f1 :: F') fk).
  { cbn [rl_max c]. rewrite Z_N_nat. exact Hburst. }
  exact (block_period_exact c a Hmax s0 t0 f1 F' fk G x Hwf Hb' Hf1 Hlive Hwin HG Hx).
Qed.

(** Without a limiter ([auth_attempts: 0] or [block_auth_min: 0]) every
    attempt is evaluated and nothing is recorded. *)
Theorem no_limiter_unthrottled s h :
  run_logins_opt None s h = (s, map (fun e => if a_ok e then L200 else L403) h).
Proof.
  induction h as [|e h IH]; cbn [run_logins_opt login_opt map]; [reflexivity|].
  rewrite IH. reflexivity.
Qed.

Corollary disabled_config_unthrottled cfg s h :
  ac_attempts cfg <= 0 \/ ac_block_min cfg <= 0 ->
  Forall (fun o => evaluated o = true) (snd (run_logins_opt (mk_limiter cfg) s h)).
Proof.
  intros H. rewrite (proj2 (mk_limiter_absent_iff cfg) H), no_limiter_unthrottled. cbn [snd].
  induction h as [|e h IH]; cbn [map]; constructor; [destruct (a_ok e); reflexivity|exact IH].
Qed.

(** The slip: require the block to OUTLAST the window ([blockDur >
    failedAuthTTL]).  [block_auth_min: 1] then has no limiter, and the
    history that the code answers 403, 403, 429, 429 is evaluated throughout. *)
Definition cond_slip (cfg : auth_cfg) : bool := (0 <? ac_attempts cfg) && (minute_ns <? block_dur cfg).

Definition slip_cfg : auth_cfg := {| ac_attempts := 2; ac_block_min := 1 |}.
Definition slip_att (t : Z) (ok : bool) : att :=
  {| a_now := t * 1000000000; a_now2 := t * 1000000000; a_addr := [49]%N; a_hdr := None; a_trusted := false; a_ok := ok |}.
Definition slip_history : list att := [slip_att 0 false; slip_att 1 false; slip_att 2 false; slip_att 3 true].

Example limiter_condition_slip_refuted :
  cond_code slip_cfg = true /\ mk_limiter_with cond_slip slip_cfg = None /\
  snd (run_logins_opt (mk_limiter_with cond_slip slip_cfg) ∅ slip_history) = [L403; L403; L403; L200] /\
  snd (run_logins_opt (mk_limiter slip_cfg) ∅ slip_history) =
    [L403; L403; L429 (59 * 1000000000); L429 (58 * 1000000000)].
Proof. vm_compute. repeat split. Qed.

(** Premises satisfiable: the default configuration (5 attempts, 15 minutes)
    and the smallest one (1, 1); a disabled one. *)
Example limiter_premises_satisfiable :
  mk_limiter {| ac_attempts := 5; ac_block_min := 15 |} =
    Some {| rl_ttl := 60000000000; rl_block := 900000000000; rl_max := 5 |} /\
  mk_limiter {| ac_attempts := 1; ac_block_min := 1 |} =
    Some {| rl_ttl := 60000000000; rl_block := 60000000000; rl_max := 1 |} /\
  mk_limiter {| ac_attempts := 0; ac_block_min := 15 |} = None /\
  mk_limiter {| ac_attempts := 5; ac_block_min := 0 |} = None /\
  (* 2^64-1 minutes: the conversion wraps; the limiter exists with a block of minus one minute *)
  mk_limiter {| ac_attempts := 5; ac_block_min := 18446744073709551615 |} =
    Some {| rl_ttl := 60000000000; rl_block := -60000000000; rl_max := 5 |}.
Proof. vm_compute. repeat split. Qed.

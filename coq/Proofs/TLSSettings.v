(** C16 (round 4): POST /control/tls/configure keeps what the frontend cannot
    set, in particular the strict server-name check.  Model: Model/TLSSettings.v. *)
From Coq Require Import List NArith Bool Lia.
From AGH Require Import Base.Run Base.Bytes Model.TLSSettings.
Import ListNotations.
Local Open Scope N_scope.

(** The fields that are not accepted from the frontend. *)
Record private_fields := {
  pf_strict : bool; pf_ciphers : list N; pf_allow_unenc_doh : bool;
  pf_dnscrypt_file : N; pf_port_dnscrypt : N;
}.

Definition private_of (s : tls_settings) : private_fields :=
  {| pf_strict := t_strict s; pf_ciphers := t_ciphers s; pf_allow_unenc_doh := t_allow_unenc_doh s;
     pf_dnscrypt_file := t_dnscrypt_file s; pf_port_dnscrypt := t_port_dnscrypt s |}.

(** The fields that are. *)
Record public_fields := {
  pb_enabled : bool; pb_server_name : bytes; pb_force_https : bool;
  pb_port_https : N; pb_port_dot : N; pb_port_doq : N;
  pb_cert_chain : N; pb_private_key : N; pb_cert_path : N; pb_key_path : N;
}.

Definition public_of (s : tls_settings) : public_fields :=
  {| pb_enabled := t_enabled s; pb_server_name := t_server_name s; pb_force_https := t_force_https s;
     pb_port_https := t_port_https s; pb_port_dot := t_port_dot s; pb_port_doq := t_port_doq s;
     pb_cert_chain := t_cert_chain s; pb_private_key := t_private_key s;
     pb_cert_path := t_cert_path s; pb_key_path := t_key_path s |}.

Definition outcome_of ks m r : outcome := snd (fst (configure ks m r)).
Definition changed_of ks m r : bool := snd (configure ks m r).

Definition sets (o : outcome) : bool :=
  match o with OutSet | OutSetThenError => true | _ => false end.

(** * One call *)

Lemma configure_cases ks m r :
  (sets (outcome_of ks m r) = false /\ configure_mgr ks m r = m /\ changed_of ks m r = false) \/
  (sets (outcome_of ks m r) = true /\
   m_conf (configure_mgr ks m r) = set_private ks (m_conf m) (with_saved_key m r) /\
   m_web_port (configure_mgr ks m r) = m_web_port m /\
   m_dns_port (configure_mgr ks m r) = m_dns_port m /\
   unmarshal_ok (r_setts r) = true /\ validate_ok m r (with_saved_key m r) = true /\
   load_ok r (with_saved_key m r) = true).
Proof.
  unfold outcome_of, changed_of, configure_mgr, configure.
  destruct (unmarshal_ok (r_setts r)); cbn [negb]; [|left; auto].
  destruct (validate_ok m r (with_saved_key m r)); cbn [negb]; [|left; auto].
  destruct (load_ok r (with_saved_key m r)); cbn [negb]; [|left; auto].
  right. destruct (t_enabled _ && negb _); cbn; auto 10.
Qed.

(** Whatever the request says and however it ends, the private fields stay. *)
Theorem configure_keeps_private m r :
  private_of (m_conf (configure_mgr true m r)) = private_of (m_conf m).
Proof.
  destruct (configure_cases true m r) as [(_ & -> & _)|(_ & -> & _)]; reflexivity.
Qed.

(** A request that is not accepted changes nothing at all. *)
Theorem configure_rejected_unchanged ks m r :
  sets (outcome_of ks m r) = false -> configure_mgr ks m r = m /\ changed_of ks m r = false.
Proof.
  intros H. destruct (configure_cases ks m r) as [(_ & H1 & H2)|(H1 & _)]; [auto|congruence].
Qed.

(** An accepted request sets exactly the public fields, the private key being
    the saved one when the frontend says it did not send it. *)
Theorem configure_takes_public ks m r :
  sets (outcome_of ks m r) = true ->
  public_of (m_conf (configure_mgr ks m r)) = public_of (with_saved_key m r).
Proof.
  intros H. destruct (configure_cases ks m r) as [(H1 & _)|(_ & -> & _)]; [congruence|].
  reflexivity.
Qed.

(** ... where the saved key is the one in force, everything else the request's. *)
Lemma with_saved_key_public m r :
  public_of (with_saved_key m r) =
  {| pb_enabled := t_enabled (r_setts r); pb_server_name := t_server_name (r_setts r);
     pb_force_https := t_force_https (r_setts r); pb_port_https := t_port_https (r_setts r);
     pb_port_dot := t_port_dot (r_setts r); pb_port_doq := t_port_doq (r_setts r);
     pb_cert_chain := t_cert_chain (r_setts r);
     pb_private_key := if r_key_saved r then t_private_key (m_conf m) else t_private_key (r_setts r);
     pb_cert_path := t_cert_path (r_setts r); pb_key_path := t_key_path (r_setts r) |}.
Proof. unfold with_saved_key. destruct (r_key_saved r); reflexivity. Qed.

(** * Any number of calls *)

Lemma run_configure_snoc ks m rs r :
  run_configure ks m (rs ++ [r]) = configure_mgr ks (run_configure ks m rs) r.
Proof. unfold run_configure. rewrite fold_left_app. reflexivity. Qed.

Theorem configure_run_keeps_private m rs :
  private_of (m_conf (run_configure true m rs)) = private_of (m_conf m).
Proof.
  induction rs as [|r rs IH] using rev_ind; [reflexivity|].
  rewrite run_configure_snoc, configure_keeps_private. exact IH.
Qed.

Corollary configure_run_keeps_strict m rs :
  t_strict (m_conf (run_configure true m rs)) = t_strict (m_conf m).
Proof. exact (f_equal pf_strict (configure_run_keeps_private m rs)). Qed.

(** What the DNS server is handed after any number of calls: strict exactly
    when encryption is on and the configuration file said so. *)
Theorem strict_handed_over m rs :
  option_map snd (dns_tls (m_conf (run_configure true m rs))) =
  if t_enabled (m_conf (run_configure true m rs)) then Some (t_strict (m_conf m)) else None.
Proof.
  unfold dns_tls. rewrite <- (configure_run_keeps_strict m rs).
  destruct (t_enabled _); reflexivity.
Qed.

(** * Saving what is in force is a no-op *)

Lemma eqb_list_N_refl l : eqb_list_N l l = true.
Proof.
  unfold eqb_list_N. induction l as [|x l IH]; cbn; [reflexivity|].
  rewrite N.eqb_refl, IH. reflexivity.
Qed.

Lemma eqb_settings_refl s : eqb_settings s s = true.
Proof.
  unfold eqb_settings.
  rewrite !Bool.eqb_reflx, !N.eqb_refl, eqb_bytes_refl, eqb_list_N_refl. reflexivity.
Qed.

(** The request the frontend builds from the settings in force: the public
    fields as they are; the json:"-" fields absent. *)
Definition resend (m : mgr) (avail pair_ok : bool) : tls_req :=
  {| r_setts := set_private false
                  {| t_enabled := false; t_server_name := []; t_force_https := false; t_port_https := 0;
                     t_port_dot := 0; t_port_doq := 0; t_port_dnscrypt := t_port_dnscrypt (m_conf m);
                     t_dnscrypt_file := t_dnscrypt_file (m_conf m);
                     t_allow_unenc_doh := t_allow_unenc_doh (m_conf m);
                     t_cert_chain := 0; t_private_key := 0; t_cert_path := 0; t_key_path := 0;
                     t_ciphers := []; t_strict := false |}
                  {| t_enabled := t_enabled (m_conf m); t_server_name := t_server_name (m_conf m);
                     t_force_https := t_force_https (m_conf m); t_port_https := t_port_https (m_conf m);
                     t_port_dot := t_port_dot (m_conf m); t_port_doq := t_port_doq (m_conf m);
                     t_port_dnscrypt := 0; t_dnscrypt_file := 0; t_allow_unenc_doh := false;
                     t_cert_chain := t_cert_chain (m_conf m); t_private_key := t_private_key (m_conf m);
                     t_cert_path := t_cert_path (m_conf m); t_key_path := t_key_path (m_conf m);
                     t_ciphers := []; t_strict := false |};
     r_key_saved := false; r_serve_plain := None; r_avail := avail; r_pair_ok := pair_ok |}.

Theorem resend_is_noop m avail pair_ok :
  m_conf (configure_mgr true m (resend m avail pair_ok)) = m_conf m /\
  changed_of true m (resend m avail pair_ok) = false.
Proof.
  destruct (configure_cases true m (resend m avail pair_ok)) as [(_ & -> & ->)|(_ & E & _)]; [auto|].
  assert (Es : set_private true (m_conf m) (with_saved_key m (resend m avail pair_ok)) = m_conf m).
  { destruct m as [c sp wp dp]. destruct c. reflexivity. }
  split; [rewrite E; exact Es|].
  unfold changed_of, configure.
  destruct (unmarshal_ok _); cbn [negb]; [|reflexivity].
  destruct (validate_ok _ _ _); cbn [negb]; [|reflexivity].
  destruct (load_ok _ _); cbn [negb]; [|reflexivity].
  rewrite Es, eqb_settings_refl. destruct (t_enabled _ && negb _); reflexivity.
Qed.

(** * Witnesses *)

Definition w_name : bytes := [100;110;115;46;116;101;115;116].
Definition w_conf : tls_settings :=
  {| t_enabled := true; t_server_name := w_name; t_force_https := false; t_port_https := 0;
     t_port_dot := 853; t_port_doq := 0; t_port_dnscrypt := 0; t_dnscrypt_file := 3;
     t_allow_unenc_doh := true; t_cert_chain := 0; t_private_key := 0; t_cert_path := 1;
     t_key_path := 2; t_ciphers := [7]; t_strict := true |}.
Definition w_mgr : mgr := {| m_conf := w_conf; m_serve_plain := true; m_web_port := 3000; m_dns_port := 53 |}.

(** The tree before the fix: saving the settings in force switches the
    strict check off, and reports a change where there is none. *)
Theorem strict_lost_without_keep_refuted :
  exists m r,
    t_strict (m_conf m) = true /\ sets (outcome_of false m r) = true /\
    r = resend m true true /\
    t_strict (m_conf (configure_mgr false m r)) = false /\
    option_map snd (dns_tls (m_conf (configure_mgr false m r))) = Some false /\
    changed_of false m r = true.
Proof. exists w_mgr, (resend w_mgr true true). vm_compute. auto 10. Qed.

(** The theorems above are not vacuous: an accepted request that changes the
    public fields and tries to set private ones. *)
Example configure_example :
  let r := {| r_setts := {| t_enabled := true; t_server_name := [120]; t_force_https := true;
                            t_port_https := 0; t_port_dot := 8853; t_port_doq := 8853;
                            t_port_dnscrypt := 5443; t_dnscrypt_file := 9; t_allow_unenc_doh := false;
                            t_cert_chain := 0; t_private_key := 0; t_cert_path := 1; t_key_path := 2;
                            t_ciphers := []; t_strict := false |};
              r_key_saved := false; r_serve_plain := Some false; r_avail := true; r_pair_ok := true |} in
  outcome_of true w_mgr r = OutSet /\ changed_of true w_mgr r = true /\
  private_of (m_conf (configure_mgr true w_mgr r)) = private_of w_conf /\
  t_port_dot (m_conf (configure_mgr true w_mgr r)) = 8853 /\
  m_serve_plain (configure_mgr true w_mgr r) = false /\
  dns_tls (m_conf (configure_mgr true w_mgr r)) = Some ([120], true).
Proof. vm_compute. auto 10. Qed.

Example configure_rejections :
  outcome_of true w_mgr {| r_setts := set_private false w_conf
                             {| t_enabled := true; t_server_name := []; t_force_https := false;
                                t_port_https := 0; t_port_dot := 3000; t_port_doq := 0; t_port_dnscrypt := 0;
                                t_dnscrypt_file := 0; t_allow_unenc_doh := false; t_cert_chain := 0;
                                t_private_key := 0; t_cert_path := 1; t_key_path := 2; t_ciphers := [];
                                t_strict := false |};
                           r_key_saved := false; r_serve_plain := None; r_avail := true; r_pair_ok := true |}
    = OutBadRequest /\
  outcome_of true w_mgr (resend w_mgr true false) = OutLoadFailed.
Proof. vm_compute. auto. Qed.

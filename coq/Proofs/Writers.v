(** C14: every file-modifying call in the anchored files is rename-based or a
    listed exception.  Reflective: the table is regenerated from the source on
    every run, these proofs are re-checked against it. *)
From Coq Require Import List String NArith Bool.
From AGH Require Import Model.Writers Gen.Writers.
Import ListNotations.
Local Open Scope string_scope.

Lemma all_writers_ok : forallb writer_ok writers = true.
Proof. vm_compute. reflexivity. Qed.

Lemma writers_classified :
  forall w, In w writers -> rename_based w = true \/ excepted w = true \/ other_file w = true.
Proof.
  intros w Hw. pose proof (proj1 (forallb_forall _ _) all_writers_ok w Hw) as H.
  unfold writer_ok in H. apply orb_prop in H. destruct H as [H|H]; [|auto].
  apply orb_prop in H. tauto.
Qed.

Lemma writers_counts : counts_ok writers = true.
Proof. vm_compute. reflexivity. Qed.

(** nothing the scanner could not resolve *)
Lemma writers_resolved :
  forallb (fun w => match w_kind w with KUnresolved => false | _ => true end) writers = true.
Proof. vm_compute. reflexivity. Qed.

Lemma expected_sites_present : sites_present writers = true.
Proof. vm_compute. reflexivity. Qed.

(** The judge is not vacuous: an in-place writer in writeDB would be rejected. *)
Lemma writer_ok_rejects_writefile :
  writer_ok (mkw "internal/dhcpd/db.go" "writeDB" "os.WriteFile" KWriteFile 189%N) = false.
Proof. vm_compute. reflexivity. Qed.

(** Round 8 (P): updater.copySupportingFiles copies package entries over files
    of the working directory IN PLACE (copyFile = os.WriteFile, the raw row
    excused above).  The working directory holds the live configuration file:
    the copy must never have it as its destination.  Pinned on the source: the
    skip condition of the loop is nothing but a disjunction of comparisons of
    the base name with string literals, and "AdGuardHome.yaml" is one of them
    (the lease database and the list files live below data/, out of reach of a
    base name joined to the working directory). *)
Lemma copy_skips_protect_config :
  copy_skip_pure = true /\ existsb (String.eqb "AdGuardHome.yaml") copy_skip_names = true.
Proof. vm_compute. split; reflexivity. Qed.

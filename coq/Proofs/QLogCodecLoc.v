(** C07 proofs, part 3: where readJSONValue lands on a line json.Marshal wrote.

    [read_json_value line p] cuts the text after the FIRST occurrence of the
    pattern (quote KEY quote colon quote) anywhere in the line.  On [encode e] that first
    occurrence is the top-level field KEY itself (IP, QH, CID), whatever the
    other values hold: inside an escaped string every quote byte is preceded
    by a backslash, so the pattern (quote, upper-case letters, quote, colon,
    quote) cannot start inside a string value, cannot start at the closing
    quote of a value (a comma or a closing bracket follows), and a key of
    another name differs before its closing quote.  When the CID field is
    omitted the pattern occurs nowhere in the line and the value read is empty
    (this needs the numbers of a rewrite result to be number texts, since
    [RNumber s] is written as [s] verbatim).

    Everything is proved (closed under the global context). *)
From Coq Require Import ZArith NArith List Bool Lia Ascii String.
From AGH Require Import Base.Run Model.QLogFile Model.QLog Model.QLogCodec Proofs.QLogCodec.
Import ListNotations.
Local Open Scope N_scope.

(** ** Generic facts *)
Definition no34 (b : N) : bool := negb (b =? 34).

Lemma forallb_imp (f g : N -> bool) a :
  (forall b, f b = true -> g b = true) -> forallb f a = true -> forallb g a = true.
Proof. intros H Ha. rewrite forallb_forall in *. auto. Qed.

Lemma no34_ge b : 128 <= b -> no34 b = true.
Proof. intro H. unfold no34. replace (b =? 34) with false by (symmetry; apply N.eqb_neq; lia). reflexivity. Qed.

Lemma no34_neq b : no34 b = true -> b <> 34.
Proof. unfold no34. intros H ->. discriminate H. Qed.

Lemma app_mid {A} (a : list A) x b r : (a ++ x :: b) ++ r = a ++ x :: b ++ r.
Proof. rewrite <- app_assoc. reflexivity. Qed.

Lemma is_prefix_app a x : is_prefix a (a ++ x) = true.
Proof. induction a as [|b a IH]; [reflexivity|]. cbn [app is_prefix]. rewrite N.eqb_refl. exact IH. Qed.

Lemma skipn_app_len (a x : bytes) : skipn (List.length a) (a ++ x) = x.
Proof. induction a as [|b a IH]; [reflexivity|]. exact IH. Qed.

Lemma af_here_gen a q X : after_first (a :: q) ((a :: q) ++ X) = Some X.
Proof.
  change ((a :: q) ++ X) with (a :: (q ++ X)). cbn [after_first].
  change (a :: (q ++ X)) with ((a :: q) ++ X).
  rewrite is_prefix_app, skipn_app_len. reflexivity.
Qed.

(** ** Quote discipline of escaped text: every byte 34 directly follows a
    byte 92.  [prev] says whether the byte before [u] is 92. *)
Fixpoint qesc (prev : bool) (u : bytes) : bool :=
  match u with
  | [] => true
  | x :: r => (negb (x =? 34) || prev) && qesc (x =? 92) r
  end.

Lemma qesc_no34 a : forallb no34 a = true -> forall prev, qesc prev a = true.
Proof.
  induction a as [|x a IH]; intros H prev; [reflexivity|].
  cbn [forallb] in H. apply andb_true_iff in H as [Hx Ha]. cbn [qesc].
  unfold no34 in Hx. rewrite Hx. cbn [orb andb]. apply IH; auto.
Qed.

Lemma qesc_weaken u prev : qesc false u = true -> qesc prev u = true.
Proof.
  destruct u as [|x u]; intro H; [reflexivity|]. cbn [qesc] in *.
  apply andb_true_iff in H as [H1 H2]. rewrite orb_false_r in H1. rewrite H1, H2. reflexivity.
Qed.

Lemma qesc_app a : forall prev b, qesc prev a = true -> qesc false b = true -> qesc prev (a ++ b) = true.
Proof.
  induction a as [|x a IH]; intros prev b Ha Hb; cbn [app].
  - apply qesc_weaken; auto.
  - cbn [qesc] in *. apply andb_true_iff in Ha as [H1 H2]. rewrite H1. cbn [andb]. apply IH; auto.
Qed.

Lemma hexd_34 x : (hexd x =? 34) = false.
Proof. unfold hexd. destruct (x <? 10); apply N.eqb_neq; lia. Qed.

Lemma qesc_esc_byte b : qesc false (esc_byte b) = true.
Proof.
  unfold esc_byte.
  destruct ((b =? 34) || (b =? 92)) eqn:E1.
  { apply orb_true_iff in E1 as [E|E]; apply N.eqb_eq in E; subst; reflexivity. }
  destruct (b =? 8); [reflexivity|]. destruct (b =? 12); [reflexivity|].
  destruct (b =? 10); [reflexivity|]. destruct (b =? 13); [reflexivity|].
  destruct (b =? 9); [reflexivity|].
  destruct ((b <? 32) || (b =? 60) || (b =? 62) || (b =? 38)).
  - apply qesc_no34. cbn [forallb]. unfold no34. rewrite !hexd_34. reflexivity.
  - apply orb_false_iff in E1 as [E1 _]. apply qesc_no34. cbn [forallb]. unfold no34. rewrite E1. reflexivity.
Qed.

Theorem qesc_enc : forall s, qesc false (enc_str s) = true.
Proof.
  intro s. induction s as [|b r H IHs|b0 b1 r H H0 IHs|b0 b1 b2 r H H0 IHs|b0 b1 b2 b3 r H H0 IHs|b0 r H H0 H1 IHs] using enc_ind.
  - reflexivity.
  - rewrite enc_str_1 by auto. apply qesc_app; auto using qesc_esc_byte.
  - rewrite enc_str_2 by auto. destruct (u8len_2 _ _ _ H0) as [Ha Hb]. bool_hyps.
    apply qesc_app; auto. apply qesc_no34. cbn [forallb]. rewrite !no34_ge by lia. reflexivity.
  - rewrite enc_str_3 by auto. destruct (u8len_3 _ _ _ _ H0) as (Ha & Hb & Hc & Hd). unfold esc3.
    destruct ((b0 =? 226) && (b1 =? 128) && ((b2 =? 168) || (b2 =? 169))).
    + apply qesc_app; auto. destruct (b2 =? 168); reflexivity.
    + assert (H1 : 224 <= b0) by (bool_hyps; lia).
      assert (H2 : 128 <= b1) by (bool_hyps; unfold lo2 in *; destruct (b0 =? 224); [lia|]; destruct (b0 =? 240); lia).
      assert (H3 : 128 <= b2) by (bool_hyps; lia).
      apply qesc_app; auto. apply qesc_no34. cbn [forallb]. rewrite !no34_ge by lia. reflexivity.
  - rewrite enc_str_4 by auto. destruct (u8len_4 _ _ _ _ _ H0) as (Ha & Hb & Hc & Hd & He & Hf).
    assert (H1 : 240 <= b0) by (bool_hyps; lia).
    assert (H2 : 128 <= b1) by (bool_hyps; unfold lo2 in *; destruct (b0 =? 224); [lia|]; destruct (b0 =? 240); lia).
    assert (H3 : 128 <= b2) by (bool_hyps; lia).
    assert (H4 : 128 <= b3) by (bool_hyps; lia).
    apply qesc_app; auto. apply qesc_no34. cbn [forallb]. rewrite !no34_ge by lia. reflexivity.
  - rewrite H0. apply qesc_app; auto.
Qed.

(** ** Decimal texts and number texts hold no quote *)
Lemma uint_bytes_range d : forallb (in_r 45 57) (uint_bytes d) = true.
Proof. induction d; cbn [uint_bytes forallb]; try rewrite IHd; reflexivity. Qed.

Lemma dec_bytes_range z : forallb (in_r 45 57) (dec_bytes z) = true.
Proof.
  destruct z; cbn [dec_bytes]; [reflexivity|apply uint_bytes_range|].
  cbn [forallb]. rewrite uint_bytes_range. reflexivity.
Qed.

Lemma range_no34 b : in_r 45 57 b = true -> no34 b = true.
Proof. intro H. bool_hyps. unfold no34. replace (b =? 34) with false by (symmetry; apply N.eqb_neq; lia). reflexivity. Qed.

Lemma dec_bytes_no34 z : forallb no34 (dec_bytes z) = true.
Proof. apply (forallb_imp _ _ _ range_no34), dec_bytes_range. Qed.

Lemma numchar_no34 b : is_numchar b = true -> no34 b = true.
Proof. intro H. unfold no34. destruct (N.eqb_spec b 34) as [->|]; [vm_compute in H; discriminate H|reflexivity]. Qed.

(** ** The separators after a value *)
Definition sepc (c : N) : bool := (c =? 44) || (c =? 125) || (c =? 93).

Lemma sepc_cases c : sepc c = true -> c = 44 \/ c = 125 \/ c = 93.
Proof.
  unfold sepc. intro H. apply orb_true_iff in H as [H|H]; [apply orb_true_iff in H as [H|H]|];
    apply N.eqb_eq in H; auto.
Qed.

(** ** Patterns quote KEY quote colon quote with an upper-case key name *)
Definition kpat (K : bytes) : bytes := 34 :: K ++ [34; 58; 34].
Definition key_up (K : bytes) : Prop := forallb (in_r 65 90) K = true /\ K <> [].

(** [x] followed by a separator holds no occurrence of the pattern that
    starts inside [x]. *)
Definition skipb (K : bytes) (x : bytes) : Prop :=
  forall c y, sepc c = true -> after_first (kpat K) (x ++ c :: y) = after_first (kpat K) (c :: y).

Definition sep_of (post : list bytes) : bytes :=
  match join_fields post with [] => [] | rest => 44 :: rest end.

Lemma join_cons_sep f R : f <> [] -> join_fields (f :: R) = f ++ sep_of R.
Proof. intro H. apply join_cons. destruct f; [congruence|reflexivity]. Qed.

Section Pat.
Variable K : bytes.
Hypothesis HKok : key_up K.
Local Notation p := (kpat K).

Lemma K_head : exists k K', K = k :: K' /\ 65 <= k <= 90.
Proof.
  destruct HKok as [H1 H2]. revert H1 H2. generalize K. intros [|k K'] H1 H2; [congruence|].
  exists k, K'. split; auto. cbn [forallb] in H1. apply andb_true_iff in H1 as [H1 _].
  unfold in_r in H1. bool_hyps. lia.
Qed.

Lemma K_up : forallb (in_r 65 90) K = true.
Proof. exact (proj1 HKok). Qed.

Lemma K_no34 : forallb no34 K = true.
Proof.
  apply (forallb_imp (in_r 65 90)); [|exact K_up]. intros b H. bool_hyps. unfold no34.
  replace (b =? 34) with false by (symmetry; apply N.eqb_neq; lia). reflexivity.
Qed.

Lemma K_first c t y : c < 65 \/ 90 < c -> is_prefix (K ++ t) (c :: y) = false.
Proof.
  intro Hc. destruct K_head as (k & K' & E & Hk). rewrite E. cbn [app is_prefix].
  replace (k =? c) with false by (symmetry; apply N.eqb_neq; lia). reflexivity.
Qed.

Lemma af_skip1 x r : x <> 34 -> after_first p (x :: r) = after_first p r.
Proof.
  intro H. apply after_first_step. unfold kpat. cbn [is_prefix].
  replace (34 =? x) with false by (symmetry; apply N.eqb_neq; congruence). reflexivity.
Qed.

Lemma af_no34 a r : forallb no34 a = true -> after_first p (a ++ r) = after_first p r.
Proof.
  intro H. unfold kpat. apply after_first_skip. intros b Hb. rewrite forallb_forall in H.
  apply no34_neq, H, Hb.
Qed.

(** (b) the rest of the pattern does not match across escaped text and its
    closing quote when something else than a colon follows that quote. *)
Lemma pref_esc c y t : c <> 58 -> forall K', forallb (in_r 65 90) K' = true ->
  forall u, qesc false u = true -> is_prefix (K' ++ 34 :: 58 :: t) (u ++ 34 :: c :: y) = false.
Proof.
  intros Hc K'. induction K' as [|k K' IH]; intros HK' u Hu.
  - destruct u as [|x u]; cbn [app is_prefix].
    + replace (58 =? c) with false by (symmetry; apply N.eqb_neq; congruence). reflexivity.
    + cbn [qesc] in Hu. apply andb_true_iff in Hu as [Hx _]. rewrite orb_false_r in Hx.
      rewrite N.eqb_sym. destruct (x =? 34); [discriminate Hx|reflexivity].
  - cbn [forallb] in HK'. apply andb_true_iff in HK' as [Hk HK']. unfold in_r in Hk. bool_hyps.
    destruct u as [|x u]; cbn [app is_prefix].
    + replace (k =? 34) with false by (symmetry; apply N.eqb_neq; lia). reflexivity.
    + destruct (N.eqb_spec k x) as [<-|Hne]; [|reflexivity]. cbn [andb]. apply IH; auto.
      cbn [qesc] in Hu. apply andb_true_iff in Hu as [_ Hu].
      replace (k =? 92) with false in Hu by (symmetry; apply N.eqb_neq; lia). exact Hu.
Qed.

(** Another key name differs from [K] before its closing quote. *)
Lemma pref_key : forall K0 k t t', forallb no34 K0 = true -> forallb no34 k = true -> k <> K0 ->
  is_prefix (K0 ++ 34 :: t) (k ++ 34 :: t') = false.
Proof.
  induction K0 as [|a K0 IH]; intros k t t' H0 Hk Hne.
  - destruct k as [|x k]; [congruence|]. cbn [app is_prefix]. cbn [forallb] in Hk.
    apply andb_true_iff in Hk as [Hx _]. unfold no34 in Hx. rewrite N.eqb_sym.
    destruct (x =? 34); [discriminate Hx|reflexivity].
  - cbn [forallb] in H0. apply andb_true_iff in H0 as [Ha H0].
    destruct k as [|x k]; cbn [app is_prefix].
    + unfold no34 in Ha. destruct (a =? 34); [discriminate Ha|reflexivity].
    + destruct (N.eqb_spec a x) as [<-|Hax]; [|reflexivity]. cbn [andb].
      cbn [forallb] in Hk. apply andb_true_iff in Hk as [_ Hk]. apply IH; auto. congruence.
Qed.

(** (c) escaped text up to and including its closing quote is skipped. *)
Lemma af_esc c y : sepc c = true -> forall u prev, qesc prev u = true ->
  after_first p (u ++ 34 :: c :: y) = after_first p (c :: y).
Proof.
  intros Hc u. pose proof (sepc_cases _ Hc) as Hcc.
  induction u as [|x u IH]; intros prev Hu; cbn [app].
  - apply after_first_step. unfold kpat. cbn [is_prefix]. change (34 =? 34) with true. cbn [andb].
    apply K_first. lia.
  - cbn [qesc] in Hu. apply andb_true_iff in Hu as [Hx Hu].
    rewrite after_first_step; [eapply IH; eauto|].
    unfold kpat. cbn [is_prefix]. destruct (N.eqb_spec 34 x) as [<-|]; [|reflexivity]. cbn [andb].
    change (K ++ [34; 58; 34]) with (K ++ 34 :: 58 :: [34]). apply pref_esc; [lia|exact K_up|].
    change (34 =? 92) with false in Hu. exact Hu.
Qed.

Lemma skipb_nil : skipb K [].
Proof. intros c y _. reflexivity. Qed.

Lemma skipb_no34 a : forallb no34 a = true -> skipb K a.
Proof. intros H c y _. apply af_no34, H. Qed.

Lemma skipb_quote s : skipb K (quote s).
Proof.
  intros c y Hc. unfold quote. change ((34 :: enc_str s ++ [34]) ++ c :: y) with (34 :: (enc_str s ++ [34]) ++ c :: y).
  rewrite app_mid. change ([] ++ c :: y) with (c :: y).
  rewrite after_first_step; [apply (af_esc c y Hc _ false), qesc_enc|].
  unfold kpat. cbn [is_prefix]. change (34 =? 34) with true. cbn [andb].
  change (K ++ [34; 58; 34]) with (K ++ 34 :: 58 :: [34]).
  apply pref_esc; [destruct (sepc_cases _ Hc) as [->|[->| ->]]; discriminate|exact K_up|apply qesc_enc].
Qed.

(** A key [k] (raw bytes without quote, other than [K]), colon, value. *)
Lemma skipb_kv k v : forallb no34 k = true -> k <> K -> skipb K v -> skipb K (34 :: k ++ 34 :: 58 :: v).
Proof.
  intros Hk Hne Hv c y Hc.
  change ((34 :: k ++ 34 :: 58 :: v) ++ c :: y) with (34 :: (k ++ 34 :: 58 :: v) ++ c :: y).
  rewrite app_mid. change ((58 :: v) ++ c :: y) with (58 :: v ++ c :: y).
  rewrite after_first_step.
  2:{ unfold kpat. cbn [is_prefix]. change (34 =? 34) with true. cbn [andb].
      change (K ++ [34; 58; 34]) with (K ++ 34 :: [58; 34]). apply pref_key; auto using K_no34. }
  rewrite af_no34 by exact Hk.
  rewrite after_first_step.
  2:{ unfold kpat. cbn [is_prefix]. change (34 =? 34) with true. cbn [andb]. apply K_first. lia. }
  rewrite af_skip1 by discriminate. apply Hv, Hc.
Qed.

Lemma skipb_join fs : Forall (skipb K) fs -> skipb K (join_fields fs).
Proof.
  induction 1 as [|f r Hf Hr IH]; [apply skipb_nil|].
  cbn [join_fields]. destruct (is_nil f); [exact IH|].
  destruct (join_fields r) as [|n l] eqn:E; [exact Hf|].
  intros c y Hc. rewrite app_mid. rewrite (Hf 44 _ eq_refl). rewrite af_skip1 by discriminate.
  exact (IH c y Hc).
Qed.

Lemma skipb_wrap o cl fs : o <> 34 -> sepc cl = true -> Forall (skipb K) fs ->
  skipb K (o :: join_fields fs ++ [cl]).
Proof.
  intros Ho Hcl H c y Hc.
  change ((o :: join_fields fs ++ [cl]) ++ c :: y) with (o :: (join_fields fs ++ [cl]) ++ c :: y).
  rewrite app_mid. change ([] ++ c :: y) with (c :: y).
  rewrite af_skip1 by exact Ho. rewrite (skipb_join fs H cl _ Hcl).
  apply af_skip1. destruct (sepc_cases _ Hcl) as [->|[->| ->]]; discriminate.
Qed.

Lemma skipb_obj fs : Forall (skipb K) fs -> skipb K (obj fs).
Proof. apply skipb_wrap; [discriminate|reflexivity]. Qed.

Lemma skipb_arr fs : Forall (skipb K) fs -> skipb K (arr fs).
Proof. apply skipb_wrap; [discriminate|reflexivity]. Qed.

Lemma Forall_skipb_map {A} (f : A -> bytes) l : (forall x, In x l -> skipb K (f x)) -> Forall (skipb K) (map f l).
Proof.
  induction l as [|a l IH]; intro H; cbn [map]; [apply Forall_nil|].
  apply Forall_cons; [apply H; left; reflexivity|apply IH; intros; apply H; right; auto].
Qed.

(** Fields of structs. *)
Lemma skipb_fld k v : forallb no34 (B k) = true -> B k <> K -> skipb K v -> skipb K (fld k v).
Proof. intros. unfold fld. apply skipb_kv; auto. Qed.

Lemma skipb_fld_str_opt k s : forallb no34 (B k) = true -> B k <> K -> skipb K (fld_str_opt k s).
Proof. intros. unfold fld_str_opt. destruct (is_nil s); [apply skipb_nil|apply skipb_fld; auto using skipb_quote]. Qed.

Lemma skipb_fld_int_opt k z : forallb no34 (B k) = true -> B k <> K -> skipb K (fld_int_opt k z).
Proof.
  intros. unfold fld_int_opt. destruct (z =? 0)%Z; [apply skipb_nil|].
  apply skipb_fld; auto. apply skipb_no34, dec_bytes_no34.
Qed.

Lemma skipb_fld_true_opt k b : forallb no34 (B k) = true -> B k <> K -> skipb K (fld_true_opt k b).
Proof.
  intros. unfold fld_true_opt. destruct b; [|apply skipb_nil].
  apply skipb_fld; auto. apply skipb_no34. reflexivity.
Qed.

(** Decimal keys (rewrite responses) are not [K]. *)
Lemma range_not_K k : forallb (in_r 45 57) k = true -> k <> K.
Proof.
  intros H ->. destruct K_head as (k & K' & E & Hk). rewrite E in H. cbn [forallb] in H.
  apply andb_true_iff in H as [H _]. bool_hyps. lia.
Qed.

(** (d) reaching a field behind skipped ones *)
Lemma join_ne pre f post : f <> [] -> join_fields (pre ++ f :: post) <> [].
Proof.
  intro Hf. induction pre as [|g pre IH]; cbn [app].
  - rewrite join_cons_sep by auto. destruct f; [congruence|cbn [app]; discriminate].
  - cbn [join_fields]. destruct g as [|g0 g]; cbn [is_nil]; [exact IH|].
    destruct (join_fields (pre ++ f :: post)); cbn [app]; discriminate.
Qed.

Lemma af_reach pre f post c y : Forall (skipb K) pre -> f <> [] ->
  after_first p (join_fields (pre ++ f :: post) ++ c :: y) = after_first p (f ++ sep_of post ++ c :: y).
Proof.
  intros Hp Hf. induction Hp as [|g pre Hg Hp IH]; cbn [app].
  - rewrite join_cons_sep by auto. rewrite <- app_assoc. reflexivity.
  - pose proof (join_ne pre f post Hf) as Hne.
    cbn [join_fields]. destruct (is_nil g); [exact IH|].
    destruct (join_fields (pre ++ f :: post)) as [|n l] eqn:E; [destruct (Hne E)|].
    rewrite app_mid. rewrite (Hg 44 _ eq_refl). rewrite af_skip1 by discriminate. exact IH.
Qed.

Lemma af_field pre post s : Forall (skipb K) pre ->
  after_first p (obj (pre ++ (34 :: K ++ 34 :: 58 :: quote s) :: post)) =
  Some (enc_str s ++ 34 :: sep_of post ++ [125]).
Proof.
  intro Hp. unfold obj. rewrite af_skip1 by discriminate.
  rewrite af_reach by (auto; discriminate).
  replace ((34 :: K ++ 34 :: 58 :: quote s) ++ sep_of post ++ [125])
    with (p ++ enc_str s ++ 34 :: sep_of post ++ [125]).
  - unfold kpat. apply af_here_gen.
  - unfold kpat, quote. cbn [app]. f_equal. repeat (rewrite <- app_assoc; cbn [app]). reflexivity.
Qed.

Lemma af_absent fs : Forall (skipb K) fs -> after_first p (obj fs) = None.
Proof.
  intro H. unfold obj. rewrite af_skip1 by discriminate.
  rewrite (skipb_join fs H 125 [] eq_refl). rewrite af_skip1 by discriminate. reflexivity.
Qed.

(** The value field [n] of a struct is found when the fields before it are skipped. *)
Lemma located_nth fs n s : nth_error fs n = Some (34 :: K ++ 34 :: 58 :: quote s) ->
  Forall (skipb K) (firstn n fs) -> located (obj fs) p s.
Proof.
  intros Hn Hp. apply nth_error_split in Hn as (pre & post & -> & <-).
  replace (firstn (List.length pre) (pre ++ (34 :: K ++ 34 :: 58 :: quote s) :: post)) with pre in Hp.
  2:{ rewrite firstn_app, Nat.sub_diag, firstn_all. cbn [firstn]. rewrite app_nil_r. reflexivity. }
  exists (sep_of post ++ [125]). unfold read_json_value. rewrite af_field by exact Hp.
  destruct (until_quote_enc s (sep_of post ++ [125])) as (r & Hr & _). rewrite Hr. reflexivity.
Qed.

Lemma located_absent fs : Forall (skipb K) fs -> located (obj fs) p [].
Proof. intro H. exists []. unfold read_json_value. rewrite af_absent by exact H. reflexivity. Qed.

End Pat.

(** ** The three keys of quickMatch *)
Definition kIP : bytes := [73; 80].
Definition kQH : bytes := [81; 72].
Definition kCID : bytes := [67; 73; 68].

Lemma kIP_ok : key_up kIP. Proof. split; [reflexivity|discriminate]. Qed.
Lemma kQH_ok : key_up kQH. Proof. split; [reflexivity|discriminate]. Qed.
Lemma kCID_ok : key_up kCID. Proof. split; [reflexivity|discriminate]. Qed.

Lemma pIP_eq : pIP = kpat kIP. Proof. reflexivity. Qed.
Lemma pQH_eq : pQH = kpat kQH. Proof. reflexivity. Qed.
Lemma pCID_eq : pCID = kpat kCID. Proof. reflexivity. Qed.

(** Side conditions on a literal key name. *)
Ltac key_side := first [reflexivity | (let H := fresh in intro H; vm_compute in H; discriminate H)].
Ltac split_fields := repeat apply Forall_cons; try apply Forall_nil.

Theorem located_ip : forall e, located (encode e) pIP (slot e sIP).
Proof.
  intro e. rewrite pIP_eq. unfold encode.
  apply (located_nth kIP _ 10%nat (slot e sIP)); [reflexivity|].
  cbn [firstn]. split_fields.
  all: first [apply (skipb_fld_str_opt kIP kIP_ok); key_side
             |apply (skipb_fld kIP kIP_ok); [key_side|key_side|apply (skipb_quote kIP kIP_ok)]].
Qed.

Theorem located_qh_any : forall e, located (encode e) pQH (slot e sQH).
Proof.
  intro e. rewrite pQH_eq. unfold encode.
  apply (located_nth kQH _ 1%nat (slot e sQH)); [reflexivity|].
  cbn [firstn]. split_fields.
  apply (skipb_fld kQH kQH_ok); [key_side|key_side|apply (skipb_quote kQH kQH_ok)].
Qed.

(** ** CID: when the field is omitted the pattern occurs nowhere *)
Definition rrv_num_ok (v : rrv) : bool := match v with RNumber s => forallb is_numchar s | _ => true end.
Definition rw_numbers_ok (e : centry) : Prop :=
  match ce_rw e with
  | Some w => Forall (fun kv : Z * list rrv => forallb rrv_num_ok (snd kv) = true) (rw_resp w)
  | None => True
  end.

Local Notation skC := (skipb kCID).

Ltac fldC :=
  first [ apply (skipb_nil kCID)
        | apply (skipb_fld_str_opt kCID kCID_ok); key_side
        | apply (skipb_fld_int_opt kCID kCID_ok); key_side
        | apply (skipb_fld_true_opt kCID kCID_ok); key_side
        | apply (skipb_fld kCID kCID_ok); [key_side|key_side|] ].

Lemma skC_rule r : skC (enc_rule r).
Proof.
  unfold enc_rule. apply (skipb_obj kCID). split_fields; fldC.
  apply (skipb_quote kCID kCID_ok).
Qed.

Lemma skC_rrv v : rrv_num_ok v = true -> skC (enc_rrv v).
Proof.
  destruct v as [s|s|b| |]; cbn [rrv_num_ok enc_rrv]; intro H.
  - apply (skipb_quote kCID kCID_ok).
  - apply skipb_no34. apply (forallb_imp _ _ _ numchar_no34), H.
  - apply skipb_no34. destruct b; reflexivity.
  - apply skipb_no34. reflexivity.
  - apply skipb_no34. reflexivity.
Qed.

Lemma skC_resp m : Forall (fun kv : Z * list rrv => forallb rrv_num_ok (snd kv) = true) m -> skC (enc_resp m).
Proof.
  intro H. unfold enc_resp. apply (skipb_obj kCID). apply Forall_skipb_map.
  intros kv Hin. rewrite Forall_forall in H. specialize (H kv Hin).
  apply (skipb_kv kCID kCID_ok).
  - apply dec_bytes_no34.
  - apply (range_not_K kCID kCID_ok), dec_bytes_range.
  - destruct (snd kv) as [|v vs] eqn:E; [apply skipb_no34; reflexivity|].
    apply (skipb_arr kCID). apply Forall_skipb_map. intros x Hx. apply skC_rrv.
    rewrite forallb_forall in H. apply H, Hx.
Qed.

Lemma skC_rw w : Forall (fun kv : Z * list rrv => forallb rrv_num_ok (snd kv) = true) (rw_resp w) -> skC (enc_rw w).
Proof.
  intro H. unfold enc_rw. apply (skipb_obj kCID). split_fields.
  - destruct (is_nil (rw_resp w)); fldC. apply skC_resp, H.
  - fldC.
Qed.

Lemma skC_result e : rw_numbers_ok e -> skC (enc_result e).
Proof.
  intro H. unfold enc_result. apply (skipb_obj kCID). split_fields.
  - unfold rw_numbers_ok in H. destruct (ce_rw e) as [w|]; fldC. apply skC_rw, H.
  - fldC.
  - fldC.
  - destruct (is_nil (ce_iplist e)); fldC. apply (skipb_arr kCID). apply Forall_skipb_map.
    intros x _. apply (skipb_quote kCID kCID_ok).
  - destruct (is_nil (ce_rules e)); fldC. apply (skipb_arr kCID). apply Forall_skipb_map.
    intros x _. apply skC_rule.
  - fldC.
  - fldC.
Qed.

Theorem located_cid : forall e, rw_numbers_ok e -> located (encode e) pCID (slot e sCID).
Proof.
  intros e Hrw. rewrite pCID_eq. destruct (slot e sCID) as [|c0 cid] eqn:E.
  - (* omitted: no occurrence in the whole line *)
    unfold encode. rewrite E. apply (located_absent kCID). split_fields; fldC.
    all: first [apply (skipb_quote kCID kCID_ok) | apply skC_result, Hrw | apply skipb_no34, dec_bytes_no34].
  - unfold encode. rewrite E.
    apply (located_nth kCID _ 5%nat (c0 :: cid)); [reflexivity|].
    cbn [firstn]. split_fields; fldC. all: apply (skipb_quote kCID kCID_ok).
Qed.

(** ** quickMatch on real lines: no assumption on the time text, the host,
    the address or the client id *)
Theorem quick_line_real : forall c e v a strict, rw_numbers_ok e ->
  term_match c (raw_entry (slot e sQH) (slot e sIP) (slot e sCID)) v a strict = true ->
  quick_line c (encode e) (CTerm v a strict) = true.
Proof.
  intros c e v a strict Hrw Hm. apply quick_line_over_approx; auto using located_qh_any, located_ip, located_cid.
Qed.

(** ** Worked instances *)

(** The premise holds of the worked entry of Proofs/QLogCodec.v (strings only)
    and the three values are the ones of its fields (the host is escaped). *)
Example located_rich_example :
  rw_numbers_ok rich_entry /\
  read_json_value (encode rich_entry) pIP = slot rich_entry sIP /\
  read_json_value (encode rich_entry) pCID = slot rich_entry sCID /\
  has_bs (read_json_value (encode rich_entry) pQH) = true.
Proof. split; [repeat constructor|vm_compute; auto]. Qed.

(** No client id, and the host, the time text and a rule text hold the very
    pattern: in the line the quotes are escaped, nothing is found, and the
    address is still the one of the IP field although the host holds
    the IP pattern followed by 6.6.6.6 as well. *)
Definition pattern_entry : centry :=
  set_rules
    (set_rw
      (set_slot (set_slot (set_slot blank sT (B """CID"":""t")) sQH (B """CID"":""x""IP"":""6.6.6.6")) sIP (B "1.2.3.4"))
      (Some {| rw_rcode := 0%Z; rw_resp := [(1%Z, [RNumber (B "-1.5e+3"); RS (B """CID"":""y"); RBoolean true; RNullV; RNested])] |}))
    [{| cr_text := B """CID"":""r"; cr_ip := B """CID"":"""; cr_id := 7%Z |}].

Example located_pattern_example :
  rw_numbers_ok pattern_entry /\
  slot pattern_entry sCID = [] /\
  read_json_value (encode pattern_entry) pCID = [] /\
  read_json_value (encode pattern_entry) pIP = B "1.2.3.4" /\
  has_bs (read_json_value (encode pattern_entry) pQH) = true /\
  quick_line no_clients (encode pattern_entry) (CTerm (B "1.2.3.4") [] true) = true.
Proof. split; [repeat constructor|vm_compute; auto 6]. Qed.

(** The premise of [located_cid] cannot be dropped: a number value that is no
    number text is written verbatim and can carry the pattern. *)
Definition bad_number_entry : centry :=
  set_rw (set_slot blank sIP (B "1.2.3.4"))
         (Some {| rw_rcode := 0%Z; rw_resp := [(1%Z, [RNumber (B """CID"":""zzz""")])] |}).

Example located_cid_needs_numbers :
  ~ rw_numbers_ok bad_number_entry /\
  slot bad_number_entry sCID = [] /\
  read_json_value (encode bad_number_entry) pCID = B "zzz" /\
  ~ located (encode bad_number_entry) pCID (slot bad_number_entry sCID).
Proof.
  split; [|split; [reflexivity|split; [vm_compute; reflexivity|]]].
  - intro H. unfold rw_numbers_ok in H. cbn [bad_number_entry set_rw ce_rw rw_resp] in H.
    inversion H as [|? ? H1 _]. vm_compute in H1. discriminate H1.
  - intros [rest H]. vm_compute in H. discriminate H.
Qed.

(** C19, round 3: a verdict "blocked" needs a FULL hash.

    [findMatch] compares all 32 bytes ([slices.Contains] on [hostnameHash]
    arrays; [mem_hash] / [eqb_bytes] in the model).  A hash of the database
    that has the 2-byte prefix of one enumerated name's hash and the remaining
    30 bytes of another one's is served (its prefix was asked) and cached, but
    it is equal to neither and blocks nothing, on the fresh path and on the
    cached path. *)
From Coq Require Import ZArith NArith List Bool Lia.
From AGH Require Import Base.Run Base.Bytes Model.HashPrefix Proofs.HashPrefix.
Import ListNotations.

#[local] Arguments prefix_of : simpl never.

(** What follows the prefix. *)
Definition rest_of (h : hash) : bytes := skipn prefix_len h.

Lemma hash_split h : h = prefix_of h ++ rest_of h.
Proof. unfold prefix_of, rest_of. now rewrite firstn_skipn. Qed.

(** [d] has the prefix of [a] and the remaining bytes of [b]. *)
Definition spliced (d a b : hash) : Prop := prefix_of d = prefix_of a /\ rest_of d = rest_of b.

Lemma spliced_same d a : spliced d a a -> d = a.
Proof. intros [H1 H2]. rewrite (hash_split d), (hash_split a). now rewrite H1, H2. Qed.

Lemma splice_spliced a b : length a = 32%nat ->
  spliced (prefix_of a ++ rest_of b) a b.
Proof.
  intros L. unfold spliced, prefix_of, rest_of.
  assert (Hl : length (firstn prefix_len a) = prefix_len).
  { rewrite firstn_length. unfold prefix_len. lia. }
  split.
  - rewrite firstn_app, Hl, Nat.sub_diag. cbn [firstn]. rewrite app_nil_r.
    rewrite <- Hl at 1. apply firstn_all.
  - rewrite skipn_app, Hl, Nat.sub_diag. cbn [skipn].
    rewrite <- Hl at 1. now rewrite skipn_all.
Qed.

Section WithOracles.
  Variable sha : bytes -> hash.
  Variable pubsuf : bytes -> bytes * bool.
  Variable suffix : bytes.
  Variable cache_time : Z.

  Notation chain := (hostname_to_hashes sha pubsuf).
  Notation check := (check sha pubsuf suffix cache_time).

  (** Where a check can take a full hash from: an entry of the cache that has
      not expired, or a well-formed string of the answer to a question about
      hashes of the chain. *)
  Definition full_hash_source (svc : list prefix -> option (list bytes)) (now : Z)
      (host : bytes) (c : cache) (h : hash) : Prop :=
    (exists p it, cget p c = Some it /\ expired now it = false /\ In h (c_hashes it)) \/
    (exists hs strs, (forall x, In x hs -> In x (chain host)) /\
                     svc (map prefix_of hs) = Some strs /\ In h (parse_txt strs)).

  (** For every cache content (no invariant assumed) and every service: a
      check says "blocked" only if a hash it had, all 32 bytes of it, is the
      hash of an enumerated name. *)
  Theorem verdict_needs_full_hash svc order evs now host c :
    o_blocked (snd (check svc order evs now host c)) = true ->
    exists h, In h (chain host) /\ full_hash_source svc now host c h.
  Proof.
    unfold HashPrefix.check.
    pose proof (find_in_cache_spec now c (chain host)) as S.
    destruct (find_in_cache now c (chain host)) as [| |hs]; cbn [snd o_blocked].
    - intros _. destruct S as (h & it & h' & Hh & L & Hh' & Hit).
      exists h'. split; auto. left. exists (prefix_of h), it.
      split; [now apply (live_cget now)|]. split; auto.
      unfold live in L. destruct (cget (prefix_of h) c) as [i|]; [|discriminate].
      destruct (expired now i) eqn:E; [discriminate|]. now injection L as <-.
    - discriminate.
    - destruct S as (Ehs & _ & _).
      destruct (svc (map prefix_of hs)) as [strs|] eqn:Sv; cbn [snd o_blocked]; [|discriminate].
      destruct (store_in_cache _ _ _ _ _ _). cbn [snd o_blocked]. intros M.
      apply find_match_spec in M. destruct M as (h & H1 & H2).
      assert (Hsub : forall x, In x hs -> In x (chain host)).
      { intros x Hx. rewrite Ehs in Hx. now apply filter_In in Hx. }
      exists h. split; auto. right. exists hs, strs. auto.
  Qed.

  (** With the exact cache of [C19_cache_transparent] and a service for [db]:
      if no hash of the database is the hash of an enumerated name, nothing is
      blocked, whatever prefixes and whatever remaining bytes the database's
      hashes share with the hashes of the enumerated names. *)
  Theorem no_full_hash_never_blocks db svc order evs now host c :
    cache_inv db c -> svc_ok db svc ->
    (forall d, In d db -> ~ In d (chain host)) ->
    o_blocked (snd (check svc order evs now host c)) = false.
  Proof.
    intros Hinv Hsvc Hno.
    destruct (check_transparent sha pubsuf suffix cache_time db svc order evs now host c Hinv Hsvc)
      as (_ & Hok & Herr).
    destruct (o_err (snd (check svc order evs now host c))) eqn:E.
    - now apply Herr.
    - rewrite Hok by reflexivity. apply find_match_false. intros h Hh Hd. exact (Hno h Hd Hh).
  Qed.

  (** The spliced-hash corollary: every hash of the database is made of the
      prefix of one enumerated name's hash and the remaining bytes of another
      one's, the two having different prefixes (and the hash function does not
      give two enumerated names the same remaining bytes).  Such hashes are
      served and cached; they never block. *)
  Corollary spliced_hash_never_blocks db svc order evs now host c :
    cache_inv db c -> svc_ok db svc ->
    (forall x y, In x (chain host) -> In y (chain host) -> rest_of x = rest_of y -> x = y) ->
    (forall d, In d db -> exists a b, In a (chain host) /\ In b (chain host) /\
                                      spliced d a b /\ prefix_of a <> prefix_of b) ->
    o_blocked (snd (check svc order evs now host c)) = false.
  Proof.
    intros Hinv Hsvc Hinj Hsp. apply (no_full_hash_never_blocks db); auto.
    intros d Hd Hin. destruct (Hsp d Hd) as (a & b & Ha & Hb & [Hp Hr] & Hne).
    assert (d = b) by (apply Hinj; auto). subst d. congruence.
  Qed.
End WithOracles.

(** * Non-vacuity, and the comparison that ignores the prefix *)

Module SplicedExample.
  Import Examples.
  Local Open Scope N_scope.
  (* c.evil.co.uk: the first of the two names hashed for [host1] *)
  Definition c_evil : bytes := [99;46;101;118;105;108;46;99;111;46;117;107].
  (* the prefix of sha(evil.co.uk) and the remaining 30 bytes of sha(c.evil.co.uk) *)
  Definition sp : hash := prefix_of (sha evil) ++ rest_of (sha c_evil).
  (* ... and the other way round *)
  Definition sp' : hash := prefix_of (sha c_evil) ++ rest_of (sha evil).
  Definition db_sp : list hash := [sp; sp'].
  (* the order in which the Go map of the answer is ranged over *)
  Definition order_sp : list prefix := [prefix_of (sha evil); prefix_of (sha c_evil)].
  Definition ops_sp : list op :=
    [OCheck host1 (db_service db_sp) order_sp []; OCheck host1 (db_service db_sp) order_sp [];
     OCheck evil (db_service db_sp) order_sp []].

  (** [findMatch] with the comparison of change C19-F: only what follows the
      prefix is compared. *)
  Definition find_match_rest (a b : list hash) : bool :=
    existsb (fun h => existsb (fun x => eqb_bytes (rest_of x) (rest_of h)) b) a.
End SplicedExample.

(** The premises of [spliced_hash_never_blocks] hold for a database of two
    spliced hashes and a chain of two names; both hashes are served on the
    fresh lookup and cached; the fresh check, the check answered from the
    cache and the check of the parent alone (from the cache) all say clean. *)
Example spliced_example :
  let chain := hostname_to_hashes Examples.sha Examples.pubsuf Examples.host1 in
  chain = [Examples.sha SplicedExample.c_evil; Examples.sha Examples.evil] /\
  Forall hash_wf SplicedExample.db_sp /\
  (forall x y, In x chain -> In y chain -> rest_of x = rest_of y -> x = y) /\
  (forall d, In d SplicedExample.db_sp ->
     exists a b, In a chain /\ In b chain /\ spliced d a b /\ prefix_of a <> prefix_of b) /\
  Forall (op_ok SplicedExample.db_sp) SplicedExample.ops_sp /\
  map (fun r => match snd r with
                | Some o => Some (o_blocked o, match o_question o with Some _ => true | None => false end)
                | None => None end)
      (run Examples.sha Examples.pubsuf Examples.sfx Examples.ct SplicedExample.ops_sp (0%Z, []))
  = [Some (false, true); Some (false, false); Some (false, false)] /\
  map (fun e => length (c_hashes (snd e)))
      (snd (fst (step Examples.sha Examples.pubsuf Examples.sfx Examples.ct
                   (OCheck Examples.host1 (db_service SplicedExample.db_sp) SplicedExample.order_sp []) (0%Z, []))))
  = [1%nat; 1%nat].
Proof.
  cbv zeta.
  assert (Hwf : Forall hash_wf SplicedExample.db_sp).
  { repeat constructor; vm_compute; try reflexivity; intros; discriminate. }
  split; [vm_compute; reflexivity|]. split; [exact Hwf|].
  replace (hostname_to_hashes Examples.sha Examples.pubsuf Examples.host1)
    with [Examples.sha SplicedExample.c_evil; Examples.sha Examples.evil] by (vm_compute; reflexivity).
  split; [|split; [|split; [|split]]].
  - intros x y [<-|[<-|[]]] [<-|[<-|[]]] H; try reflexivity; vm_compute in H; discriminate.
  - intros d [<-|[<-|[]]].
    + exists (Examples.sha Examples.evil), (Examples.sha SplicedExample.c_evil).
      split; [right; now left|]. split; [now left|]. split; [|vm_compute; discriminate].
      apply splice_spliced. reflexivity.
    + exists (Examples.sha SplicedExample.c_evil), (Examples.sha Examples.evil).
      split; [now left|]. split; [right; now left|]. split; [|vm_compute; discriminate].
      apply splice_spliced. reflexivity.
  - unfold SplicedExample.ops_sp.
    repeat (apply Forall_cons; [cbn [op_ok]; apply db_service_ok; exact Hwf|]). apply Forall_nil.
  - vm_compute. reflexivity.
  - vm_compute. reflexivity.
Qed.

(** A comparison of the remaining 30 bytes only (change C19-F) is told apart
    by that database: it finds a match although no hash of the database is a
    hash of the chain; [find_match] does not. *)
Theorem rest_only_match_refuted :
  let chain := hostname_to_hashes Examples.sha Examples.pubsuf Examples.host1 in
  (forall d, In d SplicedExample.db_sp -> ~ In d chain) /\
  find_match chain SplicedExample.db_sp = false /\
  SplicedExample.find_match_rest chain SplicedExample.db_sp = true.
Proof.
  cbv zeta. split; [|split; vm_compute; reflexivity].
  intros d Hd Hc. assert (F : find_match (hostname_to_hashes Examples.sha Examples.pubsuf Examples.host1)
                                 SplicedExample.db_sp = true).
  { apply find_match_spec. eauto. }
  vm_compute in F. discriminate.
Qed.

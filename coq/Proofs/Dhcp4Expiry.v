(** C10: the lease file stores an INSTANT: whatever the time zone of the
    process that writes and of the one that reads, the expiry read back is
    the expiry written at whole seconds (what [db_lease] of Model/Dhcp4.v
    says).  The variant "local wall clock labelled Z" is refuted. *)
From Coq Require Import ZArith Lia List.
From AGH Require Import Base.Run Model.Dhcp4 Model.Dhcp4Expiry.
Local Open Scope Z_scope.

(** The offset cancels: written in any zone, read in any zone. *)
Theorem expiry_roundtrip_any_zone zone e : read_expiry (write_expiry zone e) = trunc_s e.
Proof. unfold read_expiry, write_expiry, trunc_s. cbn [fst snd]. f_equal. lia. Qed.

(** The resolution kept: whole seconds, rounded down; never more than a
    second lost, never a later instant. *)
Theorem expiry_resolution zone e :
  let e' := read_expiry (write_expiry zone e) in e' <= e < e' + ns_per_s.
Proof.
  cbn. rewrite expiry_roundtrip_any_zone. unfold trunc_s, ns_per_s.
  pose proof (Z.mul_div_le e 1000000000 ltac:(lia)).
  pose proof (Z.mul_succ_div_gt e 1000000000 ltac:(lia)). lia.
Qed.

(** It is what the model of the file does to a dynamic lease. *)
Theorem db_lease_any_zone zone l :
  l_static l = false -> l_exp (db_lease l) = read_expiry (write_expiry zone (l_exp l)).
Proof. intros H. rewrite expiry_roundtrip_any_zone. unfold db_lease. rewrite H. reflexivity. Qed.

(** So two processes in different zones agree. *)
Corollary expiry_zone_independent z1 z2 e :
  read_expiry (write_expiry z1 e) = read_expiry (write_expiry z2 e).
Proof. rewrite !expiry_roundtrip_any_zone. reflexivity. Qed.

(** Refuted: the local wall clock labelled Z.  Five hours west of UTC a lease
    with an hour left reads back as expired four hours ago. *)
Definition local_as_z_roundtrip_statement : Prop :=
  forall zone e, read_expiry (write_expiry_local_as_z zone e) = trunc_s e.

Theorem local_as_z_roundtrip_refuted :
  exists zone e now, now < e /\ read_expiry (write_expiry_local_as_z zone e) < now /\
                     read_expiry (write_expiry_local_as_z zone e) <> trunc_s e.
Proof.
  exists (-18000), (1790003600 * ns_per_s), (1790000000 * ns_per_s).
  vm_compute. repeat split; congruence.
Qed.

Theorem local_as_z_shift zone e :
  read_expiry (write_expiry_local_as_z zone e) = trunc_s e + zone * ns_per_s.
Proof. unfold read_expiry, write_expiry_local_as_z, trunc_s. cbn [fst snd]. lia. Qed.

(** Non-vacuity of the positive theorem: UTC+5:30, a sub-second instant. *)
Example expiry_example :
  write_expiry 19800 1790000000123456789 = (1790019800, 19800) /\
  read_expiry (write_expiry 19800 1790000000123456789) = 1790000000000000000.
Proof. vm_compute. split; reflexivity. Qed.

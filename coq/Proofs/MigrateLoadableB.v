(** C13, part 6b: per-step preservation of [loadable] (see Proofs/MigrateLoadable.v). *)
From Coq Require Import List ZArith String Ascii Bool Lia Arith.
From AGH Require Import Model.Migrate Model.MigrateLoad Proofs.Migrate Proofs.MigrateFrame Proofs.MigrateLoadable.
Import ListNotations.
Local Open Scope string_scope.
Local Open Scope list_scope.

Section WithOracles.
Variable O : oracles.

Lemma keep11 : step_keeps L 10 (step11).
Proof. unfold step11. pres_step. Qed.

Lemma keep12 : step_keeps L 11 (step12).
Proof. unfold step12. pres_step. Qed.

Lemma keep18 : step_keeps L 17 (step18).
Proof. unfold step18. pres_step. Qed.

Lemma keep20 : step_keeps L 19 (step20).
Proof. unfold step20. pres_step. Qed.

Lemma keep21 : step_keeps L 20 (step21).
Proof. unfold step21. pres_step. Qed.

Lemma keep25 : step_keeps L 24 (step25).
Proof. unfold step25. pres_step. Qed.

End WithOracles.

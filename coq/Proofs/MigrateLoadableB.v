(** C13, part 6b: per-step preservation of [loadable], steps 11, 12, 18, 20, 21, 25, 28
    (see Proofs/MigrateLoadable.v; lemmas and tactics of Proofs/MigrateLoadTools.v). *)
From Coq Require Import List ZArith String Ascii Bool Lia Arith.
From AGH Require Import Model.Migrate Model.MigrateLoad Proofs.Migrate Proofs.MigrateLoadable Proofs.MigrateLoadTools.
Import ListNotations.
Local Open Scope string_scope.
Local Open Scope list_scope.

Section WithOracles.
Variable O : oracles.

Lemma keep11 : step_keeps L 10 (step11).
Proof.
  intros m m' Hm E. open_schema Hm. open_goal. unfold step11 in E. stamp_in Hm E m0.
  destruct (fv_val_int m0 "rlimit_nofile") as [z Hz].
  assert (E' : m' = upd "os" (VObj [("group", VStr ""); ("rlimit_nofile", VInt z); ("user", VStr "")])
                      (del "rlimit_nofile" m0)).
  { rewrite <- Hz. destruct (field_val TInt m0 "rlimit_nofile"); try discriminate E; injection E as <-; reflexivity. }
  subst m'. clear E Hz.
  refine (fin_upd _ _ "os" _ _ (fok_del_same _ _ "rlimit_nofile" Hm) _ _); vmr.
Qed.

Lemma keep12 : step_keeps L 11 (step12).
Proof.
  intros m m' Hm E. open_schema Hm. open_goal. unfold step12 in E. stamp_in Hm E m0.
  let fo := goal_obj_fields "dns" in
  refine (with_obj_fok _ _ _ _ _ _ _ fo _ E Hm eq_refl _ _); [|vmr].
  clear. intros o o' Ho Ef. cbv zeta in Ef.
  destruct (field_val TInt o "querylog_interval"); try discriminate Ef; injection Ef as <-;
    (refine (fin_set _ _ "querylog_interval" SDur _ _ Ho _ _); [reflexivity|vmr]).
Qed.

Lemma keep18 : step_keeps L 17 (step18).
Proof.
  intros m m' Hm E. open_schema Hm. open_goal. unfold step18 in E. stamp_in Hm E m0.
  let fo := goal_obj_fields "dns" in
  refine (with_obj_fok _ _ _ _ _ _ _ fo _ E Hm eq_refl _ _); [|vmr].
  clear. intros o o' Ho Ef.
  destruct (move_val TBool o safe_search0 "safesearch_enabled" "enabled") as [[o1 ss]|] eqn:Mv; [|discriminate Ef].
  injection Ef as <-.
  let fss := goal_obj_fields "safe_search" in assert (H0 : fields_ok safe_search0 fss = true) by vmr.
  do_moves Mv Ho H0 Hs Hd.
  refine (fin_set_obj _ _ "safe_search" false _ _ _ Hs Hd _). vmr.
Qed.

Lemma keep20 : step_keeps L 19 (step20).
Proof.
  intros m m' Hm E. open_schema Hm. open_goal. unfold step20 in E. stamp_in Hm E m0.
  let fo := goal_obj_fields "statistics" in
  refine (with_obj_fok _ _ _ _ _ _ _ fo _ E Hm eq_refl _ _); [|vmr].
  clear. intros o o' Ho Ef. cbv zeta in Ef.
  destruct (field_val TInt o "interval"); try discriminate Ef; injection Ef as <-;
    (refine (fin_set _ _ "interval" SDur _ _ Ho _ _); [reflexivity|vmr]).
Qed.

Lemma keep21 : step_keeps L 20 (step21).
Proof.
  intros m m' Hm E. open_schema Hm. open_goal. unfold step21 in E. stamp_in Hm E m0.
  let fo := goal_obj_fields "dns" in
  refine (with_obj_fok _ _ _ _ _ _ _ fo _ E Hm eq_refl _ _); [|vmr].
  clear. intros o o' Ho Ef.
  destruct (move_val TArr o [("schedule", schedule0)] "blocked_services" "ids") as [[o1 svcs]|] eqn:Mv;
    [|discriminate Ef].
  injection Ef as <-.
  let fb := goal_obj_fields "blocked_services" in
  assert (H0 : fields_ok [("schedule", schedule0)] fb = true) by vmr.
  do_moves Mv Ho H0 Hs Hd.
  refine (fin_set_obj _ _ "blocked_services" false _ _ _ Hs Hd _). vmr.
Qed.

Lemma keep25 : step_keeps L 24 (step25).
Proof.
  intros m m' Hm E. open_schema Hm. open_goal. unfold step25 in E. stamp_in Hm E m0.
  destruct (field_val TObj m0 "http") as [|hv|] eqn:F; try discriminate E; [injection E as <-; fin Hm|].
  destruct (fv_obj_ok _ _ _ F) as [http [-> G]]. cbn [zobj] in E.
  destruct (move_val TBool m0 pprof0 "debug_pprof" "enabled") as [[m1 pprof]|] eqn:Mv; [|discriminate E].
  injection E as <-.
  pose proof (obj_field _ _ _ _ _ _ Hm G eq_refl) as Hh.
  let fh := goal_obj_fields "http" in let fp := obj_fields_in "pprof" fh in
  assert (H0 : fields_ok pprof0 fp = true) by vmr.
  do_moves Mv Hm H0 Hs Hd.
  pose proof (fok_set_obj _ _ "pprof" false _ _ Hh Hd) as H1.
  refine (fin_set_obj _ _ "http" false _ _ _ Hs H1 _). vmr.
Qed.

Lemma keep28 : step_keeps L 27 step28.
Proof.
  intros m m' Hm E. open_schema Hm. open_goal. unfold step28 in E. stamp_in Hm E m0.
  let fo := goal_obj_fields "dns" in
  refine (with_obj_fok _ _ _ _ _ _ _ fo _ E Hm eq_refl _ _); [|vmr].
  clear. intros o o' Ho Ef. cbv zeta in Ef. injection Ef as <-.
  apply fok_del, fok_del.
  refine (fin_set _ _ "upstream_mode" SStr _ _ Ho _ _); [reflexivity|vmr].
Qed.

End WithOracles.

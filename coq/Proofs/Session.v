(** Specification and proofs for the session table (C12). *)
From AGH Require Import Base.Run Model.Session.
From stdpp Require Import gmap.
From Coq Require Import Lia.
Local Open Scope N_scope.

Lemma srun_snoc ttl st h o : srun ttl st (h ++ [o]) = fst (sstep ttl o (srun ttl st h)).
Proof. revert st; induction h as [|x h IH]; intros st; cbn; auto. Qed.

Lemma srun_app ttl st h1 h2 : srun ttl st (h1 ++ h2) = srun ttl (srun ttl st h1) h2.
Proof. revert st; induction h1 as [|x h IH]; intros st; cbn; auto. Qed.

(** * Memory and disk agree *)

Definition mirror (st : sstate) : Prop := ss_mem st = ss_disk st.

Lemma sstep_mirror ttl o st : mirror st -> mirror (fst (sstep ttl o st)).
Proof.
  unfold mirror. destruct st as [m d]; cbn. intros ->.
  destruct o as [now tok u|now tok|tok|now]; cbn; auto.
  unfold check_session; cbn.
  destruct (d !! tok) as [s|]; cbn; auto.
  destruct (s_expire s <=? u32 now); cbn; auto.
  destruct (s_expire s / day =? u32 (u32 now + ttl) / day); cbn; auto.
Qed.

Lemma srun_mirror_from ttl h st : mirror st -> mirror (srun ttl st h).
Proof. revert st; induction h as [|o h IH]; intros st H; cbn; auto using sstep_mirror. Qed.

Theorem reachable_mirror ttl h : mirror (srun ttl s_init h).
Proof. apply srun_mirror_from. reflexivity. Qed.

(** * What [authenticates] means on a state *)

Lemma authenticates_spec ttl t tok st :
  authenticates ttl t tok st = true <->
  exists s, ss_mem st !! tok = Some s /\ u32 t < s_expire s.
Proof.
  unfold authenticates, check_session.
  destruct (ss_mem st !! tok) as [s|]; cbn.
  - destruct (s_expire s <=? u32 t) eqn:E; cbn.
    + apply N.leb_le in E. split; [discriminate|]. intros (s' & [= <-] & ?). lia.
    + apply N.leb_gt in E.
      destruct (s_expire s / day =? u32 (u32 t + ttl) / day); cbn; split; eauto.
  - split; [discriminate|]. intros (s' & ? & _). discriminate.
Qed.

(** * Restart *)

Lemma restart_lookup now st tok :
  mirror st ->
  ss_mem (restart now st) !! tok =
    match ss_mem st !! tok with
    | Some s => if decide (u32 now < s_expire s) then Some s else None
    | None => None
    end.
Proof.
  unfold mirror, restart. intros ->. cbn. rewrite map_filter_lookup.
  destruct (ss_disk st !! tok) as [s|]; cbn; auto.
Qed.

(** A restart at [now] does not change whether a token authenticates at any
    [t] from [now] on. *)
Lemma restart_preserves_state ttl now t tok st :
  mirror st -> u32 now <= u32 t ->
  authenticates ttl t tok (restart now st) = authenticates ttl t tok st.
Proof.
  intros Hm Hle. apply eq_true_iff_eq. rewrite !authenticates_spec, restart_lookup by auto.
  destruct (ss_mem st !! tok) as [s|]; [|reflexivity].
  destruct (decide (u32 now < s_expire s)); [reflexivity|].
  split; intros (s' & Hs & H); [discriminate|]. injection Hs as <-. lia.
Qed.

Definition restarts (nows : list N) (st : sstate) : sstate :=
  fold_left (fun st n => restart n st) nows st.

Lemma restart_mirror now st : mirror st -> mirror (restart now st).
Proof. intros H. apply (sstep_mirror 0 (SRestart now) st H). Qed.

Theorem restart_preserves ttl h nows t tok :
  Forall (fun n => u32 n <= u32 t) nows ->
  authenticates ttl t tok (restarts nows (srun ttl s_init h)) =
  authenticates ttl t tok (srun ttl s_init h).
Proof.
  intros Hn. generalize (reachable_mirror ttl h). generalize (srun ttl s_init h) as st.
  induction Hn as [|n nows Hle _ IH]; intros st Hm; [reflexivity|].
  cbn. rewrite IH by auto using restart_mirror. apply restart_preserves_state; auto.
Qed.

(** * The window: soundness ("only") *)

(** [ev], executed after the history [h1], sets the expiry of [tok] from the
    clock value [t0]: the login that created it, or a check that accepted it. *)
Definition grants (ttl : N) (h1 : list sop) (ev : sop) (tok t0 : N) : Prop :=
  (exists u, ev = SNew t0 tok u) \/
  (ev = SCheck t0 tok /\ authenticates ttl t0 tok (srun ttl s_init h1) = true).

Definition granted (ttl : N) (h : list sop) (tok e : N) : Prop :=
  exists h1 ev h2 t0,
    h = h1 ++ ev :: h2 /\ grants ttl h1 ev tok t0 /\ e = u32 (u32 t0 + ttl) /\
    Forall (fun o => o <> SLogout tok) h2.

Lemma granted_snoc ttl h o tok e :
  o <> SLogout tok -> granted ttl h tok e -> granted ttl (h ++ [o]) tok e.
Proof.
  intros Ho (h1 & ev & h2 & t0 & -> & Hg & He & Hall).
  exists h1, ev, (h2 ++ [o]), t0. rewrite <- app_assoc. cbn. repeat split; auto.
  apply Forall_app; split; auto.
Qed.

Lemma session_inv ttl h : forall tok s,
  ss_mem (srun ttl s_init h) !! tok = Some s -> granted ttl h tok (s_expire s).
Proof.
  induction h as [|o h IH] using rev_ind; intros tok s.
  - cbn. rewrite lookup_empty. discriminate.
  - rewrite srun_snoc. pose proof (reachable_mirror ttl h) as Hm.
    set (st := srun ttl s_init h) in *.
    destruct o as [now tok' u|now tok'|tok'|now]; cbn.
    + (* login *)
      destruct (decide (tok' = tok)) as [->|Hne].
      * rewrite lookup_insert. intros [= <-]. cbn.
        exists h, (SNew now tok u), [], now. repeat split; auto. left; eauto.
      * rewrite lookup_insert_ne by auto. intros H. apply granted_snoc; [congruence|]. auto.
    + (* check *)
      unfold check_session.
      destruct (ss_mem st !! tok') as [s'|] eqn:E; cbn.
      * destruct (s_expire s' <=? u32 now) eqn:Ex; cbn.
        -- destruct (decide (tok' = tok)) as [->|Hne].
           ++ rewrite lookup_delete. discriminate.
           ++ rewrite lookup_delete_ne by auto. intros H. apply granted_snoc; [congruence|]. auto.
        -- destruct (s_expire s' / day =? u32 (u32 now + ttl) / day) eqn:Ed; cbn.
           ++ intros H. apply granted_snoc; [congruence|]. auto.
           ++ destruct (decide (tok' = tok)) as [->|Hne].
              ** rewrite lookup_insert. intros [= <-]. cbn.
                 exists h, (SCheck now tok), [], now. repeat split; auto. right. split; auto.
                 apply authenticates_spec. exists s'. split; auto. apply N.leb_gt in Ex. exact Ex.
              ** rewrite lookup_insert_ne by auto. intros H. apply granted_snoc; [congruence|]. auto.
      * intros H. apply granted_snoc; [congruence|]. auto.
    + (* logout *)
      destruct (decide (tok' = tok)) as [->|Hne].
      * rewrite lookup_delete. discriminate.
      * rewrite lookup_delete_ne by auto. intros H. apply granted_snoc; [congruence|]. auto.
    + (* restart *)
      change (filter _ (ss_disk st)) with (ss_mem (restart now st)). rewrite restart_lookup by auto.
      destruct (ss_mem st !! tok) as [s'|] eqn:E; [|discriminate].
      destruct (decide (u32 now < s_expire s')); [|discriminate].
      intros [= <-]. apply granted_snoc; [congruence|]. auto.
Qed.

(** A token authenticates at [t] only if some earlier event of the history (the
    login that created it, or a request that was itself accepted) set its
    expiry from a clock value [t0] with [t] before [t0 + ttl] (in 32-bit
    arithmetic), and the token has not been logged out since.  This holds for
    every history, restarts included. *)
Theorem session_window_sound ttl h t tok :
  authenticates ttl t tok (srun ttl s_init h) = true ->
  exists e, granted ttl h tok e /\ u32 t < e.
Proof.
  rewrite authenticates_spec. intros (s & Hs & Ht).
  exists (s_expire s). split; auto. apply session_inv; auto.
Qed.

(** * Absence is stable: never issued, logged out, found expired *)

Lemma sstep_absent ttl o st tok :
  mirror st -> ss_mem st !! tok = None -> (forall t0 u, o <> SNew t0 tok u) ->
  ss_mem (fst (sstep ttl o st)) !! tok = None.
Proof.
  intros Hm Hnone Ho.
  destruct o as [now tok' u|now tok'|tok'|now]; cbn.
  - destruct (decide (tok' = tok)) as [->|Hne]; [exfalso; eapply Ho; eauto|].
    rewrite lookup_insert_ne by auto. auto.
  - unfold check_session. destruct (ss_mem st !! tok') as [s'|] eqn:E; cbn; auto.
    destruct (decide (tok' = tok)) as [->|Hne]; [congruence|].
    destruct (s_expire s' <=? u32 now); cbn; [rewrite lookup_delete_ne by auto; auto|].
    destruct (s_expire s' / day =? u32 (u32 now + ttl) / day); cbn; auto.
    rewrite lookup_insert_ne by auto. auto.
  - destruct (decide (tok' = tok)) as [->|Hne]; [apply lookup_delete|].
    rewrite lookup_delete_ne by auto. auto.
  - change (filter _ (ss_disk st)) with (ss_mem (restart now st)). rewrite restart_lookup, Hnone by auto. reflexivity.
Qed.

Lemma stays_absent ttl tok h : forall st,
  mirror st -> ss_mem st !! tok = None ->
  Forall (fun o => forall t0 u, o <> SNew t0 tok u) h ->
  ss_mem (srun ttl st h) !! tok = None.
Proof.
  induction h as [|o h IH]; intros st Hm Hnone Hn; [exact Hnone|].
  apply Forall_cons_1 in Hn as [Ho Hn]. cbn.
  apply IH; auto using sstep_mirror, sstep_absent.
Qed.

Lemma absent_not_auth ttl t tok st : ss_mem st !! tok = None -> authenticates ttl t tok st = false.
Proof.
  intros H. apply not_true_iff_false. rewrite authenticates_spec. intros (s & Hs & _). congruence.
Qed.

(** A token that was never issued never authenticates. *)
Theorem never_issued ttl h t tok :
  Forall (fun o => forall t0 u, o <> SNew t0 tok u) h ->
  authenticates ttl t tok (srun ttl s_init h) = false.
Proof.
  intros Hn. apply absent_not_auth, stays_absent; auto; reflexivity.
Qed.

(** After a logout the token is dead for good (until the same token is issued
    again, which for 128 random bits does not happen), across restarts. *)
Theorem logout_final ttl h1 h2 t tok :
  Forall (fun o => forall t0 u, o <> SNew t0 tok u) h2 ->
  authenticates ttl t tok (srun ttl s_init (h1 ++ SLogout tok :: h2)) = false.
Proof.
  intros Hn. rewrite srun_app. cbn [srun]. apply absent_not_auth, stays_absent; auto.
  - apply sstep_mirror, reachable_mirror.
  - cbn. apply lookup_delete.
Qed.

(** Likewise once a request has found the token expired. *)
Theorem expired_final ttl h1 h2 now t tok :
  snd (check_session ttl now tok (srun ttl s_init h1)) = CSExpired ->
  Forall (fun o => forall t0 u, o <> SNew t0 tok u) h2 ->
  authenticates ttl t tok (srun ttl s_init (h1 ++ SCheck now tok :: h2)) = false.
Proof.
  intros Hex Hn. rewrite srun_app. cbn [srun]. apply absent_not_auth, stays_absent; auto.
  - apply sstep_mirror, reachable_mirror.
  - cbn. revert Hex. unfold check_session.
    destruct (ss_mem (srun ttl s_init h1) !! tok) as [s|]; cbn; [|discriminate].
    destruct (s_expire s <=? u32 now); cbn; [intros _; apply lookup_delete|].
    destruct (s_expire s / day =? u32 (u32 now + ttl) / day); discriminate.
Qed.

(** * The window: completeness *)

Definition op_time (o : sop) : option N :=
  match o with SNew t _ _ | SCheck t _ | SRestart t => Some t | SLogout _ => None end.

(** From its creation at [t0] until [t0 + ttl] a token that is not logged out
    authenticates, whatever else happens (other logins, requests, restarts),
    provided the clock does not go back before [t0] and no 32-bit wrap-around
    is in reach. *)
Theorem session_window_complete ttl h1 h2 t0 t tok u :
  Forall (fun o => o <> SLogout tok /\ (forall t' u', o <> SNew t' tok u') /\
                   (forall t', op_time o = Some t' -> t0 <= t' <= t)) h2 ->
  t0 <= t -> t < t0 + ttl -> t + ttl < 4294967296 ->
  authenticates ttl t tok (srun ttl s_init (h1 ++ SNew t0 tok u :: h2)) = true.
Proof.
  intros Hall H0 H1 H2. rewrite srun_app. cbn [srun].
  set (st0 := fst (sstep ttl (SNew t0 tok u) (srun ttl s_init h1))).
  assert (Hm0 : mirror st0) by apply sstep_mirror, reachable_mirror.
  assert (Hs0 : exists s, ss_mem st0 !! tok = Some s /\ t0 + ttl <= s_expire s).
  { cbn. rewrite lookup_insert. eexists; split; eauto. cbn. unfold u32.
    rewrite (N.mod_small t0) by lia. rewrite N.mod_small by lia. lia. }
  clearbody st0. revert st0 Hm0 Hs0.
  induction h2 as [|o h2 IH]; intros st Hm (s & Hs & He).
  - cbn. apply authenticates_spec. exists s. split; auto. unfold u32. rewrite N.mod_small by lia. lia.
  - apply Forall_cons_1 in Hall as [(Ho1 & Ho2 & Ho3) Hall]. cbn [srun].
    apply IH; auto using sstep_mirror.
    destruct o as [now tok' u'|now tok'|tok'|now]; cbn.
    + destruct (decide (tok' = tok)) as [->|Hne]; [exfalso; eapply Ho2; eauto|].
      rewrite lookup_insert_ne by auto. eauto.
    + specialize (Ho3 now eq_refl).
      assert (Hu : u32 now = now) by (unfold u32; apply N.mod_small; lia).
      unfold check_session. destruct (ss_mem st !! tok') as [s'|] eqn:E; cbn; eauto.
      destruct (decide (tok' = tok)) as [->|Hne].
      * assert (s' = s) by congruence. subst s'.
        replace (s_expire s <=? u32 now) with false by (symmetry; apply N.leb_gt; lia).
        destruct (s_expire s / day =? u32 (u32 now + ttl) / day); cbn; eauto.
        rewrite lookup_insert. eexists; split; eauto. cbn. rewrite Hu. unfold u32.
        rewrite N.mod_small by lia. lia.
      * destruct (s_expire s' <=? u32 now); cbn; [rewrite lookup_delete_ne by auto; eauto|].
        destruct (s_expire s' / day =? u32 (u32 now + ttl) / day); cbn; eauto.
        rewrite lookup_insert_ne by auto. eauto.
    + destruct (decide (tok' = tok)) as [->|Hne]; [congruence|].
      rewrite lookup_delete_ne by auto. eauto.
    + specialize (Ho3 now eq_refl).
      change (filter _ (ss_disk st)) with (ss_mem (restart now st)). rewrite restart_lookup, Hs by auto.
      rewrite decide_True; eauto. unfold u32. rewrite N.mod_small by lia. lia.
Qed.

(** Non-vacuity: a token created, checked across a restart, logged out. *)
Example session_premises_satisfiable :
  let h := [SNew 1000 7 [97]; SCheck 1500 7; SRestart 2000; SCheck 2500 7] in
  authenticates 3600 3000 7 (srun 3600 s_init h) = true /\
  authenticates 3600 4600 7 (srun 3600 s_init h) = false /\
  authenticates 3600 3000 7 (srun 3600 s_init (h ++ [SLogout 7; SRestart 3000])) = false /\
  authenticates 3600 3000 8 (srun 3600 s_init h) = false.
Proof. vm_compute. auto. Qed.

(** Specification and proofs for the session table (C12), over cookie
    spellings: the map in memory is keyed by the cookie string, the bucket by
    the decoded bytes (Model/Session.v). *)
From AGH Require Import Base.Run Model.Session.
From stdpp Require Import gmap.
From Coq Require Import Lia.
Local Open Scope N_scope.

Lemma srun_snoc ttl st h o : srun ttl st (h ++ [o]) = fst (sstep ttl o (srun ttl st h)).
Proof. revert st; induction h as [|x h IH]; intros st; cbn; auto. Qed.

Lemma srun_app ttl st h1 h2 : srun ttl st (h1 ++ h2) = srun ttl (srun ttl st h1) h2.
Proof. revert st; induction h1 as [|x h IH]; intros st; cbn; auto. Qed.

(** * Hex *)

Definition is_bytes (k : bytes) : Prop := Forall (fun b => b < 256) k.

Lemma hex_digit_inj a b : hex_digit a = hex_digit b -> a = b.
Proof. unfold hex_digit. destruct (N.ltb_spec a 10), (N.ltb_spec b 10); lia. Qed.

Global Instance hex_encode_inj : Inj (=) (=) hex_encode.
Proof.
  intros k. induction k as [|b k IH]; intros [|b' k'] H; cbn in H; try discriminate; auto.
  injection H as H1 H2 H3. apply hex_digit_inj in H1, H2. f_equal; [|auto].
  rewrite (N.div_mod b 16), (N.div_mod b' 16) by lia. congruence.
Qed.

Lemma hex_val_digit n : n < 16 -> hex_val (hex_digit n) = Some n.
Proof.
  intros H. destruct n as [|p]; [reflexivity|].
  repeat (destruct p as [p|p|]; try reflexivity; try lia).
Qed.

(** Decoding undoes encoding (on byte strings). *)
Lemma hex_decode_encode k : is_bytes k -> hex_decode_prefix (hex_encode k) = k.
Proof.
  induction 1 as [|b k Hb _ IH]; [reflexivity|]. cbn [hex_encode hex_decode_prefix].
  rewrite !hex_val_digit by (try apply N.div_lt_upper_bound; try apply N.mod_lt; lia).
  rewrite IH. f_equal. symmetry. apply N.div_mod. lia.
Qed.

(** A spelling is canonical when it is what [hex.EncodeToString] prints. *)
Definition canonical (sp : bytes) : Prop := hex_encode (hex_decode_prefix sp) = sp.

Lemma canonical_encode raw : is_bytes raw -> canonical (hex_encode raw).
Proof. intros H. unfold canonical. rewrite hex_decode_encode; auto. Qed.

(** Two spellings of one key of which one is canonical: the other is not,
    unless they are equal. *)
Lemma canonical_unique sp sp' :
  canonical sp -> canonical sp' -> hex_decode_prefix sp' = hex_decode_prefix sp -> sp' = sp.
Proof. unfold canonical. intros H1 H2 H3. congruence. Qed.

Lemma classic_canonical sp : canonical sp \/ ~ canonical sp.
Proof. unfold canonical. destruct (decide (hex_encode (hex_decode_prefix sp) = sp)); auto. Qed.

(** * Invariants *)

(** For every history: the keys in memory are canonical spellings of byte
    strings, and whatever is on disk is in memory under its canonical
    spelling.  (The converse needs more: see [mirror].) *)
Record inv (st : sstate) : Prop := {
  inv_mem : forall sp s, ss_mem st !! sp = Some s -> exists raw, sp = hex_encode raw /\ is_bytes raw;
  inv_disk : forall raw s, ss_disk st !! raw = Some s -> is_bytes raw /\ ss_mem st !! hex_encode raw = Some s;
}.

Lemma inv_mem_canonical st sp s : inv st -> ss_mem st !! sp = Some s -> canonical sp.
Proof. intros Hi H. destruct (inv_mem _ Hi _ _ H) as (raw & -> & Hb). apply canonical_encode; auto. Qed.

Lemma inv_noncanonical st sp : inv st -> ~ canonical sp -> ss_mem st !! sp = None.
Proof.
  intros Hi Hn. destruct (ss_mem st !! sp) as [s|] eqn:E; [|reflexivity].
  exfalso. apply Hn. eapply inv_mem_canonical; eauto.
Qed.

Definition wf_new (o : sop) : Prop :=
  match o with SNew _ raw _ => is_bytes raw | _ => True end.

Lemma inv_init : inv s_init.
Proof. split; cbn; intros ? ?; rewrite lookup_empty; discriminate. Qed.

Lemma inv_new ttl now raw u st : is_bytes raw -> inv st -> inv (new_session ttl now raw u st).
Proof.
  intros Hb [I1 I2]. split; cbn.
  - intros sp s. rewrite lookup_insert_Some. intros [[<- _]|[_ H]]; eauto.
  - intros raw' s. rewrite lookup_insert_Some. intros [[<- <-]|[Hne H]].
    + split; auto. apply lookup_insert.
    + destruct (I2 _ _ H) as [Hb' Hm]. split; auto.
      rewrite lookup_insert_ne; auto. intros E. apply Hne. apply (inj hex_encode). exact E.
Qed.

Lemma inv_logout sp st : inv st -> inv (logout sp st).
Proof.
  intros [I1 I2]. split; cbn.
  - intros sp' s. rewrite lookup_delete_Some. intros [_ H]. eauto.
  - intros raw s. rewrite lookup_delete_Some. intros [Hne H].
    destruct (I2 _ _ H) as [Hb Hm]. split; auto.
    assert (Hne' : sp <> hex_encode raw) by (intros ->; apply Hne, hex_decode_encode; auto).
    rewrite lookup_delete_ne by auto. auto.
Qed.

Lemma inv_check ttl now sp st : inv st -> inv (fst (check_session ttl now sp st)).
Proof.
  intros Hi. unfold check_session.
  destruct (ss_mem st !! sp) as [s0|] eqn:E; cbn; auto.
  destruct (s_expire s0 <=? u32 now); cbn; [apply (inv_logout sp st Hi)|].
  destruct (s_expire s0 / day =? u32 (u32 now + ttl) / day); cbn; auto.
  destruct (inv_mem _ Hi _ _ E) as (raw0 & -> & Hb0). rewrite hex_decode_encode by auto.
  destruct Hi as [I1 I2]. split; cbn.
  - intros sp' s. rewrite lookup_insert_Some. intros [[<- _]|[_ H]]; eauto.
  - intros raw s. rewrite lookup_insert_Some. intros [[<- <-]|[Hne H]].
    + split; auto. apply lookup_insert.
    + destruct (I2 _ _ H) as [Hb Hm]. split; auto.
      rewrite lookup_insert_ne; auto. intros E'. apply Hne. apply (inj hex_encode). exact E'.
Qed.

Lemma inv_logout_request ttl now sp st : inv st -> inv (fst (logout_request ttl now sp st)).
Proof.
  intros Hi. unfold logout_request. pose proof (inv_check ttl now sp st Hi) as Hc.
  destruct (check_session ttl now sp st) as [st' r]. cbn in Hc.
  destruct r; cbn; auto using inv_logout.
Qed.

Lemma restart_mem_Some now st sp s :
  ss_mem (restart now st) !! sp = Some s <->
  exists raw, sp = hex_encode raw /\ ss_disk st !! raw = Some s /\ u32 now < s_expire s.
Proof.
  unfold restart. cbn. rewrite lookup_kmap_Some by apply _.
  split; intros (raw & -> & H); exists raw; (split; [reflexivity|]).
  - apply map_filter_lookup_Some in H. exact H.
  - apply map_filter_lookup_Some. exact H.
Qed.

Lemma restart_disk_Some now st raw s :
  ss_disk (restart now st) !! raw = Some s <-> ss_disk st !! raw = Some s /\ u32 now < s_expire s.
Proof. unfold restart. cbn. apply map_filter_lookup_Some. Qed.

Lemma inv_restart now st : inv st -> inv (restart now st).
Proof.
  intros [I1 I2]. split.
  - intros sp s. rewrite restart_mem_Some. intros (raw & -> & H & _). exists raw. split; auto. apply (I2 _ _ H).
  - intros raw s. rewrite restart_disk_Some. intros [H Hl]. split; [apply (I2 _ _ H)|].
    apply restart_mem_Some. eauto.
Qed.

Lemma inv_step ttl o st : wf_new o -> inv st -> inv (fst (sstep ttl o st)).
Proof.
  intros Hw Hi. destruct o as [now raw u|now sp|now sp|sp|now]; cbn [sstep].
  - apply inv_new; auto.
  - pose proof (inv_check ttl now sp st Hi). destruct (check_session ttl now sp st); auto.
  - pose proof (inv_logout_request ttl now sp st Hi). destruct (logout_request ttl now sp st); auto.
  - apply inv_logout; auto.
  - apply inv_restart; auto.
Qed.

Lemma inv_run ttl h : forall st, Forall wf_new h -> inv st -> inv (srun ttl st h).
Proof.
  induction h as [|o h IH]; intros st Hw Hi; [exact Hi|].
  apply Forall_cons_1 in Hw as [Ho Hw]. cbn. apply IH; auto using inv_step.
Qed.

Theorem reachable_inv ttl h : Forall wf_new h -> inv (srun ttl s_init h).
Proof. intros Hw. apply inv_run; auto using inv_init. Qed.

(** ** Memory and disk agree

    over HTTP: every history of logins, requests, logout requests and
    restarts (a direct [removeSession] only with a canonical spelling). *)
Definition mirror (st : sstate) : Prop :=
  ss_mem st = kmap hex_encode (ss_disk st) /\ map_Forall (fun k _ => is_bytes k) (ss_disk st).

Definition wf_http (o : sop) : Prop :=
  match o with SNew _ raw _ => is_bytes raw | SRemove sp => canonical sp | _ => True end.

Lemma wf_http_new o : wf_http o -> wf_new o.
Proof. destruct o; cbn; auto. Qed.

Lemma mirror_inv st : mirror st -> inv st.
Proof.
  intros [Hm Hb]. split.
  - intros sp s. rewrite Hm, lookup_kmap_Some by apply _. intros (raw & -> & H). exists raw. split; auto.
    apply (Hb _ _ H).
  - intros raw s H. split; [apply (Hb _ _ H)|]. rewrite Hm, lookup_kmap by apply _. exact H.
Qed.

Lemma mirror_mem_disk st raw : mirror st -> ss_mem st !! hex_encode raw = ss_disk st !! raw.
Proof. intros [Hm _]. rewrite Hm. apply lookup_kmap. apply _. Qed.

Lemma mirror_new ttl now raw u st : is_bytes raw -> mirror st -> mirror (new_session ttl now raw u st).
Proof.
  intros Hb [Hm Hf]. split; cbn.
  - rewrite Hm, kmap_insert by apply _. reflexivity.
  - apply map_Forall_insert_2; auto.
Qed.

Lemma mirror_logout sp st : canonical sp -> mirror st -> mirror (logout sp st).
Proof.
  intros Hc [Hm Hf]. split; cbn.
  - rewrite Hm, kmap_delete by apply _. rewrite Hc. reflexivity.
  - apply map_Forall_delete; auto.
Qed.

Lemma mirror_check ttl now sp st : mirror st -> mirror (fst (check_session ttl now sp st)).
Proof.
  intros Hmi. unfold check_session.
  destruct (ss_mem st !! sp) as [s0|] eqn:E; cbn; auto.
  pose proof (inv_mem_canonical st sp s0 (mirror_inv _ Hmi) E) as Hc.
  destruct (s_expire s0 <=? u32 now); cbn; [apply (mirror_logout sp st Hc Hmi)|].
  destruct (s_expire s0 / day =? u32 (u32 now + ttl) / day); cbn; auto.
  destruct Hmi as [Hm Hf]. split; cbn.
  - rewrite Hm, kmap_insert by apply _. rewrite Hc. reflexivity.
  - apply map_Forall_insert_2; auto.
    destruct (inv_mem _ (mirror_inv _ (conj Hm Hf)) _ _ E) as (raw0 & -> & Hb0).
    rewrite hex_decode_encode; auto.
Qed.

Lemma check_ok_in_mem ttl now sp st :
  snd (check_session ttl now sp st) = CSOK -> exists s, ss_mem (fst (check_session ttl now sp st)) !! sp = Some s.
Proof.
  unfold check_session. destruct (ss_mem st !! sp) as [s0|] eqn:E; cbn; [|discriminate].
  destruct (s_expire s0 <=? u32 now); cbn; [discriminate|].
  destruct (s_expire s0 / day =? u32 (u32 now + ttl) / day); cbn; intros _; eauto.
  rewrite lookup_insert. eauto.
Qed.

Lemma mirror_logout_request ttl now sp st : mirror st -> mirror (fst (logout_request ttl now sp st)).
Proof.
  intros Hmi. unfold logout_request. pose proof (mirror_check ttl now sp st Hmi) as Hc.
  pose proof (check_ok_in_mem ttl now sp st) as Hin.
  destruct (check_session ttl now sp st) as [st' r]. cbn in *.
  destruct r; cbn; auto. destruct (Hin eq_refl) as [s Hs].
  apply mirror_logout; auto. eapply inv_mem_canonical; eauto using mirror_inv.
Qed.

Lemma mirror_restart now st : mirror st -> mirror (restart now st).
Proof.
  intros [Hm Hf]. split; [reflexivity|]. cbn.
  intros k s H. apply map_filter_lookup_Some in H as [H _]. apply (Hf _ _ H).
Qed.

Lemma sstep_mirror ttl o st : wf_http o -> mirror st -> mirror (fst (sstep ttl o st)).
Proof.
  intros Hw Hm. destruct o as [now raw u|now sp|now sp|sp|now]; cbn [sstep].
  - apply mirror_new; auto.
  - pose proof (mirror_check ttl now sp st Hm). destruct (check_session ttl now sp st); auto.
  - pose proof (mirror_logout_request ttl now sp st Hm). destruct (logout_request ttl now sp st); auto.
  - apply mirror_logout; auto.
  - apply mirror_restart; auto.
Qed.

Lemma srun_mirror_from ttl h : forall st, Forall wf_http h -> mirror st -> mirror (srun ttl st h).
Proof.
  induction h as [|o h IH]; intros st Hw H; [exact H|].
  apply Forall_cons_1 in Hw as [Ho Hw]. cbn. apply IH; auto using sstep_mirror.
Qed.

Lemma mirror_init : mirror s_init.
Proof. split; cbn; [rewrite kmap_empty; reflexivity|apply map_Forall_empty]. Qed.

Theorem reachable_mirror ttl h : Forall wf_http h -> mirror (srun ttl s_init h).
Proof. intros Hw. apply srun_mirror_from; auto using mirror_init. Qed.

(** A restart never brings a session into memory that was not there: for
    every history, direct removals with any spelling included. *)
Theorem restart_no_new ttl h now sp s :
  Forall wf_new h ->
  ss_mem (restart now (srun ttl s_init h)) !! sp = Some s -> ss_mem (srun ttl s_init h) !! sp = Some s.
Proof.
  intros Hw. rewrite restart_mem_Some. intros (raw & -> & H & _).
  apply (inv_disk _ (reachable_inv ttl h Hw) _ _ H).
Qed.

(** * What [authenticates] means on a state *)

Lemma authenticates_spec ttl t sp st :
  authenticates ttl t sp st = true <->
  exists s, ss_mem st !! sp = Some s /\ u32 t < s_expire s.
Proof.
  unfold authenticates, check_session.
  destruct (ss_mem st !! sp) as [s|]; cbn.
  - destruct (s_expire s <=? u32 t) eqn:E; cbn.
    + apply N.leb_le in E. split; [discriminate|]. intros (s' & [= <-] & ?). lia.
    + apply N.leb_gt in E.
      destruct (s_expire s / day =? u32 (u32 t + ttl) / day); cbn; split; eauto.
  - split; [discriminate|]. intros (s' & ? & _). discriminate.
Qed.

Lemma absent_not_auth ttl t sp st : ss_mem st !! sp = None -> authenticates ttl t sp st = false.
Proof.
  intros H. apply not_true_iff_false. rewrite authenticates_spec. intros (s & Hs & _). congruence.
Qed.

(** Only the canonical spelling of a key can authenticate. *)
Theorem only_canonical_authenticates ttl h t sp :
  Forall wf_new h -> authenticates ttl t sp (srun ttl s_init h) = true -> canonical sp.
Proof.
  intros Hw. rewrite authenticates_spec. intros (s & Hs & _).
  eapply inv_mem_canonical; eauto using reachable_inv.
Qed.

(** * Restart *)

Lemma restart_lookup now st sp :
  mirror st ->
  ss_mem (restart now st) !! sp =
    match ss_mem st !! sp with
    | Some s => if decide (u32 now < s_expire s) then Some s else None
    | None => None
    end.
Proof.
  intros Hmi. apply option_eq. intros s'. rewrite restart_mem_Some.
  destruct (ss_mem st !! sp) as [s|] eqn:E.
  - destruct (inv_mem _ (mirror_inv _ Hmi) _ _ E) as (raw & -> & Hb).
    rewrite (mirror_mem_disk st raw Hmi) in E.
    split.
    + intros (raw' & He & Hd & Hl). apply (inj hex_encode) in He. subst raw'.
      assert (s' = s) by congruence. subst s'. rewrite decide_True; auto.
    + destruct (decide (u32 now < s_expire s)); [|discriminate]. intros [= <-]. eauto.
  - split; [|discriminate]. intros (raw & -> & Hd & _).
    rewrite (mirror_mem_disk st raw Hmi) in E. congruence.
Qed.

(** A restart at [now] does not change whether a cookie authenticates at any
    [t] from [now] on. *)
Lemma restart_preserves_state ttl now t sp st :
  mirror st -> u32 now <= u32 t ->
  authenticates ttl t sp (restart now st) = authenticates ttl t sp st.
Proof.
  intros Hm Hle. apply eq_true_iff_eq. rewrite !authenticates_spec, restart_lookup by auto.
  destruct (ss_mem st !! sp) as [s|]; [|reflexivity].
  destruct (decide (u32 now < s_expire s)); [reflexivity|].
  split; intros (s' & Hs & H); [discriminate|]. injection Hs as <-. lia.
Qed.

Definition restarts (nows : list N) (st : sstate) : sstate :=
  fold_left (fun st n => restart n st) nows st.

Theorem restart_preserves ttl h nows t sp :
  Forall wf_http h ->
  Forall (fun n => u32 n <= u32 t) nows ->
  authenticates ttl t sp (restarts nows (srun ttl s_init h)) =
  authenticates ttl t sp (srun ttl s_init h).
Proof.
  intros Hw Hn. generalize (reachable_mirror ttl h Hw). generalize (srun ttl s_init h) as st.
  induction Hn as [|n nows Hle _ IH]; intros st Hm; [reflexivity|].
  cbn. rewrite IH by auto using mirror_restart. apply restart_preserves_state; auto.
Qed.

(** * The window: soundness ("only") *)

(** Operations that take the spelling [sp] out of the map. *)
Definition removes (sp : bytes) (o : sop) : Prop :=
  o = SRemove sp \/ exists now, o = SLogout now sp.

Lemma classic_removes sp o : removes sp o \/ ~ removes sp o.
Proof.
  destruct o as [now raw u|now sp'|now sp'|sp'|now]; try (right; intros [H|[? H]]; discriminate).
  - destruct (decide (sp' = sp)) as [->|Hne]; [left; right; eauto|right; intros [H|[? H]]; congruence].
  - destruct (decide (sp' = sp)) as [->|Hne]; [left; left; auto|right; intros [H|[? H]]; congruence].
Qed.

Lemma removes_absent ttl sp o st : removes sp o -> ss_mem (fst (sstep ttl o st)) !! sp = None.
Proof.
  intros [->|[now ->]]; cbn; [apply lookup_delete|].
  unfold logout_request, check_session.
  destruct (ss_mem st !! sp) as [s|] eqn:E; cbn; [|exact E].
  destruct (s_expire s <=? u32 now); cbn; [apply lookup_delete|].
  destruct (s_expire s / day =? u32 (u32 now + ttl) / day); cbn; apply lookup_delete.
Qed.

(** An operation that is not about [sp] and issues no token spelt [sp] leaves
    [sp]'s entry alone, except that a restart may drop it. *)
Definition issues (sp : bytes) (o : sop) : Prop :=
  exists t0 raw u, o = SNew t0 raw u /\ hex_encode raw = sp.

(** [ev], executed after the history [h1], sets the expiry of [sp] from the
    clock value [t0]: the login that issued it, or a request that was
    accepted. *)
Definition grants (ttl : N) (h1 : list sop) (ev : sop) (sp : bytes) (t0 : N) : Prop :=
  (exists raw u, ev = SNew t0 raw u /\ hex_encode raw = sp) \/
  (ev = SCheck t0 sp /\ authenticates ttl t0 sp (srun ttl s_init h1) = true).

Definition granted (ttl : N) (h : list sop) (sp : bytes) (e : N) : Prop :=
  exists h1 ev h2 t0,
    h = h1 ++ ev :: h2 /\ grants ttl h1 ev sp t0 /\ e = u32 (u32 t0 + ttl) /\
    Forall (fun o => ~ removes sp o) h2.

Lemma granted_snoc ttl h o sp e :
  ~ removes sp o -> granted ttl h sp e -> granted ttl (h ++ [o]) sp e.
Proof.
  intros Ho (h1 & ev & h2 & t0 & -> & Hg & He & Hall).
  exists h1, ev, (h2 ++ [o]), t0. rewrite <- app_assoc. cbn. repeat split; auto.
  apply Forall_app; split; auto.
Qed.

Lemma session_inv ttl h : Forall wf_new h -> forall sp s,
  ss_mem (srun ttl s_init h) !! sp = Some s -> granted ttl h sp (s_expire s).
Proof.
  induction h as [|o h IH] using rev_ind; intros Hw sp s.
  - cbn. rewrite lookup_empty. discriminate.
  - apply Forall_app in Hw as [Hw Ho]. specialize (IH Hw).
    rewrite srun_snoc. pose proof (reachable_inv ttl h Hw) as Hi.
    set (st := srun ttl s_init h) in *.
    (* an operation that removes [sp] leaves no entry *)
    destruct (classic_removes sp o) as [Hr|Hr].
    { rewrite (removes_absent ttl sp o st Hr). discriminate. }
    destruct o as [now raw u|now sp'|now sp'|sp'|now]; cbn [sstep].
    + (* login *)
      cbn. destruct (decide (hex_encode raw = sp)) as [<-|Hne].
      * rewrite lookup_insert. intros [= <-]. cbn.
        exists h, (SNew now raw u), [], now. repeat split; auto. left; eauto.
      * rewrite lookup_insert_ne by auto. intros H. apply granted_snoc; auto.
    + (* request *)
      unfold check_session.
      destruct (ss_mem st !! sp') as [s'|] eqn:E; cbn.
      * destruct (s_expire s' <=? u32 now) eqn:Ex; cbn.
        -- destruct (decide (sp' = sp)) as [->|Hne].
           ++ rewrite lookup_delete. discriminate.
           ++ rewrite lookup_delete_ne by auto. intros H. apply granted_snoc; auto.
        -- destruct (s_expire s' / day =? u32 (u32 now + ttl) / day) eqn:Ed; cbn.
           ++ intros H. apply granted_snoc; auto.
           ++ destruct (decide (sp' = sp)) as [->|Hne].
              ** rewrite lookup_insert. intros [= <-]. cbn.
                 exists h, (SCheck now sp), [], now. repeat split; auto. right. split; auto.
                 apply authenticates_spec. exists s'. split; auto. apply N.leb_gt in Ex. exact Ex.
              ** rewrite lookup_insert_ne by auto. intros H. apply granted_snoc; auto.
      * intros H. apply granted_snoc; auto.
    + (* logout request for another spelling *)
      assert (Hne : sp' <> sp) by (intros ->; apply Hr; right; eauto).
      unfold logout_request, check_session.
      destruct (ss_mem st !! sp') as [s'|] eqn:E; cbn.
      * destruct (s_expire s' <=? u32 now); cbn.
        -- rewrite lookup_delete_ne by auto. intros H. apply granted_snoc; auto.
        -- destruct (s_expire s' / day =? u32 (u32 now + ttl) / day); cbn.
           ++ rewrite lookup_delete_ne by auto. intros H. apply granted_snoc; auto.
           ++ rewrite lookup_delete_ne, lookup_insert_ne by auto. intros H. apply granted_snoc; auto.
      * intros H. apply granted_snoc; auto.
    + (* direct removal of another spelling *)
      assert (Hne : sp' <> sp) by (intros ->; apply Hr; left; reflexivity).
      cbn. rewrite lookup_delete_ne by auto. intros H. apply granted_snoc; auto.
    + (* restart *)
      intros H. apply restart_mem_Some in H as (raw & -> & Hd & _).
      apply granted_snoc; auto. apply IH. apply (inv_disk _ Hi _ _ Hd).
Qed.

(** A cookie authenticates at [t] only if some earlier event of the history
    (the login that issued this spelling, or a request with it that was
    itself accepted) set its expiry from a clock value [t0] with [t] before
    [t0 + ttl] (in 32-bit arithmetic), and no logout request or removal with
    this spelling came since.  This holds for every history, restarts and
    direct removals with any spelling included. *)
Theorem session_window_sound ttl h t sp :
  Forall wf_new h ->
  authenticates ttl t sp (srun ttl s_init h) = true ->
  exists e, granted ttl h sp e /\ u32 t < e.
Proof.
  intros Hw. rewrite authenticates_spec. intros (s & Hs & Ht).
  exists (s_expire s). split; auto. apply session_inv; auto.
Qed.

(** * Absence is stable: never issued, logged out, found expired *)

Lemma sstep_absent ttl o st sp :
  inv st -> ss_mem st !! sp = None -> ~ issues sp o ->
  ss_mem (fst (sstep ttl o st)) !! sp = None.
Proof.
  intros Hi Hnone Ho.
  destruct o as [now raw u|now sp'|now sp'|sp'|now]; cbn [sstep].
  - cbn. destruct (decide (hex_encode raw = sp)) as [E|Hne]; [exfalso; apply Ho; repeat eexists; eauto|].
    rewrite lookup_insert_ne by auto. auto.
  - unfold check_session. destruct (ss_mem st !! sp') as [s'|] eqn:E; cbn; auto.
    destruct (decide (sp' = sp)) as [->|Hne]; [congruence|].
    destruct (s_expire s' <=? u32 now); cbn; [rewrite lookup_delete_ne by auto; auto|].
    destruct (s_expire s' / day =? u32 (u32 now + ttl) / day); cbn; auto.
    rewrite lookup_insert_ne by auto. auto.
  - unfold logout_request, check_session. destruct (ss_mem st !! sp') as [s'|] eqn:E; cbn; auto.
    destruct (decide (sp' = sp)) as [->|Hne]; [congruence|].
    destruct (s_expire s' <=? u32 now); cbn; [rewrite lookup_delete_ne by auto; auto|].
    destruct (s_expire s' / day =? u32 (u32 now + ttl) / day); cbn.
    + rewrite lookup_delete_ne by auto. auto.
    + rewrite lookup_delete_ne, lookup_insert_ne by auto. auto.
  - cbn. destruct (decide (sp' = sp)) as [->|Hne]; [apply lookup_delete|].
    rewrite lookup_delete_ne by auto. auto.
  - cbn [fst]. destruct (ss_mem (restart now st) !! sp) as [s|] eqn:E; [|reflexivity].
    apply restart_mem_Some in E as (raw & -> & Hd & _).
    destruct (inv_disk _ Hi _ _ Hd) as [_ Hm]. congruence.
Qed.

Lemma stays_absent ttl sp h : forall st,
  inv st -> ss_mem st !! sp = None ->
  Forall (fun o => wf_new o /\ ~ issues sp o) h ->
  ss_mem (srun ttl st h) !! sp = None.
Proof.
  induction h as [|o h IH]; intros st Hi Hnone Hn; [exact Hnone|].
  apply Forall_cons_1 in Hn as [[Hw Ho] Hn]. cbn.
  apply IH; auto using inv_step, sstep_absent.
Qed.

(** A spelling that was never issued never authenticates. *)
Theorem never_issued ttl h t sp :
  Forall (fun o => wf_new o /\ ~ issues sp o) h ->
  authenticates ttl t sp (srun ttl s_init h) = false.
Proof.
  intros Hn. apply absent_not_auth, stays_absent; auto using inv_init.
Qed.

Lemma Forall_wf_new_of h sp : Forall (fun o => wf_new o /\ ~ issues sp o) h -> Forall wf_new h.
Proof. intros H. eapply Forall_impl; [exact H|]. cbn. tauto. Qed.

(** After a logout request or a removal with spelling [sp], that spelling is
    dead for good (until the same token is issued again, which for 128 random
    bits does not happen), across restarts. *)
Theorem removed_final ttl h1 h2 o t sp :
  removes sp o -> Forall wf_new h1 ->
  Forall (fun o => wf_new o /\ ~ issues sp o) h2 ->
  authenticates ttl t sp (srun ttl s_init (h1 ++ o :: h2)) = false.
Proof.
  intros Hr Hw Hn. rewrite srun_app. cbn [srun]. apply absent_not_auth, stays_absent; auto.
  - apply inv_step; auto using reachable_inv. destruct Hr as [->|[now ->]]; exact I.
  - apply removes_absent; auto.
Qed.

(** Logout over HTTP is final for the token, not just for the spelling sent:
    if the logout request was accepted (its cookie authenticated), then no
    spelling that decodes to the same key authenticates afterwards, at any
    time, across restarts, unless the token is issued again. *)
Theorem logout_final ttl h1 h2 now t sp sp' :
  Forall wf_new h1 ->
  authenticates ttl now sp (srun ttl s_init h1) = true ->
  hex_decode_prefix sp' = hex_decode_prefix sp ->
  Forall (fun o => wf_new o /\ forall t0 raw u, o = SNew t0 raw u -> raw <> hex_decode_prefix sp) h2 ->
  authenticates ttl t sp' (srun ttl s_init (h1 ++ SLogout now sp :: h2)) = false.
Proof.
  intros Hw Hauth Hdec Hn.
  pose proof (only_canonical_authenticates ttl h1 now sp Hw Hauth) as Hc.
  assert (Hw' : Forall wf_new (h1 ++ SLogout now sp :: h2)).
  { apply Forall_app. split; auto. constructor; [exact I|]. eapply Forall_impl; [exact Hn|]. cbn. intros ? [? _]; assumption. }
  destruct (classic_canonical sp') as [Hc'|Hc'].
  - (* the canonical spelling: it is [sp] itself *)
    assert (sp' = sp) by (apply canonical_unique; auto). subst sp'.
    apply removed_final; auto; [right; eauto|].
    eapply Forall_impl; [exact Hn|]. intros o [Ho1 Ho2]. split; auto.
    intros (t0 & raw & u & -> & E). apply (Ho2 _ _ _ eq_refl).
    rewrite <- E. symmetry. apply hex_decode_encode. exact Ho1.
  - (* any other spelling never authenticates *)
    apply absent_not_auth, inv_noncanonical; auto using reachable_inv.
Qed.

(** Likewise once a request has found the cookie expired. *)
Theorem expired_final ttl h1 h2 now t sp :
  Forall wf_new h1 ->
  snd (check_session ttl now sp (srun ttl s_init h1)) = CSExpired ->
  Forall (fun o => wf_new o /\ ~ issues sp o) h2 ->
  authenticates ttl t sp (srun ttl s_init (h1 ++ SCheck now sp :: h2)) = false.
Proof.
  intros Hw Hex Hn. rewrite srun_app. cbn [srun]. apply absent_not_auth, stays_absent; auto.
  - apply inv_step; auto using reachable_inv. exact I.
  - cbn. revert Hex. unfold check_session.
    destruct (ss_mem (srun ttl s_init h1) !! sp) as [s|]; cbn; [|discriminate].
    destruct (s_expire s <=? u32 now); cbn; [intros _; apply lookup_delete|].
    destruct (s_expire s / day =? u32 (u32 now + ttl) / day); discriminate.
Qed.

(** * The window: completeness *)

Definition op_time (o : sop) : option N :=
  match o with SNew t _ _ | SCheck t _ | SLogout t _ | SRestart t => Some t | SRemove _ => None end.

(** Operations that may take the token [raw] away: a logout request or removal
    with its canonical spelling, a direct removal with any spelling of it, and
    a second issue of the same token. *)
Definition spares (raw : bytes) (o : sop) : Prop :=
  ~ removes (hex_encode raw) o /\
  (forall sp, o = SRemove sp -> hex_decode_prefix sp <> raw) /\
  (forall t' raw' u', o = SNew t' raw' u' -> raw' <> raw).

(** From its creation at [t0] until [t0 + ttl] a token that is not logged out
    authenticates (with the spelling it was issued with), whatever else
    happens (other logins, requests with any spelling, restarts), provided the
    clock does not go back before [t0] and no 32-bit wrap-around is in reach. *)
Theorem session_window_complete ttl h1 h2 t0 t raw u :
  Forall wf_new (h1 ++ SNew t0 raw u :: h2) ->
  Forall (fun o => spares raw o /\ (forall t', op_time o = Some t' -> t0 <= t' <= t)) h2 ->
  t0 <= t -> t < t0 + ttl -> t + ttl < 4294967296 ->
  authenticates ttl t (hex_encode raw) (srun ttl s_init (h1 ++ SNew t0 raw u :: h2)) = true.
Proof.
  intros Hw Hall H0 H1 H2. rewrite srun_app. cbn [srun].
  apply Forall_app in Hw as [Hw1 Hw2]. apply Forall_cons_1 in Hw2 as [Hraw Hw2]. cbn in Hraw.
  set (sp := hex_encode raw).
  set (st0 := fst (sstep ttl (SNew t0 raw u) (srun ttl s_init h1))).
  assert (Hi0 : inv st0) by (apply inv_step; auto using reachable_inv).
  assert (Hs0 : exists s, ss_mem st0 !! sp = Some s /\ ss_disk st0 !! raw = Some s /\ t0 + ttl <= s_expire s).
  { cbn. rewrite !lookup_insert. eexists; repeat split; eauto. cbn. unfold u32.
    rewrite (N.mod_small t0) by lia. rewrite N.mod_small by lia. lia. }
  clearbody st0. revert st0 Hi0 Hs0.
  induction h2 as [|o h2 IH]; intros st Hi (s & Hs & Hd & He).
  - cbn. apply authenticates_spec. exists s. split; auto. unfold u32. rewrite N.mod_small by lia. lia.
  - apply Forall_cons_1 in Hall as [((Ho1 & Ho2 & Ho3) & Ho4) Hall].
    apply Forall_cons_1 in Hw2 as [Hwo Hw2]. cbn [srun].
    apply IH; auto using inv_step.
    (* an entry of another spelling decodes to another key *)
    assert (Hother : forall sp' s', sp' <> sp -> ss_mem st !! sp' = Some s' -> hex_decode_prefix sp' <> raw).
    { intros sp' s' Hne Hm E. destruct (inv_mem _ Hi _ _ Hm) as (raw' & -> & Hb').
      rewrite hex_decode_encode in E by auto. subst raw'. apply Hne. reflexivity. }
    destruct o as [now raw' u'|now sp'|now sp'|sp'|now]; cbn [sstep].
    + cbn. assert (raw' <> raw) by (eapply Ho3; eauto).
      rewrite !lookup_insert_ne; eauto. intros E. apply (inj hex_encode) in E. auto.
    + specialize (Ho4 now eq_refl).
      assert (Hu : u32 now = now) by (unfold u32; apply N.mod_small; lia).
      unfold check_session. destruct (ss_mem st !! sp') as [s'|] eqn:E; cbn; eauto.
      destruct (decide (sp' = sp)) as [->|Hne].
      * assert (s' = s) by congruence. subst s'.
        replace (s_expire s <=? u32 now) with false by (symmetry; apply N.leb_gt; lia).
        destruct (s_expire s / day =? u32 (u32 now + ttl) / day); cbn; eauto.
        unfold sp. rewrite hex_decode_encode by auto. rewrite !lookup_insert.
        eexists; repeat split; eauto. cbn. rewrite Hu. unfold u32.
        rewrite N.mod_small by lia. lia.
      * pose proof (Hother _ _ Hne E) as Hk.
        destruct (s_expire s' <=? u32 now); cbn; [rewrite !lookup_delete_ne by auto; eauto|].
        destruct (s_expire s' / day =? u32 (u32 now + ttl) / day); cbn; eauto.
        rewrite !lookup_insert_ne by auto. eauto.
    + assert (Hne : sp' <> sp) by (intros ->; apply Ho1; right; eauto).
      unfold logout_request, check_session. destruct (ss_mem st !! sp') as [s'|] eqn:E; cbn; eauto.
      pose proof (Hother _ _ Hne E) as Hk.
      destruct (s_expire s' <=? u32 now); cbn; [rewrite !lookup_delete_ne by auto; eauto|].
      destruct (s_expire s' / day =? u32 (u32 now + ttl) / day); cbn.
      * rewrite !lookup_delete_ne by auto. eauto.
      * rewrite !lookup_delete_ne, !lookup_insert_ne by auto. eauto.
    + assert (Hne : sp' <> sp) by (intros ->; apply Ho1; left; reflexivity).
      cbn. rewrite !lookup_delete_ne; eauto.
    + specialize (Ho4 now eq_refl).
      assert (Hl : u32 now < s_expire s) by (unfold u32; rewrite N.mod_small by lia; lia).
      exists s. split; [apply restart_mem_Some; eauto|]. split; [apply restart_disk_Some; auto|auto].
Qed.

(** * What the key handling is needed for *)

(** Function level only: [removeSession] with a non-canonical spelling of a
    live token (upper case) deletes the bucket entry, leaves the map entry:
    the session goes on authenticating until the next restart.  Not reachable
    over HTTP (the logout route runs [checkSession] on the same string first,
    which does not find it); recorded because it is why [mirror] carries the
    [wf_http] hypothesis. *)
Definition ex_raw : bytes := [171].            (* "ab" *)
Definition ex_upper : bytes := [65; 66].       (* "AB" *)

Example remove_other_spelling_refuted :
  let h := [SNew 1000 ex_raw [97]; SRemove ex_upper] in
  hex_decode_prefix ex_upper = ex_raw /\
  authenticates 3600 2000 (hex_encode ex_raw) (srun 3600 s_init h) = true /\
  ss_disk (srun 3600 s_init h) !! ex_raw = None /\
  authenticates 3600 2000 (hex_encode ex_raw) (srun 3600 s_init (h ++ [SRestart 1500])) = false /\
  (* the same spelling through the logout route: refused, nothing changes *)
  authenticates 3600 2000 (hex_encode ex_raw) (srun 3600 s_init [SNew 1000 ex_raw [97]; SLogout 1200 ex_upper; SRestart 1500]) = true.
Proof. vm_compute. repeat split. Qed.

(** Two slips the theorems above exclude.  (1) [checkSession] lower-cases the
    cookie before the lookup while [removeSession] does not: the upper-case
    spelling authenticates, its logout is accepted and leaves the session in
    memory.  (2) [removeSession] passes the cookie string, undecoded, to the
    bucket: the logout is undone by a restart. *)
Definition to_lower (s : bytes) : bytes :=
  map (fun c => if (65 <=? c) && (c <=? 90) then c + 32 else c) s.

Definition slip1_logout_request (ttl now : N) (sp : bytes) (st : sstate) : sstate :=
  let '(st', r) := check_session ttl now (to_lower sp) st in
  match r with CSOK => logout sp st' | _ => st' end.

Definition slip2_logout (sp : bytes) (st : sstate) : sstate :=
  {| ss_mem := delete sp (ss_mem st); ss_disk := delete sp (ss_disk st) |}.

Example key_slips_refuted :
  let st := new_session 3600 1000 ex_raw [97] s_init in
  (* (1) *)
  authenticates 3600 1100 (to_lower ex_upper) st = true /\
  authenticates 3600 1300 (to_lower ex_upper) (slip1_logout_request 3600 1200 ex_upper st) = true /\
  (* (2) *)
  authenticates 3600 1300 (hex_encode ex_raw) (slip2_logout (hex_encode ex_raw) st) = false /\
  authenticates 3600 1300 (hex_encode ex_raw) (restart 1250 (slip2_logout (hex_encode ex_raw) st)) = true /\
  (* the code *)
  authenticates 3600 1300 (hex_encode ex_raw) (fst (logout_request 3600 1200 (hex_encode ex_raw) st)) = false /\
  authenticates 3600 1300 (hex_encode ex_raw) (restart 1250 (fst (logout_request 3600 1200 (hex_encode ex_raw) st))) = false.
Proof. vm_compute. repeat split. Qed.

(** Non-vacuity: a token created, checked across a restart, logged out. *)
Definition ex_tok : bytes := [7; 200].
Definition ex_sp : bytes := hex_encode ex_tok.     (* "07c8" *)

Example session_premises_satisfiable :
  let h := [SNew 1000 ex_tok [97]; SCheck 1500 ex_sp; SRestart 2000; SCheck 2500 ex_sp] in
  Forall wf_http h /\
  authenticates 3600 3000 ex_sp (srun 3600 s_init h) = true /\
  authenticates 3600 4600 ex_sp (srun 3600 s_init h) = false /\
  authenticates 3600 3000 ex_sp (srun 3600 s_init (h ++ [SLogout 2600 ex_sp; SRestart 3000])) = false /\
  authenticates 3600 3000 [48; 55; 67; 56] (srun 3600 s_init h) = false /\      (* "07C8" *)
  authenticates 3600 3000 [48; 56] (srun 3600 s_init h) = false.
Proof.
  cbn zeta. split; [|vm_compute; repeat split].
  repeat constructor; unfold is_bytes; repeat constructor; lia.
Qed.

Definition ex_sp_upper : bytes := [48; 55; 67; 56].      (* "07C8" *)

Lemma ex_tok_bytes : is_bytes ex_tok.
Proof. unfold is_bytes, ex_tok. repeat constructor; lia. Qed.

(** Non-vacuity of the premises of [logout_final], [removed_final],
    [expired_final], [never_issued] and [session_window_complete]. *)
Example final_premises_satisfiable :
  let h1 := [SNew 1000 ex_tok [97]] in
  let h2 := [SRestart 1300; SCheck 1400 ex_sp_upper; SNew 1500 ex_raw [98]] in
  Forall wf_new h1 /\
  authenticates 3600 1200 ex_sp (srun 3600 s_init h1) = true /\
  hex_decode_prefix ex_sp_upper = hex_decode_prefix ex_sp /\
  Forall (fun o => wf_new o /\ forall t0 raw u, o = SNew t0 raw u -> raw <> hex_decode_prefix ex_sp) h2 /\
  Forall (fun o => wf_new o /\ ~ issues ex_sp o) h2 /\
  removes ex_sp (SLogout 1200 ex_sp) /\
  snd (check_session 3600 5000 ex_sp (srun 3600 s_init h1)) = CSExpired /\
  (* completeness: requests and logout requests with another spelling, a restart *)
  Forall wf_new (h1 ++ [SCheck 1100 ex_sp_upper; SLogout 1150 ex_sp_upper; SRestart 1200]) /\
  Forall (fun o => spares ex_tok o /\ (forall t', op_time o = Some t' -> 1000 <= t' <= 1300))
         [SCheck 1100 ex_sp_upper; SLogout 1150 ex_sp_upper; SRestart 1200].
Proof.
  cbn zeta.
  assert (Hb : is_bytes ex_tok) by apply ex_tok_bytes.
  assert (Hr : is_bytes ex_raw) by (unfold is_bytes, ex_raw; repeat constructor; lia).
  assert (Hne : ex_raw <> hex_decode_prefix ex_sp) by (vm_compute; discriminate).
  assert (Hni : forall o, (exists n, o = SRestart n) \/ (exists n sp, o = SCheck n sp) -> ~ issues ex_sp o).
  { intros o [[n ->]|(n & sp & ->)] (t0 & raw & u & E & _); discriminate. }
  split; [repeat constructor; exact Hb|].
  split; [vm_compute; reflexivity|]. split; [vm_compute; reflexivity|].
  split.
  { constructor; [|constructor; [|constructor; [|constructor]]].
    - split; [exact I|intros; discriminate].
    - split; [exact I|intros; discriminate].
    - split; [exact Hr|]. intros t0 raw u [= _ <- _]. exact Hne. }
  split.
  { constructor; [|constructor; [|constructor; [|constructor]]].
    - split; [exact I|apply Hni; eauto].
    - split; [exact I|apply Hni; eauto].
    - split; [exact Hr|]. intros (t0 & raw & u & [= _ <- _] & E). vm_compute in E. discriminate. }
  split; [right; eauto|]. split; [vm_compute; reflexivity|].
  split; [repeat constructor; exact Hb|].
  assert (Hsp : forall o, (forall sp, o <> SRemove sp) -> (forall n, o <> SLogout n (hex_encode ex_tok)) ->
                          (forall t r u, o <> SNew t r u) -> spares ex_tok o).
  { intros o H1 H2 H3. split; [intros [->|[n ->]]; [eapply H1|eapply H2]; reflexivity|].
    split; [intros sp ->; exfalso; eapply H1; reflexivity|intros t r u ->; exfalso; eapply H3; reflexivity]. }
  constructor; [|constructor; [|constructor; [|constructor]]].
  - split; [apply Hsp; intros; discriminate|]. cbn. intros t' [= <-]. lia.
  - split; [apply Hsp; intros; try discriminate|cbn; intros t' [= <-]; lia].
  - split; [apply Hsp; intros; discriminate|]. cbn. intros t' [= <-]. lia.
Qed.


(** C07 proofs about Model/QLog.v (on top of the C20 reader theorems). *)
From Coq Require Import ZArith NArith List Bool Lia.
From AGH Require Import Base.Run Model.QLogFile Model.QLog Proofs.QLogFile.
Import ListNotations.
Local Open Scope Z_scope.

(** ** Specification vocabulary *)

(** What a search is allowed to show: not ignored (host list, client flag)
    and satisfying cursor and criteria. *)
Definition keep (c : config) (p : params) (e : entry) : bool :=
  negb (is_ignored c e || client_ignored c e) && p_match c p e.

Definition opt_list (o : option (list entry)) : list entry :=
  match o with Some l => l | None => [] end.

(** Entries on disk, oldest first; everything the log holds; and the part of
    it a search can see (a buffer of a log configured with mem_size 0 is never
    searched). *)
Definition on_disk (s : state) : list entry := opt_list (rot s) ++ opt_list (cur s).
Definition flat (s : state) : list entry := on_disk s ++ buf s.
Definition flatv (s : state) : list entry :=
  on_disk s ++ (if mem_size (cfg s) =? 0 then [] else buf s).

(** The abstract answer: visible entries, newest first. *)
Definition vis (s : state) (p : params) : list entry := filter (keep (cfg s) p) (rev (flatv s)).

(** Times strictly increase along the list, all above [lo]. *)
Fixpoint incr (lo : Z) (l : list entry) : Prop :=
  match l with [] => True | e :: r => lo < e_time e /\ incr (e_time e) r end.

Definition len_ok (me : Z) (e : entry) : Prop := 0 < e_len e < me.

Definition wf (me : Z) (s : state) : Prop :=
  (exists lo, incr lo (flat s)) /\ Forall (len_ok me) (flat s).

(** ** Small list facts *)
Lemma firstnZ_all {A} (l : list A) n : lenZ l <= n -> firstnZ n l = l.
Proof.
  unfold lenZ. revert n; induction l as [|a l IH]; intros n H; cbn [firstnZ]; auto.
  cbn [length] in H. destruct (Z.leb_spec n 0); [lia|]. f_equal. apply IH. lia.
Qed.

Lemma firstnZ_nonpos {A} (l : list A) n : n <= 0 -> firstnZ n l = [].
Proof. destruct l; cbn; auto. intro. destruct (Z.leb_spec n 0); auto; lia. Qed.

Lemma lenZ_cons {A} (a : A) l : lenZ (a :: l) = lenZ l + 1.
Proof. unfold lenZ. cbn [length]. lia. Qed.

Lemma lenZ_nonneg {A} (l : list A) : 0 <= lenZ l.
Proof. unfold lenZ. lia. Qed.

Lemma lenZ_app {A} (a b : list A) : lenZ (a ++ b) = lenZ a + lenZ b.
Proof. unfold lenZ. rewrite app_length. lia. Qed.

Lemma firstnZ_firstnZ {A} (b : list A) : forall n m, n <= m -> firstnZ n (firstnZ m b) = firstnZ n b.
Proof.
  induction b as [|y b IH]; intros n m H; cbn [firstnZ]; auto.
  destruct (Z.leb_spec m 0).
  - destruct (Z.leb_spec n 0); [|lia]. reflexivity.
  - cbn [firstnZ]. destruct (Z.leb_spec n 0); auto. f_equal. apply IH. lia.
Qed.

Lemma firstnZ_app_firstnZ {A} (a b : list A) : forall n m, n <= lenZ a + m ->
  firstnZ n (a ++ firstnZ m b) = firstnZ n (a ++ b).
Proof.
  induction a as [|x a IH]; intros n m H; cbn [app].
  - apply firstnZ_firstnZ. unfold lenZ in H. cbn in H. lia.
  - cbn [firstnZ]. destruct (Z.leb_spec n 0); auto. f_equal. apply IH.
    rewrite lenZ_cons in H. lia.
Qed.

Lemma skipnZ_nonpos {A} (l : list A) n : n <= 0 -> skipnZ n l = l.
Proof. destruct l; cbn; auto. intro. destruct (Z.leb_spec n 0); auto; lia. Qed.

Lemma skipnZ_all {A} (l : list A) : forall n, lenZ l <= n -> skipnZ n l = [].
Proof.
  induction l as [|a l IH]; intros n H; cbn [skipnZ]; auto.
  rewrite lenZ_cons in H. pose proof (lenZ_nonneg l).
  destruct (Z.leb_spec n 0); [lia|]. apply IH. lia.
Qed.

Lemma lenZ_firstnZ_le {A} (l : list A) : forall n, 0 <= n -> lenZ (firstnZ n l) <= n.
Proof.
  induction l as [|a l IH]; intros n H; cbn [firstnZ]; [unfold lenZ; cbn; lia|].
  destruct (Z.leb_spec n 0); [unfold lenZ; cbn; lia|]. rewrite lenZ_cons. specialize (IH (n - 1)). lia.
Qed.

(** ** Matching *)
Lemma quick_of_match c e ks :
  forallb (crit_match c e) ks = true -> forallb (crit_quick c e) ks = true.
Proof.
  induction ks as [|k ks IH]; cbn; auto. intro H. apply andb_true_iff in H as [H1 H2].
  rewrite IH by auto. destruct k; cbn in *; rewrite ?H1; auto.
Qed.

Lemma process_fst c p e : fst (process c p e) = if keep c p e then Some e else None.
Proof.
  unfold process, keep.
  destruct (forallb (crit_quick c e) (p_crits p)) eqn:Q; cbn [negb].
  - destruct (is_ignored c e); cbn; auto. destruct (client_ignored c e); cbn; auto.
    destruct (p_match c p e); cbn; auto.
  - assert (p_match c p e = false) as ->.
    { unfold p_match. destruct (forallb (crit_match c e) (p_crits p)) eqn:M.
      - apply quick_of_match in M. congruence.
      - apply andb_false_r. }
    cbn. rewrite andb_false_r. reflexivity.
Qed.

(** readEntries returns the first [lim - n] visible entries, in order, when
    the scan limit is not reached. *)
Lemma collect_spec c p lim : forall L total n oldest,
  (p_scan p <= 0 \/ total + lenZ L <= p_scan p) -> 0 <= n < lim ->
  fst (collect c p lim (map Some L) total n oldest) = firstnZ (lim - n) (filter (keep c p) L).
Proof.
  induction L as [|e L IH]; intros total n oldest Hs Hn; cbn [map collect filter].
  - destruct ((0 <? p_scan p) && (p_scan p <=? total)); reflexivity.
  - rewrite lenZ_cons in Hs. pose proof (lenZ_nonneg L).
    replace ((0 <? p_scan p) && (p_scan p <=? total)) with false
      by (symmetry; apply andb_false_iff; destruct Hs; [left; apply Z.ltb_ge|right; apply Z.leb_gt]; lia).
    pose proof (process_fst c p e) as Hp. destruct (process c p e) as [ent ts]. cbn [fst] in Hp. subst ent.
    destruct (keep c p e).
    + cbn [firstnZ]. destruct (Z.leb_spec (lim - n) 0); [lia|].
      destruct (Z.eqb_spec (n + 1) lim).
      * cbn [fst]. rewrite firstnZ_nonpos by lia. reflexivity.
      * specialize (IH (total + 1) (n + 1) ts ltac:(lia) ltac:(lia)).
        destruct (collect c p lim (map Some L) (total + 1) (n + 1) ts). cbn [fst] in *.
        rewrite IH. do 2 f_equal. lia.
    + apply IH; lia.
Qed.

(** ** From reader output back to entries *)
Lemma fsize_qf_nonneg me es : Forall (len_ok me) es -> 0 <= fsize (qf es).
Proof. induction 1 as [|e es H _ IH]; unfold qf in *; cbn [map fsize] in *; [lia|]. unfold len_ok in H. lia. Qed.

Lemma lines_ok_qf me es : Forall (len_ok me) es -> lines_ok me (qf es).
Proof. induction 1; cbn; constructor; auto. Qed.

Lemma entry_at_app me pre e suf : forall o,
  Forall (len_ok me) pre ->
  entry_at (pre ++ e :: suf) o (o + fsize (qf pre)) (e_len e) = Some e.
Proof.
  induction pre as [|a pre IH]; intros o H; cbn [app entry_at qf map fsize].
  - rewrite Z.add_0_r, !Z.eqb_refl. reflexivity.
  - inversion H as [|? ? Ha Hpre]; subst. pose proof (fsize_qf_nonneg _ _ Hpre). unfold len_ok in Ha.
    fold (qf pre).
    destruct (Z.eqb_spec o (o + (e_len a + 1 + fsize (qf pre)))); [lia|].
    rewrite <- (IH (o + e_len a + 1) Hpre). f_equal. lia.
Qed.

Lemma lookup_spans me es : Forall (len_ok me) es ->
  forall pre suf, es = pre ++ suf ->
  map (fun x : Z * Z => entry_at es 0 (fst x) (snd x)) (spans (qf suf) (fsize (qf pre))) = map Some suf.
Proof.
  intros Hok pre suf; revert pre; induction suf as [|e suf IH]; intros pre E; cbn [qf map spans]; auto.
  f_equal.
  - cbn [fst snd]. subst es. apply Forall_app in Hok as [Hpre _].
    rewrite <- (Z.add_0_l (fsize (qf pre))). eapply entry_at_app; eauto.
  - fold (qf suf). specialize (IH (pre ++ [e])). rewrite <- app_assoc in IH. specialize (IH E).
    unfold qf in IH at 2. rewrite map_app, fsize_app in IH. cbn [map fsize] in IH.
    rewrite <- IH. f_equal. f_equal. unfold qf. lia.
Qed.

Lemma lookup_tagged me fs i es : nth_error fs i = Some es -> Forall (len_ok me) es ->
  map (lookup fs) (tagged i (qf es)) = map Some (rev es).
Proof.
  intros Hn Hok. unfold tagged. rewrite map_map. cbn [lookup]. rewrite Nat2Z.id, Hn.
  rewrite map_rev. rewrite (map_rev Some). f_equal.
  apply (lookup_spans me es Hok [] es). reflexivity.
Qed.

Lemma lookup_all_rev_upto me fs : Forall (Forall (len_ok me)) fs ->
  forall i, (i <= length fs)%nat ->
  map (lookup fs) (all_rev_upto i (map qf fs)) = map Some (rev (concat (firstn i fs))).
Proof.
  intros Hok. induction i as [|i IH]; intro Hi; [reflexivity|].
  cbn [all_rev_upto]. rewrite map_app, IH by lia.
  destruct (nth_error fs i) as [es|] eqn:E; [|apply nth_error_None in E; lia].
  rewrite (firstn_S_snoc fs i []) by lia. rewrite concat_app. cbn [concat]. rewrite app_nil_r.
  rewrite rev_app_distr, map_app. f_equal.
  rewrite (nth_error_nth _ _ _ E).
  assert (nth i (map qf fs) [] = qf es) as ->.
  { apply nth_error_nth. rewrite nth_error_map, E. reflexivity. }
  eapply lookup_tagged; eauto. rewrite Forall_forall in Hok. apply Hok. eapply nth_error_In; eauto.
Qed.

(** ** Sorting an already sorted list *)
Fixpoint decr (hi : Z) (l : list entry) : Prop :=
  match l with [] => True | e :: r => e_time e < hi /\ decr (e_time e) r end.

Lemma decr_weaken hi hi' l : hi <= hi' -> decr hi l -> decr hi' l.
Proof. destruct l; cbn; auto. intros ? [? ?]; split; auto; lia. Qed.

Lemma sort_desc_sorted l : forall hi, decr hi l -> sort_desc l = l.
Proof.
  induction l as [|e l IH]; intros hi H; cbn [sort_desc fold_right]; auto.
  destruct H as [_ H]. fold (sort_desc l). rewrite (IH _ H).
  destruct l as [|y r]; cbn [insert_desc]; auto. destruct H as [H _].
  destruct (Z.gtb_spec (e_time y) (e_time e)); [lia|]. reflexivity.
Qed.

Lemma decr_filter f l : forall hi, decr hi l -> decr hi (filter f l).
Proof.
  induction l as [|e l IH]; intros hi H; cbn [filter]; auto. destruct H as [H1 H2].
  destruct (f e); cbn [decr].
  - split; auto.
  - apply IH. eapply decr_weaken; [|eauto]. lia.
Qed.

Lemma decr_firstnZ l : forall n hi, decr hi l -> decr hi (firstnZ n l).
Proof.
  induction l as [|e l IH]; intros n hi H; cbn [firstnZ]; auto.
  destruct (n <=? 0); cbn [decr]; auto. destruct H; split; auto.
Qed.

Lemma incr_app lo a b : incr lo (a ++ b) -> incr lo a.
Proof. revert lo; induction a as [|e a IH]; intros lo H; cbn in *; auto. destruct H; split; eauto. Qed.

Lemma incr_decr_rev l : forall lo, incr lo l -> exists hi, decr hi (rev l) /\
  (forall e, In e l -> lo < e_time e < hi).
Proof.
  induction l as [|e l IH]; intros lo H; cbn [rev].
  - exists lo. split; cbn; auto. intros ? [].
  - destruct H as [H1 H2]. destruct (IH _ H2) as (hi & Hd & Hb).
    exists (Z.max hi (e_time e + 1)). split.
    + clear IH. assert (G : forall r h, decr h r -> (forall x, In x r -> e_time e < e_time x) ->
        decr h (r ++ [e]) \/ r = []).
      { induction r as [|x r IHr]; intros h Hr Hx; [right; auto|left].
        cbn [app decr]. destruct Hr as [Hr1 Hr2]. split; auto.
        destruct (IHr _ Hr2 ltac:(intros; apply Hx; right; auto)) as [G | ->]; auto.
        cbn. split; auto. apply Hx. left; auto. }
      destruct (G (rev l) hi Hd) as [G' | ->].
      * intros x Hx. apply in_rev in Hx. apply Hb in Hx. lia.
      * eapply decr_weaken; [|exact G']. lia.
      * cbn. split; auto. lia.
    + intros x [<-|Hx]; [lia|]. apply Hb in Hx. lia.
Qed.

(** ** The search theorem (no cursor) *)
Definition dflt : entry := Build_entry 0 0 0 [] [] [] 0 false.

Definition page (s : state) (p : params) : list entry :=
  skipnZ (p_offset p) (firstnZ (p_offset p + p_limit p) (vis s p)).

Lemma concat_files_of s : concat (files_of s) = on_disk s.
Proof. unfold files_of, on_disk. destruct (rot s), (cur s); cbn; rewrite ?app_nil_r; auto. Qed.

Lemma total_len_qf fs : total_len (map qf fs) = total_lines fs.
Proof. unfold total_len, total_lines. induction fs; cbn; auto. unfold qf at 1. rewrite map_length. lia. Qed.

Lemma Forall_concat {A} (P : A -> Prop) (ls : list (list A)) :
  Forall P (concat ls) -> Forall (Forall P) ls.
Proof. induction ls; cbn; intro H; constructor; apply Forall_app in H; tauto. Qed.

Lemma search_files_start me bf s p :
  0 < me <= bf -> Forall (len_ok me) (on_disk s) -> p_older p = None ->
  (p_scan p <= 0 \/ lenZ (on_disk s) <= p_scan p) -> 0 < p_offset p + p_limit p ->
  fst (search_files me bf s p) =
    firstnZ (p_offset p + p_limit p) (filter (keep (cfg s) p) (rev (on_disk s))).
Proof.
  intros Hme Hok Hold Hscan Htl. unfold search_files. rewrite Hold. cbn [seek_record].
  rewrite <- concat_files_of in Hok, Hscan |- *. apply Forall_concat in Hok.
  rewrite <- total_len_qf.
  rewrite reader_reverse_complete; auto.
  2:{ apply Forall_forall. intros f Hf. apply in_map_iff in Hf as (es & <- & Hes).
      apply lines_ok_qf. rewrite Forall_forall in Hok. auto. }
  unfold all_rev. rewrite map_length.
  rewrite (lookup_all_rev_upto me) by auto. rewrite firstn_all.
  rewrite collect_spec; [rewrite Z.sub_0_r; reflexivity| |lia].
  destruct Hscan; [left; auto|right]. unfold lenZ in *. rewrite rev_length. lia.
Qed.

Theorem search_spec me bf s p :
  0 < me <= bf -> wf me s -> p_older p = None ->
  0 < p_limit p -> 0 <= p_offset p ->
  (p_scan p <= 0 \/ lenZ (on_disk s) <= p_scan p) ->
  exists o, search me bf s p = Ok (page s p) o /\
            (page s p <> [] -> o = e_time (last (page s p) dflt)).
Proof.
  intros Hme [[lo Hincr] Hlen] Hold Hlim Hoff Hscan.
  unfold search. destruct (Z.eqb_spec (p_limit p) 0); [lia|].
  assert (Hdisk : Forall (len_ok me) (on_disk s)).
  { unfold flat in Hlen. apply Forall_app in Hlen. tauto. }
  pose proof (search_files_start me bf s p Hme Hdisk Hold Hscan ltac:(lia)) as Hf.
  destruct (search_files me bf s p) as [fe fo]. cbn [fst] in Hf. subst fe.
  set (tl := p_offset p + p_limit p) in *.
  set (K := keep (cfg s) p).
  assert (Hm : search_memory s p = filter K (rev (if mem_size (cfg s) =? 0 then [] else buf s))).
  { unfold search_memory. destruct (mem_size (cfg s) =? 0); reflexivity. }
  rewrite Hm.
  set (M := filter K (rev (if mem_size (cfg s) =? 0 then [] else buf s))).
  set (F := filter K (rev (on_disk s))).
  assert (Hvis : M ++ F = vis s p).
  { unfold M, F, vis, flatv. rewrite rev_app_distr, filter_app. reflexivity. }
  assert (Hcut : (if lenZ (M ++ firstnZ tl F) >? tl then firstnZ tl (M ++ firstnZ tl F)
                  else M ++ firstnZ tl F) = firstnZ tl (vis s p)).
  { rewrite <- Hvis. destruct (Z.gtb_spec (lenZ (M ++ firstnZ tl F)) tl).
    - apply firstnZ_app_firstnZ. pose proof (lenZ_nonneg M). lia.
    - rewrite <- (firstnZ_all (M ++ firstnZ tl F) tl) by lia.
      apply firstnZ_app_firstnZ. pose proof (lenZ_nonneg M). lia. }
  replace ((lenZ (M ++ firstnZ tl F) >? tl) && (tl <? 0)) with false
    by (symmetry; apply andb_false_iff; right; apply Z.ltb_ge; lia).
  rewrite Hcut.
  (* already newest first *)
  assert (Hdec : exists hi, decr hi (firstnZ tl (vis s p))).
  { assert (Hv : exists lo', incr lo' (flatv s)).
    { exists lo. unfold flat, flatv in *. destruct (mem_size (cfg s) =? 0); auto.
      rewrite app_nil_r. eapply incr_app; eauto. }
    destruct Hv as [lo' Hv]. destruct (incr_decr_rev _ _ Hv) as (hi & Hd & _).
    exists hi. apply decr_firstnZ. unfold vis. apply decr_filter. exact Hd. }
  destruct Hdec as [hi Hdec]. rewrite (sort_desc_sorted _ _ Hdec).
  set (C := firstnZ tl (vis s p)) in *.
  assert (Hes : (if p_offset p >? 0
                 then if lenZ C >? p_offset p then (skipnZ (p_offset p) C, fo) else ([], 0)
                 else (C, fo)) = (page s p, if (p_offset p >? 0) && negb (lenZ C >? p_offset p) then 0 else fo)).
  { unfold page. fold tl. fold C. destruct (Z.gtb_spec (p_offset p) 0); cbn [andb].
    - destruct (Z.gtb_spec (lenZ C) (p_offset p)); cbn [negb]; auto.
      rewrite skipnZ_all by lia. reflexivity.
    - rewrite skipnZ_nonpos by lia. reflexivity. }
  rewrite Hes. eexists. split; [reflexivity|].
  intro Hne. destruct (page s p); [congruence|reflexivity].
Qed.

(** ** Histories: the invariant, and what each operation does to the log *)

(** Stamps of the recorded queries strictly increase; lines fit the limit. *)
Fixpoint hist_ok (me lo : Z) (ops : list op) : Prop :=
  match ops with
  | [] => True
  | OAdd e :: r | OAddAsync e :: r => lo < e_time e /\ len_ok me e /\ hist_ok me (e_time e) r
  | _ :: r => hist_ok me lo r
  end.

Definition bounded (hi : Z) (l : list entry) : Prop := Forall (fun e => e_time e <= hi) l.

Definition inv (me : Z) (s : state) (hi : Z) : Prop := wf me s /\ bounded hi (flat s).

Lemma incr_weaken lo lo' l : lo' <= lo -> incr lo l -> incr lo' l.
Proof. destruct l; cbn; auto. intros ? [? ?]; split; auto; lia. Qed.

Lemma incr_remove lo a x b : incr lo (a ++ x ++ b) -> incr lo (a ++ b).
Proof.
  revert lo; induction a as [|y a IH]; intro lo; cbn [app].
  - revert lo; induction x as [|z x IHx]; intro lo; cbn [app]; auto.
    intros [H1 H2]. apply IHx. eapply incr_weaken; [|eauto]. lia.
  - intros [H1 H2]. split; auto.
Qed.

Lemma incr_snoc l : forall lo e hi, incr lo l -> bounded hi l -> hi < e_time e -> lo < e_time e ->
  incr lo (l ++ [e]).
Proof.
  induction l as [|a l IH]; intros lo e hi H Hb He Hlo; cbn [app incr]; auto.
  destruct H as [H1 H2]. inversion Hb; subst. split; auto. eapply IH; eauto. lia.
Qed.

(** Every operation keeps the log except for one contiguous block (possibly
    empty) that it removes; [add] first appends the new entry. *)
Definition extra (s : state) (o : op) : list entry :=
  match o with OAdd e | OAddAsync e => if enabled (cfg s) then [e] else [] | _ => [] end.

Lemma flat_flush s : flat (flush s) = flat s.
Proof.
  unfold flush, flat, on_disk. destruct (buf s) eqn:E; [rewrite E; reflexivity|].
  cbn [rot cur buf opt_list]. destruct (cur s); cbn [opt_list]; rewrite ?app_nil_r, <- ?app_assoc; reflexivity.
Qed.

Lemma on_disk_flush_buf s : buf (flush s) = [].
Proof. unfold flush. destruct (buf s) eqn:E; auto. Qed.

Lemma flat_add_async s e : exists a x b,
  flat s ++ (if enabled (cfg s) then [e] else []) = a ++ x ++ b /\ flat (add_async s e) = a ++ b.
Proof.
  unfold add_async. destruct (enabled (cfg s)); cbn [negb].
  - unfold flat, on_disk, push. cbn [rot cur buf].
    set (d := opt_list (rot s) ++ opt_list (cur s)).
    destruct (lenZ (buf s ++ [e]) >? cap (cfg s)).
    + destruct (buf s) as [|y b]; cbn [app tl].
      * exists d, [e], []. rewrite !app_nil_r. auto.
      * exists d, [y], (b ++ [e]). rewrite <- !app_assoc. auto.
    + exists (d ++ buf s ++ [e]), [], []. rewrite !app_nil_r, <- !app_assoc. auto.
  - exists (flat s), [], []. rewrite !app_nil_r. auto.
Qed.

Lemma flat_add s e : flat (add s e) = flat (add_async s e).
Proof. unfold add. destruct (negb (pending s) && pending (add_async s e)); auto using flat_flush. Qed.

Lemma flat_step s o : exists a x b, flat s ++ extra s o = a ++ x ++ b /\ flat (step s o) = a ++ b.
Proof.
  destruct o as [e|e| | | |en ign cl|c]; cbn [step extra].
  - rewrite flat_add. apply flat_add_async.
  - apply flat_add_async.
  - exists (flat s), [], []. rewrite flat_flush, !app_nil_r. auto.
  - unfold rotate, flat, on_disk. destruct (cur s) as [c|] eqn:E.
    + cbn [rot cur buf opt_list]. exists [], (opt_list (rot s)), (c ++ buf s).
      rewrite !app_nil_r, <- !app_assoc. cbn [app]. auto.
    + exists ((opt_list (rot s) ++ opt_list (@None (list entry))) ++ buf s), [], [].
      rewrite E, !app_nil_r. auto.
  - exists [], (flat s), []. rewrite !app_nil_r. auto.
  - exists (flat s), [], []. rewrite !app_nil_r. auto.
  - unfold restart. set (s' := if file_enabled (cfg s) then flush s else s).
    assert (Hs' : flat s' = flat s) by (unfold s'; destruct (file_enabled (cfg s)); auto using flat_flush).
    unfold flat at 2. unfold on_disk. cbn [rot cur buf]. fold (on_disk s').
    exists (on_disk s'), (buf s'), []. rewrite !app_nil_r. rewrite <- Hs'. auto.
Qed.

Lemma inv_step me s o hi hi' :
  inv me s hi ->
  match o with OAdd e | OAddAsync e => hi < e_time e /\ len_ok me e /\ hi' = e_time e | _ => hi' = hi end ->
  inv me (step s o) hi'.
Proof.
  intros [[[lo Hi] Hl] Hb] Ho.
  destruct (flat_step s o) as (a & x & b & E1 & E2).
  assert (H : (exists lo', incr lo' (flat s ++ extra s o)) /\ Forall (len_ok me) (flat s ++ extra s o) /\
              bounded hi' (flat s ++ extra s o)).
  { destruct o as [e|e| | | | |]; cbn [extra]; try (subst hi'; rewrite app_nil_r; eauto);
    destruct Ho as (Ht & Hle & ->);
    (assert (Hb' : bounded (e_time e) (flat s))
       by (unfold bounded in *; eapply Forall_impl; [|exact Hb]; cbn; intros; lia));
    (destruct (enabled (cfg s)); [|rewrite app_nil_r; eauto]);
    (split; [|split];
     [ exists (Z.min lo (e_time e - 1)); apply (incr_snoc _ _ e hi); auto; try lia;
       eapply incr_weaken; [|eauto]; lia
     | apply Forall_app; split; auto
     | apply Forall_app; split; auto; constructor; auto; lia ]). }
  destruct H as ((lo' & H1) & H2 & H3). rewrite E1 in *. unfold inv, wf. rewrite E2.
  split; [split|].
  - exists lo'. eapply incr_remove; eauto.
  - apply Forall_app in H2 as [? H2]. apply Forall_app in H2 as [? ?]. apply Forall_app; auto.
  - unfold bounded in *. apply Forall_app in H3 as [? H3]. apply Forall_app in H3 as [? ?]. apply Forall_app; auto.
Qed.

Lemma inv_run me : forall ops s hi, inv me s hi -> hist_ok me hi ops ->
  exists hi', inv me (fold_left step ops s) hi'.
Proof.
  induction ops as [|o ops IH]; intros s hi Hinv Hok; cbn [fold_left]; eauto.
  destruct o as [e|e| | | | |]; cbn [hist_ok] in Hok;
    try (eapply IH; [eapply (inv_step me s _ hi hi); eauto|]; auto; fail);
    destruct Hok as (H1 & H2 & H3).
  - eapply IH; [eapply (inv_step me s (OAdd e) hi (e_time e)); eauto|]; auto.
  - eapply IH; [eapply (inv_step me s (OAddAsync e) hi (e_time e)); eauto|]; auto.
Qed.

(** Every reachable state is well formed. *)
Theorem wf_run me c ops lo : hist_ok me lo ops -> wf me (run c ops).
Proof.
  intro H. unfold run.
  destruct (inv_run me ops (init c) lo) as (hi & Hi & _); auto.
  split; [split|]; cbn; [exists 0; exact I|constructor|constructor].
Qed.

(** The precise effect of each operation on the log. *)
Lemma flat_add_disabled s e : enabled (cfg s) = false -> add s e = s.
Proof. unfold add, add_async. intros ->. cbn [negb]. rewrite andb_negb_l. reflexivity. Qed.

Lemma flat_add_enabled s e : enabled (cfg s) = true ->
  flat (add s e) = on_disk s ++ push (cfg s) (buf s) e.
Proof. rewrite flat_add. unfold add_async. intros ->. reflexivity. Qed.

Lemma push_room c b e : lenZ b < cap c -> push c b e = b ++ [e].
Proof.
  unfold push. rewrite lenZ_app. change (lenZ [e]) with 1. intro.
  destruct (Z.gtb_spec (lenZ b + 1) (cap c)); auto; lia.
Qed.

Lemma push_full c b e : lenZ b >= cap c -> push c b e = tl (b ++ [e]).
Proof.
  unfold push. rewrite lenZ_app. change (lenZ [e]) with 1. intro.
  destruct (Z.gtb_spec (lenZ b + 1) (cap c)); auto; lia.
Qed.

Lemma flat_rotate s c : cur s = Some c -> flat (rotate s) = c ++ buf s.
Proof. unfold rotate, flat, on_disk. intros ->. cbn. rewrite app_nil_r. reflexivity. Qed.

Lemma flat_rotate_none s : cur s = None -> rotate s = s.
Proof. unfold rotate. intros ->. reflexivity. Qed.

Lemma flat_clear s : flat (clear s) = [].
Proof. reflexivity. Qed.

Lemma flat_set_config s en ign cl : flat (set_config s en ign cl) = flat s.
Proof. reflexivity. Qed.

Lemma flat_restart s c :
  flat (restart s c) = if file_enabled (cfg s) then flat s else on_disk s.
Proof.
  unfold restart. destruct (file_enabled (cfg s)).
  - rewrite <- (flat_flush s). unfold flat at 1 2. cbn [rot cur buf]. rewrite on_disk_flush_buf.
    unfold on_disk. cbn [rot cur]. reflexivity.
  - unfold flat, on_disk. cbn. rewrite app_nil_r. reflexivity.
Qed.

(** With file logging on and a positive mem_size, an [add] never loses
    anything: the buffer is flushed as soon as it is full. *)
Lemma add_file_enabled_keeps s e :
  enabled (cfg s) = true -> file_enabled (cfg s) = true -> pending s = false -> lenZ (buf s) < cap (cfg s) ->
  flat (add s e) = flat s ++ [e] /\ lenZ (buf (add s e)) < cap (cfg (add s e)) /\ pending (add s e) = false.
Proof.
  intros He Hf Hp Hb. split.
  - rewrite flat_add_enabled, push_room by auto. unfold flat. rewrite app_assoc. reflexivity.
  - unfold add, add_async. rewrite He, Hf, Hp. cbn [negb andb orb cfg buf pending]. rewrite push_room by auto.
    rewrite lenZ_app. change (lenZ [e]) with 1.
    destruct (Z.geb_spec (lenZ (buf s) + 1) (mem_size (cfg s))).
    + unfold flush. cbn [buf].
      destruct (buf s ++ [e]) eqn:E; [destruct (buf s); discriminate|].
      cbn [cfg buf pending]. unfold lenZ, cap; cbn; split; [lia|reflexivity].
    + cbn [buf cfg pending]. rewrite lenZ_app. change (lenZ [e]) with 1. unfold cap in *. split; [lia|reflexivity].
Qed.

(** ** No parameter value crashes the request *)
Theorem no_panic me bf s q : handle me bf s q <> Panic.
Proof.
  unfold handle. destruct (parse q) as [p|] eqn:E; [|discriminate].
  assert (H : 0 <= p_limit p /\ 0 <= p_offset p).
  { unfold parse in E. destruct (q_older q) as [[t|]|]; try discriminate;
    (destruct (q_limit q) as [l|] eqn:El; [destruct (bad_int l) eqn:Bl; [discriminate|]|]);
    (destruct (q_offset q) as [o|] eqn:Eo; [destruct (bad_int o) eqn:Bo; [discriminate|]|]);
    (destruct (q_status q) as [st|]; [destruct ((st <? 0) || (st >? 9)); [discriminate|]|]);
    injection E as <-; cbn [p_limit p_offset];
    unfold bad_int in *; repeat match goal with H : _ || _ = false |- _ => apply orb_false_elim in H as [? ?] end;
    lia. }
  unfold search. destruct (p_limit p =? 0); [discriminate|].
  destruct (search_files me bf s p) as [fe fo].
  replace (p_offset p + p_limit p <? 0) with false by (symmetry; apply Z.ltb_ge; lia).
  rewrite andb_false_r.
  match goal with |- (let (es, o) := ?X in _) <> _ => destruct X end. discriminate.
Qed.

(** ** Corollaries in the words of the property *)
Lemma lenZ_filter_le {A} (f : A -> bool) l : lenZ (filter f l) <= lenZ l.
Proof. induction l; cbn [filter]; [lia|]. destruct (f a); rewrite ?lenZ_cons; lia. Qed.

Lemma skipnZ_firstnZ {A} (l : list A) : forall n m, 0 <= n -> 0 <= m ->
  skipnZ n (firstnZ (n + m) l) = firstnZ m (skipnZ n l).
Proof.
  induction l as [|a l IH]; intros n m Hn Hm; [reflexivity|].
  destruct (Z.eq_dec n 0) as [->|].
  - rewrite !skipnZ_nonpos by lia. reflexivity.
  - cbn [firstnZ skipnZ]. destruct (Z.leb_spec (n + m) 0); [lia|]. cbn [skipnZ].
    destruct (Z.leb_spec n 0); [lia|]. replace (n + m - 1) with (n - 1 + m) by lia. apply IH; lia.
Qed.

Lemma firstnZ_skipnZ {A} (l : list A) : forall n, firstnZ n l ++ skipnZ n l = l.
Proof.
  induction l as [|a l IH]; intro n; cbn [firstnZ skipnZ]; auto.
  destruct (n <=? 0); cbn [app]; auto. f_equal. apply IH.
Qed.

Lemma skipnZ_skipnZ {A} (l : list A) : forall a b, 0 <= a -> 0 <= b ->
  skipnZ a (skipnZ b l) = skipnZ (b + a) l.
Proof.
  induction l as [|x l IH]; intros a b Ha Hb.
  - destruct (skipnZ b []) eqn:E; cbn in *; auto; discriminate.
  - destruct (Z.eq_dec b 0) as [->|]; [rewrite (skipnZ_nonpos (x :: l) 0) by lia; reflexivity|].
    cbn [skipnZ]. destruct (Z.leb_spec b 0); [lia|]. destruct (Z.leb_spec (b + a) 0); [lia|].
    replace (b + a - 1) with (b - 1 + a) by lia. apply IH; lia.
Qed.

(** Offset paging: the page is exactly the [limit] entries that follow the
    first [offset] ones of the visible log ... *)
Lemma page_offset s p : 0 <= p_offset p -> 0 <= p_limit p ->
  page s p = firstnZ (p_limit p) (skipnZ (p_offset p) (vis s p)).
Proof. intros. unfold page. apply skipnZ_firstnZ; auto. Qed.

(** ... so consecutive pages tile it: a page followed by what comes after it
    is what was left before it (no gap, no duplicate, same order). *)
Lemma pages_tile {A} (V : list A) off lim : 0 <= off -> 0 <= lim ->
  firstnZ lim (skipnZ off V) ++ skipnZ (off + lim) V = skipnZ off V.
Proof. intros. rewrite <- skipnZ_skipnZ by auto. apply firstnZ_skipnZ. Qed.

(** Everything at once when the limit covers the log. *)
Lemma search_all me bf s p :
  0 < me <= bf -> wf me s -> p_older p = None -> p_offset p = 0 ->
  0 < p_limit p -> lenZ (flatv s) <= p_limit p ->
  (p_scan p <= 0 \/ lenZ (on_disk s) <= p_scan p) ->
  exists o, search me bf s p = Ok (vis s p) o.
Proof.
  intros Hme Hwf Hold Hoff Hlim Hcov Hscan.
  destruct (search_spec me bf s p Hme Hwf Hold Hlim ltac:(lia) Hscan) as (o & H & _).
  exists o. rewrite H. f_equal. unfold page. rewrite Hoff, skipnZ_nonpos by lia.
  apply firstnZ_all. unfold vis. pose proof (lenZ_filter_le (keep (cfg s) p) (rev (flatv s))).
  unfold lenZ in *. rewrite rev_length in *. lia.
Qed.

Definition shown (c : config) (e : entry) : bool := negb (is_ignored c e || client_ignored c e).

Lemma vis_no_criteria s p : p_older p = None -> p_crits p = [] ->
  vis s p = filter (shown (cfg s)) (rev (flatv s)).
Proof.
  intros Ho Hc. unfold vis. apply filter_ext. intro e. unfold keep, shown, p_match, older_ok.
  rewrite Ho, Hc. cbn. rewrite andb_true_r. reflexivity.
Qed.

Lemma complete_once_ordered me bf s p :
  0 < me <= bf -> wf me s ->
  p_older p = None -> p_crits p = [] -> p_offset p = 0 ->
  0 < p_limit p -> lenZ (flatv s) <= p_limit p ->
  (p_scan p <= 0 \/ lenZ (on_disk s) <= p_scan p) ->
  exists o, search me bf s p = Ok (filter (shown (cfg s)) (rev (flatv s))) o.
Proof.
  intros Hme Hwf Ho Hc Hoff Hl Hcov Hs.
  rewrite <- (vis_no_criteria s p Ho Hc). exact (search_all me bf s p Hme Hwf Ho Hoff Hl Hcov Hs).
Qed.

Lemma vis_In s p e : In e (vis s p) <-> In e (flatv s) /\ keep (cfg s) p e = true.
Proof. unfold vis. rewrite filter_In, <- in_rev. tauto. Qed.

(** A well-formed non-trivial state exists and is reachable: premises of the
    theorems are satisfiable. *)
Example wf_example :
  let c := Build_config true true 2 [] [] in
  let e i t := Build_entry i t 100 [97%N] [49%N] [] 0 false in
  let ops := [OAdd (e 1%N 10); OAdd (e 2%N 20); ORotate; OAdd (e 3%N 30); OAdd (e 4%N 40); OAdd (e 5%N 50)] in
  hist_ok max_entry_size 0 ops /\
  map e_id (flat (run c ops)) = [1; 2; 3; 4; 5]%N /\
  search max_entry_size buffer_size (run c ops) (Build_params None 2 1 0 []) =
    Ok [e 4%N 40; e 3%N 30] 30.
Proof. vm_compute. repeat split; intros; discriminate. Qed.

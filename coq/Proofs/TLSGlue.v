(** C16 (round 6): the strict server-name check of a handshake follows
    strict_sni_check of the configuration alone: server_name plays no part
    (Model/TLSGlue.v over Model/TLSSettings.v and Model/CertPrepare.v). *)
From Coq Require Import List NArith Bool Arith Lia.
From AGH Require Import Base.Run Base.Bytes Base.Dom Model.ClientID Model.CertNames Proofs.ClientID
  Proofs.CertNames Model.CertPrepare Proofs.CertPrepare Model.TLSSettings Proofs.TLSSettings
  Model.TLSGlue.
Import ListNotations.
Local Open Scope N_scope.

(** * The glue alone *)

Lemma glue_cases g s po a :
  (t_enabled s = false /\ new_dns_tls_config g s po a = Some dns_tls_empty) \/
  (t_enabled s = true /\ po = false /\ new_dns_tls_config g s po a = None) \/
  (t_enabled s = true /\ po = true /\
   exists d, new_dns_tls_config g s po a = Some d /\ dt_has_cert d = true /\
             dt_server_name d = t_server_name s /\
             dt_strict d = (if g then t_strict s && negb (is_nil (t_server_name s)) else t_strict s) /\
             dt_https d = nz (t_port_https s) && a /\
             dt_dot d = nz (t_port_dot s) && a /\ dt_doq d = nz (t_port_doq s) && a).
Proof.
  unfold new_dns_tls_config. destruct (t_enabled s); cbn [negb]; [|left; auto].
  right. destruct po; cbn [negb]; [right|left; auto].
  split; [reflexivity|]. split; [reflexivity|]. eexists. split; [reflexivity|]. cbn. auto 10.
Qed.

(** What the DNS server is handed: the strict flag and the name of the
    settings, for EVERY settings value -- no premise on the server name, the
    ports, the certificate. *)
Theorem glue_hands_over s po a d :
  new_dns_tls_config false s po a = Some d -> t_enabled s = true ->
  dt_strict d = t_strict s /\ dt_server_name d = t_server_name s /\ dt_has_cert d = true.
Proof.
  intros H He. destruct (glue_cases false s po a) as [(E & _)|[(_ & _ & E)|(_ & _ & d' & E & H1 & H2 & H3 & _)]];
    try congruence.
  rewrite E in H. injection H as <-. auto.
Qed.

Theorem glue_disabled g s po a :
  t_enabled s = false -> new_dns_tls_config g s po a = Some dns_tls_empty.
Proof. intros H. unfold new_dns_tls_config. rewrite H. reflexivity. Qed.

(** Round 4's [dns_tls] is the projection of the full function. *)
Theorem glue_refines_dns_tls s a :
  option_map (fun d => (dt_server_name d, dt_strict d)) (new_dns_tls_config false s true a) =
  Some (match dns_tls s with Some x => x | None => ([], false) end).
Proof. unfold new_dns_tls_config, dns_tls. destruct (t_enabled s); reflexivity. Qed.

(** The server name of the settings reaches nothing but the ServerName field. *)
Theorem glue_name_only_in_name s n po a c ip :
  option_map (fun d => to_tls_conf d c ip) (new_dns_tls_config false (with_name s n) po a) =
  option_map (fun d => to_tls_conf d c ip) (new_dns_tls_config false s po a).
Proof. unfold new_dns_tls_config. cbn. destruct (t_enabled s), po; reflexivity. Qed.

(** * Composed with Prepare and the handshake *)

(** DNS-over-TLS or DNS-over-QUIC is served with these settings. *)
Definition serves (s : tls_settings) (po a : bool) : Prop :=
  t_enabled s = true /\ po = true /\ a = true /\ (t_port_dot s <> 0 \/ t_port_doq s <> 0).

Lemma nz_true n : n <> 0 -> nz n = true.
Proof. intros H. unfold nz. apply N.eqb_neq in H. rewrite H. reflexivity. Qed.

Lemma serves_conf s po a c ip :
  serves s po a ->
  exists d, new_dns_tls_config false s po a = Some d /\
            serves_tls (to_tls_conf d c ip) /\ tc_strict (to_tls_conf d c ip) = t_strict s /\
            tc_cert (to_tls_conf d c ip) = c.
Proof.
  intros (He & -> & -> & Hp).
  destruct (glue_cases false s true true) as [(E & _)|[(_ & E & _)|(_ & _ & d & E & H1 & _ & H3 & _ & H5 & H6)]];
    try congruence.
  exists d. split; [exact E|]. split; [|split; [exact H3|reflexivity]].
  split; cbn; [exact H1|]. rewrite H5, H6, !andb_true_r.
  destruct Hp as [Hp|Hp]; rewrite (nz_true _ Hp); [reflexivity|apply orb_true_r].
Qed.

(** The theorem of this round: for every configuration that serves DoT / DoQ,
    after any earlier configurations of the same server, with strict_sni_check
    on a handshake is accepted exactly when its server name is well-formed
    and covered by the certificate -- whatever server_name is, empty or not. *)
Theorem strict_independent_of_server_name st pre s po a c ip sni v6 :
  serves s po a -> t_strict s = true ->
  exists d, new_dns_tls_config false s po a = Some d /\
    let st' := run_prepares false st (pre ++ [to_tls_conf d c ip]) in
    ts_installed st' = true /\
    (on_get_certificate st' sni v6 = true <-> sni_wellformed sni v6 = true /\ cert_covers c sni).
Proof.
  intros Hs Hst. destruct (serves_conf s po a c ip Hs) as (d & E & Hsv & Hstrict & Hc).
  exists d. split; [exact E|]. cbv zeta.
  destruct (handshake_follows_current_cert st pre _ sni v6 Hsv) as [Hi Hh].
  split; [exact Hi|]. rewrite Hh, Hstrict, Hst, Hc. apply strict_cert_names.
Qed.

(** With strict_sni_check off every handshake is let through. *)
Theorem lenient_accepts st pre s po a c ip sni v6 :
  serves s po a -> t_strict s = false ->
  exists d, new_dns_tls_config false s po a = Some d /\
    on_get_certificate (run_prepares false st (pre ++ [to_tls_conf d c ip])) sni v6 = true.
Proof.
  intros Hs Hst. destruct (serves_conf s po a c ip Hs) as (d & E & Hsv & Hstrict & Hc).
  exists d. split; [exact E|].
  destruct (handshake_follows_current_cert st pre _ sni v6 Hsv) as [_ ->].
  rewrite Hstrict, Hst. reflexivity.
Qed.

(** Two configurations that differ in server_name only treat every
    handshake alike. *)
Theorem handshake_ignores_server_name st s n po a c ip sni v6 :
  option_map (fun st' => on_get_certificate st' sni v6) (serve_settings false st (with_name s n) po a c ip) =
  option_map (fun st' => on_get_certificate st' sni v6) (serve_settings false st s po a c ip).
Proof.
  unfold serve_settings. pose proof (glue_name_only_in_name s n po a c ip) as H.
  destruct (new_dns_tls_config false (with_name s n) po a), (new_dns_tls_config false s po a);
    cbn in H |- *; congruence.
Qed.

(** * The guarded variant (refuted) *)

(** With a server name configured the two are the same function (why a test
    that always configures a name cannot tell them apart). *)
Theorem guarded_agrees_with_name s po a :
  t_server_name s <> [] -> new_dns_tls_config true s po a = new_dns_tls_config false s po a.
Proof.
  intros Hn. unfold new_dns_tls_config. destruct (t_server_name s); [congruence|].
  cbn [is_nil negb]. rewrite andb_true_r. reflexivity.
Qed.

Definition w_cert : cert := {| c_dns_names := [w_name; star :: dot :: w_name]; c_common_name := [] |}.
Definition w_evil : bytes := [101;118;105;108;46;110;101;116].     (* evil.net *)
Definition w_nameless : tls_settings := with_name w_conf [].

Lemma w_evil_not_covered : ~ cert_covers w_cert w_evil.
Proof.
  intros [H|(d & x & Hx & H & E)].
  - cbn in H. destruct H as [H|[H|[]]]; discriminate.
  - cbn in H. destruct H as [H|[H|[]]]; try discriminate.
    injection H as <-. apply (f_equal (@length _)) in E. rewrite app_length in E. cbn in E. lia.
Qed.

(** strict_sni_check: true, server_name empty: the guarded glue hands over
    "lenient", and a name outside the certificate is let in. *)
Theorem guarded_refuted :
  exists s c sni,
    serves s true true /\ t_strict s = true /\ ~ cert_covers c sni /\
    option_map dt_strict (new_dns_tls_config true s true true) = Some false /\
    option_map (fun st => on_get_certificate st sni false)
      (serve_settings true tls_state0 s true true c false) = Some true /\
    option_map (fun st => on_get_certificate st sni false)
      (serve_settings false tls_state0 s true true c false) = Some false.
Proof.
  exists w_nameless, w_cert, w_evil.
  split; [repeat split; try reflexivity; left; discriminate|].
  split; [reflexivity|]. split; [apply w_evil_not_covered|].
  vm_compute. repeat split; reflexivity.
Qed.

(** * Witnesses *)

(** The premises are satisfiable, with and without a server name, and the
    conclusion is not vacuous: names of the certificate pass, others do not. *)
Example ex_strict_both_names :
  forall s, In s [w_conf; w_nameless] ->
  serves s true true /\ t_strict s = true /\
  option_map (fun st => (on_get_certificate st w_name false,
                         on_get_certificate st ([97; 46] ++ w_name) false,
                         on_get_certificate st w_evil false,
                         on_get_certificate st [] false))
    (serve_settings false tls_state0 s true true w_cert false) = Some (true, true, false, false).
Proof.
  intros s [<-|[<-|[]]]; (split; [repeat split; try reflexivity; left; discriminate|]);
    split; try reflexivity; vm_compute; reflexivity.
Qed.

Example ex_glue_outcomes :
  new_dns_tls_config false w_conf false true = None /\
  new_dns_tls_config false (set_private false w_conf
      {| t_enabled := false; t_server_name := w_name; t_force_https := false; t_port_https := 0;
         t_port_dot := 853; t_port_doq := 0; t_port_dnscrypt := 0; t_dnscrypt_file := 0;
         t_allow_unenc_doh := false; t_cert_chain := 0; t_private_key := 0; t_cert_path := 1;
         t_key_path := 2; t_ciphers := []; t_strict := true |}) true true = Some dns_tls_empty /\
  option_map dt_dot (new_dns_tls_config false w_conf true false) = Some false.
Proof. vm_compute. auto. Qed.

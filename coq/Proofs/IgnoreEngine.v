(** Proofs about the modelled ignore engines (C08): for the entry forms of
    Model/IgnoreEngine.v, a configured name / domain / wildcard / root entry,
    in ANY letter case, matches every spelling of the names it stands for;
    [ignore_has] is [RuleEngine.match_request] on the corresponding rules; the
    never-stored theorems over the modelled engine. *)
From Coq Require Import List NArith Bool Lia.
From AGH Require Import Base.Run Base.NetAddr Base.RuleEngine Proofs.RuleEngine.
From AGH Require Import Model.ClientIndex Model.IgnoreEngine Model.LogPolicy Proofs.LogPolicy.
Import ListNotations.
Local Open Scope N_scope.

(** * Bytes *)
Lemma eqb_bytes_refl (s : bytes) : eqb_bytes s s = true.
Proof. induction s as [|c s IH]; cbn; [reflexivity|]. rewrite N.eqb_refl. exact IH. Qed.

Lemma has_prefix_app p s : has_prefix p (p ++ s) = true.
Proof. induction p as [|c p IH]; cbn; [reflexivity|]. rewrite N.eqb_refl. exact IH. Qed.

Lemma contains_app (pre mid post : bytes) : RuleEngine.contains mid (pre ++ mid ++ post) = true.
Proof.
  induction pre as [|c pre IH].
  - cbn [app]. destruct (mid ++ post) eqn:E; cbn [RuleEngine.contains]; rewrite <- E, has_prefix_app; reflexivity.
  - cbn [app RuleEngine.contains]. rewrite IH. apply orb_true_r.
Qed.

Lemma contains_nil s : RuleEngine.contains [] s = true.
Proof. destruct s; reflexivity. Qed.

(** The two byte-lowering functions (RuleEngine's and LogPolicy's) agree. *)
Lemma lower_byte_same c : RuleEngine.lower_byte c = LogPolicy.lower c.
Proof. reflexivity. Qed.

Lemma lower_map s : RuleEngine.lower s = map LogPolicy.lower s.
Proof. reflexivity. Qed.

Lemma plain_char_lower c : is_plain_char c = true -> lower_byte c = c.
Proof.
  unfold is_plain_char, is_lower_letter, is_digit, lower_byte. intros H.
  destruct ((65 <=? c) && (c <=? 90)) eqn:E; [|reflexivity].
  apply andb_true_iff in E. destruct E as [E1 E2]. apply N.leb_le in E1, E2.
  repeat (apply orb_true_iff in H; destruct H as [H|H]);
    try (apply andb_true_iff in H; destruct H as [H1 H2]; apply N.leb_le in H1, H2; lia);
    apply N.eqb_eq in H; lia.
Qed.

Lemma plain_lower d : forallb is_plain_char d = true -> RuleEngine.lower d = d.
Proof.
  induction d as [|c d IH]; cbn [forallb]; [reflexivity|]. intros H. apply andb_true_iff in H.
  destruct H as [Hc Hd]. unfold RuleEngine.lower in *. cbn [map]. rewrite (plain_char_lower c Hc), (IH Hd). reflexivity.
Qed.

Lemma plain_char_not_special c : is_plain_char c = true -> is_special c = false /\ tok_of c = TLit c.
Proof.
  unfold is_plain_char, is_lower_letter, is_digit, is_special, tok_of, c_star, c_caret, c_pipe. intros H.
  assert (Hne : c <> 42 /\ c <> 94 /\ c <> 124).
  { repeat (apply orb_true_iff in H; destruct H as [H|H]);
      try (apply andb_true_iff in H; destruct H as [H1 H2]; apply N.leb_le in H1, H2; lia);
      apply N.eqb_eq in H; lia. }
  destruct Hne as (H1 & H2 & H3).
  apply N.eqb_neq in H1, H2, H3. rewrite H1, H2, H3. split; reflexivity.
Qed.

(** * Tokens *)
Definition lits (d : bytes) : list tok := map TLit d.

(** A body of plain characters followed by one final special byte. *)
Lemma body_toks_plain_then d c :
  forallb is_plain_char d = true -> d <> [] ->
  body_toks (d ++ [c]) = lits d ++ (if c =? c_pipe then [TEnd] else [tok_of c]).
Proof.
  induction d as [|x d IH]; [intros _ H; congruence|]. intros H _. cbn [forallb] in H.
  apply andb_true_iff in H. destruct H as [Hx Hd].
  destruct (plain_char_not_special x Hx) as [_ Ht].
  destruct d as [|y d].
  - cbn. rewrite Ht. reflexivity.
  - change (body_toks ((x :: y :: d) ++ [c])) with (tok_of x :: body_toks ((y :: d) ++ [c])).
    rewrite IH by (auto; discriminate). rewrite Ht. reflexivity.
Qed.

Lemma body_toks_plain d : forallb is_plain_char d = true -> body_toks d = lits d.
Proof.
  induction d as [|x d IH]; [reflexivity|]. intros H. cbn [forallb] in H.
  apply andb_true_iff in H. destruct H as [Hx Hd].
  destruct (plain_char_not_special x Hx) as [_ Ht].
  destruct d as [|y d].
  - cbn. rewrite Ht.
    assert (x =? c_pipe = false) as ->; [|reflexivity].
    unfold tok_of in Ht. destruct (x =? c_pipe) eqn:E; [|reflexivity].
    apply N.eqb_eq in E. subst x. discriminate Hx.
  - change (body_toks (x :: y :: d)) with (tok_of x :: body_toks (y :: d)). rewrite IH by exact Hd. rewrite Ht. reflexivity.
Qed.

(** Literals match themselves (case-insensitively: here on equal text). *)
Lemma match_here_lits d ts s : match_here (lits d ++ ts) (d ++ s) = match_here ts s.
Proof.
  induction d as [|c d IH]; [reflexivity|]. cbn [lits map app match_here]. rewrite N.eqb_refl. exact IH.
Qed.

Lemma match_here_lits_self d : match_here (lits d) d = true.
Proof. pose proof (match_here_lits d [] []) as H. rewrite !app_nil_r in H. rewrite H. reflexivity. Qed.

Lemma search_skip toks x s : match_here toks s = true -> RuleEngine.search toks (x ++ s) = true.
Proof.
  intros H. induction x as [|c x IH]; cbn [app].
  - destruct s; cbn [RuleEngine.search]; rewrite H; reflexivity.
  - cbn [RuleEngine.search]. rewrite IH. apply orb_true_r.
Qed.

Lemma url_sub_dot toks x d :
  forallb is_hostch x = true -> match_here toks d = true -> url_sub toks (x ++ c_dot :: d) true = true.
Proof.
  intros Hx Hm. induction x as [|c x IH]; cbn [app url_sub].
  - rewrite N.eqb_refl, Hm. reflexivity.
  - cbn [forallb] in Hx. apply andb_true_iff in Hx. destruct Hx as [Hc Hx]. rewrite Hc, (IH Hx). apply orb_true_r.
Qed.

Lemma match_url_http toks host :
  match_here toks host || url_sub toks host false = true -> match_url toks (url_of host) = true.
Proof.
  intros H. unfold match_url, schemes, url_of, http_prefix. cbn [existsb].
  apply orb_true_iff. left.
  change (length [104; 116; 116; 112; 58; 47; 47]) with 7%nat.
  cbn [firstn skipn app]. cbn. exact H.
Qed.

(** * Shortcuts *)
Lemma segments_plain d cur rest c :
  forallb is_plain_char d = true -> is_special c = true ->
  segments (d ++ c :: rest) cur = (rev cur ++ d) :: segments rest [].
Proof.
  revert cur. induction d as [|x d IH]; intros cur Hd Hc.
  - cbn [app segments]. rewrite Hc, app_nil_r. reflexivity.
  - cbn [forallb] in Hd. apply andb_true_iff in Hd. destruct Hd as [Hx Hd].
    destruct (plain_char_not_special x Hx) as [Hs _].
    cbn [app segments]. rewrite Hs, (IH (x :: cur) Hd Hc). cbn [rev]. rewrite <- app_assoc. reflexivity.
Qed.

Lemma segments_plain_end d cur :
  forallb is_plain_char d = true -> segments d cur = [rev cur ++ d].
Proof.
  revert cur. induction d as [|x d IH]; intros cur Hd.
  - cbn. rewrite app_nil_r. reflexivity.
  - cbn [forallb] in Hd. apply andb_true_iff in Hd. destruct Hd as [Hx Hd].
    destruct (plain_char_not_special x Hx) as [Hs _].
    cbn [segments]. rewrite Hs, (IH (x :: cur) Hd). cbn [rev]. rewrite <- app_assoc. reflexivity.
Qed.

Lemma segments_special c rest cur : is_special c = true -> segments (c :: rest) cur = rev cur :: segments rest [].
Proof. intros H. cbn [segments]. rewrite H. reflexivity. Qed.

Lemma longest_first_domain (d : bytes) : longest_first [[]; []; d; []] = d.
Proof. destruct d; reflexivity. Qed.

Lemma longest_first_wildcard (d : bytes) : longest_first [[]; d] = d.
Proof. destruct d; reflexivity. Qed.

(** [||d^]: the shortcut is [d] (or nothing when [d] is a single byte). *)
Lemma shortcut_domain d :
  forallb is_plain_char d = true ->
  shortcut (c_pipe :: c_pipe :: d ++ [c_caret]) = if (1 <? length d)%nat then d else [].
Proof.
  intros Hd. unfold shortcut.
  assert (Hseg : segments (c_pipe :: c_pipe :: d ++ [c_caret]) [] = [[]; []; d; []]).
  { rewrite !segments_special by reflexivity.
    rewrite (segments_plain d [] [] c_caret Hd eq_refl). reflexivity. }
  rewrite Hseg, longest_first_domain, (plain_lower d Hd). reflexivity.
Qed.

(** [*.d]: the shortcut is [.d]. *)
Lemma shortcut_wildcard d :
  forallb is_plain_char d = true -> d <> [] ->
  shortcut (c_star :: c_dot :: d) = c_dot :: d.
Proof.
  intros Hd Hne. unfold shortcut.
  assert (Hp : forallb is_plain_char (c_dot :: d) = true) by (cbn [forallb]; rewrite Hd; reflexivity).
  assert (Hseg : segments (c_star :: c_dot :: d) [] = [[]; c_dot :: d]).
  { rewrite segments_special by reflexivity.
    rewrite (segments_plain_end (c_dot :: d) [] Hp). reflexivity. }
  rewrite Hseg, longest_first_wildcard, (plain_lower _ Hp).
  destruct d as [|x d]; [congruence|]. reflexivity.
Qed.

(** * The four entry forms *)

(** [||d^] matches [d] itself and every [x.d] with [x] a host-name prefix. *)
Theorem domain_pattern_matches d :
  forallb is_plain_char d = true -> d <> [] ->
  let p := c_pipe :: c_pipe :: d ++ [c_caret] in
  irule_match d (INet p) = true /\
  forall x, x <> [] -> forallb is_hostch x = true -> irule_match (x ++ c_dot :: d) (INet p) = true.
Proof.
  intros Hd Hne p.
  assert (Hcomp : compile p = PPat AURL (lits d ++ [TSep])).
  { unfold p, compile. change ((c_pipe =? c_pipe) && (c_pipe =? c_pipe)) with true. cbn iota.
    destruct (d ++ [c_caret]) eqn:E; [destruct d; discriminate|]. rewrite <- E.
    rewrite (body_toks_plain_then d c_caret Hd Hne). reflexivity. }
  assert (Hsm : should_match_hostname p = false) by reflexivity.
  assert (Hhere : forall s, match_here (lits d ++ [TSep]) (d ++ s) = match_here [TSep] s)
    by (intros s; apply match_here_lits).
  assert (Hd0 : match_here (lits d ++ [TSep]) d = true).
  { rewrite <- (app_nil_r d) at 2. rewrite Hhere. reflexivity. }
  split.
  - unfold irule_match, match_shortcut, match_pattern. rewrite Hcomp, Hsm.
    apply andb_true_iff. split.
    + unfold p. rewrite (shortcut_domain d Hd). destruct (1 <? length d)%nat; [|apply contains_nil].
      unfold url_of. rewrite <- (app_nil_r d) at 2. apply contains_app.
    + apply match_url_http. rewrite Hd0. reflexivity.
  - intros x Hx Hhost. unfold irule_match, match_shortcut, match_pattern. rewrite Hcomp, Hsm.
    apply andb_true_iff. split.
    + unfold p. rewrite (shortcut_domain d Hd). destruct (1 <? length d)%nat; [|apply contains_nil].
      unfold url_of. replace (http_prefix ++ x ++ c_dot :: d) with ((http_prefix ++ x ++ [c_dot]) ++ d ++ []).
      * apply contains_app.
      * rewrite app_nil_r, <- !app_assoc. reflexivity.
    + apply match_url_http. apply orb_true_iff. right.
      destruct x as [|c x]; [congruence|]. cbn [forallb] in Hhost. apply andb_true_iff in Hhost.
      destruct Hhost as [Hc Hx']. cbn [app url_sub]. rewrite Hc.
      rewrite (url_sub_dot _ x d Hx' Hd0). apply orb_true_r.
Qed.

(** [*.d] matches every [x.d], whatever [x] is. *)
Theorem wildcard_pattern_matches d x :
  forallb is_plain_char d = true -> d <> [] ->
  irule_match (x ++ c_dot :: d) (INet (c_star :: c_dot :: d)) = true.
Proof.
  intros Hd Hne.
  assert (Hp : forallb is_plain_char (c_dot :: d) = true) by (cbn [forallb]; rewrite Hd; reflexivity).
  assert (Hcomp : compile (c_star :: c_dot :: d) = PPat ANone (TStar :: lits (c_dot :: d))).
  { unfold compile. change ((c_star =? c_pipe) && (c_dot =? c_pipe)) with false. cbn iota.
    change (is_regex_pattern (c_star :: c_dot :: d)) with false. cbn iota.
    change (c_star =? c_pipe) with false. cbn iota.
    change (body_toks (c_star :: c_dot :: d)) with (tok_of c_star :: body_toks (c_dot :: d)).
    rewrite (body_toks_plain _ Hp). reflexivity. }
  unfold irule_match, match_shortcut, match_pattern. rewrite Hcomp.
  change (should_match_hostname (c_star :: c_dot :: d)) with true. cbn iota.
  apply andb_true_iff. split.
  - rewrite (shortcut_wildcard d Hd Hne). unfold url_of.
    replace (http_prefix ++ x ++ c_dot :: d) with ((http_prefix ++ x) ++ (c_dot :: d) ++ []).
    + apply contains_app.
    + rewrite app_nil_r, <- app_assoc. reflexivity.
  - apply search_skip. cbn [match_here].
    rewrite (match_here_lits_self (c_dot :: d)). reflexivity.
Qed.

(** [|.^] matches the root. *)
Theorem root_pattern_matches : irule_match [c_dot] (INet [c_pipe; c_dot; c_caret]) = true.
Proof. vm_compute. reflexivity. Qed.

(** * From the configured list to the engine *)
Lemma engine_of_in entries : forall rs e r,
  engine_of entries = Some rs -> In e entries -> classify (RuleEngine.lower e) = ERule r -> In r rs.
Proof.
  induction entries as [|x entries IH]; intros rs e r He Hin Hc; [destruct Hin|].
  cbn [engine_of fold_right] in He. fold (engine_of entries) in He. unfold add_entry in He.
  destruct Hin as [->|Hin].
  - rewrite Hc in He. destruct (engine_of entries) as [rs'|]; [|discriminate]. inversion He. left. reflexivity.
  - destruct (engine_of entries) as [rs'|] eqn:E.
    + specialize (IH rs' e r eq_refl Hin Hc).
      destruct (classify (RuleEngine.lower x)); inversion He; subst; auto. right. exact IH.
    + destruct (classify (RuleEngine.lower x)); discriminate.
Qed.

Lemma ignore_has_in rs host r :
  host <> [] -> In r rs -> irule_match host r = true -> ignore_has rs host = true.
Proof.
  intros Hh Hin Hm. unfold ignore_has. destruct host; [congruence|].
  apply existsb_exists. exists r. auto.
Qed.

(** * Spellings of a name: any letter case, with or without the trailing dot *)
Lemma lower_not_dot c : LogPolicy.lower c = 46 -> c = 46.
Proof.
  unfold LogPolicy.lower. destruct ((65 <=? c) && (c <=? 90)) eqn:E; [|auto].
  apply andb_true_iff in E. destruct E as [E1 E2]. apply N.leb_le in E1, E2. lia.
Qed.

Lemma trim_dot_snoc s : trim_dot (s ++ [46]) = s.
Proof. unfold trim_dot. rewrite rev_unit. apply rev_involutive. Qed.

Lemma not46_match (c : N) (r s : bytes) :
  c <> 46 -> match c :: r with 46 :: r' => rev r' | _ => s end = s.
Proof.
  intros H. destruct c as [|p]; [reflexivity|].
  do 7 (try (destruct p as [p|p|]; try reflexivity)); exfalso; apply H; reflexivity.
Qed.

Lemma trim_dot_keep s : last s 0 <> 46 -> trim_dot s = s.
Proof.
  unfold trim_dot. intros H. destruct (rev s) as [|c r] eqn:E; [reflexivity|].
  assert (Hs : s = rev r ++ [c]) by (rewrite <- (rev_involutive s), E; reflexivity).
  rewrite Hs, last_last in H. apply not46_match. exact H.
Qed.

Lemma last_map_lower s : last (map LogPolicy.lower s) 0 <> 46 -> last s 0 <> 46.
Proof.
  induction s as [|c s IH]; [auto|]. destruct s as [|c' s].
  - cbn. intros H Hc. apply H. rewrite Hc. reflexivity.
  - intros H. apply IH. exact H.
Qed.

(** Every spelling [s] (or [s.]) of a lower-case name [d] is normalised to [d]. *)
Theorem normalize_spelling s d :
  map LogPolicy.lower s = d -> d <> [] -> last d 0 <> 46 ->
  LogPolicy.normalize s = d /\ LogPolicy.normalize (s ++ [46]) = d.
Proof.
  intros Hd Hne Hlast. subst d.
  assert (Hs : last s 0 <> 46) by (apply last_map_lower; exact Hlast).
  assert (Hsne : s <> []) by (intros ->; apply Hne; reflexivity).
  split; unfold LogPolicy.normalize.
  - destruct (eqb_bytes s [46]) eqn:E.
    + exfalso. apply NetAddr.eqb_bytes_spec in E. subst s. apply Hs. reflexivity.
    + rewrite (trim_dot_keep s Hs). reflexivity.
  - destruct (eqb_bytes (s ++ [46]) [46]) eqn:E.
    + exfalso. apply NetAddr.eqb_bytes_spec in E. destruct s as [|c s]; [congruence|].
      destruct s; discriminate E.
    + rewrite trim_dot_snoc. reflexivity.
Qed.

(** * The configured entry, in any letter case, hides every spelling *)

(** A plain name (what urlfilter takes for a domain name). *)
Theorem plain_entry_matched entries rs e :
  engine_of entries = Some rs -> In e entries ->
  classify (RuleEngine.lower e) = ERule (IHost (RuleEngine.lower e)) ->
  ignore_has rs (RuleEngine.lower e) = true.
Proof.
  intros He Hin Hc.
  apply (ignore_has_in rs _ (IHost (RuleEngine.lower e))).
  - intros H0. rewrite H0 in Hc. discriminate Hc.
  - exact (engine_of_in entries rs e _ He Hin Hc).
  - cbn. apply eqb_bytes_refl.
Qed.

(** [||d^] in any letter case: [d] and its subdomains. *)
Theorem domain_entry_matched entries rs e d h :
  engine_of entries = Some rs -> In e entries ->
  RuleEngine.lower e = c_pipe :: c_pipe :: d ++ [c_caret] ->
  forallb is_plain_char d = true -> d <> [] ->
  (h = d \/ exists x, x <> [] /\ forallb is_hostch x = true /\ h = x ++ c_dot :: d) ->
  ignore_has rs h = true.
Proof.
  intros He Hin Hl Hd Hne Hn.
  assert (Hc : classify (RuleEngine.lower e) = ERule (INet (RuleEngine.lower e))).
  { rewrite Hl. unfold classify.
    assert (Hg : in_grammar (c_pipe :: c_pipe :: d ++ [c_caret]) = true).
    { unfold in_grammar. change (strip_anchor_prefix (c_pipe :: c_pipe :: d ++ [c_caret])) with (d ++ [c_caret]).
      unfold strip_anchor_suffix. rewrite rev_unit. change ((c_caret =? c_caret) || (c_caret =? c_pipe)) with true.
      cbn iota. rewrite rev_involutive.
      apply andb_true_iff. split.
      - destruct d; [congruence|reflexivity].
      - rewrite forallb_forall in *. intros c Hcin. unfold is_body_char. rewrite (Hd c Hcin). reflexivity. }
    rewrite Hg. cbn [negb].
    assert (Hdn : is_domain_name (c_pipe :: c_pipe :: d ++ [c_caret]) = false).
    { unfold is_domain_name. destruct (253 <? _)%nat; [reflexivity|].
      unfold dn_run. cbn [fold_left]. change (dn_step dn_init c_pipe) with (@None dn).
      assert (Hnone : forall l, fold_left (fun acc c => match acc with Some s => dn_step s c | None => None end) l None = None)
        by (induction l; auto).
      rewrite Hnone. reflexivity. }
    rewrite Hdn.
    assert (Hlen3 : (length (c_pipe :: c_pipe :: d ++ [c_caret]) <? 3)%nat = false).
    { apply Nat.ltb_ge. cbn [length]. rewrite app_length. cbn. lia. }
    rewrite Hlen3. reflexivity. }
  pose proof (engine_of_in entries rs e _ He Hin Hc) as Hr. rewrite Hl in Hr.
  destruct (domain_pattern_matches d Hd Hne) as [H1 H2].
  destruct Hn as [->|(x & Hx & Hh & ->)].
  - apply (ignore_has_in rs _ _ Hne Hr H1).
  - apply (ignore_has_in rs _ _ (fun H => app_cons_not_nil x d c_dot (eq_sym H)) Hr (H2 x Hx Hh)).
Qed.

(** [*.d] in any letter case: every name under [d]. *)
Theorem wildcard_entry_matched entries rs e d x :
  engine_of entries = Some rs -> In e entries ->
  RuleEngine.lower e = c_star :: c_dot :: d ->
  forallb is_plain_char d = true -> d <> [] ->
  ignore_has rs (x ++ c_dot :: d) = true.
Proof.
  intros He Hin Hl Hd Hne.
  assert (Hc : classify (RuleEngine.lower e) = ERule (INet (RuleEngine.lower e))).
  { rewrite Hl. unfold classify.
    assert (Hg : in_grammar (c_star :: c_dot :: d) = true).
    { unfold in_grammar. change (strip_anchor_prefix (c_star :: c_dot :: d)) with (c_star :: c_dot :: d).
      assert (Hb : forallb is_body_char (c_star :: c_dot :: d) = true).
      { cbn [forallb]. change (is_body_char c_star) with true. change (is_body_char c_dot) with true. cbn [andb].
        rewrite forallb_forall in *. intros c Hcin. unfold is_body_char. rewrite (Hd c Hcin). reflexivity. }
      assert (Hs : strip_anchor_suffix (c_star :: c_dot :: d) = c_star :: c_dot :: d).
      { unfold strip_anchor_suffix. destruct (rev (c_star :: c_dot :: d)) as [|c r] eqn:E; [reflexivity|].
        destruct ((c =? c_caret) || (c =? c_pipe)) eqn:Ec; [|reflexivity]. exfalso.
        assert (Hin' : In c (c_star :: c_dot :: d)) by (apply in_rev; rewrite E; left; reflexivity).
        rewrite forallb_forall in Hb. specialize (Hb c Hin').
        apply orb_true_iff in Ec. destruct Ec as [Ec|Ec]; apply N.eqb_eq in Ec; subst c; discriminate Hb. }
      rewrite Hs, Hb. reflexivity. }
    rewrite Hg. cbn [negb].
    assert (Hdn : is_domain_name (c_star :: c_dot :: d) = false).
    { unfold is_domain_name. destruct (253 <? _)%nat; [reflexivity|].
      unfold dn_run. cbn [fold_left]. change (dn_step dn_init c_star) with (@None dn).
      assert (Hnone : forall l, fold_left (fun acc c => match acc with Some s => dn_step s c | None => None end) l None = None)
        by (induction l; auto).
      rewrite Hnone. reflexivity. }
    rewrite Hdn.
    assert (Hlen3 : (length (c_star :: c_dot :: d) <? 3)%nat = false).
    { apply Nat.ltb_ge. destruct d; [congruence|]. cbn [length]. lia. }
    rewrite Hlen3. reflexivity. }
  pose proof (engine_of_in entries rs e _ He Hin Hc) as Hr. rewrite Hl in Hr.
  apply (ignore_has_in rs _ _ (fun H => app_cons_not_nil x d c_dot (eq_sym H)) Hr (wildcard_pattern_matches d x Hd Hne)).
Qed.

(** [|.^]: the root. *)
Theorem root_entry_matched entries rs e :
  engine_of entries = Some rs -> In e entries ->
  RuleEngine.lower e = [c_pipe; c_dot; c_caret] ->
  ignore_has rs [c_dot] = true.
Proof.
  intros He Hin Hl.
  assert (Hc : classify (RuleEngine.lower e) = ERule (INet (RuleEngine.lower e))) by (rewrite Hl; vm_compute; reflexivity).
  pose proof (engine_of_in entries rs e _ He Hin Hc) as Hr. rewrite Hl in Hr.
  apply (ignore_has_in rs _ _ (fun H => nil_cons (eq_sym H)) Hr root_pattern_matches).
Qed.

(** * [ignore_has] is urlfilter's DNS engine on the corresponding rule list *)
Definition to_rule (r : irule) : rule :=
  match r with
  | IHost n => RHost (mkHRule 0 (mkAddr V4 0 []) [n])
  | INet p => RNet (mkNRule 0 false p false false [] [] (mkClients [] []) (mkClients [] []) [] [] [] None)
  end.

(** DNSEngine.Match(host): only the host name is set. *)
Definition req_of (host : bytes) : ufreq := mkReq host 0 [] None [].

Definition bare (n : nrule) : Prop := nr_badfilter n = false /\ nr_drw n = None.

Lemma net_rules_bare rs : Forall bare (net_rules (map to_rule rs)).
Proof.
  induction rs as [|r rs IH]; [constructor|]. destruct r as [n|p]; cbn [map to_rule net_rules flat_map app].
  - exact IH.
  - constructor; [split; reflexivity|exact IH].
Qed.

Lemma basic_candidates_bare l : Forall bare l -> basic_candidates l = l.
Proof.
  intros H. unfold basic_candidates.
  assert (Hb : filter nr_badfilter l = []).
  { induction H as [|x l [Hx _] _ IH]; [reflexivity|]. cbn [filter]. rewrite Hx. exact IH. }
  rewrite (remove_badfilter_none l Hb). unfold remove_drw.
  induction H as [|x l [_ Hx] _ IH]; [reflexivity|]. cbn [filter]. unfold has_drw at 1. rewrite Hx. cbn [negb].
  f_equal. apply IH. cbn [filter] in Hb. destruct (nr_badfilter x); [discriminate|exact Hb].
Qed.

Lemma filter_bare (f : nrule -> bool) l : Forall bare l -> Forall bare (filter f l).
Proof.
  intros H. induction H as [|x l Hx _ IH]; [constructor|]. cbn [filter]. destruct (f x); [constructor|]; assumption.
Qed.

Definition is_nil {A} (l : list A) : bool := match l with [] => true | _ => false end.

Lemma is_nil_app {A} (a b : list A) : is_nil (a ++ b) = is_nil a && is_nil b.
Proof. destruct a; reflexivity. Qed.

Lemma existsb_split rs host :
  existsb (irule_match host) rs =
  negb (is_nil (match_all (map to_rule rs) (req_of host))) || negb (is_nil (host_hits (map to_rule rs) host)).
Proof.
  induction rs as [|r rs IH]; [reflexivity|]. cbn [existsb]. rewrite IH. clear IH.
  unfold match_all, host_hits. destruct r as [n|p]; cbn [map to_rule net_rules host_rules flat_map app irule_match].
  - fold (net_rules (map to_rule rs)). fold (host_rules (map to_rule rs)).
    cbn [hr_names count_bytes]. rewrite is_nil_app.
    destruct (eqb_bytes host n); cbn [repeat is_nil andb negb orb].
    + rewrite orb_true_r. reflexivity.
    + reflexivity.
  - fold (net_rules (map to_rule rs)). fold (host_rules (map to_rule rs)). cbn [filter].
    assert (Hm : nrule_match (req_of host) (mkNRule 0 false p false false [] [] (mkClients [] []) (mkClients [] []) [] [] [] None)
                 = match_shortcut p host && match_pattern p host).
    { unfold nrule_match. cbn. rewrite !andb_true_r. reflexivity. }
    rewrite Hm. destruct (match_shortcut p host && match_pattern p host); reflexivity.
Qed.

Theorem ignore_has_is_match_request rs host :
  ignore_has rs host = snd (match_request (map to_rule rs) (req_of host)).
Proof.
  unfold ignore_has, match_request. destruct host as [|c h]; [reflexivity|].
  change (rq_host (req_of (c :: h))) with (c :: h). cbv iota. rewrite existsb_split.
  set (all := match_all (map to_rule rs) (req_of (c :: h))).
  assert (Hbare : Forall bare all) by (apply filter_bare, net_rules_bare).
  destruct (get_dns_basic_rule all) as [n|] eqn:E.
  - cbn [snd]. destruct all as [|x all']; [|reflexivity].
    assert (H : get_dns_basic_rule [] = None) by reflexivity. rewrite H in E. discriminate.
  - apply basic_rule_none in E. rewrite (basic_candidates_bare all Hbare) in E. rewrite E. cbn [is_nil negb orb].
    destruct (host_hits (map to_rule rs) (c :: h)); reflexivity.
Qed.

(** * Never stored, over the modelled engine *)

(** What "not ignored" excludes, for a list inside the modelled forms: the
    name is not a configured plain name, not a configured [||d^] domain or a
    host under it, not under a configured [*.d], not the root if [|.^] is
    configured; the entries in any letter case. *)
Definition escapes (entries : list bytes) (name : bytes) : Prop :=
  (forall x, In x entries -> classify (RuleEngine.lower x) = ERule (IHost (RuleEngine.lower x)) ->
     name <> RuleEngine.lower x) /\
  (forall x d, In x entries -> RuleEngine.lower x = c_pipe :: c_pipe :: d ++ [c_caret] ->
     forallb is_plain_char d = true -> d <> [] ->
     name <> d /\ forall y, y <> [] -> forallb is_hostch y = true -> name <> y ++ c_dot :: d) /\
  (forall x d y, In x entries -> RuleEngine.lower x = c_star :: c_dot :: d ->
     forallb is_plain_char d = true -> d <> [] -> name <> y ++ c_dot :: d) /\
  (forall x, In x entries -> RuleEngine.lower x = [c_pipe; c_dot; c_caret] -> name <> [c_dot]).

Lemma not_ignored_escapes entries rs name :
  engine_of entries = Some rs -> ignore_has rs name = false -> escapes entries name.
Proof.
  intros He Hf. repeat split.
  - intros x Hin Hc ->. rewrite (plain_entry_matched entries rs x He Hin Hc) in Hf. discriminate.
  - intros ->. rewrite (domain_entry_matched entries rs x d d He H H0 H1 H2 (or_introl eq_refl)) in Hf. discriminate.
  - intros y Hy Hh ->.
    rewrite (domain_entry_matched entries rs x d _ He H H0 H1 H2 (or_intror (ex_intro _ y (conj Hy (conj Hh eq_refl))))) in Hf.
    discriminate.
  - intros x d y Hin Hl Hd Hne ->. rewrite (wildcard_entry_matched entries rs x d y He Hin Hl Hd Hne) in Hf. discriminate.
  - intros x Hin Hl ->. rewrite (root_entry_matched entries rs x He Hin Hl) in Hf. discriminate.
Qed.

(** The engine in force for a query is the one built from [entries]. *)
Definition qlog_engine_is (ev : env) (entries : list bytes) : Prop :=
  exists rs, engine_of entries = Some rs /\ forall n, e_qign ev n = ignore_has rs n.
Definition stats_engine_is (ev : env) (entries : list bytes) : Prop :=
  exists rs, engine_of entries = Some rs /\ forall n, e_sign ev n = ignore_has rs n.

(** After ANY history: every record in the memory buffer or the file stems
    from a query whose normalised name escapes every ignore list (of the
    modelled forms) that was configured when the query was processed. *)
Theorem configured_name_never_stored evs e :
  In e (all_log (run_log evs)) ->
  exists ev q, In (LQuery ev q) evs /\ e = log_entry ev q /\
    fst (fst e) = LogPolicy.normalize (q_name q) /\
    forall entries, qlog_engine_is ev entries -> escapes entries (fst (fst e)).
Proof.
  intros H. destruct (log_records_ok evs e H) as (ev & q & Hin & He & Hq & _).
  exists ev, q. split; [exact Hin|]. split; [exact He|]. split; [rewrite He; reflexivity|].
  intros entries (rs & Hrs & Hfn). apply (not_ignored_escapes entries rs _ Hrs). rewrite <- Hfn. exact Hq.
Qed.

Theorem configured_name_never_counted evs s :
  In s (all_stats (run_log evs)) ->
  exists ev q, In (LQuery ev q) evs /\ s = stat_entry ev q /\
    fst (fst s) = LogPolicy.normalize (q_name q) /\
    forall entries, stats_engine_is ev entries -> escapes entries (fst (fst s)).
Proof.
  intros H. destruct (stat_records_ok evs s H) as (ev & q & Hin & He & Hq & _).
  exists ev, q. split; [exact Hin|]. split; [exact He|].
  split; [rewrite He; unfold stat_entry; destruct (q_cid q); reflexivity|].
  intros entries (rs & Hrs & Hfn). apply (not_ignored_escapes entries rs _ Hrs). rewrite <- Hfn. exact Hq.
Qed.

(** Single step: a query for any spelling of a configured plain name (the
    entry in any letter case) is recorded nowhere. *)
Theorem configured_plain_name_not_recorded ev q st entries x :
  qlog_engine_is ev entries -> In x entries ->
  classify (RuleEngine.lower x) = ERule (IHost (RuleEngine.lower x)) ->
  LogPolicy.normalize (q_name q) = RuleEngine.lower x ->
  st_mem (process ev q st) = st_mem st.
Proof.
  intros (rs & Hrs & Hfn) Hin Hc Hn. apply ignored_name_not_logged. rewrite Hfn, Hn.
  exact (plain_entry_matched entries rs x Hrs Hin Hc).
Qed.

(** * Non-vacuity: a list with capitals, of all four forms *)
Definition ex_entries : list bytes :=
  [ [77;105;120;101;100;46;67;97;115;101;46;84;101;115;116];      (* Mixed.Case.Test *)
    [124;124;65;68;83;46;85;112;112;101;114;94];                  (* ||ADS.Upper^ *)
    [42;46;67;97;112;46;87;105;108;100];                          (* *.Cap.Wild *)
    [124;46;94];                                                  (* |.^ *)
    [120] ].                                                      (* x: too wide, dropped *)
Definition ex_lower_name : bytes := [109;105;120;101;100;46;99;97;115;101;46;116;101;115;116].   (* mixed.case.test *)

Lemma ex_entries_modelled :
  exists rs, engine_of ex_entries = Some rs /\ length rs = 4%nat /\
    classify (RuleEngine.lower (nth 0 ex_entries [])) = ERule (IHost ex_lower_name) /\
    (* MIXED.case.TEST. -> mixed.case.test is ignored *)
    ignore_has rs (LogPolicy.normalize [77;73;88;69;68;46;99;97;115;101;46;84;69;83;84;46]) = true /\
    (* sub.ads.upper, foo.cap.wild, the root *)
    ignore_has rs [115;117;98;46;97;100;115;46;117;112;112;101;114] = true /\
    ignore_has rs [102;111;111;46;99;97;112;46;119;105;108;100] = true /\
    ignore_has rs [46] = true /\
    (* cap.wild itself, x, ok.example are not *)
    ignore_has rs [99;97;112;46;119;105;108;100] = false /\
    ignore_has rs [120] = false /\
    ignore_has rs [111;107;46;101;120;97;109;112;108;101] = false.
Proof. eexists. split; [vm_compute; reflexivity|]. repeat split; vm_compute; reflexivity. Qed.

(** The realistic slip (no strings.ToLower on the configured list) would let
    the name through: the hosts-style rule of the un-lowered entry matches no
    normalised name (they have no capitals). *)
Lemma unlowered_entry_matches_nothing :
  ignore_has [IHost (nth 0 ex_entries [])] ex_lower_name = false /\
  ignore_has [IHost (RuleEngine.lower (nth 0 ex_entries []))] ex_lower_name = true.
Proof. split; vm_compute; reflexivity. Qed.

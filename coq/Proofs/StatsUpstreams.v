(** C09, round 4: the per-upstream statistics as exact integers.

    Go keeps, per unit and upstream address, the number of responses and the
    sum of their durations in microseconds (uint64), cuts both maps to their
    100 largest values on serialisation, merges them over the loaded units
    (the sums as float64: exact below 2^53) and reports sum / count * 1e-6.
    The model (Model/Stats.v: [u_up], [u_upt], [up_avg], [d_up_avg]) stops at
    the two integers.  Here:

    - an accepted update adds, for every counted upstream response (not cached,
      no error), one to the count and its duration to the sum of that address,
      and nothing else ([upstream_update]);
    - looking an address up in the merge of maps gives the sum of the lookups
      ([mget_merge], [mget_fold_merge]);
    - every entry (a, (t, n)) behind a reported average is: n = the responses
      of a summed over the loaded units, t = the time sums of a summed over
      the loaded units, t <> 0 ([up_avg_entries], [upstream_averages_exact]);
      and every upstream with responses and a non-zero sum has an entry
      ([up_avg_complete]);
    - with at most 100 upstreams in a unit, serialisation keeps both maps as
      they are ([ser_keeps_small_upstreams]).

    Restart in the same hour leaves the whole answer alone, these entries
    included ([Proofs/Stats.restart_preserves] is about the whole record). *)
From Coq Require Import ZArith List Bool Lia.
From AGH Require Import Model.Stats Proofs.Stats Proofs.StatsCut.
Import ListNotations.
Local Open Scope Z_scope.

(** total of the entries with key [k] (for a list with distinct keys: the
    entry's value) *)
Definition ksum (k : Z) (m : amap) : Z :=
  zsum (map snd (filter (fun p => fst p =? k) m)).

Lemma ksum_nil k : ksum k [] = 0.
Proof. reflexivity. Qed.

Lemma ksum_cons k p m : ksum k (p :: m) = (if fst p =? k then snd p else 0) + ksum k m.
Proof. unfold ksum. cbn [filter]. destruct (fst p =? k); cbn; unfold zsum; cbn; lia. Qed.

Lemma mget_above lo m k : sorted_from lo m -> k <= lo -> mget k m = 0.
Proof.
  revert lo. induction m as [|[k' v] m IH]; intros lo H Hk; [reflexivity|].
  cbn [sorted_from] in H. destruct H as [H1 H2]. cbn [mget].
  destruct (Z.eqb_spec k k'); [lia|]. apply (IH k'); [exact H2|lia].
Qed.

(** on a sorted map the lookup is the total of the key *)
Lemma mget_ksum_from lo m k : sorted_from lo m -> mget k m = ksum k m.
Proof.
  revert lo. induction m as [|[k' v] m IH]; intros lo H; [reflexivity|].
  cbn [sorted_from] in H. destruct H as [H1 H2]. cbn [mget]. rewrite ksum_cons. cbn [fst snd].
  rewrite (Z.eqb_sym k' k). destruct (Z.eqb_spec k k') as [->|N].
  - rewrite <- (IH k' H2). rewrite (mget_above k' m k' H2); lia.
  - rewrite (IH k' H2). lia.
Qed.

Lemma mget_ksum m k : sorted m -> mget k m = ksum k m.
Proof.
  destruct m as [|[k' v] m]; [reflexivity|]. cbn [sorted]. intros H.
  apply (mget_ksum_from (k' - 1)). cbn [sorted_from]. split; [lia|exact H].
Qed.

Lemma mget_bump_from lo k n m a :
  sorted_from lo m -> mget a (bump_by k n m) = mget a m + (if a =? k then n else 0).
Proof.
  revert lo. induction m as [|[k' v] m IH]; intros lo H; cbn [bump_by].
  - cbn [mget]. destruct (a =? k); lia.
  - cbn [sorted_from] in H. destruct H as [H1 H2].
    destruct (Z.ltb_spec k k').
    + cbn [mget]. destruct (Z.eqb_spec a k) as [E|N]; [|lia].
      destruct (Z.eqb_spec a k'); [lia|]. rewrite (mget_above k' m a H2); lia.
    + destruct (Z.eqb_spec k k') as [E|N].
      * subst k'. cbn [mget]. destruct (Z.eqb_spec a k); lia.
      * cbn [mget]. destruct (Z.eqb_spec a k') as [E'|N'].
        -- destruct (Z.eqb_spec a k); lia.
        -- apply (IH k'). exact H2.
Qed.

Lemma mget_bump k n m a : sorted m -> mget a (bump_by k n m) = mget a m + (if a =? k then n else 0).
Proof.
  destruct m as [|[k' v] m]; [intros _; cbn; destruct (a =? k); lia|]. cbn [sorted]. intros H.
  apply (mget_bump_from (k' - 1)). cbn [sorted_from]. split; [lia|exact H].
Qed.

(** lookup in a merge: no assumption on the map merged in *)
Lemma mget_merge b : forall a k, sorted a -> mget k (merge a b) = mget k a + ksum k b.
Proof.
  unfold merge. induction b as [|[k' v] b IH]; intros a k H; cbn [fold_left].
  - rewrite ksum_nil. lia.
  - rewrite IH by (apply sorted_bump; exact H). rewrite mget_bump by exact H.
    rewrite ksum_cons. cbn [fst snd]. rewrite (Z.eqb_sym k' k). lia.
Qed.

Lemma mget_fold_merge (l : list amap) : forall acc k, sorted acc ->
  mget k (fold_left merge l acc) = mget k acc + zsum (map (ksum k) l).
Proof.
  induction l as [|a l IH]; intros acc k H; cbn [fold_left map].
  - unfold zsum; cbn; lia.
  - rewrite IH by (apply sorted_merge; exact H). rewrite mget_merge by exact H.
    unfold zsum; cbn [fold_right]. lia.
Qed.

(** * One update *)

Definition count_ups (a : Z) (l : list (Z * bool * Z)) : Z :=
  zsum (map (fun x => if snd (fst x) && (fst (fst x) =? a) then 1 else 0) l).
Definition time_ups (a : Z) (l : list (Z * bool * Z)) : Z :=
  zsum (map (fun x => if snd (fst x) && (fst (fst x) =? a) then snd x else 0) l).

Lemma fold_ups (w : Z * bool * Z -> Z) l : forall m a, sorted m ->
  let m' := fold_left (fun (m : amap) (x : Z * bool * Z) =>
                         if snd (fst x) then bump_by (fst (fst x)) (w x) m else m) l m in
  sorted m' /\
  mget a m' = mget a m + zsum (map (fun x => if snd (fst x) && (fst (fst x) =? a) then w x else 0) l).
Proof.
  induction l as [|x l IH]; intros m a H; cbn [fold_left map].
  - split; [exact H|]. unfold zsum; cbn; lia.
  - cbv zeta in IH. destruct (snd (fst x)) eqn:E; cbn [andb].
    + destruct (IH (bump_by (fst (fst x)) (w x) m) a (sorted_bump _ _ _ H)) as [S G].
      split; [exact S|]. rewrite G, mget_bump by exact H.
      rewrite (Z.eqb_sym a). unfold zsum; cbn [fold_right]. lia.
    + destruct (IH m a H) as [S G]. split; [exact S|]. rewrite G. unfold zsum; cbn [fold_right]. lia.
Qed.

(** unit.add, the upstream part: one per counted response, its duration to
    the sum; cached and failed responses change nothing; maps stay sorted *)
Theorem upstream_update c e u a :
  sorted (u_up u) -> sorted (u_upt u) ->
  mget a (u_up (add_cat c e u)) = mget a (u_up u) + count_ups a (e_ups e) /\
  mget a (u_upt (add_cat c e u)) = mget a (u_upt u) + time_ups a (e_ups e) /\
  sorted (u_up (add_cat c e u)) /\ sorted (u_upt (add_cat c e u)).
Proof.
  intros H1 H2. unfold add_cat. cbn [u_up u_upt].
  assert (E1 : u_up (incr_cat c u) = u_up u) by (destruct c; reflexivity).
  assert (E2 : u_upt (incr_cat c u) = u_upt u) by (destruct c; reflexivity).
  rewrite E1, E2.
  destruct (fold_ups (fun _ => 1) (e_ups e) (u_up u) a H1) as [S1 G1].
  destruct (fold_ups (fun x => snd x) (e_ups e) (u_upt u) a H2) as [S2 G2].
  cbv zeta in *. repeat split; assumption.
Qed.

(** * The answer *)

Definition resp_of (us : list unit) : amap := fold_left merge (map u_up us) [].
Definition tsum_of (us : list unit) : amap := fold_left merge (map u_upt us) [].

Lemma up_avg_In us a t n :
  In (a, (t, n)) (up_avg us) <-> In (a, n) (resp_of us) /\ t = mget a (tsum_of us) /\ t <> 0.
Proof.
  unfold up_avg. fold (resp_of us) (tsum_of us).
  induction (resp_of us) as [|[k v] r IH]; cbn [fold_right fst snd].
  - split; [intros []|intros [[] _]].
  - destruct (Z.eqb_spec (mget k (tsum_of us)) 0) as [E|N].
    + rewrite IH. split.
      * intros (Hin & Ht & Hn). split; [right; exact Hin|]. split; assumption.
      * intros ([Heq|Hin] & Ht & Hn); [|split; [exact Hin|split; assumption]].
        inversion Heq; subst. congruence.
    + split.
      * intros [Heq|Hin].
        -- inversion Heq; subst. split; [left; reflexivity|]. split; [reflexivity|exact N].
        -- apply IH in Hin as (Hin & Ht & Hn). split; [right; exact Hin|]. split; assumption.
      * intros ([Heq|Hin] & Ht & Hn).
        -- inversion Heq; subst. left. reflexivity.
        -- right. apply IH. split; [exact Hin|]. split; assumption.
Qed.

Lemma sorted_In_mget_from lo m k v : sorted_from lo m -> In (k, v) m -> mget k m = v.
Proof.
  revert lo. induction m as [|[k' v'] m IH]; intros lo H Hin; [contradiction|].
  cbn [sorted_from] in H. destruct H as [H1 H2]. cbn [mget].
  destruct Hin as [Heq|Hin].
  - inversion Heq; subst. rewrite Z.eqb_refl. reflexivity.
  - pose proof (sorted_from_notin k' m (k, v) H2 Hin) as Hlt. cbn [fst] in Hlt.
    destruct (Z.eqb_spec k k'); [lia|]. apply (IH k'); assumption.
Qed.

Lemma sorted_In_mget m k v : sorted m -> In (k, v) m -> mget k m = v.
Proof.
  destruct m as [|[k' v'] m]; [intros _ []|]. cbn [sorted]. intros H Hin.
  apply (sorted_In_mget_from (k' - 1)); [|exact Hin]. cbn [sorted_from]. split; [lia|exact H].
Qed.

Lemma sorted_resp us : sorted (resp_of us).
Proof. apply sorted_fold. exact I. Qed.
Lemma sorted_tsum us : sorted (tsum_of us).
Proof. apply sorted_fold. exact I. Qed.

(** every entry behind a reported average: both integers are the sums over
    the units the answer was built from *)
Theorem up_avg_entries us a t n :
  In (a, (t, n)) (up_avg us) ->
  n = zsum (map (fun u => ksum a (u_up u)) us) /\
  t = zsum (map (fun u => ksum a (u_upt u)) us) /\ t <> 0.
Proof.
  intros H. apply up_avg_In in H as (Hin & Ht & Hn).
  split; [|split; [|exact Hn]].
  - rewrite <- (sorted_In_mget _ _ _ (sorted_resp us) Hin). unfold resp_of.
    rewrite mget_fold_merge by exact I. rewrite map_map. cbn [mget]. lia.
  - rewrite Ht. unfold tsum_of. rewrite mget_fold_merge by exact I. rewrite map_map. cbn [mget]. lia.
Qed.

Lemma mget_In_from lo m k : sorted_from lo m -> mget k m <> 0 -> In (k, mget k m) m.
Proof.
  revert lo. induction m as [|[k' v'] m IH]; intros lo H Hn; [cbn in Hn; lia|].
  cbn [sorted_from] in H. destruct H as [H1 H2]. cbn [mget] in *.
  destruct (Z.eqb_spec k k') as [->|N]; [left; reflexivity|right; apply (IH k'); assumption].
Qed.

(** ... and nothing is missing: an upstream with responses and a non-zero
    time sum has its entry *)
Theorem up_avg_complete us a :
  mget a (resp_of us) <> 0 -> mget a (tsum_of us) <> 0 ->
  In (a, (mget a (tsum_of us), mget a (resp_of us))) (up_avg us).
Proof.
  intros Hr Ht. apply up_avg_In. split; [|split; [reflexivity|exact Ht]].
  pose proof (sorted_resp us) as S. destruct (resp_of us) as [|[k' v'] m]; [cbn in Hr; lia|].
  cbn [sorted] in S. apply (mget_In_from (k' - 1)); [|exact Hr]. cbn [sorted_from]. split; [lia|exact S].
Qed.

(** for the API answer of any state *)
Theorem upstream_averages_exact s a t n :
  In (a, (t, n)) (d_up_avg (get_data s)) ->
  n = zsum (map (fun u => ksum a (u_up u)) (load_units s)) /\
  t = zsum (map (fun u => ksum a (u_upt u)) (load_units s)) /\ t <> 0.
Proof. unfold get_data. cbn [d_up_avg]. apply up_avg_entries. Qed.

(** serialisation keeps the upstream maps of a unit with at most 100 upstreams *)
Lemma ser_keeps_small_upstreams u :
  Z.of_nat (length (u_up u)) <= max_top -> Z.of_nat (length (u_upt u)) <= max_top ->
  u_up (ser u) = u_up u /\ u_upt (ser u) = u_upt u.
Proof.
  intros H1 H2. unfold ser. cbn [u_up u_upt]. unfold cut100.
  apply Z.leb_le in H1. apply Z.leb_le in H2. rewrite H1, H2. split; reflexivity.
Qed.

(** Non-vacuity, by computation: two upstreams, one response cached, one hour
    rolled over, a restart; 8.8.8.8 (key 1) answered three times in 2500 +
    2500 + 700 us, 1.1.1.1 (key 2) once in 0 us: no average for it. *)
Definition ex_up (ups : list (Z * bool * Z)) : op :=
  OUpdate {| e_res := 1; e_dom := 1; e_cli := 1; e_ups := ups; e_time := 1000 |}.

Example upstream_example :
  let h := [ex_up [(1, true, 2500); (2, false, 9000)]; ex_up [(1, true, 2500); (2, true, 0)];
            OFlush 490001; ex_up [(1, true, 700); (3, false, 5)]; ORestart 490001] in
  let d := get_data (run (init 490000 (24 * ms_hour) true) h) in
  d_up_avg d = [(1, (5700, 3))] /\ d_top_up d = [(1, 3); (2, 1)] /\ d_num d = 3.
Proof. vm_compute. repeat split. Qed.

(** C08, round 4: (G) the anonymiser as an object shared between the query log
    and the DNS server, configuration requests as operations of the history;
    (H) nested CIDRs: the most specific containing prefix decides. *)
From Coq Require Import Lia.
From AGH Require Import Base.Run Model.ClientIndex Model.LogPolicy.
From AGH Require Import Proofs.ClientIndex Proofs.LogPolicy.
Local Open Scope N_scope.

(** * IPMut cells *)
Lemma mut_store_length r f h : length (mut_store r f h) = length h.
Proof. revert r; induction h as [|x h IH]; intros [|r]; cbn; auto. Qed.

Lemma mut_load_store_eq r f h : (r < length h)%nat -> mut_load (mut_store r f h) r = f.
Proof.
  unfold mut_load. revert r; induction h as [|x h IH]; intros [|r] H; cbn in *; try lia; auto.
  apply IH. lia.
Qed.

Lemma mut_load_store_ne r r' f h : r <> r' -> mut_load (mut_store r f h) r' = mut_load h r'.
Proof.
  unfold mut_load. revert r r'; induction h as [|x h IH]; intros [|r] [|r'] H; cbn; auto; try congruence.
Qed.

(** * The wiring of home.initDNS: ONE cell, held by both *)
Definition wired (s : sys) : Prop :=
  s_srv_mut s = s_qlog_mut s /\ (s_qlog_mut s < length (s_heap s))%nat.

(** ... and what it buys: the function the server loads is the configured one. *)
Definition in_step (s : sys) : Prop := wired s /\ srv_anon s = s_anon s /\ qlog_anon s = s_anon s.

Lemma init_dns_in_step enabled anon : in_step (init_dns enabled anon).
Proof. unfold in_step, wired, srv_anon, qlog_anon, init_dns; cbn. repeat split; lia. Qed.

Lemma sys_step_wired s o : wired s -> wired (sys_step s o).
Proof.
  intros [H1 H2]. destruct o as [e a|e [a|]]; split; cbn [sys_step s_srv_mut s_qlog_mut s_heap];
    rewrite ?mut_store_length; assumption.
Qed.

Lemma sys_step_in_step s o : in_step s -> in_step (sys_step s o).
Proof.
  intros (Hw & Hs & Hq). split; [apply sys_step_wired, Hw|].
  destruct Hw as [H1 H2]. unfold srv_anon, qlog_anon in *.
  destruct o as [e a|e [a|]]; cbn [sys_step s_srv_mut s_qlog_mut s_heap s_anon];
    rewrite ?H1, ?mut_load_store_eq by assumption; try (rewrite H1 in Hs); auto.
Qed.

(** The query log's own view is the configuration record of Model/LogPolicy
    (refinement: the handlers of the system are [conf_step] on that view). *)
Lemma sys_conf_step s o : (s_qlog_mut s < length (s_heap s))%nat ->
  sys_conf (sys_step s o) = conf_step (sys_conf s) o.
Proof.
  intros H. unfold sys_conf, qlog_anon.
  destruct o as [e a|e [a|]]; cbn [sys_step conf_step conf_put conf_legacy s_qlog_mut s_heap s_anon s_enabled qc_enabled qc_anon qc_mut];
    rewrite ?mut_load_store_eq by assumption; reflexivity.
Qed.

Lemma hstep_in_step st o : in_step (fst st) -> in_step (fst (hstep st o)).
Proof. destruct o; cbn [hstep fst]; auto using sys_step_in_step. Qed.

Lemma hrun_in_step ops : forall st, in_step (fst st) -> in_step (fst (hrun ops st)).
Proof.
  unfold hrun. induction ops as [|o ops IH]; intros st H; cbn [fold_left]; [assumption|].
  apply IH, hstep_in_step, H.
Qed.

(** After ANY history of configuration requests (both handlers, any subset of
    the optional fields), queries, flushes, rotations and roll-overs, started
    the way home.initDNS starts: the function the DNS server loads and the one
    the report loads are the configured one. *)
Theorem server_reads_configured_flag enabled anon ops :
  let s := fst (hrun ops (init_dns enabled anon, empty_store)) in
  srv_anon s = s_anon s /\ qlog_anon s = s_anon s.
Proof.
  cbn zeta. destruct (hrun_in_step ops (init_dns enabled anon, empty_store)) as (_ & H1 & H2).
  - apply init_dns_in_step.
  - auto.
Qed.

(** Hence: at any reachable state with anonymisation configured on, the next
    query is recorded with the masked address (the premise [e_anon ev = qc_mut c]
    of [configured_anon_masks] is discharged by the object graph). *)
Theorem configured_on_recorded_masked enabled anon ops w q :
  let s := fst (hrun ops (init_dns enabled anon, empty_store)) in
  s_anon s = true ->
  recorded_ip (env_at s w) q = anonymize (fst (q_addr q)) /\ masked (recorded_ip (env_at s w) q).
Proof.
  cbn zeta. intros Ha. destruct (server_reads_configured_flag enabled anon ops) as [Hs _]. cbn zeta in Hs.
  unfold recorded_ip, env_at; cbn [e_anon]. rewrite Hs, Ha. split; [reflexivity|apply anonymize_masked].
Qed.

(** * Histories with configuration requests are histories of Proofs/LogPolicy *)
(** Every query gets the environment of the moment it is processed. *)
Fixpoint hlev (ops : list hop) (s : sys) : list lev :=
  match ops with
  | [] => []
  | HConf o :: r => hlev r (sys_step s o)
  | HQuery w q :: r => LQuery (env_at s w) q :: hlev r s
  | HFlush :: r => LFlush :: hlev r s
  | HRotate :: r => LRotate :: hlev r s
  | HRoll :: r => LRoll :: hlev r s
  end.

Lemma hrun_fold ops : forall s st,
  snd (hrun ops (s, st)) = fold_left apply_ev (hlev ops s) st.
Proof.
  unfold hrun. induction ops as [|o ops IH]; intros s st; [reflexivity|].
  destruct o; cbn [fold_left hstep hlev fst snd apply_ev]; apply IH.
Qed.

(** So every theorem over [run_log] (never stored, exactness, across rotation)
    holds of the histories with configuration requests. *)
Theorem history_is_run_log enabled anon ops :
  snd (hrun ops (init_dns enabled anon, empty_store)) = run_log (hlev ops (init_dns enabled anon)).
Proof. apply hrun_fold. Qed.

(** * Every record written after a switch-on is masked *)
(** The request leaves anonymisation configured on. *)
Definition turns_on (o : conf_op) : bool :=
  match o with
  | CPut _ a => a
  | CLegacy _ (Some a) => a
  | CLegacy _ None => false
  end.

(** The operation does not switch it off again (the deprecated request without
    the field leaves it alone). *)
Definition keeps_on (o : hop) : bool :=
  match o with
  | HConf (CPut _ a) => a
  | HConf (CLegacy _ (Some a)) => a
  | _ => true
  end.

Lemma turns_on_anon s o : turns_on o = true -> s_anon (sys_step s o) = true.
Proof. destruct o as [e a|e [a|]]; cbn; auto; discriminate. Qed.

Lemma keeps_on_anon s o : keeps_on (HConf o) = true -> s_anon s = true -> s_anon (sys_step s o) = true.
Proof. destruct o as [e a|e [a|]]; cbn; auto. Qed.

(** New records of a suffix that keeps anonymisation on: each is the record
    of a query of that suffix with the masked address. *)
Definition masked_record_of (post : list hop) (e : lentry) : Prop :=
  exists w q, In (HQuery w q) post /\ fst (fst e) = normalize (q_name q) /\
    snd (fst e) = anonymize (fst (q_addr q)) /\ masked (snd (fst e)) /\ snd e = q_cid q.
Definition masked_stat_of (post : list hop) (s : sentry) : Prop :=
  exists w q, In (HQuery w q) post /\ fst (fst s) = normalize (q_name q) /\
    (snd s = [] \/ snd s = anonymize (fst (q_addr q))) /\ masked (snd s).

Lemma masked_nil : masked [].
Proof. split; cbn; intros H; discriminate H. Qed.

Lemma all_log_flush st e : In e (all_log (flush st)) -> In e (all_log st).
Proof.
  unfold all_log, flush; cbn [st_old st_file st_mem]. rewrite app_nil_r, !in_app_iff. tauto.
Qed.
Lemma all_log_rotate st e : In e (all_log (rotate st)) -> In e (all_log st).
Proof.
  unfold all_log, rotate. destruct (st_has_file st); cbn [st_old st_file st_mem]; [|auto].
  cbn [app]. rewrite !in_app_iff. tauto.
Qed.
Lemma all_stats_roll st s : In s (all_stats (roll st)) -> In s (all_stats st).
Proof.
  unfold all_stats, roll; cbn [st_units st_stats]. rewrite concat_snoc, app_nil_r. auto.
Qed.

Lemma after_on post : forall s st,
  in_step s -> s_anon s = true -> forallb keeps_on post = true ->
  let st' := snd (hrun post (s, st)) in
  (forall e, In e (all_log st') -> In e (all_log st) \/ masked_record_of post e) /\
  (forall x, In x (all_stats st') -> In x (all_stats st) \/ masked_stat_of post x).
Proof.
  unfold hrun. induction post as [|o post IH]; intros s st Hi Ha Hk; cbn zeta; cbn [fold_left].
  - cbn [snd]. auto.
  - cbn [forallb] in Hk. apply andb_true_iff in Hk. destruct Hk as [Ho Hk].
    assert (Hw' : forall x, masked_stat_of post x -> masked_stat_of (o :: post) x).
    { intros x (w & q & Hin & H). exists w, q. split; [right; exact Hin|exact H]. }
    assert (Hl : forall e, masked_record_of post e -> masked_record_of (o :: post) e).
    { intros e (w & q & Hin & H). exists w, q. split; [right; exact Hin|exact H]. }
    destruct o as [c|w q| | |]; cbn [hstep fst snd].
    + (* configuration request that keeps it on *)
      destruct (IH (sys_step s c) st (sys_step_in_step s c Hi) (keeps_on_anon s c Ho Ha) Hk) as [I1 I2].
      split; intros e He; [destruct (I1 e He)|destruct (I2 e He)]; auto.
    + (* a query: the server loads the configured function *)
      destruct (IH s (process (env_at s w) q st) Hi Ha Hk) as [I1 I2].
      destruct Hi as (_ & Hs & _).
      assert (Hrec : recorded_ip (env_at s w) q = anonymize (fst (q_addr q))).
      { unfold recorded_ip, env_at; cbn [e_anon]. rewrite Hs, Ha. reflexivity. }
      split.
      * intros e He. destruct (I1 e He) as [Hin|Hm]; [|auto].
        unfold all_log, process in Hin; cbn [st_old st_file st_mem] in Hin.
        destruct (should_log (env_at s w) q).
        -- rewrite !in_app_iff in Hin. destruct Hin as [Hin|[Hin|[Hin|[<-|[]]]]];
             try (left; unfold all_log; rewrite !in_app_iff; tauto).
           right. exists w, q. split; [left; reflexivity|].
           unfold log_entry; cbn [fst snd]. rewrite Hrec.
           split; [reflexivity|]. split; [reflexivity|]. split; [apply anonymize_masked|reflexivity].
        -- left. exact Hin.
      * intros x Hx. destruct (I2 x Hx) as [Hin|Hm]; [|auto].
        unfold all_stats, process in Hin; cbn [st_units st_stats] in Hin.
        destruct (should_count (env_at s w) q).
        -- rewrite !in_app_iff in Hin. destruct Hin as [Hin|[Hin|[<-|[]]]];
             try (left; unfold all_stats; rewrite !in_app_iff; tauto).
           right. exists w, q. split; [left; reflexivity|].
           unfold stat_entry. destruct (q_cid q); cbn [fst snd].
           ++ rewrite Hrec. split; [reflexivity|]. split; [right; reflexivity|apply anonymize_masked].
           ++ split; [reflexivity|]. split; [left; reflexivity|apply masked_nil].
        -- left. exact Hin.
    + destruct (IH s (flush st) Hi Ha Hk) as [I1 I2]. split.
      * intros e He. destruct (I1 e He); auto using all_log_flush.
      * intros x Hx. destruct (I2 x Hx); auto.
    + destruct (IH s (rotate st) Hi Ha Hk) as [I1 I2]. split.
      * intros e He. destruct (I1 e He); auto using all_log_rotate.
      * intros x Hx. destruct (I2 x Hx) as [H|H]; [left|auto].
        unfold rotate in H. destruct (st_has_file st); exact H.
    + destruct (IH s (roll st) Hi Ha Hk) as [I1 I2]. split.
      * intros e He. destruct (I1 e He); auto.
      * intros x Hx. destruct (I2 x Hx); auto using all_stats_roll.
Qed.

Lemma hrun_app a b st : hrun (a ++ b) st = hrun b (hrun a st).
Proof. unfold hrun. apply fold_left_app. Qed.

(** FULL statement: for all histories [pre] (any configuration requests,
    queries, flushes, rotations, roll-overs), a request [o] that switches
    anonymisation on (either handler), and any continuation [post] that does
    not switch it off: whatever the memory buffer, querylog.json,
    querylog.json.1 and the statistics (stored units and the current one) hold
    at the end either was there before the switch or is the record of a query
    of [post] with the MASKED address. *)
Theorem anonymised_after_switch enabled anon pre o post :
  turns_on o = true -> forallb keeps_on post = true ->
  let before := snd (hrun pre (init_dns enabled anon, empty_store)) in
  let after := snd (hrun (pre ++ HConf o :: post) (init_dns enabled anon, empty_store)) in
  (forall e, In e (all_log after) -> In e (all_log before) \/ masked_record_of post e) /\
  (forall x, In x (all_stats after) -> In x (all_stats before) \/ masked_stat_of post x).
Proof.
  intros Ho Hk. cbn zeta. rewrite hrun_app.
  destruct (hrun pre (init_dns enabled anon, empty_store)) as [s st] eqn:E.
  assert (Hi : in_step s).
  { change s with (fst (s, st)). rewrite <- E. apply hrun_in_step, init_dns_in_step. }
  change (hrun (HConf o :: post) (s, st)) with (hrun post (sys_step s o, st)). cbn [snd].
  exact (after_on post (sys_step s o) st (sys_step_in_step s o Hi) (turns_on_anon s o Ho) Hk).
Qed.

(** Premises satisfiable, conclusion not vacuous: started with anonymisation
    off, one query (recorded in full), flushed; switched on through the
    deprecated handler; a deprecated request without the field; two queries
    (IPv4, IPv6 with a ClientID), flush, rotation, roll-over. *)
Definition ex_world : world :=
  {| w_ix := empty_index; w_dhcp := fun _ => None; w_refuse_any := false;
     w_qign := fun _ => false; w_sign := fun _ => false |}.
Definition ex_q (n : bytes) (a : bytes) (cid : bytes) : query :=
  {| q_name := n; q_any := false; q_addr := (a, []); q_cid := cid; q_cid_mac := None |}.
Definition ex_pre : list hop := [HQuery ex_world (ex_q [97;46] [1;2;3;4] []); HFlush].
Definition ex_post : list hop :=
  [HConf (CLegacy (Some true) None); HQuery ex_world (ex_q [98;46] [1;2;3;4] []);
   HQuery ex_world (ex_q [99;46] [32;1;13;184;0;1;0;2;0;3;0;4;0;5;0;6] [105]); HFlush; HRotate; HRoll;
   HQuery ex_world (ex_q [100;46] [10;9;8;7] [])].

Example after_switch_example :
  turns_on (CLegacy None (Some true)) = true /\ forallb keeps_on ex_post = true /\
  let after := snd (hrun (ex_pre ++ HConf (CLegacy None (Some true)) :: ex_post) (init_dns true false, empty_store)) in
  st_old after = [([97], [1;2;3;4], []); ([98], [1;2;0;0], []); ([99], [32;1;13;184;0;1;0;0;0;0;0;0;0;0;0;0], [105])] /\
  st_mem after = [([100], [10;9;0;0], [])] /\
  st_units after = [[([97], [], [1;2;3;4]); ([98], [], [1;2;0;0]); ([99], [105], [])]] /\
  st_stats after = [([100], [], [10;9;0;0])].
Proof. repeat split; vm_compute; reflexivity. Qed.

(** Why the sharing matters: a server that keeps a PRIVATE IPMut holding the
    function of construction time (a copy instead of the caller's cell) goes on
    recording full addresses after the switch, while the configuration and the
    report side say "on". *)
Definition new_server_private_copy (p_anonymizer : option ipmut) (h : heap) : heap * ipmut :=
  new_ipmut (match p_anonymizer with Some r => mut_load h r | None => false end) h.
Definition init_dns_private_copy (enabled anon : bool) : sys :=
  let '(h, r) := new_ipmut anon [] in
  let '(h', rs) := new_server_private_copy (Some r) h in
  {| s_heap := h'; s_qlog_mut := r; s_srv_mut := rs; s_enabled := enabled; s_anon := anon |}.

Example private_copy_refuted :
  let st := hrun [HConf (CPut true true); HQuery ex_world (ex_q [98;46] [1;2;3;4] [])]
                 (init_dns_private_copy true false, empty_store) in
  s_anon (fst st) = true /\ qlog_anon (fst st) = true /\ srv_anon (fst st) = false /\
  st_mem (snd st) = [([98], [1;2;3;4], [])] /\ st_stats (snd st) = [([98], [], [1;2;3;4])].
Proof. repeat split; vm_compute; reflexivity. Qed.

(** * (H) Nested CIDRs: the most specific containing prefix decides *)
(** FULL statement, for every registry reachable by any history of client
    operations: a request without a known ClientID whose address nobody lists
    exactly, from inside a prefix [p] of client [c], where every OTHER stored
    prefix containing the address is strictly shorter (broader) than [p], is
    attributed to [c]; if [c] is marked to be ignored it is recorded nowhere.
    In particular a broader CIDR of another client without the flag does not
    bring the request into the log or the statistics. *)
Theorem narrowest_cidr_decides cfg ops ev q st p u c :
  e_ix ev = run cfg ops empty_index ->
  find_by_cid (e_ix ev) [] = None ->          (* nobody lists the empty ClientID (SetIDs rejects it) *)
  find_by_cid (e_ix ev) (q_cid q) = None ->
  zget (q_addr q) (ip_to (e_ix ev)) = None ->
  deref (e_ix ev) u = Some c -> In p (c_subnets c) ->
  contains p (fst (q_addr q)) = true ->
  (forall p' u', owner_of (e_ix ev) c_subnets p' u' -> contains p' (fst (q_addr q)) = true ->
     p' = p \/ snd p' < snd p) ->
  find_by_ip (e_ix ev) (q_addr q) = Some u /\
  (c_ignore_qlog c = true -> st_mem (process ev q st) = st_mem st) /\
  (c_ignore_stats c = true -> st_stats (process ev q st) = st_stats st).
Proof.
  intros Hix Hemp Hcid Hz Hd Hp Hc Hnarrow.
  assert (HI : Inv (e_ix ev)) by (rewrite Hix; apply index_consistent).
  assert (Ho : owner_of (e_ix ev) c_subnets p u) by (exists c; auto).
  destruct (cidr_resolves (e_ix ev) (q_addr q) p u HI Ho Hc Hz) as (p' & u' & Hf & Ho' & Hc' & Hle & _).
  assert (Hpp : p' = p).
  { destruct (Hnarrow p' u' Ho' Hc') as [E|Hlt]; [exact E|lia]. }
  subst p'.
  assert (Hu : u' = u).
  { destruct (owners_unique (e_ix ev) HI) as (_ & _ & _ & _ & Us). exact (Us p u' u Ho' Ho). }
  subst u'. split; [exact Hf|].
  apply (ignored_client_never_stored ev q st u c Hemp); [|exact Hd].
  unfold acf_find. rewrite Hcid, Hf. reflexivity.
Qed.

(** Premises satisfiable (the configuration of the nested-CIDR witness): "lan"
    = 192.168.0.0/16 without flags, added first, "kids" = 192.168.5.0/24 with
    both flags; a query from 192.168.5.9 is attributed to "kids" and recorded
    nowhere, one from 192.168.7.9 is "lan"'s and is recorded. *)
Definition nest_ix : index :=
  run wit_cfg [OAdd (wit_client 1 [108] [] [([192;168;0;0], 16)] [] false false);
               OAdd (wit_client 2 [107] [] [([192;168;5;0], 24)] [] true true)] empty_index.
Definition nest_env : env :=
  {| e_ix := nest_ix; e_dhcp := fun _ => None; e_anon := false; e_qlog_enabled := true; e_refuse_any := false;
     e_qign := fun _ => false; e_sign := fun _ => false |}.
Definition nest_q (a : bytes) : query :=
  {| q_name := [111;107;46]; q_any := false; q_addr := (a, []); q_cid := []; q_cid_mac := None |}.

Example narrowest_cidr_example :
  find_by_cid nest_ix [] = None /\ zget ([192;168;5;9], []) (ip_to nest_ix) = None /\
  deref nest_ix 2 = Some (wit_client 2 [107] [] [([192;168;5;0], 24)] [] true true) /\
  contains ([192;168;5;0], 24) [192;168;5;9] = true /\ contains ([192;168;0;0], 16) [192;168;5;9] = true /\
  map fst (subnet_to nest_ix) = [([192;168;5;0], 24); ([192;168;0;0], 16)] /\
  find_by_ip nest_ix ([192;168;5;9], []) = Some 2 /\
  process nest_env (nest_q [192;168;5;9]) empty_store = empty_store /\
  st_mem (process nest_env (nest_q [192;168;7;9]) empty_store) = [([111;107], [192;168;7;9], [])].
Proof. repeat split; vm_compute; reflexivity. Qed.

(** * Round 8 (O): a runtime record never hides an ignored persistent client *)
(** For the id lists the program builds (the address, preceded by the ClientID
    if there is one; the same shape on the search side), whatever the runtime
    index holds: the finder of the query log gives the flag of the persistent
    client, as if there were no runtime records. *)
Lemma find_multiple_addr ix dhcp rt a :
  find_multiple ix dhcp rt [IdAddr a] = qlog_client_ignored ix dhcp [IdAddr a].
Proof.
  unfold qlog_client_ignored. cbn [find_multiple first_client]. unfold client_or_artificial.
  destruct (find_loose ix dhcp (IdAddr a)) as [u|]; [destruct (deref ix u); [reflexivity|]|];
    destruct (rt a); reflexivity.
Qed.

Theorem runtime_record_never_hides ix dhcp rt q :
  find_multiple ix dhcp rt (ids_of q) = qlog_client_ignored ix dhcp (ids_of q).
Proof.
  unfold ids_of. destruct (q_cid q) as [|b c]; [apply find_multiple_addr|].
  pose proof (find_multiple_addr ix dhcp rt (q_addr q)) as H.
  unfold qlog_client_ignored in *. cbn [find_multiple first_client] in *. unfold client_or_artificial in *.
  destruct (find_loose ix dhcp (IdCid (b :: c) (q_cid_mac q))) as [u|]; [destruct (deref ix u); [reflexivity|]|]; exact H.
Qed.

Theorem runtime_record_never_hides_stored ix dhcp rt mac_of e :
  find_multiple ix dhcp rt (stored_ids mac_of e) = qlog_client_ignored ix dhcp (stored_ids mac_of e).
Proof.
  destruct e as [[n ip] cid]. unfold stored_ids.
  destruct cid as [|b c], ip as [|x ip]; cbn [app]; try reflexivity; try apply find_multiple_addr.
  - unfold qlog_client_ignored. cbn [find_multiple first_client]. unfold client_or_artificial.
    destruct (find_loose ix dhcp (IdCid (b :: c) (mac_of (b :: c)))) as [u|]; [destruct (deref ix u)|]; reflexivity.
  - pose proof (find_multiple_addr ix dhcp rt (canon_ip (x :: ip), [])) as H.
    unfold qlog_client_ignored in *. cbn [find_multiple first_client] in *. unfold client_or_artificial in *.
    destruct (find_loose ix dhcp (IdCid (b :: c) (mac_of (b :: c)))) as [u|]; [destruct (deref ix u); [reflexivity|]|]; exact H.
Qed.

(** The variant that asks the runtime index first (a single map lookup
    before the walk over subnets and leases): refuted. *)
Definition client_or_artificial_rt_first (ix : index) dhcp (rt : addr -> bool) (i : id) : found :=
  match i with
  | IdAddr a => if rt a then FRuntime else client_or_artificial ix dhcp (fun _ => false) i
  | IdCid _ _ => client_or_artificial ix dhcp rt i
  end.
Fixpoint find_multiple_rt_first (ix : index) dhcp (rt : addr -> bool) (ids : list id) : bool :=
  match ids with
  | [] => false
  | i :: rest =>
      match client_or_artificial_rt_first ix dhcp rt i with
      | FPersistent c => c_ignore_qlog c
      | FRuntime => false
      | FArtificial => find_multiple_rt_first ix dhcp rt rest
      end
  end.

Example runtime_first_refuted :
  let rt := fun a : addr => addr_eqb a ([192;168;5;9], []) in
  qlog_client_ignored nest_ix (fun _ => None) (ids_of (nest_q [192;168;5;9])) = true /\
  find_multiple nest_ix (fun _ => None) rt (ids_of (nest_q [192;168;5;9])) = true /\
  find_multiple_rt_first nest_ix (fun _ => None) rt (ids_of (nest_q [192;168;5;9])) = false.
Proof. repeat split; vm_compute; reflexivity. Qed.

(** * Round 8 (P): the statistics ignore list in force is the last accepted one *)
Theorem stats_ignore_list_follows_last_put puts c e l :
  sconf_run (puts ++ [(e, l)]) c = {| sc_enabled := e; sc_ignored := l |}.
Proof. unfold sconf_run. rewrite fold_left_app. reflexivity. Qed.

(** Disabled statistics record nothing; the log side is not affected. *)
Lemma process_gated_off ev q st :
  st_stats (process_gated false ev q st) = st_stats st /\ st_units (process_gated false ev q st) = st_units st /\
  st_mem (process_gated false ev q st) = st_mem (process ev q st).
Proof. repeat split. Qed.
Lemma process_gated_on ev q st : process_gated true ev q st = process ev q st.
Proof. reflexivity. Qed.

(** The variant that replaces the engine only while the statistics were
    enabled BEFORE the request: one request that enables them and changes the
    list keeps the old list. *)
Definition sconf_put_guarded (enabled : bool) (ignored : list bytes) (c : sconf) : sconf :=
  {| sc_enabled := enabled; sc_ignored := if sc_enabled c then ignored else sc_ignored c |}.
Example guarded_put_refuted :
  let c0 := {| sc_enabled := true; sc_ignored := [[97]] |} in
  sc_ignored (sconf_put_guarded true [[98]] (sconf_put_guarded false [[97]] c0)) = [[97]] /\
  sc_ignored (sconf_run [(false, [[97]]); (true, [[98]])] c0) = [[98]].
Proof. split; reflexivity. Qed.

(** Specification and proofs for the HTTP middleware (C11). *)
From AGH Require Import Base.Run Model.Session Model.AuthHttp.
From stdpp Require Import gmap.
Local Open Scope Z_scope.

(** * Strings *)

Lemma eqb_bytes_eq a b : eqb_bytes a b = true <-> a = b.
Proof.
  unfold eqb_bytes. revert b; induction a as [|x a IH]; intros [|y b]; cbn; try (split; congruence).
  rewrite andb_true_iff, N.eqb_eq, IH. split; [intros []; congruence|intros [= -> ->]; auto].
Qed.

Lemma eqb_bytes_refl a : eqb_bytes a a = true.
Proof. apply eqb_bytes_eq. reflexivity. Qed.

(** * Declarative notions *)

(** A request is authenticated when it carries a session cookie that the
    session table accepts now, or carries no session cookie and basic
    credentials that findUser accepts. *)
Definition authenticated (e : env) (s : sstate) (r : request) : bool :=
  match r_cookie r with
  | CTok tok => authenticates (e_ttl e) (e_now e) tok s
  | CNone => basic_ok e r
  end.

(** The only thing a refused request may do to the session table: the
    presented token, if it was found expired, is deleted (memory and disk). *)
Definition sess_after (e : env) (s : sstate) (r : request) : sstate :=
  match r_cookie r with
  | CTok tok => fst (check_session (e_ttl e) (e_now e) tok s)
  | CNone => s
  end.

Definition not_handler {R} (a : answer R) : Prop :=
  match a with AHandler _ => False | _ => True end.

Global Instance wrapper_eq_dec : EqDecision wrapper.
Proof. solve_decision. Defined.

Section Chains.
Context {A R : Type}.
Notation H := (handler A R).

(** A wrapped handler [W h], on a given request, either answers by itself,
    the same for every [h] and without touching the application state
    ("does not run h"), or is exactly [h] on a world with the same
    application state ("runs h"). *)
Definition blocks (W : H -> H) (e : env) (w : world A) (r : request) (w' : world A) (a : answer R) : Prop :=
  (forall h, W h e w r = (w', a)) /\ w_app w' = w_app w /\ not_handler a.

Definition runs (W : H -> H) (e : env) (w : world A) (r : request) (w' : world A) : Prop :=
  (forall h, W h e w r = h e w' r) /\ w_app w' = w_app w.

Definition session_effect (e : env) (w : world A) (r : request) (w' : world A) : Prop :=
  w_sess w' = w_sess w \/ w_sess w' = sess_after e (w_sess w) r.

(** ** The single wrappers *)

Lemma post_install_cases e w r :
  (exists a, blocks post_install e w r w a /\
     ((e_first_run e = true /\ a = ARedirect 302 str_install_rel) \/
      (e_https e = true /\ (a = AStatus 400 \/ a = ARedirect 307 str_https)))) \/
  runs post_install e w r w.
Proof.
  unfold blocks, runs, post_install, https_redirect.
  destruct (e_first_run e && negb (has_prefix str_install_dot (r_path r)) &&
            negb (has_prefix str_assets (r_path r))) eqn:E1.
  - left. eexists. split; [repeat split; auto|]. left.
    apply andb_true_iff in E1 as [E1 _]. apply andb_true_iff in E1 as [E1 _]. auto.
  - destruct (e_https e) eqn:E2; cbn; [|right; auto].
    destruct (r_host_ok r); cbn.
    + destruct (e_force_https e && negb (r_tls r)); [|right; auto].
      left. eexists. split; [repeat split; auto|]. right. auto.
    + left. eexists. split; [repeat split; auto|]. right. auto.
Qed.

Lemma pre_install_cases e w r :
  (e_first_run e = false /\ blocks pre_install e w r w (AStatus 403)) \/
  (e_first_run e = true /\ runs pre_install e w r w).
Proof.
  unfold blocks, runs, pre_install. destruct (e_first_run e); cbn; [right|left]; repeat split; auto.
Qed.

Lemma ensure_cases m e w r :
  (exists c, blocks (ensure m) e w r w (AStatus c) /\ (c = 405 \/ c = 415)) \/
  (runs (ensure m) e w r w /\ r_method r = m /\ (modifies_data m = true -> ctype_ok r = true)).
Proof.
  unfold blocks, runs, ensure, ensure_gen.
  destruct (eqb_bytes (r_method r) m) eqn:E; cbn.
  - apply eqb_bytes_eq in E. rewrite E.
    destruct (modifies_data m) eqn:Em; cbn.
    + destruct (ctype_ok r); cbn; [right; auto|]. left. exists 415. repeat split; auto.
    + right. repeat split; auto. discriminate.
  - left. exists 405. repeat split; auto.
Qed.

Lemma check_cookie_spec e (w : world A) tok :
  check_cookie e w tok =
    ({| w_app := w_app w; w_sess := fst (check_session (e_ttl e) (e_now e) tok (w_sess w)) |},
     authenticates (e_ttl e) (e_now e) tok (w_sess w)).
Proof.
  unfold check_cookie, authenticates.
  destruct (check_session (e_ttl e) (e_now e) tok (w_sess w)) as [s' res]. reflexivity.
Qed.

Lemma is_public_login_html : is_public str_login_html = true.
Proof. reflexivity. Qed.

(** optionalAuth refuses exactly the unauthenticated requests for
    non-public paths when a user exists. *)
Lemma optional_auth_blocks e w r :
  e_auth_required e = true -> is_public (r_path r) = false -> authenticated e (w_sess w) r = false ->
  exists w' a, blocks optional_auth e w r w' a /\
    w_sess w' = sess_after e (w_sess w) r /\
    (a = AStatus 403 \/ a = ARedirect 302 str_login_rel).
Proof.
  intros Hreq Hpub Hauth. unfold blocks, optional_auth, authenticated, sess_after in *.
  destruct (eqb_bytes (r_path r) str_login_html) eqn:El.
  { apply eqb_bytes_eq in El. rewrite El, is_public_login_html in Hpub. discriminate. }
  rewrite Hpub, Hreq.
  destruct (r_cookie r) as [|tok].
  - rewrite Hauth. destruct (eqb_bytes (r_path r) str_slash || eqb_bytes (r_path r) str_index);
      eexists _, _; repeat split; auto.
  - rewrite check_cookie_spec, Hauth.
    destruct (eqb_bytes (r_path r) str_slash || eqb_bytes (r_path r) str_index);
      eexists _, _; repeat split; auto.
Qed.

(** In every case optionalAuth either answers by itself or runs the handler,
    never touching the application state; and it runs the handler only for
    public paths, authenticated requests, or when no user exists. *)
Lemma optional_auth_cases e w r :
  (exists w' a, blocks optional_auth e w r w' a /\ session_effect e w r w') \/
  (exists w', runs optional_auth e w r w' /\ session_effect e w r w' /\
     (e_auth_required e = true -> is_public (r_path r) = true \/ authenticated e (w_sess w) r = true)).
Proof.
  unfold blocks, runs, session_effect, optional_auth, authenticated, sess_after.
  destruct (eqb_bytes (r_path r) str_login_html) eqn:El.
  - apply eqb_bytes_eq in El.
    assert (Hp : is_public (r_path r) = true) by (rewrite El; reflexivity).
    destruct (r_cookie r) as [|tok]; [right; eexists; repeat split; eauto|].
    destruct (e_auth_required e); [|right; eexists; repeat split; eauto].
    rewrite check_cookie_spec.
    destruct (authenticates (e_ttl e) (e_now e) tok (w_sess w)).
    + left. eexists _, _. repeat split; cbn; auto.
    + right. eexists. repeat split; cbn; auto.
  - destruct (is_public (r_path r)) eqn:Hp; [right; eexists; repeat split; eauto|].
    destruct (e_auth_required e) eqn:Hreq; [|right; eexists; repeat split; eauto; discriminate].
    destruct (r_cookie r) as [|tok].
    + destruct (basic_ok e r) eqn:Hb.
      * right. eexists. repeat split; eauto.
      * left. destruct (eqb_bytes (r_path r) str_slash || eqb_bytes (r_path r) str_index);
          eexists _, _; repeat split; auto.
    + rewrite check_cookie_spec.
      destruct (authenticates (e_ttl e) (e_now e) tok (w_sess w)) eqn:Ha.
      * right. eexists. repeat split; cbn; eauto.
      * left. destruct (eqb_bytes (r_path r) str_slash || eqb_bytes (r_path r) str_index);
          eexists _, _; repeat split; cbn; auto.
Qed.

(** ** Chains *)

(** Every wrapper other than optionalAuth leaves the world alone. *)
Lemma simple_wrapper_cases x e w r :
  x <> WOptionalAuth ->
  (exists a, blocks (apply_wrapper x) e w r w a) \/ runs (apply_wrapper x) e w r w.
Proof.
  intros Hx. destruct x; cbn [apply_wrapper]; try congruence.
  - destruct (post_install_cases e w r) as [(a & Hb & _)|Hr]; eauto.
  - destruct (pre_install_cases e w r) as [[_ Hb]|[_ Hr]]; eauto.
  - right. split; auto.
  - destruct (ensure_cases m e w r) as [(c & Hb & _)|(Hr & _)]; eauto.
  - right. split; auto.
  - right. split; auto.
Qed.

Lemma blocks_under (W : H -> H) ws e w r w' a :
  blocks W e w r w' a -> blocks (fun h => W (apply_chain ws h)) e w r w' a.
Proof. intros (Hb & ? & ?). repeat split; auto. Qed.

(** Any chain that contains optionalAuth refuses an unauthenticated request
    for a non-public path once a user exists: the handler is not run, the
    application state is unchanged, the session table changes at most by the
    expiry deletion. *)
Theorem guarded_chain_blocks ws e w r :
  In WOptionalAuth ws ->
  e_auth_required e = true -> is_public (r_path r) = false -> authenticated e (w_sess w) r = false ->
  exists w' a, blocks (apply_chain ws) e w r w' a /\ session_effect e w r w'.
Proof.
  intros Hin Hreq Hpub Hauth. induction ws as [|x ws IH]; [destruct Hin|].
  change (apply_chain (x :: ws)) with (fun h : H => apply_wrapper x (apply_chain ws h)).
  destruct (decide (x = WOptionalAuth)) as [->|Hne].
  - destruct (optional_auth_blocks e w r Hreq Hpub Hauth) as (w' & a & Hb & Hs & _).
    exists w', a. split; [apply (blocks_under optional_auth), Hb|]. right. exact Hs.
  - destruct Hin as [?|Hin]; [congruence|]. specialize (IH Hin).
    destruct (simple_wrapper_cases x e w r Hne) as [(a & Hb)|[Hr _]].
    + exists w, a. split; [apply (blocks_under (apply_wrapper x)), Hb|]. left. reflexivity.
    + destruct IH as (w' & a & (Hb & Happ & Hnh) & Hs). exists w', a. split; auto.
      repeat split; auto. intros h. rewrite Hr. apply Hb.
Qed.

(** ** The chain of httpRegister *)

(** For every handler [h] (the statement is uniform in [h]: "the same for all
    handlers" is how "does not run h" is said), declared method [m] and
    request: *)
Theorem chain_guards m e w r :
  (* 1. once a user exists, an unauthenticated request for a non-public path
        does not reach the handler *)
  (e_auth_required e = true -> is_public (r_path r) = false -> authenticated e (w_sess w) r = false ->
   exists w' a, blocks (apply_chain (http_register_chain m)) e w r w' a /\
     session_effect e w r w' /\
     (e_first_run e = false -> e_https e = false ->
      a = AStatus 403 \/ a = ARedirect 302 str_login_rel)) /\
  (* 2. in general the chain either answers by itself or runs the handler; if
        it runs it, the method is the declared one, a modifying method comes
        with a JSON content type or no body, and (once a user exists) the
        request is authenticated or the path public *)
  ((exists w' a, blocks (apply_chain (http_register_chain m)) e w r w' a /\ session_effect e w r w') \/
   (exists w', runs (apply_chain (http_register_chain m)) e w r w' /\ session_effect e w r w' /\
      r_method r = m /\ (modifies_data m = true -> ctype_ok r = true) /\
      (e_auth_required e = true -> is_public (r_path r) = true \/ authenticated e (w_sess w) r = true))).
Proof.
  change (apply_chain (http_register_chain m))
    with (fun h : H => post_install (optional_auth (gzip (ensure m h)))).
  split.
  - intros Hreq Hpub Hauth.
    destruct (post_install_cases e w r) as [(a & (Hb & Ha & Hn) & Hwhy)|[Hr _]].
    + exists w, a. split; [repeat split; auto|]. split; [left; reflexivity|].
      intros Hf Hh. destruct Hwhy as [[? _]|[? _]]; congruence.
    + destruct (optional_auth_blocks e w r Hreq Hpub Hauth) as (w' & a & (Hb & Ha & Hn) & Hs & Hans).
      exists w', a. split; [|split; [right; exact Hs|auto]].
      repeat split; auto. intros h. rewrite Hr. apply Hb.
  - destruct (post_install_cases e w r) as [(a & (Hb & Ha & Hn) & _)|[Hr _]].
    { left. exists w, a. split; [repeat split; auto|left; reflexivity]. }
    destruct (optional_auth_cases e w r) as [(w' & a & (Hb & Ha & Hn) & Hs)|(w' & [Hr2 Ha] & Hs & Hwhy)].
    { left. exists w', a. split; auto. repeat split; auto. intros h. rewrite Hr. apply Hb. }
    destruct (ensure_cases m e w' r) as [(c & (Hb & _ & Hn) & _)|([Hr3 _] & Hm & Hc)].
    + left. exists w', (AStatus c). split; auto. repeat split; auto.
      intros h. rewrite Hr, Hr2. unfold gzip. apply Hb.
    + right. exists w'. repeat split; auto.
      intros h. rewrite Hr, Hr2. unfold gzip. apply Hr3.
Qed.

End Chains.

(** * The route table *)

Definition param_method : bytes := [36;109;101;116;104;111;100]%N.   (* "$method": the parameter of httpRegister *)

Definition is_optional_auth (x : wrapper) : bool :=
  match x with WOptionalAuth => true | _ => false end.

Definition known_wrapper (x : wrapper) : bool :=
  match x with WUnknown _ => false | _ => true end.

Definition guarded (ws : list wrapper) : bool :=
  existsb is_optional_auth ws && forallb known_wrapper ws.

Definition eqb_wrapper (a b : wrapper) : bool := bool_decide (a = b).

Definition str (s : list N) : bytes := s.
Definition p_login : bytes := [47;99;111;110;116;114;111;108;47;108;111;103;105;110]%N.        (* /control/login *)
Definition p_doh_mc : bytes := [47;97;112;112;108;101;47;100;111;104;46;109;111;98;105;108;101;99;111;110;102;105;103]%N. (* /apple/doh.mobileconfig *)
Definition p_dot_mc : bytes := [47;97;112;112;108;101;47;100;111;116;46;109;111;98;105;108;101;99;111;110;102;105;103]%N. (* /apple/dot.mobileconfig *)
Definition p_dnsq : bytes := [47;100;110;115;45;113;117;101;114;121]%N.                         (* /dns-query *)
Definition p_dnsq_slash : bytes := p_dnsq ++ [47]%N.
Definition p_install_html : bytes := [47;105;110;115;116;97;108;108;46;104;116;109;108]%N.        (* /install.html *)
Definition p_install_api : bytes := [47;99;111;110;116;114;111;108;47;105;110;115;116;97;108;108;47]%N. (* /control/install/ *)
Definition mux_global : bytes :=
  [103;108;111;98;97;108;67;111;110;116;101;120;116;46;109;117;120]%N.   (* globalContext.mux *)

(** The routes that are meant to be reachable without credentials, each with
    the chain it must have. *)
Definition exception (rt : route) : bool :=
  let p := rt_pattern rt in
  match rt_kind rt with
  | Direct ws =>
      (eqb_bytes p p_login && bool_decide (ws = [WPostInstall; WEnsure str_POST]))
      || ((eqb_bytes p p_doh_mc || eqb_bytes p p_dot_mc) && bool_decide (ws = [WPostInstall]))
      || ((eqb_bytes p p_install_html || has_prefix p_install_api p) &&
          match ws with WPreInstall :: ws' => forallb known_wrapper ws' | _ => false end)
  | ViaRegister m =>
      eqb_bytes m [] && (eqb_bytes p p_dnsq || eqb_bytes p p_dnsq_slash)
  | Unresolved _ => false
  end.

Definition route_ok (reg_empty reg_method : list wrapper) (rt : route) : bool :=
  eqb_bytes (rt_mux rt) mux_global &&
  (exception rt ||
   match rt_kind rt with
   | ViaRegister m => negb (eqb_bytes m []) && bool_decide (reg_method = http_register_chain param_method)
   | Direct ws => guarded ws
   | Unresolved _ => false
   end) &&
  (* the public globs belong to the static catch-all only *)
  (negb (is_public (rt_pattern rt))) &&
  bool_decide (reg_empty = [WPostInstall]).

Definition offending (reg_empty reg_method : list wrapper) (rts : list route) : list route :=
  filter (fun rt => negb (route_ok reg_empty reg_method rt)) rts.

(** The chain a route runs behind. *)
Definition chain_of (reg_method : list wrapper) (rt : route) : list wrapper :=
  match rt_kind rt with
  | ViaRegister m => map (fun x => match x with
                                   | WEnsure p => if eqb_bytes p param_method then WEnsure m else x
                                   | _ => x end) reg_method
  | Direct ws => ws
  | Unresolved _ => []
  end.

Lemma guarded_In ws : guarded ws = true -> In WOptionalAuth ws.
Proof.
  unfold guarded. rewrite andb_true_iff. intros [H _]. apply existsb_exists in H as (x & Hx & Ho).
  destruct x; try discriminate. exact Hx.
Qed.

(** Soundness of the table check: a route that passes is an explicit
    exception or refuses every unauthenticated request for a non-public path
    (whatever handler it wraps). *)
Theorem route_ok_sound {A R} reg_empty reg_method rt :
  route_ok reg_empty reg_method rt = true ->
  exception rt = true \/
  forall e (w : world A) r,
    e_auth_required e = true -> is_public (r_path r) = false -> authenticated e (w_sess w) r = false ->
    exists w' (a : answer R), blocks (apply_chain (chain_of reg_method rt)) e w r w' a /\ session_effect e w r w'.
Proof.
  unfold route_ok. rewrite !andb_true_iff. intros [[[_ H] _] _].
  apply orb_true_iff in H as [H|H]; [left; exact H|]. right. intros e w r Hreq Hpub Hauth.
  apply guarded_chain_blocks; auto. unfold chain_of.
  destruct (rt_kind rt) as [m|ws|]; [|apply guarded_In; exact H|discriminate].
  apply andb_true_iff in H as [_ H]. apply bool_decide_eq_true in H. rewrite H. cbn. auto.
Qed.

(** Non-vacuity: a concrete unauthenticated POST that is refused, and the same
    request with a valid cookie that reaches the handler. *)
Definition ex_env : env :=
  {| e_first_run := false; e_auth_present := true; e_accounts := [([97]%N, [36;50;97;36]%N)];
     e_bcrypt := fun _ p => if eqb_bytes p [112]%N then BcOk else BcMismatch;
     e_https := false; e_force_https := false; e_now := 1000; e_ttl := 3600 |}.
Definition ex_path : bytes := [47;99;111;110;116;114;111;108;47;115;116;97;116;117;115]%N.
Definition ex_req (c : cookie) : request :=
  {| r_method := str_POST; r_path := ex_path; r_ctype := str_json; r_clen := 2; r_cookie := c;
     r_basic := BNone; r_tls := false; r_host_ok := true; r_hdrs := [] |}.
Definition ex_world : world nat :=
  {| w_app := 0%nat; w_sess := new_session 3600 900 [7]%N [97]%N s_init |}.
Definition ex_cookie : cookie := CTok (hex_encode [7]%N).        (* "07" *)
Definition ex_handler : handler nat unit := fun _ w _ => ({| w_app := S (w_app w); w_sess := w_sess w |}, AHandler tt).

Example chain_premises_satisfiable :
  authenticated ex_env (w_sess ex_world) (ex_req CNone) = false /\
  is_public (r_path (ex_req CNone)) = false /\
  snd (apply_chain (http_register_chain str_POST) ex_handler ex_env ex_world (ex_req CNone)) = AStatus 403 /\
  snd (apply_chain (http_register_chain str_POST) ex_handler ex_env ex_world (ex_req ex_cookie)) = AHandler tt /\
  snd (apply_chain (http_register_chain str_GET) ex_handler ex_env ex_world (ex_req ex_cookie)) = AStatus 405.
Proof. vm_compute. auto. Qed.

(** * Start-up glue *)

(** With the four syntactic facts in place: users configured and the session
    database cannot be opened => the process exits, no listener is created. *)
Theorem startup_fails_closed k b :
  boot_code_ok k = true -> b_users b = true -> b_db_opens b = false -> boot k b = BootFatal.
Proof.
  unfold boot_code_ok, boot, init_users, init_auth. rewrite !andb_true_iff.
  intros [[[[-> ->] ->] ->] _] _ ->. reflexivity.
Qed.

(** Whenever requests are served at all, the Auth object is there and
    optionalAuth's [authRequired] is "users are configured". *)
Theorem startup_serves_with_auth k b p u :
  boot_code_ok k = true -> boot k b = BootServe p u -> b_db_opens b = true /\ p = true /\ u = b_users b.
Proof.
  unfold boot_code_ok, boot, init_users, init_auth. rewrite !andb_true_iff.
  intros [[[[-> ->] ->] ->] _]. destruct (b_db_opens b); cbn; [|discriminate].
  intros [= <- <-]. auto.
Qed.

Corollary startup_auth_required k b e :
  boot_code_ok k = true -> b_users b = true -> env_after (boot k b) e -> e_auth_required e = true.
Proof.
  intros Hk Hu He. destruct (boot k b) as [|p u] eqn:E; [destruct He|].
  destruct (startup_serves_with_auth k b p u Hk E) as (_ & -> & ->).
  destruct He as [Hp Hus]. unfold e_auth_required. rewrite Hp, Hus, Hu. reflexivity.
Qed.

(** Start-up and middleware together: with users configured, in whatever
    state the session database is, either nothing is served or every request
    without credentials for a non-public path is refused by any chain that
    contains optionalAuth. *)
Theorem startup_then_guarded {A R} k b :
  boot_code_ok k = true -> b_users b = true ->
  boot k b = BootFatal \/
  forall e ws (w : world A) r,
    env_after (boot k b) e -> In WOptionalAuth ws ->
    is_public (r_path r) = false -> authenticated e (w_sess w) r = false ->
    exists w' (a : answer R), blocks (apply_chain ws) e w r w' a /\ session_effect e w r w'.
Proof.
  intros Hk Hu. destruct (boot k b) eqn:E; [left; reflexivity|right].
  intros e ws w r He Hin Hpub Hauth. apply guarded_chain_blocks; auto.
  apply (startup_auth_required k b); auto. rewrite E. exact He.
Qed.

(** Each of the facts is needed: drop the nil check, or return a nil error
    from it, or do not stop on the error, and a configuration with users and
    an unreadable session database serves every route to anybody. *)
Definition slip_ret_nil_err : boot_code :=
  {| bc_nil_checked := true; bc_fail_ret_err := false; bc_run_fatal := true; bc_fatal_exits := true; bc_assigns_ok := true |}.
Definition slip_no_fatal : boot_code :=
  {| bc_nil_checked := true; bc_fail_ret_err := true; bc_run_fatal := false; bc_fatal_exits := true; bc_assigns_ok := true |}.
Definition slip_no_nil_check : boot_code :=
  {| bc_nil_checked := false; bc_fail_ret_err := true; bc_run_fatal := true; bc_fatal_exits := true; bc_assigns_ok := true |}.

Example startup_slips_refuted :
  let b := {| b_users := true; b_db_opens := false |} in
  Forall (fun k =>
    boot k b = BootServe false false /\
    let e := with_boot false false ex_env in
    env_after (boot k b) e /\
    authenticated e (w_sess ex_world) (ex_req CNone) = false /\
    snd (apply_chain (http_register_chain str_POST) ex_handler e ex_world (ex_req CNone)) = AHandler tt)
  [slip_ret_nil_err; slip_no_fatal; slip_no_nil_check].
Proof. cbn zeta. repeat constructor. Qed.

Example startup_premises_satisfiable :
  let k := {| bc_nil_checked := true; bc_fail_ret_err := true; bc_run_fatal := true; bc_fatal_exits := true; bc_assigns_ok := true |} in
  boot_code_ok k = true /\
  boot k {| b_users := true; b_db_opens := false |} = BootFatal /\
  boot k {| b_users := true; b_db_opens := true |} = BootServe true true /\
  boot k {| b_users := false; b_db_opens := true |} = BootServe true false /\
  env_after (boot k {| b_users := true; b_db_opens := true |}) ex_env.
Proof. cbn. repeat split. Qed.

(** * Bindings, muxes, servers *)

Definition binding_ok (b : bind_src * bytes) : bool :=
  match fst b with SrcOther => false | _ => true end.

Definition str_startPprof : bytes :=
  [46;115;116;97;114;116;80;112;114;111;102]%N.   (* ".startPprof" *)

Fixpoint has_suffix (suf s : bytes) : bool :=
  eqb_bytes suf s || match s with [] => false | _ :: s' => has_suffix suf s' end.

(** A mux is the admin mux, or the local one of the opt-in profiling server
    (127.0.0.1, runtime profiles only). *)
Definition mux_ok (m : bytes * bytes * bytes) : bool :=
  let '(fn, target, _) := m in
  eqb_bytes target mux_global || has_suffix str_startPprof fn.

Definition leaf_mw_limit : bytes :=
  [109;119;58;108;105;109;105;116;82;101;113;117;101;115;116;66;111;100;121]%N. (* mw:limitRequestBody *)
Definition leaf_new_mux : bytes :=
  [104;116;116;112;46;78;101;119;83;101;114;118;101;77;117;120;40;41]%N.       (* http.NewServeMux() *)

Definition str_localhost : bytes :=
  [73;80;118;52;76;111;99;97;108;104;111;115;116]%N.   (* IPv4Localhost *)

Fixpoint has_infix (x s : bytes) : bool :=
  has_prefix x s || match s with [] => false | _ :: s' => has_infix x s' end.

(** Every server serves the admin mux (behind limitRequestBody and library
    middleware that takes a handler argument); the profiling server serves its
    own mux and listens on netutil.IPv4Localhost().  A server literal without
    a Handler (it would serve http.DefaultServeMux) is rejected. *)
Definition server_ok (s : bytes * bytes * bytes * list bytes) : bool :=
  let '(fn, _, addr, leaves) := s in
  (existsb (eqb_bytes mux_global) leaves &&
   forallb (fun l => eqb_bytes l mux_global || eqb_bytes l leaf_mw_limit) leaves)
  || (has_suffix str_startPprof fn && has_infix str_localhost addr &&
      negb (match leaves with [] => true | _ => false end) && forallb (eqb_bytes leaf_new_mux) leaves).

Definition table_ok (rts : list route) (reg_empty reg_method : list wrapper)
    (bs : list (bind_src * bytes)) (ms : list (bytes * bytes * bytes))
    (ss : list (bytes * bytes * bytes * list bytes)) : bool :=
  forallb (route_ok reg_empty reg_method) rts && negb (match rts with [] => true | _ => false end) &&
  forallb binding_ok bs && forallb mux_ok ms && forallb server_ok ss.

Lemma table_ok_routes {A R} rts re rm bs ms ss :
  table_ok rts re rm bs ms ss = true ->
  forall rt, In rt rts ->
    (match rt_kind rt with Unresolved _ => False | _ => True end) /\
    (exception rt = true \/
     forall e (w : world A) r,
       e_auth_required e = true -> is_public (r_path r) = false -> authenticated e (w_sess w) r = false ->
       exists w' (a : answer R), blocks (apply_chain (chain_of rm rt)) e w r w' a /\ session_effect e w r w').
Proof.
  unfold table_ok. rewrite !andb_true_iff. intros [[[[H _] _] _] _] rt Hin.
  rewrite forallb_forall in H. specialize (H rt Hin). split.
  - unfold route_ok, exception in H. destruct (rt_kind rt); auto.
    rewrite !andb_true_iff in H. destruct H as [[[_ H] _] _]. cbn in H. discriminate.
  - eapply route_ok_sound; eauto.
Qed.

(** * The public globs *)

Lemma strip_prefix_spec p s rest : Model.AuthHttp.strip_prefix p s = Some rest <-> s = p ++ rest.
Proof.
  revert s; induction p as [|a p IH]; intros s; cbn.
  - split; congruence.
  - destruct s as [|b s]; [split; discriminate|].
    destruct (N.eqb_spec a b) as [->|Hne].
    + rewrite IH. split; congruence.
    + split; [discriminate|]. intros [= ? _]. congruence.
Qed.

Lemma match_prefix_star_spec lit p :
  match_prefix_star lit p = true <-> exists rest, p = lit ++ rest /\ no_slash rest = true.
Proof.
  unfold match_prefix_star. destruct (Model.AuthHttp.strip_prefix lit p) as [rest|] eqn:E.
  - apply strip_prefix_spec in E. split; [eauto|]. intros (rest' & Hp & Hn).
    rewrite E in Hp. apply app_inv_head in Hp. congruence.
  - split; [discriminate|]. intros (rest & Hp & _). apply strip_prefix_spec in Hp. congruence.
Qed.

Lemma public_paths p :
  is_public p = true <->
  (exists rest, p = str_assets ++ rest /\ no_slash rest = true) \/
  (exists rest, p = str_login_dot ++ rest /\ no_slash rest = true).
Proof. unfold is_public. rewrite orb_true_iff, !match_prefix_star_spec. reflexivity. Qed.

(** C05, round 6: lock BALANCE.

    The stall-freedom theorem of Proofs/ConcLive.v has a premise that no
    theorem named so far: every critical section ENDS.  In the machine of
    Base/Conc.v a thread is a finite event list, so a section can fail to end
    in one way only: the list acquires a lock and contains no later release of
    it (a `return` between `RLock()` and `RUnlock()`: seeded change C05-K).
    [ranked] and [conforms_sites] hide that premise in their last clause
    ("nothing held at the end").  Here it is a definition of its own,

      [sections_end p]: p releases only what it holds, and holds nothing
      after its last event,

    with the facts that make it checkable function by function:

    - a list whose sections end is NEUTRAL in any context: run with any lock
      set h already held it is still balanced and ends holding exactly h
      ([sections_end_neutral]);
    - so such lists compose: concatenation ([sections_end_app]) and insertion
      of one into another at any point, i.e. a call ([sections_end_insert]);
      a thread obtained from per-function paths whose sections end, by
      inserting the callee's path where the call is, is a thread whose
      sections end ([inlined_sections_end]).  That is what the per-function
      table of tools/locktable/balance.go (Gen/LockTableBalance.v) amounts to
      for a whole goroutine;

    and with the corollary for the machine: for threads whose sections end,
    if no reachable state is deadlocked, the machine never stalls AND every
    run that cannot be extended ends with every mutex free: no writer, no
    reader, no pending writer ([balanced_threads_stall_free]); whoever comes
    next finds the locks as at start-up.  [leaked_read_lock_stalls] is the
    converse on the shape of C05-K: one path of clientIDFromDNSContext keeps
    serverLock.RLock, the next writer (access/set) announces itself and waits
    for ever, the next query waits behind the pending writer. *)
From Coq Require Import List String Bool Arith Lia.
From AGH Require Import Base.Conc Proofs.Conc Proofs.LockTable Proofs.LockTablePairs Proofs.ConcLive.
Import ListNotations.
Local Open Scope string_scope.
Local Open Scope list_scope.

Definition held_nil (h : held) : bool := match h with [] => true | _ => false end.

Definition sections_end (p : list event) : bool :=
  balanced [] p && held_nil (held_after [] p).

Lemma held_nil_true : forall h, held_nil h = true -> h = [].
Proof. intros [|x h]; [reflexivity|discriminate]. Qed.

Lemma sections_end_spec : forall p,
  sections_end p = true <-> balanced [] p = true /\ held_after [] p = [].
Proof.
  intros p; unfold sections_end; rewrite andb_true_iff; split; intros [H1 H2]; split; try assumption.
  - apply held_nil_true; assumption.
  - rewrite H2; reflexivity.
Qed.

(** * Frame: what is already held does not matter *)

Lemma mem_lm_app_l : forall x h1 h2, mem_lm x h1 = true -> mem_lm x (h1 ++ h2) = true.
Proof.
  intros x h1 h2 H; unfold mem_lm in *; rewrite existsb_app, H; reflexivity.
Qed.

Lemma remove_one_app_l : forall x h1 h2,
  mem_lm x h1 = true -> remove_one x (h1 ++ h2) = remove_one x h1 ++ h2.
Proof.
  intros x h1 h2; induction h1 as [|y h1 IH]; intros H; [discriminate|].
  cbn [app remove_one]. unfold mem_lm in H; cbn [existsb] in H.
  destruct (lm_eqb x y) eqn:E; [reflexivity|].
  cbn [orb] in H. cbn [app]. f_equal. apply IH; exact H.
Qed.

Lemma frame : forall p h1 h2,
  balanced h1 p = true ->
  balanced (h1 ++ h2) p = true /\ held_after (h1 ++ h2) p = held_after h1 p ++ h2.
Proof.
  induction p as [|e p IH]; intros h1 h2 H; [split; reflexivity|].
  destruct e as [l m|l m|f|f]; cbn [balanced held_after] in *.
  - apply (IH ((l, m) :: h1) h2 H).
  - apply andb_true_iff in H as [Hm Hb].
    rewrite (mem_lm_app_l _ _ h2 Hm), (remove_one_app_l _ _ h2 Hm); cbn [andb].
    apply IH; exact Hb.
  - apply IH; exact H.
  - apply IH; exact H.
Qed.

(** A list whose sections end is neutral whatever is held around it. *)
Theorem sections_end_neutral : forall p,
  sections_end p = true -> forall h, balanced h p = true /\ held_after h p = h.
Proof.
  intros p H h; apply sections_end_spec in H as [Hb Hh].
  destruct (frame p [] h Hb) as [H1 H2]; cbn [app] in *.
  split; [exact H1|]. rewrite H2, Hh; reflexivity.
Qed.

Lemma balanced_app : forall p q h,
  balanced h (p ++ q) = balanced h p && balanced (held_after h p) q.
Proof.
  induction p as [|e p IH]; intros q h; [reflexivity|].
  destruct e as [l m|l m|f|f]; cbn [app balanced held_after]; try apply IH.
  rewrite IH, andb_assoc; reflexivity.
Qed.

(** * Composition *)

Theorem sections_end_app : forall p q,
  sections_end p = true -> sections_end q = true -> sections_end (p ++ q) = true.
Proof.
  intros p q Hp Hq. apply sections_end_spec.
  destruct (sections_end_neutral p Hp []) as [Hb Hh].
  apply sections_end_spec in Hq as [Hqb Hqh].
  rewrite balanced_app, held_after_app, Hb, Hh, Hqb, Hqh; split; reflexivity.
Qed.

(** A call: the callee's path [b] runs between two events of the caller. *)
Theorem sections_end_insert : forall d1 b d2,
  sections_end (d1 ++ d2) = true -> sections_end b = true ->
  sections_end (d1 ++ b ++ d2) = true.
Proof.
  intros d1 b d2 Hd Hb. apply sections_end_spec in Hd as [Hdb Hdh]. apply sections_end_spec.
  rewrite balanced_app in Hdb; apply andb_true_iff in Hdb as [H1 H2].
  rewrite held_after_app in Hdh.
  destruct (sections_end_neutral b Hb (held_after [] d1)) as [Hbb Hbh].
  rewrite !balanced_app, !held_after_app, H1, Hbb, Hbh, H2, Hdh; split; reflexivity.
Qed.

(** Threads assembled from function paths: the events one function performs
    itself on one path, with the paths of its callees inserted where the calls
    are, to any depth. *)
Inductive inlined : list event -> Prop :=
| inl_own : forall p, sections_end p = true -> inlined p
| inl_call : forall d1 b d2, inlined (d1 ++ d2) -> inlined b -> inlined (d1 ++ b ++ d2).

Theorem inlined_sections_end : forall p, inlined p -> sections_end p = true.
Proof.
  induction 1; [assumption|apply sections_end_insert; assumption].
Qed.

Example inlined_example :
  (* HandleBefore-like caller: takes serverLock for reading twice, and calls
     between the two sections a callee that takes and drops it on its own *)
  inlined ([Acq "serverLock" R; Rd "conf"; Rel "serverLock" R] ++
           [Acq "serverLock" R; Rd "tls"; Rel "serverLock" R] ++
           [Acq "serverLock" R; Rel "serverLock" R]) /\
  sections_end [Acq "serverLock" R; Rd "tls"] = false.
Proof.
  split; [|reflexivity].
  apply inl_call; apply inl_own; reflexivity.
Qed.

(** * The machine: balanced threads leave every mutex free *)

Lemma total_nil_held : forall x (its : list ithread),
  Forall (fun it : ithread => fst it = []) its -> total x its = 0.
Proof.
  intros x its H; induction H as [|it its Hh _ IH]; [reflexivity|].
  cbn beta in Hh. cbn [total]; rewrite Hh, IH; reflexivity.
Qed.

Lemma ptotal_finished : forall l (its : list ithread),
  Forall (fun it : ithread => rest (snd it) = []) its -> ptotal l its = 0.
Proof.
  intros l its H; induction H as [|it its Hr _ IH]; [reflexivity|].
  cbn beta in Hr. cbn [ptotal]; rewrite IH. unfold pw, waits_w; rewrite Hr, andb_false_r; reflexivity.
Qed.

Theorem finished_locks_free : forall progs,
  Forall (fun p => sections_end p = true) progs ->
  forall s, reachable (init progs) s -> finished s ->
  forall l, writer (locks s l) = false /\ readers (locks s l) = 0 /\ pending (locks s l) = 0.
Proof.
  intros progs HF s Hr Hfin l.
  assert (HB : Forall (fun p => balanced [] p = true) progs).
  { eapply Forall_impl; [|exact HF]. intros p Hp; apply sections_end_spec in Hp; tauto. }
  destruct (pinv_reachable progs HB s Hr) as (its & Hm & HF2 & HL).
  assert (Hrest : Forall (fun it : ithread => rest (snd it) = []) its).
  { apply Forall_forall; intros it Hin. apply Hfin. rewrite <- Hm. apply in_map; exact Hin. }
  assert (Hheld : Forall (fun it : ithread => fst it = []) its).
  { clear HL Hm Hr Hfin HB.
    induction HF2 as [|p it ps its' [Hat _] _ IH]; [constructor|].
    inversion HF as [|? ? Hp HFr]; subst. inversion Hrest as [|? ? Hr0 Hrr]; subst.
    constructor; [|apply IH; assumption].
    destruct Hat as (d & Hpd & Hh & _). rewrite Hr0, app_nil_r in Hpd; subst d.
    apply sections_end_spec in Hp as [_ Hp]. rewrite Hh; exact Hp. }
  specialize (HL l). rewrite !(total_nil_held _ _ Hheld), (ptotal_finished _ _ Hrest) in HL.
  destruct HL as (Hw1 & _ & _ & Hrd & Hpd).
  split; [|split; assumption].
  destruct (writer (locks s l)); [specialize (Hw1 eq_refl); discriminate|reflexivity].
Qed.

(** The corollary of [no_deadlock_stall_free] for threads whose sections end:
    the machine never stalls, and every run that cannot be extended ends with
    all threads through AND all mutexes as at start-up. *)
Theorem balanced_threads_stall_free : forall progs,
  Forall (fun p => sections_end p = true) progs ->
  (forall s, reachable (init progs) s -> ~ deadlocked s) ->
  stall_free (init progs) /\
  (forall s, reachable (init progs) s ->
     forall n s', steps n s s' -> stuck s' ->
       finished s' /\
       forall l, writer (locks s' l) = false /\ readers (locks s' l) = 0 /\ pending (locks s' l) = 0).
Proof.
  intros progs HF Hnd; split; [apply no_deadlock_stall_free; exact Hnd|].
  intros s Hr n s' Hs Hst.
  destruct (no_deadlock_stall_free _ Hnd s Hr) as (_ & Hfin & _).
  specialize (Hfin n s' Hs Hst). split; [exact Hfin|].
  apply (finished_locks_free progs HF); [eapply steps_reachable; eassumption|exact Hfin].
Qed.

(** Threads that pass the ranking check are such threads: the premise was
    hidden in the last clause of [ranked]. *)
Lemma ranked_balanced_held : forall rank p h,
  ranked rank h p = true -> balanced h p = true /\ held_after h p = [].
Proof.
  intros rank p; induction p as [|e p IH]; intros h H.
  - cbn [ranked] in H; destruct h; [split; reflexivity|discriminate].
  - destruct e as [l m|l m|f|f]; cbn [ranked balanced held_after] in *.
    + apply andb_true_iff in H as [_ H]. apply IH; exact H.
    + apply andb_true_iff in H as [Hm H]. rewrite Hm; cbn [andb]. apply IH; exact H.
    + apply IH; exact H.
    + apply IH; exact H.
Qed.

Theorem ranked_sections_end : forall rank p, ranked rank [] p = true -> sections_end p = true.
Proof.
  intros rank p H; apply sections_end_spec; exact (ranked_balanced_held rank p [] H).
Qed.

Theorem ranked_balanced_stall_free : forall rank progs,
  Forall (fun p => ranked rank [] p = true) progs ->
  stall_free (init progs) /\
  (forall s, reachable (init progs) s -> forall n s', steps n s s' -> stuck s' ->
     finished s' /\
     forall l, writer (locks s' l) = false /\ readers (locks s' l) = 0 /\ pending (locks s' l) = 0).
Proof.
  intros rank progs H; apply balanced_threads_stall_free.
  - eapply Forall_impl; [|exact H]. intros p; apply ranked_sections_end.
  - exact (ranked_no_deadlock rank progs H).
Qed.

Example balanced_stall_free_example :
  let progs := [[Acq "serverLock" R; Rd "conf"; Rel "serverLock" R];
                [Acq "controlLock" W; Acq "serverLock" W; Wr "conf"; Rel "serverLock" W; Rel "controlLock" W];
                [Acq "serverLock" R; Rd "conf"; Rel "serverLock" R]] in
  Forall (fun p => sections_end p = true) progs /\ stall_free (init progs).
Proof.
  split; [repeat constructor|].
  apply (ranked_balanced_stall_free (fun l => if String.eqb l "controlLock" then 0 else 1)).
  repeat constructor.
Qed.

(** The premise is needed, on the shape of seeded change C05-K: the first
    thread is the request whose ClientID extraction returns between RLock and
    RUnlock (its list ends holding the read lock); the second is POST
    /control/access/set; the third is the next query. *)
Example leaked_read_lock_stalls :
  let leak := [Acq "dnsforward.Server.serverLock" R; Rd "dnsforward.Server.conf"] in
  let set_access := [Acq "dnsforward.Server.serverLock" W; Wr "dnsforward.Server.conf"; Rel "dnsforward.Server.serverLock" W] in
  let query := [Acq "dnsforward.Server.serverLock" R; Rd "dnsforward.Server.conf"; Rel "dnsforward.Server.serverLock" R] in
  sections_end leak = false /\ sections_end set_access = true /\ sections_end query = true /\
  exists s,
    reachable (init [leak; set_access; query]) s /\
    stuck s /\ ~ finished s /\
    threads s = [TH false []; TH true set_access; TH false query].
Proof.
  cbv zeta. split; [reflexivity|]. split; [reflexivity|]. split; [reflexivity|].
  eexists; split; [|assert (Hd : forall th,
      In th [TH false [];
             TH true [Acq "dnsforward.Server.serverLock" W; Wr "dnsforward.Server.conf"; Rel "dnsforward.Server.serverLock" W];
             TH false [Acq "dnsforward.Server.serverLock" R; Rd "dnsforward.Server.conf"; Rel "dnsforward.Server.serverLock" R]] ->
      ~ can_step (upd (upd (fun _ => l0) "dnsforward.Server.serverLock" (LS false 1 0))
                      "dnsforward.Server.serverLock" (LS false 1 1)) th)].
  - unfold init; simpl.
    eapply reach_front. { apply step_fst; apply ts_acq_r; reflexivity. }
    eapply reach_front. { apply step_fst; apply ts_rd. }
    eapply reach_front. { apply step_snd; apply ts_announce. }
    apply reach_refl.
  - intros th [<-|[<-|[<-|[]]]] (lt' & th' & Hs); inversion Hs; subst;
      match goal with H : _ = _ |- _ => vm_compute in H; discriminate H end.
  - split; [|split].
    + intros s' H; inversion H; subst.
      match goal with Hl : (_ ++ ?th :: _)%list = _, Ht : tstep _ ?th _ _ |- _ =>
        apply (Hd th); [rewrite <- Hl; apply in_or_app; right; left; reflexivity|do 2 eexists; exact Ht] end.
    + intros Hf.
      specialize (Hf (TH false [Acq "dnsforward.Server.serverLock" R; Rd "dnsforward.Server.conf"; Rel "dnsforward.Server.serverLock" R])).
      simpl in Hf. discriminate Hf. right; right; left; reflexivity.
    + reflexivity.
Qed.

(** Proofs about the configuration upgrade model (C13), part 1: association
    lists, absence of panics, frame and version stamp, composition over the
    step table. *)
From Coq Require Import List ZArith String Ascii Bool Lia.
From AGH Require Import Model.Migrate.
Import ListNotations.
Local Open Scope string_scope.
Local Open Scope list_scope.
Local Open Scope Z_scope.

(** ** Association lists *)

Lemma get_upd_eq k v m : get k (upd k v m) = Some v.
Proof.
  induction m as [|[k' v'] m IH]; cbn.
  - now rewrite String.eqb_refl.
  - destruct (String.eqb k k') eqn:E; cbn; [now rewrite String.eqb_refl | now rewrite E].
Qed.

Lemma get_upd_ne k k' v m : k <> k' -> get k (upd k' v m) = get k m.
Proof.
  intros N. induction m as [|[k2 v2] m IH]; cbn.
  - destruct (String.eqb k k') eqn:E; [apply String.eqb_eq in E; congruence | reflexivity].
  - destruct (String.eqb k' k2) eqn:E2; cbn.
    + apply String.eqb_eq in E2; subst k2.
      destruct (String.eqb k k') eqn:E; [apply String.eqb_eq in E; congruence | reflexivity].
    + destruct (String.eqb k k2); [reflexivity | exact IH].
Qed.

Lemma get_del_ne k k' m : k <> k' -> get k (del k' m) = get k m.
Proof.
  intros N. induction m as [|[k2 v2] m IH]; cbn; [reflexivity|].
  destruct (String.eqb k' k2) eqn:E2; cbn.
  - apply String.eqb_eq in E2; subst k2.
    destruct (String.eqb k k') eqn:E; [apply String.eqb_eq in E; congruence | exact IH].
  - destruct (String.eqb k k2); [reflexivity | exact IH].
Qed.

Lemma get_del_eq k m : get k (del k m) = None.
Proof.
  induction m as [|[k2 v2] m IH]; cbn; [reflexivity|].
  destruct (String.eqb k k2) eqn:E; cbn; [exact IH | now rewrite E].
Qed.

Lemma upd_same k v m : get k m = Some v -> upd k v m = m.
Proof.
  induction m as [|[k2 v2] m IH]; cbn; [discriminate|].
  destruct (String.eqb k k2) eqn:E.
  - apply String.eqb_eq in E; subst k2. now intros [= ->].
  - intros H. now rewrite IH.
Qed.

(** ** No panic *)

Definition np {A} (r : res A) : Prop := r <> Panic.

Lemma np_ok {A} (a : A) : np (Ok a). Proof. discriminate. Qed.
Lemma np_err {A} : np (@Err A). Proof. discriminate. Qed.
Lemma np_bind {A B} (r : res A) (f : A -> res B) : np r -> (forall a, np (f a)) -> np (bind r f).
Proof. destruct r; cbn; auto; congruence. Qed.
Lemma np_of_opt {A} (o : option A) : np (of_opt o).
Proof. destruct o; discriminate. Qed.
Lemma np_map_res {A B} (f : A -> res B) l : (forall a, np (f a)) -> np (map_res f l).
Proof.
  intros H. induction l as [|a l IH]; cbn; [apply np_ok|].
  apply np_bind; [apply H|]. intros b. apply np_bind; [exact IH|]. intros; apply np_ok.
Qed.
Lemma np_with_obj m k f : (forall o, np (f o)) -> np (with_obj m k f).
Proof.
  intros H. unfold with_obj. destruct (field_val TObj m k); try discriminate.
  apply np_bind; [apply H|]. intros; apply np_ok.
Qed.

Ltac np_step :=
  repeat first
    [ apply np_ok | apply np_err | apply np_of_opt
    | apply np_bind | apply np_with_obj | apply np_map_res
    | match goal with
      | |- np (match ?x with _ => _ end) => destruct x
      | |- np (if ?x then _ else _) => destruct x
      end
    | lazymatch goal with |- np _ => fail | |- forall _, _ => intro end ].

Section WithOracles.
Variable O : oracles.

Definition panic_free (s : step) : Prop := forall m, np (s (Some m)).

Lemma steps_panic_free : Forall panic_free (map snd (steps O)).
Proof.
  unfold steps; cbn [map snd].
  repeat (apply Forall_cons; [intros m; cbv beta delta [step1 step2 step3 step4 step5 step6 step7 step8 step9 step10
    step11 step12 step13 step14 step15 step16 step17 step18 step19 step20 step21 step22 step23 step24 step25
    step26 step27 step28 step29 replace_dot quic_field client6 client22 filter29 quic_elem stamp]; cbn [bind]; np_step|]).
  apply Forall_nil.
Qed.

Lemma run_steps_np l m : Forall panic_free l -> np (run_steps l m).
Proof.
  intros H; revert m. induction H as [|s l Hs _ IH]; intros m; cbn; [apply np_ok|].
  apply np_bind; [apply Hs | exact IH].
Qed.

Lemma Forall_firstn {A} (P : A -> Prop) n l : Forall P l -> Forall P (firstn n l).
Proof. intros H; revert n; induction H; intros [|n]; cbn; auto. Qed.
Lemma Forall_skipn {A} (P : A -> Prop) n l : Forall P l -> Forall P (skipn n l).
Proof. intros H; revert n; induction H; intros [|n]; cbn; auto. Qed.

Lemma upgrade_no_panic cur tgt m : upgrade O cur tgt m <> Panic.
Proof.
  unfold upgrade. apply run_steps_np, Forall_firstn, Forall_skipn, steps_panic_free.
Qed.

Lemma migrate_no_panic top target : migrate O top target <> OPanic.
Proof.
  unfold migrate.
  destruct (field_val TInt _ "schema_version"); try discriminate;
  repeat match goal with |- (if ?x then _ else _) <> _ => destruct x; try discriminate end;
  match goal with |- match upgrade O ?c ?t ?m with _ => _ end <> _ =>
    pose proof (upgrade_no_panic c t m); destruct (upgrade O c t m); congruence end.
Qed.

End WithOracles.

(** The guard on a null document is what the absence of panics rests on: the
    first statement of every step assigns into the map. *)
Lemma nil_map_would_panic O : forall s, In s (map snd (steps O)) -> s None = Panic.
Proof.
  intros s H. cbn in H.
  repeat (destruct H as [<-|H]; [reflexivity|]). contradiction.
Qed.

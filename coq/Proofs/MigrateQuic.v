(** C13, round 7: step 10 keeps the domain prefix of every upstream line,
    whatever the URL code ([core]) makes of the part after it. *)
From Coq Require Import List String Ascii Bool.
From AGH Require Import Model.Migrate Model.MigrateQuic.
Import ListNotations.
Local Open Scope string_scope.

Lemma sapp_assoc a b c : ((a ++ b) ++ c)%string = (a ++ b ++ c)%string.
Proof. induction a as [|x a IH]; cbn [append]; [reflexivity|]. now rewrite IH. Qed.

Lemma is_char_eq c d : is_char c (String d EmptyString) = true -> c = d.
Proof. cbn. apply Ascii.eqb_eq. Qed.

Lemma cut_sep_spec : forall s a b, cut_sep s = Some (a, b) -> s = a ++ "/]" ++ b.
Proof.
  induction s as [|c r IH]; intros a b H; [discriminate|].
  cbn [cut_sep] in H. destruct r as [|d r']; [discriminate|].
  destruct (is_char c "/" && is_char d "]") eqn:E.
  - injection H as <- <-. apply andb_prop in E. destruct E as [E1 E2].
    apply is_char_eq in E1. apply is_char_eq in E2. now subst.
  - destruct (cut_sep (String d r')) as [[a' b']|] eqn:C; [|discriminate].
    injection H as <- <-. cbn [append]. f_equal. now apply IH.
Qed.

(** What [quic_split] hands on is the line itself, cut after its prefix. *)
Lemma quic_split_spec s doms rest :
  quic_split s = Some (doms, rest) -> s = doms ++ rest /\ doms = domain_prefix s.
Proof.
  unfold quic_split, domain_prefix. destruct s as [|c r]; [discriminate|].
  destruct (is_char c "#"); [discriminate|].
  destruct r as [|d t]; [intros [= <- <-]; auto|].
  destruct (is_char c "[" && is_char d "/") eqn:E; [|intros [= <- <-]; auto].
  destruct (cut_sep t) as [[doms0 rest0]|] eqn:C; [|discriminate].
  destruct (cut_sep rest0); [discriminate|]. intros [= <- <-].
  apply andb_prop in E. destruct E as [E1 E2]. apply is_char_eq in E1. apply is_char_eq in E2. subst.
  split; [|reflexivity]. rewrite (cut_sep_spec _ _ _ C). cbn [append].
  now rewrite !sapp_assoc.
Qed.

(** The prefix of a line is a prefix of it. *)
Lemma domain_prefix_is_prefix s : exists t, s = domain_prefix s ++ t.
Proof.
  unfold domain_prefix. destruct s as [|c [|d t]]; try (eexists; reflexivity).
  destruct (is_char c "[" && is_char d "/") eqn:E; [|eexists; reflexivity].
  destruct (cut_sep t) as [[doms rest]|] eqn:C; [|eexists; reflexivity].
  apply andb_prop in E. destruct E as [E1 E2]. apply is_char_eq in E1. apply is_char_eq in E2. subst.
  exists rest. rewrite (cut_sep_spec _ _ _ C). cbn [append]. now rewrite !sapp_assoc.
Qed.

(** The result is the line itself, or the line with the part after its prefix
    replaced by what the core made of that part. *)
Theorem add_quic_port_shape core s :
  add_quic_port core s = s \/
  exists rest r, s = domain_prefix s ++ rest /\ core rest = Some r /\
                 add_quic_port core s = domain_prefix s ++ r.
Proof.
  unfold add_quic_port. destruct (quic_split s) as [[doms rest]|] eqn:Q; [|now left].
  destruct (quic_split_spec _ _ _ Q) as [E D].
  destruct (has_scheme_sep rest); [|now left].
  destruct (core rest) as [r|] eqn:C; [|now left].
  right. exists rest, r. rewrite <- D. auto.
Qed.

(** Step 10 keeps the domain prefix of every line, for every core. *)
Theorem step10_keeps_domain_prefix core s :
  exists t, add_quic_port core s = domain_prefix s ++ t.
Proof.
  destruct (add_quic_port_shape core s) as [->|(rest & r & _ & _ & ->)].
  - apply domain_prefix_is_prefix.
  - now exists r.
Qed.

(** A line the core leaves alone is returned whole. *)
Theorem add_quic_port_leaves_alone core s :
  (forall rest, core rest = None) -> add_quic_port core s = s.
Proof.
  intros H. destruct (add_quic_port_shape core s) as [E|(rest & r & _ & C & _)]; [exact E|].
  rewrite H in C. discriminate.
Qed.

(** Carried to the element function of step 10 when the oracle of the step is
    this function over some core. *)
Definition with_core (O : oracles) (core : string -> option string) : oracles :=
  {| o_bcrypt := o_bcrypt O; o_quic := add_quic_port core; o_addr := o_addr O; o_glob := o_glob O |}.

Theorem quic_elem_keeps_domain_prefix O core s v :
  quic_elem (with_core O core) (VStr s) = Ok v -> exists t, v = VStr (domain_prefix s ++ t).
Proof.
  cbn. intros [= <-]. destruct (step10_keeps_domain_prefix core s) as [t ->]. now exists t.
Qed.

Example prefix_examples :
  let core := fun r => if String.eqb r "quic://dns.example.org" then Some "quic://dns.example.org:784" else None in
  add_quic_port core "[/lan/]quic://dns.example.org" = "[/lan/]quic://dns.example.org:784" /\
  add_quic_port core "[/lan/]tls://192.168.1.1" = "[/lan/]tls://192.168.1.1" /\
  add_quic_port core "[/a/b/]#" = "[/a/b/]#" /\
  add_quic_port core "[/a/]x/]quic://dns.example.org" = "[/a/]x/]quic://dns.example.org" /\
  add_quic_port core "# [/lan/]quic://dns.example.org" = "# [/lan/]quic://dns.example.org" /\
  add_quic_port core "quic://dns.example.org" = "quic://dns.example.org:784" /\
  domain_prefix "[/corp.example/internal.example/]https://d/q" = "[/corp.example/internal.example/]".
Proof. repeat split; vm_compute; reflexivity. Qed.

(** REFUTED variant (seeded change C13-M): a line the core leaves alone is
    returned without its prefix. *)
Theorem drop_prefix_refuted :
  exists core s, (forall rest, core rest = None) /\ domain_prefix s = "[/lan/]" /\
    add_quic_port_drop core s = "tls://192.168.1.1" /\
    ~ exists t, add_quic_port_drop core s = domain_prefix s ++ t.
Proof.
  exists (fun _ => None), "[/lan/]tls://192.168.1.1". split; [reflexivity|]. split; [reflexivity|].
  split; [reflexivity|]. intros [t H]. vm_compute in H. discriminate H.
Qed.

(** ... and on a line without a domain prefix the variant IS the function:
    no such line tells them apart. *)
Theorem drop_same_without_prefix core s :
  domain_prefix s = EmptyString -> add_quic_port_drop core s = add_quic_port core s.
Proof.
  intros D. unfold add_quic_port_drop, add_quic_port.
  destruct (quic_split s) as [[doms rest]|] eqn:Q; [|reflexivity].
  destruct (quic_split_spec _ _ _ Q) as [E P]. rewrite D in P. subst doms. cbn [append] in E. now subst.
Qed.

(** C07: what the case folding of the search criteria covers
    (Model.QLog.equal_fold / contains_fold). *)
From Coq Require Import ZArith NArith List Bool Lia.
From AGH Require Import Base.Run Model.QLogFile Model.QLog.
Import ListNotations.
Local Open Scope N_scope.

Definition ascii_only (s : bytes) : bool := forallb (fun b => b <? 128) s.

(** On ASCII text the special treatment of U+212A / U+017F does nothing. *)
Lemma fold_ascii_orbit_ascii s : ascii_only s = true -> fold_ascii_orbit s = s.
Proof.
  induction s as [|b0 r0 IH]; intro H; [reflexivity|].
  cbn [ascii_only forallb] in H. apply andb_true_iff in H as [Hb Hr]. apply N.ltb_lt in Hb.
  specialize (IH Hr). cbn [fold_ascii_orbit]. destruct r0 as [|b1 r1]; [reflexivity|].
  replace (b0 =? 197) with false by (symmetry; apply N.eqb_neq; lia).
  replace (b0 =? 226) with false by (symmetry; apply N.eqb_neq; lia).
  cbn [andb]. destruct r1; rewrite IH; reflexivity.
Qed.

Theorem equal_fold_ascii a b : ascii_only a = true -> ascii_only b = true ->
  equal_fold a b = eqb_bytes (fold_case a) (fold_case b).
Proof. intros Ha Hb. unfold equal_fold. rewrite !fold_ascii_orbit_ascii by auto. reflexivity. Qed.

(** Containment = some window of the value equals the term after ASCII
    folding, byte for byte (so the window has the term's byte length). *)
Lemma prefix_b_spec p : forall s, prefix_b p s = true <-> exists r, s = p ++ r.
Proof.
  induction p as [|x p IH]; intro s; cbn [prefix_b].
  - split; [intros _; exists s; reflexivity|auto].
  - destruct s as [|y s]; [split; [discriminate|intros [r Hr]; discriminate]|].
    rewrite andb_true_iff, N.eqb_eq, IH. split.
    + intros [-> [r ->]]. exists r. reflexivity.
    + intros [r Hr]. cbn [app] in Hr. injection Hr as -> ->. eauto.
Qed.

Lemma contains_b_spec sub : forall s, contains_b s sub = true <-> exists a b, s = a ++ sub ++ b.
Proof.
  induction s as [|y s IH]; cbn [contains_b]; rewrite orb_true_iff, prefix_b_spec.
  - split.
    + intros [[r Hr]|H]; [exists [], r; exact Hr|discriminate].
    + intros (a & b & H). left. destruct a; [exists b; exact H|discriminate].
  - rewrite IH. split.
    + intros [[r Hr]|(a & b & ->)]; [exists [], r; exact Hr|exists (y :: a), b; reflexivity].
    + intros (a & b & H). destruct a as [|z a]; [left; exists b; exact H|].
      right. cbn [app] in H. injection H as -> ->. eauto.
Qed.

Theorem contains_fold_windows s sub :
  contains_fold s sub = true <-> exists a w b, s = a ++ w ++ b /\ fold_case w = fold_case sub.
Proof.
  unfold contains_fold. rewrite contains_b_spec. unfold fold_case. split.
  - intros (a & b & H). apply map_eq_app in H as (l1 & l2 & -> & H1 & H2).
    apply map_eq_app in H2 as (w & l3 & -> & H2 & H3). exists l1, w, l3. auto.
  - intros (a & w & b & -> & H). exists (map lower a), (map lower b). rewrite !map_app, H. reflexivity.
Qed.

Corollary contains_fold_window_length s sub a w b :
  s = a ++ w ++ b -> fold_case w = fold_case sub -> length w = length sub.
Proof. intros _ H. unfold fold_case in H. rewrite <- (map_length lower w), H, map_length. reflexivity. Qed.

(** The two code points in equality and in containment. *)
Example fold_examples :
  let kelvin9_set := [226; 132; 170; 57; 32; 197; 191; 101; 116] in   (* U+212A 9 space U+017F e t *)
  let k9_set := [107; 57; 32; 115; 101; 116] in
  equal_fold kelvin9_set k9_set = true /\
  equal_fold kelvin9_set [75; 57; 32; 83; 69; 84] = true /\
  contains_fold kelvin9_set [107; 57] = false /\
  contains_fold kelvin9_set [57; 32; 197; 191] = true /\
  contains_fold [77; 121; 32; 75; 105; 116; 99; 104; 101; 110] [107; 105; 116; 99; 104; 101; 110] = true.
Proof. vm_compute. auto. Qed.

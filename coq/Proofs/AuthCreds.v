(** C11, round 3: what the refusal of an unauthenticated request depends on.

    (1) findUser is inside the model: an account authenticates a pair (name,
        password) only when bcrypt answers nil for its stored hash; an account
        whose stored hash bcrypt cannot use (any answer other than nil)
        authenticates nobody.
    (2) The refusal is a function of the path, the session cookie, the basic
        credentials, the TLS flag and the Host check alone: the method and
        every other header (Origin, Access-Control-Request-Method, Upgrade,
        Content-Type, ...) are irrelevant, for every chain in which only
        method-blind wrappers stand in front of optionalAuth. *)
From AGH Require Import Base.Run Model.Session Model.AuthHttp Proofs.AuthHttp.
From stdpp Require Import gmap.
Local Open Scope Z_scope.

(** * findUser *)

Lemma bc_is_ok_iff r : bc_is_ok r = true <-> r = BcOk.
Proof. destruct r; cbn; split; congruence. Qed.

Lemma find_user_with_sound acc bc us l p n h :
  find_user_with acc bc us l p = Some (n, h) -> In (n, h) us /\ n = l /\ acc (bc h p) = true.
Proof.
  induction us as [|[n' h'] us IH]; cbn [find_user_with]; [discriminate|].
  destruct (eqb_bytes n' l && acc (bc h' p)) eqn:E.
  - intros [= -> ->]. apply andb_true_iff in E as [E1 E2]. apply eqb_bytes_eq in E1.
    repeat split; auto. left. reflexivity.
  - intros H. destruct (IH H) as (? & ? & ?). repeat split; auto. right. assumption.
Qed.

Lemma find_user_with_complete acc bc us l p h :
  In (l, h) us -> acc (bc h p) = true -> find_user_with acc bc us l p <> None.
Proof.
  induction us as [|[n' h'] us IH]; cbn [find_user_with]; [intros []|].
  intros [E|Hin] Hacc.
  - injection E as -> ->. rewrite eqb_bytes_refl, Hacc. discriminate.
  - destruct (eqb_bytes n' l && acc (bc h' p)); [discriminate|]. apply IH; assumption.
Qed.

(** findUser answers "found" exactly when some account carries the submitted
    name and bcrypt answers nil for its stored hash and the submitted
    password. *)
Theorem find_user_iff bc us l p :
  (exists u, find_user bc us l p = Some u) <-> (exists h, In (l, h) us /\ bc h p = BcOk).
Proof.
  unfold find_user. split.
  - intros [[n h] H]. apply find_user_with_sound in H as (Hin & -> & Hok).
    exists h. split; [assumption|]. apply bc_is_ok_iff. assumption.
  - intros (h & Hin & Hok).
    destruct (find_user_with bc_is_ok bc us l p) as [u|] eqn:E; [eauto|].
    exfalso. eapply find_user_with_complete; eauto. rewrite Hok. reflexivity.
Qed.

Theorem basic_ok_iff e r :
  basic_ok e r = true <->
  exists l p h, r_basic r = BCred l p /\ In (l, h) (e_accounts e) /\ e_bcrypt e h p = BcOk.
Proof.
  unfold basic_ok. destruct (r_basic r) as [|l p].
  - split; [discriminate|]. intros (? & ? & ? & ? & _). discriminate.
  - destruct (find_user (e_bcrypt e) (e_accounts e) l p) as [u|] eqn:E.
    + split; [intros _|reflexivity].
      destruct (proj1 (find_user_iff _ _ _ _) (ex_intro _ u E)) as (h & ? & ?). eauto 6.
    + split; [discriminate|]. intros (l' & p' & h & [= <- <-] & Hin & Hok).
      destruct (proj2 (find_user_iff (e_bcrypt e) (e_accounts e) l p)) as [u Hu]; [eauto|]. congruence.
Qed.

(** A request counts as authenticated only through a session the table
    accepts now, or, without a session cookie, through basic credentials
    naming an account for whose stored hash bcrypt answers nil. *)
Theorem authenticated_only_if e s r :
  authenticated e s r = true ->
  (exists tok, r_cookie r = CTok tok /\ authenticates (e_ttl e) (e_now e) tok s = true) \/
  (r_cookie r = CNone /\
   exists l p h, r_basic r = BCred l p /\ In (l, h) (e_accounts e) /\ e_bcrypt e h p = BcOk).
Proof.
  unfold authenticated. destruct (r_cookie r) as [|tok]; intros H.
  - right. split; [reflexivity|]. apply basic_ok_iff. assumption.
  - left. eauto.
Qed.

(** An account whose stored hash bcrypt cannot use (or simply does not match)
    opens nothing: basic credentials naming it are refused by every chain that
    contains optionalAuth, whatever the password. *)
Theorem unusable_hash_refused {A R} ws e (w : world A) r l p :
  In WOptionalAuth ws -> e_auth_required e = true -> is_public (r_path r) = false ->
  r_cookie r = CNone -> r_basic r = BCred l p ->
  (forall h, In (l, h) (e_accounts e) -> e_bcrypt e h p <> BcOk) ->
  exists w' (a : answer R), blocks (apply_chain ws) e w r w' a /\ w_sess w' = w_sess w.
Proof.
  intros Hin Hreq Hpub Hc Hb Hbad.
  assert (Hauth : authenticated e (w_sess w) r = false).
  { destruct (authenticated e (w_sess w) r) eqn:E; [|reflexivity]. exfalso.
    apply authenticated_only_if in E as [(tok & Ht & _)|(_ & l' & p' & h & Hb' & Hi & Hok)]; [congruence|].
    rewrite Hb in Hb'. injection Hb' as <- <-. exact (Hbad h Hi Hok). }
  destruct (guarded_chain_blocks (R := R) ws e w r Hin Hreq Hpub Hauth) as (w' & a & Hbl & [Hs|Hs]); exists w', a; split; auto.
  rewrite Hs. unfold sess_after. rewrite Hc. reflexivity.
Qed.

(** The slip: let every bcrypt answer but "mismatch" through. *)
Definition slip_accepts (r : bc_res) : bool := match r with BcMismatch => false | _ => true end.

Definition ex_bad_accounts : list (bytes * bytes) := [([97]%N, [36;50;97;36;48;52]%N)].   (* "a", "$2a$04": truncated *)
Definition ex_bad_bcrypt : bc_oracle := fun _ _ => BcError.                                 (* ErrHashTooShort *)

Example find_user_slip_refuted :
  forall p, find_user_with slip_accepts ex_bad_bcrypt ex_bad_accounts [97]%N p <> None /\
            find_user ex_bad_bcrypt ex_bad_accounts [97]%N p = None.
Proof. intros p. cbn. split; [discriminate|reflexivity]. Qed.

Example unusable_hash_premises_satisfiable :
  let e := {| e_first_run := false; e_auth_present := true; e_accounts := ex_bad_accounts; e_bcrypt := ex_bad_bcrypt;
              e_https := false; e_force_https := false; e_now := 1000; e_ttl := 3600 |} in
  let r := {| r_method := str_GET; r_path := ex_path; r_ctype := []; r_clen := 0; r_cookie := CNone;
              r_basic := BCred [97]%N [120]%N; r_tls := false; r_host_ok := true; r_hdrs := [] |} in
  e_auth_required e = true /\ is_public (r_path r) = false /\
  (forall h, In ([97]%N, h) (e_accounts e) -> e_bcrypt e h [120]%N <> BcOk) /\
  snd (apply_chain (http_register_chain str_GET) ex_handler e ex_world r) = AStatus 403 /\
  (* the same request against the example account of [ex_env], whose oracle accepts "p" *)
  snd (apply_chain (http_register_chain str_GET) ex_handler ex_env ex_world
         {| r_method := str_GET; r_path := ex_path; r_ctype := []; r_clen := 0; r_cookie := CNone;
            r_basic := BCred [97]%N [112]%N; r_tls := false; r_host_ok := true; r_hdrs := [] |}) = AHandler tt.
Proof. cbv zeta. split; [reflexivity|]. split; [reflexivity|]. split; [intros h _; discriminate|]. split; vm_compute; reflexivity. Qed.

(** * Method and headers *)

(** Two requests that agree on everything the refusal may look at; they may
    differ in method, Content-Type, Content-Length and every other header. *)
Definition same_credentials (r r' : request) : Prop :=
  r_path r = r_path r' /\ r_cookie r = r_cookie r' /\ r_basic r = r_basic r' /\
  r_tls r = r_tls r' /\ r_host_ok r = r_host_ok r'.

(** Wrappers that read neither the method nor a header. *)
Definition method_blind (x : wrapper) : bool :=
  match x with
  | WPostInstall | WPreInstall | WGzip | WLimitBody => true
  | WOptionalAuth | WEnsure _ | WUnknown _ => false
  end.

(** Only method-blind wrappers stand in front of the first optionalAuth. *)
Fixpoint blind_before_auth (ws : list wrapper) : bool :=
  match ws with
  | [] => false
  | x :: ws' => if is_optional_auth x then true else method_blind x && blind_before_auth ws'
  end.

Section Independence.
Context {A R : Type}.
Notation H := (handler A R).

Lemma basic_ok_same e r r' : r_basic r = r_basic r' -> basic_ok e r' = basic_ok e r.
Proof. unfold basic_ok. intros ->. reflexivity. Qed.

Lemma optional_auth_refusal_same e (w : world A) r r' :
  same_credentials r r' ->
  e_auth_required e = true -> is_public (r_path r) = false -> authenticated e (w_sess w) r = false ->
  forall h : H, optional_auth h e w r' = optional_auth h e w r.
Proof.
  intros (Hp & Hc & Hb & _) Hreq Hpub Hauth h.
  unfold optional_auth, authenticated in *. rewrite <- Hp, <- Hc, (basic_ok_same e r r' Hb).
  destruct (eqb_bytes (r_path r) str_login_html) eqn:El.
  { apply eqb_bytes_eq in El. rewrite El, is_public_login_html in Hpub. discriminate. }
  rewrite Hpub, Hreq. destruct (r_cookie r) as [|tok].
  - rewrite Hauth. reflexivity.
  - rewrite check_cookie_spec, Hauth. reflexivity.
Qed.

Lemma blind_wrapper_same x e (w : world A) r r' :
  method_blind x = true -> same_credentials r r' ->
  (exists a : answer R, blocks (apply_wrapper x) e w r w a /\ blocks (apply_wrapper x) e w r' w a) \/
  (runs (R := R) (apply_wrapper x) e w r w /\ runs (R := R) (apply_wrapper x) e w r' w).
Proof.
  intros Hx (Hp & _ & _ & Ht & Hh). destruct x; try discriminate; unfold blocks, runs; cbn [apply_wrapper].
  - unfold post_install, https_redirect. rewrite <- Hp, <- Ht, <- Hh.
    destruct (e_first_run e && negb (has_prefix str_install_dot (r_path r)) &&
              negb (has_prefix str_assets (r_path r))).
    { left. eexists. repeat split; auto. }
    destruct (e_https e); cbn; [|right; auto].
    destruct (r_host_ok r); cbn.
    + destruct (e_force_https e && negb (r_tls r)); [|right; auto].
      left. eexists. repeat split; auto.
    + left. eexists. repeat split; auto.
  - unfold pre_install. destruct (e_first_run e); cbn; [right|left; eexists]; repeat split; auto.
  - right. unfold gzip. auto.
  - right. auto.
Qed.

(** The refusal of an unauthenticated request for a non-public path is the
    same answer and the same world for every request with these credentials:
    it does not depend on the method or on any header other than Cookie and
    Authorization. *)
Theorem refusal_method_header_independent ws e (w : world A) r r' :
  blind_before_auth ws = true -> same_credentials r r' ->
  e_auth_required e = true -> is_public (r_path r) = false -> authenticated e (w_sess w) r = false ->
  exists w' (a : answer R),
    blocks (apply_chain ws) e w r w' a /\ blocks (apply_chain ws) e w r' w' a /\ session_effect e w r w'.
Proof.
  intros Hbl Hsame Hreq Hpub Hauth. induction ws as [|x ws IH]; [discriminate|].
  change (apply_chain (x :: ws)) with (fun h : H => apply_wrapper x (apply_chain ws h)).
  cbn [blind_before_auth] in Hbl. destruct (is_optional_auth x) eqn:Ho.
  - destruct x; try discriminate. cbn [apply_wrapper].
    destruct (optional_auth_blocks (R := R) e w r Hreq Hpub Hauth) as (w' & a & (Hb & Happ & Hn) & Hs & _).
    exists w', a. split; [|split].
    + apply (blocks_under optional_auth). repeat split; auto.
    + repeat split; auto. intros h. rewrite (optional_auth_refusal_same e w r r' Hsame Hreq Hpub Hauth). apply Hb.
    + right. exact Hs.
  - apply andb_true_iff in Hbl as [Hx Hbl]. specialize (IH Hbl).
    destruct (blind_wrapper_same x e w r r' Hx Hsame) as [(a & Hb & Hb')|[[Hr _] [Hr' _]]].
    + exists w, a. split; [apply (blocks_under (apply_wrapper x)), Hb|].
      split; [apply (blocks_under (apply_wrapper x)), Hb'|]. left. reflexivity.
    + destruct IH as (w' & a & (Hb & Happ & Hn) & (Hb' & _ & _) & Hs). exists w', a.
      split; [|split; [|exact Hs]]; repeat split; auto; intros h; [rewrite Hr|rewrite Hr']; auto.
Qed.

Lemma http_register_chain_blind m : blind_before_auth (http_register_chain m) = true.
Proof. reflexivity. Qed.

(** For the chain of httpRegister: the answer is moreover 403 or the redirect
    to the login page (no first run, no HTTPS server), whatever the method,
    registered or not (OPTIONS, HEAD, PATCH, TRACE, CONNECT, anything), and
    whatever the headers. *)
Theorem chain_refusal_method_header_independent m e (w : world A) r r' :
  same_credentials r r' ->
  e_auth_required e = true -> is_public (r_path r) = false -> authenticated e (w_sess w) r = false ->
  exists w' (a : answer R),
    blocks (apply_chain (http_register_chain m)) e w r w' a /\
    blocks (apply_chain (http_register_chain m)) e w r' w' a /\
    session_effect e w r w' /\
    (e_first_run e = false -> e_https e = false -> a = AStatus 403 \/ a = ARedirect 302 str_login_rel).
Proof.
  intros Hsame Hreq Hpub Hauth.
  destruct (refusal_method_header_independent _ e w r r' (http_register_chain_blind m) Hsame Hreq Hpub Hauth)
    as (w' & a & Hb & Hb' & Hs).
  exists w', a. repeat split; try apply Hb; try apply Hb'; auto.
  intros Hf Hh.
  destruct (proj1 (chain_guards (R := R) m e w r) Hreq Hpub Hauth) as (w2 & a2 & (Hb2 & _) & _ & Hans).
  pose (h0 := (fun _ w0 _ => (w0, AStatus 0)) : H).
  destruct Hb as (Hb & _). specialize (Hb h0). rewrite Hb2 in Hb. injection Hb as <- <-. auto.
Qed.

End Independence.

(** Non-vacuity: the same unauthenticated request as GET, as OPTIONS with an
    Origin header and as CONNECT, behind the chain of /control/version.json
    (no method gate) and behind httpRegister. *)
Definition ex_req_mh (m : bytes) (hs : list (bytes * bytes)) : request :=
  {| r_method := m; r_path := ex_path; r_ctype := []; r_clen := 0; r_cookie := CNone;
     r_basic := BNone; r_tls := false; r_host_ok := true; r_hdrs := hs |}.
Definition str_OPTIONS : bytes := [79;80;84;73;79;78;83]%N.
Definition str_CONNECT : bytes := [67;79;78;78;69;67;84]%N.
Definition hdr_origin : bytes * bytes := ([79;114;105;103;105;110]%N, [104;116;116;112;58;47;47;120]%N).  (* Origin: http://x *)

Example independence_premises_satisfiable :
  same_credentials (ex_req_mh str_GET []) (ex_req_mh str_OPTIONS [hdr_origin]) /\
  blind_before_auth [WPostInstall; WOptionalAuth] = true /\
  blind_before_auth [WPostInstall; WOptionalAuth; WGzip] = true /\
  blind_before_auth [WPostInstall; WEnsure str_GET; WOptionalAuth] = false /\
  Forall (fun r => snd (apply_chain [WPostInstall; WOptionalAuth] ex_handler ex_env ex_world r) = AStatus 403 /\
                   snd (apply_chain (http_register_chain str_GET) ex_handler ex_env ex_world r) = AStatus 403)
    [ex_req_mh str_GET []; ex_req_mh str_OPTIONS [hdr_origin]; ex_req_mh str_CONNECT [hdr_origin]].
Proof.
  split; [repeat split|]. do 3 (split; [reflexivity|]).
  repeat (constructor; [split; vm_compute; reflexivity|]). constructor.
Qed.

(** Proofs about the save programs of Model/SaveLoop.v: content identity.

    For every new content, every chunking, every fault plan and every crash
    point, the file visible at dst is the complete previous version or the
    complete NEW version (the parameter of the save, not "whatever was
    written"); a save that reports success has published exactly the new
    version and one that reports failure (or "unchanged") has left the
    previous one.  The download path adds the reader: a reader that can only
    end with EOF after delivering the whole body keeps the statement, the
    standard io.LimitReader refutes it at size = limit + 1. *)
From Coq Require Import List NArith Bool Lia.
From AGH Require Import Base.FS Proofs.FS Model.SaveLoop.
Import ListNotations.
Local Open Scope N_scope.

(** ** Tails that publish nothing *)

Definition quiet_op (dst : path) (o : op) : Prop :=
  match o with Fsync _ | Close _ => True | Unlink p => p <> dst | _ => False end.

Lemma quiet_tail dst tail : Forall (quiet_op dst) tail ->
  forall s, trace_safe dst s tail = true /\ versions s tail dst = [].
Proof.
  induction 1 as [|o tail Ho _ IH]; intros s; cbn [trace_safe versions]; [auto|].
  destruct (IH (step s o)) as [Hs Hv]. rewrite Hs, Hv.
  destruct o; cbn in Ho; try contradiction; cbn [step_ok published app andb]; auto.
  apply N.eqb_neq in Ho. rewrite Ho. auto.
Qed.

Lemma open_filling s dst tmp fd :
  fresh_tmp s dst tmp ->
  step_ok dst s (Open fd tmp fl_tmp) = true /\
  published s (Open fd tmp fl_tmp) dst = [] /\
  filling (step s (Open fd tmp fl_tmp)) dst tmp fd (next_ino s) [].
Proof.
  intros (Hne & Habs & Hev & Hfile).
  set (n := next_ino s) in *.
  cbn [step_ok published]. rewrite Habs.
  cbn [fl_tmp o_creat]. apply N.eqb_neq in Hne. rewrite Hne. cbn [andb negb].
  split; [reflexivity|]. split; [reflexivity|].
  unfold filling. cbn [step]. rewrite Habs. cbn [fl_tmp o_creat o_wr o_app].
  repeat split.
  - cbn [fds set_fd]. rewrite aget_aset, N.eqb_refl. reflexivity.
  - unfold f_cur_spec, file_of. cbn [files set_fd set_dir]. fold n. rewrite Hfile. reflexivity.
  - unfold ever_at in *. cbn [all_dirs dir_cur dir_old set_fd set_dir existsb] in *.
    rewrite aget_aset. rewrite N.eqb_sym, Hne.
    destruct (match aget (dir_cur s) dst with Some j => j =? n | None => false end); [discriminate|exact Hev].
  - cbn [dir_cur set_fd set_dir]. rewrite aget_aset, N.eqb_refl. reflexivity.
Qed.

(** Open a fresh temporary file, write, then only fsync / close / unlink of
    names other than dst: accepted, nothing published. *)
Lemma abort_shape_checked s dst tmp fd done tail :
  fresh_tmp s dst tmp -> Forall (quiet_op dst) tail ->
  let t := Open fd tmp fl_tmp :: map (Write fd) done ++ tail in
  trace_safe dst s t = true /\ versions s t dst = [].
Proof.
  intros Hf Ht. cbn zeta.
  destruct (open_filling s dst tmp fd Hf) as (Ho & Hp & Hfill).
  cbn [trace_safe versions]. rewrite Ho, Hp. cbn [andb app].
  rewrite trace_safe_app, versions_app.
  destruct (filling_writes dst tmp fd _ done _ [] Hfill) as (Hs & Hv & _).
  rewrite Hs, Hv. cbn [andb app].
  apply quiet_tail, Ht.
Qed.

Lemma tmp_ne_dst s dst tmp : fresh_tmp s dst tmp -> tmp <> dst.
Proof. intros (H & _). exact H. Qed.

(** ** One save: accepted by the checker; publishes the written content iff
    it reports [Replaced] *)

Lemma save_ops_checked cl s dst tmp fd done e p :
  fresh_tmp s dst tmp ->
  let t := fst (save_ops cl fd tmp dst done e p) in
  let r := snd (save_ops cl fd tmp dst done e p) in
  trace_safe dst s t = true /\
  versions s t dst = if replaced r then [Some (concat done)] else [].
Proof.
  intros Hf. pose proof (tmp_ne_dst _ _ _ Hf) as Hne. cbn zeta. unfold save_ops.
  destruct (p_open p); [cbn; auto|].
  assert (Hq : forall tail, Forall (quiet_op dst) tail ->
               trace_safe dst s ((Open fd tmp fl_tmp :: map (Write fd) done) ++ tail) = true /\
               versions s ((Open fd tmp fl_tmp :: map (Write fd) done) ++ tail) dst = []).
  { intros tail Ht. rewrite <- app_comm_cons. apply abort_shape_checked; assumption. }
  destruct e as [st| |].
  - cbn [fst snd replaced]. apply Hq. repeat constructor. exact Hne.
  - cbn [fst snd replaced]. apply Hq. repeat constructor. exact Hne.
  - unfold replace_ops.
    destruct (p_sync p).
    { cbn [fst snd replaced]. apply Hq. destruct cl; repeat constructor. exact Hne. }
    destruct (p_close p).
    { cbn [fst snd replaced]. apply Hq. destruct cl; repeat constructor. exact Hne. }
    destruct (p_rename p).
    { cbn [fst snd replaced]. apply Hq. destruct cl; repeat constructor. exact Hne. }
    cbn [fst snd replaced]. rewrite <- app_comm_cons.
    exact (atomic_shape_checked s dst tmp fd done Hf).
Qed.

(** At every instant and after a crash at every prefix: the previous version,
    or (only if the save reports [Replaced]) exactly what was written. *)
Theorem save_ops_visible cl s dst tmp fd done e p :
  quiescent s dst -> fresh_tmp s dst tmp ->
  let t := fst (save_ops cl fd tmp dst done e p) in
  let r := snd (save_ops cl fd tmp dst done e p) in
  forall v, In v (visible_states s t dst) ->
            v = live_view s dst \/ (r = Replaced /\ v = Some (concat done)).
Proof.
  intros Hq Hf t r v Hv.
  destruct (save_ops_checked cl s dst tmp fd done e p Hf) as [Hs Hver]. fold t r in Hs, Hver.
  apply (checker_sound dst s t Hq Hs) in Hv. unfold all_versions in Hv. rewrite Hver in Hv.
  destruct Hv as [<-|Hv]; [auto|].
  clearbody t r. destruct r; cbn [replaced] in Hv.
  - destruct Hv as [<-|[]]. auto.
  - destruct Hv.
  - destruct Hv.
Qed.

(** What dst holds when the save has returned. *)
Theorem save_ops_final cl s dst tmp fd done e p :
  quiescent s dst -> fresh_tmp s dst tmp ->
  let t := fst (save_ops cl fd tmp dst done e p) in
  let r := snd (save_ops cl fd tmp dst done e p) in
  live_view (run s t) dst = if replaced r then Some (concat done) else live_view s dst.
Proof.
  intros Hq Hf t r.
  destruct (save_ops_checked cl s dst tmp fd done e p Hf) as [Hs Hver]. fold t r in Hs, Hver.
  assert (Hs' : trace_safe dst s (t ++ []) = true) by (rewrite app_nil_r; exact Hs).
  rewrite (live_tracks_versions dst s t [] Hq Hs'). unfold all_versions. rewrite Hver.
  destruct (replaced r); reflexivity.
Qed.

(** [Replaced] is reported only when nothing failed. *)
Lemma save_ops_replaced cl fd tmp dst done e p :
  snd (save_ops cl fd tmp dst done e p) = Replaced ->
  e = EReplace /\ p_open p = false /\ p_sync p = false /\ p_close p = false /\ p_rename p = false.
Proof.
  unfold save_ops, replace_ops.
  destruct (p_open p); [discriminate|].
  destruct e; cbn [snd]; try discriminate.
  destruct (p_sync p); [discriminate|].
  destruct (p_close p); [discriminate|].
  destruct (p_rename p); [discriminate|]. auto.
Qed.

(** ... and whenever a system call of the save fails, failure is reported. *)
Lemma save_ops_fault_reported cl fd tmp dst done e p :
  p_open p || p_sync p || p_close p || p_rename p = true ->
  e = EReplace ->
  exists st, snd (save_ops cl fd tmp dst done e p) = Failed st.
Proof.
  intros Hp ->. unfold save_ops, replace_ops.
  destruct (p_open p); [eexists; reflexivity|].
  destruct (p_sync p); [eexists; reflexivity|].
  destruct (p_close p); [eexists; reflexivity|].
  destruct (p_rename p); [eexists; reflexivity|]. discriminate.
Qed.

(** ** Writes *)

Lemma do_writes_all ws : forall wf done, do_writes ws wf = (done, true) -> done = ws.
Proof.
  induction ws as [|w ws IH]; intros wf done H; cbn [do_writes] in H.
  - now inversion H.
  - destruct wf as [[[|k] n]|].
    + discriminate.
    + destruct (do_writes ws (Some (k, n))) as [q ok] eqn:E. inversion H; subst.
      f_equal. eapply IH; eauto.
    + destruct (do_writes ws None) as [q ok] eqn:E. inversion H; subst.
      f_equal. eapply IH; eauto.
Qed.

Lemma do_writes_none ws : do_writes ws None = (ws, true).
Proof. induction ws as [|w ws IH]; cbn [do_writes]; [reflexivity|]. rewrite IH. reflexivity. Qed.

(** ** Configuration and lease table (renameio.WriteFile): content identity *)

(** For every content [c], every chunking of it, every fault plan: at every
    instant and after a crash at every prefix dst holds the previous version
    or exactly [c]; [Replaced] is reported iff dst finally holds [c] ... *)
Theorem write_file_identity s dst tmp fd (c : data) chunks p :
  quiescent s dst -> fresh_tmp s dst tmp -> concat chunks = c ->
  let t := fst (write_file fd tmp dst chunks p) in
  let r := snd (write_file fd tmp dst chunks p) in
  (forall v, In v (visible_states s t dst) -> v = live_view s dst \/ (r = Replaced /\ v = Some c)) /\
  live_view (run s t) dst = (if replaced r then Some c else live_view s dst).
Proof.
  intros Hq Hf Hc. cbn zeta. unfold write_file.
  destruct (do_writes chunks (p_write p)) as [done ok] eqn:E.
  destruct ok.
  - apply do_writes_all in E. subst done. rewrite <- Hc. split.
    + apply save_ops_visible; assumption.
    + apply save_ops_final; assumption.
  - pose proof (save_ops_visible true s dst tmp fd done (EAbort AtWrite) p Hq Hf) as Hv.
    pose proof (save_ops_final true s dst tmp fd done (EAbort AtWrite) p Hq Hf) as Hl.
    cbn zeta in Hv, Hl.
    assert (Hr : replaced (snd (save_ops true fd tmp dst done (EAbort AtWrite) p)) = false).
    { unfold save_ops. destruct (p_open p); reflexivity. }
    rewrite Hr in Hl |- *. split; [|exact Hl].
    intros v Hin. destruct (Hv v Hin) as [H|[H _]]; [auto|].
    rewrite H in Hr. discriminate.
Qed.

(** ... and [Replaced] is reported only when every system call succeeded and
    every piece was written, any failing call gives [Failed]. *)
Theorem write_file_reports dst tmp fd chunks p :
  let r := snd (write_file fd tmp dst chunks p) in
  (r = Replaced -> do_writes chunks (p_write p) = (chunks, true) /\
                   p_open p = false /\ p_sync p = false /\ p_close p = false /\ p_rename p = false) /\
  (p_open p || p_sync p || p_close p || p_rename p = true -> exists st, r = Failed st) /\
  (snd (do_writes chunks (p_write p)) = false -> exists st, r = Failed st).
Proof.
  cbn zeta. unfold write_file.
  destruct (do_writes chunks (p_write p)) as [done ok] eqn:E. cbn [snd].
  split; [|split].
  - intros H. apply save_ops_replaced in H. destruct H as (He & H).
    destruct ok; [|discriminate]. apply do_writes_all in E as E'. subst done. auto.
  - intros Hp. destruct ok.
    + apply save_ops_fault_reported; auto.
    + unfold save_ops. destruct (p_open p); eexists; reflexivity.
  - intros ->. unfold save_ops. destruct (p_open p); eexists; reflexivity.
Qed.

(** ** Readers *)

Lemma received_serve chunks cut : received (serve chunks cut) = concat chunks.
Proof.
  unfold serve. induction chunks as [|c r IH]; cbn [map app received concat].
  - destruct cut; reflexivity.
  - rewrite IH. reflexivity.
Qed.

Lemma ends_ok_serve chunks cut : ends_ok (serve chunks cut) = negb cut.
Proof.
  unfold serve. induction chunks as [|c r IH]; cbn [map app ends_ok]; [destruct cut; reflexivity|exact IH].
Qed.

Lemma nlen_nat (d : data) : N.to_nat (nlen d) = length d.
Proof. unfold nlen. apply Nnat.Nat2N.id. Qed.

(** io.LimitReader delivers the first n elements ... *)
Lemma std_limit_received r : forall n,
  received (std_limit r n) = firstn (N.to_nat n) (received r).
Proof.
  induction r as [|x r IH]; intros n; cbn [std_limit received].
  - now rewrite firstn_nil.
  - destruct x as [d| |].
    + destruct (n =? 0) eqn:E0.
      { apply N.eqb_eq in E0. subst n. reflexivity. }
      destruct (nlen d <=? n) eqn:El.
      * cbn [received]. rewrite IH. apply N.leb_le in El. unfold nlen in El.
        rewrite firstn_app. rewrite (firstn_all2 (n:=N.to_nat n) d) by lia.
        f_equal. f_equal. unfold nlen. lia.
      * cbn [received]. rewrite app_nil_r. apply N.leb_gt in El. unfold nlen in El.
        rewrite firstn_app.
        replace (N.to_nat n - length d)%nat with 0%nat by lia.
        cbn [firstn]. now rewrite app_nil_r.
    + destruct (n =? 0); cbn [received]; now rewrite firstn_nil.
    + destruct (n =? 0); cbn [received]; now rewrite firstn_nil.
Qed.

(** ... and ends with plain EOF whenever the stream is longer than the limit:
    the consumer cannot tell a cut stream from a complete one. *)
Lemma std_limit_ends_ok r : forall n,
  n < nlen (received r) -> ends_ok (std_limit r n) = true.
Proof.
  induction r as [|x r IH]; intros n Hn; cbn [std_limit received] in *.
  - reflexivity.
  - destruct x as [d| |]; try (cbn in Hn; lia).
    destruct (n =? 0); [reflexivity|].
    destruct (nlen d <=? n) eqn:El; [|reflexivity].
    cbn [ends_ok]. apply IH. apply N.leb_le in El. rewrite nlen_app in Hn. unfold nlen in *. lia.
Qed.

(** golibs' LimitReader never ends with EOF unless the underlying reader did,
    and then everything was delivered. *)
Lemma err_limit_faithful r : forall n,
  ends_ok (err_limit r n) = true -> ends_ok r = true /\ received (err_limit r n) = received r.
Proof.
  induction r as [|x r IH]; intros n H; cbn [err_limit] in *.
  - auto.
  - destruct x as [d| |].
    + destruct (n =? 0); [discriminate|].
      destruct (nlen d <=? n); [|discriminate].
      cbn [ends_ok received] in *. destruct (IH _ H) as [H1 H2]. rewrite H2. auto.
    + destruct (n =? 0); [discriminate|]. auto.
    + destruct (n =? 0); discriminate.
Qed.

(** A reader [r'] derived from [r] is faithful when an EOF from it means that
    [r] ended with EOF and that everything [r] carried was delivered. *)
Definition faithful (r' r : reader) : Prop :=
  ends_ok r' = true -> ends_ok r = true /\ received r' = received r.

Lemma faithful_refl r : faithful r r.
Proof. intros H. auto. Qed.

Lemma err_limit_is_faithful r n : faithful (err_limit r n) r.
Proof. intros H. apply err_limit_faithful, H. Qed.

Lemma firstn_shorter {A} (l : list A) n : (n < length l)%nat -> firstn n l <> l.
Proof.
  intros Hn E. apply (f_equal (@length A)) in E. rewrite firstn_length in E. lia.
Qed.

Theorem std_limit_not_faithful n body :
  n < nlen body ->
  let r := serve [body] false in
  ends_ok (std_limit r n) = true /\
  received (std_limit r n) = firstn (N.to_nat n) body /\
  received (std_limit r n) <> received r.
Proof.
  intros Hn r.
  assert (Hr : received r = body) by (unfold r; rewrite received_serve; cbn; apply app_nil_r).
  split; [apply std_limit_ends_ok; rewrite Hr; exact Hn|].
  rewrite std_limit_received, Hr. split; [reflexivity|].
  apply firstn_shorter. unfold nlen in Hn. lia.
Qed.

(** ** The download path *)

Section UpdateProofs.
  Variable St : Type.
  Variable st0 : St.
  Variable feed : St -> data -> option (St * list data).
  Variable finish : St -> option (list data).
  Variable sum : data -> N.

  Notation pump := (pump St feed finish).
  Notation update_list := (update_list St st0 feed finish sum).
  Notation norm := (norm St feed finish).

  (** The parser stage does not depend on how the input is cut into chunks
      (what a line scanner guarantees). *)
  Definition feedc (st : St) (d : data) : option (St * data) :=
    match feed st d with Some (st', ws) => Some (st', concat ws) | None => None end.

  Definition chunking_independent : Prop :=
    (forall st, feedc st [] = Some (st, [])) /\
    (forall st a b, feedc st (a ++ b) =
                    match feedc st a with
                    | Some (st1, w1) => match feedc st1 b with
                                        | Some (st2, w2) => Some (st2, w1 ++ w2)
                                        | None => None
                                        end
                    | None => None
                    end).

  (** The copy loop over a body that arrives completely writes the normal
      form of the WHOLE body, however the body is cut into chunks. *)
  Lemma pump_complete : chunking_independent -> forall chunks st,
    match pump st (serve chunks false) with
    | (ws, true) => norm st (concat chunks) = Some (concat ws)
    | (_, false) => norm st (concat chunks) = None
    end.
  Proof.
    intros [Hnil Hsplit]. unfold serve.
    induction chunks as [|c r IH]; intros st; cbn [map app SaveLoop.pump concat].
    - specialize (Hnil st). unfold feedc in Hnil. unfold SaveLoop.norm.
      destruct (feed st []) as [[st' ws]|]; [|discriminate]. inversion Hnil; subst st'.
      destruct (finish st) as [wf|]; [|reflexivity].
      rewrite concat_app, H1. reflexivity.
    - specialize (Hsplit st c (concat r)). unfold feedc in Hsplit. unfold SaveLoop.norm in *.
      destruct (feed st c) as [[st1 w1]|] eqn:E1.
      + specialize (IH st1).
        destruct (SaveLoop.pump St feed finish st1 (map RData r ++ [REof])) as [ws' ok].
        destruct (feed st (c ++ concat r)) as [[st2 w2]|].
        * destruct (feed st1 (concat r)) as [[st3 w3]|]; [|discriminate].
          inversion Hsplit; subst st2.
          destruct ok.
          -- destruct (finish st3) as [wf|]; [|discriminate].
             inversion IH as [H0]. rewrite !concat_app in *. rewrite H1, <- H0.
             now rewrite app_assoc.
          -- destruct (finish st3); [discriminate|reflexivity].
        * destruct (feed st1 (concat r)) as [[st3 w3]|]; [discriminate|].
          destruct ok; [discriminate|reflexivity].
      + destruct (feed st (c ++ concat r)) as [[st2 w2]|]; [discriminate|reflexivity].
  Qed.

  (** What the copy loop received when it ran to the end. *)
  Lemma pump_ok_ends : forall r st ws, pump st r = (ws, true) -> ends_ok r = true.
  Proof.
    induction r as [|x r IH]; intros st ws H; cbn [SaveLoop.pump ends_ok] in *; [reflexivity|].
    destruct x as [d| |]; [|reflexivity|discriminate].
    destruct (feed st d) as [[st' w]|]; [|discriminate].
    destruct (SaveLoop.pump St feed finish st' r) as [ws' ok] eqn:E.
    inversion H; subst. eapply IH; eauto.
  Qed.

  (** The pump sees only the received data: two readers that end with EOF
      after the same data in the same chunks give the same result; in
      particular through a faithful wrapper that keeps the chunks. *)

  (** Full statement for the download path.  For every body, every chunking,
      every fault plan, every previous checksum: *)
  Theorem update_list_identity s dst tmp fd src_ok r old_sum p :
    quiescent s dst -> fresh_tmp s dst tmp ->
    let t := fst (update_list fd tmp dst src_ok r old_sum p) in
    let res := snd (update_list fd tmp dst src_ok r old_sum p) in
    let out := concat (fst (pump st0 r)) in
    (forall v, In v (visible_states s t dst) -> v = live_view s dst \/ (res = Replaced /\ v = Some out)) /\
    live_view (run s t) dst = (if replaced res then Some out else live_view s dst) /\
    (res = Replaced -> src_ok = true /\ snd (pump st0 r) = true /\ ends_ok r = true /\ sum out <> old_sum /\
                       p_open p = false /\ p_sync p = false /\ p_close p = false /\ p_rename p = false).
  Proof.
    intros Hq Hf. cbn zeta. unfold SaveLoop.update_list.
    destruct src_ok; cbn [negb].
    2:{ pose proof (save_ops_visible false s dst tmp fd [] (EAbort AtSource) p Hq Hf) as Hv.
        pose proof (save_ops_final false s dst tmp fd [] (EAbort AtSource) p Hq Hf) as Hl.
        cbn zeta in Hv, Hl.
        assert (Hr : replaced (snd (save_ops false fd tmp dst [] (EAbort AtSource) p)) = false).
        { unfold save_ops. destruct (p_open p); reflexivity. }
        rewrite Hr in Hl |- *. split; [|split; [exact Hl|]].
        - intros v Hin. destruct (Hv v Hin) as [H|[H _]]; [auto|]. rewrite H in Hr. discriminate.
        - intros H. rewrite H in Hr. discriminate. }
    destruct (SaveLoop.pump St feed finish st0 r) as [ws rok] eqn:Ep. cbn [fst snd].
    destruct (do_writes ws (p_write p)) as [done wok] eqn:Ew.
    set (e := if negb wok then EAbort AtWrite else if negb rok then EAbort AtRead
              else if sum (concat ws) =? old_sum then ESkip else EReplace).
    pose proof (save_ops_visible false s dst tmp fd done e p Hq Hf) as Hv.
    pose proof (save_ops_final false s dst tmp fd done e p Hq Hf) as Hl.
    cbn zeta in Hv, Hl.
    assert (Hrep : snd (save_ops false fd tmp dst done e p) = Replaced ->
                   done = ws /\ wok = true /\ rok = true /\ sum (concat ws) <> old_sum /\
                   p_open p = false /\ p_sync p = false /\ p_close p = false /\ p_rename p = false).
    { intros H. apply save_ops_replaced in H. destruct H as (He & H). unfold e in He.
      destruct wok; cbn [negb] in He; [|discriminate].
      destruct rok; cbn [negb] in He; [|discriminate].
      destruct (sum (concat ws) =? old_sum) eqn:Es; [discriminate|].
      apply do_writes_all in Ew. apply N.eqb_neq in Es. auto. }
    split; [|split].
    - intros v Hin. destruct (Hv v Hin) as [H|[H1 H2]]; [auto|].
      right. split; [exact H1|]. destruct (Hrep H1) as (-> & _). exact H2.
    - rewrite Hl. destruct (snd (save_ops false fd tmp dst done e p)) eqn:Er; cbn [replaced]; try reflexivity.
      destruct (Hrep eq_refl) as (-> & _). reflexivity.
    - intros H. destruct (Hrep H) as (_ & _ & Hrok & Hsum & Hp). subst rok.
      split; [reflexivity|]. split; [reflexivity|].
      split; [eapply pump_ok_ends; eauto|]. auto.
  Qed.

  (** Content identity for the body as served: when the reader is the body
      itself (any chunking, cut or not), whatever fails, dst holds the previous
      version or the normal form of the WHOLE body. *)
  Theorem update_list_served_identity s dst tmp fd chunks cut old_sum p body :
    chunking_independent ->
    quiescent s dst -> fresh_tmp s dst tmp -> concat chunks = body ->
    let t := fst (update_list fd tmp dst true (serve chunks cut) old_sum p) in
    let res := snd (update_list fd tmp dst true (serve chunks cut) old_sum p) in
    (forall v, In v (visible_states s t dst) ->
               v = live_view s dst \/ (res = Replaced /\ Some v = option_map Some (norm st0 body))) /\
    (res = Replaced -> cut = false /\ option_map Some (norm st0 body) = Some (live_view (run s t) dst)) /\
    (res <> Replaced -> live_view (run s t) dst = live_view s dst).
  Proof.
    intros Hci Hq Hf Hb. cbn zeta.
    destruct (update_list_identity s dst tmp fd true (serve chunks cut) old_sum p Hq Hf) as (Hv & Hl & Hr).
    cbn zeta in Hv, Hl, Hr.
    assert (Hn : snd (update_list fd tmp dst true (serve chunks cut) old_sum p) = Replaced ->
                 cut = false /\ norm st0 body = Some (concat (fst (pump st0 (serve chunks cut))))).
    { intros H. destruct (Hr H) as (_ & Hrok & Hends & _).
      rewrite ends_ok_serve in Hends. destruct cut; [discriminate|]. split; [reflexivity|].
      pose proof (pump_complete Hci chunks st0) as Hc.
      destruct (SaveLoop.pump St feed finish st0 (serve chunks false)) as [ws ok]. cbn [snd fst] in *.
      subst ok. rewrite <- Hb. exact Hc. }
    split; [|split].
    - intros v Hin. destruct (Hv v Hin) as [H|[H1 H2]]; [auto|]. right. split; [exact H1|].
      destruct (Hn H1) as [_ ->]. cbn [option_map]. now subst v.
    - intros H. destruct (Hn H) as [Hc Hnorm]. split; [exact Hc|].
      rewrite Hnorm, Hl, H. reflexivity.
    - intros H. rewrite Hl.
      destruct (snd (update_list fd tmp dst true (serve chunks cut) old_sum p)); try reflexivity.
      now elim H.
  Qed.
End UpdateProofs.

(** ** Instances: the premises are satisfiable; the std LimitReader refutes *)

Lemma id_chunking_independent : chunking_independent unit id_feed.
Proof.
  split.
  - intros []. reflexivity.
  - intros [] a b. unfold feedc, id_feed. cbn [concat]. now rewrite !app_nil_r.
Qed.

Lemma filter_chunking_independent keep : chunking_independent unit (filter_feed keep).
Proof.
  split.
  - intros []. reflexivity.
  - intros [] a b. unfold feedc, filter_feed. cbn [concat]. rewrite !app_nil_r. now rewrite filter_app.
Qed.

Lemma id_norm body : norm unit id_feed id_finish tt body = Some body.
Proof. unfold norm, id_feed, id_finish. cbn [concat app]. now rewrite !app_nil_r. Qed.

(** The download path behind the STANDARD io.LimitReader with limit [cap]: for
    EVERY cap and every body one element longer than the cap (any longer body
    works the same way), the refresh reports [Replaced] and dst finally holds
    the first [cap] elements: neither the previous version nor the new one. *)
Theorem update_list_std_limit_refuted s dst tmp fd (cap : N) body old_sum :
  quiescent s dst -> fresh_tmp s dst tmp ->
  nlen body = cap + 1 -> len_sum (firstn (N.to_nat cap) body) <> old_sum ->
  let r := std_limit (serve [body] false) cap in
  let t := fst (update_list unit tt id_feed id_finish len_sum fd tmp dst true r old_sum no_faults) in
  let res := snd (update_list unit tt id_feed id_finish len_sum fd tmp dst true r old_sum no_faults) in
  res = Replaced /\
  live_view (run s t) dst = Some (firstn (N.to_nat cap) body) /\
  firstn (N.to_nat cap) body <> body /\
  norm unit id_feed id_finish tt body = Some body.
Proof.
  intros Hq Hf Hlen Hsum. cbn zeta.
  assert (Hcut : firstn (N.to_nat cap) body <> body).
  { apply firstn_shorter. unfold nlen in Hlen. lia. }
  assert (Hr : std_limit (serve [body] false) cap =
               if cap =? 0 then [REof] else [RData (firstn (N.to_nat cap) body); REof]).
  { unfold serve. cbn [map app std_limit]. destruct (cap =? 0); [reflexivity|].
    replace (nlen body <=? cap) with false; [reflexivity|]. symmetry. apply N.leb_gt. lia. }
  assert (Hp : SaveLoop.pump unit id_feed id_finish tt (std_limit (serve [body] false) cap) =
               ((if cap =? 0 then [] else [firstn (N.to_nat cap) body]), true)).
  { rewrite Hr. destruct (cap =? 0); reflexivity. }
  assert (Hout : concat (if cap =? 0 then [] else [firstn (N.to_nat cap) body]) = firstn (N.to_nat cap) body).
  { destruct (cap =? 0) eqn:E; cbn [concat]; [|apply app_nil_r].
    apply N.eqb_eq in E. subst cap. reflexivity. }
  destruct (update_list_identity unit tt id_feed id_finish len_sum s dst tmp fd true
              (std_limit (serve [body] false) cap) old_sum no_faults Hq Hf) as (_ & Hl & _).
  cbn zeta in Hl. rewrite Hp in Hl. cbn [fst] in Hl. rewrite Hout in Hl.
  assert (Hres : snd (update_list unit tt id_feed id_finish len_sum fd tmp dst true
                        (std_limit (serve [body] false) cap) old_sum no_faults) = Replaced).
  { unfold SaveLoop.update_list. cbn [negb]. rewrite Hp. cbn [no_faults p_write].
    rewrite do_writes_none. cbn [negb]. rewrite Hout.
    apply N.eqb_neq in Hsum. rewrite Hsum.
    unfold save_ops, replace_ops. reflexivity. }
  rewrite Hres in Hl |- *. cbn [replaced] in Hl.
  split; [reflexivity|]. split; [exact Hl|]. split; [exact Hcut|apply id_norm].
Qed.

(** The same with a concrete limit and witness: limit 4, body of 5 elements. *)
Example update_list_std_limit_witness :
  let s := boot [(1, [7; 7])] in
  let body := [1; 2; 3; 4; 5] in
  let r := std_limit (serve [[1; 2]; [3; 4; 5]] false) 4 in
  let t := fst (update_list unit tt id_feed id_finish len_sum 3 2 1 true r 2 no_faults) in
  snd (update_list unit tt id_feed id_finish len_sum 3 2 1 true r 2 no_faults) = Replaced /\
  trace_safe 1 s t = true /\
  live_view (run s t) 1 = Some [1; 2; 3; 4] /\
  (let r' := err_limit (serve [[1; 2]; [3; 4; 5]] false) 4 in
   let t' := fst (update_list unit tt id_feed id_finish len_sum 3 2 1 true r' 2 no_faults) in
   snd (update_list unit tt id_feed id_finish len_sum 3 2 1 true r' 2 no_faults) = Failed AtRead /\
   live_view (run s t') 1 = Some [7; 7]) /\
  (let r0 := serve [[1; 2]; [3; 4; 5]] false in
   let t0 := fst (update_list unit tt id_feed id_finish len_sum 3 2 1 true r0 2 no_faults) in
   snd (update_list unit tt id_feed id_finish len_sum 3 2 1 true r0 2 no_faults) = Replaced /\
   live_view (run s t0) 1 = Some body).
Proof. vm_compute. repeat split; reflexivity. Qed.

(** Behind golibs' LimitReader (or no limit at all) the statement holds: a
    faithful reader cannot make the loop publish a cut body. *)
Theorem update_list_faithful_reader St st0 feed finish sum s dst tmp fd r' r old_sum p :
  quiescent s dst -> fresh_tmp s dst tmp -> faithful r' r ->
  let t := fst (update_list St st0 feed finish sum fd tmp dst true r' old_sum p) in
  let res := snd (update_list St st0 feed finish sum fd tmp dst true r' old_sum p) in
  res = Replaced ->
  ends_ok r = true /\ received r' = received r /\
  live_view (run s t) dst = Some (concat (fst (pump St feed finish st0 r'))).
Proof.
  intros Hq Hf Hfa. cbn zeta. intros H.
  destruct (update_list_identity St st0 feed finish sum s dst tmp fd true r' old_sum p Hq Hf) as (_ & Hl & Hr).
  cbn zeta in Hl, Hr. destruct (Hr H) as (_ & _ & Hends & _).
  destruct (Hfa Hends) as [H1 H2]. rewrite Hl, H. auto.
Qed.

(** Premises satisfiable: a save of each kind from a booted state, with and
    without faults. *)
Example save_premises :
  let s := boot [(1, [10; 11])] in
  quiescent s 1 /\ fresh_tmp s 1 2 /\
  (let w := write_file 3 2 1 [[20]; [21; 22]] no_faults in
   snd w = Replaced /\ live_view (run s (fst w)) 1 = Some [20; 21; 22]) /\
  (let w := write_file 3 2 1 [[20]; [21; 22]]
              {| p_open := false; p_write := Some (1%nat, 1); p_sync := false; p_close := false; p_rename := false |} in
   snd w = Failed AtWrite /\ live_view (run s (fst w)) 1 = Some [10; 11] /\
   fst w = [Open 3 2 fl_tmp; Write 3 [20]; Write 3 [21]; Close 3; Unlink 2]) /\
  (let w := write_file 3 2 1 [[20]]
              {| p_open := false; p_write := None; p_sync := true; p_close := false; p_rename := false |} in
   snd w = Failed AtSync /\ live_view (run s (fst w)) 1 = Some [10; 11] /\
   fst w = [Open 3 2 fl_tmp; Write 3 [20]; Close 3; Unlink 2]) /\
  (let u := update_list unit tt (filter_feed (fun x => negb (x =? 0))) id_finish len_sum 3 2 1 true
              (serve [[5; 0]; [0; 6; 7]] false) 2
              {| p_open := false; p_write := None; p_sync := false; p_close := false; p_rename := true |} in
   snd u = Failed AtRename /\ live_view (run s (fst u)) 1 = Some [10; 11] /\
   fst u = [Open 3 2 fl_tmp; Write 3 [5]; Write 3 [6; 7]; Fsync 3; Close 3]) /\
  norm unit (filter_feed (fun x => negb (x =? 0))) id_finish tt [5; 0; 0; 6; 7] = Some [5; 6; 7].
Proof.
  cbn zeta. split; [apply boot_quiescent|].
  split. { unfold fresh_tmp. repeat split; try (vm_compute; reflexivity). discriminate. }
  vm_compute. repeat split; reflexivity.
Qed.

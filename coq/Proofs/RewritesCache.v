(** C06, round 4: the response side with the DNS cache on
    (Model/RewritesCache.v).  For ANY upstream (failing exchanges included),
    any table, any history of queries:

    - every delivered message carries the client's question, whether it was
      built from an upstream reply, from a cached one or locally;
    - every cache entry is a reply the upstream gave to the cached question
      under a name equal up to letter case ([cache_sound], an invariant of
      every history from the empty cache), so a message built from the cache
      is the message the server without a cache would build from such a
      reply: client's question, the upstream's RCODE, the CNAME from the
      queried name in front of the upstream's records;
    - when the upstream's reply does not depend on the spelling of the name
      asked, the server with the cache answers EXACTLY as [respond_e] (the
      server without), except that it may not have asked the upstream;
    - a question answered once with a cacheable reply is answered from the
      cache afterwards (any spelling), with the same RCODE and records and
      no upstream exchange. *)
From Coq Require Import NArith List Bool Lia String.
From AGH Require Import Base.Run Model.Rewrites Proofs.Rewrites Model.RewritesCache.
Import ListNotations.
Local Open Scope N_scope.

Lemma cache_get_lower c name qt : cache_get c (to_lower name) qt = cache_get c name qt.
Proof. unfold cache_get. rewrite to_lower_idem. reflexivity. Qed.

Lemma cache_get_same_name c a b qt : to_lower a = to_lower b -> cache_get c a qt = cache_get c b qt.
Proof. unfold cache_get. intros ->. reflexivity. Qed.

Lemma cache_get_cons k kt v c name qt :
  cache_get ((k, kt, v) :: c) name qt =
  if eqb_bytes k (to_lower name) && (kt =? qt) then Some v else cache_get c name qt.
Proof. unfold cache_get. cbn. destruct (_ && _); reflexivity. Qed.

Section CacheProofs.
  Variable sort : list entry -> list entry.
  Variable upstream : bytes -> N -> option (N * list rr).

  (** Every entry is what the upstream replied to that question, asked under
      a name equal up to letter case. *)
  Definition cache_sound (c : cache) : Prop :=
    forall name qt rc ans, cache_get c name qt = Some (rc, ans) ->
      exists asked, to_lower asked = to_lower name /\ upstream asked qt = Some (rc, ans).

  Lemma cache_sound_nil : cache_sound [].
  Proof. intros name qt rc ans H. discriminate. Qed.

  Lemma cache_sound_put c asked qt rc ans :
    cache_sound c -> upstream asked qt = Some (rc, ans) ->
    cache_sound (cache_put c asked qt rc ans).
  Proof.
    intros S U. unfold cache_put. destruct (cacheable qt rc ans); auto.
    intros name qt' rc' ans'. rewrite cache_get_cons.
    destruct (eqb_bytes (to_lower asked) (to_lower name) && (qt =? qt')) eqn:K; [|apply S].
    apply andb_true_iff in K as [K1 K2]. apply eqb_bytes_spec in K1. apply N.eqb_eq in K2. subst qt'.
    intros [= <- <-]. exists asked. auto.
  Qed.

  Lemma forward_c_sound c asked shown qt front :
    cache_sound c -> cache_sound (fst (forward_c upstream c asked shown qt front)).
  Proof.
    intros S. unfold forward_c. destruct (cache_get c asked qt) as [[rc ans]|]; [exact S|].
    destruct (upstream asked qt) as [[rc ans]|] eqn:U; cbn [fst]; auto using cache_sound_put.
  Qed.

  Lemma respond_c_sound en tbl c qname qt c' o :
    cache_sound c -> respond_c sort upstream en tbl c qname qt = Some (c', o) -> cache_sound c'.
  Proof.
    intros S. unfold respond_c. destruct (check_host sort en tbl qname qt) as [r|]; [|discriminate].
    destruct (r_reason r).
    - intros [= E]. pose proof (forward_c_sound c qname qname qt [] S) as H.
      rewrite E in H. exact H.
    - destruct (via_upstream _ _).
      + intros [= E].
        pose proof (forward_c_sound c (r_canon r) qname qt [RR_CNAME qname (r_canon r)] S) as H.
        rewrite E in H. exact H.
      + intros [= <- _]. auto.
  Qed.

  (** The invariant holds after every history that starts with an empty
      cache. *)
  Theorem run_c_sound en tbl qs : forall c c' os,
    cache_sound c -> run_c sort upstream en tbl c qs = Some (c', os) -> cache_sound c'.
  Proof.
    induction qs as [|[qname qt] qs IH]; cbn [run_c]; intros c c' os S.
    - intros [= <- _]. auto.
    - destruct (respond_c sort upstream en tbl c qname qt) as [[c1 o]|] eqn:R; [|discriminate].
      destruct (run_c sort upstream en tbl c1 qs) as [[c2 os']|] eqn:RR; [|discriminate].
      intros [= <- _]. apply (IH c1 c2 os'); [|exact RR]. eapply respond_c_sound; eauto.
  Qed.

  (** ** The client's question in every message *)

  Lemma forward_c_question c asked shown qt front :
    rp_qname (snd (snd (forward_c upstream c asked shown qt front))) = shown.
  Proof.
    unfold forward_c. destruct (cache_get c asked qt) as [[rc ans]|]; [reflexivity|].
    destruct (upstream asked qt) as [[rc ans]|]; reflexivity.
  Qed.

  Theorem respond_c_question en tbl c qname qt c' f p :
    respond_c sort upstream en tbl c qname qt = Some (c', (f, p)) -> rp_qname p = qname.
  Proof.
    unfold respond_c. destruct (check_host sort en tbl qname qt) as [r|]; [|discriminate].
    destruct (r_reason r).
    - intros [= E]. pose proof (forward_c_question c qname qname qt []) as H.
      rewrite E in H. exact H.
    - destruct (via_upstream _ _).
      + intros [= E].
        pose proof (forward_c_question c (r_canon r) qname qt [RR_CNAME qname (r_canon r)]) as H.
        rewrite E in H. exact H.
      + intros [= _ _ <-]. reflexivity.
  Qed.

  Theorem run_c_questions en tbl qs : forall c c' os,
    run_c sort upstream en tbl c qs = Some (c', os) ->
    map (fun o : bool * response => rp_qname (snd o)) os = map fst qs.
  Proof.
    induction qs as [|[qname qt] qs IH]; cbn [run_c]; intros c c' os.
    - intros [= _ <-]. reflexivity.
    - destruct (respond_c sort upstream en tbl c qname qt) as [[c1 [f p]]|] eqn:R; [|discriminate].
      destruct (run_c sort upstream en tbl c1 qs) as [[c2 os']|] eqn:RR; [|discriminate].
      intros [= _ <-]. cbn. rewrite (respond_c_question _ _ _ _ _ _ _ _ R), (IH _ _ _ RR). reflexivity.
  Qed.

  (** ** A message built from the cache is built from a reply of the upstream *)

  (** [p] is what [forward] (the server without a cache) delivers when the
      upstream is asked for [asked'], except that the upstream may not have
      been asked. *)
  Definition delivered_as (asked asked' shown : bytes) (qt : N) (front : list rr)
      (f : bool) (p : response) : Prop :=
    let '(f', p') := forward upstream asked' shown qt front in
    f = f' /\ rp_qname p = rp_qname p' /\ rp_rcode p = rp_rcode p' /\
    rp_answer p = rp_answer p' /\
    (rp_upstream p = [] \/ (asked' = asked /\ rp_upstream p = rp_upstream p')).

  Theorem forward_c_is_upstream_reply c asked shown qt front c' f p :
    cache_sound c -> forward_c upstream c asked shown qt front = (c', (f, p)) ->
    exists asked', to_lower asked' = to_lower asked /\ delivered_as asked asked' shown qt front f p.
  Proof.
    intros S. unfold forward_c, delivered_as, forward.
    destruct (cache_get c asked qt) as [[rc ans]|] eqn:G.
    - intros [= _ <- <-]. destruct (S _ _ _ _ G) as (asked' & E & U).
      exists asked'. split; auto. rewrite U. cbn. auto 6.
    - destruct (upstream asked qt) as [[rc ans]|] eqn:U; intros [= _ <- <-];
        exists asked; (split; [reflexivity|]); rewrite U; cbn; auto 7.
  Qed.

  (** The CNAME resolved upstream (the canonical name is not covered by the
      table), with the cache on: the client's question,
      and for some spelling [asked'] of the canonical name the upstream's
      RCODE and CNAME :: the upstream's records (or the SERVFAIL of a failed
      exchange). *)
  Theorem respond_c_cname_reply en tbl c qname qt r c' f p :
    cache_sound c ->
    check_host sort en tbl qname qt = Some r -> r_reason r = Rewritten ->
    r_canon r <> [] -> r_ips r = [] -> covered_flag sort en tbl qname qt = false ->
    respond_c sort upstream en tbl c qname qt = Some (c', (f, p)) ->
    rp_qname p = qname /\
    exists asked', to_lower asked' = to_lower (r_canon r) /\
      match upstream asked' qt with
      | Some (rc, ans) =>
          f = false /\ rp_rcode p = rc /\ rp_answer p = RR_CNAME qname (r_canon r) :: ans
      | None => f = true /\ rp_rcode p = rcode_servfail /\ rp_answer p = []
      end.
  Proof.
    intros S C Rr Rc Ri Cov R. split; [eapply respond_c_question; eauto|].
    unfold respond_c, via_upstream in R. rewrite C, Rr, Ri, Cov in R.
    destruct (r_canon r) as [|b canon] eqn:Ec; [congruence|]. cbn [is_nil negb andb] in R.
    injection R as R.
    destruct (forward_c_is_upstream_reply _ _ _ _ _ _ _ _ S R) as (asked' & E & D).
    exists asked'. split; auto. unfold delivered_as, forward in D.
    destruct (upstream asked' qt) as [[rc ans]|]; cbn in D; intuition.
  Qed.

  (** ** The cache is invisible when the upstream does not look at the
         spelling of the name *)

  Hypothesis ups_case : forall a b qt, to_lower a = to_lower b -> upstream a qt = upstream b qt.

  (** The same message, except that the upstream may not have been asked. *)
  Definition same_but_calls (p p0 : response) : Prop :=
    rp_qname p = rp_qname p0 /\ rp_rcode p = rp_rcode p0 /\ rp_answer p = rp_answer p0 /\
    (rp_upstream p = [] \/ rp_upstream p = rp_upstream p0).

  Lemma forward_c_transparent c asked shown qt front c' f p :
    cache_sound c -> forward_c upstream c asked shown qt front = (c', (f, p)) ->
    f = fst (forward upstream asked shown qt front) /\
    same_but_calls p (snd (forward upstream asked shown qt front)).
  Proof.
    intros S F. destruct (forward_c_is_upstream_reply _ _ _ _ _ _ _ _ S F) as (asked' & E & D).
    unfold delivered_as in D. unfold forward in *. rewrite (ups_case _ _ qt E) in D.
    destruct (upstream asked qt) as [[rc ans]|]; cbn in *; unfold same_but_calls; cbn;
      destruct D as (? & ? & ? & ? & [?|[? ?]]); subst; auto 6.
  Qed.

  Theorem respond_c_transparent en tbl c qname qt c' f p :
    cache_sound c -> respond_c sort upstream en tbl c qname qt = Some (c', (f, p)) ->
    exists p0, respond_e sort upstream en tbl qname qt = Some (f, p0) /\ same_but_calls p p0.
  Proof.
    intros S. unfold respond_c, respond_e.
    destruct (check_host sort en tbl qname qt) as [r|]; [|discriminate].
    destruct (r_reason r).
    - intros [= R]. destruct (forward_c_transparent _ _ _ _ _ _ _ _ S R) as [-> B].
      eexists. split; [|exact B]. destruct (forward upstream qname qname qt []); reflexivity.
    - destruct (via_upstream _ _).
      + intros [= R]. destruct (forward_c_transparent _ _ _ _ _ _ _ _ S R) as [-> B].
        eexists. split; [|exact B]. destruct (forward _ _ _ _ _); reflexivity.
      + intros [= _ <- <-]. eexists. split; [reflexivity|]. unfold same_but_calls. auto.
  Qed.

  (** Over a whole history from the empty cache. *)
  Theorem run_c_transparent en tbl qs : forall c c' os,
    cache_sound c -> run_c sort upstream en tbl c qs = Some (c', os) ->
    Forall2 (fun (q : bytes * N) (o : bool * response) =>
               exists p0, respond_e sort upstream en tbl (fst q) (snd q) = Some (fst o, p0) /\
                          same_but_calls (snd o) p0) qs os.
  Proof.
    induction qs as [|[qname qt] qs IH]; cbn [run_c]; intros c c' os S.
    - intros [= _ <-]. constructor.
    - destruct (respond_c sort upstream en tbl c qname qt) as [[c1 [f p]]|] eqn:R; [|discriminate].
      destruct (run_c sort upstream en tbl c1 qs) as [[c2 os']|] eqn:RR; [|discriminate].
      intros [= _ <-]. constructor.
      + cbn. eapply respond_c_transparent; eauto.
      + apply (IH c1 c2 os'); [|exact RR]. eapply respond_c_sound; eauto.
  Qed.
End CacheProofs.

(** ** A repeated question is answered from the cache *)

Section Repeat.
  Variable upstream : bytes -> N -> option (N * list rr).

  Theorem forward_c_then_hit c asked shown qt front c1 p :
    forward_c upstream c asked shown qt front = (c1, (false, p)) ->
    exists rc ans, rp_rcode p = rc /\ rp_answer p = front ++ ans /\
      (cacheable qt rc ans = true ->
       forall asked2 shown2 front2, to_lower asked2 = to_lower asked ->
         forward_c upstream c1 asked2 shown2 qt front2 =
         (c1, (false, {| rp_qname := shown2; rp_rcode := rc; rp_answer := front2 ++ ans;
                         rp_upstream := [] |}))).
  Proof.
    unfold forward_c. destruct (cache_get c asked qt) as [[rc ans]|] eqn:G.
    - intros [= <- <-]. exists rc, ans. repeat split. intros _ asked2 shown2 front2 E.
      rewrite (cache_get_same_name _ _ _ qt E), G. reflexivity.
    - destruct (upstream asked qt) as [[rc ans]|] eqn:U; [|discriminate].
      intros [= <- <-]. exists rc, ans. repeat split. intros K asked2 shown2 front2 E.
      unfold cache_put. rewrite K, cache_get_cons, E, eqb_bytes_refl, N.eqb_refl. reflexivity.
  Qed.
End Repeat.

(** The hypotheses are satisfiable and the statements are not vacuous:
    `b.a.test -> a.test`, asked twice, then a.test itself, with an upstream
    that answers 9.9.9.9 for every A question. *)
Module CacheExamples.
  Import DocExamples.
  Local Open Scope string_scope.

  Definition ups9 (name : bytes) (qt : N) : option (N * list rr) :=
    if (qt =? qA)%N then Some (0%N, [RR_A (to_lower name) 151587081%N]) else Some (3%N, []).

  Lemma ups9_case a b qt : to_lower a = to_lower b -> ups9 a qt = ups9 b qt.
  Proof. unfold ups9. intros ->. reflexivity. Qed.

  Definition tbl := [ent "b.a.test" "a.test" None].

  Example cname_twice_then_direct :
    run_c isort ups9 true tbl [] [(bs "b.a.test", qA); (bs "B.A.Test", qA); (bs "a.test", qA); (bs "b.a.test", qAAAA)]
    = Some ([(bs "a.test", qA, (0, [RR_A (bs "a.test") 151587081]))],
            [(false, {| rp_qname := bs "b.a.test"; rp_rcode := 0;
                        rp_answer := [RR_CNAME (bs "b.a.test") (bs "a.test"); RR_A (bs "a.test") 151587081];
                        rp_upstream := [(bs "a.test", qA)] |});
             (false, {| rp_qname := bs "B.A.Test"; rp_rcode := 0;
                        rp_answer := [RR_CNAME (bs "B.A.Test") (bs "a.test"); RR_A (bs "a.test") 151587081];
                        rp_upstream := [] |});
             (false, {| rp_qname := bs "a.test"; rp_rcode := 0;
                        rp_answer := [RR_A (bs "a.test") 151587081];
                        rp_upstream := [] |});
             (false, {| rp_qname := bs "b.a.test"; rp_rcode := 3;
                        rp_answer := [RR_CNAME (bs "b.a.test") (bs "a.test")];
                        rp_upstream := [(bs "a.test", qAAAA)] |})]).
  Proof. vm_compute. reflexivity. Qed.

  Example cache_sound_nonempty :
    cache_sound ups9 [(bs "a.test", qA, (0, [RR_A (bs "a.test") 151587081]))].
  Proof.
    intros name qt rc ans. rewrite cache_get_cons.
    destruct (eqb_bytes (bs "a.test") (to_lower name) && (qA =? qt)%N) eqn:K; [|discriminate].
    apply andb_true_iff in K as [K1 K2]. apply eqb_bytes_spec in K1. apply N.eqb_eq in K2. subst qt.
    intros [= <- <-]. exists (to_lower name). rewrite to_lower_idem. split; auto.
    unfold ups9. cbn [N.eqb qA Pos.eqb]. rewrite to_lower_idem, <- K1. reflexivity.
  Qed.
End CacheExamples.

(** C15, round 8: the copy-back loop of [refreshFiltersArray] and changes of
    the array between the moment the working copies are taken ([listsToUpdate])
    and the moment the results are copied back (add_url appends, which may
    move the array to new memory; remove_url deletes; set_url rewrites an
    entry).  The loop reads the array anew ([*filters]) and finds the entry by
    its ID (and URL; the working copy carries the URL of the entry, see
    Model/Refresh.v), so whatever the array is by then, every list that is
    still there and was updated gets rule count, checksum and name of what was
    stored.  The variant that writes into the array as it was when the pass
    began (seeded change C15-O: [all := *filters] before the downloads) loses
    them when the array has moved: the live entry keeps the old checksum and
    every later pass rewrites unchanged content. *)
From Coq Require Import NArith List Bool Lia.
From AGH Require Import Base.Run Model.RuleListParser Model.Refresh Proofs.RuleListParser Proofs.RuleListWrite
  Proofs.Refresh.
Import ListNotations.
Local Open Scope N_scope.

Lemma find_uid us : forall u, NoDup (map uid us) -> In u us ->
  find (fun u' => uid u' =? uid u) us = Some u.
Proof.
  induction us as [|x us IH]; intros u ND Hin; [contradiction|]. cbn [find].
  inversion ND as [|? ? Hn ND']; subst. destruct Hin as [->|Hin]; [now rewrite N.eqb_refl|].
  destruct (N.eqb_spec (uid x) (uid u)) as [E|E]; [|now apply IH].
  exfalso. apply Hn. rewrite E. now apply in_map.
Qed.

(** A way to copy back: from the results [us], the array as it was when the
    pass began ([snap]) and the array as it is now ([cur]) to the array
    afterwards. *)
Definition copy_back_statement (cb : list upd -> list flist -> list flist -> list flist) : Prop :=
  forall us snap cur f u,
    NoDup (map uid us) -> In f cur -> In u us -> uid u = f_id f -> u_updated u = true ->
    exists f', In f' (cb us snap cur) /\ f_id f' = f_id f /\ f_url f' = f_url f /\ f_enabled f' = f_enabled f /\
               f_count f' = f_count (u_list u) /\ f_sum f' = f_sum (u_list u) /\ f_name f' = f_name (u_list u).

(** The code: the loop walks the current array. *)
Theorem copy_back_survives_array_changes :
  copy_back_statement (fun us _ cur => snd (copy_back_all us cur)).
Proof.
  intros us snap cur f u ND Hf Hu E U. cbn beta. rewrite (copy_back_all_spec (fun c _ => c) us cur ND).
  exists (copy_back u f). split.
  - apply in_map_iff. exists f. split; [|exact Hf]. rewrite <- E. now rewrite (find_uid us u ND Hu).
  - unfold copy_back. fold (uid u). rewrite E, N.eqb_refl, U. cbn. repeat split; reflexivity.
Qed.

(** The variant: the loop walks the array of the beginning of the pass; after
    an append that has moved the array nothing reaches the live one. *)
Definition copy_back_into_snapshot (us : list upd) (snap cur : list flist) : list flist := cur.

Module Moved.
  Definition l1 : flist := {| f_id := 1; f_url := 1; f_enabled := true; f_name := [97]; f_count := 1; f_sum := 7 |}.
  Definition l2 : flist := {| f_id := 2; f_url := 2; f_enabled := true; f_name := [98]; f_count := 2; f_sum := 9 |}.
  Definition u1 : upd :=
    {| u_updated := true; u_err := false;
       u_list := {| f_id := 1; f_url := 1; f_enabled := false; f_name := [97]; f_count := 3; f_sum := 8 |} |}.
End Moved.

Theorem copy_back_into_snapshot_refuted : ~ copy_back_statement copy_back_into_snapshot.
Proof.
  intros H.
  destruct (H [Moved.u1] [Moved.l1] [Moved.l1; Moved.l2] Moved.l1 Moved.u1) as (f' & Hin & I & _ & _ & C & _).
  - repeat constructor. intros [].
  - now left.
  - now left.
  - reflexivity.
  - reflexivity.
  - unfold copy_back_into_snapshot in Hin. destruct Hin as [<-|[<-|[]]]; cbn in *; discriminate.
Qed.

Example copy_back_example :
  map f_count (snd (copy_back_all [Moved.u1] [Moved.l1; Moved.l2])) = [3; 2] /\
  map f_sum (snd (copy_back_all [Moved.u1] [Moved.l1; Moved.l2])) = [8; 9] /\
  map f_sum (snd (copy_back_all [Moved.u1] [Moved.l2])) = [9] /\
  map f_sum (copy_back_into_snapshot [Moved.u1] [Moved.l1] [Moved.l1; Moved.l2]) = [7; 9].
Proof. vm_compute. repeat split; reflexivity. Qed.

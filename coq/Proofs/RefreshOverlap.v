(** C15, round 8: the copy-back loop of [refreshFiltersArray] and changes of
    the array between the moment the working copies are taken ([listsToUpdate])
    and the moment the results are copied back (add_url appends, which may
    move the array to new memory; remove_url deletes; set_url rewrites an
    entry).  The loop reads the array anew ([*filters]) and finds the entry by
    its ID (and URL; the working copy carries the URL of the entry, see
    Model/Refresh.v), so whatever the array is by then, every list that is
    still there and was updated gets rule count, checksum and name of what was
    stored.  The variant that writes into the array as it was when the pass
    began (seeded change C15-O: [all := *filters] before the downloads) loses
    them when the array has moved: the live entry keeps the old checksum and
    every later pass rewrites unchanged content. *)
From Coq Require Import NArith List Bool Lia.
From AGH Require Import Base.Run Model.RuleListParser Model.Refresh Proofs.RuleListParser Proofs.RuleListWrite
  Proofs.Refresh.
Import ListNotations.
Local Open Scope N_scope.

Lemma find_uid us : forall u, NoDup (map uid us) -> In u us ->
  find (fun u' => uid u' =? uid u) us = Some u.
Proof.
  induction us as [|x us IH]; intros u ND Hin; [contradiction|]. cbn [find].
  inversion ND as [|? ? Hn ND']; subst. destruct Hin as [->|Hin]; [now rewrite N.eqb_refl|].
  destruct (N.eqb_spec (uid x) (uid u)) as [E|E]; [|now apply IH].
  exfalso. apply Hn. rewrite E. now apply in_map.
Qed.

(** A way to copy back: from the results [us], the array as it was when the
    pass began ([snap]) and the array as it is now ([cur]) to the array
    afterwards. *)
Definition copy_back_statement (cb : list upd -> list flist -> list flist -> list flist) : Prop :=
  forall us snap cur f u,
    NoDup (map uid us) -> In f cur -> In u us -> uid u = f_id f -> u_updated u = true ->
    exists f', In f' (cb us snap cur) /\ f_id f' = f_id f /\ f_url f' = f_url f /\ f_enabled f' = f_enabled f /\
               f_count f' = f_count (u_list u) /\ f_sum f' = f_sum (u_list u) /\ f_name f' = f_name (u_list u).

(** The code: the loop walks the current array. *)
Theorem copy_back_survives_array_changes :
  copy_back_statement (fun us _ cur => snd (copy_back_all us cur)).
Proof.
  intros us snap cur f u ND Hf Hu E U. cbn beta. rewrite (copy_back_all_spec (fun c _ => c) us cur ND).
  exists (copy_back u f). split.
  - apply in_map_iff. exists f. split; [|exact Hf]. rewrite <- E. now rewrite (find_uid us u ND Hu).
  - unfold copy_back. fold (uid u). rewrite E, N.eqb_refl, U. cbn. repeat split; reflexivity.
Qed.

(** The variant: the loop walks the array of the beginning of the pass; after
    an append that has moved the array nothing reaches the live one. *)
Definition copy_back_into_snapshot (us : list upd) (snap cur : list flist) : list flist := cur.

Module Moved.
  Definition l1 : flist := {| f_id := 1; f_url := 1; f_enabled := true; f_name := [97]; f_count := 1; f_sum := 7 |}.
  Definition l2 : flist := {| f_id := 2; f_url := 2; f_enabled := true; f_name := [98]; f_count := 2; f_sum := 9 |}.
  Definition u1 : upd :=
    {| u_updated := true; u_err := false;
       u_list := {| f_id := 1; f_url := 1; f_enabled := false; f_name := [97]; f_count := 3; f_sum := 8 |} |}.
End Moved.

Theorem copy_back_into_snapshot_refuted : ~ copy_back_statement copy_back_into_snapshot.
Proof.
  intros H.
  destruct (H [Moved.u1] [Moved.l1] [Moved.l1; Moved.l2] Moved.l1 Moved.u1) as (f' & Hin & I & _ & _ & C & _).
  - repeat constructor. intros [].
  - now left.
  - now left.
  - reflexivity.
  - reflexivity.
  - unfold copy_back_into_snapshot in Hin. destruct Hin as [<-|[<-|[]]]; cbn in *; discriminate.
Qed.

Example copy_back_example :
  map f_count (snd (copy_back_all [Moved.u1] [Moved.l1; Moved.l2])) = [3; 2] /\
  map f_sum (snd (copy_back_all [Moved.u1] [Moved.l1; Moved.l2])) = [8; 9] /\
  map f_sum (snd (copy_back_all [Moved.u1] [Moved.l2])) = [9] /\
  map f_sum (copy_back_into_snapshot [Moved.u1] [Moved.l1] [Moved.l1; Moved.l2]) = [7; 9].
Proof. vm_compute. repeat split; reflexivity. Qed.

(** * A list disabled while a refresh is downloading it, then enabled again
    (found in round 8, repaired in /repo by 7322afe)

    The copy-back matches by ID (and URL) and does not look at [Enabled]: a
    pass whose working copy of list [i] was taken while it was enabled, a
    set_url call that disables the list while the download is under way, the
    download finishing (file replaced, rule count and checksum copied into the
    DISABLED entry), then a set_url call that enables the list, its source
    delivering unchanged content.  [update] reports "no change"; the code
    removes the stored file only if the checksum it compared with is zero, so
    the file, the rule count, the checksum and the rules in force are those of
    the last successful download.  The removal without that test (the code
    before 7322afe) deleted the file. *)
Section DisableDuringRefresh.
  Variable crc : N -> bytes -> N.

  Lemma refresh_array_split ls force due oc fs :
    refresh_array crc ls force due oc fs = finish_array crc (to_update ls force due) ls oc fs.
  Proof. reflexivity. Qed.

  Lemma copy_back_url u f : f_url (copy_back u f) = f_url f.
  Proof. unfold copy_back. destruct (_ && _); reflexivity. Qed.

  (** The statement, for the function [setp] that serves the enabling call. *)
  Definition reenable_after_overlap_statement
      (setp : bool -> N -> bytes -> N -> bool -> outcome -> rstate -> bool * bool * rstate) : Prop :=
    forall allow u i name name' o force due oc d re pst d2 re2 pst2 st pre f post,
      NoDup (map f_id (arr allow st)) ->
      arr allow st = pre ++ f :: post -> Forall (other_url u) pre ->
      Forall (other_id i) pre -> Forall (other_id i) post ->
      f_url f = u -> f_id f = i -> f_enabled f = true -> force || due i = true ->
      (* the pass downloads changed content with rules *)
      oc i = OBody d re -> parse crc d re = (pst, None) -> p_sum pst <> f_sum f -> p_sum pst <> 0 ->
      (* the enabling call finds unchanged content *)
      parse crc d2 re2 = (pst2, None) -> p_sum pst2 = p_sum pst ->
      let st2 := refresh_over crc allow force due oc (fun s => snd (set_props crc allow u name u false o s)) st in
      let '(rs, er, st3) := setp allow u name' u true (OBody d2 re2) st2 in
      er = false /\ rs = true /\
      fget i (r_files st3) = Some (output pst) /\
      lookup i (eng_arr allow (r_engine st3)) = Some (output pst) /\
      exists f', In f' (arr allow st3) /\ f_id f' = i /\ f_enabled f' = true /\
                 f_count f' = p_count pst /\ f_sum f' = p_sum pst.

  (** What the overlapped pass leaves: the file of the download, and the
      disabled entry with its rule count and checksum. *)
  Lemma overlap_leaves allow u i name o force due oc d re pst st pre f post :
    NoDup (map f_id (arr allow st)) ->
    arr allow st = pre ++ f :: post -> Forall (other_url u) pre ->
    Forall (other_id i) pre -> Forall (other_id i) post ->
    f_url f = u -> f_id f = i -> f_enabled f = true -> force || due i = true ->
    oc i = OBody d re -> parse crc d re = (pst, None) -> p_sum pst <> f_sum f ->
    let st2 := refresh_over crc allow force due oc (fun s => snd (set_props crc allow u name u false o s)) st in
    fget i (r_files st2) = Some (output pst) /\
    exists pre' post' nm,
      arr allow st2 = pre' ++ {| f_id := i; f_url := u; f_enabled := false; f_name := nm;
                                 f_count := p_count pst; f_sum := p_sum pst |} :: post' /\
      Forall (other_url u) pre' /\ Forall (other_id i) pre' /\ Forall (other_id i) post'.
  Proof.
    intros ND Ha Hp Hpi Hq Hu Hi En Hd Ho P NS.
    pose proof (disable_takes_rules_out crc allow u i name u o st pre f post Ha Hp Hpi Hq Hu Hi En (or_introl eq_refl)) as D.
    unfold refresh_over.
    change (if allow then r_allow st else r_block st) with (arr allow st).
    destruct (set_props crc allow u name u false o st) as [[rs0 er0] st1]. cbn [snd].
    change (if allow then r_allow st1 else r_block st1) with (arr allow st1).
    destruct D as (_ & _ & _ & _ & Fs & A1). rewrite A1, Fs.
    set (fd := {| f_id := i; f_url := u; f_enabled := false; f_name := name; f_count := 0; f_sum := 0 |}).
    set (sel := fun l => f_enabled l && (force || due (f_id l))).
    unfold to_update. fold sel. set (ws := map wcopy (filter sel (arr allow st))).
    assert (Hin : In f (arr allow st)) by (rewrite Ha; apply in_app_iff; right; now left).
    assert (Sf : sel f = true) by (unfold sel; now rewrite En, Hi, Hd).
    assert (W1 : NoDup (map f_id ws)) by now apply nodup_ids_filter.
    assert (W2 : find (fun w => f_id w =? i) ws = Some (wcopy f)).
    { unfold ws. rewrite (find_ext_eq _ (fun w => f_id w =? f_id f)) by (intros w; now rewrite Hi).
      rewrite (find_sel crc sel (arr allow st) f ND Hin), Sf. reflexivity. }
    (* the download of list [i] *)
    assert (U1 : forall fs, update_one crc (wcopy f) (OBody d re) fs =
                 ({| u_updated := true; u_err := false; u_list := filled (wcopy f) pst |},
                  fset i (output pst) fs)).
    { intros fs. unfold update_one. rewrite P. cbn [wcopy f_sum f_id].
      destruct (N.eqb_spec (p_sum pst) (f_sum f)); [contradiction|]. now rewrite Hi. }
    set (g := fun w => upd_of crc w (oc (f_id w))).
    assert (Gi : g (wcopy f) = {| u_updated := true; u_err := false; u_list := filled (wcopy f) pst |}).
    { unfold g, upd_of. cbn [wcopy f_id]. rewrite Hi, Ho, U1. reflexivity. }
    unfold finish_array. destruct ws as [|w0 wr] eqn:Ew; [discriminate W2|]. rewrite <- Ew in *. clear Ew w0 wr.
    pose proof (update_all_fst crc oc ws (r_files st)) as Hus. fold g in Hus.
    pose proof (update_all_files crc oc ws (r_files st) i W1) as Hfi. rewrite W2, Ho, U1 in Hfi. cbn [snd] in Hfi.
    destruct (update_all crc ws oc (r_files st)) as [us fs']. cbn [fst snd] in Hus, Hfi.
    assert (Iw : In (wcopy f) ws) by (apply find_some in W2; tauto).
    destruct (forallb u_err us) eqn:AE.
    { exfalso. rewrite forallb_forall in AE.
      assert (Ig : In (g (wcopy f)) us) by (rewrite Hus; now apply in_map).
      specialize (AE _ Ig). rewrite Gi in AE. discriminate AE. }
    assert (NDu : NoDup (map uid us)).
    { rewrite Hus, map_map. erewrite map_ext; [exact W1|]. intros w. unfold uid, g, upd_of. now rewrite update_one_id. }
    pose proof (copy_back_all_spec crc us (pre ++ fd :: post) NDu) as CB.
    destruct (copy_back_all us (pre ++ fd :: post)) as [n ls']. cbn [snd] in CB.
    set (h := fun f0 => match find (fun u0 => uid u0 =? f_id f0) us with Some u0 => copy_back u0 f0 | None => f0 end) in CB.
    assert (Hh : forall f0, f_id (h f0) = f_id f0 /\ f_url (h f0) = f_url f0).
    { intros f0. unfold h. destruct (find _ us); [split; [apply copy_back_id|apply copy_back_url]|auto]. }
    assert (Fi : find (fun u0 => uid u0 =? i) us = Some (g (wcopy f))).
    { rewrite Hus, find_map_gen.
      rewrite (find_ext_eq _ (fun w => f_id w =? i)) by (intros w; unfold uid, g, upd_of; now rewrite update_one_id).
      now rewrite W2. }
    assert (Hfd : h fd = {| f_id := i; f_url := u; f_enabled := false; f_name := f_name (filled (wcopy f) pst);
                            f_count := p_count pst; f_sum := p_sum pst |}).
    { unfold h. cbn [fd f_id]. rewrite Fi, Gi. unfold copy_back. cbn [u_list u_updated filled wcopy f_id fd f_url f_enabled f_count f_sum].
      rewrite Hi, N.eqb_refl. reflexivity. }
    rewrite map_app in CB. cbn [map] in CB. rewrite Hfd in CB.
    split.
    - cbn [r_files]. unfold fget. rewrite Hfi, fentry_fset_eq. reflexivity.
    - exists (map h pre), (map h post), (f_name (filled (wcopy f) pst)).
      split; [destruct allow; cbn [arr r_allow r_block]; exact CB|].
      assert (T : forall (Q : flist -> Prop) l, (forall a, Q a -> Q (h a)) -> Forall Q l -> Forall Q (map h l)).
      { intros Q l HQ. induction 1; cbn; constructor; auto. }
      split; [|split]; apply T; auto; intros a; unfold other_url, other_id;
        destruct (Hh a) as [E1 E2]; rewrite ?E1, ?E2; auto.
  Qed.

  (** The code. *)
  Theorem reenable_after_overlap : reenable_after_overlap_statement (set_props crc).
  Proof.
    intros allow u i name name' o force due oc d re pst d2 re2 pst2 st pre f post
           ND Ha Hp Hpi Hq Hu Hi En Hd Ho P NS NZ P2 S2 st2.
    destruct (overlap_leaves allow u i name o force due oc d re pst st pre f post ND Ha Hp Hpi Hq Hu Hi En Hd Ho P NS)
      as (G & pre' & post' & nm & A2 & Hp' & Hpi' & Hq').
    fold st2 in G, A2. clearbody st2.
    unfold set_props. fold (arr allow st2). rewrite A2.
    rewrite set_in_split by auto. unfold set_entry. cbn [f_url f_enabled]. rewrite N.eqb_refl. cbn [negb andb orb Bool.eqb].
    unfold set_target. cbn [f_url f_id f_count f_sum]. rewrite N.eqb_refl. cbn [negb].
    unfold update_one. rewrite P2. cbn [f_sum]. rewrite S2, N.eqb_refl. cbn [u_err u_updated u_list f_sum].
    destruct (N.eqb_spec (p_sum pst) 0) as [|_]; [contradiction|]. cbn [negb andb].
    split; [reflexivity|]. split; [reflexivity|]. split; [cbn [r_files]; exact G|]. split.
    - destruct allow; cbn [eng_arr r_engine rebuild e_allow e_block];
        rewrite lookup_snapshot, existsb_split_on by reflexivity; exact G.
    - eexists. split; [destruct allow; cbn [arr r_allow r_block]; apply in_app_iff; right; left; reflexivity|].
      cbn. auto.
  Qed.
End DisableDuringRefresh.

(** The enabling call with the removal made unconditional ([guard = false]:
    the code before 7322afe, NOT the code now; [guard = true] is
    [set_entry] / [set_in] / [set_props] of Model/Refresh.v, see
    [set_props_g_true]). *)
Section Unguarded.
  Variable crc : N -> bytes -> N.
  Variable guard : bool.

  Definition set_entry_g (f : flist) (name : bytes) (nurl : N) (dup : bool) (en : bool) (o : outcome)
      (fs : files) : bool * bool * flist * files :=
    let changed := negb (f_url f =? nurl) in
    if changed && dup then (false, true, f, fs)
    else
      let f1 := set_target f name nurl en in
      let restart := changed || negb (Bool.eqb (f_enabled f) en) in
      if en then
        if restart then
          let '(u, fs') := update_one crc f1 o fs in
          if u_err u then
            (u_updated u, true,
             {| f_id := f_id f; f_url := f_url f; f_enabled := f_enabled f; f_name := f_name f;
                f_count := f_count f; f_sum := restored_sum f u |}, fs')
          else if u_updated u then (true, false, u_list u, fs')
          else if negb guard || (f_sum f1 =? 0) then (true, false, u_list u, fdel (f_id f) fs')
          else (true, false, u_list u, fs')
        else (false, false, f1, fs)
      else (restart, false, unload f1, fs).

  Fixpoint set_in_g (ls : list flist) (url : N) (name : bytes) (nurl : N) (dup : bool) (en : bool)
      (o : outcome) (fs : files) : option (bool * bool * list flist * files) :=
    match ls with
    | [] => None
    | f :: r =>
        if f_url f =? url then
          let '(rs, er, f', fs') := set_entry_g f name nurl dup en o fs in Some (rs, er, f' :: r, fs')
        else match set_in_g r url name nurl dup en o fs with
             | Some (rs, er, r', fs') => Some (rs, er, f :: r', fs')
             | None => None
             end
    end.

  Definition set_props_g (allow : bool) (url : N) (name : bytes) (nurl : N) (en : bool) (o : outcome)
      (st : rstate) : bool * bool * rstate :=
    match set_in_g (if allow then r_allow st else r_block st) url name nurl (url_used nurl st) en o (r_files st) with
    | None => (false, true, st)
    | Some (rs, er, ls', fs') =>
        let bl := if allow then r_block st else ls' in
        let al := if allow then ls' else r_allow st in
        let eng := if negb er && rs then rebuild bl al fs' else r_engine st in
        (rs, er, {| r_block := bl; r_allow := al; r_files := fs'; r_engine := eng |})
    end.
End Unguarded.

Lemma set_entry_g_true crc f name nurl dup en o fs :
  set_entry_g crc true f name nurl dup en o fs = set_entry crc f name nurl dup en o fs.
Proof. reflexivity. Qed.

Lemma set_in_g_true crc : forall ls url name nurl dup en o fs,
  set_in_g crc true ls url name nurl dup en o fs = set_in crc ls url name nurl dup en o fs.
Proof.
  induction ls as [|f ls IH]; intros; cbn [set_in_g set_in]; auto.
Qed.

Lemma set_props_g_true crc allow url name nurl en o st :
  set_props_g crc true allow url name nurl en o st = set_props crc allow url name nurl en o st.
Proof. unfold set_props_g, set_props. now rewrite set_in_g_true. Qed.

(** The witness: [st1] (block list 1 stored with [good], enabled); a forced
    pass downloads [good2] for it; set_url disables it meanwhile; set_url
    enables it again, the source still delivering [good2]. *)
Module Gated.
  Import RExamples.
  Definition oc2 (_ : N) : outcome := OBody good2 false.
  Definition disable (s : rstate) : rstate := snd (set_props crc32_update false 1 [120] 1 false OOpenErr s).
  (* the pass overlapped by the disabling call *)
  Definition st_over := refresh_over crc32_update false true all oc2 disable st1.
  (* the code, and the removal without the test *)
  Definition st_on := snd (set_props crc32_update false 1 [120] 1 true (OBody good2 false) st_over).
  Definition st_on_old := snd (set_props_g crc32_update false false 1 [120] 1 true (OBody good2 false) st_over).
  Definition st_later_old := refresh crc32_update true true true all oc2 st_on_old.
End Gated.

Example gated_example :
  (* after the overlapped pass: file of the download, disabled entry with count and checksum, not in force *)
  fget 1 (r_files Gated.st_over) = Some RExamples.good2 /\
  map f_enabled (r_block Gated.st_over) = [false] /\
  map f_count (r_block Gated.st_over) = [1] /\
  map f_sum (r_block Gated.st_over) <> [0] /\
  over_report crc32_update false true RExamples.all Gated.oc2 Gated.disable RExamples.st1 = (1, false) /\
  verdict (r_engine Gated.st_over) [112;50] = 0 /\
  (* the same pass without the call in between is the pass of [refresh_array] *)
  refresh_over crc32_update false true RExamples.all Gated.oc2 (fun s => s) RExamples.st1
  = refresh crc32_update true false true RExamples.all Gated.oc2 RExamples.st1 /\
  (* the code: enabled, stored, in force *)
  fget 1 (r_files Gated.st_on) = Some RExamples.good2 /\
  map f_enabled (r_block Gated.st_on) = [true] /\
  map f_count (r_block Gated.st_on) = [1] /\
  lookup 1 (e_block (r_engine Gated.st_on)) = Some RExamples.good2 /\
  verdict (r_engine Gated.st_on) [112;50] = 1 /\
  (* the old removal: enabled with its rule count, no file, nothing in force, and the next pass sees no change *)
  fget 1 (r_files Gated.st_on_old) = None /\
  map f_enabled (r_block Gated.st_on_old) = [true] /\
  map f_count (r_block Gated.st_on_old) = [1] /\
  lookup 1 (e_block (r_engine Gated.st_on_old)) = None /\
  verdict (r_engine Gated.st_on_old) [112;50] = 0 /\
  fget 1 (r_files Gated.st_later_old) = None.
Proof. vm_compute. repeat split; congruence. Qed.

Theorem reenable_after_overlap_unguarded_refuted :
  ~ reenable_after_overlap_statement crc32_update (set_props_g crc32_update false).
Proof.
  intros H.
  specialize (H false 1 1 [120] [120] OOpenErr true RExamples.all Gated.oc2
                RExamples.good2 false (fst (parse crc32_update RExamples.good2 false))
                RExamples.good2 false (fst (parse crc32_update RExamples.good2 false))
                RExamples.st1 [] (hd (RExamples.mk 0) (r_block RExamples.st1)) []).
  vm_compute in H.
  destruct H as (_ & _ & X & _);
    try solve [reflexivity | discriminate | repeat constructor | (repeat constructor; intros [])].
Qed.

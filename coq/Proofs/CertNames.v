(** C16: the strict server-name check of the TLS handshake (Model/CertNames.v):
    declarative readings and proofs.

    Vocabulary:
      [wild_covers n host]   n = "*." ++ d and host = x ++ "." ++ d for some x, d
                             (what matchesDomainWildcard computes; x may be empty
                             and may contain dots)
      [cert_names c]         the SAN DNS names, or [CommonName] when there are none
      [cert_covers c host]   host is equal to a name of the certificate or is
                             [wild_covers]-ed by one, with a NON-EMPTY x
      [rfc6125_covers]       the one-label reading (refuted for the code as it is)
*)
From Coq Require Import List NArith Bool Arith Lia Sorting.Sorted Sorting.Permutation.
From AGH Require Import Base.Run Base.Bytes Base.Dom Model.ClientID Model.CertNames Proofs.ClientID.
Import ListNotations.
Local Open Scope N_scope.

(** * isWildcard / matchesDomainWildcard *)

Lemma is_wildcard_spec h : is_wildcard h = true <-> exists d, h = star :: dot :: d.
Proof. unfold is_wildcard. rewrite has_prefix_spec. reflexivity. Qed.

Definition wild_covers (n host : bytes) : Prop :=
  exists d x, n = star :: dot :: d /\ host = x ++ dot :: d.

Lemma matches_domain_wildcard_spec host pat :
  matches_domain_wildcard host pat = true <-> wild_covers pat host.
Proof.
  unfold matches_domain_wildcard, wild_covers. rewrite andb_true_iff, is_wildcard_spec. split.
  - intros [[d ->] H]. cbn [skipn] in H. apply has_suffix_spec in H as [x ->]. eauto.
  - intros (d & x & -> & ->). split; [eauto|]. cbn [skipn]. apply has_suffix_spec. eauto.
Qed.

(** The label boundary: a host that ends with the characters of the domain
    but has no dot in front of them does not match. *)
Lemma last_app_singleton (x : bytes) c : last (x ++ [c]) 0 = c.
Proof. induction x as [|a [|b x] IH]; cbn in *; auto. Qed.

Lemma wildcard_needs_dot d x :
  x <> [] -> last x 0 <> dot ->
  matches_domain_wildcard (x ++ d) (star :: dot :: d) = false.
Proof.
  intros Hx Hl. destruct (matches_domain_wildcard (x ++ d) (star :: dot :: d)) eqn:E; [|reflexivity].
  exfalso. apply matches_domain_wildcard_spec in E as (d' & y & [= <-] & H).
  change (dot :: d) with ([dot] ++ d) in H. rewrite app_assoc in H.
  apply app_inv_tail in H. subst x. apply Hl, last_app_singleton.
Qed.

(** The bare domain is not covered by its own wildcard. *)
Lemma wildcard_not_bare d : matches_domain_wildcard d (star :: dot :: d) = false.
Proof.
  destruct (matches_domain_wildcard d (star :: dot :: d)) eqn:E; [|reflexivity].
  exfalso. apply matches_domain_wildcard_spec in E as (d' & y & [= <-] & H).
  apply (f_equal (@length N)) in H. rewrite app_length in H. cbn in H. lia.
Qed.

(** * Go's string order *)

Lemma cmp_bytes_refl a : cmp_bytes a a = Eq.
Proof. induction a as [|x a IH]; cbn; [reflexivity|]. rewrite N.compare_refl. exact IH. Qed.

Lemma cmp_bytes_eq a b : cmp_bytes a b = Eq -> a = b.
Proof.
  revert b. induction a as [|x a IH]; intros [|y b]; cbn; try discriminate; auto.
  destruct (x ?= y) eqn:E; try discriminate. apply N.compare_eq in E. subst.
  intros H. f_equal. auto.
Qed.

Lemma cmp_bytes_opp a b : cmp_bytes b a = CompOpp (cmp_bytes a b).
Proof.
  revert b. induction a as [|x a IH]; intros [|y b]; cbn; auto.
  rewrite (N.compare_antisym x y). destruct (x ?= y); cbn; auto.
Qed.

Lemma cmp_bytes_lt_trans a b c :
  cmp_bytes a b = Lt -> cmp_bytes b c = Lt -> cmp_bytes a c = Lt.
Proof.
  revert b c. induction a as [|x a IH]; intros [|y b] [|z c]; cbn; try discriminate; auto.
  destruct (N.compare_spec x y) as [->|H1|H1]; try discriminate;
    destruct (N.compare_spec y z) as [->|H2|H2]; try discriminate.
  - apply IH.
  - auto.
  - intros _ _. apply N.compare_lt_iff in H1. rewrite H1. reflexivity.
  - intros _ _. assert (x ?= z = Lt) as -> by (apply N.compare_lt_iff; lia). reflexivity.
Qed.

Definition lt_b (a b : bytes) : Prop := ltb_bytes a b = true.
Definition le_b (a b : bytes) : Prop := leb_bytes a b = true.

Lemma ltb_bytes_cmp a b : ltb_bytes a b = true <-> cmp_bytes a b = Lt.
Proof. unfold ltb_bytes. destruct (cmp_bytes a b); split; congruence. Qed.

Lemma le_b_cmp a b : le_b a b <-> cmp_bytes a b <> Gt.
Proof.
  unfold le_b, leb_bytes. rewrite negb_true_iff. unfold ltb_bytes.
  rewrite (cmp_bytes_opp a b). destruct (cmp_bytes a b); cbn; split; congruence.
Qed.

Lemma lt_b_irrefl a : ~ lt_b a a.
Proof. unfold lt_b. rewrite ltb_bytes_cmp, cmp_bytes_refl. discriminate. Qed.

Lemma le_b_refl a : le_b a a.
Proof. apply le_b_cmp. rewrite cmp_bytes_refl. discriminate. Qed.

Lemma le_b_total a b : leb_bytes a b = false -> le_b b a.
Proof.
  unfold leb_bytes. rewrite negb_false_iff, ltb_bytes_cmp. intros H.
  apply le_b_cmp. rewrite H. discriminate.
Qed.

Lemma le_lt_trans a b c : le_b a b -> lt_b b c -> lt_b a c.
Proof.
  rewrite le_b_cmp. unfold lt_b. rewrite !ltb_bytes_cmp. intros H1 H2.
  destruct (cmp_bytes a b) eqn:E; [| |congruence].
  - apply cmp_bytes_eq in E. subst. exact H2.
  - eapply cmp_bytes_lt_trans; eauto.
Qed.

Lemma le_b_trans a b c : le_b a b -> le_b b c -> le_b a c.
Proof.
  rewrite !le_b_cmp. intros H1 H2.
  destruct (cmp_bytes a b) eqn:E1; [| |congruence].
  - apply cmp_bytes_eq in E1. subst. exact H2.
  - destruct (cmp_bytes b c) eqn:E2; [| |congruence].
    + apply cmp_bytes_eq in E2. subst. rewrite E1. discriminate.
    + rewrite (cmp_bytes_lt_trans _ _ _ E1 E2). discriminate.
Qed.

Lemma le_b_antisym a b : le_b a b -> le_b b a -> a = b.
Proof.
  rewrite !le_b_cmp, (cmp_bytes_opp a b). intros H1 H2.
  destruct (cmp_bytes a b) eqn:E; cbn in *; try congruence. apply cmp_bytes_eq, E.
Qed.

Lemma not_lt_le a b : ltb_bytes a b = false -> le_b b a.
Proof. unfold le_b, leb_bytes. intros ->. reflexivity. Qed.

Lemma le_not_lt a b : le_b b a -> ltb_bytes a b = false.
Proof. unfold le_b, leb_bytes. rewrite negb_true_iff. auto. Qed.

(** * slices.BinarySearch on a sorted slice is membership *)

Definition sorted (x : list bytes) : Prop := StronglySorted le_b x.

Lemma sorted_nth x : sorted x ->
  forall i j, (i <= j)%nat -> (j < length x)%nat -> le_b (nth i x []) (nth j x []).
Proof.
  induction 1 as [|a l Hs IH Hf]; intros i j Hij Hj; [cbn in Hj; lia|].
  destruct i as [|i], j as [|j]; cbn [nth]; cbn [length] in Hj.
  - apply le_b_refl.
  - rewrite Forall_forall in Hf. apply Hf, nth_In. lia.
  - lia.
  - apply IH; lia.
Qed.

Lemma div2_mid i j : (i < j)%nat -> (i <= Nat.div2 (i + j) < j)%nat.
Proof.
  intros H. rewrite Nat.div2_div.
  pose proof (Nat.div_mod_eq (i + j) 2). pose proof (Nat.mod_upper_bound (i + j) 2). lia.
Qed.

Lemma bsearch_loop_inv x t : sorted x ->
  forall fuel i j, (i <= j)%nat -> (j <= length x)%nat -> (j - i < fuel)%nat ->
  (forall k, (k < i)%nat -> lt_b (nth k x []) t) ->
  (forall k, (j <= k)%nat -> (k < length x)%nat -> ltb_bytes (nth k x []) t = false) ->
  exists r, bsearch_loop fuel x t i j = Some r /\ (r <= length x)%nat /\
    (forall k, (k < r)%nat -> lt_b (nth k x []) t) /\
    (forall k, (r <= k)%nat -> (k < length x)%nat -> ltb_bytes (nth k x []) t = false).
Proof.
  intros Hs. induction fuel as [|f IH]; intros i j Hij Hj Hf Hlo Hhi; [lia|].
  cbn [bsearch_loop]. destruct (Nat.ltb i j) eqn:E.
  - apply Nat.ltb_lt in E. pose proof (div2_mid i j E) as Hm.
    set (h := Nat.div2 (i + j)) in *.
    destruct (ltb_bytes (nth h x []) t) eqn:Eh.
    + apply IH; try lia.
      * intros k Hk. apply (le_lt_trans _ (nth h x [])); [|exact Eh].
        apply sorted_nth; [assumption|lia|lia].
      * assumption.
    + apply IH; try lia.
      * assumption.
      * intros k Hk Hkn. apply le_not_lt.
        apply (le_b_trans _ (nth h x [])); [apply not_lt_le, Eh|].
        apply sorted_nth; [assumption|lia|lia].
  - apply Nat.ltb_ge in E. exists i. repeat split; auto; try lia.
    intros k Hk Hkn. apply Hhi; lia.
Qed.

Lemma binary_search_sorted x t : sorted x -> (binary_search x t = true <-> In t x).
Proof.
  intros Hs. unfold binary_search.
  destruct (bsearch_loop_inv x t Hs (S (length x)) 0 (length x)) as (r & -> & Hr & Hlo & Hhi);
    try lia.
  rewrite andb_true_iff, Nat.ltb_lt, eqb_bytes_eq. split.
  - intros [Hrn <-]. apply nth_In, Hrn.
  - intros Hin. apply (In_nth _ _ []) in Hin as (k & Hk & Hkt).
    destruct (Nat.lt_ge_cases k r) as [Hkr|Hkr].
    + exfalso. apply (lt_b_irrefl t). rewrite <- Hkt at 1. apply Hlo, Hkr.
    + assert (Hrn : (r < length x)%nat) by (eapply Nat.le_lt_trans; eassumption). split; [exact Hrn|].
      apply le_b_antisym.
      * rewrite <- Hkt. apply sorted_nth; assumption.
      * apply not_lt_le, Hhi; [apply le_n|assumption].
Qed.

(** The loop never runs out of the fuel [binary_search] gives it, sorted or not. *)
Lemma bsearch_loop_fuel x t : forall fuel i j, (j - i < fuel)%nat ->
  exists r, bsearch_loop fuel x t i j = Some r.
Proof.
  induction fuel as [|f IH]; intros i j Hf; [lia|]. cbn [bsearch_loop].
  destruct (Nat.ltb i j) eqn:E; [|eauto].
  apply Nat.ltb_lt in E. pose proof (div2_mid i j E).
  destruct (ltb_bytes _ t); apply IH; lia.
Qed.

(** * slices.Sort: a sorted permutation *)

Lemma In_insert_name a n l : In a (insert_name n l) <-> a = n \/ In a l.
Proof.
  induction l as [|m r IH]; cbn; [intuition congruence|].
  destruct (leb_bytes n m); cbn; [intuition congruence|]. rewrite IH. intuition congruence.
Qed.

Lemma insert_name_sorted n l : sorted l -> sorted (insert_name n l).
Proof.
  induction 1 as [|m r Hs IH Hf]; cbn; [repeat constructor|].
  destruct (leb_bytes n m) eqn:E.
  - constructor; [constructor; assumption|]. constructor; [exact E|].
    rewrite Forall_forall in *. intros y Hy. apply (le_b_trans _ m); [exact E|auto].
  - constructor; [exact IH|]. rewrite Forall_forall in *. intros y Hy.
    apply In_insert_name in Hy as [->|Hy]; [apply le_b_total, E|auto].
Qed.

Lemma sort_names_sorted l : sorted (sort_names l).
Proof. induction l; cbn; [constructor|apply insert_name_sorted; assumption]. Qed.

Lemma In_sort_names a l : In a (sort_names l) <-> In a l.
Proof. induction l as [|n l IH]; cbn; [tauto|]. rewrite In_insert_name, IH. intuition congruence. Qed.

Lemma insert_name_perm n l : Permutation (n :: l) (insert_name n l).
Proof.
  induction l as [|m r IH]; cbn; [reflexivity|]. destruct (leb_bytes n m); [reflexivity|].
  rewrite perm_swap. constructor. exact IH.
Qed.

Lemma sort_names_perm l : Permutation l (sort_names l).
Proof.
  induction l as [|n l IH]; cbn; [constructor|].
  rewrite <- insert_name_perm. constructor. exact IH.
Qed.

(** Any sorted permutation of the names is this list: it does not matter which
    sorting algorithm slices.Sort uses. *)
Lemma sorted_perm_unique l1 : forall l2, sorted l1 -> sorted l2 -> Permutation l1 l2 -> l1 = l2.
Proof.
  induction l1 as [|a l1 IH]; intros l2 H1 H2 P.
  - apply Permutation_nil in P. congruence.
  - destruct l2 as [|b l2]; [apply Permutation_sym, Permutation_nil in P; discriminate|].
    inversion H1 as [|? ? Hs1 Hf1]; inversion H2 as [|? ? Hs2 Hf2]; subst.
    rewrite Forall_forall in Hf1, Hf2.
    assert (a = b) as ->.
    { apply le_b_antisym.
      - assert (Hb : In b (a :: l1)) by (eapply Permutation_in; [apply Permutation_sym, P|left; reflexivity]).
        destruct Hb as [->|Hb]; [apply le_b_refl|auto].
      - assert (Ha : In a (b :: l2)) by (eapply Permutation_in; [apply P|left; reflexivity]).
        destruct Ha as [->|Ha]; [apply le_b_refl|auto]. }
    f_equal. apply IH; auto. eapply Permutation_cons_inv, P.
Qed.

Lemma sort_names_unique l s : sorted s -> Permutation l s -> s = sort_names l.
Proof.
  intros Hs P. apply sorted_perm_unique; [assumption|apply sort_names_sorted|].
  rewrite <- P. apply sort_names_perm.
Qed.

(** * The gate *)

Lemma is_valid_hostname_nil : is_valid_hostname [] = false.
Proof. reflexivity. Qed.

Lemma removelast_cons2 {A} (a : A) l : l <> [] -> removelast (a :: l) = a :: removelast l.
Proof. destruct l; [congruence|reflexivity]. Qed.

Lemma is_valid_hostname_leading_dot r : is_valid_hostname (dot :: r) = false.
Proof.
  unfold is_valid_hostname. destruct (Nat.ltb _ _); [reflexivity|].
  cbn [split]. rewrite N.eqb_refl. rewrite removelast_cons2 by apply split_not_nil.
  reflexivity.
Qed.

Lemma is_valid_ip_string_nil v6 : is_valid_ip_string [] v6 = false.
Proof. reflexivity. Qed.

Lemma is_valid_ip_string_leading_dot r v6 : is_valid_ip_string (dot :: r) v6 = false.
Proof.
  unfold is_valid_ip_string. cbn [ip_scan]. rewrite N.eqb_refl.
  unfold is_valid_ipv4_string. cbn [split]. rewrite N.eqb_refl. cbn [forallb is_ipv4_label].
  rewrite andb_false_r. reflexivity.
Qed.

Lemma sni_wellformed_nil v6 : sni_wellformed [] v6 = false.
Proof. reflexivity. Qed.

Lemma sni_wellformed_leading_dot r v6 : sni_wellformed (dot :: r) v6 = false.
Proof.
  unfold sni_wellformed. rewrite is_valid_hostname_leading_dot, is_valid_ip_string_leading_dot.
  reflexivity.
Qed.

(** * anyNameMatches *)

Definition names_cover (names : list bytes) (host : bytes) : Prop :=
  In host names \/ exists n, In n names /\ wild_covers n host.

Lemma any_name_matches_spec names sni v6 : sorted names ->
  (any_name_matches names sni v6 = true <->
   sni_wellformed sni v6 = true /\ names_cover names sni).
Proof.
  intros Hs. unfold any_name_matches, names_cover.
  destruct (sni_wellformed sni v6); cbn [negb]; [|split; [discriminate|intros [? _]; discriminate]].
  pose proof (binary_search_sorted names sni Hs) as Hb.
  destruct (binary_search names sni).
  - split; [intros _; split; [reflexivity|left; apply Hb; reflexivity]|reflexivity].
  - rewrite existsb_exists. split.
    + intros (n & Hn & Hm). split; [reflexivity|]. right. exists n. split; [assumption|].
      apply matches_domain_wildcard_spec, Hm.
    + intros [_ [Hin|(n & Hn & Hm)]].
      * apply Hb in Hin. discriminate.
      * exists n. split; [assumption|]. apply matches_domain_wildcard_spec, Hm.
Qed.

(** * prepareTLS + onGetCertificate *)

Definition cert_names (c : cert) : list bytes :=
  match c_dns_names c with
  | [] => [c_common_name c]
  | _ :: _ => c_dns_names c
  end.

Lemma collect_names_sorted c : sorted (collect_names c).
Proof.
  unfold collect_names. destruct (c_dns_names c); [repeat constructor|apply sort_names_sorted].
Qed.

Lemma In_collect_names n c : In n (collect_names c) <-> In n (cert_names c).
Proof.
  unfold collect_names, cert_names. destruct (c_dns_names c); [reflexivity|apply In_sort_names].
Qed.

(** [host] is equal to a name of the certificate, or is [x].[d] for a
    wildcard name *.[d] of the certificate and a non-empty [x]. *)
Definition cert_covers (c : cert) (host : bytes) : Prop :=
  In host (cert_names c) \/
  exists d x, x <> [] /\ In (star :: dot :: d) (cert_names c) /\ host = x ++ dot :: d.

Theorem strict_cert_names c sni v6 :
  handshake_accepts true c sni v6 = true <->
  sni_wellformed sni v6 = true /\ cert_covers c sni.
Proof.
  unfold handshake_accepts. rewrite (any_name_matches_spec _ _ _ (collect_names_sorted c)).
  unfold names_cover, cert_covers, wild_covers. split.
  - intros [Hw [Hin|(n & Hn & d & x & -> & ->)]]; (split; [exact Hw|]).
    + left. apply In_collect_names, Hin.
    + right. exists d, x. split; [|split; [apply In_collect_names, Hn|reflexivity]].
      intros ->. cbn [app] in Hw. rewrite sni_wellformed_leading_dot in Hw. discriminate.
  - intros [Hw [Hin|(d & x & _ & Hn & ->)]]; (split; [exact Hw|]).
    + left. apply In_collect_names, Hin.
    + right. exists (star :: dot :: d). split; [apply In_collect_names, Hn|]. eauto.
Qed.

Theorem strict_off_accepts c sni v6 : handshake_accepts false c sni v6 = true.
Proof. reflexivity. Qed.

Theorem strict_empty_sni_rejected c v6 : handshake_accepts true c [] v6 = false.
Proof. reflexivity. Qed.

Theorem strict_malformed_rejected c sni v6 :
  sni_wellformed sni v6 = false -> handshake_accepts true c sni v6 = false.
Proof. intros H. cbn. unfold any_name_matches. rewrite H. reflexivity. Qed.

(** A certificate without SAN DNS names: the CommonName alone decides. *)
Theorem strict_no_dns_names c sni v6 :
  c_dns_names c = [] ->
  (handshake_accepts true c sni v6 = true <->
   sni_wellformed sni v6 = true /\
   (sni = c_common_name c \/
    exists d x, x <> [] /\ c_common_name c = star :: dot :: d /\ sni = x ++ dot :: d)).
Proof.
  intros Hn. rewrite strict_cert_names. unfold cert_covers, cert_names. rewrite Hn. cbn [In].
  split; intros [Hw H]; (split; [exact Hw|]).
  - destruct H as [[H|[]]|(d & x & Hx & [H|[]] & ->)]; [left; auto|right; eauto].
  - destruct H as [->|(d & x & Hx & H & ->)]; [left; left; reflexivity|].
    right. exists d, x. rewrite H. auto.
Qed.

(** With SAN DNS names the CommonName is not looked at. *)
Theorem strict_cn_ignored c cn' sni v6 :
  c_dns_names c <> [] ->
  handshake_accepts true c sni v6 =
  handshake_accepts true {| c_dns_names := c_dns_names c; c_common_name := cn' |} sni v6.
Proof.
  intros H. unfold handshake_accepts, collect_names. cbn [c_dns_names].
  destruct (c_dns_names c); [congruence|reflexivity].
Qed.

(** The order of the names in the certificate does not matter. *)
Theorem strict_order_irrelevant c1 c2 sni v6 :
  Permutation (c_dns_names c1) (c_dns_names c2) -> c_common_name c1 = c_common_name c2 ->
  handshake_accepts true c1 sni v6 = handshake_accepts true c2 sni v6.
Proof.
  intros P Hc. unfold handshake_accepts, collect_names.
  destruct (c_dns_names c1) as [|a l1] eqn:E1, (c_dns_names c2) as [|b l2] eqn:E2.
  - rewrite Hc. reflexivity.
  - apply Permutation_nil in P. discriminate.
  - apply Permutation_sym, Permutation_nil in P. discriminate.
  - f_equal. symmetry. apply sort_names_unique; [apply sort_names_sorted|].
    rewrite P. apply sort_names_perm.
Qed.

(** * Look-alikes *)

(** [x ++ d] without a dot boundary (evilexample.org, my-example.org,
    alice.evilexample.org for d = example.org): the wildcard name *.[d] does not
    match it, and if the handshake is accepted, ANOTHER name of the certificate
    is equal to it or covers it. *)
Theorem strict_cert_lookalike c d x v6 :
  x <> [] -> last x 0 <> dot ->
  matches_domain_wildcard (x ++ d) (star :: dot :: d) = false /\
  (handshake_accepts true c (x ++ d) v6 = true ->
   exists n, In n (cert_names c) /\ n <> star :: dot :: d /\
             (n = x ++ d \/ wild_covers n (x ++ d))).
Proof.
  intros Hx Hl. pose proof (wildcard_needs_dot d x Hx Hl) as Hno. split; [exact Hno|].
  intros H. apply strict_cert_names in H as [_ [Hin|(d' & y & Hy & Hin & Heq)]].
  - exists (x ++ d). split; [assumption|]. split; [|left; reflexivity].
    intros E. change (star :: dot :: d) with ([star; dot] ++ d) in E.
    apply app_inv_tail in E. subst x. apply Hl. reflexivity.
  - exists (star :: dot :: d'). split; [assumption|]. split.
    + intros [= ->]. assert (matches_domain_wildcard (x ++ d) (star :: dot :: d) = true).
      { apply matches_domain_wildcard_spec. exists d, y. auto. }
      congruence.
    + right. exists d', y. auto.
Qed.

(** In particular a certificate whose only name is *.[d] rejects every such
    look-alike, and the bare domain. *)
Theorem strict_single_wildcard_lookalike d cn x v6 :
  x <> [] -> last x 0 <> dot ->
  handshake_accepts true {| c_dns_names := [star :: dot :: d]; c_common_name := cn |} (x ++ d) v6 = false.
Proof.
  intros Hx Hl.
  destruct (handshake_accepts true _ (x ++ d) v6) eqn:E; [|reflexivity]. exfalso.
  apply (strict_cert_lookalike _ d x v6 Hx Hl) in E as (n & [<-|[]] & Hn & _). congruence.
Qed.

Theorem strict_single_wildcard_bare d cn v6 :
  handshake_accepts true {| c_dns_names := [star :: dot :: d]; c_common_name := cn |} d v6 = false.
Proof.
  destruct (handshake_accepts true _ d v6) eqn:E; [|reflexivity]. exfalso.
  apply strict_cert_names in E as [_ [[H0|[]]|(d' & y & Hy & [[= <-]|[]] & H0)]].
  - apply (f_equal (@length N)) in H0. cbn in H0. lia.
  - apply (f_equal (@length N)) in H0. rewrite app_length in H0. cbn in H0. lia.
Qed.

(** * The one-label reading (RFC 6125) does not hold for the code as it is *)

Definition rfc6125_covers_b (names : list bytes) (host : bytes) : bool :=
  existsb (fun n => eqb_bytes n host || (is_wildcard n && is_immediate_subdomain host (skipn 2 n))) names.

Definition rfc6125_covers (names : list bytes) (host : bytes) : Prop :=
  In host names \/
  exists d x, In (star :: dot :: d) names /\ x <> [] /\ mem dot x = false /\ host = x ++ dot :: d.

Lemma rfc6125_covers_b_spec names host :
  rfc6125_covers_b names host = true <-> rfc6125_covers names host.
Proof.
  unfold rfc6125_covers_b, rfc6125_covers. rewrite existsb_exists. split.
  - intros (n & Hn & H). apply orb_true_iff in H as [H|H].
    + apply eqb_bytes_eq in H. subst. auto.
    + apply andb_true_iff in H as [Hw H]. apply is_wildcard_spec in Hw as [d ->].
      cbn [skipn] in H. apply is_immediate_subdomain_spec in H as (x & Hx & Hm & ->).
      right. exists d, x. auto.
  - intros [H|(d & x & Hn & Hx & Hm & ->)].
    + exists host. split; [assumption|]. rewrite eqb_bytes_refl. reflexivity.
    + exists (star :: dot :: d). split; [assumption|]. apply orb_true_iff. right.
      apply andb_true_iff. split; [apply is_wildcard_spec; eauto|].
      cbn [skipn]. apply is_immediate_subdomain_spec. eauto.
Qed.

Definition ex_org : bytes := [101;120;97;109;112;108;101;46;111;114;103].      (* example.org *)
Definition ex_wild : bytes := star :: dot :: ex_org.                              (* *.example.org *)
Definition ex_deep : bytes := [97;46;98;46] ++ ex_org.                            (* a.b.example.org *)
Definition ex_one : bytes := [97;108;105;99;101;46] ++ ex_org.                    (* alice.example.org *)
Definition ex_evilorg : bytes := [101;118;105;108] ++ ex_org.                     (* evilexample.org *)
Definition ex_myorg : bytes := [97;108;105;99;101;46;109;121;45] ++ ex_org.       (* alice.my-example.org *)
Definition ex_upper : bytes := [65;46;69;120;97;109;112;108;101;46;79;114;103].   (* A.Example.Org *)
Definition ex_cert : cert := {| c_dns_names := [ex_wild]; c_common_name := [100;101;109;111] |}.

Theorem strict_cert_wildcard_depth_refuted :
  exists c sni v6,
    handshake_accepts true c sni v6 = true /\ ~ rfc6125_covers (cert_names c) sni.
Proof.
  exists ex_cert, ex_deep, false. split; [vm_compute; reflexivity|].
  rewrite <- rfc6125_covers_b_spec. vm_compute. discriminate.
Qed.

(** ... while what the one-label reading admits is admitted (for well-formed names). *)
Theorem rfc6125_covers_accepted c sni v6 :
  sni_wellformed sni v6 = true -> rfc6125_covers (cert_names c) sni ->
  handshake_accepts true c sni v6 = true.
Proof.
  intros Hw H. apply strict_cert_names. split; [exact Hw|].
  destruct H as [H|(d & x & Hn & Hx & _ & ->)]; [left; exact H|right; eauto].
Qed.

(** matchesDomainWildcard itself also matches an EMPTY first part (the gate of
    anyNameMatches is what keeps ".example.org" out). *)
Example wildcard_empty_first_part :
  matches_domain_wildcard (dot :: ex_org) ex_wild = true /\
  handshake_accepts true ex_cert (dot :: ex_org) false = false.
Proof. split; vm_compute; reflexivity. Qed.

(** Satisfiability of the premises / concrete outcomes (the inputs of the
    seeded change C16-E among them). *)
Example ex_strict_accepts : handshake_accepts true ex_cert ex_one false = true.
Proof. vm_compute. reflexivity. Qed.

Example ex_strict_accepts_deep : handshake_accepts true ex_cert ex_deep false = true.
Proof. vm_compute. reflexivity. Qed.

Example ex_strict_rejects_lookalikes :
  handshake_accepts true ex_cert ex_evilorg false = false /\
  handshake_accepts true ex_cert ex_myorg false = false /\
  handshake_accepts true ex_cert ex_org false = false /\
  handshake_accepts true ex_cert ex_upper false = false /\
  sni_wellformed ex_evilorg false = true /\ sni_wellformed ex_upper false = true.
Proof. repeat split; vm_compute; reflexivity. Qed.

Example ex_lookalike_premises :
  ([101;118;105;108] : bytes) <> [] /\ last ([101;118;105;108] : bytes) 0 <> dot /\
  handshake_accepts true {| c_dns_names := [ex_wild; ex_evilorg]; c_common_name := [] |} ex_evilorg false = true.
Proof. repeat split; try discriminate. Qed.

(** The comparison is byte-wise: the same name in another case is not covered. *)
Example ex_case_sensitive :
  handshake_accepts true {| c_dns_names := [ex_org]; c_common_name := [] |} ex_org false = true /\
  handshake_accepts true {| c_dns_names := [ex_org]; c_common_name := [] |}
    (69 :: skipn 1 ex_org) false = false.
Proof. split; vm_compute; reflexivity. Qed.

(** IP-address literals pass the gate and are then compared like any name. *)
Example ex_ip_literal :
  let ip := [49;50;55;46;48;46;48;46;49] in      (* 127.0.0.1 *)
  sni_wellformed ip false = true /\ is_valid_hostname ip = false /\
  handshake_accepts true ex_cert ip false = false /\
  handshake_accepts true {| c_dns_names := [[42;46;48;46;48;46;49]]; c_common_name := [] |} ip false = true.
Proof. repeat split; vm_compute; reflexivity. Qed.

(** * The two strict checks together *)

(** A ClientID taken from the server name under strict checking, on a
    connection whose handshake was accepted under strict checking: the name is
    <label>.<configured name> AND covered by the certificate. *)
Theorem strict_both p host sni h c v6 cli id :
  client_id_of p host true sni h = CidOk id -> id <> [] ->
  server_name_of p sni h = inr cli ->
  handshake_accepts true c cli v6 = true ->
  cert_covers c cli /\
  ((p = DoH /\ exists r x, h = Some r /\ path_id (d_path r) x /\ valid_label x /\ id = lower x) \/
   (host <> [] /\ exists x, immediate_sub cli host x /\ valid_label x /\ id = lower x)).
Proof.
  intros Hid Hne Hsn Hh. apply strict_cert_names in Hh as [_ Hc]. split; [exact Hc|].
  destruct (sound _ _ _ _ _ _ Hid Hne) as (_ & _ & _ & [H|(_ & Hhost & cli' & x & Hsn' & Hx)]).
  - left. exact H.
  - right. split; [exact Hhost|]. rewrite Hsn in Hsn'. injection Hsn' as <-. eauto.
Qed.

Example ex_strict_both :
  let host := [100;110;115;46] ++ ex_org in                       (* dns.example.org *)
  let cli := [77;121;80;46] ++ host in                            (* MyP.dns.example.org *)
  client_id_of DoT host true (Some cli) None = CidOk [109;121;112] /\
  server_name_of DoT (Some cli) None = inr cli /\
  handshake_accepts true ex_cert cli false = true.
Proof. repeat split; vm_compute; reflexivity. Qed.

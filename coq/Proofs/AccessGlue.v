(** C03 (round 8): the server name reaches the DNS server whatever encrypted
    listeners are enabled, and with it the ClientID decision. *)
From Coq Require Import List NArith Bool.
From AGH Require Import Base.Run Base.NetAddr Base.RuleEngine Model.Access Model.AccessGlue Proofs.Access.
From AGH Require Base.Dom Model.ClientID Proofs.ClientID Model.TLSSettings Model.TLSGlue.
Import ListNotations.
Local Open Scope N_scope.

Module TS := AGH.Model.TLSSettings.
Module TG := AGH.Model.TLSGlue.

(** With encryption enabled and a key pair that loads: ServerName and
    StrictSNICheck handed to dnsforward are the configured ones, for every
    combination of the HTTPS / DoT / DoQ ports and bind addresses. *)
Theorem server_name_handed_over s addrs :
  TS.t_enabled s = true ->
  exists d, TG.new_dns_tls_config false s true addrs = Some d /\
            TG.dt_server_name d = TS.t_server_name s /\ TG.dt_strict d = TS.t_strict s.
Proof.
  intros He. unfold TG.new_dns_tls_config. rewrite He. cbn [negb].
  eexists. split; [reflexivity|]. split; reflexivity.
Qed.

Lemma before_via_home_enabled a s addrs x :
  TS.t_enabled s = true ->
  before_via_home a s true addrs x =
  Some (handle_before_ctx a (mkTlsConf (TS.t_server_name s) (TS.t_strict s)) x).
Proof.
  intros He. unfold before_via_home, TG.new_dns_tls_config. rewrite He. reflexivity.
Qed.

(** Hence the verdict of the hook does not depend on which listeners are
    on. *)
Theorem decision_independent_of_listeners a s1 s2 addrs1 addrs2 x :
  TS.t_enabled s1 = true -> TS.t_enabled s2 = true ->
  TS.t_server_name s1 = TS.t_server_name s2 -> TS.t_strict s1 = TS.t_strict s2 ->
  before_via_home a s1 true addrs1 x = before_via_home a s2 true addrs2 x.
Proof.
  intros H1 H2 Hn Hs. rewrite !before_via_home_enabled by assumption. rewrite Hn, Hs. reflexivity.
Qed.

(** A disallowed ClientID in front of the configured server name (DoT / DoQ
    connection, DoH TLS name or Host header), any letter case, any listeners:
    REFUSED. *)
Theorem disallowed_clientid_via_home_refused blocked hosts s addrs x cli l c0 :
  TS.t_enabled s = true ->
  Proofs.ClientID.reaches_sni (cid_proto (cx_proto x)) (cx_http x) -> TS.t_server_name s <> [] ->
  Model.ClientID.server_name_of (cid_proto (cx_proto x)) (cx_sni x) (cx_http x) = inr cli ->
  Proofs.ClientID.immediate_sub cli (TS.t_server_name s) l -> Base.Dom.valid_label l ->
  In (ECid c0) blocked -> lower c0 = lower l ->
  before_via_home (new_access [] blocked hosts) s true addrs x = Some BRefused.
Proof.
  intros He Hr Hn Hsn Hi Hv Hin Hl. rewrite before_via_home_enabled by exact He. f_equal.
  exact (disallowed_clientid_server_name_refused blocked hosts
           (mkTlsConf (TS.t_server_name s) (TS.t_strict s)) x cli l c0 Hr Hn Hsn Hi Hv Hin Hl).
Qed.

(** ... and an allowed one admits (allow-list mode). *)
Theorem allowed_clientid_via_home_admitted allowed blocked hosts s addrs x ip l c0 :
  TS.t_enabled s = true ->
  extract_clientid (mkTlsConf (TS.t_server_name s) (TS.t_strict s)) x = Some (lower l) ->
  Base.Dom.valid_label l -> In (ECid c0) allowed -> lower c0 = lower l -> cx_ip x = Some ip ->
  (forall name qt, cx_q x = Some (name, qt) ->
     is_blocked_host (new_access allowed blocked hosts) (normalize_domain name) qt = false) ->
  before_via_home (new_access allowed blocked hosts) s true addrs x = Some (BContinue (Some (lower l))).
Proof.
  intros He Hx Hv Hin Hl Hip Hh. rewrite before_via_home_enabled by exact He. f_equal.
  exact (allowed_clientid_admitted allowed blocked hosts _ x ip l c0 Hx Hv Hin Hl Hip Hh).
Qed.

(** The variant that hands the server name over only when the DoT port is
    set. *)
Definition new_dns_tls_config_dot_only (s : TS.tls_settings) (pair_ok addrs : bool) : option TG.dns_tls_conf :=
  match TG.new_dns_tls_config false s pair_ok addrs with
  | Some d =>
      Some {| TG.dt_has_cert := TG.dt_has_cert d;
              TG.dt_server_name := if TG.dt_has_cert d && negb (TS.nz (TS.t_port_dot s)) then [] else TG.dt_server_name d;
              TG.dt_strict := TG.dt_strict d; TG.dt_https := TG.dt_https d;
              TG.dt_dot := TG.dt_dot d; TG.dt_doq := TG.dt_doq d |}
  | None => None
  end.

Definition before_via_home_dot_only (a : access) (s : TS.tls_settings) (pair_ok addrs : bool) (x : dnsctx) :=
  match new_dns_tls_config_dot_only s pair_ok addrs with
  | Some d => Some (handle_before_ctx a (handed_tlsconf d) x)
  | None => None
  end.

Definition ex_doh_name_ctx : dnsctx :=
  mkCtx PHTTPS None (Some (mk_doh ([47] ++ CID.dns_query) (Some ex_sni) [])) (Some ex_ip) None 8.
Definition ex_doq_ctx : dnsctx := mkCtx PQUIC (Some ex_sni) None (Some ex_ip) None 9.

(** It is refuted: DoH and DoQ on, DoT port 0: the disallowed ClientID kId,
    presented as KiD.dns.ex, is REFUSED by the code as it is and let through
    by the variant; in allow-list mode the allowed one is refused by the
    variant. *)
Theorem dot_only_refuted :
  let s := mk_setts true ex_srv false 443 0 853 in
  let a := new_access [] [ECid ex_kid] [] in
  let al := new_access [ECid ex_kid] [] [] in
  before_via_home a s true true ex_doh_name_ctx = Some BRefused /\
  before_via_home a s true true ex_doq_ctx = Some BRefused /\
  before_via_home_dot_only a s true true ex_doh_name_ctx = Some (BContinue None) /\
  before_via_home_dot_only a s true true ex_doq_ctx = Some (BContinue None) /\
  before_via_home al s true true ex_doq_ctx = Some (BContinue (Some [107;105;100])) /\
  before_via_home_dot_only al s true true ex_doq_ctx = Some BRefused /\
  before_via_home_dot_only a (mk_setts true ex_srv false 443 853 0) true true ex_doh_name_ctx = Some BRefused.
Proof. repeat split. Qed.

Example via_home_premises_satisfiable :
  let s := mk_setts true ex_srv true 0 0 853 in
  TS.t_enabled s = true /\ TS.t_server_name s <> [] /\
  Proofs.ClientID.reaches_sni (cid_proto PQUIC) None /\
  Model.ClientID.server_name_of (cid_proto PQUIC) (Some ex_sni) None = inr ex_sni /\
  Proofs.ClientID.immediate_sub ex_sni (TS.t_server_name s) [75;105;68] /\
  before_via_home (new_access [] [ECid ex_kid] []) s true false ex_doq_ctx = Some BRefused.
Proof.
  cbn zeta. split; [reflexivity|]. split; [intros H; vm_compute in H; discriminate|].
  split; [right; left; reflexivity|]. split; [reflexivity|].
  split; [|reflexivity].
  split; [discriminate|]. split; reflexivity.
Qed.

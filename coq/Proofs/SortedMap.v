(** aghalg.SortedMap as implemented (Model/SortedMap.v: key slice + Go map,
    binary search) REFINES a finite map with ordered iteration, for every
    sequence of Set / Del / Clear calls, repeated keys included (C04, round 4).

    The abstract side is the sorted association list ([fm_set] / [fm_get] /
    [fm_del]; for prefixes these ARE Model/ClientIndex.v's [sm_set] / [sm_get] /
    [sm_del], see Proofs/SubnetMap.v).  The comparator is any strict total
    order whose [Eq] is equality (section hypotheses; discharged for
    subnetCompare in Proofs/SubnetMap.v). *)
From Coq Require Import Lia Arith Sorting.Sorted.
From AGH Require Import Base.Run Model.SortedMap.

Section Proofs.
  Context {K V : Type}.
  Variable cmp : K -> K -> comparison.
  Variable keq : K -> K -> bool.
  Variable zero : V.
  Hypothesis keq_spec : forall a b, keq a b = true <-> a = b.
  Hypothesis cmp_eq : forall a b, cmp a b = Eq <-> a = b.
  Hypothesis cmp_antisym : forall a b, cmp b a = CompOpp (cmp a b).
  Hypothesis cmp_trans : forall a b c, cmp a b = Lt -> cmp b c = Lt -> cmp a c = Lt.

  Notation smap := (smap K V).
  Notation vget := (@vget K V keq).
  Notation vset := (@vset K V keq).
  Notation vdel := (@vdel K V keq).
  Notation vgetd := (@vgetd K V keq zero).
  Notation bsearch := (@bsearch K cmp).
  Notation smap_set := (@smap_set K V cmp keq).
  Notation smap_get := (@smap_get K V keq).
  Notation smap_del := (@smap_del K V cmp keq).
  Notation smap_all := (@smap_all K V keq zero).
  Notation smap_range := (@smap_range K V keq zero).
  Notation smap_step := (@smap_step K V cmp keq).
  Notation smap_run := (@smap_run K V cmp keq).

  Lemma keq_refl k : keq k k = true.
  Proof. apply keq_spec; reflexivity. Qed.
  Lemma keq_ne a b : a <> b -> keq a b = false.
  Proof. intros H. destruct (keq a b) eqn:E; [apply keq_spec in E; contradiction|reflexivity]. Qed.
  Lemma cmp_refl k : cmp k k = Eq.
  Proof. apply cmp_eq; reflexivity. Qed.
  Lemma cmp_lt_ne a b : cmp a b = Lt -> a <> b.
  Proof. intros H ->. rewrite cmp_refl in H. discriminate. Qed.
  Lemma cmp_gt_lt a b : cmp a b = Gt -> cmp b a = Lt.
  Proof. intros H. rewrite cmp_antisym, H. reflexivity. Qed.

  (** * The abstract finite map with ordered iteration *)
  Fixpoint fm_set (k : K) (v : V) (m : list (K * V)) : list (K * V) :=
    match m with
    | [] => [(k, v)]
    | (k', v') :: m' =>
        match cmp k' k with
        | Lt => (k', v') :: fm_set k v m'
        | Eq => (k, v) :: m'
        | Gt => (k, v) :: m
        end
    end.
  Definition fm_get (k : K) (m : list (K * V)) : option V := vget k m.
  Definition fm_del (k : K) (m : list (K * V)) : list (K * V) := vdel k m.

  Definition fm_step (m : list (K * V)) (o : smop K V) : list (K * V) :=
    match o with
    | MSet k v => fm_set k v m
    | MDel k => fm_del k m
    | MClear => []
    end.
  Definition fm_run (ops : list (smop K V)) (m : list (K * V)) : list (K * V) :=
    fold_left fm_step ops m.

  (** * The Go map *)
  Lemma vget_vset_eq k v m : vget k (vset k v m) = Some v.
  Proof. cbn. rewrite keq_refl. reflexivity. Qed.
  Lemma vget_vdel_eq k m : vget k (vdel k m) = None.
  Proof.
    unfold SortedMap.vdel. induction m as [|[k' v] m IH]; cbn; [reflexivity|].
    destruct (keq k k') eqn:E; cbn; [exact IH|]. rewrite E. exact IH.
  Qed.
  Lemma vget_vdel_ne k k' m : k <> k' -> vget k' (vdel k m) = vget k' m.
  Proof.
    intros Hne. unfold SortedMap.vdel. induction m as [|[k0 v] m IH]; cbn; [reflexivity|].
    destruct (keq k k0) eqn:E; cbn.
    - apply keq_spec in E; subst k0. rewrite (keq_ne k' k) by congruence. exact IH.
    - rewrite IH. reflexivity.
  Qed.
  Lemma vget_vset_ne k k' v m : k <> k' -> vget k' (vset k v m) = vget k' m.
  Proof. intros Hne. cbn. rewrite (keq_ne k' k) by congruence. apply vget_vdel_ne; assumption. Qed.

  (** * slices.BinarySearchFunc *)

  (** The search never runs out of fuel and never indexes outside the slice,
      WHATEVER the slice holds. *)
  Lemma div2_mid i j : i < j -> i <= Nat.div2 (i + j) < j.
  Proof.
    intros. rewrite Nat.div2_div. split.
    - apply Nat.div_le_lower_bound; lia.
    - apply Nat.div_lt_upper_bound; lia.
  Qed.

  Lemma bs_loop_total fuel : forall keys t i j,
    j <= length keys -> j - i <= fuel -> bs_loop cmp fuel keys t i j <> None.
  Proof.
    induction fuel as [|f IH]; intros keys t i j Hj Hf; cbn [bs_loop].
    - destruct (Nat.ltb_spec i j); [lia|discriminate].
    - destruct (Nat.ltb_spec i j) as [Hij|]; [|discriminate].
      pose proof (div2_mid i j Hij) as Hh.
      destruct (nth_error keys (Nat.div2 (i + j))) as [x|] eqn:En.
      + destruct (cmp x t); apply IH; lia.
      + apply nth_error_None in En. lia.
  Qed.

  Lemma bsearch_total keys t : bsearch keys t <> None.
  Proof.
    unfold SortedMap.bsearch.
    destruct (bs_loop cmp (S (length keys)) keys t 0 (length keys)) eqn:E; [discriminate|].
    exfalso. revert E. apply bs_loop_total; lia.
  Qed.

  (** Sorted slices: the search returns the lower bound, i.e. the number of
      keys below the target (a linear scan finds the same position). *)
  Definition klt (a b : K) : Prop := cmp a b = Lt.
  Definition ksorted (keys : list K) : Prop := StronglySorted klt keys.

  Fixpoint lb (keys : list K) (t : K) : nat :=
    match keys with
    | [] => 0
    | k :: r => match cmp k t with Lt => S (lb r t) | _ => 0 end
    end.

  Lemma lb_le keys t : lb keys t <= length keys.
  Proof. induction keys as [|k r IH]; cbn; [lia|]. destruct (cmp k t); lia. Qed.

  Lemma nth_lt_lb keys t : ksorted keys -> forall h x,
    nth_error keys h = Some x -> (cmp x t = Lt <-> h < lb keys t).
  Proof.
    induction keys as [|k r IH]; intros Hs h x Hn; [destruct h; discriminate|].
    inversion Hs as [|? ? Hs' Hall]; subst.
    destruct h as [|h]; cbn in Hn |- *.
    - injection Hn as ->. destruct (cmp x t); split; intros; try discriminate; try reflexivity; lia.
    - specialize (IH Hs' h x Hn).
      destruct (cmp k t) eqn:Ek.
      + split; [|lia]. intros Hx. exfalso.
        assert (Hkx : klt k x) by (rewrite Forall_forall in Hall; apply Hall; eapply nth_error_In; eauto).
        pose proof (cmp_trans _ _ _ Hkx Hx). congruence.
      + rewrite IH. lia.
      + split; [|lia]. intros Hx. exfalso.
        assert (Hkx : klt k x) by (rewrite Forall_forall in Hall; apply Hall; eapply nth_error_In; eauto).
        pose proof (cmp_trans _ _ _ Hkx Hx). congruence.
  Qed.

  Lemma bs_loop_sorted keys t : ksorted keys -> forall fuel i j,
    i <= lb keys t <= j -> j <= length keys -> j - i <= fuel ->
    bs_loop cmp fuel keys t i j = Some (lb keys t).
  Proof.
    intros Hs. induction fuel as [|f IH]; intros i j Hb Hj Hf; cbn [bs_loop].
    - destruct (Nat.ltb_spec i j); [lia|]. f_equal; lia.
    - destruct (Nat.ltb_spec i j) as [Hij|]; [|f_equal; lia].
      pose proof (div2_mid i j Hij) as Hh.
      destruct (nth_error keys (Nat.div2 (i + j))) as [x|] eqn:En.
      + pose proof (nth_lt_lb keys t Hs _ _ En) as Hx.
        destruct (cmp x t) eqn:Ex.
        * apply IH; try lia. assert (~ Nat.div2 (i + j) < lb keys t) by (rewrite <- Hx; discriminate). lia.
        * apply IH; try lia. assert (Nat.div2 (i + j) < lb keys t) by (apply Hx; reflexivity). lia.
        * apply IH; try lia. assert (~ Nat.div2 (i + j) < lb keys t) by (rewrite <- Hx; discriminate). lia.
      + apply nth_error_None in En. lia.
  Qed.

  Definition hasb (keys : list K) (t : K) : bool :=
    match nth_error keys (lb keys t) with
    | Some x => match cmp x t with Eq => true | _ => false end
    | None => false
    end.

  Theorem bsearch_sorted keys t : ksorted keys -> bsearch keys t = Some (lb keys t, hasb keys t).
  Proof.
    intros Hs. unfold SortedMap.bsearch.
    rewrite (bs_loop_sorted keys t Hs); [reflexivity| |lia|lia].
    pose proof (lb_le keys t). lia.
  Qed.

  (** * The three slice updates at the lower bound are the linear ones *)
  Fixpoint lin_set (k : K) (keys : list K) : list K :=
    match keys with
    | [] => [k]
    | k' :: r =>
        match cmp k' k with
        | Lt => k' :: lin_set k r
        | Eq => k :: r
        | Gt => k :: keys
        end
    end.

  Lemma keys_set_lin k keys :
    (if hasb keys k then replace_at (lb keys k) k keys else insert_at (lb keys k) k keys) = lin_set k keys.
  Proof.
    induction keys as [|k' r IH]; [reflexivity|].
    unfold hasb in *. cbn [lb lin_set]. destruct (cmp k' k) eqn:E.
    - cbn. rewrite E. reflexivity.
    - cbn [nth_error]. destruct (nth_error r (lb r k)) as [x|]; [destruct (cmp x k)|];
        unfold replace_at, insert_at in *; cbn; f_equal; exact IH.
    - cbn. rewrite E. reflexivity.
  Qed.

  Fixpoint lin_del (k : K) (keys : list K) : list K :=
    match keys with
    | [] => []
    | k' :: r => match cmp k' k with Lt => k' :: lin_del k r | _ => r end
    end.

  Lemma delete_at_lin k keys : delete_at (lb keys k) keys = lin_del k keys.
  Proof.
    induction keys as [|k' r IH]; [reflexivity|].
    cbn [lb lin_del]. destruct (cmp k' k); try reflexivity.
    unfold delete_at in *. cbn. f_equal. exact IH.
  Qed.

  (** * Sorted key slices *)
  Lemma ksorted_notin k k' r : ksorted (k' :: r) -> (cmp k' k = Eq \/ cmp k' k = Gt) -> ~ In k r.
  Proof.
    intros Hs Hc Hin. inversion Hs as [|? ? _ Hall]; subst.
    rewrite Forall_forall in Hall. specialize (Hall _ Hin). unfold klt in Hall.
    destruct Hc as [Hc|Hc].
    - apply cmp_eq in Hc; subst. rewrite cmp_refl in Hall. discriminate.
    - apply cmp_gt_lt in Hc. pose proof (cmp_trans _ _ _ Hc Hall) as H. rewrite cmp_refl in H. discriminate.
  Qed.

  Lemma ksorted_nodup keys : ksorted keys -> NoDup keys.
  Proof.
    induction 1 as [|k r Hs IH Hall]; constructor; [|exact IH].
    intros Hin. rewrite Forall_forall in Hall. specialize (Hall _ Hin). unfold klt in Hall.
    rewrite cmp_refl in Hall. discriminate.
  Qed.

  Lemma lin_set_in k keys x : In x (lin_set k keys) <-> x = k \/ In x keys.
  Proof.
    induction keys as [|k' r IH]; cbn; [intuition congruence|].
    destruct (cmp k' k) eqn:E; cbn.
    - apply cmp_eq in E; subst. intuition congruence.
    - rewrite IH. tauto.
    - intuition congruence.
  Qed.

  Lemma lin_set_sorted k keys : ksorted keys -> ksorted (lin_set k keys).
  Proof.
    induction keys as [|k' r IH]; intros Hs; cbn.
    - repeat constructor.
    - inversion Hs as [|? ? Hs' Hall]; subst. destruct (cmp k' k) eqn:E.
      + apply cmp_eq in E; subst. constructor; assumption.
      + constructor; [apply IH; assumption|].
        rewrite Forall_forall in *. intros x Hx. apply lin_set_in in Hx.
        destruct Hx as [->|Hx]; [exact E|apply Hall; assumption].
      + constructor; [assumption|]. apply cmp_gt_lt in E. constructor; [exact E|].
        rewrite Forall_forall in *. intros x Hx. eapply cmp_trans; [exact E|apply Hall; assumption].
  Qed.

  Definition not_k (k : K) : K -> bool := fun x => negb (keq k x).

  Lemma filter_notin k keys : ~ In k keys -> filter (not_k k) keys = keys.
  Proof.
    induction keys as [|k' r IH]; intros Hn; cbn; [reflexivity|].
    unfold not_k at 1. rewrite (keq_ne k k') by (intros ->; apply Hn; left; reflexivity).
    cbn. f_equal. apply IH. intros H; apply Hn; right; exact H.
  Qed.

  Lemma lin_del_filter k keys : ksorted keys -> In k keys -> lin_del k keys = filter (not_k k) keys.
  Proof.
    induction keys as [|k' r IH]; intros Hs Hin; [destruct Hin|].
    inversion Hs as [|? ? Hs' Hall]; subst. cbn [lin_del filter]. destruct (cmp k' k) eqn:E.
    - apply cmp_eq in E; subst k'. unfold not_k at 1. rewrite keq_refl. cbn.
      symmetry. apply filter_notin. eapply ksorted_notin; [exact Hs|left; apply cmp_refl].
    - pose proof (cmp_lt_ne _ _ E) as Hne. unfold not_k at 1. rewrite (keq_ne k k') by congruence. cbn.
      f_equal. apply IH; [assumption|]. destruct Hin as [->|Hin]; [contradiction|exact Hin].
    - exfalso. destruct Hin as [->|Hin]; [rewrite cmp_refl in E; discriminate|].
      eapply ksorted_notin; [exact Hs|right; exact E|exact Hin].
  Qed.

  Lemma filter_sorted' (f : K -> bool) keys : ksorted keys -> ksorted (filter f keys).
  Proof.
    induction 1 as [|k r Hs IH Hall]; cbn; [constructor|].
    destruct (f k); [|exact IH]. constructor; [exact IH|].
    rewrite Forall_forall in *. intros x Hx. apply filter_In in Hx. apply Hall; tauto.
  Qed.

  Lemma lb_hit k keys : ksorted keys -> In k keys -> lb keys k < length keys.
  Proof.
    induction keys as [|k' r IH]; intros Hs Hin; [destruct Hin|].
    inversion Hs as [|? ? Hs' Hall]; subst. cbn. destruct (cmp k' k) eqn:E; try lia.
    assert (In k r).
    { destruct Hin as [->|Hin]; [rewrite cmp_refl in E; discriminate|exact Hin]. }
    specialize (IH Hs' H). lia.
  Qed.

  (** * Invariant and abstraction *)
  Definition smap_inv (m : smap) : Prop :=
    ksorted (sm_keys m) /\ forall k, In k (sm_keys m) <-> vget k (sm_vals m) <> None.

  Lemma smap_inv_new : smap_inv (smap_new (K := K) (V := V)).
  Proof. split; [constructor|]. intros k; cbn. tauto. Qed.

  Lemma map_vgetd_ext (vals vals' : list (K * V)) keys :
    (forall x, In x keys -> vget x vals' = vget x vals) ->
    map (fun x => (x, vgetd x vals')) keys = map (fun x => (x, vgetd x vals)) keys.
  Proof.
    intros H. apply map_ext_in. intros x Hx. unfold SortedMap.vgetd. rewrite (H x Hx). reflexivity.
  Qed.

  Lemma set_abs k v vals keys : ksorted keys ->
    map (fun x => (x, vgetd x (vset k v vals))) (lin_set k keys) =
    fm_set k v (map (fun x => (x, vgetd x vals)) keys).
  Proof.
    induction keys as [|k' r IH]; intros Hs.
    - cbn. unfold SortedMap.vgetd. cbn. rewrite keq_refl. reflexivity.
    - assert (Hk : vgetd k (vset k v vals) = v) by (unfold SortedMap.vgetd; rewrite vget_vset_eq; reflexivity).
      inversion Hs as [|? ? Hs' Hall]; subst. cbn [lin_set map fm_set]. destruct (cmp k' k) eqn:E.
      + cbn [map]. rewrite Hk. f_equal. apply map_vgetd_ext. intros x Hx.
        apply vget_vset_ne. intros ->. eapply ksorted_notin; [exact Hs|left; exact E|exact Hx].
      + cbn [map]. rewrite (IH Hs'). f_equal. unfold SortedMap.vgetd.
        rewrite vget_vset_ne; [reflexivity|]. apply not_eq_sym. apply cmp_lt_ne. exact E.
      + cbn [map]. rewrite Hk. f_equal.
        change ((k', vgetd k' (vset k v vals)) :: map (fun x => (x, vgetd x (vset k v vals))) r)
          with (map (fun x => (x, vgetd x (vset k v vals))) (k' :: r)).
        change ((k', vgetd k' vals) :: map (fun x => (x, vgetd x vals)) r)
          with (map (fun x => (x, vgetd x vals)) (k' :: r)).
        apply map_vgetd_ext. intros x Hx. apply vget_vset_ne. intros ->.
        destruct Hx as [->|Hx]; [rewrite cmp_refl in E; discriminate|].
        eapply ksorted_notin; [exact Hs|right; exact E|exact Hx].
  Qed.

  Lemma vdel_cons k a b (l : list (K * V)) :
    vdel k ((a, b) :: l) = if keq k a then vdel k l else (a, b) :: vdel k l.
  Proof. unfold SortedMap.vdel. cbn. destruct (keq k a); reflexivity. Qed.

  Lemma del_abs k vals keys :
    map (fun x => (x, vgetd x (vdel k vals))) (filter (not_k k) keys) =
    fm_del k (map (fun x => (x, vgetd x vals)) keys).
  Proof.
    unfold fm_del. induction keys as [|k' r IH]; [reflexivity|].
    cbn [filter map]. rewrite vdel_cons. unfold not_k at 1. destruct (keq k k') eqn:E; cbn [negb].
    - exact IH.
    - cbn [map]. rewrite IH. f_equal. unfold SortedMap.vgetd. rewrite vget_vdel_ne; [reflexivity|].
      intros ->. rewrite keq_refl in E. discriminate.
  Qed.

  (** ** Set *)
  Theorem set_refines k v m : smap_inv m ->
    exists m', smap_set k v m = SOk m' /\ smap_inv m' /\ smap_all m' = fm_set k v (smap_all m).
  Proof.
    intros [Hs Hd]. unfold SortedMap.smap_set. rewrite (bsearch_sorted _ _ Hs).
    pose proof (keys_set_lin k (sm_keys m)) as Hl.
    exists {| sm_keys := lin_set k (sm_keys m); sm_vals := vset k v (sm_vals m) |}.
    split; [destruct (hasb (sm_keys m) k); rewrite Hl; reflexivity|].
    split.
    - split; cbn [sm_keys sm_vals]; [apply lin_set_sorted; exact Hs|].
      intros x. rewrite lin_set_in. split.
      + intros [->|Hx]; [rewrite vget_vset_eq; discriminate|].
        destruct (keq k x) eqn:E; [apply keq_spec in E; subst; rewrite vget_vset_eq; discriminate|].
        rewrite vget_vset_ne; [apply Hd; exact Hx|]. intros ->. rewrite keq_refl in E. discriminate.
      + intros Hx. destruct (keq k x) eqn:E; [apply keq_spec in E; auto|].
        right. apply Hd. rewrite vget_vset_ne in Hx; [exact Hx|]. intros ->. rewrite keq_refl in E. discriminate.
    - unfold SortedMap.smap_all; cbn [sm_keys sm_vals]. apply set_abs. exact Hs.
  Qed.

  (** ** Del *)
  Theorem del_refines k m : smap_inv m ->
    exists m', smap_del k m = SOk m' /\ smap_inv m' /\ smap_all m' = fm_del k (smap_all m).
  Proof.
    intros [Hs Hd]. unfold SortedMap.smap_del. destruct (vget k (sm_vals m)) as [v|] eqn:Eg.
    - assert (Hin : In k (sm_keys m)) by (apply Hd; congruence).
      rewrite (bsearch_sorted _ _ Hs).
      destruct (Nat.ltb_spec (lb (sm_keys m) k) (length (sm_keys m))) as [_|Hge];
        [|pose proof (lb_hit k _ Hs Hin); lia].
      rewrite delete_at_lin, (lin_del_filter _ _ Hs Hin).
      eexists; split; [reflexivity|]. split.
      + split; cbn [sm_keys sm_vals]; [apply filter_sorted'; exact Hs|].
        intros x. rewrite filter_In. unfold not_k. split.
        * intros [Hx Hne]. destruct (keq k x) eqn:E; [discriminate|].
          rewrite vget_vdel_ne; [apply Hd; exact Hx|]. intros ->. rewrite keq_refl in E. discriminate.
        * intros Hx. destruct (keq k x) eqn:E.
          -- apply keq_spec in E; subst. rewrite vget_vdel_eq in Hx. contradiction.
          -- split; [|reflexivity]. apply Hd. rewrite vget_vdel_ne in Hx; [exact Hx|].
             intros ->. rewrite keq_refl in E. discriminate.
      + unfold SortedMap.smap_all; cbn [sm_keys sm_vals]. apply del_abs.
    - exists m. split; [reflexivity|]. split; [split; assumption|].
      assert (Hn : ~ In k (sm_keys m)) by (intros H; apply Hd in H; contradiction).
      unfold SortedMap.smap_all. rewrite <- del_abs, (filter_notin _ _ Hn).
      symmetry. apply map_vgetd_ext. intros x Hx. apply vget_vdel_ne. intros ->. contradiction.
  Qed.

  (** ** Every sequence of calls *)
  Theorem step_refines m o : smap_inv m ->
    exists m', smap_step m o = SOk m' /\ smap_inv m' /\ smap_all m' = fm_step (smap_all m) o.
  Proof.
    intros Hi. destruct o as [k v|k|]; cbn [SortedMap.smap_step fm_step].
    - apply set_refines; exact Hi.
    - apply del_refines; exact Hi.
    - eexists; split; [reflexivity|]. split; [apply smap_inv_new|reflexivity].
  Qed.

  Theorem run_refines ops : forall m, smap_inv m ->
    exists m', smap_run ops m = SOk m' /\ smap_inv m' /\ smap_all m' = fm_run ops (smap_all m).
  Proof.
    induction ops as [|o ops IH]; intros m Hi; cbn [SortedMap.smap_run fm_run fold_left].
    - exists m. auto.
    - destruct (step_refines m o Hi) as (m1 & E1 & Hi1 & A1). rewrite E1.
      destruct (IH m1 Hi1) as (m2 & E2 & Hi2 & A2). exists m2. rewrite <- A1. auto.
  Qed.

  (** From the empty map: no panic, no fuel exhaustion, the key slice strictly
      sorted (hence without duplicates), and Range shows the finite map. *)
  Theorem sortedmap_refines ops :
    exists m, smap_run ops (smap_new (K := K) (V := V)) = SOk m /\ smap_inv m /\
              smap_all m = fm_run ops [].
  Proof. exact (run_refines ops _ smap_inv_new). Qed.

  Theorem keys_strictly_sorted ops m :
    smap_run ops (smap_new (K := K) (V := V)) = SOk m -> ksorted (sm_keys m) /\ NoDup (sm_keys m).
  Proof.
    intros E. destruct (sortedmap_refines ops) as (m' & E' & [Hs _] & _).
    rewrite E in E'. injection E' as <-. split; [exact Hs|apply ksorted_nodup; exact Hs].
  Qed.

  (** * Get *)
  Lemma vget_map_in vals keys k : In k keys ->
    vget k (map (fun x => (x, vgetd x vals)) keys) = Some (vgetd k vals).
  Proof.
    induction keys as [|k' r IH]; intros Hin; [destruct Hin|]. cbn.
    destruct (keq k k') eqn:E; [apply keq_spec in E; subst; reflexivity|].
    apply IH. destruct Hin as [->|Hin]; [rewrite keq_refl in E; discriminate|exact Hin].
  Qed.
  Lemma vget_map_notin vals keys k : ~ In k keys ->
    vget k (map (fun x => (x, vgetd x vals)) keys) = None.
  Proof.
    induction keys as [|k' r IH]; intros Hn; [reflexivity|]. cbn.
    rewrite (keq_ne k k') by (intros ->; apply Hn; left; reflexivity).
    apply IH. intros H; apply Hn; right; exact H.
  Qed.

  Theorem get_refines k m : smap_inv m -> smap_get k m = fm_get k (smap_all m).
  Proof.
    intros [Hs Hd]. unfold SortedMap.smap_get, fm_get, SortedMap.smap_all.
    destruct (vget k (sm_vals m)) as [v|] eqn:Eg.
    - rewrite vget_map_in by (apply Hd; congruence). unfold SortedMap.vgetd. rewrite Eg. reflexivity.
    - rewrite vget_map_notin; [reflexivity|]. intros H. apply Hd in H. contradiction.
  Qed.

  (** Map laws on the implementation itself (no invariant needed). *)
  Lemma get_set_eq k v m m' : smap_set k v m = SOk m' -> smap_get k m' = Some v.
  Proof.
    unfold SortedMap.smap_set, SortedMap.smap_get.
    destruct (bsearch (sm_keys m) k) as [[i [|]]|]; intros E; inversion E; subst; cbn [sm_vals];
      apply vget_vset_eq.
  Qed.
  Lemma get_set_ne k k' v m m' : k <> k' -> smap_set k v m = SOk m' -> smap_get k' m' = smap_get k' m.
  Proof.
    intros Hne. unfold SortedMap.smap_set, SortedMap.smap_get.
    destruct (bsearch (sm_keys m) k) as [[i [|]]|]; intros E; inversion E; subst; cbn [sm_vals];
      apply vget_vset_ne; exact Hne.
  Qed.
  Lemma get_del_eq k m m' : smap_del k m = SOk m' -> smap_get k m' = None.
  Proof.
    unfold SortedMap.smap_del, SortedMap.smap_get. destruct (vget k (sm_vals m)) eqn:Eg.
    - destruct (bsearch (sm_keys m) k) as [[i b]|]; [|discriminate].
      destruct (Nat.ltb i (length (sm_keys m))); intros E; inversion E; subst; cbn [sm_vals].
      apply vget_vdel_eq.
    - intros E; inversion E; subst. exact Eg.
  Qed.
  Lemma get_del_ne k k' m m' : k <> k' -> smap_del k m = SOk m' -> smap_get k' m' = smap_get k' m.
  Proof.
    intros Hne. unfold SortedMap.smap_del, SortedMap.smap_get. destruct (vget k (sm_vals m)) eqn:Eg.
    - destruct (bsearch (sm_keys m) k) as [[i b]|]; [|discriminate].
      destruct (Nat.ltb i (length (sm_keys m))); intros E; inversion E; subst; cbn [sm_vals].
      apply vget_vdel_ne; exact Hne.
    - intros E; inversion E; subst. reflexivity.
  Qed.

  (** * Range *)

  (** A callback that never stops is shown [smap_all]. *)
  Lemma range_all_from vals keys acc :
    range_keys keq zero (fun k v (a : list (K * V)) => (a ++ [(k, v)], true)) vals keys acc =
    acc ++ map (fun x => (x, vgetd x vals)) keys.
  Proof.
    revert acc. induction keys as [|k r IH]; intros acc; cbn; [rewrite app_nil_r; reflexivity|].
    rewrite IH, <- app_assoc. reflexivity.
  Qed.
  Theorem range_all m :
    smap_range (fun k v (a : list (K * V)) => (a ++ [(k, v)], true)) m [] = smap_all m.
  Proof. unfold SortedMap.smap_range. rewrite range_all_from. reflexivity. Qed.

  (** A callback that stops at the first pair it likes finds the first such
      pair of [smap_all] (index.findByIP, index.clashesSubnet). *)
  Theorem range_find (p : K -> V -> bool) m :
    smap_range (fun k v (a : option (K * V)) => if p k v then (Some (k, v), false) else (a, true)) m None =
    List.find (fun kv => p (fst kv) (snd kv)) (smap_all m).
  Proof.
    unfold SortedMap.smap_range, SortedMap.smap_all.
    induction (sm_keys m) as [|k r IH]; cbn; [reflexivity|].
    destruct (p k (vgetd k (sm_vals m))); [reflexivity|exact IH].
  Qed.

  (** Range visits every present key exactly once, in order, with its value. *)
  Theorem range_each_once m : smap_inv m ->
    map fst (smap_all m) = sm_keys m /\ ksorted (map fst (smap_all m)) /\ NoDup (map fst (smap_all m)) /\
    forall k v, In (k, v) (smap_all m) <-> smap_get k m = Some v.
  Proof.
    intros [Hs Hd].
    assert (Hk : map fst (smap_all m) = sm_keys m).
    { unfold SortedMap.smap_all. rewrite map_map. cbn. apply map_id. }
    rewrite Hk. split; [reflexivity|]. split; [exact Hs|]. split; [apply ksorted_nodup; exact Hs|].
    intros k v. unfold SortedMap.smap_all, SortedMap.smap_get. rewrite in_map_iff. split.
    - intros (x & E & Hx). injection E as -> <-. unfold SortedMap.vgetd.
      apply Hd in Hx. destruct (vget k (sm_vals m)); [reflexivity|contradiction].
    - intros Hg. exists k. split; [|apply Hd; congruence].
      unfold SortedMap.vgetd. rewrite Hg. reflexivity.
  Qed.
End Proofs.

(** C01 behind the filter-list refresh (Model/PipelineRefresh.v over property
    C15's Model/Refresh.v).

    Cited from C15 (Proofs/RefreshEngine.v), not re-proved: a pass without a
    network error that updated a list rebuilds the engine from the files
    ([updating_pass_consistent]); passes without a network error, set_url
    calls and rebuilds keep the engine in step with the files
    ([good_pass_keeps_consistent], [set_props_keeps_consistent],
    [rebuild_now_consistent]).

    Added here, about the same model: WHEN a pass ends with "network error"
    (iff every attempted list of a refreshed array failed:
    [pass_net_error_char]: one failing source among several is none) and when
    it reports an update ([pass_updated_pos]); hence a pass in which some
    source fails while another brings a new text rebuilds the engine
    ([partial_failure_pass_consistent]), and the name a rule of that text
    blocks is answered locally ([refreshed_rule_in_force],
    [blocked_by_refreshed_list_is_local]).  Over histories: the verdict of a
    query is that of the rules in the stored files of the enabled lists
    ([history_rules_in_force]). *)
From Coq Require Import NArith List Bool Lia.
From AGH Require Import Base.Run Base.NetAddr Base.RuleEngine Model.Pipeline Proofs.Pipeline.
From AGH Require Import Model.RuleListParser Model.Refresh Proofs.Refresh Proofs.RefreshEngine.
From AGH Require Import Model.PipelineRefresh.
From AGH Require Model.Rewrites.
Import ListNotations.
Local Open Scope N_scope.

Section Passes.
  Variable crc : N -> bytes -> N.

  (** The reader of a list fails in this pass (decidable form of C15's [fails]). *)
  Definition failsb (o : Refresh.outcome) : bool :=
    match o with
    | OOpenErr => true
    | OBody d re => match snd (parse crc d re) with Some _ => true | None => false end
    | ORenameFail _ => true
    | OWriteFail d re cap => match snd (fst (parse_w crc cap d re)) with Some _ => true | None => false end
    end.

  Lemma failsb_fails o : failsb o = true <-> fails crc o.
  Proof.
    destruct o as [|d re|d|d re cap]; cbn; try tauto.
    - destruct (snd (parse crc d re)); split; congruence.
    - destruct (snd (fst (parse_w crc cap d re))); split; congruence.
  Qed.

  Lemma u_err_failsb l o fs : u_err (fst (update_one crc l o fs)) = failsb o.
  Proof.
    unfold update_one, failsb. destruct o as [|d re|d|d re cap]; auto.
    - destruct (parse crc d re) as [st [e|]]; cbn; auto. destruct (p_sum st =? f_sum l); reflexivity.
    - destruct (parse_w crc cap d re) as [[st [e|]] part]; cbn; auto. destruct (p_sum st =? f_sum l); reflexivity.
  Qed.

  (** The lists a pass attempts (listsToUpdate). *)
  Definition attempted (ls : list flist) (force : bool) (due : N -> bool) : list flist :=
    filter (fun l => f_enabled l && (force || due (f_id l))) ls.

  (** Every attempted list of the array failed, and there was one. *)
  Definition all_failed (ls : list flist) (force : bool) (due : N -> bool) (oc : N -> Refresh.outcome) : bool :=
    match attempted ls force due with
    | [] => false
    | ws => forallb (fun l => failsb (oc (f_id l))) ws
    end.

  Definition arr_err (r : N * bool * list flist * files) : bool := snd (fst (fst r)).
  Definition arr_count (r : N * bool * list flist * files) : N := fst (fst (fst r)).

  Lemma refresh_array_net_error ls force due oc fs :
    arr_err (refresh_array crc ls force due oc fs) = all_failed ls force due oc.
  Proof.
    unfold refresh_array, all_failed, attempted, arr_err.
    set (ws := filter _ ls). destruct ws as [|w ws']; [reflexivity|].
    set (cs := map wcopy (w :: ws')).
    change (match cs with [] => (0, false, ls, fs) | _ :: _ =>
              let '(us, fs') := update_all crc cs oc fs in
              if forallb u_err us then (0, true, ls, fs')
              else let '(n, ls') := copy_back_all us ls in (n, false, ls', fs') end)
      with (let '(us, fs') := update_all crc cs oc fs in
            if forallb u_err us then (0, true, ls, fs')
            else let '(n, ls') := copy_back_all us ls in (n, false, ls', fs')).
    pose proof (update_all_fst crc oc cs fs) as F.
    destruct (update_all crc cs oc fs) as [us fs']. cbn [fst] in F. subst us.
    assert (E : forallb u_err (map (fun w0 => upd_of crc w0 (oc (f_id w0))) cs)
                = forallb (fun l => failsb (oc (f_id l))) (w :: ws')).
    { unfold cs. rewrite map_map. generalize (w :: ws'). induction l as [|x l IH]; [reflexivity|].
      cbn [map forallb]. rewrite IH. f_equal. unfold upd_of. now rewrite u_err_failsb. }
    rewrite E. destruct (forallb _ (w :: ws')); [reflexivity|].
    destruct (copy_back_all _ ls). reflexivity.
  Qed.

  (** refreshFiltersIntl reports "network error" iff, in an array it
      refreshed, every attempted list failed (and there was one).  A single
      failing source among several is not a network error. *)
  Theorem pass_net_error_char b a force due oc st :
    pass_net_error crc b a force due oc st
    = (b && all_failed (r_block st) force due oc) || (a && all_failed (r_allow st) force due oc).
  Proof.
    unfold pass_net_error, pass_report.
    pose proof (refresh_array_net_error (r_block st) force due oc (r_files st)) as E1.
    destruct b.
    - destruct (refresh_array crc (r_block st) force due oc (r_files st)) as [[[n1 e1] bl] fs1] eqn:R1.
      unfold arr_err in E1. cbn [fst snd] in E1. subst e1.
      destruct a.
      + pose proof (refresh_array_net_error (r_allow st) force due oc fs1) as E2.
        destruct (refresh_array crc (r_allow st) force due oc fs1) as [[[n2 e2] al] fs2].
        unfold arr_err in E2. cbn [fst snd] in E2. subst e2. reflexivity.
      + cbn. now rewrite orb_false_r.
    - destruct a.
      + pose proof (refresh_array_net_error (r_allow st) force due oc (r_files st)) as E2.
        destruct (refresh_array crc (r_allow st) force due oc (r_files st)) as [[[n2 e2] al] fs2].
        unfold arr_err in E2. cbn [fst snd] in E2. subst e2. reflexivity.
      + reflexivity.
  Qed.

  (** The source of list [l] brings a text that parses and whose checksum is
      not the recorded one. *)
  Definition brings_new (o : Refresh.outcome) (l : flist) : Prop :=
    exists d re st, delivers crc o d re /\ parse crc d re = (st, None) /\ p_sum st <> f_sum l.

  Lemma brings_new_updated o l fs : brings_new o l -> u_updated (fst (update_one crc (wcopy l) o fs)) = true.
  Proof.
    intros (d & re & st & D & P & S). rewrite (update_one_delivers crc _ o d re fs D).
    unfold update_one. rewrite P. cbn [wcopy f_sum].
    destruct (N.eqb_spec (p_sum st) (f_sum l)); [contradiction|reflexivity].
  Qed.

  Lemma copy_back_all_pos us ls :
    (forall u, In u us -> In (uid u) (map f_id ls)) ->
    (exists u, In u us /\ u_updated u = true) -> fst (copy_back_all us ls) <> 0.
  Proof.
    intros Hin (u & Hu & U) Z. pose proof (copy_back_all_zero us ls Hin Z) as F.
    rewrite Forall_forall in F. specialize (F u Hu). congruence.
  Qed.

  (** An array in which not every attempted list failed and the source of an
      attempted list brings a new text reports an update. *)
  Lemma refresh_array_updated_pos ls force due oc fs l :
    all_failed ls force due oc = false -> In l (attempted ls force due) -> brings_new (oc (f_id l)) l ->
    arr_count (refresh_array crc ls force due oc fs) <> 0.
  Proof.
    intros NF Hl B. pose proof (refresh_array_net_error ls force due oc fs) as E. rewrite NF in E.
    unfold refresh_array, arr_count, arr_err in *. fold (attempted ls force due) in *.
    set (ws := attempted ls force due) in *.
    destruct (map wcopy ws) as [|c cs] eqn:Ecs.
    { destruct ws; [contradiction|discriminate]. }
    rewrite <- Ecs in *. clear c cs Ecs.
    pose proof (update_all_fst crc oc (map wcopy ws) fs) as F.
    destruct (update_all crc (map wcopy ws) oc fs) as [us fs']. cbn [fst] in F.
    destruct (forallb u_err us); [cbn in E; discriminate|].
    destruct (copy_back_all us ls) as [n ls'] eqn:CB. cbn [fst].
    change n with (fst (n, ls')). rewrite <- CB. apply copy_back_all_pos.
    - intros u Hu. subst us. apply in_map_iff in Hu. destruct Hu as (w & <- & Hw).
      unfold uid, upd_of. rewrite update_one_id.
      apply in_map_iff in Hw. destruct Hw as (x & <- & Hx). cbn [wcopy f_id].
      apply in_map. unfold ws, attempted in Hx. apply filter_In in Hx. tauto.
    - exists (upd_of crc (wcopy l) (oc (f_id l))). split.
      + subst us. apply in_map_iff. exists (wcopy l). split; [reflexivity|]. now apply in_map.
      + unfold upd_of. now apply brings_new_updated.
  Qed.

  (** In which array a list is attempted. *)
  Definition attempted_in (b a force : bool) (due : N -> bool) (st : rstate) (l : flist) : Prop :=
    (b = true /\ In l (attempted (r_block st) force due)) \/ (a = true /\ In l (attempted (r_allow st) force due)).

  Theorem pass_updated_pos b a force due oc st l :
    pass_net_error crc b a force due oc st = false ->
    attempted_in b a force due st l -> brings_new (oc (f_id l)) l ->
    pass_updated crc b a force due oc st <> 0.
  Proof.
    intros NE Hl B. rewrite pass_net_error_char in NE. apply orb_false_iff in NE. destruct NE as [N1 N2].
    unfold pass_updated, pass_report.
    destruct Hl as [[-> Hl] | [-> Hl]].
    - cbn [andb] in N1.
      pose proof (refresh_array_updated_pos (r_block st) force due oc (r_files st) l N1 Hl B) as P.
      destruct (refresh_array crc (r_block st) force due oc (r_files st)) as [[[n1 e1] bl] fs1].
      unfold arr_count in P. cbn [fst] in P.
      destruct (if a then _ else _) as [[[n2 e2] al] fs2]. cbn [fst]. lia.
    - cbn [andb] in N2.
      destruct (if b then _ else _) as [[[n1 e1] bl] fs1].
      pose proof (refresh_array_updated_pos (r_allow st) force due oc fs1 l N2 Hl B) as P.
      destruct (refresh_array crc (r_allow st) force due oc fs1) as [[[n2 e2] al] fs2].
      unfold arr_count in P. cbn [fst] in P. cbn [fst]. lia.
  Qed.

  (** The clause a partial failure touches: some sources fail, but in every
      refreshed array that attempts a list one source answers, and the source
      of some attempted list brings a new text  ==>  the pass ends by
      rebuilding the engine from the stored files (C15's
      [updating_pass_consistent] applies), whatever the engine held before. *)
  Theorem partial_failure_pass_consistent b a force due oc st l :
    (b && all_failed (r_block st) force due oc) || (a && all_failed (r_allow st) force due oc) = false ->
    attempted_in b a force due st l -> brings_new (oc (f_id l)) l ->
    engine_consistent (refresh crc b a force due oc st).
  Proof.
    intros NF Hl B. rewrite <- pass_net_error_char in NF.
    apply updating_pass_consistent; [exact NF|]. now apply (pass_updated_pos b a force due oc st l).
  Qed.
End Passes.

(** * From the engine of the refresh state to the verdict *)

Section Verdicts.
  Variable crc : N -> bytes -> N.
  Variable rules_of : bytes -> list rule.
  Variable sb_oracle par_oracle : bytes -> bool.
  Variable ss_oracle : bytes -> N -> option ssverdict.
  Variable rw_sort : list Rewrites.entry -> list Rewrites.entry.

  Notation ask_r := (ask_r rules_of sb_oracle par_oracle ss_oracle rw_sort).
  Notation block_in_force := (block_in_force rules_of).
  Notation allow_in_force := (allow_in_force rules_of).

  (** The rules of the stored files of the enabled lists of an array. *)
  Definition stored_rules (ls : list flist) (fs : files) : list rule := text_rules rules_of (snapshot ls fs).

  Lemma consistent_rules_in_force user st :
    engine_consistent st ->
    block_in_force user (r_engine st) = user ++ stored_rules (r_block st) (r_files st) /\
    allow_in_force (r_engine st) = stored_rules (r_allow st) (r_files st).
  Proof. unfold engine_consistent. intros ->. split; reflexivity. Qed.

  (** A rule in the stored file of an enabled list of an array is among the
      stored rules of the array. *)
  Lemma stored_rule_in ls fs l c r :
    In l ls -> f_enabled l = true -> fget (f_id l) fs = Some c -> In r (rules_of c) ->
    In r (stored_rules ls fs).
  Proof.
    intros Hl En F Hr. unfold stored_rules, text_rules. apply in_flat_map. exists (f_id l, c). split; [|exact Hr].
    unfold snapshot. apply in_flat_map. exists l. split; [exact Hl|]. rewrite En, F. now left.
  Qed.

  (** After a pass that is no network error and in which the source of an
      attempted list brought a new text, whatever the engine held before and
      whichever other sources failed: every rule in the stored file of every
      enabled block list is a rule of the block engine (and likewise for the
      allow lists). *)
  Theorem refreshed_rule_in_force b a force due oc st user l0 l c r :
    (b && all_failed crc (r_block st) force due oc) || (a && all_failed crc (r_allow st) force due oc) = false ->
    attempted_in b a force due st l0 -> brings_new crc (oc (f_id l0)) l0 ->
    let st' := refresh crc b a force due oc st in
    f_enabled l = true -> fget (f_id l) (r_files st') = Some c -> In r (rules_of c) ->
    (In l (r_block st') -> In r (block_in_force user (r_engine st'))) /\
    (In l (r_allow st') -> In r (allow_in_force (r_engine st'))).
  Proof.
    intros NF H0 B st' En F Hr.
    pose proof (partial_failure_pass_consistent crc b a force due oc st l0 NF H0 B) as C.
    destruct (consistent_rules_in_force user _ C) as [Eb Ea]. fold st' in Eb, Ea.
    split; intros Hl.
    - rewrite Eb. apply in_or_app. right. eapply stored_rule_in; eauto.
    - rewrite Ea. eapply stored_rule_in; eauto.
  Qed.

  (** ... so the query those rules block is answered locally (C01). *)
  Theorem blocked_by_refreshed_list_is_local b a force due oc st user l0 c up q :
    (b && all_failed crc (r_block st) force due oc) || (a && all_failed crc (r_allow st) force due oc) = false ->
    attempted_in b a force due st l0 -> brings_new crc (oc (f_id l0)) l0 ->
    let st' := refresh crc b a force due oc st in
    blocked_by_spec (match_request (stored_rules (r_allow st') (r_files st')))
                    (match_request (user ++ stored_rules (r_block st') (r_files st'))) rw_sort c q ->
    let o := ask_r user st' c up q in
    o_calls o = [] /\
    r_filtered (o_result o) = true /\ rule_reason (r_reason (o_result o)) /\
    o_resp o = Some (synthetic c (q_name q) (q_qtype q) (ips_from_rules (o_result o))) /\
    o_qname o = q_name q.
  Proof.
    intros NF H0 B st' Hb. cbv zeta.
    pose proof (partial_failure_pass_consistent crc b a force due oc st l0 NF H0 B) as C.
    destruct (consistent_rules_in_force user _ C) as [Eb Ea]. fold st' in Eb, Ea.
    unfold PipelineRefresh.ask_r. rewrite Eb, Ea. now apply blocked_is_local.
  Qed.

  (** ** Histories *)

  (** No pass of the history ends with a network error. *)
  Fixpoint no_net_error (h : list rop) (st : rstate) : Prop :=
    match h with
    | [] => True
    | o :: r =>
        match o with
        | RPass b a f oc => pass_net_error crc b a f all_due oc st = false
        | _ => True
        end /\ no_net_error r (rop_step crc st o)
    end.

  Lemma rop_step_consistent st o :
    engine_consistent st ->
    match o with RPass b a f oc => pass_net_error crc b a f all_due oc st = false | _ => True end ->
    engine_consistent (rop_step crc st o).
  Proof.
    intros C P. destruct o as [b a f oc | al u name en o |]; cbn [rop_step].
    - now apply good_pass_keeps_consistent.
    - now apply set_props_keeps_consistent.
    - apply rebuild_now_consistent.
  Qed.

  Lemma rop_run_cons st o h : rop_run crc st (o :: h) = rop_run crc (rop_step crc st o) h.
  Proof. reflexivity. Qed.

  Theorem history_engine_in_step h : forall st,
    engine_consistent st -> no_net_error h st -> engine_consistent (rop_run crc st h).
  Proof.
    induction h as [|o h IH]; intros st C P; [exact C|]. rewrite rop_run_cons.
    destruct P as [Po Pr]. apply IH; [|exact Pr]. now apply rop_step_consistent.
  Qed.

  (** For every history of passes (sources changing and failing in any
      pattern that is no network error), set_url switches and rebuilds, then
      a query: the verdict is that of the rules in the stored files of the
      lists enabled at that moment. *)
  Theorem history_rules_in_force h st user c up q :
    engine_consistent st -> no_net_error h st ->
    let st' := rop_run crc st h in
    ask_r user st' c up q =
    Pipeline.process (match_request (stored_rules (r_allow st') (r_files st')))
            (match_request (user ++ stored_rules (r_block st') (r_files st')))
            sb_oracle par_oracle ss_oracle rw_sort c up q.
  Proof.
    intros C P st'. pose proof (history_engine_in_step h st C P) as C'.
    destruct (consistent_rules_in_force user _ C') as [Eb Ea]. fold st' in Eb, Ea.
    unfold PipelineRefresh.ask_r. now rewrite Eb, Ea.
  Qed.

  (** ... and after ANY history (network errors included), a pass that is
      none and in which some source brought a new text puts the stored files
      in force again. *)
  Theorem history_then_updating_pass h st b a force oc user l0 c up q :
    let s := rop_run crc st h in
    (b && all_failed crc (r_block s) force all_due oc) || (a && all_failed crc (r_allow s) force all_due oc) = false ->
    attempted_in b a force all_due s l0 -> brings_new crc (oc (f_id l0)) l0 ->
    let st' := rop_run crc st (h ++ [RPass b a force oc]) in
    ask_r user st' c up q =
    Pipeline.process (match_request (stored_rules (r_allow st') (r_files st')))
            (match_request (user ++ stored_rules (r_block st') (r_files st')))
            sb_oracle par_oracle ss_oracle rw_sort c up q.
  Proof.
    intros s NF H0 B st'.
    assert (E : st' = refresh crc b a force all_due oc s).
    { unfold st', rop_run. rewrite fold_left_app. reflexivity. }
    pose proof (partial_failure_pass_consistent crc b a force all_due oc s l0 NF H0 B) as C.
    rewrite <- E in C. destruct (consistent_rules_in_force user _ C) as [Eb Ea].
    unfold PipelineRefresh.ask_r. now rewrite Eb, Ea.
  Qed.
End Verdicts.

(** * The seeded reading, refuted; non-vacuity *)

Module RX.
  Definition nm (s : bytes) : bytes := s.
  (* "||a.test^\n", "||a.test^\n||x.test^\n", "||b.test^\n" *)
  Definition t_a : bytes := [124;124;97;46;116;101;115;116;94;10].
  Definition t_ax : bytes := t_a ++ [124;124;120;46;116;101;115;116;94;10].
  Definition t_b : bytes := [124;124;98;46;116;101;115;116;94;10].
  Definition oc0 (i : N) : Refresh.outcome := if i =? 1 then OBody t_a false else OBody t_b false.
  (** two enabled block lists, both downloaded *)
  Definition st0 : rstate := start_state crc32_update [(1, [115]); (2, [102])] [] oc0.
  (** the next pass: list 1 serves one more rule, the source of list 2 answers 500 *)
  Definition oc1 (i : N) : Refresh.outcome := if i =? 1 then OBody t_ax false else OOpenErr.
  Definition st1 : rstate := refresh crc32_update true false true all_due oc1 st0.
  Definition l1 : flist := match r_block st0 with l :: _ => l | [] => new_list (1, []) end.
End RX.

(** "A pass with a failing source leaves the engine as it was" does not hold
    of the model: one source failing, the other bringing a new text, the
    engine afterwards holds the new text. *)
Definition any_failure_keeps_engine_statement : Prop :=
  forall b a force oc st l, In l (attempted (r_block st) force all_due) -> b = true ->
    failsb crc32_update (oc (f_id l)) = true ->
    r_engine (refresh crc32_update b a force all_due oc st) = r_engine st.

Theorem any_failure_keeps_engine_refuted : ~ any_failure_keeps_engine_statement.
Proof.
  intros H.
  specialize (H true false true RX.oc1 RX.st0 (nth 1 (r_block RX.st0) RX.l1)).
  assert (E : r_engine RX.st1 = r_engine RX.st0).
  { apply H; [vm_compute; tauto | reflexivity | reflexivity]. }
  vm_compute in E. discriminate.
Qed.

Example partial_failure_premises_satisfiable :
  engine_consistent RX.st0 /\
  (true && all_failed crc32_update (r_block RX.st0) true all_due RX.oc1) ||
    (false && all_failed crc32_update (r_allow RX.st0) true all_due RX.oc1) = false /\
  attempted_in true false true all_due RX.st0 RX.l1 /\
  brings_new crc32_update (RX.oc1 (f_id RX.l1)) RX.l1 /\
  failsb crc32_update (RX.oc1 2) = true /\
  fget 1 (r_files RX.st1) = Some RX.t_ax /\
  Refresh.e_block (r_engine RX.st1) = [(1, RX.t_ax); (2, RX.t_b)].
Proof.
  split; [reflexivity|]. split; [reflexivity|]. split; [left; split; [reflexivity | vm_compute; tauto]|].
  split.
  - exists RX.t_ax, false, (fst (parse crc32_update RX.t_ax false)).
    split; [left; reflexivity|]. split; [vm_compute; reflexivity | vm_compute; discriminate].
  - vm_compute. repeat split; reflexivity.
Qed.

(** C15, round 9: what is in force after set_url / add_url when requests for an
    engine rebuild queue up (Model/RefreshQueue.v over C01's channel). *)
From Coq Require Import NArith List Bool Lia.
From AGH Require Import Base.Run Model.RuleListParser Model.Refresh Model.FilterQueue Model.RefreshQueue
  Proofs.RuleListParser Proofs.Refresh Proofs.FilterQueue.
Import ListNotations.
Local Open Scope N_scope.

(** A task taken from the current lists and run on the current files builds
    what a synchronous rebuild builds. *)
Lemma read_enabled_ids fs : forall ls, read_ids (enabled_ids ls) fs = snapshot ls fs.
Proof.
  unfold read_ids, enabled_ids, snapshot. induction ls as [|l ls IH]; cbn [filter map flat_map]; auto.
  destruct (f_enabled l); cbn [map flat_map]; now rewrite IH.
Qed.

Lemma build_take st : build (take_ids st) (r_files st) = rebuild (r_block st) (r_allow st) (r_files st).
Proof. unfold build, take_ids, rebuild. cbn [fst snd]. now rewrite !read_enabled_ids. Qed.

Lemma drain_send_one (c : list idsnap) p : enq_drain_send c p = ([p], false).
Proof. apply enq_drain_send_spec. Qed.

Section Queue.
  Variable crc : N -> bytes -> N.

  (** What a way [enq] of putting tasks into the channel has to achieve: from
      ANY state of the queue (a stale task waiting, the loop busy with another
      one, engines out of date), after any history, once [EnableFilters(true)]
      has been called and the loop has served the queue, the engines are those
      a rebuild from the lists and files of the moment gives, nothing is queued
      and the loop is idle; lists and files are untouched. *)
  Definition follows_last_request (enq : enqueue_policy idsnap) : Prop :=
    forall (s0 : qr) (hs : list qop),
      let s := qrun crc enq s0 hs in
      let s' := quiesce (trigger enq s) in
      r_engine (qr_st s') = rebuild (r_block (qr_st s)) (r_allow (qr_st s)) (r_files (qr_st s)) /\
      r_block (qr_st s') = r_block (qr_st s) /\ r_allow (qr_st s') = r_allow (qr_st s) /\
      r_files (qr_st s') = r_files (qr_st s) /\
      qr_chan s' = [] /\ qr_busy s' = None.

  Lemma trigger_loop s :
    let s' := quiesce (trigger enq_drain_send s) in
    r_engine (qr_st s') = rebuild (r_block (qr_st s)) (r_allow (qr_st s)) (r_files (qr_st s)) /\
    r_block (qr_st s') = r_block (qr_st s) /\ r_allow (qr_st s') = r_allow (qr_st s) /\
    r_files (qr_st s') = r_files (qr_st s) /\
    qr_chan s' = [] /\ qr_busy s' = None.
  Proof.
    unfold trigger, quiesce. rewrite drain_send_one. cbn [fst qr_chan length serve].
    destruct s as [st c b]. cbn [qr_st qr_busy].
    destruct b as [p|]; cbn [install take1 qr_busy qr_chan qr_st with_engine r_files r_block r_allow r_engine];
      rewrite <- build_take; repeat split; reflexivity.
  Qed.

  (** The code: drain, then send. *)
  Theorem drain_send_follows_last_request : follows_last_request enq_drain_send.
  Proof. intros s0 hs. apply trigger_loop. Qed.

  (** Hence the asynchronous set_url / add_url ends where the synchronous one
      of Model/Refresh.v does, whatever was queued or being installed: when
      the call requires a restart and reports no error and the loop has served
      the queue, the whole state (entries, files, engines) is that of
      [set_props], to which the theorems on enabling, disabling and URL
      changes apply. *)
  Lemma set_props_restart_engine allow u name nurl en o st st' :
    set_props crc allow u name nurl en o st = (true, false, st') ->
    r_engine st' = rebuild (r_block st') (r_allow st') (r_files st').
  Proof.
    unfold set_props. destruct (set_in _ _ _ _ _ _ _ _ _) as [[[[rs er] ls'] fs']|]; [|discriminate].
    intros H. injection H as -> -> <-. reflexivity.
  Qed.

  Lemma with_engine_same st : with_engine (r_engine st) st = st.
  Proof. destruct st; reflexivity. Qed.

  Theorem async_set_ends_as_sync allow u name nurl en o (s : qr) st' :
    set_props crc allow u name nurl en o (qr_st s) = (true, false, st') ->
    let '(rs, er, s1) := set_async crc enq_drain_send allow u name nurl en o s in
    rs = true /\ er = false /\
    qr_st (quiesce s1) = st' /\ qr_chan (quiesce s1) = [] /\ qr_busy (quiesce s1) = None.
  Proof.
    intros H. unfold set_async. rewrite H. cbn [negb andb].
    set (s' := mkQR (with_engine (r_engine (qr_st s)) st') (qr_chan s) (qr_busy s)).
    destruct (trigger_loop s') as (E & B & A & F & C & Bu).
    repeat split; auto.
    pose proof (set_props_restart_engine _ _ _ _ _ _ _ _ H) as R.
    destruct (qr_st (quiesce (trigger enq_drain_send s'))) as [bl al fs eng]. cbn [r_engine r_block r_allow r_files] in *.
    subst s'. cbn [qr_st with_engine r_block r_allow r_files] in *. subst.
    destruct st'; cbn in *. now rewrite R.
  Qed.

  (** A call that requires no restart or fails leaves queue and engines alone. *)
  Theorem async_set_quiet allow u name nurl en o (s : qr) rs er st' :
    set_props crc allow u name nurl en o (qr_st s) = (rs, er, st') -> negb er && rs = false ->
    snd (set_async crc enq_drain_send allow u name nurl en o s)
    = mkQR (with_engine (r_engine (qr_st s)) st') (qr_chan s) (qr_busy s).
  Proof. intros H Q. unfold set_async. rewrite H, Q. reflexivity. Qed.

  (** Afterwards a pass in which every source fails changes nothing, the
      engines included. *)
  Theorem failing_pass_after_loop enq b a force due oc (s : qr) :
    (forall l, In l (r_block (qr_st s) ++ r_allow (qr_st s)) -> fails crc (oc (f_id l))) ->
    qstep crc enq s (QRefresh b a force due oc) = s.
  Proof.
    intros H. cbn [qstep]. rewrite refresh_all_failed_noop by exact H. destruct s; reflexivity.
  Qed.
End Queue.

(** * The non-blocking send without a drain is refuted

    [st_off]: block list 1 stored with [good], disabled.  A settings change
    asks for a rebuild (task: no list); set_url enables list 1, its download
    is stored, its request finds the channel full and is dropped; the loop
    runs the older task. *)
Module Queued.
  Import RExamples SetExamples.
  Definition hs : list qop := [QTouch; QSet false 1 [120] 1 true (OBody good false)].
  Definition s_new := qrun crc32_update enq_nonblocking (qidle st_off) hs.
  Definition s_old := qrun crc32_update enq_drain_send (qidle st_off) hs.
  Definition after (enq : enqueue_policy idsnap) (s : qr) : qr := quiesce (trigger enq s).
  Definition failing (_ : N) : outcome := OOpenErr.
End Queued.

Example queued_example :
  (* both: the list is enabled, stored, counted *)
  fget 1 (r_files (qr_st Queued.s_new)) = Some RExamples.good /\
  map f_enabled (r_block (qr_st Queued.s_new)) = [true] /\
  map f_count (r_block (qr_st Queued.s_new)) = [1] /\
  qr_st Queued.s_new = qr_st Queued.s_old /\
  (* the channel: the older task (no list) / the newer one (list 1) *)
  qr_chan Queued.s_new = [([], [11])] /\ qr_chan Queued.s_old = [([1], [11])] /\
  (* after the loop: not in force / in force *)
  lookup 1 (e_block (r_engine (qr_st (quiesce Queued.s_new)))) = None /\
  lookup 1 (e_block (r_engine (qr_st (quiesce Queued.s_old)))) = Some RExamples.good /\
  (* and a further request does not help the variant while the first is queued,
     nor does a failing or an unchanged pass afterwards *)
  lookup 1 (e_block (r_engine (qr_st (Queued.after enq_nonblocking Queued.s_new)))) = None /\
  lookup 1 (e_block (r_engine (qr_st
    (qstep crc32_update enq_nonblocking (quiesce Queued.s_new) (QRefresh true true true RExamples.all Queued.failing))))) = None /\
  lookup 1 (e_block (r_engine (qr_st
    (qstep crc32_update enq_nonblocking (quiesce Queued.s_new)
       (QRefresh true true true RExamples.all (fun _ => OBody RExamples.good false)))))) = None /\
  (* the two agree while the loop keeps up *)
  qrun crc32_update enq_nonblocking (qidle SetExamples.st_off) [QTouch; QLoop; QSet false 1 [120] 1 true (OBody RExamples.good false); QLoop]
  = qrun crc32_update enq_drain_send (qidle SetExamples.st_off) [QTouch; QLoop; QSet false 1 [120] 1 true (OBody RExamples.good false); QLoop].
Proof. vm_compute. repeat split; congruence. Qed.

Theorem nonblocking_send_does_not_follow : ~ follows_last_request crc32_update enq_nonblocking.
Proof.
  intros H. destruct (H (qidle SetExamples.st_off) Queued.hs) as (E & _).
  vm_compute in E. discriminate E.
Qed.

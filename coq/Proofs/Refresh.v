(** Proofs about Model/Refresh.v (C15): a failing refresh is a no-op, equal
    checksums are not written, what is written is a normal form; the metadata
    stay in step with the stored files over every history of refreshes and
    enable / disable calls; disabling takes a list's rules out of force and
    enabling puts them back. *)
From Coq Require Import NArith List Bool Lia.
From AGH Require Import Base.Run Model.RuleListParser Model.Refresh Proofs.RuleListParser.
Import ListNotations.
Local Open Scope N_scope.

Lemma fentry_fset_eq i c fs : fentry i (fset i c fs) = Some (fgen i fs + 1, c).
Proof. unfold fentry, fset. cbn. now rewrite N.eqb_refl. Qed.

Lemma fentry_filter_ne i j fs : i <> j ->
  fentry j (filter (fun e => negb (fst e =? i)) fs) = fentry j fs.
Proof.
  intros N. unfold fentry.
  induction fs as [|[k v] fs IH]; cbn; auto.
  destruct (N.eqb_spec k i) as [->|Nk]; cbn.
  - destruct (N.eqb_spec i j); [contradiction|]. exact IH.
  - destruct (k =? j); auto.
Qed.

Lemma fentry_fset_ne i j c fs : i <> j -> fentry j (fset i c fs) = fentry j fs.
Proof.
  intros N. unfold fset. unfold fentry at 1. cbn [find fst].
  destruct (N.eqb_spec i j) as [|_]; [contradiction|]. now apply fentry_filter_ne.
Qed.

Lemma fentry_fdel_eq i fs : fentry i (fdel i fs) = None.
Proof.
  unfold fentry, fdel. induction fs as [|[k v] fs IH]; cbn; auto.
  destruct (N.eqb_spec k i) as [->|Nk]; cbn; auto.
  destruct (N.eqb_spec k i); [contradiction|]. exact IH.
Qed.

Lemma fentry_fdel_ne i j fs : i <> j -> fentry j (fdel i fs) = fentry j fs.
Proof. apply fentry_filter_ne. Qed.

Lemma fget_fset_eq i c fs : fget i (fset i c fs) = Some c.
Proof. unfold fget. now rewrite fentry_fset_eq. Qed.

Lemma fget_fset_ne i j c fs : i <> j -> fget j (fset i c fs) = fget j fs.
Proof. intros N. unfold fget. now rewrite fentry_fset_ne. Qed.

Lemma fget_fdel_eq i fs : fget i (fdel i fs) = None.
Proof. unfold fget. now rewrite fentry_fdel_eq. Qed.

Lemma fget_fdel_ne i j fs : i <> j -> fget j (fdel i fs) = fget j fs.
Proof. intros N. unfold fget. now rewrite fentry_fdel_ne. Qed.

Lemma fget_of_fentry i fs fs' : fentry i fs' = fentry i fs -> fget i fs' = fget i fs.
Proof. unfold fget. now intros ->. Qed.

Lemma fgen_of_fentry i fs fs' : fentry i fs' = fentry i fs -> fgen i fs' = fgen i fs.
Proof. unfold fgen. now intros ->. Qed.

Section Refresh.
  Variable crc : N -> bytes -> N.
  Notation update_one := (update_one crc).
  Notation update_all := (update_all crc).
  Notation refresh_array := (refresh_array crc).
  Notation refresh := (refresh crc).
  Notation set_entry := (set_entry crc).
  Notation set_in := (set_in crc).
  Notation set_props := (set_props crc).
  Notation filled := (filled).

  (** The enumerated failures: no reader (connection error, bad status,
      unreadable or unsafe file), a reader that ends in an error at any byte
      position, content the parser rejects (HTML, binary, over-long line);
      and a pending file that cannot replace the list's file. *)
  Definition fails (o : outcome) : Prop :=
    match o with
    | OOpenErr => True
    | OBody d re => snd (parse crc d re) <> None
    | ORenameFail _ => True
    end.

  Definition failed_upd (l : flist) : upd := {| u_updated := false; u_err := true; u_list := l |}.

  Lemma update_one_failed l o fs : fails o -> update_one l o fs = (failed_upd l, fs).
  Proof.
    unfold Refresh.update_one, fails. destruct o as [|d re|d]; auto.
    destruct (parse crc d re) as [st [e|]]; cbn; [reflexivity|congruence].
  Qed.

  (** A body cut by a read error fails wherever it is cut. *)
  Lemma cut_body_fails d : fails (OBody d true).
  Proof.
    cbn. destruct (parse crc d true) as [st e] eqn:P. cbn. eapply parse_read_error; eauto.
  Qed.

  (** So does a download whose pending file cannot replace the list's file. *)
  Lemma rename_failure_fails d : fails (ORenameFail d).
  Proof. exact I. Qed.

  (** Same checksum: nothing is written, nothing is reported as updated. *)
  Lemma update_one_same_checksum l d re st fs :
    parse crc d re = (st, None) -> p_sum st = f_sum l ->
    update_one l (OBody d re) fs = ({| u_updated := false; u_err := false; u_list := l |}, fs).
  Proof. intros P E. unfold Refresh.update_one. now rewrite P, E, N.eqb_refl. Qed.

  (** The file is written only on success, and then with a normal form whose
      re-parse gives the recorded count and checksum; otherwise the structure
      [update] worked on is untouched as well. *)
  Lemma update_one_cases l o fs :
    let '(u, fs') := update_one l o fs in
    (u_updated u = false /\ fs' = fs /\ u_list u = l) \/
    (exists d re st, o = OBody d re /\ parse crc d re = (st, None) /\ p_sum st <> f_sum l /\
       u_updated u = true /\ u_err u = false /\ u_list u = filled l st /\
       fs' = fset (f_id l) (output st) fs /\
       exists st', parse crc (output st) false = (st', None) /\ output st' = output st /\
                   p_count st' = p_count st /\ p_sum st' = p_sum st).
  Proof.
    unfold Refresh.update_one. destruct o as [|d re|d]; [now left| |now left].
    destruct (parse crc d re) as [st [e|]] eqn:P; [now left|].
    destruct (N.eqb_spec (p_sum st) (f_sum l)); [now left|].
    right. exists d, re, st. repeat split; auto.
    destruct (parse_fixed_point crc _ _ _ P) as (st' & A & B & C & D & _). eauto.
  Qed.

  Lemma update_one_id l o fs : f_id (u_list (fst (update_one l o fs))) = f_id l.
  Proof.
    pose proof (update_one_cases l o fs) as C. destruct (update_one l o fs) as [u fs']. cbn [fst].
    destruct C as [(_ & _ & ->)|(d & re & st & _ & _ & _ & _ & _ & -> & _)]; reflexivity.
  Qed.

  Lemma update_one_enabled l o fs : f_enabled (u_list (fst (update_one l o fs))) = f_enabled l.
  Proof.
    pose proof (update_one_cases l o fs) as C. destruct (update_one l o fs) as [u fs']. cbn [fst].
    destruct C as [(_ & _ & ->)|(d & re & st & _ & _ & _ & _ & _ & -> & _)]; reflexivity.
  Qed.

  (** The flags and the working copy do not depend on the files. *)
  Lemma update_one_fst l o fs fs2 : fst (update_one l o fs) = fst (update_one l o fs2).
  Proof.
    unfold Refresh.update_one. destruct o as [|d re|d]; auto.
    destruct (parse crc d re) as [st [e|]]; auto. destruct (p_sum st =? f_sum l); auto.
  Qed.

  (** [update] on list [l] touches no file but [l]'s. *)
  Lemma update_one_other l o fs j : f_id l <> j -> fentry j (snd (update_one l o fs)) = fentry j fs.
  Proof.
    intros N. pose proof (update_one_cases l o fs) as C. destruct (update_one l o fs) as [u fs']. cbn [snd].
    destruct C as [(_ & -> & _)|(d & re & st & _ & _ & _ & _ & _ & _ & -> & _)]; auto.
    now apply fentry_fset_ne.
  Qed.

  Lemma update_one_fentry l o fs i :
    (f_id l = i -> fails o) ->
    fentry i (snd (update_one l o fs)) = fentry i fs /\
    (f_id (u_list (fst (update_one l o fs))) = i -> u_updated (fst (update_one l o fs)) = false).
  Proof.
    intros H. destruct (N.eq_dec (f_id l) i) as [E|E].
    - rewrite (update_one_failed l o fs (H E)). auto.
    - split; [now apply update_one_other|rewrite update_one_id; congruence].
  Qed.

  Lemma update_all_fentry i oc : fails (oc i) -> forall ls fs,
    fentry i (snd (update_all ls oc fs)) = fentry i fs /\
    Forall (fun u => f_id (u_list u) = i -> u_updated u = false) (fst (update_all ls oc fs)).
  Proof.
    intros Hf. induction ls as [|l ls IH]; intros fs; cbn [Refresh.update_all]; [split; [reflexivity|constructor]|].
    pose proof (update_one_fentry l (oc (f_id l)) fs i) as H1.
    destruct (update_one l (oc (f_id l)) fs) as [u fs1]. cbn [fst snd] in H1.
    specialize (IH fs1). destruct (update_all ls oc fs1) as [us fs2]. cbn [fst snd] in *.
    destruct H1 as [A B]; [intros <-; exact Hf|]. destruct IH as [C D].
    split; [congruence|]. constructor; auto.
  Qed.

  Lemma update_all_all_failed oc : forall ls fs,
    (forall l, In l ls -> fails (oc (f_id l))) ->
    update_all ls oc fs = (map failed_upd ls, fs).
  Proof.
    induction ls as [|l ls IH]; intros fs H; cbn [Refresh.update_all map]; auto.
    rewrite update_one_failed by (apply H; now left). rewrite IH; auto.
    intros; apply H; now right.
  Qed.

  (** ** The copy-back loop *)

  Lemma copy_back_id u f : f_id (copy_back u f) = f_id f.
  Proof. unfold copy_back. destruct (_ && _); reflexivity. Qed.

  Lemma copy_back_enabled u f : f_enabled (copy_back u f) = f_enabled f.
  Proof. unfold copy_back. destruct (_ && _); reflexivity. Qed.

  Lemma copy_back_all_length us : forall ls, length (snd (copy_back_all us ls)) = length ls.
  Proof.
    induction us as [|u us IH]; intros ls; cbn [copy_back_all snd]; auto.
    specialize (IH (map (copy_back u) ls)). destruct (copy_back_all us (map (copy_back u) ls)) as [n ls'].
    cbn [snd] in *. now rewrite IH, map_length.
  Qed.

  Lemma copy_back_all_unchanged i us :
    Forall (fun u => f_id (u_list u) = i -> u_updated u = false) us ->
    forall ls k l, nth_error ls k = Some l -> f_id l = i ->
                   nth_error (snd (copy_back_all us ls)) k = Some l.
  Proof.
    induction 1 as [|u us Hu _ IH]; intros ls k l Hk Hi; cbn [copy_back_all snd]; auto.
    specialize (IH (map (copy_back u) ls) k l).
    destruct (copy_back_all us (map (copy_back u) ls)) as [n ls']. cbn [snd] in *.
    apply IH; auto. rewrite nth_error_map, Hk. cbn. f_equal.
    unfold copy_back. destruct (N.eqb_spec (f_id (u_list u)) (f_id l)) as [E|E]; cbn; auto.
    rewrite Hu by congruence. reflexivity.
  Qed.

  Lemma existsb_copy_back_all (P : flist -> bool) us :
    (forall u f, P (copy_back u f) = P f) ->
    forall ls, existsb P (snd (copy_back_all us ls)) = existsb P ls.
  Proof.
    intros HP. induction us as [|u us IH]; intros ls; cbn [copy_back_all snd]; auto.
    specialize (IH (map (copy_back u) ls)). destruct (copy_back_all us (map (copy_back u) ls)) as [n ls'].
    cbn [snd] in *. rewrite IH. clear IH. induction ls as [|f ls IH]; cbn; auto. now rewrite HP, IH.
  Qed.

  (** ** One list fails: its file and its metadata stay *)

  Lemma refresh_array_failed_list i ls force due oc fs :
    fails (oc i) ->
    let '(_, _, ls', fs') := refresh_array ls force due oc fs in
    fentry i fs' = fentry i fs /\
    length ls' = length ls /\
    forall k l, nth_error ls k = Some l -> f_id l = i -> nth_error ls' k = Some l.
  Proof.
    intros Hf. unfold Refresh.refresh_array.
    set (to_upd := map wcopy (filter _ ls)). destruct to_upd as [|t0 tu] eqn:Et; [auto|].
    rewrite <- Et. clear Et.
    destruct (update_all_fentry i oc Hf to_upd fs) as [A B].
    destruct (update_all to_upd oc fs) as [us fs']. cbn [fst snd] in *.
    destruct (forallb u_err us); [auto|].
    pose proof (copy_back_all_length us ls) as L.
    pose proof (copy_back_all_unchanged i us B ls) as U.
    destruct (copy_back_all us ls) as [n ls']. cbn [snd] in *. auto.
  Qed.

  Theorem refresh_failed_list_noop i b a force due oc st :
    fails (oc i) ->
    let st' := refresh b a force due oc st in
    fentry i (r_files st') = fentry i (r_files st) /\
    (forall k l, nth_error (r_block st) k = Some l -> f_id l = i -> nth_error (r_block st') k = Some l) /\
    (forall k l, nth_error (r_allow st) k = Some l -> f_id l = i -> nth_error (r_allow st') k = Some l).
  Proof.
    intros Hf. unfold Refresh.refresh.
    pose proof (refresh_array_failed_list i (r_block st) force due oc (r_files st) Hf) as H1.
    destruct b.
    - destruct (refresh_array (r_block st) force due oc (r_files st)) as [[[n1 e1] bl] fs1].
      destruct H1 as (A1 & _ & B1).
      pose proof (refresh_array_failed_list i (r_allow st) force due oc fs1 Hf) as H2.
      destruct a.
      + destruct (refresh_array (r_allow st) force due oc fs1) as [[[n2 e2] al] fs2].
        destruct H2 as (A2 & _ & B2). cbn. repeat split; auto. congruence.
      + cbn. repeat split; auto.
    - pose proof (refresh_array_failed_list i (r_allow st) force due oc (r_files st) Hf) as H2.
      destruct a.
      + destruct (refresh_array (r_allow st) force due oc (r_files st)) as [[[n2 e2] al] fs2].
        destruct H2 as (A2 & _ & B2). cbn. repeat split; auto.
      + cbn. repeat split; auto.
  Qed.

  (** ** ... and the text in force for it stays, if the engine was in step
      with the files *)

  Definition lookup (i : N) (snap : list (N * bytes)) : option bytes :=
    match find (fun e => fst e =? i) snap with Some e => Some (snd e) | None => None end.

  Definition in_force (e : engine) (i : N) : option bytes * option bytes :=
    (lookup i (e_block e), lookup i (e_allow e)).

  Definition engine_consistent (st : rstate) : Prop :=
    r_engine st = rebuild (r_block st) (r_allow st) (r_files st).

  Lemma lookup_snapshot i fs : forall ls,
    lookup i (snapshot ls fs)
    = if existsb (fun l => (f_id l =? i) && f_enabled l) ls then fget i fs else None.
  Proof.
    unfold lookup. induction ls as [|l ls IH]; cbn [snapshot flat_map existsb]; auto.
    fold (snapshot ls fs).
    destruct (f_enabled l); [|rewrite andb_false_r; cbn [app orb]; exact IH].
    rewrite andb_true_r.
    destruct (fget (f_id l) fs) as [c|] eqn:G; cbn [app find fst snd].
    - destruct (N.eqb_spec (f_id l) i) as [E|E]; cbn [orb]; [now rewrite <- E, G|exact IH].
    - destruct (N.eqb_spec (f_id l) i) as [E|E]; cbn [orb]; [|exact IH].
      rewrite IH, <- E, G. destruct (existsb (fun l0 => (f_id l0 =? f_id l) && f_enabled l0) ls); reflexivity.
  Qed.

  Lemma refresh_array_enabled i ls force due oc fs :
    let '(_, _, ls', _) := refresh_array ls force due oc fs in
    existsb (fun l => (f_id l =? i) && f_enabled l) ls'
    = existsb (fun l => (f_id l =? i) && f_enabled l) ls.
  Proof.
    unfold Refresh.refresh_array. destruct (map wcopy (filter _ ls)) as [|t0 tu]; auto.
    destruct (update_all (t0 :: tu) oc fs) as [us fs']. destruct (forallb u_err us); auto.
    pose proof (existsb_copy_back_all (fun l => (f_id l =? i) && f_enabled l) us) as E.
    destruct (copy_back_all us ls) as [n ls'] eqn:C.
    specialize (E (fun u f => eq_trans (f_equal2 andb (f_equal (fun x => x =? i) (copy_back_id u f)) (copy_back_enabled u f)) eq_refl) ls).
    now rewrite C in E.
  Qed.

  Theorem refresh_failed_list_in_force i b a force due oc st :
    engine_consistent st -> fails (oc i) ->
    in_force (r_engine (refresh b a force due oc st)) i = in_force (r_engine st) i.
  Proof.
    intros Hc Hf. unfold Refresh.refresh.
    assert (H1 : let '(_, _, bl, fs1) :=
                   (if b then refresh_array (r_block st) force due oc (r_files st)
                    else (0, false, r_block st, r_files st)) in
                 fget i fs1 = fget i (r_files st) /\
                 existsb (fun l => (f_id l =? i) && f_enabled l) bl
                 = existsb (fun l => (f_id l =? i) && f_enabled l) (r_block st)).
    { destruct b; [|auto].
      pose proof (refresh_array_failed_list i (r_block st) force due oc (r_files st) Hf) as A.
      pose proof (refresh_array_enabled i (r_block st) force due oc (r_files st)) as B.
      destruct (refresh_array (r_block st) force due oc (r_files st)) as [[[? ?] ?] ?].
      split; [apply fget_of_fentry|]; tauto. }
    destruct (if b then _ else _) as [[[n1 e1] bl] fs1]. destruct H1 as [F1 X1].
    assert (H2 : let '(_, _, al, fs2) :=
                   (if a then refresh_array (r_allow st) force due oc fs1
                    else (0, false, r_allow st, fs1)) in
                 fget i fs2 = fget i fs1 /\
                 existsb (fun l => (f_id l =? i) && f_enabled l) al
                 = existsb (fun l => (f_id l =? i) && f_enabled l) (r_allow st)).
    { destruct a; [|auto].
      pose proof (refresh_array_failed_list i (r_allow st) force due oc fs1 Hf) as A.
      pose proof (refresh_array_enabled i (r_allow st) force due oc fs1) as B.
      destruct (refresh_array (r_allow st) force due oc fs1) as [[[? ?] ?] ?].
      split; [apply fget_of_fentry|]; tauto. }
    destruct (if a then _ else _) as [[[n2 e2] al] fs2]. destruct H2 as [F2 X2].
    cbn [r_engine]. destruct (e1 || e2); auto. destruct (n1 + n2 =? 0); auto.
    rewrite Hc. unfold in_force, rebuild. cbn [e_block e_allow].
    rewrite !lookup_snapshot, X1, X2, F2, F1. reflexivity.
  Qed.

  (** ** Every attempted list fails: nothing at all changes *)

  Lemma forallb_err_failed ls : forallb u_err (map failed_upd ls) = true.
  Proof. induction ls; cbn; auto. Qed.

  Lemma refresh_array_all_failed ls force due oc fs :
    (forall l, In l ls -> fails (oc (f_id l))) ->
    exists e, refresh_array ls force due oc fs = (0, e, ls, fs).
  Proof.
    intros H. unfold Refresh.refresh_array.
    set (to_upd := map wcopy (filter _ ls)).
    assert (Hs : forall l, In l to_upd -> fails (oc (f_id l))).
    { intros l Hl. apply in_map_iff in Hl. destruct Hl as (l0 & <- & Hl). apply filter_In in Hl.
      cbn. apply H. tauto. }
    destruct to_upd as [|t0 tu] eqn:Et; [eauto|]. rewrite <- Et in *. clear Et.
    rewrite update_all_all_failed by auto. rewrite forallb_err_failed. eauto.
  Qed.

  Theorem refresh_all_failed_noop b a force due oc st :
    (forall l, In l (r_block st ++ r_allow st) -> fails (oc (f_id l))) ->
    refresh b a force due oc st = st.
  Proof.
    intros H. unfold Refresh.refresh.
    destruct (refresh_array_all_failed (r_block st) force due oc (r_files st)) as [e1 E1].
    { intros; apply H, in_app_iff; now left. }
    destruct (refresh_array_all_failed (r_allow st) force due oc (r_files st)) as [e2 E2].
    { intros; apply H, in_app_iff; now right. }
    destruct st as [bl al fs eng]. cbn [r_block r_allow r_files r_engine] in *.
    destruct b, a; rewrite ?E1, ?E2; cbn [N.add N.eqb orb]; destruct e1, e2; reflexivity.
  Qed.

  (** Any sequence of refreshes in which every source fails. *)
  Record rop := { o_block : bool; o_allow : bool; o_force : bool; o_due : N -> bool; o_oc : N -> outcome }.

  Definition run_ops (ops : list rop) (st : rstate) : rstate :=
    fold_left (fun st o => refresh (o_block o) (o_allow o) (o_force o) (o_due o) (o_oc o) st) ops st.

  Theorem failed_refreshes_noop ops st :
    Forall (fun o => forall l, In l (r_block st ++ r_allow st) -> fails (o_oc o (f_id l))) ops ->
    run_ops ops st = st.
  Proof.
    unfold run_ops. induction 1 as [|o ops Ho _ IH]; cbn [fold_left]; auto.
    rewrite refresh_all_failed_noop; auto.
  Qed.
End Refresh.

(** * Non-vacuity *)
Module RExamples.
  Definition good : bytes := [124;124;112;49;94;10].     (* ||p1^ *)
  Definition good2 : bytes := [124;124;112;50;94;10].    (* ||p2^ *)
  Definition html : bytes := [60;104;116;109;108;62;10]. (* <html> *)
  Definition mk (i : N) : flist := {| f_id := i; f_enabled := true; f_name := []; f_count := 0; f_sum := 0 |}.
  Definition st0 : rstate :=
    {| r_block := [mk 1]; r_allow := [mk 11]; r_files := []; r_engine := {| e_block := []; e_allow := [] |} |}.
  Definition all (_ : N) := true.
  Definition st1 := refresh crc32_update true true true all (fun _ => OBody good false) st0.
End RExamples.

Example refresh_example :
  fget 1 (r_files RExamples.st1) = Some RExamples.good /\
  map f_count (r_block RExamples.st1) = [1] /\
  map f_name (r_block RExamples.st1) = [[76; 105; 115; 116; 32; 49]] /\
  verdict (r_engine RExamples.st1) [112;49] = 2 /\
  fails crc32_update (OBody RExamples.html false) /\
  fails crc32_update (OBody (firstn 3 RExamples.good) true) /\
  refresh crc32_update true true true RExamples.all
    (fun i => if i =? 1 then OBody RExamples.html false else OOpenErr) RExamples.st1 = RExamples.st1.
Proof. vm_compute. repeat split; congruence. Qed.

(** A failing replacement of the pending file beside a list that is updated:
    the first list keeps file, rule count, checksum and name. *)
Module RenameFail.
  Import RExamples.
  Definition st_a : rstate :=
    {| r_block := [mk 1; mk 2]; r_allow := []; r_files := []; r_engine := {| e_block := []; e_allow := [] |} |}.
  Definition st_b := refresh crc32_update true true true all (fun _ => OBody good false) st_a.
  Definition st_c := refresh crc32_update true true true all
                       (fun i => if i =? 1 then ORenameFail good2 else OBody good2 false) st_b.
End RenameFail.

Example rename_failure_example :
  fentry 1 (r_files RenameFail.st_b) = Some (1, RExamples.good) /\
  map f_count (r_block RenameFail.st_b) = [1; 1] /\
  fentry 1 (r_files RenameFail.st_c) = fentry 1 (r_files RenameFail.st_b) /\
  nth_error (r_block RenameFail.st_c) 0 = nth_error (r_block RenameFail.st_b) 0 /\
  fentry 2 (r_files RenameFail.st_c) = Some (2, RExamples.good2) /\
  verdict (r_engine RenameFail.st_c) [112;49] = 1 /\ verdict (r_engine RenameFail.st_c) [112;50] = 1.
Proof. vm_compute. repeat split; congruence. Qed.

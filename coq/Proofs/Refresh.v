(** Proofs about Model/Refresh.v (C15): a failing refresh is a no-op, equal
    checksums are not written, what is written is a normal form; the metadata
    stay in step with the stored files over every history of refreshes and
    enable / disable calls; disabling takes a list's rules out of force and
    enabling puts them back. *)
From Coq Require Import NArith List Bool Lia.
From AGH Require Import Base.Run Model.RuleListParser Model.Refresh Proofs.RuleListParser Proofs.RuleListWrite.
Import ListNotations.
Local Open Scope N_scope.

Lemma fentry_fset_eq i c fs : fentry i (fset i c fs) = Some (fgen i fs + 1, c).
Proof. unfold fentry, fset. cbn. now rewrite N.eqb_refl. Qed.

Lemma fentry_filter_ne i j fs : i <> j ->
  fentry j (filter (fun e => negb (fst e =? i)) fs) = fentry j fs.
Proof.
  intros N. unfold fentry.
  induction fs as [|[k v] fs IH]; cbn; auto.
  destruct (N.eqb_spec k i) as [->|Nk]; cbn.
  - destruct (N.eqb_spec i j); [contradiction|]. exact IH.
  - destruct (k =? j); auto.
Qed.

Lemma fentry_fset_ne i j c fs : i <> j -> fentry j (fset i c fs) = fentry j fs.
Proof.
  intros N. unfold fset. unfold fentry at 1. cbn [find fst].
  destruct (N.eqb_spec i j) as [|_]; [contradiction|]. now apply fentry_filter_ne.
Qed.

Lemma fentry_fdel_eq i fs : fentry i (fdel i fs) = None.
Proof.
  unfold fentry, fdel. induction fs as [|[k v] fs IH]; cbn; auto.
  destruct (N.eqb_spec k i) as [->|Nk]; cbn; auto.
  destruct (N.eqb_spec k i); [contradiction|]. exact IH.
Qed.

Lemma fentry_fdel_ne i j fs : i <> j -> fentry j (fdel i fs) = fentry j fs.
Proof. apply fentry_filter_ne. Qed.

Lemma fget_fset_eq i c fs : fget i (fset i c fs) = Some c.
Proof. unfold fget. now rewrite fentry_fset_eq. Qed.

Lemma fget_fset_ne i j c fs : i <> j -> fget j (fset i c fs) = fget j fs.
Proof. intros N. unfold fget. now rewrite fentry_fset_ne. Qed.

Lemma fget_fdel_eq i fs : fget i (fdel i fs) = None.
Proof. unfold fget. now rewrite fentry_fdel_eq. Qed.

Lemma fget_fdel_ne i j fs : i <> j -> fget j (fdel i fs) = fget j fs.
Proof. intros N. unfold fget. now rewrite fentry_fdel_ne. Qed.

Lemma fget_of_fentry i fs fs' : fentry i fs' = fentry i fs -> fget i fs' = fget i fs.
Proof. unfold fget. now intros ->. Qed.

Lemma fgen_of_fentry i fs fs' : fentry i fs' = fentry i fs -> fgen i fs' = fgen i fs.
Proof. unfold fgen. now intros ->. Qed.

Section Refresh.
  Variable crc : N -> bytes -> N.
  Notation update_one := (update_one crc).
  Notation update_all := (update_all crc).
  Notation refresh_array := (refresh_array crc).
  Notation refresh := (refresh crc).
  Notation set_entry := (set_entry crc).
  Notation set_in := (set_in crc).
  Notation set_props := (set_props crc).
  Notation filled := (filled).

  (** The enumerated failures: no reader (connection error, bad status,
      unreadable or unsafe file), a reader that ends in an error at any byte
      position, content the parser rejects (HTML, binary, over-long line);
      a pending file that cannot replace the list's file; and a pending file
      that does not take what the parser writes into it. *)
  Definition fails (o : outcome) : Prop :=
    match o with
    | OOpenErr => True
    | OBody d re => snd (parse crc d re) <> None
    | ORenameFail _ => True
    | OWriteFail d re cap => snd (fst (parse_w crc cap d re)) <> None
    end.

  Definition failed_upd (l : flist) : upd := {| u_updated := false; u_err := true; u_list := l |}.

  Lemma update_one_failed l o fs : fails o -> update_one l o fs = (failed_upd l, fs).
  Proof.
    unfold Refresh.update_one, fails. destruct o as [|d re|d|d re cap]; auto.
    - destruct (parse crc d re) as [st [e|]]; cbn; [reflexivity|congruence].
    - destruct (parse_w crc cap d re) as [[st [e|]] part]; cbn; [reflexivity|congruence].
  Qed.

  (** A pending file with a limit: if what the parser writes fits, the
      download is that of the same body without a limit; if not, it is a
      failure. *)
  Lemma update_one_write l d re cap fs :
    update_one l (OWriteFail d re cap) fs =
    if p_written (fst (parse crc d re)) <=? cap then update_one l (OBody d re) fs else (failed_upd l, fs).
  Proof.
    unfold Refresh.update_one.
    destruct (parse_w_cases crc cap d re) as [(G & st & part & E & _)|(L & E)]; rewrite E.
    - destruct (N.leb_spec (p_written (fst (parse crc d re))) cap); [lia|reflexivity].
    - destruct (N.leb_spec (p_written (fst (parse crc d re))) cap); [|lia].
      destruct (parse crc d re) as [st [e|]]; reflexivity.
  Qed.

  (** The write fails wherever the limit lies before the end of what would be
      written: before the first byte, inside a line, at a line boundary, one
      byte before the end. *)
  Lemma write_failure_fails d re cap :
    cap < p_written (fst (parse crc d re)) -> fails (OWriteFail d re cap).
  Proof.
    intros H. cbn. destruct (parse_w_overflow crc cap d re H) as (st & part & -> & _). cbn. discriminate.
  Qed.

  Lemma write_failure_any_position d re cap st :
    parse crc d re = (st, None) -> cap < lenN (output st) -> fails (OWriteFail d re cap).
  Proof.
    intros P H. cbn. destruct (parse_w_any_position crc cap d re st P H) as (st' & part & -> & _). cbn. discriminate.
  Qed.

  (** A limit does not repair a body that fails anyway. *)
  Lemma write_limit_keeps_failure d re cap : fails (OBody d re) -> fails (OWriteFail d re cap).
  Proof.
    cbn. intros F. destruct (parse_w crc cap d re) as [[st [e|]] part] eqn:E; cbn; [discriminate|].
    apply parse_w_ok in E. destruct E as (E & _). now rewrite E in F.
  Qed.

  (** The body and the end of the reader an outcome with a reader hands to
      the parser, every write to the pending file succeeding. *)
  Definition delivers (o : outcome) (d : bytes) (re : bool) : Prop :=
    o = OBody d re \/ exists cap, o = OWriteFail d re cap /\ p_written (fst (parse crc d re)) <= cap.

  (** A body cut by a read error fails wherever it is cut. *)
  Lemma cut_body_fails d : fails (OBody d true).
  Proof.
    cbn. destruct (parse crc d true) as [st e] eqn:P. cbn. eapply parse_read_error; eauto.
  Qed.

  (** So does a download whose pending file cannot replace the list's file. *)
  Lemma rename_failure_fails d : fails (ORenameFail d).
  Proof. exact I. Qed.

  (** Same checksum: nothing is written, nothing is reported as updated. *)
  Lemma update_one_same_checksum l d re st fs :
    parse crc d re = (st, None) -> p_sum st = f_sum l ->
    update_one l (OBody d re) fs = ({| u_updated := false; u_err := false; u_list := l |}, fs).
  Proof. intros P E. unfold Refresh.update_one. now rewrite P, E, N.eqb_refl. Qed.

  Lemma update_one_delivers l o d re fs : delivers o d re -> update_one l o fs = update_one l (OBody d re) fs.
  Proof.
    intros [->|(cap & -> & L)]; [reflexivity|]. rewrite update_one_write.
    now rewrite (proj2 (N.leb_le _ _) L).
  Qed.

  (** The file is written only on success, and then with a normal form whose
      re-parse gives the recorded count and checksum; otherwise the structure
      [update] worked on is untouched as well. *)
  Lemma update_one_cases l o fs :
    let '(u, fs') := update_one l o fs in
    (u_updated u = false /\ fs' = fs /\ u_list u = l) \/
    (exists d re st, delivers o d re /\ parse crc d re = (st, None) /\ p_sum st <> f_sum l /\
       u_updated u = true /\ u_err u = false /\ u_list u = filled l st /\
       fs' = fset (f_id l) (output st) fs /\
       exists st', parse crc (output st) false = (st', None) /\ output st' = output st /\
                   p_count st' = p_count st /\ p_sum st' = p_sum st).
  Proof.
    assert (B : forall d re, delivers o d re ->
      let '(u, fs') := update_one l (OBody d re) fs in
      (u_updated u = false /\ fs' = fs /\ u_list u = l) \/
      (exists d re st, delivers o d re /\ parse crc d re = (st, None) /\ p_sum st <> f_sum l /\
         u_updated u = true /\ u_err u = false /\ u_list u = filled l st /\
         fs' = fset (f_id l) (output st) fs /\
         exists st', parse crc (output st) false = (st', None) /\ output st' = output st /\
                     p_count st' = p_count st /\ p_sum st' = p_sum st)).
    { intros d re D. unfold Refresh.update_one.
      destruct (parse crc d re) as [st [e|]] eqn:P; [now left|].
      destruct (N.eqb_spec (p_sum st) (f_sum l)); [now left|].
      right. exists d, re, st. repeat split; auto.
      destruct (parse_fixed_point crc _ _ _ P) as (st' & A & B & C & D' & _). eauto. }
    destruct o as [|d re|d|d re cap]; [now left| |now left|].
    - apply B. now left.
    - rewrite update_one_write. destruct (N.leb_spec (p_written (fst (parse crc d re))) cap) as [L|G]; [|now left].
      apply B. right. eauto.
  Qed.

  Lemma update_one_id l o fs : f_id (u_list (fst (update_one l o fs))) = f_id l.
  Proof.
    pose proof (update_one_cases l o fs) as C. destruct (update_one l o fs) as [u fs']. cbn [fst].
    destruct C as [(_ & _ & ->)|(d & re & st & _ & _ & _ & _ & _ & -> & _)]; reflexivity.
  Qed.

  Lemma update_one_enabled l o fs : f_enabled (u_list (fst (update_one l o fs))) = f_enabled l.
  Proof.
    pose proof (update_one_cases l o fs) as C. destruct (update_one l o fs) as [u fs']. cbn [fst].
    destruct C as [(_ & _ & ->)|(d & re & st & _ & _ & _ & _ & _ & -> & _)]; reflexivity.
  Qed.

  (** The flags and the working copy do not depend on the files. *)
  Lemma update_one_fst l o fs fs2 : fst (update_one l o fs) = fst (update_one l o fs2).
  Proof.
    unfold Refresh.update_one. destruct o as [|d re|d|d re cap]; auto.
    - destruct (parse crc d re) as [st [e|]]; auto. destruct (p_sum st =? f_sum l); auto.
    - destruct (parse_w crc cap d re) as [[st [e|]] part]; auto. destruct (p_sum st =? f_sum l); auto.
  Qed.

  (** [update] on list [l] touches no file but [l]'s. *)
  Lemma update_one_other l o fs j : f_id l <> j -> fentry j (snd (update_one l o fs)) = fentry j fs.
  Proof.
    intros N. pose proof (update_one_cases l o fs) as C. destruct (update_one l o fs) as [u fs']. cbn [snd].
    destruct C as [(_ & -> & _)|(d & re & st & _ & _ & _ & _ & _ & _ & -> & _)]; auto.
    now apply fentry_fset_ne.
  Qed.

  Lemma update_one_fentry l o fs i :
    (f_id l = i -> fails o) ->
    fentry i (snd (update_one l o fs)) = fentry i fs /\
    (f_id (u_list (fst (update_one l o fs))) = i -> u_updated (fst (update_one l o fs)) = false).
  Proof.
    intros H. destruct (N.eq_dec (f_id l) i) as [E|E].
    - rewrite (update_one_failed l o fs (H E)). auto.
    - split; [now apply update_one_other|rewrite update_one_id; congruence].
  Qed.

  Lemma update_all_fentry i oc : fails (oc i) -> forall ls fs,
    fentry i (snd (update_all ls oc fs)) = fentry i fs /\
    Forall (fun u => f_id (u_list u) = i -> u_updated u = false) (fst (update_all ls oc fs)).
  Proof.
    intros Hf. induction ls as [|l ls IH]; intros fs; cbn [Refresh.update_all]; [split; [reflexivity|constructor]|].
    pose proof (update_one_fentry l (oc (f_id l)) fs i) as H1.
    destruct (update_one l (oc (f_id l)) fs) as [u fs1]. cbn [fst snd] in H1.
    specialize (IH fs1). destruct (update_all ls oc fs1) as [us fs2]. cbn [fst snd] in *.
    destruct H1 as [A B]; [intros <-; exact Hf|]. destruct IH as [C D].
    split; [congruence|]. constructor; auto.
  Qed.

  Lemma update_all_all_failed oc : forall ls fs,
    (forall l, In l ls -> fails (oc (f_id l))) ->
    update_all ls oc fs = (map failed_upd ls, fs).
  Proof.
    induction ls as [|l ls IH]; intros fs H; cbn [Refresh.update_all map]; auto.
    rewrite update_one_failed by (apply H; now left). rewrite IH; auto.
    intros; apply H; now right.
  Qed.

  (** ** The copy-back loop *)

  Lemma copy_back_id u f : f_id (copy_back u f) = f_id f.
  Proof. unfold copy_back. destruct (_ && _); reflexivity. Qed.

  Lemma copy_back_enabled u f : f_enabled (copy_back u f) = f_enabled f.
  Proof. unfold copy_back. destruct (_ && _); reflexivity. Qed.

  Lemma copy_back_all_length us : forall ls, length (snd (copy_back_all us ls)) = length ls.
  Proof.
    induction us as [|u us IH]; intros ls; cbn [copy_back_all snd]; auto.
    specialize (IH (map (copy_back u) ls)). destruct (copy_back_all us (map (copy_back u) ls)) as [n ls'].
    cbn [snd] in *. now rewrite IH, map_length.
  Qed.

  Lemma copy_back_all_unchanged i us :
    Forall (fun u => f_id (u_list u) = i -> u_updated u = false) us ->
    forall ls k l, nth_error ls k = Some l -> f_id l = i ->
                   nth_error (snd (copy_back_all us ls)) k = Some l.
  Proof.
    induction 1 as [|u us Hu _ IH]; intros ls k l Hk Hi; cbn [copy_back_all snd]; auto.
    specialize (IH (map (copy_back u) ls) k l).
    destruct (copy_back_all us (map (copy_back u) ls)) as [n ls']. cbn [snd] in *.
    apply IH; auto. rewrite nth_error_map, Hk. cbn. f_equal.
    unfold copy_back. destruct (N.eqb_spec (f_id (u_list u)) (f_id l)) as [E|E]; cbn; auto.
    rewrite Hu by congruence. reflexivity.
  Qed.

  Lemma existsb_copy_back_all (P : flist -> bool) us :
    (forall u f, P (copy_back u f) = P f) ->
    forall ls, existsb P (snd (copy_back_all us ls)) = existsb P ls.
  Proof.
    intros HP. induction us as [|u us IH]; intros ls; cbn [copy_back_all snd]; auto.
    specialize (IH (map (copy_back u) ls)). destruct (copy_back_all us (map (copy_back u) ls)) as [n ls'].
    cbn [snd] in *. rewrite IH. clear IH. induction ls as [|f ls IH]; cbn; auto. now rewrite HP, IH.
  Qed.

  (** ** One list fails: its file and its metadata stay *)

  Lemma refresh_array_failed_list i ls force due oc fs :
    fails (oc i) ->
    let '(_, _, ls', fs') := refresh_array ls force due oc fs in
    fentry i fs' = fentry i fs /\
    length ls' = length ls /\
    forall k l, nth_error ls k = Some l -> f_id l = i -> nth_error ls' k = Some l.
  Proof.
    intros Hf. unfold Refresh.refresh_array.
    set (to_upd := map wcopy (filter _ ls)). destruct to_upd as [|t0 tu] eqn:Et; [auto|].
    rewrite <- Et. clear Et.
    destruct (update_all_fentry i oc Hf to_upd fs) as [A B].
    destruct (update_all to_upd oc fs) as [us fs']. cbn [fst snd] in *.
    destruct (forallb u_err us); [auto|].
    pose proof (copy_back_all_length us ls) as L.
    pose proof (copy_back_all_unchanged i us B ls) as U.
    destruct (copy_back_all us ls) as [n ls']. cbn [snd] in *. auto.
  Qed.

  Theorem refresh_failed_list_noop i b a force due oc st :
    fails (oc i) ->
    let st' := refresh b a force due oc st in
    fentry i (r_files st') = fentry i (r_files st) /\
    (forall k l, nth_error (r_block st) k = Some l -> f_id l = i -> nth_error (r_block st') k = Some l) /\
    (forall k l, nth_error (r_allow st) k = Some l -> f_id l = i -> nth_error (r_allow st') k = Some l).
  Proof.
    intros Hf. unfold Refresh.refresh.
    pose proof (refresh_array_failed_list i (r_block st) force due oc (r_files st) Hf) as H1.
    destruct b.
    - destruct (refresh_array (r_block st) force due oc (r_files st)) as [[[n1 e1] bl] fs1].
      destruct H1 as (A1 & _ & B1).
      pose proof (refresh_array_failed_list i (r_allow st) force due oc fs1 Hf) as H2.
      destruct a.
      + destruct (refresh_array (r_allow st) force due oc fs1) as [[[n2 e2] al] fs2].
        destruct H2 as (A2 & _ & B2). cbn. repeat split; auto. congruence.
      + cbn. repeat split; auto.
    - pose proof (refresh_array_failed_list i (r_allow st) force due oc (r_files st) Hf) as H2.
      destruct a.
      + destruct (refresh_array (r_allow st) force due oc (r_files st)) as [[[n2 e2] al] fs2].
        destruct H2 as (A2 & _ & B2). cbn. repeat split; auto.
      + cbn. repeat split; auto.
  Qed.

  (** ** ... and the text in force for it stays, if the engine was in step
      with the files *)

  Definition lookup (i : N) (snap : list (N * bytes)) : option bytes :=
    match find (fun e => fst e =? i) snap with Some e => Some (snd e) | None => None end.

  Definition in_force (e : engine) (i : N) : option bytes * option bytes :=
    (lookup i (e_block e), lookup i (e_allow e)).

  Definition engine_consistent (st : rstate) : Prop :=
    r_engine st = rebuild (r_block st) (r_allow st) (r_files st).

  Lemma lookup_snapshot i fs : forall ls,
    lookup i (snapshot ls fs)
    = if existsb (fun l => (f_id l =? i) && f_enabled l) ls then fget i fs else None.
  Proof.
    unfold lookup. induction ls as [|l ls IH]; cbn [snapshot flat_map existsb]; auto.
    fold (snapshot ls fs).
    destruct (f_enabled l); [|rewrite andb_false_r; cbn [app orb]; exact IH].
    rewrite andb_true_r.
    destruct (fget (f_id l) fs) as [c|] eqn:G; cbn [app find fst snd].
    - destruct (N.eqb_spec (f_id l) i) as [E|E]; cbn [orb]; [now rewrite <- E, G|exact IH].
    - destruct (N.eqb_spec (f_id l) i) as [E|E]; cbn [orb]; [|exact IH].
      rewrite IH, <- E, G. destruct (existsb (fun l0 => (f_id l0 =? f_id l) && f_enabled l0) ls); reflexivity.
  Qed.

  Lemma refresh_array_enabled i ls force due oc fs :
    let '(_, _, ls', _) := refresh_array ls force due oc fs in
    existsb (fun l => (f_id l =? i) && f_enabled l) ls'
    = existsb (fun l => (f_id l =? i) && f_enabled l) ls.
  Proof.
    unfold Refresh.refresh_array. destruct (map wcopy (filter _ ls)) as [|t0 tu]; auto.
    destruct (update_all (t0 :: tu) oc fs) as [us fs']. destruct (forallb u_err us); auto.
    pose proof (existsb_copy_back_all (fun l => (f_id l =? i) && f_enabled l) us) as E.
    destruct (copy_back_all us ls) as [n ls'] eqn:C.
    specialize (E (fun u f => eq_trans (f_equal2 andb (f_equal (fun x => x =? i) (copy_back_id u f)) (copy_back_enabled u f)) eq_refl) ls).
    now rewrite C in E.
  Qed.

  Theorem refresh_failed_list_in_force i b a force due oc st :
    engine_consistent st -> fails (oc i) ->
    in_force (r_engine (refresh b a force due oc st)) i = in_force (r_engine st) i.
  Proof.
    intros Hc Hf. unfold Refresh.refresh.
    assert (H1 : let '(_, _, bl, fs1) :=
                   (if b then refresh_array (r_block st) force due oc (r_files st)
                    else (0, false, r_block st, r_files st)) in
                 fget i fs1 = fget i (r_files st) /\
                 existsb (fun l => (f_id l =? i) && f_enabled l) bl
                 = existsb (fun l => (f_id l =? i) && f_enabled l) (r_block st)).
    { destruct b; [|auto].
      pose proof (refresh_array_failed_list i (r_block st) force due oc (r_files st) Hf) as A.
      pose proof (refresh_array_enabled i (r_block st) force due oc (r_files st)) as B.
      destruct (refresh_array (r_block st) force due oc (r_files st)) as [[[? ?] ?] ?].
      split; [apply fget_of_fentry|]; tauto. }
    destruct (if b then _ else _) as [[[n1 e1] bl] fs1]. destruct H1 as [F1 X1].
    assert (H2 : let '(_, _, al, fs2) :=
                   (if a then refresh_array (r_allow st) force due oc fs1
                    else (0, false, r_allow st, fs1)) in
                 fget i fs2 = fget i fs1 /\
                 existsb (fun l => (f_id l =? i) && f_enabled l) al
                 = existsb (fun l => (f_id l =? i) && f_enabled l) (r_allow st)).
    { destruct a; [|auto].
      pose proof (refresh_array_failed_list i (r_allow st) force due oc fs1 Hf) as A.
      pose proof (refresh_array_enabled i (r_allow st) force due oc fs1) as B.
      destruct (refresh_array (r_allow st) force due oc fs1) as [[[? ?] ?] ?].
      split; [apply fget_of_fentry|]; tauto. }
    destruct (if a then _ else _) as [[[n2 e2] al] fs2]. destruct H2 as [F2 X2].
    cbn [r_engine]. destruct (e1 || e2); auto. destruct (n1 + n2 =? 0); auto.
    rewrite Hc. unfold in_force, rebuild. cbn [e_block e_allow].
    rewrite !lookup_snapshot, X1, X2, F2, F1. reflexivity.
  Qed.

  (** ** Every attempted list fails: nothing at all changes *)

  Lemma forallb_err_failed ls : forallb u_err (map failed_upd ls) = true.
  Proof. induction ls; cbn; auto. Qed.

  Lemma refresh_array_all_failed ls force due oc fs :
    (forall l, In l ls -> fails (oc (f_id l))) ->
    exists e, refresh_array ls force due oc fs = (0, e, ls, fs).
  Proof.
    intros H. unfold Refresh.refresh_array.
    set (to_upd := map wcopy (filter _ ls)).
    assert (Hs : forall l, In l to_upd -> fails (oc (f_id l))).
    { intros l Hl. apply in_map_iff in Hl. destruct Hl as (l0 & <- & Hl). apply filter_In in Hl.
      cbn. apply H. tauto. }
    destruct to_upd as [|t0 tu] eqn:Et; [eauto|]. rewrite <- Et in *. clear Et.
    rewrite update_all_all_failed by auto. rewrite forallb_err_failed. eauto.
  Qed.

  Theorem refresh_all_failed_noop b a force due oc st :
    (forall l, In l (r_block st ++ r_allow st) -> fails (oc (f_id l))) ->
    refresh b a force due oc st = st.
  Proof.
    intros H. unfold Refresh.refresh.
    destruct (refresh_array_all_failed (r_block st) force due oc (r_files st)) as [e1 E1].
    { intros; apply H, in_app_iff; now left. }
    destruct (refresh_array_all_failed (r_allow st) force due oc (r_files st)) as [e2 E2].
    { intros; apply H, in_app_iff; now right. }
    destruct st as [bl al fs eng]. cbn [r_block r_allow r_files r_engine] in *.
    destruct b, a; rewrite ?E1, ?E2; cbn [N.add N.eqb orb]; destruct e1, e2; reflexivity.
  Qed.

  (** Any sequence of refreshes in which every source fails. *)
  Record rop := { o_block : bool; o_allow : bool; o_force : bool; o_due : N -> bool; o_oc : N -> outcome }.

  Definition run_ops (ops : list rop) (st : rstate) : rstate :=
    fold_left (fun st o => refresh (o_block o) (o_allow o) (o_force o) (o_due o) (o_oc o) st) ops st.

  Theorem failed_refreshes_noop ops st :
    Forall (fun o => forall l, In l (r_block st ++ r_allow st) -> fails (o_oc o (f_id l))) ops ->
    run_ops ops st = st.
  Proof.
    unfold run_ops. induction 1 as [|o ops Ho _ IH]; cbn [fold_left]; auto.
    rewrite refresh_all_failed_noop; auto.
  Qed.
End Refresh.

(** * Unchanged content is not rewritten, in a whole refresh *)
Section Quiet.
  Variable crc : N -> bytes -> N.
  Notation update_one := (update_one crc).
  Notation update_all := (update_all crc).
  Notation refresh_array := (refresh_array crc).
  Notation refresh := (refresh crc).

  (** The source of a list fails, or delivers content with the checksum
      recorded for the list. *)
  Definition no_update (o : outcome) (sum : N) : Prop :=
    fails crc o \/ exists d re st, delivers crc o d re /\ parse crc d re = (st, None) /\ p_sum st = sum.

  Lemma update_one_no_update l o fs : no_update o (f_sum l) ->
    u_updated (fst (update_one l o fs)) = false /\ snd (update_one l o fs) = fs /\
    u_list (fst (update_one l o fs)) = l.
  Proof.
    intros [F|(d & re & st & D & P & E)].
    - now rewrite update_one_failed.
    - rewrite (update_one_delivers crc l o d re fs D). now rewrite (update_one_same_checksum crc l d re st fs P E).
  Qed.

  Lemma update_all_quiet i oc : forall ws fs,
    (forall w, In w ws -> f_id w = i -> no_update (oc i) (f_sum w)) ->
    fentry i (snd (update_all ws oc fs)) = fentry i fs /\
    Forall (fun u => f_id (u_list u) = i -> u_updated u = false) (fst (update_all ws oc fs)).
  Proof.
    induction ws as [|w ws IH]; intros fs H; cbn [Refresh.update_all]; [split; [reflexivity|constructor]|].
    assert (H1 : fentry i (snd (update_one w (oc (f_id w)) fs)) = fentry i fs /\
                 (f_id (u_list (fst (update_one w (oc (f_id w)) fs))) = i ->
                  u_updated (fst (update_one w (oc (f_id w)) fs)) = false)).
    { destruct (N.eq_dec (f_id w) i) as [E|E].
      - destruct (update_one_no_update w (oc (f_id w)) fs) as (A & B & C).
        { rewrite E. apply H; [now left|exact E]. }
        rewrite B. auto.
      - split; [now apply update_one_other|rewrite update_one_id; congruence]. }
    destruct (update_one w (oc (f_id w)) fs) as [u fs1]. cbn [fst snd] in H1.
    specialize (IH fs1). destruct (update_all ws oc fs1) as [us fs2]. cbn [fst snd] in *.
    destruct H1 as [A B]. destruct IH as [C D]; [intros; apply H; auto; now right|].
    split; [congruence|]. constructor; auto.
  Qed.

  Lemma refresh_array_quiet i ls force due oc fs :
    (forall l, In l ls -> f_id l = i -> no_update (oc i) (f_sum l)) ->
    let '(_, _, ls', fs') := refresh_array ls force due oc fs in
    fentry i fs' = fentry i fs /\
    forall k l, nth_error ls k = Some l -> f_id l = i -> nth_error ls' k = Some l.
  Proof.
    intros Hq. unfold Refresh.refresh_array.
    set (to_upd := map wcopy (filter _ ls)).
    assert (Hw : forall w, In w to_upd -> f_id w = i -> no_update (oc i) (f_sum w)).
    { intros w Hw Hi. apply in_map_iff in Hw. destruct Hw as (l & <- & Hl). apply filter_In in Hl.
      cbn in *. apply Hq; tauto. }
    destruct to_upd as [|t0 tu] eqn:Et; [auto|]. rewrite <- Et in *. clear Et.
    destruct (update_all_quiet i oc to_upd fs Hw) as [A B].
    destruct (update_all to_upd oc fs) as [us fs']. cbn [fst snd] in *.
    destruct (forallb u_err us); [auto|].
    pose proof (copy_back_all_unchanged i us B ls) as U.
    destruct (copy_back_all us ls) as [n ls']. cbn [snd] in *. auto.
  Qed.

  (** Whatever the other lists do: a list whose source fails or delivers
      content with the recorded checksum keeps its file, not replaced, and its
      entry. *)
  Theorem refresh_quiet_list_noop i b a force due oc st :
    (forall l, In l (r_block st ++ r_allow st) -> f_id l = i -> no_update (oc i) (f_sum l)) ->
    let st' := refresh b a force due oc st in
    fentry i (r_files st') = fentry i (r_files st) /\
    (forall k l, nth_error (r_block st) k = Some l -> f_id l = i -> nth_error (r_block st') k = Some l) /\
    (forall k l, nth_error (r_allow st) k = Some l -> f_id l = i -> nth_error (r_allow st') k = Some l).
  Proof.
    intros Hq. unfold Refresh.refresh.
    assert (Hb : forall l, In l (r_block st) -> f_id l = i -> no_update (oc i) (f_sum l))
      by (intros; apply Hq; auto; apply in_app_iff; now left).
    assert (Ha : forall l, In l (r_allow st) -> f_id l = i -> no_update (oc i) (f_sum l))
      by (intros; apply Hq; auto; apply in_app_iff; now right).
    pose proof (refresh_array_quiet i (r_block st) force due oc (r_files st) Hb) as H1.
    destruct b.
    - destruct (refresh_array (r_block st) force due oc (r_files st)) as [[[n1 e1] bl] fs1].
      destruct H1 as (A1 & B1).
      pose proof (refresh_array_quiet i (r_allow st) force due oc fs1 Ha) as H2.
      destruct a.
      + destruct (refresh_array (r_allow st) force due oc fs1) as [[[n2 e2] al] fs2].
        destruct H2 as (A2 & B2). cbn. repeat split; auto. congruence.
      + cbn. repeat split; auto.
    - pose proof (refresh_array_quiet i (r_allow st) force due oc (r_files st) Ha) as H2.
      destruct a.
      + destruct (refresh_array (r_allow st) force due oc (r_files st)) as [[[n2 e2] al] fs2].
        destruct H2 as (A2 & B2). cbn. repeat split; auto.
      + cbn. repeat split; auto.
  Qed.
End Quiet.

(** * The metadata stay in step with the stored files *)
Section Meta.
  Variable crc : N -> bytes -> N.
  Notation update_one := (update_one crc).
  Notation update_all := (update_all crc).
  Notation refresh_array := (refresh_array crc).
  Notation refresh := (refresh crc).
  Notation set_entry := (set_entry crc).
  Notation set_in := (set_in crc).
  Notation set_props := (set_props crc).

  (** [c] is a stored normal form with this rule count and checksum. *)
  Definition describes (count sum : N) (c : bytes) : Prop :=
    exists st, parse crc c false = (st, None) /\ output st = c /\ p_count st = count /\ p_sum st = sum.

  (** An enabled list's rule count and checksum are those of its stored file
      (zero without a file); a disabled list is unloaded. *)
  Definition list_ok (fs : files) (l : flist) : Prop :=
    if f_enabled l then
      match fget (f_id l) fs with
      | Some c => describes (f_count l) (f_sum l) c
      | None => f_count l = 0 /\ f_sum l = 0
      end
    else f_count l = 0 /\ f_sum l = 0.

  Definition wf (st : rstate) : Prop :=
    NoDup (map f_id (r_block st ++ r_allow st)) /\
    Forall (list_ok (r_files st)) (r_block st ++ r_allow st).

  Lemma list_ok_fentry fs fs' l :
    fentry (f_id l) fs' = fentry (f_id l) fs -> list_ok fs l -> list_ok fs' l.
  Proof. intros E. unfold list_ok. now rewrite (fget_of_fentry _ _ _ E). Qed.

  Definition upd_of (w : flist) (o : outcome) : upd := fst (update_one w o []).
  Definition uid (u : upd) : N := f_id (u_list u).

  Lemma update_all_fst oc : forall ws fs,
    fst (update_all ws oc fs) = map (fun w => upd_of w (oc (f_id w))) ws.
  Proof.
    induction ws as [|w ws IH]; intros fs; cbn [Refresh.update_all map]; auto.
    pose proof (update_one_fst crc w (oc (f_id w)) fs []) as F.
    destruct (update_one w (oc (f_id w)) fs) as [u fs1]. specialize (IH fs1).
    destruct (update_all ws oc fs1) as [us fs2]. cbn [fst] in *. now rewrite IH, F.
  Qed.

  Lemma update_one_fentry_congr w o fsA fsB j :
    fentry j fsA = fentry j fsB ->
    fentry j (snd (update_one w o fsA)) = fentry j (snd (update_one w o fsB)).
  Proof.
    intros E.
    assert (B : forall st : pstate,
      fentry j (fset (f_id w) (output st) fsA) = fentry j (fset (f_id w) (output st) fsB)).
    { intros st. destruct (N.eq_dec (f_id w) j) as [<-|Nj].
      - rewrite !fentry_fset_eq. now rewrite (fgen_of_fentry _ _ _ E).
      - now rewrite !fentry_fset_ne. }
    unfold Refresh.update_one. destruct o as [|d re|d|d re cap]; auto.
    - destruct (parse crc d re) as [st [e|]]; auto. destruct (p_sum st =? f_sum w); auto. cbn [snd]. apply B.
    - destruct (parse_w crc cap d re) as [[st [e|]] part]; auto. destruct (p_sum st =? f_sum w); auto. cbn [snd]. apply B.
  Qed.

  Lemma find_id_none {A} (key : A -> N) j (ws : list A) :
    ~ In j (map key ws) -> find (fun w => key w =? j) ws = None.
  Proof.
    induction ws as [|w ws IH]; cbn; auto. intros H.
    destruct (N.eqb_spec (key w) j); [exfalso; auto|]. apply IH. tauto.
  Qed.

  Lemma update_all_files oc : forall ws fs j, NoDup (map f_id ws) ->
    fentry j (snd (update_all ws oc fs)) =
    match find (fun w => f_id w =? j) ws with
    | Some w => fentry j (snd (update_one w (oc j) fs))
    | None => fentry j fs
    end.
  Proof.
    induction ws as [|w ws IH]; intros fs j ND; cbn [Refresh.update_all find map]; auto.
    inversion ND as [|? ? Hn ND']; subst.
    destruct (update_one w (oc (f_id w)) fs) as [u fs1] eqn:U.
    specialize (IH fs1 j ND'). destruct (update_all ws oc fs1) as [us fs2]. cbn [snd] in *.
    rewrite IH. destruct (N.eqb_spec (f_id w) j) as [<-|Nj].
    - rewrite find_id_none by exact Hn. now rewrite U.
    - assert (E : fentry j fs1 = fentry j fs).
      { replace fs1 with (snd (update_one w (oc (f_id w)) fs)) by now rewrite U.
        now apply update_one_other. }
      destruct (find _ ws); [now apply update_one_fentry_congr|exact E].
  Qed.

  Lemma copy_back_off u f : (uid u =? f_id f) = false -> copy_back u f = f.
  Proof. unfold copy_back, uid. now intros ->. Qed.

  Lemma copy_back_all_spec : forall us ls, NoDup (map uid us) ->
    snd (copy_back_all us ls) =
    map (fun f => match find (fun u => uid u =? f_id f) us with
                  | Some u => copy_back u f | None => f end) ls.
  Proof.
    induction us as [|u us IH]; intros ls ND; cbn [copy_back_all snd find].
    - symmetry. apply map_id.
    - inversion ND as [|? ? Hn ND']; subst.
      specialize (IH (map (copy_back u) ls) ND').
      destruct (copy_back_all us (map (copy_back u) ls)) as [n ls']. cbn [snd] in *.
      rewrite IH, map_map. apply map_ext. intros f. rewrite copy_back_id.
      destruct (uid u =? f_id f) eqn:E.
      + apply N.eqb_eq in E. rewrite <- E. now rewrite find_id_none.
      + now rewrite copy_back_off.
  Qed.

  Lemma find_map_gen {A B} (p : B -> bool) (g : A -> B) (l : list A) :
    find p (map g l) = option_map g (find (fun x => p (g x)) l).
  Proof. induction l as [|x l IH]; cbn; auto. destruct (p (g x)); auto. Qed.

  Lemma find_ext_eq {A} (p q : A -> bool) (l : list A) : (forall x, p x = q x) -> find p l = find q l.
  Proof. intros H. induction l as [|x l IH]; cbn; auto. rewrite H, IH. reflexivity. Qed.

  Lemma nodup_ids_filter (sel : flist -> bool) : forall ls,
    NoDup (map f_id ls) -> NoDup (map f_id (map wcopy (filter sel ls))).
  Proof.
    induction ls as [|l ls IH]; cbn; [constructor|]. intros ND. inversion ND as [|? ? Hn ND']; subst.
    destruct (sel l); cbn; auto. constructor; auto.
    intros Hin. apply Hn. rewrite map_map in Hin. cbn in Hin.
    apply in_map_iff in Hin. destruct Hin as (x & E & Hx). apply filter_In in Hx.
    apply in_map_iff. exists x. tauto.
  Qed.

  Lemma ids_filter_sub (sel : flist -> bool) ls j :
    In j (map f_id (map wcopy (filter sel ls))) -> In j (map f_id ls).
  Proof.
    rewrite map_map. cbn. intros Hin. apply in_map_iff in Hin. destruct Hin as (x & E & Hx).
    apply filter_In in Hx. apply in_map_iff. exists x. tauto.
  Qed.

  Lemma find_sel (sel : flist -> bool) : forall ls f,
    NoDup (map f_id ls) -> In f ls ->
    find (fun w => f_id w =? f_id f) (map wcopy (filter sel ls)) = if sel f then Some (wcopy f) else None.
  Proof.
    induction ls as [|l ls IH]; intros f ND Hin; [contradiction|].
    inversion ND as [|? ? Hn ND']; subst. cbn [filter]. destruct Hin as [->|Hin].
    - destruct (sel f); cbn [map find wcopy f_id].
      + now rewrite N.eqb_refl.
      + apply find_id_none. intros H. apply Hn. eapply ids_filter_sub; eauto.
    - assert (Ne : f_id l <> f_id f).
      { intros E. apply Hn. rewrite E. now apply in_map. }
      destruct (sel l); cbn [map find wcopy f_id]; [destruct (N.eqb_spec (f_id l) (f_id f)); [contradiction|]|];
        now apply IH.
  Qed.

  Lemma update_one_err_files l o fs : u_err (fst (update_one l o fs)) = true -> snd (update_one l o fs) = fs.
  Proof.
    pose proof (update_one_cases crc l o fs) as C. destruct (update_one l o fs) as [u fs']. cbn [fst snd].
    destruct C as [(_ & -> & _)|(d & re & st & _ & _ & _ & _ & E & _)]; auto. congruence.
  Qed.

  Lemma refresh_array_wf ls force due oc fs :
    NoDup (map f_id ls) -> Forall (list_ok fs) ls ->
    let '(_, _, ls', fs') := refresh_array ls force due oc fs in
    map f_id ls' = map f_id ls /\ Forall (list_ok fs') ls' /\
    (forall j, ~ In j (map f_id ls) -> fentry j fs' = fentry j fs).
  Proof.
    intros ND OK. unfold Refresh.refresh_array.
    set (sel := fun l => f_enabled l && (force || due (f_id l))).
    set (ws := map wcopy (filter sel ls)).
    assert (NDw : NoDup (map f_id ws)) by now apply nodup_ids_filter.
    destruct ws as [|w0 wr] eqn:Ew; [auto|]. rewrite <- Ew in *.
    pose proof (update_all_fst oc ws fs) as Hus. pose proof (fun j => update_all_files oc ws fs j NDw) as Hfs.
    destruct (update_all ws oc fs) as [us fs']. cbn [fst snd] in *.
    assert (Hout : forall j, ~ In j (map f_id ls) -> fentry j fs' = fentry j fs).
    { intros j Hj. rewrite Hfs, find_id_none; auto. intros H. apply Hj. unfold ws in H.
      eapply ids_filter_sub; eauto. }
    destruct (forallb u_err us) eqn:AE.
    - (* everything failed: no file has changed *)
      assert (Hall : forall j, fentry j fs' = fentry j fs).
      { intros j. rewrite Hfs. destruct (find _ ws) as [w|] eqn:F; auto.
        apply find_some in F. destruct F as [Hin Hid]. apply N.eqb_eq in Hid.
        rewrite update_one_err_files; auto.
        rewrite forallb_forall in AE. rewrite (update_one_fst crc w (oc j) fs []).
        apply AE. rewrite Hus. apply in_map_iff. exists w. unfold upd_of. now rewrite Hid. }
      repeat split; auto. eapply Forall_impl; [|exact OK]. intros l. apply list_ok_fentry. apply Hall.
    - assert (NDu : NoDup (map uid us)).
      { rewrite Hus, map_map. erewrite map_ext; [exact NDw|]. intros w. unfold uid, upd_of.
        now rewrite update_one_id. }
      pose proof (copy_back_all_spec us ls NDu) as CB.
      destruct (copy_back_all us ls) as [n ls']. cbn [snd] in CB. subst ls'.
      split; [|split; auto].
      + rewrite map_map. apply map_ext. intros f. destruct (find _ us); auto using copy_back_id.
      + apply Forall_forall. intros f' Hin. apply in_map_iff in Hin. destruct Hin as (f & <- & Hf).
        pose proof (proj1 (Forall_forall _ _) OK f Hf) as OKf.
        (* which working copy belongs to [f] *)
        rewrite Hus, find_map_gen.
        rewrite (find_ext_eq _ (fun w => f_id w =? f_id f)) by
          (intros w; unfold uid, upd_of; now rewrite update_one_id).
        unfold ws. rewrite (find_sel sel ls f ND Hf).
        specialize (Hfs (f_id f)). unfold ws in Hfs. rewrite (find_sel sel ls f ND Hf) in Hfs.
        destruct (sel f) eqn:S; cbn [option_map].
        * pose proof (update_one_cases crc (wcopy f) (oc (f_id f)) fs) as C.
          pose proof (update_one_fst crc (wcopy f) (oc (f_id f)) fs []) as F1.
          change (f_id (wcopy f)) with (f_id f).
          unfold upd_of. rewrite <- F1.
          destruct (update_one (wcopy f) (oc (f_id f)) fs) as [u fs1]. cbn [fst snd] in *.
          destruct C as [(U & -> & L)|(d & re & st & _ & P & _ & U & _ & L & -> & st' & P' & O' & C' & S')].
          -- unfold copy_back. rewrite U, andb_false_r. eapply list_ok_fentry; eauto.
          -- unfold copy_back. rewrite U, L. cbn [f_id filled wcopy]. rewrite N.eqb_refl. cbn [andb].
             unfold list_ok. cbn [f_enabled f_id f_count f_sum filled wcopy].
             unfold sel in S. apply andb_true_iff in S. destruct S as [-> _].
             unfold fget. rewrite Hfs, fentry_fset_eq. cbn [snd].
             exists st'. auto.
        * eapply list_ok_fentry; eauto.
  Qed.
  Lemma nodup_app_l {A} (a b : list A) : NoDup (a ++ b) -> NoDup a.
  Proof.
    induction a as [|h a IH]; cbn; [constructor|]. intros ND. inversion ND as [|? ? Hn ND']; subst.
    constructor; auto. intros H. apply Hn, in_app_iff. now left.
  Qed.

  Lemma nodup_app_r {A} (a b : list A) : NoDup (a ++ b) -> NoDup b.
  Proof. induction a as [|h a IH]; cbn; auto. intros ND. inversion ND; subst. auto. Qed.

  Lemma nodup_app_disjoint {A} (a b : list A) x : NoDup (a ++ b) -> In x a -> ~ In x b.
  Proof.
    induction a as [|h a IH]; cbn; [tauto|]. intros ND [->|Hin] Hb.
    - inversion ND as [|? ? Hn _]; subst. apply Hn, in_app_iff. now right.
    - inversion ND; subst. now apply IH.
  Qed.

  Lemma nodup_app_disjoint_r {A} (a b : list A) x : NoDup (a ++ b) -> In x b -> ~ In x a.
  Proof. intros ND Hb Ha. exact (nodup_app_disjoint a b x ND Ha Hb). Qed.

  Lemma forall_ok_transfer fs fs' ls :
    (forall l, In l ls -> fentry (f_id l) fs' = fentry (f_id l) fs) ->
    Forall (list_ok fs) ls -> Forall (list_ok fs') ls.
  Proof.
    intros H OK. apply Forall_forall. intros l Hl. eapply list_ok_fentry; [now apply H|].
    exact (proj1 (Forall_forall _ _) OK l Hl).
  Qed.

  (** A refresh keeps the metadata in step with the files, whatever the
      sources do. *)
  Theorem refresh_wf b a force due oc st : wf st -> wf (refresh b a force due oc st).
  Proof.
    intros [ND OK]. rewrite map_app in ND. apply Forall_app in OK. destruct OK as [OKb OKa].
    pose proof (nodup_app_l _ _ ND) as NDb. pose proof (nodup_app_r _ _ ND) as NDa.
    unfold Refresh.refresh.
    (* block array *)
    assert (H1 : let '(_, _, bl, fs1) :=
                   (if b then refresh_array (r_block st) force due oc (r_files st)
                    else (0, false, r_block st, r_files st)) in
                 map f_id bl = map f_id (r_block st) /\ Forall (list_ok fs1) bl /\
                 (forall j, ~ In j (map f_id (r_block st)) -> fentry j fs1 = fentry j (r_files st))).
    { destruct b; [|auto]. apply refresh_array_wf; auto. }
    destruct (if b then _ else _) as [[[n1 e1] bl] fs1]. destruct H1 as (I1 & O1 & X1).
    assert (OKa1 : Forall (list_ok fs1) (r_allow st)).
    { eapply forall_ok_transfer; [|exact OKa]. intros l Hl. apply X1.
      eapply nodup_app_disjoint_r; [exact ND|]. now apply in_map. }
    assert (H2 : let '(_, _, al, fs2) :=
                   (if a then refresh_array (r_allow st) force due oc fs1
                    else (0, false, r_allow st, fs1)) in
                 map f_id al = map f_id (r_allow st) /\ Forall (list_ok fs2) al /\
                 (forall j, ~ In j (map f_id (r_allow st)) -> fentry j fs2 = fentry j fs1)).
    { destruct a; [|auto]. apply refresh_array_wf; auto. }
    destruct (if a then _ else _) as [[[n2 e2] al] fs2]. destruct H2 as (I2 & O2 & X2).
    split; cbn [r_block r_allow r_files].
    - now rewrite map_app, I1, I2.
    - apply Forall_app. split; auto.
      eapply forall_ok_transfer; [|exact O1]. intros l Hl. apply X2.
      eapply nodup_app_disjoint; [exact ND|]. rewrite <- I1. now apply in_map.
  Qed.

  (** ** set_url: name, URL and enabled flag *)

  Lemma set_target_id f name nurl en : f_id (set_target f name nurl en) = f_id f.
  Proof. unfold set_target. now destruct (negb _). Qed.

  Lemma set_target_enabled f name nurl en : f_enabled (set_target f name nurl en) = en.
  Proof. unfold set_target. now destruct (negb _). Qed.

  Lemma set_entry_id f name nurl dup en o fs : f_id (snd (fst (set_entry f name nurl dup en o fs))) = f_id f.
  Proof.
    unfold Refresh.set_entry. destruct (_ && dup); [reflexivity|].
    destruct en; [|cbn [fst snd]; unfold unload; cbn [f_id]; apply set_target_id].
    destruct (_ || _); [|apply set_target_id].
    pose proof (update_one_id crc (set_target f name nurl true) o fs) as I. rewrite set_target_id in I.
    destruct (update_one _ o fs) as [u fs']. cbn [fst] in I.
    destruct (u_err u); [reflexivity|]. destruct (u_updated u); [exact I|]. destruct (_ =? 0); exact I.
  Qed.

  Lemma set_entry_other f name nurl dup en o fs j : f_id f <> j ->
    fentry j (snd (set_entry f name nurl dup en o fs)) = fentry j fs.
  Proof.
    intros Nj. unfold Refresh.set_entry. destruct (_ && dup); [reflexivity|].
    destruct en; [|reflexivity].
    destruct (_ || _); [|reflexivity].
    assert (Nj' : f_id (set_target f name nurl true) <> j) by now rewrite set_target_id.
    pose proof (update_one_other crc (set_target f name nurl true) o fs j Nj') as I.
    destruct (update_one _ o fs) as [u fs']. cbn [snd] in I.
    destruct (u_err u); [exact I|]. destruct (u_updated u); [exact I|].
    destruct (_ =? 0); cbn [snd]; [now rewrite fentry_fdel_ne|exact I].
  Qed.

  Lemma update_one_err_fails l o fs : u_err (fst (update_one l o fs)) = true -> fails crc o.
  Proof.
    unfold Refresh.update_one, fails. destruct o as [|d re|d|d re cap]; auto.
    - destruct (parse crc d re) as [st [e|]]; cbn [snd]; [intros _; discriminate|].
      destruct (p_sum st =? f_sum l); cbn; discriminate.
    - destruct (parse_w crc cap d re) as [[st [e|]] part]; cbn [fst snd]; [intros _; discriminate|].
      destruct (p_sum st =? f_sum l); cbn; discriminate.
  Qed.

  (** The call keeps the entry in step with the files. *)
  Lemma set_entry_ok f name nurl dup en o fs : list_ok fs f ->
    let '(_, _, f', fs') := set_entry f name nurl dup en o fs in list_ok fs' f'.
  Proof.
    intros OK. unfold Refresh.set_entry. destruct (_ && dup); [exact OK|].
    destruct en.
    - destruct (negb (f_url f =? nurl) || negb (Bool.eqb (f_enabled f) true)) eqn:R.
      + set (f1 := set_target f name nurl true).
        assert (Z : (f_url f =? nurl) = false \/ f_enabled f = false).
        { apply orb_true_iff in R. destruct R as [R|R]; [left; now apply negb_true_iff in R|right].
          destruct (f_enabled f); [discriminate|reflexivity]. }
        assert (Z0 : (f_url f =? nurl) = false \/ (f_count f = 0 /\ f_sum f = 0)).
        { destruct Z as [Z|Z]; [now left|right]. unfold list_ok in OK. now rewrite Z in OK. }
        assert (F0 : f_count f1 = 0 /\ f_sum f1 = 0).
        { unfold f1, set_target. destruct Z0 as [->|Z0]; cbn [negb f_count f_sum]; [auto|].
          destruct (negb _); cbn [f_count f_sum]; auto. }
        pose proof (update_one_cases crc f1 o fs) as C. destruct (update_one f1 o fs) as [u fs'].
        destruct C as [(U & -> & L)|(d & re & st & _ & P & _ & U & E & L & -> & st' & P' & O' & C' & S')].
        * rewrite U. destruct (u_err u) eqn:Er.
          -- (* an error: everything is put back *)
             unfold restored_sum. unfold list_ok in *. cbn [f_enabled f_id f_count f_sum]. exact OK.
          -- rewrite (proj2 F0), N.eqb_refl.
             rewrite L. unfold list_ok. unfold f1 at 1. rewrite set_target_enabled.
             unfold f1 at 1. rewrite set_target_id, fget_fdel_eq. exact F0.
        * rewrite U, E, L. unfold list_ok. cbn [f_enabled f_id f_count f_sum filled].
          unfold f1. rewrite set_target_enabled, set_target_id, fget_fset_eq. exists st'. auto.
      + (* neither the URL nor the flag changes: only the name *)
        apply orb_false_iff in R. destruct R as [R1 R2]. apply negb_false_iff in R1, R2.
        unfold set_target. rewrite R1. cbn [negb]. unfold list_ok in *. cbn [f_enabled f_id f_count f_sum].
        destruct (f_enabled f); [exact OK|discriminate].
    - unfold list_ok, unload. cbn [f_enabled f_count f_sum]. rewrite set_target_enabled. auto.
  Qed.

  Lemma set_in_spec : forall ls url name nurl dup en o fs,
    NoDup (map f_id ls) -> Forall (list_ok fs) ls ->
    match set_in ls url name nurl dup en o fs with
    | None => True
    | Some (_, _, ls', fs') =>
        map f_id ls' = map f_id ls /\ Forall (list_ok fs') ls' /\
        (forall j, ~ In j (map f_id ls) -> fentry j fs' = fentry j fs)
    end.
  Proof.
    induction ls as [|f ls IH]; intros url name nurl dup en o fs ND OK; cbn [Refresh.set_in]; auto.
    inversion ND as [|? ? Hn ND']; subst. inversion OK as [|? ? OKf OKr]; subst.
    destruct (N.eqb_spec (f_url f) url) as [E|E].
    - pose proof (set_entry_ok f name nurl dup en o fs OKf) as S.
      pose proof (set_entry_id f name nurl dup en o fs) as I.
      pose proof (set_entry_other f name nurl dup en o fs) as X.
      destruct (set_entry f name nurl dup en o fs) as [[[rs er] f'] fs']. cbn [fst snd] in *.
      split; [cbn; now rewrite I|]. split.
      + constructor; auto. eapply forall_ok_transfer; [|exact OKr]. intros l Hl. apply X.
        intros E2. apply Hn. rewrite E2. now apply in_map.
      + intros j Hj. apply X. intros E2. apply Hj. left. exact E2.
    - specialize (IH url name nurl dup en o fs ND' OKr).
      destruct (set_in ls url name nurl dup en o fs) as [[[[rs er] ls'] fs']|]; auto.
      destruct IH as (I & O & X). split; [cbn; now rewrite I|]. split.
      + constructor; auto. eapply list_ok_fentry; [|exact OKf]. now apply X.
      + intros j Hj. apply X. intros Hin. apply Hj. now right.
  Qed.

  Lemma set_in_urls_absent : forall ls url name nurl dup en o fs,
    ~ In url (map f_url ls) -> set_in ls url name nurl dup en o fs = None.
  Proof.
    induction ls as [|f ls IH]; intros url name nurl dup en o fs H; cbn [Refresh.set_in]; auto.
    destruct (N.eqb_spec (f_url f) url) as [E|E]; [exfalso; apply H; now left|].
    rewrite IH; auto. intros Hin. apply H. now right.
  Qed.

  Theorem set_props_wf allow url name nurl en o st :
    wf st -> wf (snd (set_props allow url name nurl en o st)).
  Proof.
    intros [ND OK]. rewrite map_app in ND. apply Forall_app in OK. destruct OK as [OKb OKa].
    pose proof (nodup_app_l _ _ ND) as NDb. pose proof (nodup_app_r _ _ ND) as NDa.
    unfold Refresh.set_props. destruct allow.
    - pose proof (set_in_spec (r_allow st) url name nurl (url_used nurl st) en o (r_files st) NDa OKa) as S.
      destruct (set_in _ url name nurl _ en o _) as [[[[rs er] ls'] fs']|]; [|split; [now rewrite map_app|now apply Forall_app]].
      destruct S as (I & O & X). unfold wf. cbn [snd r_block r_allow r_files]. split.
      + now rewrite map_app, I.
      + apply Forall_app. split; auto. eapply forall_ok_transfer; [|exact OKb]. intros l Hl. apply X.
        apply (nodup_app_disjoint _ _ (f_id l) ND). now apply in_map.
    - pose proof (set_in_spec (r_block st) url name nurl (url_used nurl st) en o (r_files st) NDb OKb) as S.
      destruct (set_in _ url name nurl _ en o _) as [[[[rs er] ls'] fs']|]; [|split; [now rewrite map_app|now apply Forall_app]].
      destruct S as (I & O & X). unfold wf. cbn [snd r_block r_allow r_files]. split.
      + now rewrite map_app, I.
      + apply Forall_app. split; auto. eapply forall_ok_transfer; [|exact OKa]. intros l Hl. apply X.
        apply (nodup_app_disjoint_r _ _ (f_id l) ND). now apply in_map.
  Qed.

  Lemma rebuild_now_wf st : wf st -> wf (rebuild_now st).
  Proof. intros W. exact W. Qed.

  (** ** A restart of the process: the lists go through the configuration
      file and [loadFilters] *)

  Lemma dedup_in : forall ls seen x, In x (dedup_urls seen ls) -> In x ls.
  Proof.
    induction ls as [|f ls IH]; intros seen x; cbn [dedup_urls]; [tauto|].
    destruct (existsb _ seen); [intros H; right; eauto|]. intros [->|H]; [now left|right; eauto].
  Qed.

  Lemma dedup_forall (P : flist -> Prop) ls seen : Forall P ls -> Forall P (dedup_urls seen ls).
  Proof.
    intros H. apply Forall_forall. intros x Hx. apply dedup_in in Hx.
    exact (proj1 (Forall_forall _ _) H x Hx).
  Qed.

  Lemma dedup_ids_sub ls seen j : In j (map f_id (dedup_urls seen ls)) -> In j (map f_id ls).
  Proof.
    intros H. apply in_map_iff in H. destruct H as (x & <- & Hx). apply dedup_in in Hx. now apply in_map.
  Qed.

  Lemma dedup_nodup_ids : forall ls seen, NoDup (map f_id ls) -> NoDup (map f_id (dedup_urls seen ls)).
  Proof.
    induction ls as [|f ls IH]; intros seen ND; cbn [dedup_urls]; [constructor|].
    inversion ND as [|? ? Hn ND']; subst.
    destruct (existsb _ seen); [now apply IH|]. cbn [map]. constructor; [|now apply IH].
    intros H. apply Hn. eapply dedup_ids_sub; eauto.
  Qed.

  (** Entries with pairwise different URLs (what [filterExistsLocked] keeps up)
      all survive [deduplicateFilters]. *)
  Lemma dedup_nodup_urls : forall ls seen,
    NoDup (map f_url ls) -> (forall u, In u seen -> ~ In u (map f_url ls)) -> dedup_urls seen ls = ls.
  Proof.
    induction ls as [|f ls IH]; intros seen ND Hs; cbn [dedup_urls]; [reflexivity|].
    inversion ND as [|? ? Hn ND']; subst.
    destruct (existsb (N.eqb (f_url f)) seen) eqn:E.
    - exfalso. apply existsb_exists in E. destruct E as (u & Hu & E). apply N.eqb_eq in E. subst u.
      apply (Hs _ Hu). now left.
    - f_equal. apply IH; auto. intros u [<-|Hu]; [exact Hn|]. intros H. apply (Hs u Hu). now right.
  Qed.

  Lemma load_file_fields f fs :
    f_id (load_file crc f fs) = f_id f /\ f_url (load_file crc f fs) = f_url f /\
    f_enabled (load_file crc f fs) = f_enabled f.
  Proof.
    unfold load_file. destruct (fget (f_id f) fs) as [c|]; [|auto].
    destruct (parse crc c false) as [st [e|]]; auto.
  Qed.

  Lemma load_entry_fields all fs f :
    f_id (load_entry crc all fs (persisted f)) = f_id f /\
    f_url (load_entry crc all fs (persisted f)) = f_url f /\
    f_enabled (load_entry crc all fs (persisted f)) = f_enabled f.
  Proof.
    unfold load_entry. destruct (_ || all); [apply (load_file_fields (persisted f) fs)|auto].
  Qed.

  Lemma start_array_ids all fs ls :
    map f_id (map (fun f => load_entry crc all fs (persisted f)) ls) = map f_id ls.
  Proof. rewrite map_map. apply map_ext. intros f. apply load_entry_fields. Qed.

  (** An entry that was in step with the files is in step again after it has
      gone through the configuration file and [loadFilters]: an enabled list
      gets the rule count and checksum of its file, a disabled list is not
      loaded. *)
  Lemma load_persisted_ok fs f : list_ok fs f -> list_ok fs (load_entry crc false fs (persisted f)).
  Proof.
    intros OK. unfold list_ok, load_entry, load_file in *. cbn [persisted f_enabled f_id]. rewrite orb_false_r.
    destruct (f_enabled f) eqn:En; cbv iota in *;
      [|unfold persisted; cbn [f_enabled f_count f_sum]; rewrite En; auto].
    destruct (fget (f_id f) fs) as [c|] eqn:G.
    - destruct OK as (st & P & O & C & S). rewrite P. cbn [filled f_enabled f_id f_count f_sum persisted].
      rewrite En, G. exists st. auto.
    - unfold persisted. cbn [f_enabled f_id f_count f_sum]. rewrite En, G. auto.
  Qed.

  Lemma nodup_app_intro {A} (a b : list A) :
    NoDup a -> NoDup b -> (forall x, In x a -> ~ In x b) -> NoDup (a ++ b).
  Proof.
    induction a as [|h a IH]; cbn [app]; intros Na Nb D; [exact Nb|].
    inversion Na as [|? ? Hn Na']; subst. constructor.
    - intros H. apply in_app_iff in H. destruct H as [H|H]; [auto|]. apply (D h); [now left|exact H].
    - apply IH; auto. intros x Hx. apply D. now right.
  Qed.

  (** A restart keeps the metadata in step with the files. *)
  Theorem restart_wf st : wf st -> wf (restart crc st).
  Proof.
    intros [ND OK]. rewrite map_app in ND. apply Forall_app in OK. destruct OK as [OKb OKa].
    pose proof (nodup_app_l _ _ ND) as NDb. pose proof (nodup_app_r _ _ ND) as NDa.
    unfold restart, restart_v, wf, start_array. cbn [r_block r_allow r_files]. split.
    - rewrite map_app. apply nodup_app_intro.
      + apply dedup_nodup_ids. now rewrite start_array_ids.
      + apply dedup_nodup_ids. now rewrite start_array_ids.
      + intros j Hb Ha. apply dedup_ids_sub in Hb, Ha. rewrite start_array_ids in Hb, Ha.
        exact (nodup_app_disjoint _ _ j ND Hb Ha).
    - apply Forall_app. split; apply dedup_forall, Forall_forall; intros x Hx;
        apply in_map_iff in Hx; destruct Hx as (f & <- & Hf); apply load_persisted_ok.
      + exact (proj1 (Forall_forall _ _) OKb f Hf).
      + exact (proj1 (Forall_forall _ _) OKa f Hf).
  Qed.

  (** ** Histories of refreshes, set_url calls, engine rebuilds and restarts
      of the process *)
  Inductive hop :=
    | HRefresh (block allow force : bool) (due : N -> bool) (oc : N -> outcome)
    | HSet (allow : bool) (url : N) (name : bytes) (nurl : N) (enabled : bool) (o : outcome)
    | HRebuild
    | HRestart.

  Definition run_hop (st : rstate) (h : hop) : rstate :=
    match h with
    | HRefresh b a f due oc => refresh b a f due oc st
    | HSet a u name nu en o => snd (set_props a u name nu en o st)
    | HRebuild => rebuild_now st
    | HRestart => restart crc st
    end.

  Definition run_hist (hs : list hop) (st : rstate) : rstate := fold_left run_hop hs st.

  Theorem history_wf hs : forall st, wf st -> wf (run_hist hs st).
  Proof.
    unfold run_hist. induction hs as [|h hs IH]; intros st W; cbn [fold_left]; auto.
    apply IH. destruct h; cbn [run_hop];
      [now apply refresh_wf|now apply set_props_wf|exact W|now apply restart_wf].
  Qed.

  (** After any history: the rule count and checksum of every enabled list
      are those of a re-parse of its stored file, which reproduces the file. *)
  Corollary history_meta_matches_file hs st l c :
    wf st -> let st' := run_hist hs st in
    In l (r_block st' ++ r_allow st') -> f_enabled l = true -> fget (f_id l) (r_files st') = Some c ->
    describes (f_count l) (f_sum l) c.
  Proof.
    intros W st' Hin En G. destruct (history_wf hs st W) as [_ OK].
    pose proof (proj1 (Forall_forall _ _) OK l Hin) as H. unfold list_ok in H. fold st' in H.
    now rewrite En, G in H.
  Qed.

  (** ... so a source that delivers what is stored (in any spelling with the
      same normal form) does not make the file be replaced, in any history. *)
  Theorem stored_content_not_rewritten b a force due oc st l c d re pst :
    wf st -> In l (r_block st ++ r_allow st) -> f_enabled l = true ->
    fget (f_id l) (r_files st) = Some c ->
    delivers crc (oc (f_id l)) d re -> parse crc d re = (pst, None) -> output pst = c ->
    let st' := refresh b a force due oc st in
    fentry (f_id l) (r_files st') = fentry (f_id l) (r_files st) /\
    In l (r_block st' ++ r_allow st').
  Proof.
    intros [ND OK] Hin En G Ho P Out st'.
    assert (Q : forall l', In l' (r_block st ++ r_allow st) -> f_id l' = f_id l -> no_update crc (oc (f_id l)) (f_sum l')).
    { intros l' Hin' Hid. right. exists d, re, pst. split; [exact Ho|]. split; [exact P|].
      assert (l' = l); [|subst l'].
      { clear - ND Hin Hin' Hid. induction (r_block st ++ r_allow st) as [|x xs IH]; [contradiction|].
        cbn in ND. inversion ND as [|? ? Hn ND']; subst.
        destruct Hin as [->|Hin], Hin' as [->|Hin']; auto.
        - exfalso. apply Hn. rewrite <- Hid. now apply in_map.
        - exfalso. apply Hn. rewrite Hid. now apply in_map. }
      pose proof (proj1 (Forall_forall _ _) OK l Hin) as H. unfold list_ok in H. rewrite En, G in H.
      destruct H as (st2 & P2 & O2 & C2 & S2).
      destruct (parse_fixed_point crc _ _ _ P) as (st3 & P3 & _ & _ & S3 & _).
      rewrite Out in P3. rewrite P3 in P2. injection P2 as <-. congruence. }
    destruct (refresh_quiet_list_noop crc (f_id l) b a force due oc st Q) as (F & Bk & Al).
    fold st' in F, Bk, Al. split; auto.
    apply in_app_iff in Hin. apply in_app_iff. destruct Hin as [H|H]; apply In_nth_error in H; destruct H as [k H];
      [left; eapply nth_error_In; apply (Bk k l H eq_refl)|right; eapply nth_error_In; apply (Al k l H eq_refl)].
  Qed.
  (** ** Disabling takes a list's rules out of force, enabling or re-pointing
      puts the delivered rules in force *)

  Definition arr (allow : bool) (st : rstate) : list flist := if allow then r_allow st else r_block st.
  Definition eng_arr (allow : bool) (e : engine) : list (N * bytes) := if allow then e_allow e else e_block e.
  Definition other_id (i : N) (x : flist) : Prop := (f_id x =? i) = false.
  Definition other_url (u : N) (x : flist) : Prop := (f_url x =? u) = false.

  Lemma set_in_split post f u name nurl dup en o fs : forall pre,
    Forall (other_url u) pre -> f_url f = u ->
    set_in (pre ++ f :: post) u name nurl dup en o fs =
    let '(rs, er, f', fs') := set_entry f name nurl dup en o fs in Some (rs, er, pre ++ f' :: post, fs').
  Proof.
    induction pre as [|x pre IH]; intros Hp Hi; cbn [app Refresh.set_in].
    - rewrite Hi, N.eqb_refl. reflexivity.
    - inversion Hp as [|? ? Hx Hp']; subst. unfold other_url in Hx. rewrite Hx. rewrite IH by auto.
      destruct (set_entry f name nurl dup en o fs) as [[[rs er] f'] fs']. reflexivity.
  Qed.

  Lemma existsb_split_on pre f' post i : f_id f' = i -> f_enabled f' = true ->
    existsb (fun l => (f_id l =? i) && f_enabled l) (pre ++ f' :: post) = true.
  Proof.
    intros Hi He. rewrite existsb_app. cbn [existsb]. rewrite Hi, He, N.eqb_refl. cbn.
    now rewrite orb_true_r.
  Qed.

  Lemma existsb_others i ls : Forall (other_id i) ls ->
    existsb (fun l => (f_id l =? i) && f_enabled l) ls = false.
  Proof. induction 1 as [|x ls Hx _ IH]; cbn; auto. unfold other_id in Hx. now rewrite Hx, IH. Qed.

  Lemma existsb_split_off pre f' post i :
    Forall (other_id i) pre -> Forall (other_id i) post -> f_enabled f' = false ->
    existsb (fun l => (f_id l =? i) && f_enabled l) (pre ++ f' :: post) = false.
  Proof.
    intros Hp Hq He. rewrite existsb_app. cbn [existsb]. rewrite He, andb_false_r.
    now rewrite !existsb_others.
  Qed.

  (** The call downloads into the entry: a disabled (hence unloaded) list is
      enabled with its URL kept, or the URL is replaced by one no list has. *)
  Definition downloads (f : flist) (u nurl : N) (st : rstate) : Prop :=
    (nurl = u /\ f_enabled f = false /\ f_sum f = 0) \/ (nurl <> u /\ url_used nurl st = false).

  Lemma set_target_sum0 f name nurl en :
    (f_url f =? nurl) = false \/ f_sum f = 0 -> f_sum (set_target f name nurl en) = 0.
  Proof. unfold set_target. intros [->|H]; cbn [negb f_sum]; auto. destruct (negb _); cbn [f_sum]; auto. Qed.

  Lemma downloads_entry f u nurl st : f_url f = u -> downloads f u nurl st ->
    (negb (f_url f =? nurl) && url_used nurl st = false) /\
    (negb (f_url f =? nurl) || negb (Bool.eqb (f_enabled f) true) = true) /\
    forall name, f_sum (set_target f name nurl true) = 0.
  Proof.
    intros Hu [(-> & En & S0)|(Nu & Us)].
    - rewrite Hu, N.eqb_refl, En. repeat split; auto. intros name. apply set_target_sum0. now right.
    - assert (E : (f_url f =? nurl) = false) by (apply N.eqb_neq; congruence).
      rewrite E, Us. repeat split; auto. intros name. apply set_target_sum0. now left.
  Qed.

  (** Enabling a disabled (hence unloaded) list, or pointing a list to a URL
      that no list has, the source delivering a list text: no error, the entry
      has the URL of the request, the engine is rebuilt from the files, and what
      is in force for the list is the normal form of that text (nothing when it
      has no rules: the checksum of an unloaded list; no file is left then). *)
  Theorem download_puts_rules_in_force allow u i name nurl d re pst st pre f post :
    arr allow st = pre ++ f :: post -> Forall (other_url u) pre -> f_url f = u -> f_id f = i ->
    downloads f u nurl st ->
    parse crc d re = (pst, None) ->
    let '(rs, er, st') := set_props allow u name nurl true (OBody d re) st in
    er = false /\ rs = true /\ engine_consistent st' /\
    lookup i (eng_arr allow (r_engine st')) = (if p_sum pst =? 0 then None else Some (output pst)) /\
    fget i (r_files st') = (if p_sum pst =? 0 then None else Some (output pst)) /\
    exists f', arr allow st' = pre ++ f' :: post /\ f_id f' = i /\ f_url f' = nurl /\ f_enabled f' = true /\
               f_sum f' = p_sum pst /\ ((p_sum pst =? 0) = false -> f_count f' = p_count pst).
  Proof.
    intros Ha Hp Hu Hi Hd P. destruct (downloads_entry f u nurl st Hu Hd) as (D1 & D2 & D3).
    unfold Refresh.set_props. fold (arr allow st). rewrite Ha.
    rewrite set_in_split by auto. unfold Refresh.set_entry. rewrite D1, D2.
    unfold Refresh.update_one. rewrite P, (D3 name). change (0 =? 0) with true.
    pose proof (set_target_id f name nurl true) as TI. pose proof (set_target_enabled f name nurl true) as TE.
    assert (TU : f_url (set_target f name nurl true) = nurl) by (unfold set_target; now destruct (negb _)).
    destruct (p_sum pst =? 0) eqn:Z; cbn [u_err u_updated u_list negb andb];
      (split; [reflexivity|]; split; [reflexivity|]; split; [destruct allow; reflexivity|]).
    - split; [|split].
      + destruct allow; cbn [eng_arr r_engine r_files rebuild e_allow e_block];
          rewrite lookup_snapshot, existsb_split_on by congruence; rewrite Hi, fget_fdel_eq; auto.
      + cbn [r_files]. now rewrite Hi, fget_fdel_eq.
      + exists (set_target f name nurl true). apply N.eqb_eq in Z.
        split; [destruct allow; reflexivity|]. split; [congruence|]. split; [exact TU|]. split; [exact TE|].
        split; [rewrite (D3 name); congruence|discriminate].
    - split; [|split].
      + destruct allow; cbn [eng_arr r_engine r_files rebuild e_allow e_block];
          rewrite lookup_snapshot, existsb_split_on by (cbn [filled f_id f_enabled]; congruence);
          rewrite TI, Hi, fget_fset_eq; auto.
      + cbn [r_files]. now rewrite TI, Hi, fget_fset_eq.
      + exists (filled (set_target f name nurl true) pst). cbn [filled f_id f_url f_enabled f_sum f_count].
        split; [destruct allow; reflexivity|]. split; [congruence|]. split; [exact TU|]. split; [exact TE|].
        split; reflexivity.
  Qed.

  (** The instance with the URL kept. *)
  Corollary enable_puts_rules_in_force allow u i name d re pst st pre f post :
    arr allow st = pre ++ f :: post -> Forall (other_url u) pre -> f_url f = u -> f_id f = i ->
    f_enabled f = false -> f_sum f = 0 ->
    parse crc d re = (pst, None) ->
    let '(rs, er, st') := set_props allow u name u true (OBody d re) st in
    er = false /\ rs = true /\ engine_consistent st' /\
    lookup i (eng_arr allow (r_engine st')) = (if p_sum pst =? 0 then None else Some (output pst)) /\
    fget i (r_files st') = (if p_sum pst =? 0 then None else Some (output pst)).
  Proof.
    intros Ha Hp Hu Hi En S0 P.
    pose proof (download_puts_rules_in_force allow u i name u d re pst st pre f post Ha Hp Hu Hi
                  (or_introl (conj eq_refl (conj En S0))) P) as H.
    destruct (set_props allow u name u true (OBody d re) st) as [[rs er] st']. tauto.
  Qed.

  (** Disabling an enabled list (its URL kept or replaced by one no list
      has): the engine is rebuilt without it, its file stays, its entry is
      unloaded. *)
  Theorem disable_takes_rules_out allow u i name nurl o st pre f post :
    arr allow st = pre ++ f :: post -> Forall (other_url u) pre ->
    Forall (other_id i) pre -> Forall (other_id i) post -> f_url f = u -> f_id f = i ->
    f_enabled f = true -> nurl = u \/ url_used nurl st = false ->
    let '(rs, er, st') := set_props allow u name nurl false o st in
    er = false /\ rs = true /\ engine_consistent st' /\
    lookup i (eng_arr allow (r_engine st')) = None /\ r_files st' = r_files st /\
    arr allow st' = pre ++ {| f_id := i; f_url := nurl; f_enabled := false; f_name := name; f_count := 0; f_sum := 0 |} :: post.
  Proof.
    intros Ha Hp Hpi Hq Hu Hi En Hn. unfold Refresh.set_props. fold (arr allow st). rewrite Ha.
    rewrite set_in_split by auto. unfold Refresh.set_entry.
    assert (D1 : negb (f_url f =? nurl) && url_used nurl st = false).
    { destruct Hn as [->| ->]; [rewrite Hu, N.eqb_refl; reflexivity|apply andb_false_r]. }
    rewrite D1, En. cbn [Bool.eqb negb]. rewrite orb_true_r.
    assert (TU : unload (set_target f name nurl false)
                 = {| f_id := i; f_url := nurl; f_enabled := false; f_name := name; f_count := 0; f_sum := 0 |}).
    { unfold unload, set_target. destruct (negb _); cbn [f_id f_url f_enabled f_name]; now rewrite Hi. }
    rewrite TU. cbn [negb andb].
    split; [reflexivity|]. split; [reflexivity|]. split; [destruct allow; reflexivity|].
    split; [|split; [reflexivity|destruct allow; reflexivity]].
    destruct allow; cbn [eng_arr r_engine r_files rebuild e_allow e_block];
      rewrite lookup_snapshot, existsb_split_off; auto.
  Qed.

  Lemma flist_eta f : {| f_id := f_id f; f_url := f_url f; f_enabled := f_enabled f; f_name := f_name f;
                         f_count := f_count f; f_sum := f_sum f |} = f.
  Proof. now destruct f. Qed.

  Lemma rstate_arr_same (allow : bool) (st : rstate) :
    {| r_block := (if allow then r_block st else arr allow st); r_allow := (if allow then arr allow st else r_allow st);
       r_files := r_files st; r_engine := r_engine st |} = st.
  Proof. destruct st, allow; reflexivity. Qed.

  (** Enabling with a failing source (any of the failures, at any byte of
      the body): an error is reported and nothing changes. *)
  Theorem failed_enable_is_noop allow u name o st pre f post :
    arr allow st = pre ++ f :: post -> Forall (other_url u) pre -> f_url f = u ->
    f_enabled f = false -> fails crc o ->
    set_props allow u name u true o st = (false, true, st).
  Proof.
    intros Ha Hp Hu En F. unfold Refresh.set_props. fold (arr allow st). rewrite Ha.
    rewrite set_in_split by auto. unfold Refresh.set_entry. rewrite Hu, N.eqb_refl, En. cbn [Bool.eqb negb andb orb].
    rewrite update_one_failed by exact F. cbn [failed_upd u_err u_updated u_list negb andb].
    unfold restored_sum. rewrite <- Hu, <- En, flist_eta, <- Ha. rewrite rstate_arr_same. reflexivity.
  Qed.

  (** A call that would give a list the URL another list (of either array)
      has is refused and changes nothing. *)
  Theorem duplicate_url_is_noop allow u name nurl en o st pre f post :
    arr allow st = pre ++ f :: post -> Forall (other_url u) pre -> f_url f = u ->
    nurl <> u -> url_used nurl st = true ->
    set_props allow u name nurl en o st = (false, true, st).
  Proof.
    intros Ha Hp Hu Nu Us. unfold Refresh.set_props. fold (arr allow st). rewrite Ha.
    rewrite set_in_split by auto. unfold Refresh.set_entry. rewrite Us, Hu.
    replace (u =? nurl) with false by (symmetry; apply N.eqb_neq; congruence). cbn [negb andb].
    rewrite <- Ha, rstate_arr_same. reflexivity.
  Qed.

  (** A failed change of the URL of a list (new URL free, its source failing
      in any of the enumerated ways): an error is reported and nothing changes:
      files, engine, every entry, this entry's URL, name, enabled flag, rule
      count and checksum. *)
  Theorem failed_url_change_is_noop allow u name nurl o st pre f post :
    arr allow st = pre ++ f :: post -> Forall (other_url u) pre -> f_url f = u ->
    nurl <> u -> url_used nurl st = false -> fails crc o ->
    set_props allow u name nurl true o st = (false, true, st).
  Proof.
    intros Ha Hp Hu Nu Us F. unfold Refresh.set_props. fold (arr allow st). rewrite Ha.
    rewrite set_in_split by auto. unfold Refresh.set_entry. rewrite Us, Hu.
    replace (u =? nurl) with false by (symmetry; apply N.eqb_neq; congruence). cbn [negb andb orb].
    rewrite update_one_failed by exact F. cbn [failed_upd u_err u_updated u_list negb andb].
    unfold restored_sum. rewrite <- Hu, flist_eta, <- Ha, rstate_arr_same. reflexivity.
  Qed.

  (** Whatever the call was: if it reports an error, the whole state is as it
      was before (files, entries of both arrays, engine). *)
  Lemma set_entry_err f name nurl dup en o fs rs f' fs' :
    set_entry f name nurl dup en o fs = (rs, true, f', fs') -> f' = f /\ fs' = fs.
  Proof.
    unfold Refresh.set_entry. destruct (_ && dup); [intros H; injection H as _ <- <-; auto|].
    destruct en; [|intros H; discriminate H].
    destruct (_ || _); [|intros H; discriminate H].
    pose proof (update_one_err_files (set_target f name nurl true) o fs) as EF.
    destruct (update_one (set_target f name nurl true) o fs) as [u fs1]. cbn [fst snd] in EF.
    destruct (u_err u).
    - intros H. injection H as _ <- <-. unfold restored_sum. rewrite flist_eta. auto.
    - destruct (u_updated u); [intros H; discriminate H|]. destruct (_ =? 0); intros H; discriminate H.
  Qed.

  Lemma set_in_err : forall ls u name nurl dup en o fs rs ls' fs',
    set_in ls u name nurl dup en o fs = Some (rs, true, ls', fs') -> ls' = ls /\ fs' = fs.
  Proof.
    induction ls as [|f ls IH]; intros u name nurl dup en o fs rs ls' fs'; cbn [Refresh.set_in]; [discriminate|].
    destruct (f_url f =? u).
    - pose proof (set_entry_err f name nurl dup en o fs) as Q.
      destruct (set_entry f name nurl dup en o fs) as [[[rs0 er0] f0] fs0].
      intros H. injection H as -> -> <- ->. destruct (Q rs f0 fs' eq_refl) as [-> ->]. auto.
    - specialize (IH u name nurl dup en o fs).
      destruct (set_in ls u name nurl dup en o fs) as [[[[rs0 er0] ls0] fs0]|]; [|discriminate].
      intros H. injection H as -> -> <- ->. destruct (IH rs ls0 fs' eq_refl) as [-> ->]. auto.
  Qed.

  Theorem failed_set_is_noop allow u name nurl en o st rs st' :
    set_props allow u name nurl en o st = (rs, true, st') -> st' = st.
  Proof.
    unfold Refresh.set_props.
    pose proof (set_in_err (if allow then r_allow st else r_block st) u name nurl (url_used nurl st) en o (r_files st)) as Q.
    destruct (set_in _ u name nurl _ en o _) as [[[[rs0 er0] ls'] fs']|]; [|intros H; injection H as _ <-; reflexivity].
    intros H. injection H as -> -> <-. destruct (Q rs ls' fs' eq_refl) as [-> ->]. cbn [negb andb].
    destruct st, allow; reflexivity.
  Qed.

  (** A call for a URL that no list of the array has is refused and changes
      nothing. *)
  Theorem set_unknown_is_noop allow u name nurl en o st :
    ~ In u (map f_url (arr allow st)) -> set_props allow u name nurl en o st = (false, true, st).
  Proof.
    intros H. unfold Refresh.set_props. fold (arr allow st). now rewrite set_in_urls_absent.
  Qed.
End Meta.

(** * Non-vacuity *)
Module RExamples.
  Definition good : bytes := [124;124;112;49;94;10].     (* ||p1^ *)
  Definition good2 : bytes := [124;124;112;50;94;10].    (* ||p2^ *)
  Definition html : bytes := [60;104;116;109;108;62;10]. (* <html> *)
  Definition mk (i : N) : flist := {| f_id := i; f_url := i; f_enabled := true; f_name := []; f_count := 0; f_sum := 0 |}.
  Definition st0 : rstate :=
    {| r_block := [mk 1]; r_allow := [mk 11]; r_files := []; r_engine := {| e_block := []; e_allow := [] |} |}.
  Definition all (_ : N) := true.
  Definition st1 := refresh crc32_update true true true all (fun _ => OBody good false) st0.
End RExamples.

Example refresh_example :
  fget 1 (r_files RExamples.st1) = Some RExamples.good /\
  map f_count (r_block RExamples.st1) = [1] /\
  map f_name (r_block RExamples.st1) = [[76; 105; 115; 116; 32; 49]] /\
  verdict (r_engine RExamples.st1) [112;49] = 2 /\
  fails crc32_update (OBody RExamples.html false) /\
  fails crc32_update (OBody (firstn 3 RExamples.good) true) /\
  refresh crc32_update true true true RExamples.all
    (fun i => if i =? 1 then OBody RExamples.html false else OOpenErr) RExamples.st1 = RExamples.st1.
Proof. vm_compute. repeat split; congruence. Qed.

(** A failing replacement of the pending file beside a list that is updated:
    the first list keeps file, rule count, checksum and name. *)
Module RenameFail.
  Import RExamples.
  Definition st_a : rstate :=
    {| r_block := [mk 1; mk 2]; r_allow := []; r_files := []; r_engine := {| e_block := []; e_allow := [] |} |}.
  Definition st_b := refresh crc32_update true true true all (fun _ => OBody good false) st_a.
  Definition st_c := refresh crc32_update true true true all
                       (fun i => if i =? 1 then ORenameFail good2 else OBody good2 false) st_b.
End RenameFail.

Example rename_failure_example :
  fentry 1 (r_files RenameFail.st_b) = Some (1, RExamples.good) /\
  map f_count (r_block RenameFail.st_b) = [1; 1] /\
  fentry 1 (r_files RenameFail.st_c) = fentry 1 (r_files RenameFail.st_b) /\
  nth_error (r_block RenameFail.st_c) 0 = nth_error (r_block RenameFail.st_b) 0 /\
  fentry 2 (r_files RenameFail.st_c) = Some (2, RExamples.good2) /\
  verdict (r_engine RenameFail.st_c) [112;49] = 1 /\ verdict (r_engine RenameFail.st_c) [112;50] = 1.
Proof. vm_compute. repeat split; congruence. Qed.

(** An HTML page fails as a source also when blank, white-space-only, comment
    or title lines precede its head. *)
Lemma html_after_unwritten_fails crc pre h rest re :
  Forall (fun l => ~ In 10 l /\ lenN l < max_token) (pre ++ [h]) ->
  Forall (fun l => unwritten (drop_cr l)) pre ->
  is_html_line (trim_space (drop_cr h)) = true ->
  fails crc (OBody (flat_map (fun l => l ++ [10]) pre ++ h ++ 10 :: rest) re).
Proof.
  intros A B C. destruct (parse_html_after_unwritten crc pre h rest re A B C) as (st & P & _).
  cbn. rewrite P. discriminate.
Qed.

(** Non-vacuity for the history theorems: the state after a first refresh is
    well formed; disabling the block list takes p1 out of force, enabling it
    again with the same bytes puts it back (file replaced once more), enabling
    it with a failing source changes nothing. *)
Module SetExamples.
  Import RExamples.
  Definition st_off := snd (set_props crc32_update false 1 [120] 1 false OOpenErr st1).
  Definition st_on := snd (set_props crc32_update false 1 [120] 1 true (OBody good false) st_off).
  (* the block list is pointed to source 101, which delivers p2; then (failing) to source 102 *)
  Definition st_moved := snd (set_props crc32_update false 1 [120] 101 true (OBody good2 false) st1).
  Definition st_failed := snd (set_props crc32_update false 101 [120] 102 true (OBody html false) st_moved).
End SetExamples.

Example wf_example : wf crc32_update RExamples.st0 /\ wf crc32_update RExamples.st1.
Proof.
  assert (W0 : wf crc32_update RExamples.st0).
  { split.
    - cbv [RExamples.st0 RExamples.mk r_block r_allow app map f_id].
      constructor; [cbn; intros [H|[]]; discriminate|]. constructor; [intros []|constructor].
    - cbv [RExamples.st0 RExamples.mk r_block r_allow r_files app].
      constructor; [|constructor; [|constructor]]; cbv [list_ok f_enabled f_count f_sum f_id fget fentry find]; auto. }
  split; [exact W0|]. now apply refresh_wf.
Qed.

Example set_example :
  verdict (r_engine RExamples.st1) [112;49] = 2 /\
  lookup 1 (e_block (r_engine RExamples.st1)) = Some RExamples.good /\
  lookup 1 (e_block (r_engine SetExamples.st_off)) = None /\
  map f_sum (r_block SetExamples.st_off) = [0] /\
  fentry 1 (r_files SetExamples.st_off) = Some (1, RExamples.good) /\
  lookup 1 (e_block (r_engine SetExamples.st_on)) = Some RExamples.good /\
  fentry 1 (r_files SetExamples.st_on) = Some (2, RExamples.good) /\
  set_props crc32_update false 1 [120] 1 true (OBody RExamples.html false) SetExamples.st_off
    = (false, true, SetExamples.st_off).
Proof. vm_compute. repeat split; congruence. Qed.

(** Pointing the block list to another source puts that source's rules in
    force and stores them; a URL another list has is refused; a failing change
    of the URL afterwards reports an error and changes nothing. *)
Example url_change_example :
  map f_url (r_block SetExamples.st_moved) = [101] /\
  fentry 1 (r_files SetExamples.st_moved) = Some (2, RExamples.good2) /\
  lookup 1 (e_block (r_engine SetExamples.st_moved)) = Some RExamples.good2 /\
  url_used 102 SetExamples.st_moved = false /\ url_used 11 SetExamples.st_moved = true /\
  set_props crc32_update false 101 [120] 11 true (OBody RExamples.good false) SetExamples.st_moved
    = (false, true, SetExamples.st_moved) /\
  set_props crc32_update false 101 [120] 102 true (OBody RExamples.html false) SetExamples.st_moved
    = (false, true, SetExamples.st_moved) /\
  SetExamples.st_failed = SetExamples.st_moved /\
  map f_count (r_block SetExamples.st_moved) = [1] /\
  map f_sum (r_block SetExamples.st_moved) <> [0].
Proof. vm_compute. repeat split; congruence. Qed.

Example url_change_wf : wf crc32_update SetExamples.st_moved.
Proof. apply set_props_wf. exact (proj2 wf_example). Qed.

(** Proofs about Model/Refresh.v (C15): a failing refresh is a no-op, equal
    checksums are not written, what is written is a normal form. *)
From Coq Require Import NArith List Bool Lia.
From AGH Require Import Base.Run Model.RuleListParser Model.Refresh Proofs.RuleListParser.
Import ListNotations.
Local Open Scope N_scope.

Lemma fget_fset_eq i c fs : fget i (fset i c fs) = Some c.
Proof. unfold fget, fset. cbn. now rewrite N.eqb_refl. Qed.

Lemma fget_fset_ne i j c fs : i <> j -> fget j (fset i c fs) = fget j fs.
Proof.
  intros N. unfold fget, fset. cbn [find fst].
  destruct (N.eqb_spec i j) as [|_]; [contradiction|].
  induction fs as [|[k v] fs IH]; cbn; auto.
  destruct (N.eqb_spec k i) as [->|Nk]; cbn.
  - destruct (N.eqb_spec i j); [contradiction|]. exact IH.
  - destruct (k =? j); auto.
Qed.

Section Refresh.
  Variable crc : N -> bytes -> N.
  Notation update_one := (update_one crc).
  Notation update_all := (update_all crc).
  Notation refresh_array := (refresh_array crc).
  Notation refresh := (refresh crc).

  (** The enumerated failures: no reader (connection error, bad status,
      unreadable or unsafe file), a reader that ends in an error at any byte
      position, content the parser rejects (HTML, binary, over-long line). *)
  Definition fails (o : outcome) : Prop :=
    match o with
    | OOpenErr => True
    | OBody d re => snd (parse crc d re) <> None
    | ORenameFail d => snd (parse crc d false) <> None
    end.

  Definition failed_upd (l : flist) : upd :=
    {| u_id := f_id l; u_updated := false; u_err := true; u_count := 0; u_sum := f_sum l |}.

  Lemma update_one_failed l o fs : fails o -> update_one l o fs = (failed_upd l, fs).
  Proof.
    unfold Refresh.update_one, fails. destruct o as [|d re|d]; auto.
    - destruct (parse crc d re) as [st [e|]]; cbn; [reflexivity|congruence].
    - destruct (parse crc d false) as [st [e|]]; cbn; [reflexivity|congruence].
  Qed.

  (** A body cut by a read error fails wherever it is cut. *)
  Lemma cut_body_fails d : fails (OBody d true).
  Proof.
    cbn. destruct (parse crc d true) as [st e] eqn:P. cbn. eapply parse_read_error; eauto.
  Qed.

  (** Same checksum: nothing is written, nothing is reported as updated. *)
  Lemma update_one_same_checksum l d re st fs :
    parse crc d re = (st, None) -> p_sum st = f_sum l ->
    update_one l (OBody d re) fs =
      ({| u_id := f_id l; u_updated := false; u_err := false; u_count := 0; u_sum := f_sum l |}, fs).
  Proof. intros P E. unfold Refresh.update_one. now rewrite P, E, N.eqb_refl. Qed.

  (** The file is written only on success, and then with a normal form whose
      re-parse gives the recorded count and checksum. *)
  Lemma update_one_cases l o fs :
    let '(u, fs') := update_one l o fs in
    (u_updated u = false /\ fs' = fs) \/
    (exists d, o = ORenameFail d /\ fs' = fs /\ u_updated u = true /\ u_err u = true /\
               u_count u = 0 /\ u_sum u = f_sum l) \/
    (exists d re st, o = OBody d re /\ parse crc d re = (st, None) /\ p_sum st <> f_sum l /\
       u_updated u = true /\ u_err u = false /\ u_count u = p_count st /\ u_sum u = p_sum st /\
       fs' = fset (f_id l) (output st) fs /\
       exists st', parse crc (output st) false = (st', None) /\ output st' = output st /\
                   p_count st' = p_count st /\ p_sum st' = p_sum st).
  Proof.
    unfold Refresh.update_one. destruct o as [|d re|d]; [now left| |].
    - destruct (parse crc d re) as [st [e|]] eqn:P; [now left|].
      destruct (N.eqb_spec (p_sum st) (f_sum l)); [now left|].
      right; right. exists d, re, st. repeat split; auto.
      destruct (parse_fixed_point crc _ _ _ P) as (st' & A & B & C & D & _). eauto.
    - destruct (parse crc d false) as [st [e|]] eqn:P; [now left|].
      destruct (N.eqb_spec (p_sum st) (f_sum l)); [now left|].
      right; left. exists d. repeat split; auto.
  Qed.

  Lemma update_one_id l o fs : u_id (fst (update_one l o fs)) = f_id l.
  Proof.
    unfold Refresh.update_one. destruct o as [|d re|d]; auto.
    - destruct (parse crc d re) as [st [e|]]; auto. destruct (p_sum st =? f_sum l); auto.
    - destruct (parse crc d false) as [st [e|]]; auto. destruct (p_sum st =? f_sum l); auto.
  Qed.

  Lemma update_one_fget l o fs i :
    (f_id l = i -> fails o) ->
    fget i (snd (update_one l o fs)) = fget i fs /\
    (u_id (fst (update_one l o fs)) = i -> u_updated (fst (update_one l o fs)) = false).
  Proof.
    intros H. destruct (N.eq_dec (f_id l) i) as [E|E].
    - rewrite (update_one_failed l o fs (H E)). auto.
    - split; [|rewrite update_one_id; congruence].
      pose proof (update_one_cases l o fs) as C. destruct (update_one l o fs) as [u fs'].
      cbn [snd]. destruct C as [[_ ->]|[(d & _ & -> & _)|(d & re & st & _ & _ & _ & _ & _ & _ & _ & -> & _)]]; auto.
      now apply fget_fset_ne.
  Qed.

  Lemma update_all_fget i oc : fails (oc i) -> forall ls fs,
    fget i (snd (update_all ls oc fs)) = fget i fs /\
    Forall (fun u => u_id u = i -> u_updated u = false) (fst (update_all ls oc fs)).
  Proof.
    intros Hf. induction ls as [|l ls IH]; intros fs; cbn [Refresh.update_all]; [split; [reflexivity|constructor]|].
    pose proof (update_one_fget l (oc (f_id l)) fs i) as H1.
    destruct (update_one l (oc (f_id l)) fs) as [u fs1]. cbn [fst snd] in H1.
    specialize (IH fs1). destruct (update_all ls oc fs1) as [us fs2]. cbn [fst snd] in *.
    destruct H1 as [A B]; [intros <-; exact Hf|]. destruct IH as [C D].
    split; [congruence|]. constructor; auto.
  Qed.

  Lemma update_all_all_failed oc : forall ls fs,
    (forall l, In l ls -> fails (oc (f_id l))) ->
    update_all ls oc fs = (map failed_upd ls, fs).
  Proof.
    induction ls as [|l ls IH]; intros fs H; cbn [Refresh.update_all map]; auto.
    rewrite update_one_failed by (apply H; now left). rewrite IH; auto.
    intros; apply H; now right.
  Qed.

  Lemma apply_upd_unchanged us f :
    Forall (fun u => u_id u = f_id f -> u_updated u = false) us -> apply_upd us f = f.
  Proof.
    intros H. unfold apply_upd.
    destruct (find _ us) as [u|] eqn:F; auto.
    apply find_some in F. destruct F as [Hin Hb]. apply andb_true_iff in Hb. destruct Hb as [Hi Hu].
    apply N.eqb_eq in Hi. eapply Forall_forall in H; eauto. rewrite (H Hi) in Hu. discriminate.
  Qed.

  (** ** One list fails: its file and its metadata stay *)

  Lemma refresh_array_failed_list i ls force due oc fs :
    fails (oc i) ->
    let '(_, _, ls', fs') := refresh_array ls force due oc fs in
    fget i fs' = fget i fs /\
    length ls' = length ls /\
    forall k l, nth_error ls k = Some l -> f_id l = i -> nth_error ls' k = Some l.
  Proof.
    intros Hf. unfold Refresh.refresh_array.
    set (to_upd := filter _ ls). destruct to_upd as [|t0 tu] eqn:Et; [auto|].
    rewrite <- Et. clear Et.
    destruct (update_all_fget i oc Hf to_upd fs) as [A B].
    destruct (update_all to_upd oc fs) as [us fs']. cbn [fst snd] in *.
    destruct (forallb u_err us); [auto|].
    split; auto. split; [apply map_length|].
    intros k l Hk Hi. rewrite nth_error_map, Hk. cbn. f_equal. apply apply_upd_unchanged.
    now rewrite Hi.
  Qed.

  Theorem refresh_failed_list_noop i b a force due oc st :
    fails (oc i) ->
    let st' := refresh b a force due oc st in
    fget i (r_files st') = fget i (r_files st) /\
    (forall k l, nth_error (r_block st) k = Some l -> f_id l = i -> nth_error (r_block st') k = Some l) /\
    (forall k l, nth_error (r_allow st) k = Some l -> f_id l = i -> nth_error (r_allow st') k = Some l).
  Proof.
    intros Hf. unfold Refresh.refresh.
    pose proof (refresh_array_failed_list i (r_block st) force due oc (r_files st) Hf) as H1.
    destruct b.
    - destruct (refresh_array (r_block st) force due oc (r_files st)) as [[[n1 e1] bl] fs1].
      destruct H1 as (A1 & _ & B1).
      pose proof (refresh_array_failed_list i (r_allow st) force due oc fs1 Hf) as H2.
      destruct a.
      + destruct (refresh_array (r_allow st) force due oc fs1) as [[[n2 e2] al] fs2].
        destruct H2 as (A2 & _ & B2). cbn. repeat split; auto. congruence.
      + cbn. repeat split; auto.
    - pose proof (refresh_array_failed_list i (r_allow st) force due oc (r_files st) Hf) as H2.
      destruct a.
      + destruct (refresh_array (r_allow st) force due oc (r_files st)) as [[[n2 e2] al] fs2].
        destruct H2 as (A2 & _ & B2). cbn. repeat split; auto.
      + cbn. repeat split; auto.
  Qed.

  (** ** ... and the text in force for it stays, if the engine was in step
      with the files *)

  Definition lookup (i : N) (snap : list (N * bytes)) : option bytes :=
    match find (fun e => fst e =? i) snap with Some e => Some (snd e) | None => None end.

  Definition in_force (e : engine) (i : N) : option bytes * option bytes :=
    (lookup i (e_block e), lookup i (e_allow e)).

  Definition engine_consistent (st : rstate) : Prop :=
    r_engine st = {| e_block := snapshot (r_block st) (r_files st);
                     e_allow := snapshot (r_allow st) (r_files st) |}.

  Lemma lookup_snapshot i fs : forall ls,
    lookup i (snapshot ls fs)
    = if existsb (fun l => (f_id l =? i) && f_enabled l) ls then fget i fs else None.
  Proof.
    unfold lookup. induction ls as [|l ls IH]; cbn [snapshot flat_map existsb]; auto.
    fold (snapshot ls fs).
    destruct (f_enabled l); [|rewrite andb_false_r; cbn [app orb]; exact IH].
    rewrite andb_true_r.
    destruct (fget (f_id l) fs) as [c|] eqn:G; cbn [app find fst snd].
    - destruct (N.eqb_spec (f_id l) i) as [E|E]; cbn [orb]; [now rewrite <- E, G|exact IH].
    - destruct (N.eqb_spec (f_id l) i) as [E|E]; cbn [orb]; [|exact IH].
      rewrite IH, <- E, G. destruct (existsb (fun l0 => (f_id l0 =? f_id l) && f_enabled l0) ls); reflexivity.
  Qed.

  Lemma existsb_apply_upd i us ls :
    existsb (fun l => (f_id l =? i) && f_enabled l) (map (apply_upd us) ls)
    = existsb (fun l => (f_id l =? i) && f_enabled l) ls.
  Proof.
    induction ls as [|l ls IH]; cbn [map existsb]; auto. rewrite IH. f_equal.
    unfold apply_upd. destruct (find _ us); reflexivity.
  Qed.

  Lemma refresh_array_enabled i ls force due oc fs :
    let '(_, _, ls', _) := refresh_array ls force due oc fs in
    existsb (fun l => (f_id l =? i) && f_enabled l) ls'
    = existsb (fun l => (f_id l =? i) && f_enabled l) ls.
  Proof.
    unfold Refresh.refresh_array. destruct (filter _ ls) as [|t0 tu]; auto.
    destruct (update_all (t0 :: tu) oc fs) as [us fs']. destruct (forallb u_err us); auto.
    apply existsb_apply_upd.
  Qed.

  Theorem refresh_failed_list_in_force i b a force due oc st :
    engine_consistent st -> fails (oc i) ->
    in_force (r_engine (refresh b a force due oc st)) i = in_force (r_engine st) i.
  Proof.
    intros Hc Hf. unfold Refresh.refresh.
    assert (H1 : let '(_, _, bl, fs1) :=
                   (if b then refresh_array (r_block st) force due oc (r_files st)
                    else (0, false, r_block st, r_files st)) in
                 fget i fs1 = fget i (r_files st) /\
                 existsb (fun l => (f_id l =? i) && f_enabled l) bl
                 = existsb (fun l => (f_id l =? i) && f_enabled l) (r_block st)).
    { destruct b; [|auto].
      pose proof (refresh_array_failed_list i (r_block st) force due oc (r_files st) Hf) as A.
      pose proof (refresh_array_enabled i (r_block st) force due oc (r_files st)) as B.
      destruct (refresh_array (r_block st) force due oc (r_files st)) as [[[? ?] ?] ?]. tauto. }
    destruct (if b then _ else _) as [[[n1 e1] bl] fs1]. destruct H1 as [F1 X1].
    assert (H2 : let '(_, _, al, fs2) :=
                   (if a then refresh_array (r_allow st) force due oc fs1
                    else (0, false, r_allow st, fs1)) in
                 fget i fs2 = fget i fs1 /\
                 existsb (fun l => (f_id l =? i) && f_enabled l) al
                 = existsb (fun l => (f_id l =? i) && f_enabled l) (r_allow st)).
    { destruct a; [|auto].
      pose proof (refresh_array_failed_list i (r_allow st) force due oc fs1 Hf) as A.
      pose proof (refresh_array_enabled i (r_allow st) force due oc fs1) as B.
      destruct (refresh_array (r_allow st) force due oc fs1) as [[[? ?] ?] ?]. tauto. }
    destruct (if a then _ else _) as [[[n2 e2] al] fs2]. destruct H2 as [F2 X2].
    cbn [r_engine]. destruct (e1 || e2); auto. destruct (n1 + n2 =? 0); auto.
    rewrite Hc. unfold in_force. cbn [e_block e_allow].
    rewrite !lookup_snapshot, X1, X2, F2, F1. reflexivity.
  Qed.

  (** ** Every attempted list fails: nothing at all changes *)

  Lemma forallb_err_failed ls : forallb u_err (map failed_upd ls) = true.
  Proof. induction ls; cbn; auto. Qed.

  Lemma refresh_array_all_failed ls force due oc fs :
    (forall l, In l ls -> fails (oc (f_id l))) ->
    exists e, refresh_array ls force due oc fs = (0, e, ls, fs).
  Proof.
    intros H. unfold Refresh.refresh_array.
    set (to_upd := filter _ ls). assert (Hs : forall l, In l to_upd -> In l ls).
    { intros l Hl. apply filter_In in Hl. tauto. }
    destruct to_upd as [|t0 tu] eqn:Et; [eauto|]. rewrite <- Et in *. clear Et.
    rewrite update_all_all_failed by auto. rewrite forallb_err_failed. eauto.
  Qed.

  Theorem refresh_all_failed_noop b a force due oc st :
    (forall l, In l (r_block st ++ r_allow st) -> fails (oc (f_id l))) ->
    refresh b a force due oc st = st.
  Proof.
    intros H. unfold Refresh.refresh.
    destruct (refresh_array_all_failed (r_block st) force due oc (r_files st)) as [e1 E1].
    { intros; apply H, in_app_iff; now left. }
    destruct (refresh_array_all_failed (r_allow st) force due oc (r_files st)) as [e2 E2].
    { intros; apply H, in_app_iff; now right. }
    destruct st as [bl al fs eng]. cbn [r_block r_allow r_files r_engine] in *.
    destruct b, a; rewrite ?E1, ?E2; cbn [N.add N.eqb orb]; destruct e1, e2; reflexivity.
  Qed.

  (** Any sequence of refreshes in which every source fails. *)
  Record rop := { o_block : bool; o_allow : bool; o_force : bool; o_due : N -> bool; o_oc : N -> outcome }.

  Definition run_ops (ops : list rop) (st : rstate) : rstate :=
    fold_left (fun st o => refresh (o_block o) (o_allow o) (o_force o) (o_due o) (o_oc o) st) ops st.

  Theorem failed_refreshes_noop ops st :
    Forall (fun o => forall l, In l (r_block st ++ r_allow st) -> fails (o_oc o (f_id l))) ops ->
    run_ops ops st = st.
  Proof.
    unfold run_ops. induction 1 as [|o ops Ho _ IH]; cbn [fold_left]; auto.
    rewrite refresh_all_failed_noop; auto.
  Qed.
End Refresh.

(** * Non-vacuity *)
Module RExamples.
  Definition good : bytes := [124;124;112;49;94;10].     (* ||p1^ *)
  Definition html : bytes := [60;104;116;109;108;62;10]. (* <html> *)
  Definition st0 : rstate :=
    {| r_block := [{| f_id := 1; f_enabled := true; f_count := 0; f_sum := 0 |}];
       r_allow := [{| f_id := 11; f_enabled := true; f_count := 0; f_sum := 0 |}];
       r_files := []; r_engine := {| e_block := []; e_allow := [] |} |}.
  Definition all (_ : N) := true.
  Definition st1 := refresh crc32_update true true true all (fun _ => OBody good false) st0.
End RExamples.

Example refresh_example :
  fget 1 (r_files RExamples.st1) = Some RExamples.good /\
  map f_count (r_block RExamples.st1) = [1] /\
  verdict (r_engine RExamples.st1) [112;49] = 2 /\
  fails crc32_update (OBody RExamples.html false) /\
  fails crc32_update (OBody (firstn 3 RExamples.good) true) /\
  refresh crc32_update true true true RExamples.all
    (fun i => if i =? 1 then OBody RExamples.html false else OOpenErr) RExamples.st1 = RExamples.st1.
Proof. vm_compute. repeat split; congruence. Qed.

(** A failing rename of the pending file ([CloseReplace]) is not one of the
    failures the property lists, and the code does not treat it as one: the
    file stays, but the update is still reported ([ok] remains true in
    [updateIntl]), so when another list of the same array succeeds the entry
    gets the rule count of the never-filled working copy, 0. *)
Module RenameFail.
  Import RExamples.
  Definition st_a : rstate :=
    {| r_block := [{| f_id := 1; f_enabled := true; f_count := 0; f_sum := 0 |};
                   {| f_id := 2; f_enabled := true; f_count := 0; f_sum := 0 |}];
       r_allow := []; r_files := []; r_engine := {| e_block := []; e_allow := [] |} |}.
  Definition good2 : bytes := [124;124;112;50;94;10].    (* ||p2^ *)
  Definition st_b := refresh crc32_update true true true all (fun _ => OBody good false) st_a.
  Definition st_c := refresh crc32_update true true true all
                       (fun i => if i =? 1 then ORenameFail good2 else OBody good2 false) st_b.
End RenameFail.

Example rename_failure_resets_count :
  fget 1 (r_files RenameFail.st_b) = Some RExamples.good /\
  map f_count (r_block RenameFail.st_b) = [1; 1] /\
  fget 1 (r_files RenameFail.st_c) = fget 1 (r_files RenameFail.st_b) /\
  map f_count (r_block RenameFail.st_c) = [0; 1] /\
  map f_sum (r_block RenameFail.st_c) <> map f_sum (r_block RenameFail.st_b) /\
  nth 0 (map f_sum (r_block RenameFail.st_c)) 0 = nth 0 (map f_sum (r_block RenameFail.st_b)) 0.
Proof. vm_compute. repeat split; congruence. Qed.

(** Proofs about the request side of the blocked services (C18): which
    services are blocked for a request, given the global list and schedule
    and the list and schedule of the request's persistent client. *)
From Coq Require Import ZArith List Bool Lia.
From AGH Require Import Base.Run Model.Schedule Model.ScheduleText Model.BlockedSvcHttp
  Model.BlockedSvcClient Proofs.Schedule Proofs.BlockedSvcHttp.
Import ListNotations.
Local Open Scope Z_scope.

(** * Specification *)

(** The client's own blocked services, when the request belongs to a
    persistent client that uses its own. *)
Definition own_list (c : option client) : option bsvc :=
  match c with
  | Some c => if cl_use_own c then Some (cl_bsvc c) else None
  | None => None
  end.

(** The list and schedule that govern the request: the client's own REPLACE
    the global ones. *)
Definition effective (g : bsvc) (c : option client) : bsvc :=
  match own_list c with Some b => b | None => g end.

(** The instant that is compared with it (the code reads the clock once for
    the global schedule and once more for the client's). *)
Definition effective_instant (c : option client) (t1 t2 : Z) : Z :=
  match own_list c with Some _ => t2 | None => t1 end.

(** "In pause at t": the wall-clock reading of C18_wall_clock, in the zone
    the schedule is stored with. *)
Definition in_pause (zoff : bytes -> Z -> Z) (sc : sched) (t : Z) : Prop :=
  in_effect (sc_days sc) (zoff (sc_zone sc)) t.

Definition services_spec zoff known (g : bsvc) (c : option client) (t1 t2 : Z) : list bytes :=
  match own_list c with
  | Some b => if paused zoff (bs_sched b) t2 then [] else filter (id_known known) (bs_ids b)
  | None => if paused zoff (bs_sched g) t1 then [] else filter (id_known known) (bs_ids g)
  end.

(** * The pieces *)

Lemma clone_days w :
  map (fun r => {| dr_start := dr_start r; dr_end := dr_end r |}) w = w.
Proof. induction w as [|[s e] w IH]; cbn; [reflexivity|]. rewrite IH. reflexivity. Qed.

Lemma clone_bsvc_id b : clone_bsvc b = b.
Proof.
  destruct b as [ids [z w]]. unfold clone_bsvc, clone_sched; cbn [bs_ids bs_sched sc_zone sc_days].
  rewrite map_id, clone_days. reflexivity.
Qed.

Lemma paused_in_pause zoff sc t : paused zoff sc t = true <-> in_pause zoff sc t.
Proof. apply contains_wall_clock. Qed.

Lemma apply_list_spec known se ids :
  apply_list known se ids =
  {| se_rules := se_rules se ++ filter (id_known known) ids; se_bsvc := se_bsvc se;
     se_filtering := se_filtering se |}.
Proof.
  unfold apply_list, set_rules. f_equal.
  generalize (se_rules se) as acc. induction ids as [|x ids IH]; intros acc; cbn [fold_left filter].
  - rewrite app_nil_r. reflexivity.
  - destruct (id_known known x).
    + rewrite IH. rewrite <- app_assoc. reflexivity.
    + apply IH.
Qed.

(** [ApplyBlockedServices] is the [apply] of the HTTP part at the pause
    verdict of the stored schedule. *)
Lemma apply_blocked_services_spec zoff known g t se :
  apply_blocked_services zoff known g t se =
  {| se_rules := apply known g (paused zoff (bs_sched g) t); se_bsvc := se_bsvc se;
     se_filtering := se_filtering se |}.
Proof.
  unfold apply_blocked_services, apply. destruct (paused zoff (bs_sched g) t); cbn [negb].
  - reflexivity.
  - rewrite apply_list_spec. reflexivity.
Qed.

(** * The request *)

(** For whatever settings the caller hands over: the list and schedule in
    [setts.BlockedServices] after the client lookup decide alone. *)
Lemma apply_additional_filtering_spec zoff known g c t1 t2 se :
  se_rules (apply_additional_filtering zoff known g c t1 t2 se) =
  match (match own_list c with Some b => Some b | None => se_bsvc se end) with
  | Some b => if paused zoff (bs_sched b) t2 then [] else filter (id_known known) (bs_ids b)
  | None => if paused zoff (bs_sched g) t1 then [] else filter (id_known known) (bs_ids g)
  end.
Proof.
  unfold apply_additional_filtering. rewrite apply_blocked_services_spec.
  unfold apply_client_filtering, own_list.
  destruct c as [[os fl own cb]|]; cbn [cl_use_own cl_bsvc cl_use_own_settings cl_filtering].
  - destruct own, os; cbn [negb se_bsvc se_rules].
    1,2: rewrite clone_bsvc_id; destruct (paused zoff (bs_sched cb) t2); cbn [negb];
         [reflexivity|rewrite apply_list_spec; reflexivity].
    1,2: destruct (se_bsvc se) as [b|];
         [destruct (paused zoff (bs_sched b) t2); cbn [negb]; [reflexivity|];
          rewrite apply_list_spec; reflexivity
         |cbn [se_rules]; unfold apply; reflexivity].
  - cbn [se_bsvc]. destruct (se_bsvc se) as [b|].
    + destruct (paused zoff (bs_sched b) t2); cbn [negb]; [reflexivity|].
      rewrite apply_list_spec. reflexivity.
    + cbn [se_rules]. unfold apply. reflexivity.
Qed.

Lemma request_services_spec zoff known g c t1 t2 :
  request_services zoff known g c t1 t2 = services_spec zoff known g c t1 t2.
Proof.
  unfold request_services. rewrite apply_additional_filtering_spec.
  unfold services_spec, fresh_settings; cbn [se_bsvc]. destruct (own_list c); reflexivity.
Qed.

Lemma services_spec_effective zoff known g c t1 t2 :
  services_spec zoff known g c t1 t2 =
  if paused zoff (bs_sched (effective g c)) (effective_instant c t1 t2) then []
  else filter (id_known known) (bs_ids (effective g c)).
Proof. unfold services_spec, effective, effective_instant. destruct (own_list c); reflexivity. Qed.

(** The clause itself, on the wall clock: during the pause of the governing
    schedule nothing is blocked, outside it exactly the governing list (the
    names the service table has). *)
Lemma request_services_wall_clock zoff known g c t1 t2 :
  let b := effective g c in
  let t := effective_instant c t1 t2 in
  (in_pause zoff (bs_sched b) t -> request_services zoff known g c t1 t2 = []) /\
  (~ in_pause zoff (bs_sched b) t ->
   request_services zoff known g c t1 t2 = filter (id_known known) (bs_ids b)).
Proof.
  cbn zeta. rewrite request_services_spec, services_spec_effective.
  pose proof (paused_in_pause zoff (bs_sched (effective g c)) (effective_instant c t1 t2)) as H.
  destruct (paused zoff (bs_sched (effective g c)) (effective_instant c t1 t2)); split; intros Hp.
  - reflexivity.
  - exfalso. apply Hp. apply H. reflexivity.
  - apply H in Hp. discriminate.
  - reflexivity.
Qed.

(** A service is blocked for a request at instant [t] exactly when it is on
    the governing list, in the service table, and the governing schedule is
    not in pause at [t]'s wall clock. *)
Lemma request_blocks_iff zoff known g c t name :
  In name (request_services zoff known g c t t) <->
  In name (bs_ids (effective g c)) /\ id_known known name = true /\
  ~ in_pause zoff (bs_sched (effective g c)) t.
Proof.
  pose proof (request_services_wall_clock zoff known g c t t) as H. cbn zeta in H.
  assert (Ht : effective_instant c t t = t) by (unfold effective_instant; destruct (own_list c); reflexivity).
  rewrite Ht in H. destruct H as [Hp Hn].
  pose proof (paused_in_pause zoff (bs_sched (effective g c)) t) as Hd.
  destruct (paused zoff (bs_sched (effective g c)) t) eqn:E.
  - rewrite Hp by (apply Hd; reflexivity). split; [intros []|].
    intros (_ & _ & Hno). apply Hno. apply Hd. reflexivity.
  - assert (Hnp : ~ in_pause zoff (bs_sched (effective g c)) t).
    { intros Hp'. apply Hd in Hp'. discriminate. }
    rewrite Hn by exact Hnp. rewrite filter_In. tauto.
Qed.

(** The client's own list replaces the global one: the global list, the
    global schedule and the instant they were looked at are irrelevant for a
    client with own blocked services (seeded change C18-C breaks this). *)
Lemma own_client_ignores_global zoff known g g' c b t1 t1' t2 :
  own_list c = Some b ->
  request_services zoff known g c t1 t2 = request_services zoff known g' c t1' t2.
Proof.
  intros H. rewrite !request_services_spec. unfold services_spec. rewrite H. reflexivity.
Qed.

Lemma own_client_paused_blocks_nothing zoff known g c b t1 t2 :
  own_list c = Some b -> in_pause zoff (bs_sched b) t2 ->
  request_services zoff known g c t1 t2 = [].
Proof.
  intros H Hp. rewrite request_services_spec. unfold services_spec. rewrite H.
  apply paused_in_pause in Hp. rewrite Hp. reflexivity.
Qed.

(** Without own blocked services the request follows the global ones. *)
Lemma plain_request_is_global zoff known g c t1 t2 :
  own_list c = None ->
  request_services zoff known g c t1 t2 = apply known g (paused zoff (bs_sched g) t1).
Proof.
  intros H. rewrite request_services_spec. unfold services_spec, apply. rewrite H. reflexivity.
Qed.

(** * Requests after a history of HTTP requests *)

(** After any history the global part of a request follows the schedule of
    the last accepted update. *)
Lemma request_after_last_update zoff known s ops1 o ops2 sc c t1 t2 :
  accepted_update known o sc -> no_accepted_update known ops2 -> own_list c = None ->
  request_services zoff known (run known s (ops1 ++ o :: ops2)) c t1 t2 =
  if paused zoff sc t1 then []
  else filter (id_known known) (bs_ids (run known s (ops1 ++ o :: ops2))).
Proof.
  intros Ha Hn Hc. rewrite plain_request_is_global by exact Hc.
  rewrite (schedule_is_last_update known s ops1 o ops2 sc Ha Hn). reflexivity.
Qed.

(** A legacy set changes the list a request is judged by, never the pause. *)
Lemma request_after_legacy_set zoff known ids s c t1 t2 :
  own_list c = None ->
  request_services zoff known (snd (step known (OSet ids) s)) c t1 t2 =
  if paused zoff (bs_sched s) t1 then [] else filter (id_known known) ids.
Proof. intros Hc. rewrite plain_request_is_global by exact Hc. reflexivity. Qed.

(** No history of requests to the global endpoints touches what a client
    with own blocked services gets. *)
Lemma own_client_ignores_history zoff known s ops c b t1 t2 :
  own_list c = Some b ->
  request_services zoff known (run known s ops) c t1 t2 = request_services zoff known s c t1 t2.
Proof. intros H. eapply own_client_ignores_global. exact H. Qed.

(** * Non-vacuity *)

Definition ex_zoff (z : bytes) (t : Z) : Z := if eqb_bytes z [75]%N then 19800 else 0.
Definition ex_global : bsvc :=
  {| bs_ids := [[97]; [120]; [98]]%N;
     bs_sched := {| sc_zone := [85]%N; sc_days := repeat zero_range 7 |} |}.
(** A client pausing 09:00-17:00 every day in a zone at +05:30. *)
Definition ex_client : client :=
  {| cl_use_own_settings := false; cl_filtering := true; cl_use_own := true;
     cl_bsvc := {| bs_ids := [[98]]%N;
                   bs_sched := {| sc_zone := [75]%N;
                                  sc_days := repeat {| dr_start := 9 * ns_hour; dr_end := 17 * ns_hour |} 7 |} |} |}.

(** 1970-01-01 04:00 UTC is 09:30 at +05:30 (in the client's pause), 12:00 UTC
    is 17:30 (outside).  The global list is not paused; its [x] is not in the
    table. *)
Lemma ex_requests :
  request_services ex_zoff ex_known ex_global None (4 * ns_hour) (4 * ns_hour) = [[97]; [98]]%N /\
  request_services ex_zoff ex_known ex_global (Some ex_client) (4 * ns_hour) (4 * ns_hour) = [] /\
  request_services ex_zoff ex_known ex_global (Some ex_client) (12 * ns_hour) (12 * ns_hour) = [[98]]%N /\
  own_list (Some ex_client) = Some (cl_bsvc ex_client) /\
  in_pause ex_zoff (bs_sched (cl_bsvc ex_client)) (4 * ns_hour) /\
  ~ in_pause ex_zoff (bs_sched (cl_bsvc ex_client)) (12 * ns_hour).
Proof.
  repeat split; try (vm_compute; reflexivity).
  - apply paused_in_pause. vm_compute. reflexivity.
  - intros H. apply paused_in_pause in H. vm_compute in H. discriminate.
Qed.

(** The seeded change C18-C as a model variant: the reset moved inside the
    not-paused branch.  It keeps the global rules for a paused client. *)
Definition apply_additional_filtering_c18c zoff known (g : bsvc) (c : option client) (t1 t2 : Z)
    (se : settings) : settings :=
  let se := apply_blocked_services zoff known g t1 se in
  let se := apply_client_filtering c se in
  match se_bsvc se with
  | Some b =>
      if negb (paused zoff (bs_sched b) t2) then apply_list known (set_rules se []) (bs_ids b) else se
  | None => se
  end.

Lemma reset_inside_branch_refuted :
  exists zoff known g c t,
    in_pause zoff (bs_sched (effective g (Some c))) t /\
    se_rules (apply_additional_filtering_c18c zoff known g (Some c) t t fresh_settings) <> [] /\
    request_services zoff known g (Some c) t t = [].
Proof.
  exists ex_zoff, ex_known, ex_global, ex_client, (4 * ns_hour). repeat split.
  - apply paused_in_pause. vm_compute. reflexivity.
  - vm_compute. discriminate.
Qed.

(** * The two switches of a persistent client

    [UseOwnBlockedServices] (use_global_blocked_services negated) alone
    decides which list and schedule a request of the client gets;
    [UseOwnSettings] (use_global_settings negated) alone decides whose general
    settings it gets. *)

(** Own list under own schedule iff the client does not use the global
    blocked services. *)
Lemma client_request_services zoff known g c t1 t2 :
  request_services zoff known g (Some c) t1 t2 =
  if cl_use_own c
  then (if paused zoff (bs_sched (cl_bsvc c)) t2 then []
        else filter (id_known known) (bs_ids (cl_bsvc c)))
  else (if paused zoff (bs_sched g) t1 then [] else filter (id_known known) (bs_ids g)).
Proof.
  rewrite request_services_spec. unfold services_spec, own_list. destruct (cl_use_own c); reflexivity.
Qed.

Lemma own_services_independent_of_own_settings zoff known g c c' t1 t2 :
  cl_use_own c = cl_use_own c' -> cl_bsvc c = cl_bsvc c' ->
  request_services zoff known g (Some c) t1 t2 = request_services zoff known g (Some c') t1 t2.
Proof. intros H1 H2. rewrite !client_request_services, H1, H2. reflexivity. Qed.

(** In particular flipping use_global_settings changes nothing. *)
Definition with_own_settings (b f : bool) (c : client) : client :=
  {| cl_use_own_settings := b; cl_filtering := f; cl_use_own := cl_use_own c; cl_bsvc := cl_bsvc c |}.

Lemma flip_own_settings_keeps_services zoff known g c b f t1 t2 :
  request_services zoff known g (Some (with_own_settings b f c)) t1 t2 =
  request_services zoff known g (Some c) t1 t2.
Proof. apply own_services_independent_of_own_settings; reflexivity. Qed.

(** The other direction: the general settings follow [UseOwnSettings] only. *)
Lemma request_filtering_spec zoff known gf g c t1 t2 :
  request_filtering zoff known gf g c t1 t2 =
  match c with
  | Some c => if cl_use_own_settings c then cl_filtering c else gf
  | None => gf
  end.
Proof.
  unfold request_filtering, apply_additional_filtering. rewrite apply_blocked_services_spec.
  unfold apply_client_filtering, settings_of.
  destruct c as [[os fl own cb]|]; cbn [cl_use_own cl_bsvc cl_use_own_settings cl_filtering se_bsvc].
  - destruct own, os; cbn [negb se_bsvc se_filtering se_rules];
      try (destruct (paused zoff (bs_sched (clone_bsvc cb)) t2); cbn [negb];
           rewrite ?apply_list_spec; reflexivity);
      reflexivity.
  - reflexivity.
Qed.

(** The variant with the early return first (seeded change C18-I). *)
Definition apply_additional_filtering_c18i zoff known (g : bsvc) (c : option client) (t1 t2 : Z)
    (se : settings) : settings :=
  let se := apply_blocked_services zoff known g t1 se in
  let se := apply_client_filtering_c18i c se in
  match se_bsvc se with
  | Some b =>
      let se := set_rules se [] in
      if negb (paused zoff (bs_sched b) t2) then apply_list known se (bs_ids b) else se
  | None => se
  end.

(** A client with own blocked services, in its own pause, that uses the
    global general settings, and a non-empty global list that is not in
    pause. *)
Definition ex_client_global_settings : client := with_own_settings false true ex_client.

Lemma early_return_order_refuted :
  exists zoff known g c t,
    cl_use_own c = true /\ cl_use_own_settings c = false /\
    in_pause zoff (bs_sched (cl_bsvc c)) t /\
    ~ in_pause zoff (bs_sched g) t /\ filter (id_known known) (bs_ids g) <> [] /\
    se_rules (apply_additional_filtering_c18i zoff known g (Some c) t t fresh_settings)
      = filter (id_known known) (bs_ids g) /\
    request_services zoff known g (Some c) t t = [].
Proof.
  exists ex_zoff, ex_known, ex_global, ex_client_global_settings, (4 * ns_hour).
  split; [reflexivity|]. split; [reflexivity|]. split.
  { apply paused_in_pause. vm_compute. reflexivity. }
  split.
  { intros H. apply paused_in_pause in H. vm_compute in H. discriminate. }
  split; [vm_compute; discriminate|]. split; vm_compute; reflexivity.
Qed.

(** The variant agrees with the code exactly on the clients whose two
    switches coincide or who keep the global blocked services. *)
Lemma early_return_order_differs_only_there zoff known g c t1 t2 se :
  (cl_use_own c = false \/ cl_use_own_settings c = true) ->
  se_rules (apply_additional_filtering_c18i zoff known g (Some c) t1 t2 se) =
  se_rules (apply_additional_filtering zoff known g (Some c) t1 t2 se).
Proof.
  unfold apply_additional_filtering_c18i, apply_additional_filtering,
    apply_client_filtering_c18i, apply_client_filtering.
  destruct c as [os fl own cb]; cbn [cl_use_own cl_use_own_settings cl_bsvc cl_filtering].
  intros [E|E]; rewrite E; [destruct os|destruct own]; reflexivity.
Qed.

(** Non-vacuity: the four combinations of the two switches. *)
Lemma ex_four_combinations :
  let req b own t := request_services ex_zoff ex_known ex_global
                       (Some {| cl_use_own_settings := b; cl_filtering := false;
                                cl_use_own := own; cl_bsvc := cl_bsvc ex_client |}) t t in
  req false true (4 * ns_hour) = [] /\ req true true (4 * ns_hour) = [] /\
  req false true (12 * ns_hour) = [[98]]%N /\ req true true (12 * ns_hour) = [[98]]%N /\
  req false false (4 * ns_hour) = [[97]; [98]]%N /\ req true false (4 * ns_hour) = [[97]; [98]]%N /\
  request_filtering ex_zoff ex_known true ex_global
    (Some {| cl_use_own_settings := true; cl_filtering := false; cl_use_own := false;
             cl_bsvc := cl_bsvc ex_client |}) 0 0 = false /\
  request_filtering ex_zoff ex_known true ex_global
    (Some {| cl_use_own_settings := false; cl_filtering := false; cl_use_own := true;
             cl_bsvc := cl_bsvc ex_client |}) 0 0 = true.
Proof. repeat split; vm_compute; reflexivity. Qed.

(** C11, round 6: a path that no registration of the module mentions is
    answered by the catch-all "/" (the static file server behind optionalAuth)
    or by 404, on every server whose mux is a fresh [http.NewServeMux()];
    on [http.DefaultServeMux] it is not (refuted variant). *)
From AGH Require Import Base.Run Model.Session Model.AuthHttp Model.AuthMux Proofs.AuthHttp.
From stdpp Require Import gmap.
Local Open Scope Z_scope.

(** * The mux picks among what is registered on it *)

Section Find.
Context {X : Type}.
Implicit Types regs : list (bytes * X).

Lemma best_in regs path p x :
  mux_best regs path = Some (p, x) -> In (p, x) regs /\ pat_matches p path = true.
Proof.
  revert p x. induction regs as [|[q y] rs IH]; cbn [mux_best In]; intros p x; [discriminate|].
  destruct (pat_matches q path) eqn:Em.
  - destruct (mux_best rs path) as [[q' y']|] eqn:Eb.
    + destruct (Nat.ltb (length q') (length q)).
      * intros [= <- <-]. auto.
      * intros [= <- <-]. destruct (IH q' y' eq_refl). auto.
    + intros [= <- <-]. auto.
  - intros Hb. destruct (IH p x Hb). auto.
Qed.

Lemma best_none regs path :
  mux_best regs path = None -> forall p x, In (p, x) regs -> pat_matches p path = false.
Proof.
  induction regs as [|[q y] rs IH]; cbn [mux_best In]; intros Hb p x; [tauto|].
  destruct (pat_matches q path) eqn:Em.
  - destruct (mux_best rs path) as [[q' y']|]; [destruct (Nat.ltb _ _)|]; discriminate.
  - intros [[= <- <-]|Hin]; eauto.
Qed.

(** Whatever the mux serves is a registration, and its pattern matches the
    path: for every list of registrations and every path. *)
Theorem find_serves_registered regs path p x :
  mux_find regs path = FServe p x -> In (p, x) regs /\ pat_matches p path = true.
Proof.
  unfold mux_find. destruct (_ && _ && _); [discriminate|].
  destruct (mux_best regs path) as [[q y]|] eqn:Eb; [|discriminate].
  intros [= <- <-]. eapply best_in; eauto.
Qed.

Lemma pat_matches_exact_eq p path :
  is_subtree p = false -> pat_matches p path = true -> p = path.
Proof. unfold pat_matches. intros ->. apply eqb_bytes_eq. Qed.

Lemma exact_best_eq regs p2 :
  mux_exact (mux_best regs p2) p2 = true -> exists x, In (p2, x) regs.
Proof.
  unfold mux_exact. destruct (mux_best regs p2) as [[q y]|] eqn:Eb; [|discriminate].
  apply best_in in Eb as [Hin Hm]. destruct (is_subtree q) eqn:Es.
  - intros H. apply eqb_bytes_eq in H. subst. eauto.
  - intros _. apply pat_matches_exact_eq in Hm; auto. subst. eauto.
Qed.

(** Default-deny: on a mux that carries [regs], a path that no pattern other
    than "/" matches (and that is not a registered subtree minus its slash)
    is answered by a registration of "/" or by nobody. *)
Theorem find_undeclared regs path :
  undeclared (map fst regs) path = true ->
  (exists x, In (str_root, x) regs /\ mux_find regs path = FServe str_root x) \/ mux_find regs path = FNone.
Proof.
  unfold undeclared. rewrite andb_true_iff, !forallb_forall. intros [H1 H2].
  assert (Hno : mux_exact (mux_best regs (path ++ [47%N])) (path ++ [47%N]) = false).
  { destruct (mux_exact _ _) eqn:E; [|reflexivity]. apply exact_best_eq in E as [x Hin].
    specialize (H2 (path ++ [47%N])). rewrite eqb_bytes_refl in H2. cbn in H2.
    exfalso. enough (false = true) by discriminate. apply H2. apply in_map_iff. exists (path ++ [47%N], x). auto. }
  unfold mux_find. rewrite Hno, andb_false_r.
  destruct (mux_best regs path) as [[q y]|] eqn:Eb; [|right; reflexivity].
  left. destruct (best_in _ _ _ _ Eb) as [Hin Hm].
  specialize (H1 q). rewrite Hm in H1. cbn in H1.
  assert (q = str_root) as ->.
  { apply eqb_bytes_eq. apply H1. apply in_map_iff. exists (q, y). auto. }
  eauto.
Qed.

End Find.

(** * The declared table in front of its handlers *)

Section Serve.
Context {A R : Type}.
Notation H := (handler A R).

(** The registrations the module makes: every route of the table with the
    chain the translator read off, in front of an arbitrary handler. *)
Definition route_regs (rm : list wrapper) (hs : route -> H) (rts : list route) : list (bytes * H) :=
  map (fun rt => (rt_pattern rt, apply_chain (chain_of rm rt) (hs rt))) rts.

Lemma route_regs_pats rm hs rts : map fst (route_regs rm hs rts) = map rt_pattern rts.
Proof. unfold route_regs. rewrite map_map. reflexivity. Qed.

Lemma exception_not_root rt : rt_pattern rt = str_root -> exception rt = false.
Proof.
  unfold exception. intros ->. destruct (rt_kind rt) as [m|ws|]; auto.
  cbn. rewrite andb_false_r. reflexivity.
Qed.

(** C11_undeclared_path_not_served.  The table passes the route check; the
    mux carries the declared registrations and nothing else.  Then, for
    every assignment of handlers to the routes, every environment with an
    administrator account, and every unauthenticated request whose path is
    neither public nor matched by a declared pattern other than "/": the
    answer is 404 or a refusal by the wrappers of the "/" route; no handler
    answers and the application state is untouched. *)
Theorem undeclared_path_not_served re rm rts bs ms ss hs e (w : world A) r :
  table_ok rts re rm bs ms ss = true ->
  undeclared (map rt_pattern rts) (r_path r) = true ->
  e_auth_required e = true -> is_public (r_path r) = false -> authenticated e (w_sess w) r = false ->
  exists w' a, mux_serve (route_regs rm hs rts) e w r = (w', a) /\
    w_app w' = w_app w /\ not_handler a /\ session_effect e w r w'.
Proof.
  intros Hok Hun Hreq Hpub Hauth. rewrite <- (route_regs_pats rm hs) in Hun.
  unfold mux_serve. destruct (find_undeclared _ _ Hun) as [(h & Hin & ->)| ->].
  - unfold route_regs in Hin. apply in_map_iff in Hin as (rt & [= Hp <-] & Hrt).
    destruct (table_ok_routes (A:=A) (R:=R) _ _ _ _ _ _ Hok rt Hrt) as [_ [Hex|Hb]].
    + rewrite (exception_not_root rt Hp) in Hex. discriminate.
    + destruct (Hb e w r Hreq Hpub Hauth) as (w' & a & (Hall & Happ & Hnh) & Hs).
      exists w', a. repeat split; auto.
  - exists w, (AStatus 404). repeat split; auto. left. reflexivity.
Qed.

(** The same with the server's mux kind in between: a fresh mux carries the
    declared registrations whatever linked packages have put on the default
    mux. *)
Theorem fresh_mux_serves_declared_only (k : mux_kind) (declared foreign : list (bytes * H)) :
  kind_fresh k = true -> mux_content k declared foreign = Some declared.
Proof. destruct k; cbn; congruence. Qed.

End Serve.

(** * The table of Gen/RoutesMux.v *)

Theorem mux_table_ok_sound rows escapes mentions g :
  mux_table_ok rows escapes mentions g = true ->
  (forall row, In row rows -> mr_kind row = MuxFresh) /\
  (exists row, In row rows /\ mr_mux row = str_mux_global) /\
  (forall m callee p fn, In (m, callee, p, fn) escapes -> m <> str_mux_global) /\
  mentions = [].
Proof.
  unfold mux_table_ok. rewrite !andb_true_iff. intros [[[[Hr He] Hesc] Hm] _]. repeat split.
  - intros row Hin. rewrite forallb_forall in Hr. specialize (Hr row Hin).
    unfold row_private in Hr. apply andb_true_iff in Hr as [Hk _]. destruct (mr_kind row); auto; discriminate.
  - apply existsb_exists in He as (row & Hin & Heq). apply eqb_bytes_eq in Heq. eauto.
  - intros m callee p fn Hin. rewrite forallb_forall in Hesc. specialize (Hesc _ Hin). cbn in Hesc.
    rewrite !andb_true_iff in Hesc. destruct Hesc as [_ Hn]. intros ->. rewrite eqb_bytes_refl in Hn. discriminate.
  - destruct mentions; auto; discriminate.
Qed.

(** Every server of a table that passes serves exactly what the module
    declares on its mux, whatever [foreign] is. *)
Theorem table_muxes_private {X} rows escapes mentions g :
  mux_table_ok rows escapes mentions g = true ->
  forall row, In row rows ->
  forall declared foreign : list (bytes * X), mux_content (mr_kind row) declared foreign = Some declared.
Proof.
  intros Hok row Hin declared foreign. destruct (mux_table_ok_sound _ _ _ _ Hok) as [Hk _].
  rewrite (Hk row Hin). reflexivity.
Qed.

(** * Non-vacuity and the refuted variant *)

Definition p_pprof_heap : bytes := [47;100;101;98;117;103;47;112;112;114;111;102;47;104;101;97;112]%N.   (* /debug/pprof/heap *)
Definition p_pprof : bytes := [47;100;101;98;117;103;47;112;112;114;111;102;47]%N.                        (* /debug/pprof/ *)
Definition p_status : bytes := [47;99;111;110;116;114;111;108;47;115;116;97;116;117;115]%N.               (* /control/status *)

Definition ex_static : route :=
  {| rt_pattern := str_root; rt_kind := Direct [WPostInstall; WOptionalAuth; WGzip]; rt_mux := mux_global; rt_pos := [] |}.
Definition ex_status : route :=
  {| rt_pattern := p_status; rt_kind := ViaRegister str_GET; rt_mux := mux_global; rt_pos := [] |}.
Definition ex_rm : list wrapper := http_register_chain param_method.

Definition ex_anon (p : bytes) : request :=
  {| r_method := str_GET; r_path := p; r_ctype := []; r_clen := 0; r_cookie := CNone; r_basic := BNone;
     r_tls := false; r_host_ok := true; r_hdrs := [] |}.

Definition ex_w : world unit := {| w_app := tt; w_sess := s_init |}.

(** The handlers of the example answer [AHandler true]: reaching one shows. *)
Definition ex_h : handler unit bool := fun _ w _ => (w, AHandler true).

(** The premises of [undeclared_path_not_served] hold of a concrete table and
    request, and the declared route next to it is matched by its own pattern. *)
Example undeclared_ex :
  table_ok [ex_static; ex_status] [WPostInstall] ex_rm [] [] [] = true /\
  undeclared (map rt_pattern [ex_static; ex_status]) p_pprof_heap = true /\
  undeclared (map rt_pattern [ex_static; ex_status]) p_status = false /\
  e_auth_required ex_env = true /\ is_public p_pprof_heap = false /\
  authenticated ex_env s_init (ex_anon p_pprof_heap) = false /\
  mux_serve (route_regs ex_rm (fun _ => ex_h) [ex_static; ex_status]) ex_env ex_w (ex_anon p_pprof_heap) = (ex_w, AStatus 403).
Proof. vm_compute. repeat split; reflexivity. Qed.

(** Refuted variant: the same declared table on [http.DefaultServeMux], on
    which net/http/pprof's init has registered "/debug/pprof/": the
    anonymous GET reaches the profile handler, although every declared route
    still has its wrappers. *)
Theorem default_mux_refuted :
  exists (foreign : list (bytes * handler unit bool)) regs,
    mux_content MuxDefault (route_regs ex_rm (fun _ => ex_h) [ex_static; ex_status]) foreign = Some regs /\
    mux_content MuxNil (route_regs ex_rm (fun _ => ex_h) [ex_static; ex_status]) foreign = Some regs /\
    e_auth_required ex_env = true /\
    authenticated ex_env s_init (ex_anon p_pprof_heap) = false /\
    mux_serve regs ex_env ex_w (ex_anon p_pprof_heap) = (ex_w, AHandler true) /\
    (* the declared routes behave as before *)
    mux_serve regs ex_env ex_w (ex_anon p_status) = (ex_w, AStatus 403).
Proof.
  exists [(p_pprof, ex_h)], ([(p_pprof, ex_h)] ++ route_regs ex_rm (fun _ => ex_h) [ex_static; ex_status]).
  vm_compute. repeat split; reflexivity.
Qed.

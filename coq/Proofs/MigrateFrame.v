(** C13, part 2: every step stamps its version and leaves alone every
    top-level key outside a fixed list (frame); composed over the step table. *)
From Coq Require Import List ZArith String Ascii Bool Lia.
From AGH Require Import Model.Migrate Proofs.Migrate.
Import ListNotations.
Local Open Scope string_scope.
Local Open Scope list_scope.
Local Open Scope Z_scope.

(** Top-level keys that some step may write, apart from the version stamp. *)
Definition written : list string :=
  ["coredns"; "dns"; "clients"; "auth_name"; "auth_pass"; "users"; "dhcp"; "rlimit_nofile"; "os";
   "querylog"; "statistics"; "bind_host"; "bind_port"; "web_session_ttl"; "http"; "log_file";
   "log_max_backups"; "log_max_size"; "log_max_age"; "log_compress"; "log_localtime"; "verbose";
   "log"; "debug_pprof"; "filtering"].

Definition mem_b (k : string) (l : list string) : bool := existsb (String.eqb k) l.

Lemma mem_b_ne k a l : mem_b k l = false -> mem_b a l = true -> k <> a.
Proof. intros H1 H2 ->. congruence. Qed.

Lemma get_with_obj m k f m' x : with_obj m k f = Ok m' -> x <> k -> get x m' = get x m.
Proof.
  unfold with_obj. destruct (field_val TObj m k); try discriminate.
  - now intros [= <-].
  - destruct (f (zobj v)); cbn; try discriminate. intros [= <-] N. now apply get_upd_ne.
Qed.

Lemma get_move_val t s d sk dk s' d' x :
  move_val t s d sk dk = Some (s', d') -> x <> sk -> get x s' = get x s.
Proof.
  unfold move_val. destruct (field_val t s sk); intros [= <- <-] N; [reflexivity|].
  now apply get_del_ne.
Qed.

Lemma get_move_in t m sk dk m' x :
  move_in t m sk dk = Some m' -> x <> sk -> x <> dk -> get x m' = get x m.
Proof.
  unfold move_in. destruct (field_val t m sk); intros [= <-] N1 N2; [reflexivity|].
  rewrite get_del_ne, get_upd_ne; auto.
Qed.

Lemma get_moves l : forall s d s' d' x,
  moves l s d = Some (s', d') -> (forall a, In a (map (fun e => snd (fst e)) l) -> x <> a) -> get x s' = get x s.
Proof.
  induction l as [|[[t sk] dk] l IH]; intros s d s' d' x; cbn.
  - now intros [= <- <-].
  - destruct (move_val t s d sk dk) as [[s1 d1]|] eqn:E; [|discriminate].
    intros H N. rewrite (IH _ _ _ _ _ H) by (intros; apply N; auto).
    eapply get_move_val; [exact E|]. apply N; auto.
Qed.

Ltac ne :=
  match goal with
  | H : mem_b ?k written = false |- ?k <> _ => apply (mem_b_ne _ _ _ H); reflexivity
  | |- _ => discriminate
  end.

Ltac split_ok :=
  repeat match goal with
  | H : Ok _ = Ok _ |- _ => injection H as <-
  | H : Err = Ok _ |- _ => discriminate H
  | H : Panic = Ok _ |- _ => discriminate H
  | H : None = Some _ |- _ => discriminate H
  | H : Some _ = Some _ |- _ => injection H as <-
  | H : of_opt ?o = Ok _ |- _ => destruct o eqn:?; cbn [of_opt] in H
  | H : bind ?r _ = Ok _ |- _ => destruct r eqn:?; cbn [bind] in H
  | H : match ?x with _ => _ end = Ok _ |- _ => destruct x eqn:?
  end.

Ltac frame_rw :=
  repeat match goal with
  | H : with_obj ?m ?k ?f = Ok ?m' |- context [get ?x ?m'] =>
      rewrite (get_with_obj m k f m' x H) by ne
  | H : move_val ?t ?s ?d ?sk ?dk = Some (?s', ?d') |- context [get ?x ?s'] =>
      rewrite (get_move_val t s d sk dk s' d' x H) by ne
  | H : move_in ?t ?m ?sk ?dk = Some ?m' |- context [get ?x ?m'] =>
      rewrite (get_move_in t m sk dk m' x H) by ne
  | H : moves ?l ?s ?d = Some (?s', ?d') |- context [get ?x ?s'] =>
      rewrite (get_moves l s d s' d' x H)
        by (let a := fresh in let Ha := fresh in
            intros a Ha; cbn in Ha; repeat (destruct Ha as [<-|Ha]; [ne|]); contradiction)
  | |- _ => rewrite get_upd_ne by ne
  | |- _ => rewrite get_del_ne by ne
  end.

Section WithOracles.
Variable O : oracles.

(** After step [n] every key outside [written] holds what it held after the
    stamp: the version key holds [n], the others what they held before. *)
Definition frames (n : Z) (s : step) : Prop :=
  forall m m' k, s (Some m) = Ok m' -> mem_b k written = false ->
    get k m' = get k (upd "schema_version" (VInt n) m).

Ltac frame_step :=
  intros m m' k H Hk; cbn [stamp bind] in H;
  set (m0 := upd "schema_version" (VInt _) m) in *; clearbody m0;
  split_ok; frame_rw; reflexivity.

Lemma frames1 : frames 1 (step1). Proof. unfold step1. frame_step. Qed.
Lemma frames2 : frames 2 (step2). Proof. unfold step2. frame_step. Qed.
Lemma frames3 : frames 3 (step3). Proof. unfold step3. frame_step. Qed.
Lemma frames4 : frames 4 (step4). Proof. unfold step4. frame_step. Qed.
Lemma frames5 : frames 5 (step5 O). Proof. unfold step5. frame_step. Qed.
Lemma frames6 : frames 6 (step6). Proof. unfold step6. frame_step. Qed.
Lemma frames7 : frames 7 (step7). Proof. unfold step7. frame_step. Qed.
Lemma frames8 : frames 8 (step8). Proof. unfold step8. frame_step. Qed.
Lemma frames9 : frames 9 (step9). Proof. unfold step9. frame_step. Qed.
Lemma frames10 : frames 10 (step10 O). Proof. unfold step10. frame_step. Qed.
Lemma frames11 : frames 11 (step11). Proof. unfold step11. frame_step. Qed.
Lemma frames12 : frames 12 (step12). Proof. unfold step12. frame_step. Qed.
Lemma frames13 : frames 13 (step13). Proof. unfold step13. frame_step. Qed.
Lemma frames14 : frames 14 (step14). Proof. unfold step14. frame_step. Qed.
Lemma frames15 : frames 15 (step15). Proof. unfold step15. frame_step. Qed.
Lemma frames16 : frames 16 (step16). Proof. unfold step16. frame_step. Qed.
Lemma frames17 : frames 17 (step17). Proof. unfold step17. frame_step. Qed.
Lemma frames18 : frames 18 (step18). Proof. unfold step18. frame_step. Qed.
Lemma frames19 : frames 19 (step19). Proof. unfold step19. frame_step. Qed.
Lemma frames20 : frames 20 (step20). Proof. unfold step20. frame_step. Qed.
Lemma frames21 : frames 21 (step21). Proof. unfold step21. frame_step. Qed.
Lemma frames22 : frames 22 (step22). Proof. unfold step22. frame_step. Qed.
Lemma frames23 : frames 23 (step23 O). Proof. unfold step23. frame_step. Qed.
Lemma frames24 : frames 24 (step24). Proof. unfold step24. frame_step. Qed.
Lemma frames25 : frames 25 (step25). Proof. unfold step25. frame_step. Qed.
Lemma frames26 : frames 26 (step26). Proof. unfold step26. frame_step. Qed.
Lemma frames27 : frames 27 (step27). Proof. unfold step27, replace_dot. frame_step. Qed.
Lemma frames28 : frames 28 (step28). Proof. unfold step28. frame_step. Qed.
Lemma frames29 : frames 29 (step29 O). Proof. unfold step29. frame_step. Qed.

End WithOracles.

(** C13, part 2: every step stamps its version and leaves alone every
    top-level key outside a fixed list (frame); composed over the step table. *)
From Coq Require Import List ZArith String Ascii Bool Lia.
From AGH Require Import Model.Migrate Proofs.Migrate.
Import ListNotations.
Local Open Scope string_scope.
Local Open Scope list_scope.
Local Open Scope Z_scope.

(** Top-level keys that some step may write, apart from the version stamp. *)
Definition written : list string :=
  ["coredns"; "dns"; "clients"; "auth_name"; "auth_pass"; "users"; "dhcp"; "rlimit_nofile"; "os";
   "querylog"; "statistics"; "bind_host"; "bind_port"; "web_session_ttl"; "http"; "log_file";
   "log_max_backups"; "log_max_size"; "log_max_age"; "log_compress"; "log_localtime"; "verbose";
   "log"; "debug_pprof"; "filtering"].

Definition mem_b (k : string) (l : list string) : bool := existsb (String.eqb k) l.

Lemma mem_b_ne k a l : mem_b k l = false -> mem_b a l = true -> k <> a.
Proof. intros H1 H2 ->. congruence. Qed.

Lemma get_with_obj m k f m' x : with_obj m k f = Ok m' -> x <> k -> get x m' = get x m.
Proof.
  unfold with_obj. destruct (field_val TObj m k); try discriminate.
  - now intros [= <-].
  - destruct (f (zobj v)); cbn; try discriminate. intros [= <-] N. now apply get_upd_ne.
Qed.

Lemma get_move_val t s d sk dk s' d' x :
  move_val t s d sk dk = Some (s', d') -> x <> sk -> get x s' = get x s.
Proof.
  unfold move_val. destruct (field_val t s sk); intros [= <- <-] N; [reflexivity|].
  now apply get_del_ne.
Qed.

Lemma get_move_in t m sk dk m' x :
  move_in t m sk dk = Some m' -> x <> sk -> x <> dk -> get x m' = get x m.
Proof.
  unfold move_in. destruct (field_val t m sk); intros [= <-] N1 N2; [reflexivity|].
  rewrite get_del_ne, get_upd_ne; auto.
Qed.

Lemma get_moves l : forall s d s' d' x,
  moves l s d = Some (s', d') -> (forall a, In a (map (fun e => snd (fst e)) l) -> x <> a) -> get x s' = get x s.
Proof.
  induction l as [|[[t sk] dk] l IH]; intros s d s' d' x; cbn.
  - now intros [= <- <-].
  - destruct (move_val t s d sk dk) as [[s1 d1]|] eqn:E; [|discriminate].
    intros H N. rewrite (IH _ _ _ _ _ H) by (intros; apply N; auto).
    eapply get_move_val; [exact E|]. apply N; auto.
Qed.

Ltac ne :=
  match goal with
  | H : mem_b ?k written = false |- ?k <> _ => apply (mem_b_ne _ _ _ H); reflexivity
  | |- _ => discriminate
  end.

Ltac split_ok :=
  repeat match goal with
  | H : Ok _ = Ok _ |- _ => injection H as <-
  | H : Err = Ok _ |- _ => discriminate H
  | H : Panic = Ok _ |- _ => discriminate H
  | H : None = Some _ |- _ => discriminate H
  | H : Some _ = Some _ |- _ => injection H as <-
  | H : of_opt ?o = Ok _ |- _ => destruct o eqn:?; cbn [of_opt] in H
  | H : bind ?r _ = Ok _ |- _ => destruct r eqn:?; cbn [bind] in H
  | H : match ?x with _ => _ end = Ok _ |- _ => destruct x eqn:?
  end.

Ltac frame_rw :=
  repeat match goal with
  | H : with_obj ?m ?k ?f = Ok ?m' |- context [get ?x ?m'] =>
      rewrite (get_with_obj m k f m' x H) by ne
  | H : move_val ?t ?s ?d ?sk ?dk = Some (?s', ?d') |- context [get ?x ?s'] =>
      rewrite (get_move_val t s d sk dk s' d' x H) by ne
  | H : move_in ?t ?m ?sk ?dk = Some ?m' |- context [get ?x ?m'] =>
      rewrite (get_move_in t m sk dk m' x H) by ne
  | H : moves ?l ?s ?d = Some (?s', ?d') |- context [get ?x ?s'] =>
      rewrite (get_moves l s d s' d' x H)
        by (let a := fresh in let Ha := fresh in
            intros a Ha; cbn in Ha; repeat (destruct Ha as [<-|Ha]; [ne|]); contradiction)
  | |- _ => rewrite get_upd_ne by ne
  | |- _ => rewrite get_del_ne by ne
  end.

Section WithOracles.
Variable O : oracles.

(** After step [n] every key outside [written] holds what it held after the
    stamp: the version key holds [n], the others what they held before. *)
Definition frames (n : Z) (s : step) : Prop :=
  forall m m' k, s (Some m) = Ok m' -> mem_b k written = false ->
    get k m' = get k (upd "schema_version" (VInt n) m).

Ltac frame_step :=
  intros m m' k H Hk; cbn [stamp bind] in H;
  set (m0 := upd "schema_version" (VInt _) m) in *; clearbody m0;
  split_ok; frame_rw; reflexivity.

Lemma frames1 : frames 1 (step1). Proof. unfold step1. frame_step. Qed.
Lemma frames2 : frames 2 (step2). Proof. unfold step2. frame_step. Qed.
Lemma frames3 : frames 3 (step3). Proof. unfold step3. frame_step. Qed.
Lemma frames4 : frames 4 (step4). Proof. unfold step4. frame_step. Qed.
Lemma frames5 : frames 5 (step5 O). Proof. unfold step5. frame_step. Qed.
Lemma frames6 : frames 6 (step6). Proof. unfold step6. frame_step. Qed.
Lemma frames7 : frames 7 (step7). Proof. unfold step7. frame_step. Qed.
Lemma frames8 : frames 8 (step8). Proof. unfold step8. frame_step. Qed.
Lemma frames9 : frames 9 (step9). Proof. unfold step9. frame_step. Qed.
Lemma frames10 : frames 10 (step10 O). Proof. unfold step10. frame_step. Qed.
Lemma frames11 : frames 11 (step11). Proof. unfold step11. frame_step. Qed.
Lemma frames12 : frames 12 (step12). Proof. unfold step12. frame_step. Qed.
Lemma frames13 : frames 13 (step13). Proof. unfold step13. frame_step. Qed.
Lemma frames14 : frames 14 (step14). Proof. unfold step14. frame_step. Qed.
Lemma frames15 : frames 15 (step15). Proof. unfold step15. frame_step. Qed.
Lemma frames16 : frames 16 (step16). Proof. unfold step16. frame_step. Qed.
Lemma frames17 : frames 17 (step17). Proof. unfold step17. frame_step. Qed.
Lemma frames18 : frames 18 (step18). Proof. unfold step18. frame_step. Qed.
Lemma frames19 : frames 19 (step19). Proof. unfold step19. frame_step. Qed.
Lemma frames20 : frames 20 (step20). Proof. unfold step20. frame_step. Qed.
Lemma frames21 : frames 21 (step21). Proof. unfold step21. frame_step. Qed.
Lemma frames22 : frames 22 (step22). Proof. unfold step22. frame_step. Qed.
Lemma frames23 : frames 23 (step23 O). Proof. unfold step23. frame_step. Qed.
Lemma frames24 : frames 24 (step24). Proof. unfold step24. frame_step. Qed.
Lemma frames25 : frames 25 (step25). Proof. unfold step25. frame_step. Qed.
Lemma frames26 : frames 26 (step26). Proof. unfold step26. frame_step. Qed.
Lemma frames27 : frames 27 (step27). Proof. unfold step27, replace_dot. frame_step. Qed.
Lemma frames28 : frames 28 (step28). Proof. unfold step28. frame_step. Qed.
Lemma frames29 : frames 29 (step29 O). Proof. unfold step29. frame_step. Qed.

(** The table: entry [i] stamps version [i+1]. *)
Fixpoint framed_from (n : Z) (l : list step) : Prop :=
  match l with
  | [] => True
  | s :: l' => frames n s /\ framed_from (n + 1) l'
  end.

Lemma steps_framed : framed_from 1 (map snd (steps O)).
Proof.
  cbn. pose proof frames1; pose proof frames2; pose proof frames3; pose proof frames4; pose proof frames5;
  pose proof frames6; pose proof frames7; pose proof frames8; pose proof frames9; pose proof frames10;
  pose proof frames11; pose proof frames12; pose proof frames13; pose proof frames14; pose proof frames15;
  pose proof frames16; pose proof frames17; pose proof frames18; pose proof frames19; pose proof frames20;
  pose proof frames21; pose proof frames22; pose proof frames23; pose proof frames24; pose proof frames25;
  pose proof frames26; pose proof frames27; pose proof frames28; pose proof frames29.
  intuition.
Qed.

Lemma framed_skipn c : forall n l, framed_from n l -> framed_from (n + Z.of_nat c) (skipn c l).
Proof.
  induction c as [|c IH]; intros n l H.
  - cbn [skipn Z.of_nat]. now rewrite Z.add_0_r.
  - destruct l as [|s l]; [exact I|]. destruct H as [_ H].
    cbn [skipn]. replace (n + Z.of_nat (S c)) with (n + 1 + Z.of_nat c) by lia. now apply IH.
Qed.

Lemma framed_firstn c : forall n l, framed_from n l -> framed_from n (firstn c l).
Proof.
  induction c as [|c IH]; intros n l H; [exact I|].
  destruct l as [|s l]; [exact I|]. destruct H as [H1 H2]. cbn [firstn]. split; auto.
Qed.

Lemma run_steps_frame l : forall n m m' k,
  framed_from n l -> run_steps l m = Ok m' -> mem_b k written = false ->
  get k m' = match l with
             | [] => get k m
             | _ => if String.eqb k "schema_version" then Some (VInt (n + Z.of_nat (List.length l) - 1)) else get k m
             end.
Proof.
  induction l as [|s l IH]; intros n m m' k F H Hk.
  - cbn in H. now injection H as <-.
  - destruct F as [Fs Fl]. cbn [run_steps] in H.
    destruct (s (Some m)) as [m1| |] eqn:E; cbn [bind] in H; try discriminate.
    rewrite (IH _ _ _ _ Fl H Hk). pose proof (Fs _ _ _ E Hk) as G.
    destruct l as [|s2 l].
    + rewrite G. destruct (String.eqb k "schema_version") eqn:Ek.
      * apply String.eqb_eq in Ek; subst k. rewrite get_upd_eq. cbn [List.length Z.of_nat]. do 2 f_equal. lia.
      * apply String.eqb_neq in Ek. now apply get_upd_ne.
    + destruct (String.eqb k "schema_version") eqn:Ek.
      * do 2 f_equal. cbn [List.length]. lia.
      * rewrite G. apply String.eqb_neq in Ek. now apply get_upd_ne.
Qed.

Lemma steps_length : List.length (map snd (steps O)) = 29%nat.
Proof. reflexivity. Qed.

Lemma upgrade_frame cur tgt m m' k :
  upgrade O cur tgt m = Ok m' -> mem_b k written = false -> k <> "schema_version" ->
  get k m' = get k m.
Proof.
  unfold upgrade. intros H Hk N.
  rewrite (run_steps_frame _ (1 + Z.of_nat cur) _ _ _
             (framed_firstn _ _ _ (framed_skipn cur _ _ steps_framed)) H Hk).
  apply String.eqb_neq in N. rewrite N. now destruct (firstn _ _).
Qed.

Lemma upgrade_stamped cur tgt m m' :
  (cur < tgt <= 29)%nat -> upgrade O cur tgt m = Ok m' ->
  get "schema_version" m' = Some (VInt (Z.of_nat tgt)).
Proof.
  unfold upgrade. intros R H.
  rewrite (run_steps_frame _ (1 + Z.of_nat cur) _ _ "schema_version"
             (framed_firstn _ _ _ (framed_skipn cur _ _ steps_framed)) H eq_refl).
  assert (L : List.length (firstn (tgt - cur) (skipn cur (map snd (steps O)))) = (tgt - cur)%nat).
  { rewrite firstn_length, skipn_length, steps_length. lia. }
  remember (firstn (tgt - cur) (skipn cur (map snd (steps O)))) as l eqn:E. destruct l.
  - cbn in L. lia.
  - rewrite L. rewrite String.eqb_refl. do 2 f_equal. lia.
Qed.

(** ** [Migrate] *)

Definition input_map (top : option obj) : obj := match top with None => [] | Some m => m end.

Lemma migrate_new_inv top target m' :
  migrate O top target = ONew m' ->
  exists cur, (cur < Z.to_nat target <= 29)%nat /\ 0 < target /\
    upgrade O cur (Z.to_nat target) (input_map top) = Ok m'.
Proof.
  unfold migrate. fold (input_map top).
  set (r := field_val TInt (input_map top) "schema_version").
  assert (G : forall c, 0 <= c ->
    (if c >? target then OErr else if target >? last_version then OErr else if c =? target then OSame
     else match upgrade O (Z.to_nat c) (Z.to_nat target) (input_map top) with
          | Ok m' => ONew m' | Err => OErr | Panic => OPanic end) = ONew m' ->
    exists cur, (cur < Z.to_nat target <= 29)%nat /\ 0 < target /\
      upgrade O cur (Z.to_nat target) (input_map top) = Ok m').
  { intros c Hc. unfold last_version.
    destruct (c >? target) eqn:E1; [discriminate|].
    destruct (target >? 29) eqn:E2; [discriminate|].
    destruct (c =? target) eqn:E3; [discriminate|].
    destruct (upgrade O _ _ _) eqn:E4; try discriminate. intros [= ->].
    exists (Z.to_nat c). repeat split; try lia; auto. }
  destruct r; try discriminate; apply G; apply Z.mod_pos_bound; lia.
Qed.

Lemma migrate_stamped top target m' :
  migrate O top target = ONew m' -> get "schema_version" m' = Some (VInt target).
Proof.
  intros H. destruct (migrate_new_inv _ _ _ H) as (cur & R & P & U).
  rewrite (upgrade_stamped _ _ _ _ R U). do 2 f_equal. lia.
Qed.

Lemma migrate_frame top target m' k :
  migrate O top target = ONew m' -> mem_b k written = false -> k <> "schema_version" ->
  get k m' = get k (input_map top).
Proof.
  intros H. destruct (migrate_new_inv _ _ _ H) as (cur & R & P & U). now apply upgrade_frame with (1 := U).
Qed.

(** A document already at the target version is returned as it is. *)
Lemma migrate_at_target m target :
  get "schema_version" m = Some (VInt target) -> 0 <= target <= last_version ->
  migrate O (Some m) target = OSame.
Proof.
  unfold migrate, field_val, last_version. intros -> R. cbn [has_ty coerce fv_val zint].
  rewrite Z.mod_small by lia.
  destruct (target >? target) eqn:E1; [lia|].
  destruct (target >? 29) eqn:E2; [lia|]. now rewrite Z.eqb_refl.
Qed.

Lemma get_norm_obj k m : get k (norm_obj m) = option_map norm (get k m).
Proof.
  induction m as [|[k' v] m IH]; cbn; [reflexivity|]. destruct (String.eqb k k'); auto.
Qed.

(** Upgrading the re-read result again changes nothing. *)
Lemma migrate_idempotent top target m' :
  migrate O top target = ONew m' -> migrate O (Some (norm_obj m')) target = OSame.
Proof.
  intros H. pose proof (migrate_stamped _ _ _ H) as S.
  destruct (migrate_new_inv _ _ _ H) as (cur & R & P & _).
  apply migrate_at_target.
  - rewrite get_norm_obj, S. reflexivity.
  - unfold last_version. lia.
Qed.

(** What [Migrate] hands back: [None] stands for the unchanged input body. *)
Definition returned_body (o : outcome) : option obj := match o with ONew m => Some m | _ => None end.
Definition is_upgraded (o : outcome) : bool := match o with ONew _ => true | _ => false end.

Lemma migrate_error_keeps_input top target :
  migrate O top target = OErr ->
  returned_body (migrate O top target) = None /\ is_upgraded (migrate O top target) = false.
Proof. intros ->. split; reflexivity. Qed.

End WithOracles.

(** ** Concrete instances (premises are satisfiable) *)

Definition oracles0 : oracles :=
  {| o_bcrypt := fun s => Some ("hash:" ++ s)%string; o_quic := fun s => s;
     o_addr := fun s => if String.eqb s "127.0.0.1" then Some s else None; o_glob := "/data/userfilters/*" |}.

Definition doc22 : obj :=
  [("schema_version", VInt 22); ("bind_host", VStr "127.0.0.1"); ("bind_port", VInt 3000);
   ("web_session_ttl", VInt 720); ("verbose", VBool true); ("theme", VStr "auto");
   ("dns", VObj [("all_servers", VBool true); ("filtering_enabled", VBool true)]);
   ("filters", VArr [VObj [("url", VStr "/etc/list.txt")]; VObj [("url", VStr "https://a.example/l.txt")]])].

Example doc22_upgrades :
  exists m', migrate oracles0 (Some doc22) 29 = ONew m' /\
    get "schema_version" m' = Some (VInt 29) /\ get "theme" m' = Some (VStr "auto") /\
    get "http" m' = Some (VObj [("address", VStr "127.0.0.1:3000"); ("session_ttl", VStr "720h");
                                ("pprof", VObj [("enabled", VBool false); ("port", VInt 6060)])]) /\
    get "filtering" m' = Some (VObj [("filtering_enabled", VBool true);
                                     ("safe_fs_patterns", VStrs ["/data/userfilters/*"; "/etc/list.txt"])]).
Proof. eexists. split; [vm_compute; reflexivity|]. repeat split. Qed.

Example doc_error : migrate oracles0 (Some [("schema_version", VInt 10); ("rlimit_nofile", VStr "x")]) 29 = OErr.
Proof. reflexivity. Qed.

Example doc_null_document : exists m', migrate oracles0 None 29 = ONew m' /\ get "schema_version" m' = Some (VInt 29).
Proof. eexists. split; [vm_compute; reflexivity|]. reflexivity. Qed.

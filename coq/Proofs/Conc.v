(** Generic theorems about the abstract lock machine of C05 (Base/Conc.v):

    - [well_locked_race_free]: if every thread follows the guard discipline
      ([well_locked]), no reachable state has a data race;
    - [ranked_no_deadlock]: if every thread takes nested locks in strictly
      increasing rank order ([ranked]), no reachable state is deadlocked.

    Both are proved with one ghost-state invariant: every thread is paired
    with the multiset of (lock, mode) it holds, and the counters of every
    mutex equal the sums over these ghost sets. *)
From Coq Require Import List String Bool Arith Lia PeanoNat.
From AGH Require Import Base.Conc.
Import ListNotations.
Local Open Scope string_scope.
Local Open Scope list_scope.

(** * Premises are satisfiable, conclusions are not vacuous *)

Example well_locked_example :
  well_locked (fun _ => "mu"%string) []
    [Acq "mu" W; Wr "f"; Rel "mu" W] = true.
Proof. reflexivity. Qed.

Example well_locked_read_example :
  well_locked (fun _ => "mu"%string) []
    [Acq "mu" R; Rd "f"; Rel "mu" R] = true.
Proof. reflexivity. Qed.

Example ranked_example :
  ranked (fun l => if String.eqb l "a" then 1 else 2) []
    [Acq "a" W; Acq "b" R; Rd "f"; Rel "b" R; Rel "a" W] = true.
Proof. reflexivity. Qed.

(** Opposite order is rejected. *)
Example ranked_counterexample :
  ranked (fun l => if String.eqb l "a" then 1 else 2) []
    [Acq "b" W; Acq "a" W; Rel "a" W; Rel "b" W] = false.
Proof. reflexivity. Qed.

(** The machine can race when the discipline is not followed. *)
Example race_possible :
  exists s, reachable (init [[Wr "f"]; [Rd "f"]]) s /\ race s.
Proof.
  eexists; split; [apply reach_refl|].
  exists [], (TH false [Wr "f"]), [], (TH false [Rd "f"]), [], "f"%string, true, false.
  repeat split.
Qed.

(** * Counting occurrences in ghost held sets *)

Fixpoint cnt (x : lock * mode) (h : held) : nat :=
  match h with
  | [] => 0
  | y :: h' => (if lm_eqb x y then 1 else 0) + cnt x h'
  end.

Lemma lm_eqb_eq : forall a b, lm_eqb a b = true <-> a = b.
Proof.
  intros [l m] [l' m']; unfold lm_eqb; simpl.
  rewrite andb_true_iff, String.eqb_eq. split.
  - intros [-> H]. destruct m, m'; simpl in H; congruence.
  - intros H; inversion H; subst. split; auto. destruct m'; reflexivity.
Qed.

Lemma lm_eqb_refl : forall a, lm_eqb a a = true.
Proof. intros a; apply lm_eqb_eq; reflexivity. Qed.

Lemma lm_eqb_neq : forall a b, a <> b -> lm_eqb a b = false.
Proof.
  intros a b N. destruct (lm_eqb a b) eqn:E; auto.
  apply lm_eqb_eq in E; contradiction.
Qed.

Lemma mem_cnt : forall x h, mem_lm x h = true -> 1 <= cnt x h.
Proof.
  intros x h; induction h as [|y h IH]; simpl; [discriminate|].
  destruct (lm_eqb x y); simpl; intros H; [lia|].
  apply IH in H; lia.
Qed.

Lemma cnt_remove_same :
  forall x h, mem_lm x h = true -> cnt x h = S (cnt x (remove_one x h)).
Proof.
  intros x h; induction h as [|y h IH]; simpl; [discriminate|].
  destruct (lm_eqb x y) eqn:E; simpl.
  - intros _; reflexivity.
  - intros H; rewrite E; simpl; apply IH; assumption.
Qed.

Lemma cnt_remove_other :
  forall x y h, x <> y -> cnt x (remove_one y h) = cnt x h.
Proof.
  intros x y h N; induction h as [|z h IH]; simpl; auto.
  destruct (lm_eqb y z) eqn:E.
  - apply lm_eqb_eq in E; subst z. rewrite (lm_eqb_neq x y N); reflexivity.
  - simpl; rewrite IH; reflexivity.
Qed.

Lemma holds_cnt :
  forall h l, holds h l = true -> 1 <= cnt (l, W) h + cnt (l, R) h.
Proof.
  intros h l; induction h as [|[l' m] h IH]; simpl; [discriminate|].
  unfold lm_eqb; simpl. rewrite (String.eqb_sym l l').
  destruct (String.eqb l' l); simpl.
  - intros _; destruct m; simpl; lia.
  - intros H; apply IH in H; lia.
Qed.

Lemma cnt_holds :
  forall h l m, 1 <= cnt (l, m) h -> holds h l = true.
Proof.
  intros h l m; induction h as [|[l' m'] h IH]; simpl; [lia|].
  unfold lm_eqb; simpl. rewrite (String.eqb_sym l l').
  destruct (String.eqb l' l); simpl; auto.
Qed.

(** * Ghost state *)

(** An announced writer waiting on [l]. *)
Definition waits_w (l : lock) (th : thread) : bool :=
  announced th &&
  match rest th with
  | Acq l' W :: _ => String.eqb l' l
  | _ => false
  end.

Definition pw (l : lock) (th : thread) : nat := if waits_w l th then 1 else 0.

Definition ann_ok (th : thread) : Prop :=
  announced th = true -> exists l r, rest th = Acq l W :: r.

(** The counters of one mutex agree with: [wc] write holders, [rc] read
    holders, [pc] announced writers. *)
Definition lockok (ls : lstate) (wc rc pc : nat) : Prop :=
  (writer ls = true -> wc = 1) /\
  (writer ls = false -> wc = 0) /\
  (wc = 1 -> rc = 0) /\
  readers ls = rc /\
  pending ls = pc.

Lemma lockok_ext :
  forall ls wc rc pc wc' rc' pc',
    wc = wc' -> rc = rc' -> pc = pc' ->
    lockok ls wc rc pc -> lockok ls wc' rc' pc'.
Proof. intros; subst; assumption. Qed.

Definition ithread := (held * thread)%type.

Fixpoint total (x : lock * mode) (its : list ithread) : nat :=
  match its with
  | [] => 0
  | it :: r => cnt x (fst it) + total x r
  end.

Fixpoint ptotal (l : lock) (its : list ithread) : nat :=
  match its with
  | [] => 0
  | it :: r => pw l (snd it) + ptotal l r
  end.

Lemma total_app :
  forall x a b, total x (a ++ b) = total x a + total x b.
Proof. intros x a b; induction a; simpl; lia. Qed.

Lemma ptotal_app :
  forall l a b, ptotal l (a ++ b) = ptotal l a + ptotal l b.
Proof. intros l a b; induction a; simpl; lia. Qed.

Lemma total_pos :
  forall x its, 1 <= total x its ->
    exists it, In it its /\ 1 <= cnt x (fst it).
Proof.
  intros x its; induction its as [|it its IH]; simpl; [lia|].
  intros H. destruct (cnt x (fst it)) eqn:E.
  - destruct IH as (it' & Hin & Hc); [lia|]. exists it'; auto.
  - exists it; split; [auto|lia].
Qed.

Lemma ptotal_pos :
  forall l its, 1 <= ptotal l its ->
    exists it, In it its /\ waits_w l (snd it) = true.
Proof.
  intros l its; induction its as [|it its IH]; simpl; [lia|].
  intros H. unfold pw in H. destruct (waits_w l (snd it)) eqn:E.
  - exists it; auto.
  - destruct IH as (it' & Hin & Hc); [lia|]. exists it'; auto.
Qed.

(** * The invariant, generic in the per-thread discipline [P] *)

Section Invariant.

Variable P : held -> list event -> Prop.
Hypothesis P_acq : forall h l m r, P h (Acq l m :: r) -> P ((l, m) :: h) r.
Hypothesis P_rel : forall h l m r,
  P h (Rel l m :: r) -> mem_lm (l, m) h = true /\ P (remove_one (l, m) h) r.
Hypothesis P_rd : forall h f r, P h (Rd f :: r) -> P h r.
Hypothesis P_wr : forall h f r, P h (Wr f :: r) -> P h r.

Definition inv (s : state) : Prop :=
  exists its : list ithread,
    map snd its = threads s /\
    Forall (fun it => P (fst it) (rest (snd it)) /\ ann_ok (snd it)) its /\
    forall l, lockok (locks s l) (total (l, W) its) (total (l, R) its) (ptotal l its).

Lemma ann_ok_false : forall r, ann_ok (TH false r).
Proof. intros r H; discriminate H. Qed.

Lemma cnt_cons_other :
  forall l l' m m' h, String.eqb l' l = false ->
    cnt (l', m') ((l, m) :: h) = cnt (l', m') h.
Proof.
  intros l l' m m' h E; simpl. unfold lm_eqb; simpl. rewrite E; reflexivity.
Qed.

Lemma cnt_remove_other_lock :
  forall l l' m m' h, String.eqb l' l = false ->
    cnt (l', m') (remove_one (l, m) h) = cnt (l', m') h.
Proof.
  intros l l' m m' h E. apply cnt_remove_other.
  intros H; inversion H; subst. rewrite String.eqb_refl in E; discriminate.
Qed.

Ltac lockok_solve t l :=
  unfold lockok; simpl;
  let Ew := fresh "Ew" in
  destruct (writer (t l)) eqn:Ew; try congruence;
  let H1 := fresh in let H2 := fresh in let H3 := fresh in
  let H4 := fresh in let H5 := fresh in
  intros (H1 & H2 & H3 & H4 & H5);
  first [specialize (H1 eq_refl) | specialize (H2 eq_refl)];
  repeat split; intros; try discriminate; try lia.

Lemma tstep_inv :
  forall lt th lt' th', tstep lt th lt' th' ->
  forall h, P h (rest th) ->
  exists h', P h' (rest th') /\ ann_ok th' /\
    forall l' wo ro po,
      lockok (lt l') (cnt (l', W) h + wo) (cnt (l', R) h + ro) (pw l' th + po) ->
      lockok (lt' l') (cnt (l', W) h' + wo) (cnt (l', R) h' + ro) (pw l' th' + po).
Proof.
  intros lt th lt' th' Hs h HP; destruct Hs; simpl in HP.
  - (* rd *)
    exists h; split; [eauto|]; split; [apply ann_ok_false|]. intros; assumption.
  - (* wr *)
    exists h; split; [eauto|]; split; [apply ann_ok_false|]. intros; assumption.
  - (* announce *)
    exists h; split; [assumption|]; split; [intros _; do 2 eexists; reflexivity|].
    intros l' wo ro po. unfold upd, pw, waits_w; simpl.
    rewrite (String.eqb_sym l l').
    destruct (String.eqb l' l) eqn:E; [|auto].
    apply String.eqb_eq in E; subst l'.
    lockok_solve t l.
  - (* acq_w *)
    exists ((l, W) :: h); split; [eauto|]; split; [apply ann_ok_false|].
    intros l' wo ro po. unfold upd, pw, waits_w. cbn [announced rest andb].
    rewrite (String.eqb_sym l l').
    destruct (String.eqb l' l) eqn:E.
    + apply String.eqb_eq in E; subst l'.
      cbn [cnt]. rewrite lm_eqb_refl.
      rewrite (lm_eqb_neq (l, R) (l, W)) by congruence.
      lockok_solve t l.
    + rewrite !cnt_cons_other by assumption. auto.
  - (* acq_r *)
    exists ((l, R) :: h); split; [eauto|]; split; [apply ann_ok_false|].
    intros l' wo ro po. unfold upd, pw, waits_w. cbn [announced rest andb].
    destruct (String.eqb l' l) eqn:E.
    + apply String.eqb_eq in E; subst l'.
      cbn [cnt]. rewrite lm_eqb_refl.
      rewrite (lm_eqb_neq (l, W) (l, R)) by congruence.
      lockok_solve t l.
    + rewrite !cnt_cons_other by assumption. auto.
  - (* rel_w *)
    apply P_rel in HP as [Hm HP].
    exists (remove_one (l, W) h); split; [assumption|]; split; [apply ann_ok_false|].
    intros l' wo ro po. unfold upd, pw, waits_w. cbn [announced rest andb].
    destruct (String.eqb l' l) eqn:E.
    + apply String.eqb_eq in E; subst l'.
      rewrite (cnt_remove_same _ _ Hm).
      rewrite (cnt_remove_other (l, R) (l, W)) by congruence.
      lockok_solve t l.
    + rewrite !cnt_remove_other_lock by assumption. auto.
  - (* rel_r *)
    apply P_rel in HP as [Hm HP].
    exists (remove_one (l, R) h); split; [assumption|]; split; [apply ann_ok_false|].
    intros l' wo ro po. unfold upd, pw, waits_w. cbn [announced rest andb].
    destruct (String.eqb l' l) eqn:E.
    + apply String.eqb_eq in E; subst l'.
      rewrite (cnt_remove_same _ _ Hm).
      rewrite (cnt_remove_other (l, W) (l, R)) by congruence.
      lockok_solve t l.
    + rewrite !cnt_remove_other_lock by assumption. auto.
Qed.

Lemma inv_init :
  forall progs, Forall (P []) progs -> inv (init progs).
Proof.
  intros progs HF.
  exists (map (fun p => ([], TH false p)) progs); simpl.
  split; [rewrite map_map; reflexivity|].
  split.
  - apply Forall_map. eapply Forall_impl; [|exact HF].
    simpl; intros p Hp; split; [assumption|apply ann_ok_false].
  - intros l.
    assert (Ht : forall x, total x (map (fun p => ([], TH false p)) progs) = 0)
      by (clear; intros x; induction progs; simpl; auto).
    assert (Hp : ptotal l (map (fun p => ([], TH false p)) progs) = 0)
      by (clear; induction progs; simpl; auto).
    rewrite !Ht, Hp. unfold lockok, l0; simpl. intuition congruence.
Qed.

Lemma inv_step : forall s s', step s s' -> inv s -> inv s'.
Proof.
  intros s s' Hs (its & Hm & HF & HL); destruct Hs as [lt lt' pre th th' post Ht].
  simpl in *.
  apply map_eq_app in Hm as (ipre & itl & -> & Hpre & Htl).
  apply map_eq_cons in Htl as ([h th0] & ipost & -> & Hit & Hpost).
  simpl in Hit; subst th0.
  apply Forall_app in HF as [HFpre HFtl].
  inversion HFtl as [|x y [HP _] HFpost]; subst x y. simpl in HP.
  destruct (tstep_inv _ _ _ _ Ht h HP) as (h' & HP' & Ha' & HL').
  exists (ipre ++ (h', th') :: ipost).
  split; [rewrite map_app; simpl; congruence|].
  split.
  - apply Forall_app; split; [assumption|]. constructor; [split; assumption|assumption].
  - intros l. specialize (HL l). specialize (HL' l).
    rewrite !total_app, ptotal_app in *. simpl in *.
    eapply lockok_ext; [| | |apply HL'].
    4: eapply lockok_ext; [| | |apply HL].
    4-6: rewrite Nat.add_comm, <- Nat.add_assoc; reflexivity.
    all: lia.
Qed.

Lemma inv_reachable :
  forall progs, Forall (P []) progs ->
  forall s, reachable (init progs) s -> inv s.
Proof.
  intros progs HF s Hr; induction Hr.
  - apply inv_init; assumption.
  - eapply inv_step; eassumption.
Qed.

End Invariant.

(** * Race freedom *)

Theorem well_locked_race_free : well_locked_race_free_statement.
Proof.
  intros guard progs HF s Hr Hrace.
  pose (P := fun h p => well_locked guard h p = true).
  assert (Hinv : inv P s).
  { apply inv_reachable with (progs := progs); try assumption; unfold P; simpl.
    - intros h l m r H; exact H.
    - intros h l m r H; apply andb_true_iff in H; exact H.
    - intros h f r H; apply andb_true_iff in H; apply H.
    - intros h f r H; apply andb_true_iff in H; apply H. }
  destruct Hinv as (its & Hm & HFi & HL).
  destruct Hrace as (pre & t1 & mid & t2 & post & f & w1 & w2 & Hth & Hn1 & Hn2 & Hw).
  rewrite Hth in Hm.
  apply map_eq_app in Hm as (i1 & itl & -> & _ & Htl).
  apply map_eq_cons in Htl as ([h1 x1] & itl2 & -> & Hx1 & Htl2).
  apply map_eq_app in Htl2 as (i2 & itl3 & -> & _ & Htl3).
  apply map_eq_cons in Htl3 as ([h2 x2] & i3 & -> & Hx2 & _).
  simpl in Hx1, Hx2; subst x1 x2.
  apply Forall_app in HFi as [_ HFi].
  inversion HFi as [|x y [HP1 _] HFi2]; subst x y.
  apply Forall_app in HFi2 as [_ HFi2].
  inversion HFi2 as [|x y [HP2 _] _]; subst x y.
  unfold P in HP1, HP2; simpl in HP1, HP2.
  specialize (HL (guard f)).
  rewrite !total_app in HL; simpl in HL; rewrite !total_app in HL; simpl in HL.
  assert (A1 : 1 <= cnt (guard f, W) h1 + cnt (guard f, R) h1 /\
               (w1 = true -> 1 <= cnt (guard f, W) h1)).
  { unfold next_access in Hn1. destruct (rest t1) as [|[| | |] r]; try discriminate;
      inversion Hn1; subst; simpl in HP1; apply andb_true_iff in HP1 as [HP1 _].
    - split; [apply holds_cnt; assumption|discriminate].
    - apply mem_cnt in HP1. split; [lia|intros _; assumption]. }
  assert (A2 : 1 <= cnt (guard f, W) h2 + cnt (guard f, R) h2 /\
               (w2 = true -> 1 <= cnt (guard f, W) h2)).
  { unfold next_access in Hn2. destruct (rest t2) as [|[| | |] r]; try discriminate;
      inversion Hn2; subst; simpl in HP2; apply andb_true_iff in HP2 as [HP2 _].
    - split; [apply holds_cnt; assumption|discriminate].
    - apply mem_cnt in HP2. split; [lia|intros _; assumption]. }
  destruct A1 as [A1 B1], A2 as [A2 B2].
  destruct HL as (Hwt & Hwf & Hx & _ & _).
  destruct (writer (locks s (guard f))).
  - specialize (Hwt eq_refl).
    destruct w1; [specialize (B1 eq_refl)|]; destruct w2; try discriminate;
      try specialize (B2 eq_refl); lia.
  - specialize (Hwf eq_refl).
    destruct w1; [specialize (B1 eq_refl)|]; destruct w2; try discriminate;
      try specialize (B2 eq_refl); lia.
Qed.

(** * Race freedom with several guards per field *)

(** Two distinct threads never both hold [g] when one holds it in write mode. *)
Lemma inv_two :
  forall P s pre t1 mid t2 post,
    inv P s -> threads s = pre ++ t1 :: mid ++ t2 :: post ->
    exists h1 h2, P h1 (rest t1) /\ P h2 (rest t2) /\
      forall g,
        ~ (1 <= cnt (g, W) h1 /\ 1 <= cnt (g, W) h2 + cnt (g, R) h2) /\
        ~ (1 <= cnt (g, W) h2 /\ 1 <= cnt (g, W) h1 + cnt (g, R) h1).
Proof.
  intros P s pre t1 mid t2 post (its & Hm & HFi & HL) Hth.
  rewrite Hth in Hm.
  apply map_eq_app in Hm as (i1 & itl & -> & _ & Htl).
  apply map_eq_cons in Htl as ([h1 x1] & itl2 & -> & Hx1 & Htl2).
  apply map_eq_app in Htl2 as (i2 & itl3 & -> & _ & Htl3).
  apply map_eq_cons in Htl3 as ([h2 x2] & i3 & -> & Hx2 & _).
  simpl in Hx1, Hx2; subst x1 x2.
  apply Forall_app in HFi as [_ HFi].
  inversion HFi as [|x y [HP1 _] HFi2]; subst x y.
  apply Forall_app in HFi2 as [_ HFi2].
  inversion HFi2 as [|x y [HP2 _] _]; subst x y.
  simpl in HP1, HP2.
  exists h1, h2. split; [exact HP1|]. split; [exact HP2|].
  intros g. specialize (HL g).
  rewrite !total_app in HL; simpl in HL; rewrite !total_app in HL; simpl in HL.
  destruct HL as (Hwt & Hwf & Hx & _ & _).
  destruct (writer (locks s g)).
  - specialize (Hwt eq_refl). split; intros [A B]; lia.
  - specialize (Hwf eq_refl). split; intros [A B]; lia.
Qed.

Lemma existsb_holds_cnt :
  forall h gs, existsb (holds h) gs = true ->
    exists g, In g gs /\ 1 <= cnt (g, W) h + cnt (g, R) h.
Proof.
  intros h gs H. apply existsb_exists in H as (g & Hin & Hg).
  exists g; split; [assumption|apply holds_cnt; assumption].
Qed.

Lemma write_guards_cnt :
  forall h gs,
    match gs with [] => false | _ => forallb (holds_w h) gs end = true ->
    gs <> [] /\ forall g, In g gs -> 1 <= cnt (g, W) h.
Proof.
  intros h gs H. destruct gs as [|g0 gs]; [discriminate|].
  split; [discriminate|]. intros g Hin.
  rewrite forallb_forall in H. apply mem_cnt. apply H. exact Hin.
Qed.

Theorem well_locked_m_race_free : well_locked_m_race_free_statement.
Proof.
  intros guards progs HF s Hr Hrace.
  pose (P := fun h p => well_locked_m guards h p = true).
  assert (Hinv : inv P s).
  { apply inv_reachable with (progs := progs); try assumption; unfold P; simpl.
    - intros h l m r H; exact H.
    - intros h l m r H; apply andb_true_iff in H; exact H.
    - intros h f r H; apply andb_true_iff in H; apply H.
    - intros h f r H; apply andb_true_iff in H; apply H. }
  destruct Hrace as (pre & t1 & mid & t2 & post & f & w1 & w2 & Hth & Hn1 & Hn2 & Hw).
  destruct (inv_two P s pre t1 mid t2 post Hinv Hth) as (h1 & h2 & HP1 & HP2 & Hex).
  unfold P in HP1, HP2.
  (* what each of the two threads holds *)
  assert (A1 : if w1 then guards f <> [] /\ (forall g, In g (guards f) -> 1 <= cnt (g, W) h1)
               else exists g, In g (guards f) /\ 1 <= cnt (g, W) h1 + cnt (g, R) h1).
  { unfold next_access in Hn1. destruct (rest t1) as [|[| | |] r]; try discriminate;
      inversion Hn1; subst; simpl in HP1; apply andb_true_iff in HP1 as [HP1 _].
    - apply existsb_holds_cnt; assumption.
    - apply write_guards_cnt. destruct (guards f); [discriminate|exact HP1]. }
  assert (A2 : if w2 then guards f <> [] /\ (forall g, In g (guards f) -> 1 <= cnt (g, W) h2)
               else exists g, In g (guards f) /\ 1 <= cnt (g, W) h2 + cnt (g, R) h2).
  { unfold next_access in Hn2. destruct (rest t2) as [|[| | |] r]; try discriminate;
      inversion Hn2; subst; simpl in HP2; apply andb_true_iff in HP2 as [HP2 _].
    - apply existsb_holds_cnt; assumption.
    - apply write_guards_cnt. destruct (guards f); [discriminate|exact HP2]. }
  destruct w1, w2; try discriminate.
  - destruct A1 as [Hne A1], A2 as [_ A2].
    destruct (guards f) as [|g gs]; [congruence|].
    destruct (Hex g) as [H _]. apply H. split.
    + apply A1; left; reflexivity.
    + specialize (A2 g (or_introl eq_refl)). lia.
  - destruct A1 as [_ A1], A2 as (g & Hin & A2).
    destruct (Hex g) as [H _]. apply H. split; [apply A1; assumption|assumption].
  - destruct A2 as [_ A2], A1 as (g & Hin & A1).
    destruct (Hex g) as [_ H]. apply H. split; [apply A2; assumption|assumption].
Qed.

Example well_locked_m_example :
  well_locked_m (fun _ => ["ctl"; "mu"]) []
    [Acq "ctl" W; Rd "f"; Acq "mu" W; Wr "f"; Rel "mu" W; Rel "ctl" W] = true.
Proof. reflexivity. Qed.

(** * Race freedom with never-written fields *)

Theorem well_locked_ro_race_free : well_locked_ro_race_free_statement.
Proof.
  intros guards ro progs HF s Hr Hrace.
  pose (P := fun h p => well_locked_ro guards ro h p = true).
  assert (Hinv : inv P s).
  { apply inv_reachable with (progs := progs); try assumption; unfold P; simpl.
    - intros h l m r H; exact H.
    - intros h l m r H; apply andb_true_iff in H; exact H.
    - intros h f r H; apply andb_true_iff in H; apply H.
    - intros h f r H; apply andb_true_iff in H; apply H. }
  destruct Hrace as (pre & t1 & mid & t2 & post & f & w1 & w2 & Hth & Hn1 & Hn2 & Hw).
  destruct (inv_two P s pre t1 mid t2 post Hinv Hth) as (h1 & h2 & HP1 & HP2 & Hex).
  unfold P in HP1, HP2.
  assert (A1 : if w1 then ro f = false /\ guards f <> [] /\
                            (forall g, In g (guards f) -> 1 <= cnt (g, W) h1)
               else ro f = true \/
                    exists g, In g (guards f) /\ 1 <= cnt (g, W) h1 + cnt (g, R) h1).
  { unfold next_access in Hn1. destruct (rest t1) as [|[| | |] r]; try discriminate;
      inversion Hn1; subst; simpl in HP1; apply andb_true_iff in HP1 as [HP1 _].
    - apply orb_true_iff in HP1 as [HP1|HP1]; [left; exact HP1|right].
      apply existsb_holds_cnt; assumption.
    - apply andb_true_iff in HP1 as [Hro HP1]. split.
      + destruct (ro f); [discriminate|reflexivity].
      + apply write_guards_cnt. destruct (guards f); [discriminate|exact HP1]. }
  assert (A2 : if w2 then ro f = false /\ guards f <> [] /\
                            (forall g, In g (guards f) -> 1 <= cnt (g, W) h2)
               else ro f = true \/
                    exists g, In g (guards f) /\ 1 <= cnt (g, W) h2 + cnt (g, R) h2).
  { unfold next_access in Hn2. destruct (rest t2) as [|[| | |] r]; try discriminate;
      inversion Hn2; subst; simpl in HP2; apply andb_true_iff in HP2 as [HP2 _].
    - apply orb_true_iff in HP2 as [HP2|HP2]; [left; exact HP2|right].
      apply existsb_holds_cnt; assumption.
    - apply andb_true_iff in HP2 as [Hro HP2]. split.
      + destruct (ro f); [discriminate|reflexivity].
      + apply write_guards_cnt. destruct (guards f); [discriminate|exact HP2]. }
  destruct w1, w2; try discriminate.
  - destruct A1 as (_ & Hne & A1), A2 as (_ & _ & A2).
    destruct (guards f) as [|g gs]; [congruence|].
    destruct (Hex g) as [H _]. apply H. split.
    + apply A1; left; reflexivity.
    + specialize (A2 g (or_introl eq_refl)). lia.
  - destruct A1 as (Hro & _ & A1). destruct A2 as [A2|(g & Hin & A2)]; [congruence|].
    destruct (Hex g) as [H _]. apply H. split; [apply A1; assumption|assumption].
  - destruct A2 as (Hro & _ & A2). destruct A1 as [A1|(g & Hin & A1)]; [congruence|].
    destruct (Hex g) as [_ H]. apply H. split; [apply A2; assumption|assumption].
Qed.

Example well_locked_ro_example :
  well_locked_ro (fun _ => ["mu"]) (fun f => String.eqb f "const") []
    [Rd "const"; Acq "mu" W; Wr "f"; Rd "const"; Rel "mu" W] = true.
Proof. reflexivity. Qed.

(** * Deadlock freedom *)

Lemma ranked_nil_held : forall rank h, ranked rank h [] = true -> h = [].
Proof. intros rank [|x h]; simpl; [reflexivity|discriminate]. Qed.

Lemma holds_In : forall h l, holds h l = true -> exists m, In (l, m) h.
Proof.
  unfold holds; intros h l H.
  apply existsb_exists in H as ([l' m] & Hin & E); simpl in E.
  apply String.eqb_eq in E; subst l'. exists m; exact Hin.
Qed.

(** Rank of the lock a thread is about to take. *)
Definition hrank (rank : lock -> nat) (th : thread) : nat :=
  match rest th with
  | Acq l _ :: _ => rank l
  | _ => 0
  end.

Lemma bounded :
  forall (A : Type) (f : A -> nat) (l : list A),
    exists B, forall x, In x l -> f x <= B.
Proof.
  intros A f l; induction l as [|a l [B HB]].
  - exists 0; intros x [].
  - exists (Nat.max B (f a)); intros x [<-|H]; [lia|].
    apply HB in H; lia.
Qed.

(** In a finite list there is no [Q]-closed strictly ascending relation. *)
Lemma no_ascent :
  forall (A : Type) (f : A -> nat) (Q : A -> Prop) (l : list A),
    (forall x, In x l -> Q x -> exists y, In y l /\ Q y /\ f x < f y) ->
    forall x, In x l -> Q x -> False.
Proof.
  intros A f Q l Hasc. destruct (bounded A f l) as [B HB].
  assert (H : forall n x, In x l -> Q x -> B - f x < n -> False).
  { induction n as [|n IH]; intros x Hin HQ Hlt; [lia|].
    destruct (Hasc x Hin HQ) as (y & Hy & HQy & Hlt').
    apply (IH y Hy HQy).
    pose proof (HB y Hy); pose proof (HB x Hin); lia. }
  intros x Hin HQ; exact (H (S (B - f x)) x Hin HQ (Nat.lt_succ_diag_r _)).
Qed.

Theorem ranked_no_deadlock : ranked_no_deadlock_statement.
Proof.
  intros rank progs HF s Hr [(th0 & Hin0 & Hne0) Hblocked].
  pose (P := fun h p => ranked rank h p = true).
  assert (Hinv : inv P s).
  { apply inv_reachable with (progs := progs); try assumption; unfold P; simpl.
    - intros h l m r H; apply andb_true_iff in H; apply H.
    - intros h l m r H; apply andb_true_iff in H; exact H.
    - intros h f r H; exact H.
    - intros h f r H; exact H. }
  destruct Hinv as (its & Hm & HFi & HL).
  rewrite Forall_forall in HFi.
  (* a mutex whose counters are busy has a ghost holder *)
  assert (Hholder : forall l,
             writer (locks s l) = true \/ readers (locks s l) <> 0 ->
             exists it, In it its /\ holds (fst it) l = true).
  { intros l H. destruct (HL l) as (Hwt & _ & _ & Hrd & _). destruct H as [H|H].
    - destruct (total_pos (l, W) its) as (it & Hin & Hc); [rewrite (Hwt H); lia|].
      exists it; split; [assumption|]. eapply cnt_holds; eassumption.
    - destruct (total_pos (l, R) its) as (it & Hin & Hc); [lia|].
      exists it; split; [assumption|]. eapply cnt_holds; eassumption. }
  assert (Hthr : forall it, In it its -> In (snd it) (threads s)).
  { intros it Hin. rewrite <- Hm. apply in_map; assumption. }
  (* every unfinished thread waits for a lock that somebody holds *)
  assert (Hhead : forall it, In it its -> rest (snd it) <> [] ->
             exists l m r, rest (snd it) = Acq l m :: r /\
               exists it', In it' its /\ holds (fst it') l = true).
  { intros it Hin Hne.
    pose proof (Hblocked _ (Hthr it Hin) Hne) as Hb. unfold can_step in Hb.
    destruct (HFi _ Hin) as [_ Ha].
    destruct it as [h [a p]]; simpl in *.
    destruct a.
    - destruct (Ha eq_refl) as (l & r & Ep); simpl in Ep; subst p.
      exists l, W, r; split; [reflexivity|]. apply Hholder.
      destruct (writer (locks s l)) eqn:Ew; [left; reflexivity|].
      right; intros Hr0. apply Hb. do 2 eexists. apply ts_acq_w; assumption.
    - destruct p as [|[l m|l m|f|f] r]; [congruence| |exfalso..].
      + destruct m.
        * exists l, R, r; split; [reflexivity|].
          destruct (writer (locks s l)) eqn:Ew; [apply Hholder; left; assumption|].
          destruct (pending (locks s l)) eqn:Ep.
          { exfalso; apply Hb. do 2 eexists. apply ts_acq_r; assumption. }
          destruct (HL l) as (_ & _ & _ & _ & Hpd).
          destruct (ptotal_pos l its) as (it' & Hin' & Hw); [lia|].
          pose proof (Hblocked _ (Hthr it' Hin')) as Hb'.
          destruct it' as [h' [a' p']]; unfold waits_w in Hw; simpl in *.
          apply andb_true_iff in Hw as [-> Hw].
          destruct p' as [|[l' [|]| | |] r']; try discriminate.
          apply String.eqb_eq in Hw; subst l'.
          apply Hholder. right; intros Hr0. apply Hb'; [discriminate|].
          do 2 eexists. apply ts_acq_w; assumption.
        * exfalso; apply Hb. do 2 eexists. apply ts_announce.
      + apply Hb. destruct m; do 2 eexists; constructor.
      + apply Hb. do 2 eexists. constructor.
      + apply Hb. do 2 eexists. constructor. }
  (* so the ranks of awaited locks would ascend forever *)
  rewrite <- Hm in Hin0. apply in_map_iff in Hin0 as (it0 & <- & Hin0).
  apply (no_ascent ithread (fun it => hrank rank (snd it))
           (fun it => rest (snd it) <> []) its) with (x := it0);
    [|assumption|assumption].
  intros it Hin Hne.
  destruct (Hhead it Hin Hne) as (l & m & r & Hrest & it' & Hin' & Hh).
  destruct (HFi _ Hin') as [HP' _]. unfold P in HP'.
  assert (Hne' : rest (snd it') <> []).
  { intros E. rewrite E in HP'. apply ranked_nil_held in HP'.
    rewrite HP' in Hh. discriminate. }
  destruct (Hhead it' Hin' Hne') as (l' & m' & r' & Hrest' & _).
  exists it'; split; [assumption|]; split; [assumption|].
  unfold hrank; rewrite Hrest, Hrest'.
  rewrite Hrest' in HP'; simpl in HP'.
  apply andb_true_iff in HP' as [Hall _]. rewrite forallb_forall in Hall.
  apply holds_In in Hh as [m0 Hm0]. apply Hall in Hm0; simpl in Hm0.
  apply Nat.ltb_lt; assumption.
Qed.

(** The machine can deadlock when locks are taken in opposite orders. *)

Lemma reach_front :
  forall s0 s1 s, step s0 s1 -> reachable s1 s -> reachable s0 s.
Proof.
  intros s0 s1 s Hs Hr; induction Hr.
  - eapply reach_step; [apply reach_refl|exact Hs].
  - eapply reach_step; eassumption.
Qed.

Lemma step_fst :
  forall lt lt' th th' post, tstep lt th lt' th' ->
    step (ST lt (th :: post)) (ST lt' (th' :: post)).
Proof. intros lt lt' th th' post H; exact (step_thread lt lt' [] th th' post H). Qed.

Lemma step_snd :
  forall lt lt' x th th' post, tstep lt th lt' th' ->
    step (ST lt (x :: th :: post)) (ST lt' (x :: th' :: post)).
Proof. intros lt lt' x th th' post H; exact (step_thread lt lt' [x] th th' post H). Qed.

Lemma blocked_w :
  forall lt l r, writer (lt l) = true -> ~ can_step lt (TH true (Acq l W :: r)).
Proof.
  intros lt l r Hw (lt' & th' & Hs); inversion Hs; subst; congruence.
Qed.

Example deadlock_possible :
  exists s,
    reachable (init [[Acq "a" W; Acq "b" W; Rel "b" W; Rel "a" W];
                     [Acq "b" W; Acq "a" W; Rel "a" W; Rel "b" W]]) s /\
    deadlocked s.
Proof.
  eexists; split.
  - unfold init; simpl.
    eapply reach_front. { apply step_fst; apply ts_announce. }
    eapply reach_front. { apply step_fst; apply ts_acq_w; reflexivity. }
    eapply reach_front. { apply step_snd; apply ts_announce. }
    eapply reach_front. { apply step_snd; apply ts_acq_w; reflexivity. }
    eapply reach_front. { apply step_fst; apply ts_announce. }
    eapply reach_front. { apply step_snd; apply ts_announce. }
    apply reach_refl.
  - split.
    + eexists; split; [left; reflexivity|discriminate].
    + intros th [<-|[<-|[]]] _; apply blocked_w; vm_compute; reflexivity.
Qed.

(** The shape of the serverLock finding: a thread re-acquires a read lock it
    already holds while a writer has announced itself in between.  Writer
    preference makes the second RLock wait for the writer, which waits for the
    first RLock: the machine deadlocks with a single lock. *)
Example reentrant_read_deadlock_possible :
  exists s,
    reachable (init [[Acq "l" R; Acq "l" R; Rel "l" R; Rel "l" R];
                     [Acq "l" W; Rel "l" W]]) s /\
    deadlocked s.
Proof.
  eexists; split.
  - unfold init; simpl.
    eapply reach_front. { apply step_fst; apply ts_acq_r; reflexivity. }
    eapply reach_front. { apply step_snd; apply ts_announce. }
    apply reach_refl.
  - split.
    + eexists; split; [left; reflexivity|discriminate].
    + intros th [<-|[<-|[]]] _ (lt' & th' & Hs); inversion Hs; subst;
        match goal with H : _ = _ |- _ => vm_compute in H; discriminate H end.
Qed.

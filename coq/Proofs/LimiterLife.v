(** The limiter exists for the whole life of every process that has an Auth
    object, however its accounts came to exist (C12, round 8). *)
From AGH Require Import Base.Run Model.RateLimit Model.Session Model.AuthHttp Model.AuthLife Model.LimiterLife
  Proofs.AuthLife.
From Coq Require Import Lia.

Section Inv.
Variable ul : list account -> list account.
Variable k : boot_code.
Variable cfg : auth_cfg.

Definition lim_inv (sl : life * option rl_conf) : Prop :=
  forall p, l_proc (fst sl) = Some p -> proc_auth_present p = true -> snd sl = mk_limiter cfg.

(** configure and write neither create an Auth object nor drop one *)
Lemma auth_presence_back st o p' :
  (forall db w, o <> OBoot db w) -> o <> OStop ->
  l_proc (step ul k st o) = Some p' -> proc_auth_present p' = true ->
  exists p, l_proc st = Some p /\ proc_auth_present p = true.
Proof.
  intros Hb Hs. destruct o as [db w|name hash res|ok|]; [exfalso; eapply Hb; eauto| | |contradiction].
  - cbn [step]. unfold do_configure, write_proc, set_first_run, proc_auth_present.
    destruct (l_proc st) as [p|] eqn:Ep; [|rewrite Ep; discriminate].
    destruct res; destruct (p_auth p) eqn:Ea; cbn; rewrite ?Ep; intros Hx; injection Hx as <-;
      cbn; rewrite ?Ea; intros Hq; try discriminate; exists p; rewrite ?Ea; auto.
  - cbn [step]. unfold do_write, write_proc, proc_auth_present.
    destruct (l_proc st) as [p|] eqn:Ep; [|rewrite Ep; discriminate].
    cbn. intros [= <-]. cbn. intros Hq. exists p. auto.
Qed.

Lemma lim_step_inv sl o : lim_inv sl -> lim_inv (lim_step ul k true cfg sl o).
Proof.
  destruct sl as [st lim]. unfold lim_inv, lim_step. cbn [fst snd]. intros Hi p' Hp' Ha.
  destruct o as [db w|name hash res|ok|].
  - cbn [step] in *. destruct (l_proc st) as [q|] eqn:Eq.
    + unfold do_boot in Hp'. rewrite Eq in Hp'. rewrite Eq in Hp'. injection Hp' as <-. eapply Hi; eauto.
    + rewrite Hp'. rewrite Ha. reflexivity.
  - destruct (auth_presence_back st (OConfigure name hash res) p') as (p & Hp & Hq); auto; try discriminate.
    eapply Hi; eauto.
  - destruct (auth_presence_back st (OWrite ok) p') as (p & Hp & Hq); auto; try discriminate.
    eapply Hi; eauto.
  - cbn in Hp'. discriminate.
Qed.

Lemma limiter_life_inv ops : forall sl, lim_inv sl -> lim_inv (fold_left (lim_step ul k true cfg) ops sl).
Proof. induction ops as [|o ops IH]; intros sl Hi; cbn; auto using lim_step_inv. Qed.

(** For every life history of an installation (boots from no file or from a
    file, wizard runs with every outcome, writes, stops): whenever a process
    with an Auth object is running, its limiter is the one the configuration
    asks for; with both settings positive it exists and has the configured
    parameters, so the blocking theorems stated over [mk_limiter cfg] apply to
    every login that process serves: whether its accounts came from the file
    or were added by the wizard to an object created without any. *)
Theorem limiter_present_whenever_account_exists st0 ops p :
  l_proc st0 = None ->
  l_proc (fst (limiter_life ul k true cfg st0 ops)) = Some p ->
  proc_auth_present p = true ->
  snd (limiter_life ul k true cfg st0 ops) = mk_limiter cfg /\
  ((0 < ac_attempts cfg)%Z -> (0 < ac_block_min cfg)%Z ->
   exists c, snd (limiter_life ul k true cfg st0 ops) = Some c /\
             rl_max c = Z.to_N (ac_attempts cfg) /\ rl_ttl c = minute_ns /\ rl_block c = block_dur cfg).
Proof.
  intros H0 Hp Ha.
  assert (Hl : snd (limiter_life ul k true cfg st0 ops) = mk_limiter cfg).
  { unfold limiter_life in *. eapply (limiter_life_inv ops (st0, None)); eauto.
    intros q Hq. cbn in Hq. congruence. }
  split; [exact Hl|]. intros H1 H2. rewrite Hl. unfold mk_limiter, mk_limiter_with, cond_code.
  apply Z.ltb_lt in H1, H2. rewrite H1, H2. cbn. eexists. repeat split.
Qed.

(** The installation the limiter follows is C11's. *)
Lemma limiter_life_fst st ops : forall lim keep,
  fst (fold_left (lim_step ul k keep cfg) ops (st, lim)) = run_ops ul k st ops.
Proof.
  revert st. induction ops as [|o ops IH]; intros st lim keep; cbn; [reflexivity|].
  unfold run_ops in IH. rewrite IH. reflexivity.
Qed.
End Inv.

(** A fresh installation: first start (no file), the wizard completes.  With
    "no limiter for an object created without users" (seeded change C12-O) the
    process has an account and no limiter: four wrong passwords from one
    address are all evaluated with auth_attempts 3.  The code: the fourth is
    answered 429. *)
From stdpp Require Import gmap.
Definition ex_cfg : auth_cfg := {| ac_attempts := 3; ac_block_min := 15 |}.
Definition ex_fresh : list op := [OBoot true true; OConfigure (fst ex_admin) (snd ex_admin) CfgOk].
Definition ex_wrong (t : Z) : att :=
  {| a_now := t; a_now2 := t; a_addr := [49%N]; a_hdr := None; a_trusted := false; a_ok := false |}.
Definition ex_guesses : list att := [ex_wrong 0; ex_wrong 1000000000; ex_wrong 2000000000; ex_wrong 3000000000].

Example no_limiter_when_started_empty_refuted :
  let sl := limiter_life users_list ok_code false ex_cfg life0 ex_fresh in
  let sl' := limiter_life users_list ok_code true ex_cfg life0 ex_fresh in
  (exists p, l_proc (fst sl) = Some p /\ proc_users p = [ex_admin]) /\
  snd sl = None /\
  snd (run_logins_opt (snd sl) ∅ ex_guesses) = [L403; L403; L403; L403] /\
  fst sl' = fst sl /\ snd sl' = mk_limiter ex_cfg /\
  (exists lft, snd (run_logins_opt (snd sl') ∅ ex_guesses) = [L403; L403; L403; L429 lft]).
Proof.
  cbn zeta. split; [eexists; split; vm_compute; reflexivity|].
  split; [vm_compute; reflexivity|]. split; [vm_compute; reflexivity|].
  split; [vm_compute; reflexivity|]. split; [vm_compute; reflexivity|].
  eexists. vm_compute. reflexivity.
Qed.

(** Specification and proofs for the login limiter (C12). *)
From AGH Require Import Base.Run Model.RateLimit.
From stdpp Require Import gmap.
From Coq Require Import Lia.
Local Open Scope Z_scope.

(** * Timed histories *)

(** Attempts are sequential and the clock does not go back: every attempt
    reads the clock twice ([a_now] in [check], [a_now2] in [inc]). *)
Fixpoint wf_from (t : Z) (h : list att) : Prop :=
  match h with
  | [] => True
  | e :: h' => t <= a_now e /\ a_now e <= a_now2 e /\ wf_from (a_now2 e) h'
  end.

Lemma wf_from_weaken t t' h : t' <= t -> wf_from t h -> wf_from t' h.
Proof. destruct h; cbn; intuition lia. Qed.

Lemma wf_from_ge t h : wf_from t h -> Forall (fun e => t <= a_now e /\ a_now e <= a_now2 e) h.
Proof.
  revert t; induction h as [|e h IH]; cbn; intros t H; constructor.
  - intuition lia.
  - destruct H as (H1 & H2 & H3). apply IH in H3.
    eapply Forall_impl; [exact H3|]. cbn; intros; lia.
Qed.

Lemma wf_from_app t h1 e h2 :
  wf_from t (h1 ++ e :: h2) -> wf_from t h1 /\ wf_from (a_now e) [e] /\ wf_from (a_now2 e) h2 /\
    t <= a_now e /\ Forall (fun x => a_now2 x <= a_now e) h1.
Proof.
  revert t; induction h1 as [|x h1 IH]; cbn; intros t H.
  - destruct H as (A & B & C). repeat split; auto; try lia.
  - destruct H as (H1 & H2 & H3). apply IH in H3 as (A & B & C & D & E).
    cbn in B. repeat split; auto; lia.
Qed.

Lemma wf_from_app_l t l1 l2 : wf_from t (l1 ++ l2) -> wf_from t l1.
Proof.
  revert t; induction l1 as [|y l IH]; cbn; auto. intros t (A & B & C); eauto.
Qed.

Lemma wf_from_app_r t l1 l2 : wf_from t (l1 ++ l2) -> exists t', wf_from t' l2.
Proof.
  revert t; induction l1 as [|y l IH]; cbn; eauto. intros t (A & B & C); eauto.
Qed.

(** * The record of one address *)

(** A record is live at [now] when cleanup at [now] keeps it. *)
Definition live (now : Z) (s : rl_state) (a : bytes) : Prop :=
  exists r, s !! a = Some r /\ now <= fa_until r.

(** What cleanup does to one record. *)
Definition keep (now : Z) (r : option fa) : option fa :=
  match r with
  | Some x => if decide (now <= fa_until x) then Some x else None
  | None => None
  end.

Lemma cleanup_lookup now s a : rl_cleanup now s !! a = keep now (s !! a).
Proof.
  unfold rl_cleanup, keep. rewrite map_filter_lookup.
  destruct (s !! a) as [x|]; cbn; [|reflexivity].
  destruct (decide (now <= fa_until x)); [rewrite option_guard_True|rewrite option_guard_False]; auto.
Qed.

Lemma not_live_cleanup now s a : ~ live now s a <-> rl_cleanup now s !! a = None.
Proof.
  rewrite cleanup_lookup. unfold live, keep. destruct (s !! a) as [x|].
  - destruct (decide (now <= fa_until x)); split; intros H; try congruence.
    + exfalso; apply H; eauto.
    + intros (r & [= <-] & ?); lia.
  - split; [reflexivity|]. intros _ (r & ? & _); congruence.
Qed.

(** What one attempt from [a] does to the record of [a]: the per-address
    machine.  Output as in [login]. *)
Definition rec_step (c : rl_conf) (e : att) (r : option fa) : option fa * login_out :=
  let r1 := keep (a_now e) r in
  let lft := match r1 with
             | None => 0
             | Some x => if (fa_num x <? rl_max c)%N then 0 else fa_until x - a_now e
             end in
  if 0 <? lft then (r1, L429 lft)
  else if a_ok e then (None, L200)
  else
    let '(until, n) := match r1 with
                       | Some x => (fa_until x, (fa_num x + 1)%N)
                       | None => (a_now2 e + rl_ttl c, 1%N)
                       end in
    let until := if (rl_max c <=? n)%N then a_now2 e + rl_block c else until in
    (Some {| fa_until := until; fa_num := n |}, L403).

(** The cases of [rec_step]. *)
Lemma rec_step_below c e dl j :
  a_now e <= dl -> (j < rl_max c)%N -> a_ok e = false ->
  rec_step c e (Some {| fa_until := dl; fa_num := j |}) =
    (Some {| fa_until := if (rl_max c <=? j + 1)%N then a_now2 e + rl_block c else dl;
             fa_num := j + 1 |}, L403).
Proof.
  intros H1 H2 H3. unfold rec_step, keep. cbn [fa_until fa_num].
  rewrite decide_True by lia. cbn [fa_until fa_num].
  apply N.ltb_lt in H2. rewrite H2. cbn. rewrite H3. reflexivity.
Qed.

Lemma rec_step_blocked c e r :
  (rl_max c <= fa_num r)%N -> a_now e < fa_until r ->
  rec_step c e (Some r) = (Some r, L429 (fa_until r - a_now e)).
Proof.
  intros H1 H2. unfold rec_step, keep. rewrite decide_True by lia.
  apply N.ltb_ge in H1. rewrite H1.
  replace (0 <? fa_until r - a_now e) with true by (symmetry; apply Z.ltb_lt; lia).
  reflexivity.
Qed.

Lemma rec_step_open c e r :
  keep (a_now e) r = None -> a_ok e = false ->
  rec_step c e r =
    (Some {| fa_until := if (rl_max c <=? 1)%N then a_now2 e + rl_block c else a_now2 e + rl_ttl c;
             fa_num := 1 |}, L403).
Proof. intros H1 H2. unfold rec_step. rewrite H1. cbn. rewrite H2. reflexivity. Qed.

(** Locality: an attempt acts on its own address' record as [rec_step], and on
    every other record only by cleanup. *)
Lemma login_lookup c e s a :
  fst (login c e s) !! a =
    if decide (a_addr e = a) then fst (rec_step c e (s !! a)) else keep (a_now e) (s !! a).
Proof.
  unfold login, login_with, pick, rl_check, rec_step, rl_check_locked, rl_inc, rl_remove.
  destruct (decide (a_addr e = a)) as [->|Hne].
  - rewrite !cleanup_lookup.
    destruct (keep (a_now e) (s !! a)) as [x|] eqn:K.
    + destruct (fa_num x <? rl_max c)%N; cbn.
      * destruct (a_ok e); cbn; [apply lookup_delete|]. rewrite lookup_insert. reflexivity.
      * destruct (0 <? fa_until x - a_now e); cbn; [rewrite cleanup_lookup; exact K|].
        destruct (a_ok e); cbn; [apply lookup_delete|]. rewrite lookup_insert. reflexivity.
    + cbn. destruct (a_ok e); cbn; [apply lookup_delete|]. rewrite lookup_insert. reflexivity.
  - rewrite !cleanup_lookup.
    set (lft := match keep (a_now e) (s !! a_addr e) with Some r => _ | None => 0 end).
    destruct (0 <? lft); cbn; [apply cleanup_lookup|].
    destruct (a_ok e); cbn.
    + rewrite lookup_delete_ne by auto. apply cleanup_lookup.
    + destruct (keep (a_now e) (s !! a_addr e)) as [x|]; cbn;
        rewrite lookup_insert_ne by auto; apply cleanup_lookup.
Qed.

Lemma login_out_rec c e s : snd (login c e s) = snd (rec_step c e (s !! a_addr e)).
Proof.
  unfold login, login_with, pick, rl_check, rec_step, rl_check_locked. rewrite !cleanup_lookup.
  destruct (keep (a_now e) (s !! a_addr e)) as [x|]; cbn.
  - destruct (fa_num x <? rl_max c)%N; cbn.
    + destruct (a_ok e); reflexivity.
    + destruct (0 <? fa_until x - a_now e); cbn; [reflexivity|]. destruct (a_ok e); reflexivity.
  - destruct (a_ok e); reflexivity.
Qed.

Lemma run_logins_cons c s e h :
  run_logins c s (e :: h) =
    (fst (run_logins c (fst (login c e s)) h), snd (login c e s) :: snd (run_logins c (fst (login c e s)) h)).
Proof.
  cbn [run_logins]. destruct (login c e s) as [s1 o]. cbn [fst snd].
  destruct (run_logins c s1 h). reflexivity.
Qed.

Lemma run_logins_app c s h1 h2 :
  fst (run_logins c s (h1 ++ h2)) = fst (run_logins c (fst (run_logins c s h1)) h2).
Proof.
  revert s; induction h1 as [|e h1 IH]; intros s; [reflexivity|].
  rewrite <- app_comm_cons, !run_logins_cons. cbn [fst]. apply IH.
Qed.

(** * Blocking *)

Section Block.
Context (c : rl_conf) (a : bytes).
Hypothesis Hmax : (1 <= rl_max c)%N.
Hypothesis Hblock : 0 < rl_block c.

(** A burst: [n] failed attempts of [a], no other attempt of [a], attempts
    of other addresses anywhere in between; [lst] is the last one. *)
Inductive burst : nat -> list att -> att -> Prop :=
  | burst_one f : a_addr f = a -> a_ok f = false -> burst 1 [f] f
  | burst_cons_a f l lst n :
      a_addr f = a -> a_ok f = false -> burst n l lst -> burst (S n) (f :: l) lst
  | burst_cons_o e l lst n :
      a_addr e <> a -> burst n l lst -> burst n (e :: l) lst.

Lemma burst_last n l lst : burst n l lst -> lst ∈ l /\ a_addr lst = a /\ (1 <= n)%nat.
Proof.
  induction 1 as [| ? ? ? ? ? ? ? (?&?&?) | ? ? ? ? ? ? (?&?&?)];
    repeat split; auto; try lia; apply elem_of_cons; auto.
Qed.

(** Counting phase: a live record below the limit with deadline [dl]; the
    burst brings it to the limit; every attempt of [a] in it is checked no
    later than [dl]. *)
Lemma burst_counts n l lst :
  burst n l lst ->
  forall s t (j : N) dl,
    wf_from t l ->
    s !! a = Some {| fa_until := dl; fa_num := j |} ->
    (j + N.of_nat n = rl_max c)%N ->
    Forall (fun e => a_addr e = a -> a_now e <= dl) l ->
    fst (run_logins c s l) !! a =
      Some {| fa_until := a_now2 lst + rl_block c; fa_num := rl_max c |} /\
    Forall (fun e => a_addr e = a -> a_ok e = false) l.
Proof.
  induction 1 as [f Hf Hok | f l lst n Hf Hok Hb IH | e l lst n He Hb IH];
    intros s t j dl Hwf Hs Hj Hdl.
  - (* the failure that reaches the limit *)
    rewrite run_logins_cons. cbn [fst run_logins].
    rewrite login_lookup, decide_True by auto.
    apply Forall_cons_1 in Hdl as [Hd _]. specialize (Hd Hf).
    rewrite Hs, rec_step_below by (auto; lia). cbn [fst].
    replace (rl_max c <=? j + 1)%N with true by (symmetry; apply N.leb_le; lia).
    replace (j + 1)%N with (rl_max c) by lia. split; [reflexivity|]. constructor; auto.
  - (* a failure below the limit *)
    destruct (burst_last _ _ _ Hb) as (_ & _ & Hn).
    rewrite run_logins_cons. cbn [fst].
    apply Forall_cons_1 in Hdl as [Hd Hdl']. specialize (Hd Hf).
    destruct Hwf as (Hw1 & Hw2 & Hw3).
    destruct (IH (fst (login c f s)) (a_now2 f) (j + 1)%N dl) as [IH1 IH2]; auto; try lia.
    + rewrite login_lookup, decide_True by auto.
      rewrite Hs, rec_step_below by (auto; lia). cbn [fst].
      replace (rl_max c <=? j + 1)%N with false by (symmetry; apply N.leb_gt; lia).
      reflexivity.
  - (* an attempt of another address: only cleanup, and the deadline has not passed *)
    rewrite run_logins_cons. cbn [fst].
    apply Forall_cons_1 in Hdl as [_ Hdl'].
    destruct Hwf as (Hw1 & Hw2 & Hw3).
    destruct (burst_last _ _ _ Hb) as (Hin & Hla & _).
    assert (Hle : a_now e <= dl).
    { apply wf_from_ge in Hw3. rewrite Forall_forall in Hw3, Hdl'.
      specialize (Hw3 _ Hin). specialize (Hdl' _ Hin Hla). lia. }
    destruct (IH (fst (login c e s)) (a_now2 e) j dl) as [IH1 IH2]; auto.
    + rewrite login_lookup, decide_False by auto. rewrite Hs. cbn.
      rewrite decide_True by lia. reflexivity.
    + split; auto. constructor; auto. intros; congruence.
Qed.

(** Blocked phase: while the clock is before the deadline of a record at or
    above the limit, nothing changes that record and every attempt of [a] is
    rejected. *)
Lemma blocked_stays r :
  (rl_max c <= fa_num r)%N ->
  forall l s t,
    wf_from t l -> s !! a = Some r ->
    Forall (fun e => a_now e < fa_until r) l ->
    fst (run_logins c s l) !! a = Some r.
Proof.
  intros Hr. induction l as [|e l IH]; intros s t Hwf Hs Hl; [exact Hs|].
  rewrite run_logins_cons. cbn [fst].
  apply Forall_cons_1 in Hl as [He Hl']. destruct Hwf as (_ & _ & Hwf).
  eapply IH; eauto.
  rewrite login_lookup. destruct (decide (a_addr e = a)).
  - rewrite Hs, rec_step_blocked by (auto; lia). reflexivity.
  - rewrite Hs. cbn. rewrite decide_True by lia. reflexivity.
Qed.

Lemma blocked_rejects r s x :
  (rl_max c <= fa_num r)%N -> s !! a = Some r -> a_addr x = a -> a_now x < fa_until r ->
  login c x s = (rl_cleanup (a_now x) s, L429 (fa_until r - a_now x)) /\
  rl_cleanup (a_now x) s !! a = Some r.
Proof.
  intros Hr Hs Ha Hx.
  assert (K : rl_cleanup (a_now x) s !! a = Some r).
  { rewrite cleanup_lookup, Hs. cbn. rewrite decide_True by lia. reflexivity. }
  split; [|exact K].
  unfold login, login_with, pick, rl_check, rl_check_locked. rewrite Ha, K.
  replace (fa_num r <? rl_max c)%N with false by (symmetry; apply N.ltb_ge; lia).
  replace (0 <? fa_until r - a_now x) with true by (symmetry; apply Z.ltb_lt; lia).
  reflexivity.
Qed.

(** The opening failure. *)
Lemma opening_step s f :
  a_addr f = a -> a_ok f = false -> ~ live (a_now f) s a ->
  snd (login c f s) = L403 /\
  fst (login c f s) !! a =
    Some {| fa_until := if (rl_max c <=? 1)%N then a_now2 f + rl_block c else a_now2 f + rl_ttl c;
            fa_num := 1 |}.
Proof.
  intros Ha Hok Hl. apply not_live_cleanup in Hl. rewrite cleanup_lookup in Hl.
  rewrite login_out_rec, login_lookup, decide_True by auto. rewrite Ha.
  rewrite !rec_step_open by auto. auto.
Qed.

(** ** The theorem.

    [F] is a burst of exactly [max] failed attempts of [a] (attempts of other
    addresses in between), its first element [f1] opens a record (no record
    of [a] is live when it is checked), every attempt of [a] in it is checked
    no later than one [ttl] after [f1] was counted, its last element is [fk].
    [G] is anything at all.  Then an attempt [x] of [a] checked before
    [a_now2 fk + block] is rejected with a positive time left, whatever its
    password, and leaves the record of [a] as it was. *)
Theorem block_after_limit s0 t0 f1 F' fk G x :
  wf_from t0 ((f1 :: F') ++ G ++ [x]) ->
  burst (N.to_nat (rl_max c)) (f1 :: F') fk ->
  a_addr f1 = a ->
  ~ live (a_now f1) s0 a ->
  Forall (fun e => a_addr e = a -> a_now e <= a_now2 f1 + rl_ttl c) F' ->
  a_addr x = a ->
  a_now x < a_now2 fk + rl_block c ->
  let s := fst (run_logins c s0 ((f1 :: F') ++ G)) in
  exists lft, 0 < lft /\
    login c x s = (rl_cleanup (a_now x) s, L429 lft) /\
    rl_cleanup (a_now x) s !! a = s !! a /\
    (* and the attempts of the burst were all evaluated failures that got
       the record to the limit, with the deadline one block after the last *)
    fst (run_logins c s0 (f1 :: F')) !! a =
      Some {| fa_until := a_now2 fk + rl_block c; fa_num := rl_max c |}.
Proof.
  intros Hwf Hb Ha1 Hopen Hdl Hax Hx s.
  (* state after the burst *)
  assert (HF : fst (run_logins c s0 (f1 :: F')) !! a =
               Some {| fa_until := a_now2 fk + rl_block c; fa_num := rl_max c |}).
  { inversion Hb as [f Hf Hok Hn | f l lst n Hf Hok Hb' Hn | e l lst n He Hb' ]; subst.
    - (* max = 1 *)
      rewrite run_logins_cons. cbn [fst run_logins].
      destruct (opening_step s0 fk) as [_ ->]; auto.
      replace (rl_max c) with 1%N by lia. reflexivity.
    - rewrite run_logins_cons. cbn [fst].
      destruct (opening_step s0 f1) as [_ Hs1]; auto.
      assert (Hlt : (rl_max c <=? 1)%N = false) by
        (apply N.leb_gt; destruct (burst_last _ _ _ Hb'); lia).
      rewrite Hlt in Hs1.
      cbn in Hwf. destruct Hwf as (_ & _ & Hwf).
      rewrite app_assoc in Hwf.
      destruct (burst_last _ _ _ Hb') as (Hin & _ & _).
      assert (HwF : wf_from (a_now2 f1) F') by (do 2 apply wf_from_app_l in Hwf; exact Hwf).
      destruct (burst_counts _ _ _ Hb' (fst (login c f1 s0)) (a_now2 f1) 1%N (a_now2 f1 + rl_ttl c))
        as [Hc _]; auto. lia.
    - congruence. }
  (* through G, then x *)
  set (r := {| fa_until := a_now2 fk + rl_block c; fa_num := rl_max c |}) in *.
  assert (Hr : (rl_max c <= fa_num r)%N) by (cbn; lia).
  rewrite app_assoc in Hwf. apply wf_from_app in Hwf as (HwFG & _ & _ & _ & Hall).
  assert (HG : s !! a = Some r).
  { unfold s. rewrite run_logins_app.
    pose proof (wf_from_ge _ _ HwFG) as Hge.
    destruct (wf_from_app_r _ _ _ HwFG) as [tG HwG].
    eapply blocked_stays; eauto.
    rewrite Forall_app in Hall, Hge. destruct Hall as [_ Hall], Hge as [_ Hge].
    rewrite Forall_forall in *. intros y Hy. specialize (Hall y Hy). specialize (Hge y Hy).
    cbn. lia. }
  destruct (blocked_rejects r s x) as [H1 H2]; auto.
  exists (fa_until r - a_now x). split; [cbn; lia|].
  split; [exact H1|]. split; [rewrite H2, HG; reflexivity|exact HF].
Qed.

End Block.

(** * A success clears the count *)

Theorem success_clears c e s :
  a_ok e = true -> evaluated (snd (login c e s)) = true ->
  snd (login c e s) = L200 /\ fst (login c e s) !! a_addr e = None /\
  forall t, ~ live t (fst (login c e s)) (a_addr e).
Proof.
  intros Hok Hev.
  assert (H : snd (login c e s) = L200 /\ fst (login c e s) !! a_addr e = None).
  { rewrite login_out_rec in *. rewrite login_lookup, decide_True by auto.
    unfold rec_step in *. destruct (0 <? _); [discriminate|]. rewrite Hok. auto. }
  destruct H as [H1 H2]. repeat split; auto.
  intros t (r & Hr & _). congruence.
Qed.

(** Below the limit an address is never rejected. *)
Theorem below_limit_evaluated c e s :
  (forall r, s !! a_addr e = Some r -> (fa_num r < rl_max c)%N) ->
  evaluated (snd (login c e s)) = true.
Proof.
  intros H. rewrite login_out_rec. unfold rec_step, keep.
  destruct (s !! a_addr e) as [r|]; [specialize (H r eq_refl)|].
  - destruct (decide (a_now e <= fa_until r)).
    + apply N.ltb_lt in H. rewrite H. cbn. destruct (a_ok e); reflexivity.
    + cbn. destruct (a_ok e); reflexivity.
  - cbn. destruct (a_ok e); reflexivity.
Qed.

(** * Other addresses are unaffected *)

(** The decisions taken for the attempts of [a] within a history. *)
Fixpoint run_for (a : bytes) (c : rl_conf) (s : rl_state) (h : list att) : list login_out :=
  match h with
  | [] => []
  | e :: h' =>
      let s1 := fst (login c e s) in
      if decide (a_addr e = a) then snd (login c e s) :: run_for a c s1 h' else run_for a c s1 h'
  end.

Lemma keep_keep t now r : t <= now -> keep now (keep t r) = keep now r.
Proof.
  intros H. unfold keep. destruct r as [x|]; auto.
  destruct (decide (t <= fa_until x)); auto.
  destruct (decide (now <= fa_until x)); auto. lia.
Qed.

Lemma rec_step_keep c e r r' :
  keep (a_now e) r = keep (a_now e) r' -> rec_step c e r = rec_step c e r'.
Proof. unfold rec_step. intros ->. reflexivity. Qed.

Lemma run_for_sim a c h : forall s s' t,
  wf_from t h ->
  (forall now, t <= now -> keep now (s !! a) = keep now (s' !! a)) ->
  run_for a c s h = run_for a c s' (filter (fun e => a_addr e = a) h).
Proof.
  induction h as [|e h IH]; intros s s' t Hwf R; [reflexivity|].
  destruct Hwf as (H1 & H2 & H3). cbn [run_for].
  rewrite filter_cons. destruct (decide (a_addr e = a)) as [Ha|Ha].
  - cbn [run_for]. rewrite decide_True by auto.
    assert (E : rec_step c e (s !! a) = rec_step c e (s' !! a)) by (apply rec_step_keep, R; lia).
    rewrite !login_out_rec, Ha, E. f_equal.
    apply (IH _ _ (a_now2 e)); auto. intros now Hnow.
    rewrite !login_lookup, !decide_True by auto. rewrite E. reflexivity.
  - apply (IH _ _ (a_now2 e)); auto. intros now Hnow.
    rewrite login_lookup, decide_False by auto. rewrite keep_keep by lia. apply R. lia.
Qed.

(** The decisions for [a] are those of the history with every attempt of
    another address deleted. *)
Theorem other_addresses_unaffected a c s t h :
  wf_from t h ->
  run_for a c s h = snd (run_logins c s (filter (fun e => a_addr e = a) h)).
Proof.
  intros Hwf. rewrite (run_for_sim a c h s s t) by auto.
  assert (Hall : forall l, Forall (fun e => a_addr e = a) l ->
                 forall s, run_for a c s l = snd (run_logins c s l)).
  { induction l as [|e l IH]; intros Hl s1; [reflexivity|].
    apply Forall_cons_1 in Hl as [He Hl]. rewrite run_logins_cons. cbn [run_for snd].
    rewrite decide_True by auto. f_equal. auto. }
  apply Hall, Forall_forall. intros e He. apply elem_of_list_filter in He as [? _]. auto.
Qed.

(** * The sliding reading of "within a minute" is not what the code does *)

(** With a limit of three, failures at 0 s and 59 s open and extend a record
    that lapses at 60 s; failures at 61 s and 62 s start a new one.  The three
    failures at 59, 61 and 62 s lie within three seconds, yet the attempt at
    63 s is evaluated.  The theorem above counts the minute from the failure
    that opens the record; this example documents that choice. *)
Definition sec (n : Z) : Z := n * 1000000000.
Definition sliding_conf := {| rl_ttl := sec 60; rl_block := sec 900; rl_max := 3 |}.
Definition sliding_addr : bytes := [49; 46; 50; 46; 51; 46; 52]%N.
Definition sliding_hist : list att :=
  map (fun t => {| a_now := sec t; a_now2 := sec t; a_addr := sliding_addr; a_hdr := None; a_trusted := false; a_ok := false |})
      [0; 59; 61; 62; 63].

Example sliding_window_refuted :
  wf_from 0 sliding_hist /\
  snd (run_logins sliding_conf ∅ sliding_hist) = [L403; L403; L403; L403; L403].
Proof. split; [cbn; unfold sec; lia|vm_compute; reflexivity]. Qed.

(** Non-vacuity of [block_after_limit]: a concrete burst and a rejected
    correct password. *)
Example block_premises_satisfiable :
  let c := {| rl_ttl := sec 60; rl_block := sec 900; rl_max := 3 |} in
  let a := sliding_addr in
  let f t := {| a_now := sec t; a_now2 := sec t; a_addr := a; a_hdr := Some [49;50;55;46;48;46;48;46;49]%N; a_trusted := true; a_ok := false |} in
  let o := {| a_now := sec 5; a_now2 := sec 5; a_addr := [120]%N; a_hdr := None; a_trusted := false; a_ok := false |} in
  let x := {| a_now := sec 919; a_now2 := sec 919; a_addr := a; a_hdr := Some [49;48;46;48;46;48;46;57]%N; a_trusted := true; a_ok := true |} in
  wf_from 0 ([f 0; o; f 10; f 20] ++ [] ++ [x]) /\
  burst a (N.to_nat (rl_max c)) [f 0; o; f 10; f 20] (f 20) /\
  ~ live (sec 0) ∅ a /\
  Forall (fun e => a_addr e = a -> a_now e <= a_now2 (f 0) + rl_ttl c) [o; f 10; f 20] /\
  a_now x < a_now2 (f 20) + rl_block c /\
  snd (run_logins c ∅ [f 0; o; f 10; f 20; x]) = [L403; L403; L403; L403; L429 (sec 1)].
Proof.
  cbn zeta. repeat split; try (cbn; unfold sec; lia).
  - apply burst_cons_a; auto. apply burst_cons_o; [discriminate|].
    apply burst_cons_a; auto. apply burst_one; auto.
  - intros (r & Hr & _). rewrite lookup_empty in Hr. discriminate.
  - repeat constructor; cbn; unfold sec; intros; try lia.
Qed.

(** * Proxy headers do not move the key

    The record [att] carries what a request says about itself in proxy headers
    ([a_hdr], [a_trusted]); every theorem above quantifies over it.  Said
    directly: the decisions and the table depend on the peer address only. *)
Definition same_but_headers (e e' : att) : Prop :=
  a_now e = a_now e' /\ a_now2 e = a_now2 e' /\ a_addr e = a_addr e' /\ a_ok e = a_ok e'.

Lemma login_ignores_headers c e e' s : same_but_headers e e' -> login c e s = login c e' s.
Proof.
  intros (H1 & H2 & H3 & H4). unfold login, login_with, pick. rewrite H1, H2, H3, H4. reflexivity.
Qed.

Theorem run_logins_ignores_headers c h h' : Forall2 same_but_headers h h' ->
  forall s, run_logins c s h = run_logins c s h'.
Proof.
  induction 1 as [|e e' h h' He _ IH]; intros s; [reflexivity|].
  rewrite !run_logins_cons, (login_ignores_headers c e e' s He), !IH. reflexivity.
Qed.

(** The two keys must both be the peer.  Counting under the logged address
    while checking the peer: a client that sends [X-Real-IP: 127.0.0.1]
    through a listener whose trusted_proxies contain 127.0.0.1 is never
    blocked.  Checking and counting under the logged address: rotating the
    header value does the same.  Both on a history that satisfies the
    premises of [block_after_limit] (the code answers 429 from the fourth
    attempt on). *)
Definition hdr_loopback : bytes := [49;50;55;46;48;46;48;46;49]%N.   (* 127.0.0.1 *)
Definition spoof_att (t : Z) : att :=
  {| a_now := sec t; a_now2 := sec t; a_addr := sliding_addr; a_hdr := Some hdr_loopback;
     a_trusted := true; a_ok := false |}.
Definition spoof_fixed : list att := map spoof_att [0; 1; 2; 3; 4; 5].
Definition spoof_rotating : list att :=
  map (fun t => {| a_now := sec t; a_now2 := sec t; a_addr := sliding_addr;
                   a_hdr := Some [49;48;46;48;46;48;46; Z.to_N (48 + t)]%N;      (* 10.0.0.<t> *)
                   a_trusted := true; a_ok := false |}) [0; 1; 2; 3; 4; 5].

Example key_mismatch_refuted :
  wf_from 0 spoof_fixed /\
  burst sliding_addr 3 (firstn 3 spoof_fixed) (spoof_att 2) /\
  snd (run_logins sliding_conf ∅ spoof_fixed) = [L403; L403; L403; L429 (sec 899); L429 (sec 898); L429 (sec 897)] /\
  snd (run_logins_with UsePeer UseLog sliding_conf ∅ spoof_fixed) = [L403; L403; L403; L403; L403; L403] /\
  snd (run_logins sliding_conf ∅ spoof_rotating) = [L403; L403; L403; L429 (sec 899); L429 (sec 898); L429 (sec 897)] /\
  snd (run_logins_with UseLog UseLog sliding_conf ∅ spoof_rotating) = [L403; L403; L403; L403; L403; L403].
Proof.
  split; [cbn; unfold sec; lia|]. split.
  - cbn. apply burst_cons_a; auto. apply burst_cons_a; auto. apply burst_one; auto.
  - vm_compute. auto.
Qed.

(** Non-vacuity of [run_logins_ignores_headers]: the two spoofing histories
    differ in their headers only. *)
Example headers_premises_satisfiable : Forall2 same_but_headers spoof_fixed spoof_rotating.
Proof. repeat constructor. Qed.

(** * Round 4: the block period at instant resolution

    Instants are nanoseconds and the blocked test of handleLogin is made on
    the duration itself ([blk_code], [login_blk blk_code] is [login]).  The
    theorems below say where, to the nanosecond, the block period begins and
    ends; the refutation shows the test made on whole seconds. *)

Lemma login_blk_code c e s : login_blk blk_code c e s = login c e s.
Proof. reflexivity. Qed.

Lemma run_logins_blk_code c h : forall s, run_logins_blk blk_code c s h = run_logins c s h.
Proof.
  induction h as [|e h IH]; intros s; [reflexivity|].
  cbn [run_logins_blk run_logins]. rewrite login_blk_code.
  destruct (login c e s) as [s1 o]. rewrite IH. reflexivity.
Qed.

(** State level: an attempt is rejected exactly when the record of its
    address is at or above the limit and its deadline lies strictly after the
    instant [check] reads; the time left is the exact difference. *)
Theorem blocked_iff c e s :
  evaluated (snd (login c e s)) = false <->
  exists r, s !! a_addr e = Some r /\ (rl_max c <= fa_num r)%N /\ a_now e < fa_until r.
Proof.
  rewrite login_out_rec. unfold rec_step, keep.
  destruct (s !! a_addr e) as [r|].
  - destruct (decide (a_now e <= fa_until r)) as [Hle|Hgt].
    + destruct (fa_num r <? rl_max c)%N eqn:E.
      * apply N.ltb_lt in E. cbn. split.
        -- destruct (a_ok e); discriminate.
        -- intros (r' & [= <-] & H1 & _). lia.
      * apply N.ltb_ge in E.
        destruct (Z.ltb_spec 0 (fa_until r - a_now e)) as [H|H]; cbn.
        -- split; [intros _; exists r; repeat split; auto; lia|reflexivity].
        -- split; [destruct (a_ok e); discriminate|]. intros (r' & [= <-] & _ & H2). lia.
    + cbn. split; [destruct (a_ok e); discriminate|]. intros (r' & [= <-] & _ & H2). lia.
  - cbn. split; [destruct (a_ok e); discriminate|]. intros (r' & H & _). discriminate.
Qed.

Theorem blocked_left c e s r :
  s !! a_addr e = Some r -> (rl_max c <= fa_num r)%N -> a_now e < fa_until r ->
  login c e s = (rl_cleanup (a_now e) s, L429 (fa_until r - a_now e)).
Proof.
  intros Hs Hr Ht.
  assert (K : rl_cleanup (a_now e) s !! a_addr e = Some r).
  { rewrite cleanup_lookup, Hs. cbn. rewrite decide_True by lia. reflexivity. }
  unfold login, login_with, pick, rl_check, rl_check_locked. rewrite K.
  replace (fa_num r <? rl_max c)%N with false by (symmetry; apply N.ltb_ge; lia).
  replace (0 <? fa_until r - a_now e) with true by (symmetry; apply Z.ltb_lt; lia).
  reflexivity.
Qed.

Section BlockExact.
Context (c : rl_conf) (a : bytes).
Hypothesis Hmax : (1 <= rl_max c)%N.

(** The burst brings the record to the limit, with the deadline one block
    after its last failure was counted. *)
Lemma burst_reaches_limit s0 t0 f1 F' fk :
  wf_from t0 (f1 :: F') ->
  burst a (N.to_nat (rl_max c)) (f1 :: F') fk ->
  a_addr f1 = a ->
  ~ live (a_now f1) s0 a ->
  Forall (fun e => a_addr e = a -> a_now e <= a_now2 f1 + rl_ttl c) F' ->
  fst (run_logins c s0 (f1 :: F')) !! a =
    Some {| fa_until := a_now2 fk + rl_block c; fa_num := rl_max c |}.
Proof.
  intros Hwf Hb Ha1 Hopen Hdl.
  inversion Hb as [f Hf Hok Hn | f l lst n Hf Hok Hb' Hn | e l lst n He Hb' ]; subst.
  - rewrite run_logins_cons. cbn [fst run_logins].
    destruct (opening_step c (a_addr fk) s0 fk) as [_ ->]; auto.
    replace (rl_max c) with 1%N by lia. reflexivity.
  - rewrite run_logins_cons. cbn [fst].
    destruct (opening_step c (a_addr f1) s0 f1) as [_ Hs1]; auto.
    assert (Hlt : (rl_max c <=? 1)%N = false) by
      (apply N.leb_gt; destruct (burst_last _ _ _ _ Hb'); lia).
    rewrite Hlt in Hs1.
    cbn in Hwf. destruct Hwf as (_ & _ & HwF).
    destruct (burst_counts c (a_addr f1) Hmax _ _ _ Hb' (fst (login c f1 s0)) (a_now2 f1) 1%N (a_now2 f1 + rl_ttl c))
      as [Hc _]; auto. lia.
  - congruence.
Qed.

(** Attempts of other addresses leave the record of [a] as it is or, once its
    deadline has passed, drop it. *)
Lemma others_keep l : forall s,
  Forall (fun e => a_addr e <> a) l ->
  fst (run_logins c s l) !! a = s !! a \/ fst (run_logins c s l) !! a = None.
Proof.
  induction l as [|e l IH]; intros s Hl; [left; reflexivity|].
  apply Forall_cons_1 in Hl as [He Hl]. rewrite run_logins_cons. cbn [fst].
  assert (K : fst (login c e s) !! a = s !! a \/ fst (login c e s) !! a = None).
  { rewrite login_lookup, decide_False by auto. unfold keep.
    destruct (s !! a) as [r|]; auto. destruct (decide (a_now e <= fa_until r)); auto. }
  destruct (IH (fst (login c e s)) Hl) as [E|E]; rewrite E; tauto.
Qed.

(** The block period, exactly.  After a burst as in [block_after_limit] and
    any attempts of OTHER addresses, an attempt of [a] is rejected if and only
    if the instant its check reads lies strictly before [a_now2 fk + block]:
    one nanosecond before the end it is still rejected (whatever the
    password), at the end itself and after it the password is evaluated. *)
Theorem block_period_exact s0 t0 f1 F' fk G x :
  wf_from t0 ((f1 :: F') ++ G ++ [x]) ->
  burst a (N.to_nat (rl_max c)) (f1 :: F') fk ->
  a_addr f1 = a ->
  ~ live (a_now f1) s0 a ->
  Forall (fun e => a_addr e = a -> a_now e <= a_now2 f1 + rl_ttl c) F' ->
  Forall (fun e => a_addr e <> a) G ->
  a_addr x = a ->
  let s := fst (run_logins c s0 ((f1 :: F') ++ G)) in
  evaluated (snd (login c x s)) = false <-> a_now x < a_now2 fk + rl_block c.
Proof.
  intros Hwf Hb Ha1 Hopen Hdl HG Hax s. split.
  - intros Hrej. apply blocked_iff in Hrej as (r & Hs & _ & Hlt).
    assert (HF := burst_reaches_limit s0 t0 f1 F' fk (wf_from_app_l _ _ _ Hwf) Hb Ha1 Hopen Hdl).
    unfold s in Hs. rewrite run_logins_app, Hax in Hs.
    destruct (others_keep G (fst (run_logins c s0 (f1 :: F'))) HG) as [E|E]; rewrite E in Hs; [|discriminate].
    rewrite HF in Hs. injection Hs as <-. exact Hlt.
  - intros Hlt.
    destruct (block_after_limit c a Hmax s0 t0 f1 F' fk G x Hwf Hb Ha1 Hopen Hdl Hax Hlt) as (lft & _ & E & _).
    fold s in E. rewrite E. reflexivity.
Qed.

End BlockExact.

(** The test made on the truncated whole seconds differs from the code's
    exactly on the last fractional second. *)
Theorem trunc_differs_iff lft : blk_trunc lft <> blk_code lft <-> 0 < lft < second_ns.
Proof.
  unfold blk_trunc, blk_code, retry_after_secs, second_ns.
  destruct (Z.ltb_spec 0 lft) as [H|H].
  - destruct (Z.ltb_spec 0 (lft ÷ 1000000000)) as [Q|Q].
    + split; [congruence|]. intros [_ L]. rewrite Z.quot_small in Q by lia. lia.
    + split; [intros _|discriminate]. split; [lia|].
      destruct (Z.lt_ge_cases lft 1000000000) as [L|L]; [exact L|exfalso].
      assert (1 <= lft ÷ 1000000000) by (apply Z.quot_le_lower_bound; lia). lia.
  - assert (Q : lft ÷ 1000000000 <= 0) by (apply Z.quot_le_upper_bound; lia).
    replace (0 <? lft ÷ 1000000000) with false by (symmetry; apply Z.ltb_ge; exact Q).
    split; [congruence|lia].
Qed.

(** The Retry-After value sent with a 429: whole seconds, rounded down; zero
    exactly during the last fractional second of the block. *)
Theorem retry_after_value lft : 0 < lft ->
  0 <= retry_after_secs lft /\
  retry_after_secs lft * second_ns <= lft < (retry_after_secs lft + 1) * second_ns /\
  (retry_after_secs lft = 0 <-> lft < second_ns).
Proof.
  intros H. unfold retry_after_secs, second_ns.
  rewrite Z.quot_div_nonneg by lia.
  pose proof (Z.div_mod lft 1000000000 ltac:(lia)) as D.
  pose proof (Z.mod_pos_bound lft 1000000000 ltac:(lia)) as M.
  pose proof (Z.div_pos lft 1000000000 ltac:(lia) ltac:(lia)) as P.
  repeat split; lia.
Qed.

(** Limit reached at 2 s with a block of 900 s: the block ends at 902 s. *)
Definition edge_att (t : Z) (ok : bool) : att :=
  {| a_now := t; a_now2 := t; a_addr := sliding_addr; a_hdr := None; a_trusted := false; a_ok := ok |}.
Definition edge_burst : list att := [edge_att (sec 0) false; edge_att (sec 1) false; edge_att (sec 2) false].
Definition edge_end : Z := sec 902.
Definition ms (n : Z) : Z := n * 1000000.

(** The code at the edges (correct password every time): still rejected one
    nanosecond, 600 ms, 999 ms and one second before the end (with
    [Retry-After: 0] inside the last second); evaluated at the end and one
    nanosecond after it.  With the test on whole seconds the correct password
    logs in 600 ms before the end (a wrong one is one more guess per block
    period), and a block shorter than a second never holds. *)
Example trunc_seconds_refuted :
  let x off ok := edge_att (edge_end + off) ok in
  let last l := nth 3 l L403 in
  wf_from 0 (edge_burst ++ [] ++ [x (- ms 600) true]) /\
  burst sliding_addr (N.to_nat (rl_max sliding_conf)) edge_burst (edge_att (sec 2) false) /\
  ~ live (sec 0) ∅ sliding_addr /\
  Forall (fun e => a_addr e = sliding_addr -> a_now e <= sec 0 + rl_ttl sliding_conf) (tl edge_burst) /\
  a_now (x (- ms 600) true) < sec 2 + rl_block sliding_conf /\
  map (fun off => last (snd (run_logins sliding_conf ∅ (edge_burst ++ [x off true]))))
      [- sec 1; - ms 999; - ms 600; -1; 0; 1] =
    [L429 (sec 1); L429 (ms 999); L429 (ms 600); L429 1; L200; L200] /\
  map (fun off => retry_after (last (snd (run_logins sliding_conf ∅ (edge_burst ++ [x off true])))))
      [- sec 1 - 1; - sec 1; - ms 999; - ms 600; -1; 0] =
    [Some 1; Some 1; Some 0; Some 0; Some 0; None] /\
  map (fun off => last (snd (run_logins_blk blk_trunc sliding_conf ∅ (edge_burst ++ [x off true]))))
      [- sec 1; - ms 999; - ms 600; -1; 0; 1] =
    [L429 (sec 1); L200; L200; L200; L200; L200] /\
  last (snd (run_logins_blk blk_trunc sliding_conf ∅ (edge_burst ++ [x (- ms 600) false]))) = L403 /\
  snd (run_logins_blk blk_trunc {| rl_ttl := sec 60; rl_block := ms 999; rl_max := 1 |} ∅
         [edge_att 0 false; edge_att 1 false; edge_att 2 true]) = [L403; L403; L200] /\
  snd (run_logins {| rl_ttl := sec 60; rl_block := ms 999; rl_max := 1 |} ∅
         [edge_att 0 false; edge_att 1 false; edge_att 2 true]) = [L403; L429 (ms 999 - 1); L429 (ms 999 - 2)].
Proof.
  cbn zeta. split; [cbn; unfold edge_end, ms, sec; lia|]. split.
  { cbn. apply burst_cons_a; auto. apply burst_cons_a; auto. apply burst_one; auto. }
  split. { intros (r & Hr & _). rewrite lookup_empty in Hr. discriminate. }
  split. { repeat constructor; cbn; unfold sec; intros; lia. }
  split; [cbn; unfold edge_end, ms, sec; lia|].
  vm_compute. repeat split.
Qed.

(** Non-vacuity of [block_period_exact]: the same burst, an attempt of another
    address in between, the attempt one nanosecond before the end and the one
    at the end. *)
Example block_exact_premises_satisfiable :
  let o := {| a_now := sec 500; a_now2 := sec 500; a_addr := [120]%N; a_hdr := None; a_trusted := false; a_ok := false |} in
  let x off := edge_att (edge_end + off) true in
  wf_from 0 (edge_burst ++ [o] ++ [x (-1)]) /\ wf_from 0 (edge_burst ++ [o] ++ [x 0]) /\
  burst sliding_addr (N.to_nat (rl_max sliding_conf)) edge_burst (edge_att (sec 2) false) /\
  ~ live (sec 0) ∅ sliding_addr /\
  Forall (fun e => a_addr e = sliding_addr -> a_now e <= sec 0 + rl_ttl sliding_conf) (tl edge_burst) /\
  Forall (fun e => a_addr e <> sliding_addr) [o] /\
  a_now (x (-1)) < sec 2 + rl_block sliding_conf /\ ~ a_now (x 0) < sec 2 + rl_block sliding_conf /\
  snd (run_logins sliding_conf ∅ (edge_burst ++ [o] ++ [x (-1)])) = [L403; L403; L403; L403; L429 1] /\
  snd (run_logins sliding_conf ∅ (edge_burst ++ [o] ++ [x 0])) = [L403; L403; L403; L403; L200].
Proof.
  cbn zeta. split; [cbn; unfold edge_end, sec; lia|]. split; [cbn; unfold edge_end, sec; lia|]. split.
  { cbn. apply burst_cons_a; auto. apply burst_cons_a; auto. apply burst_one; auto. }
  split. { intros (r & Hr & _). rewrite lookup_empty in Hr. discriminate. }
  split. { repeat constructor; cbn; unfold sec; intros; lia. }
  split. { repeat constructor. discriminate. }
  split; [cbn; unfold edge_end, sec; lia|]. split; [cbn; unfold edge_end, sec; lia|].
  vm_compute. repeat split.
Qed.

(** Sessions keep whole seconds: [checkSession] and [loadSessions] read
    [uint32(time.Now().UTC().Unix())], the instant rounded DOWN to the second,
    and compare it with the stored expiry (whole seconds).  For an instant of
    [ns] nanoseconds since the epoch and an expiry of [e] seconds, the test on
    the truncated clock is the test on the instant itself: a statement about
    sessions in seconds (Model/Session.v, [C12_session_window],
    [C12_session_window_complete]) is exact to the nanosecond. *)
Theorem unix_truncation_exact (ns e : Z) : ns / second_ns < e <-> ns < e * second_ns.
Proof.
  unfold second_ns.
  pose proof (Z.div_mod ns 1000000000 ltac:(lia)) as D.
  pose proof (Z.mod_pos_bound ns 1000000000 ltac:(lia)) as M.
  lia.
Qed.

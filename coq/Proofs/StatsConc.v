(** C09_mutual_exclusion as a checked obligation.

    Gen/LockTable.v is rewritten from the current source by tools/locktable on
    every run of C09 (and C05).  Here the part of that table which concerns the
    statistics state is checked by computation and lifted with the generic
    theorems of Proofs/Conc.v:

    1. every access site to StatsCtx.curr / limit / enabled / ignored (and to
       the set-once fields filename, unitIDGen, shouldCountClient) holds the
       field's guard; known-finding keys are NOT excluded here;
    2. site by site, the statistics locks held are exactly the ones written
       down in [reqs] (so a lock dropped or downgraded in Update, flush,
       flushDB, the readers, the configuration handlers or clear changes the
       table and fails the check; so does a new access site nobody classified);
    3. every one of those sites holds confMu (since bf01866 Close as well, for
       its whole body and exclusively), the writers of the statistics state and
       Close in write mode: the bodies of any two operations of which one
       changes the state never overlap ([stats_ops_serialised]), and no two
       operations are ever about to touch the same field with one of them
       writing ([stats_ops_race_free]);
    4. (round 4) the bbolt write transaction on the statistics database is a
       lock of its own ([dbw], the translator's abstract lock
       "stats.StatsCtx.db.writer": bbolt admits one writer, Begin(true) blocks
       until the other transaction has finished).  The acquisition sites of
       the three statistics locks (Gen/LockTableAcq.v, projected) are exactly
       the listed ones ([acq_reqs]), the operations as event lists take their
       locks at those sites, and the sites pass the gate-lock criterion of
       Proofs/LockTableGate.v: the opposite orders currMu . dbw (flush) and
       dbw . currMu (GET stats, TopClientsIP, Close) are kept apart by confMu,
       which the flush and Close hold exclusively.  Hence no interleaving of
       any number of these operations deadlocks ([stats_ops_no_deadlock]); in
       particular a clean shutdown at the turn of the hour
       ([shutdown_during_flush]).  With Close as it was before bf01866 (write
       transaction first, then currMu, no confMu) the machine does deadlock:
       [close_before_fix_deadlocks] gives the blocked state.

    The database pointer StatsCtx.db is an [atomic.Pointer] (checked by the
    harness through reflection). *)
From Coq Require Import List String Bool Arith.
From AGH Require Import Base.Conc Model.Guards Proofs.Conc Proofs.ConcGate Proofs.LockTable
  Proofs.LockTablePairs Proofs.LockTableGate Gen.LockTable Gen.LockTableAcq.
Import ListNotations.
Local Open Scope string_scope.
Local Open Scope list_scope.

Definition confMu : lock := "stats.StatsCtx.confMu".
Definition currMu : lock := "stats.StatsCtx.currMu".
(** bbolt's single-writer lock of the statistics database: held from
    db.Begin(true) to Commit / Rollback, and taken by db.Close() *)
Definition dbw : lock := "stats.StatsCtx.db.writer".
Definition f_curr : field := "stats.StatsCtx.curr".
Definition f_limit : field := "stats.StatsCtx.limit".
Definition f_enabled : field := "stats.StatsCtx.enabled".
Definition f_ignored : field := "stats.StatsCtx.ignored".
Definition f_filename : field := "stats.StatsCtx.filename".
Definition f_unitIDGen : field := "stats.StatsCtx.unitIDGen".
Definition f_shouldCount : field := "stats.StatsCtx.shouldCountClient".

Definition stats_fields : list field :=
  [f_curr; f_limit; f_enabled; f_ignored; f_filename; f_unitIDGen; f_shouldCount].
Definition stats_locks : list lock := [confMu; currMu; dbw].

Definition is_stats_access (a : access) : bool := existsb (String.eqb (a_field a)) stats_fields.

(** the held set projected onto the three statistics locks *)
Definition project (h : held) : held :=
  filter (fun y => existsb (String.eqb (fst y)) stats_locks) h.

Definition project_access (a : access) : access :=
  Access (a_root a) (a_fn a) (a_field a) (a_write a) (project (a_held a)) (a_pos a).

(** The statistics part of the table (all of it: known findings included). *)
Definition stats_table : list access := map project_access (filter is_stats_access accesses).

(** fields without a write site anywhere in the whole table *)
Definition ro (f : field) : bool := never_written accesses f.

(** * 1. every site holds its guard *)

Lemma stats_sites_guarded : forallb (access_ok_ro ro) stats_table = true.
Proof. vm_compute. reflexivity. Qed.

(** the four fields that make up the mutable state are written somewhere, so
    none of their reads is excused as "never written" *)
Lemma stats_state_is_mutable :
  ro f_curr = false /\ ro f_limit = false /\ ro f_enabled = false /\ ro f_ignored = false.
Proof. vm_compute. repeat split. Qed.

(** * 2. site by site: the locks that the sequential model relies on *)

Record req := Req { r_fn : string; r_field : field; r_write : bool; r_held : held }.

Definition cW : held := [(confMu, W)].
Definition cR : held := [(confMu, R)].
Definition cWuW : held := [(confMu, W); (currMu, W)].
Definition cRuR : held := [(confMu, R); (currMu, R)].
(** ... inside a write transaction on the database *)
Definition cWuWd : held := [(confMu, W); (currMu, W); (dbw, W)].
Definition cRuRd : held := [(confMu, R); (currMu, R); (dbw, W)].
Definition cWuRd : held := [(confMu, W); (currMu, R); (dbw, W)].

Definition reqs : list req := [
  (* Update: configuration read and unit changed inside one confMu section *)
  Req "(*stats.StatsCtx).Update" f_enabled false cW;
  Req "(*stats.StatsCtx).Update" f_limit false cW;
  Req "(*stats.StatsCtx).Update" f_curr false cWuW;
  Req "(*stats.StatsCtx).Update" f_curr true cWuW;
  (* the hourly flush: swap and persist under both locks *)
  Req "(*stats.StatsCtx).flush" f_unitIDGen false [];
  Req "(*stats.StatsCtx).flush" f_curr false cWuW;
  Req "(*stats.StatsCtx).flush" f_limit false cWuW;
  Req "(*stats.StatsCtx).flushDB" f_curr true cWuWd;
  (* readers *)
  Req "(*stats.StatsCtx).handleStats$1" f_limit false cR;
  Req "(*stats.StatsCtx).loadUnits" f_curr false cRuRd;
  Req "(*stats.StatsCtx).loadUnits" f_unitIDGen false cRuRd;
  (* the current unit is serialised after the transaction was rolled back *)
  Req "(*stats.StatsCtx).loadUnits" f_curr false cRuR;
  Req "(*stats.StatsCtx).dataFromUnits" f_ignored false cR;
  Req "(*stats.StatsCtx).TopClientsIP" f_limit false cR;
  Req "(*stats.StatsCtx).TopClientsIP" f_enabled false cR;
  Req "(*stats.StatsCtx).WriteDiskConfig" f_ignored false cR;
  Req "(*stats.StatsCtx).WriteDiskConfig" f_limit false cR;
  Req "(*stats.StatsCtx).WriteDiskConfig" f_enabled false cR;
  Req "(*stats.StatsCtx).handleStatsInfo$1" f_enabled false cR;
  Req "(*stats.StatsCtx).handleStatsInfo$1" f_limit false cR;
  Req "(*stats.StatsCtx).handleGetStatsConfig$1" f_ignored false cR;
  Req "(*stats.StatsCtx).handleGetStatsConfig$1" f_limit false cR;
  Req "(*stats.StatsCtx).handleGetStatsConfig$1" f_enabled false cR;
  Req "(*stats.StatsCtx).ShouldCount" f_shouldCount false cR;
  Req "(*stats.StatsCtx).isIgnored" f_ignored false cR;
  (* configuration writers *)
  Req "(*stats.StatsCtx).handlePutStatsConfig" f_ignored true cW;
  Req "(*stats.StatsCtx).handlePutStatsConfig" f_limit true cW;
  Req "(*stats.StatsCtx).handlePutStatsConfig" f_enabled true cW;
  Req "(*stats.StatsCtx).setLimit" f_enabled true cW;
  Req "(*stats.StatsCtx).setLimit" f_limit true cW;
  (* clear, from POST stats_reset and from the legacy interval handler alike:
     the whole of it inside confMu, the unit swap under currMu as well *)
  Req "(*stats.StatsCtx).clear" f_filename false cW;
  Req "(*stats.StatsCtx).openDB" f_filename false cW;
  Req "(*stats.StatsCtx).clear" f_unitIDGen false cWuW;
  Req "(*stats.StatsCtx).clear" f_curr true cWuW;
  (* shutdown: the whole of Close inside confMu, exclusively (bf01866); the
     current unit is read under currMu inside the write transaction *)
  Req "(*stats.StatsCtx).Close" f_curr false cWuRd
].

Definition held_eq (a b : held) : bool := subset_held a b && subset_held b a.

Definition matches (r : req) (a : access) : bool :=
  String.eqb (a_fn a) (r_fn r) && String.eqb (a_field a) (r_field r) && Bool.eqb (a_write a) (r_write r).

(** every site of the table is a listed one and holds exactly the listed locks *)
Definition site_listed (a : access) : bool :=
  existsb (fun r => matches r a && held_eq (a_held a) (r_held r)) reqs.

(** the sites of the table that are not as listed (for the failure report) *)
Definition unlisted_sites : list (string * string) :=
  map (fun a => (access_key a, a_pos a)) (filter (fun a => negb (site_listed a)) stats_table).

Lemma stats_sites_as_listed : forallb site_listed stats_table = true.
Proof. vm_compute. reflexivity. Qed.

(** ... and every listed site exists in the current source (a renamed or
    removed function does not make the check vacuous) *)
Lemma stats_reqs_present :
  forallb (fun r => existsb (matches r) stats_table) reqs = true.
Proof. vm_compute. reflexivity. Qed.

(** the reset handler is a root of the table (its clear() is among the sites) *)
Definition reset_root_present : bool :=
  existsb (fun s => String.eqb s "http:POST:/control/stats_reset = (*stats.StatsCtx).handleStatsReset$bound") roots.

Lemma reset_is_a_root : reset_root_present = true.
Proof. vm_compute. reflexivity. Qed.

(** * 3. whole operations *)

(** every access to the mutable state holds confMu (no exception any more:
    Close takes it since bf01866) *)
Definition mutable_fields : list field := [f_curr; f_limit; f_enabled; f_ignored].
Definition is_close (r : req) : bool := String.eqb (r_fn r) "(*stats.StatsCtx).Close".

Lemma state_accesses_inside_confMu :
  forallb (fun r => negb (existsb (String.eqb (r_field r)) mutable_fields) ||
                    holds (r_held r) confMu) reqs = true.
Proof. vm_compute. reflexivity. Qed.

(** Close is listed and holds confMu exclusively at every one of its accesses *)
Lemma close_holds_confMu_W :
  existsb is_close reqs = true /\
  forallb (fun r => negb (is_close r) || holds_w (r_held r) confMu) reqs = true.
Proof. vm_compute. split; reflexivity. Qed.

(** every operation that changes the state holds confMu in write mode for all
    its accesses to the state: Update, flush/flushDB, PUT config, setLimit, clear *)
Definition writer_fns : list string :=
  ["(*stats.StatsCtx).Update"; "(*stats.StatsCtx).flush"; "(*stats.StatsCtx).flushDB";
   "(*stats.StatsCtx).handlePutStatsConfig"; "(*stats.StatsCtx).setLimit"; "(*stats.StatsCtx).clear"].

Lemma writers_are_listed :
  forallb (fun r => negb (r_write r) || existsb (String.eqb (r_fn r)) writer_fns) reqs = true.
Proof. vm_compute. reflexivity. Qed.

Lemma writers_hold_confMu_W :
  forallb (fun r => negb (existsb (String.eqb (r_fn r)) writer_fns) ||
                    negb (existsb (String.eqb (r_field r)) mutable_fields) ||
                    holds_w (r_held r) confMu) reqs = true.
Proof. vm_compute. reflexivity. Qed.

(** The operations as event lists (lock events and accesses to the fields
    above, in program order), each checked against the table: at every access
    the thread holds exactly the statistics locks of some table entry. *)
Definition covered_tight (tbl : list access) (h : held) (f : field) (w : bool) : bool :=
  existsb (fun a => String.eqb (a_field a) f && Bool.eqb (a_write a) w && held_eq (a_held a) h) tbl.

Fixpoint conforms_tight (tbl : list access) (h : held) (p : list event) : bool :=
  match p with
  | [] => true
  | Acq l m :: r => conforms_tight tbl ((l, m) :: h) r
  | Rel l m :: r => mem_lm (l, m) h && conforms_tight tbl (remove_one (l, m) h) r
  | Rd f :: r => covered_tight tbl h f false && conforms_tight tbl h r
  | Wr f :: r => covered_tight tbl h f true && conforms_tight tbl h r
  end.

Lemma conforms_tight_conforms tbl p : forall h, conforms_tight tbl h p = true -> conforms tbl h p = true.
Proof.
  induction p as [|e p IH]; intros h H; [reflexivity|].
  destruct e as [l m|l m|f|f]; cbn [conforms conforms_tight] in *.
  - apply IH; assumption.
  - apply andb_true_iff in H as [H1 H2]. rewrite H1. apply IH; assumption.
  - apply andb_true_iff in H as [H1 H2]. rewrite (IH _ H2), andb_true_r.
    unfold covered, covered_tight in *. apply existsb_exists in H1 as (a & Hin & Ha).
    apply existsb_exists. exists a. split; [assumption|].
    apply andb_true_iff in Ha as [Ha Hq]. rewrite Ha. unfold held_eq in Hq.
    apply andb_true_iff in Hq as [Hq _]. exact Hq.
  - apply andb_true_iff in H as [H1 H2]. rewrite (IH _ H2), andb_true_r.
    unfold covered, covered_tight in *. apply existsb_exists in H1 as (a & Hin & Ha).
    apply existsb_exists. exists a. split; [assumption|].
    apply andb_true_iff in Ha as [Ha Hq]. rewrite Ha. unfold held_eq in Hq.
    apply andb_true_iff in Hq as [Hq _]. exact Hq.
Qed.

Definition p_update : list event :=
  [Acq confMu W; Rd f_enabled; Rd f_limit; Acq currMu W; Rd f_curr; Rd f_curr; Wr f_curr;
   Rel currMu W; Rel confMu W].
(** the hourly flush: clock read, confMu, currMu, then flushDB's write
    transaction, inside which the unit is swapped *)
Definition p_flush : list event :=
  [Rd f_unitIDGen; Acq confMu W; Acq currMu W; Rd f_curr; Rd f_limit; Rd f_curr; Acq dbw W; Wr f_curr;
   Rel dbw W; Rel currMu W; Rel confMu W].
(** GET /control/stats: loadUnits opens its (writable) transaction first, then
    takes currMu; the transaction is rolled back before the current unit is
    serialised *)
Definition p_get_stats : list event :=
  [Acq confMu R; Rd f_limit; Acq dbw W; Acq currMu R; Rd f_curr; Rd f_unitIDGen; Rel dbw W; Rd f_curr;
   Rel currMu R; Rd f_ignored; Rel confMu R].
Definition p_top_clients : list event :=
  [Acq confMu R; Rd f_limit; Rd f_enabled; Acq dbw W; Acq currMu R; Rd f_curr; Rel dbw W; Rd f_curr;
   Rel currMu R; Rel confMu R].
Definition p_write_disk_config : list event :=
  [Acq confMu R; Rd f_ignored; Rd f_limit; Rd f_enabled; Rel confMu R].
Definition p_stats_info : list event := [Acq confMu R; Rd f_enabled; Rd f_limit; Rel confMu R].
Definition p_should_count : list event := [Acq confMu R; Rd f_shouldCount; Rd f_ignored; Rel confMu R].
Definition p_put_config : list event :=
  [Acq confMu W; Wr f_ignored; Wr f_limit; Wr f_enabled; Rel confMu W].
Definition p_set_limit : list event := [Acq confMu W; Wr f_enabled; Wr f_limit; Rel confMu W].
(** clear under confMu: POST stats_reset, and the legacy handler with interval
    0; an empty write transaction and db.Close() (both wait for bbolt's writer
    lock) before the file is removed *)
Definition p_clear : list event :=
  [Acq confMu W; Acq dbw W; Rel dbw W; Acq dbw W; Rel dbw W; Rd f_filename; Rd f_filename;
   Acq currMu W; Rd f_unitIDGen; Wr f_curr; Rel currMu W; Rel confMu W].
Definition p_disable_and_clear : list event :=
  [Acq confMu W; Wr f_enabled; Acq dbw W; Rel dbw W; Acq dbw W; Rel dbw W; Rd f_filename; Rd f_filename;
   Acq currMu W; Rd f_unitIDGen; Wr f_curr; Rel currMu W; Rel confMu W].
(** Close as it is since bf01866: confMu for the whole body, the write
    transaction, currMu for reading while the current unit is serialised and
    put; commit, db.Close() (bbolt's writer lock once more), confMu released *)
Definition p_close : list event :=
  [Acq confMu W; Acq dbw W; Acq currMu R; Rd f_curr; Rd f_curr; Rel currMu R; Rel dbw W;
   Acq dbw W; Rel dbw W; Rel confMu W].
(** Close as it was before bf01866: no confMu *)
Definition p_close_before_fix : list event :=
  [Acq dbw W; Acq currMu R; Rd f_curr; Rd f_curr; Rel currMu R; Rel dbw W; Acq dbw W; Rel dbw W].

Definition stats_ops : list (list event) :=
  [p_update; p_flush; p_get_stats; p_top_clients; p_write_disk_config; p_stats_info; p_should_count;
   p_put_config; p_set_limit; p_clear; p_disable_and_clear; p_close].

Lemma stats_ops_follow_table : forallb (conforms_tight stats_table []) stats_ops = true.
Proof. vm_compute. reflexivity. Qed.

(** Any number of instances of these operations, in any mix, on the lock
    machine: never two of them about to touch the same field with one writing. *)
Theorem stats_ops_race_free : forall progs,
  Forall (fun p => In p stats_ops) progs ->
  forall s, reachable (init progs) s -> ~ race s.
Proof.
  intros progs HF. apply (table_race_free_ro ro stats_table stats_sites_guarded).
  rewrite Forall_forall in *. intros p Hp. apply conforms_tight_conforms.
  pose proof stats_ops_follow_table as H. rewrite forallb_forall in H. apply H. apply HF. exact Hp.
Qed.

(** Whole bodies.  [sections p] keeps the lock events of [p] and puts a marker
    access to one ghost field in front of every step the thread takes while
    it is inside a confMu section: a write marker in a write section, a read
    marker in a read section.  Two threads both standing at a marker, one of
    them a write marker, = two operations inside their confMu sections at the
    same time, one of them a writer of the state. *)
Definition ghost : field := "C09.inside-confMu-section".

Definition mark (m : option mode) : list event :=
  match m with Some W => [Wr ghost] | Some R => [Rd ghost] | None => [] end.

Fixpoint sections (m : option mode) (p : list event) : list event :=
  match p with
  | [] => []
  | Acq l md :: r =>
      if String.eqb l confMu then Acq l md :: sections (Some md) r
      else mark m ++ Acq l md :: sections m r
  | Rel l md :: r =>
      if String.eqb l confMu then mark m ++ Rel l md :: sections None r
      else mark m ++ Rel l md :: sections m r
  | _ :: r => mark m ++ sections m r
  end.

Lemma sections_well_locked :
  forallb (fun p => well_locked (fun _ => confMu) [] (sections None p)) stats_ops = true.
Proof. vm_compute. reflexivity. Qed.

(** "any two of these operations are serialised": in no reachable state are
    two of them inside their confMu sections unless both only read (Close
    included: its whole body is one write section). *)
Theorem stats_ops_serialised : forall progs,
  Forall (fun p => In p (map (sections None) stats_ops)) progs ->
  forall s, reachable (init progs) s -> ~ race s.
Proof.
  intros progs HF. apply (well_locked_race_free (fun _ => confMu)).
  rewrite Forall_forall in *. intros p Hp. specialize (HF p Hp).
  apply in_map_iff in HF as (q & <- & Hq).
  pose proof sections_well_locked as H. rewrite forallb_forall in H. exact (H q Hq).
Qed.

(** Non-vacuity: Update's sectioned program has write markers, the reader's
    read markers; a program that touched the unit outside confMu would not
    follow the table. *)
Example sections_update :
  sections None p_update =
  [Acq confMu W; Wr ghost; Wr ghost; Wr ghost; Acq currMu W; Wr ghost; Wr ghost; Wr ghost; Wr ghost;
   Rel currMu W; Wr ghost; Rel confMu W].
Proof. reflexivity. Qed.

Example unlocked_update_rejected :
  conforms_tight stats_table [] [Acq currMu W; Rd f_curr; Wr f_curr; Rel currMu W] = false.
Proof. vm_compute. reflexivity. Qed.

(** * The reset is atomic *)

(** A program is one confMu write section: it starts by taking confMu for
    writing, ends by releasing it, and does not touch confMu in between. *)
Definition no_confMu (e : event) : bool :=
  match e with
  | Acq l _ | Rel l _ => negb (String.eqb l confMu)
  | _ => true
  end.

Definition one_write_section (p : list event) : bool :=
  match p with
  | Acq l W :: r =>
      String.eqb l confMu &&
      match rev r with
      | Rel l' W :: body => String.eqb l' confMu && forallb no_confMu body
      | _ => false
      end
  | _ => false
  end.

(** clear() as run by both handlers (closing the file, removing it, opening
    the new one, replacing the unit: the accesses to filename, unitIDGen and
    curr of [p_clear] / [p_disable_and_clear]) follows the table of the current
    source and is one confMu write section; so are Update, the hourly flush
    (after reading the clock), PUT config and setLimit.  By
    [stats_ops_serialised] none of them can be inside its section while a
    clear is inside its own: nothing lands between the steps of a reset, and
    run without anything in between the three steps are the atomic clear
    (Proofs/StatsExt.reset_steps_atomic). *)
Lemma reset_is_one_section :
  conforms_tight stats_table [] p_clear = true /\
  conforms_tight stats_table [] p_disable_and_clear = true /\
  one_write_section p_clear = true /\ one_write_section p_disable_and_clear = true /\
  one_write_section p_update = true /\ one_write_section (tl p_flush) = true /\
  one_write_section p_put_config = true /\ one_write_section p_set_limit = true.
Proof. vm_compute. repeat split. Qed.

(** * The write transaction as a lock: acquisition sites, no deadlock *)

(** The acquisition sites of the three statistics locks, with the statistics
    locks held there (the table lists ALL locks held; the others are projected
    away: serverLock around Update, controlLock around the handlers, ...). *)
Definition acquires_stats (s : acq_site) : bool := existsb (String.eqb (fst (s_acq s))) stats_locks.

Definition project_site (s : acq_site) : acq_site :=
  AcqSite (s_root s) (s_fn s) (project (s_held s)) (s_acq s) (s_pos s).

Definition stats_sites : list acq_site := map project_site (filter acquires_stats acquisitions).

Record areq := AReq { ar_fn : string; ar_held : held; ar_acq : lock * mode }.

Definition acq_reqs : list areq := [
  (* confMu is always the first statistics lock taken *)
  AReq "(*stats.StatsCtx).Update" [] (confMu, W);
  AReq "(*stats.StatsCtx).flush" [] (confMu, W);
  AReq "(*stats.StatsCtx).Close" [] (confMu, W);
  AReq "(*stats.StatsCtx).handleStatsConfig" [] (confMu, W);
  AReq "(*stats.StatsCtx).handlePutStatsConfig" [] (confMu, W);
  AReq "(*stats.StatsCtx).handleStatsReset$1" [] (confMu, W);
  AReq "(*stats.StatsCtx).handleStats$1" [] (confMu, R);
  AReq "(*stats.StatsCtx).handleStatsInfo$1" [] (confMu, R);
  AReq "(*stats.StatsCtx).handleGetStatsConfig$1" [] (confMu, R);
  AReq "(*stats.StatsCtx).WriteDiskConfig" [] (confMu, R);
  AReq "(*stats.StatsCtx).TopClientsIP" [] (confMu, R);
  AReq "(*stats.StatsCtx).ShouldCount" [] (confMu, R);
  (* currMu: before the transaction in the writers of the unit ... *)
  AReq "(*stats.StatsCtx).Update" cW (currMu, W);
  AReq "(*stats.StatsCtx).flush" cW (currMu, W);
  AReq "(*stats.StatsCtx).clear" cW (currMu, W);
  (* ... inside it in the readers and in Close *)
  AReq "(*stats.StatsCtx).loadUnits" [(dbw, W); (confMu, R)] (currMu, R);
  AReq "(*stats.StatsCtx).Close" [(confMu, W); (dbw, W)] (currMu, R);
  (* the write transaction (and db.Close, which waits for it) *)
  AReq "(*stats.StatsCtx).flushDB" cWuW (dbw, W);
  AReq "(*stats.StatsCtx).loadUnits" cR (dbw, W);
  AReq "(*stats.StatsCtx).clear" cW (dbw, W);
  AReq "(*stats.StatsCtx).Close" cW (dbw, W);
  AReq "(*stats.StatsCtx).Close$1" cW (dbw, W)
].

Definition amatches (r : areq) (s : acq_site) : bool :=
  String.eqb (s_fn s) (ar_fn r) && lm_eqb (s_acq s) (ar_acq r) && held_eq (s_held s) (ar_held r).

Definition acq_listed (s : acq_site) : bool := existsb (fun r => amatches r s) acq_reqs.

(** the acquisition sites that are not as listed (for the failure report) *)
Definition unlisted_acquisitions : list (string * string) :=
  map (fun s => ((s_fn s ++ " acquires " ++ fst (s_acq s))%string, s_pos s))
      (filter (fun s => negb (acq_listed s)) stats_sites).

Lemma stats_acquisitions_as_listed : forallb acq_listed stats_sites = true.
Proof. vm_compute. reflexivity. Qed.

Lemma stats_acq_reqs_present :
  forallb (fun r => existsb (amatches r) stats_sites) acq_reqs = true.
Proof. vm_compute. reflexivity. Qed.

(** The gate-lock criterion on these sites.  Global ranking: confMu, currMu,
    the transaction.  The sites that descend under it (currMu taken inside the
    transaction: loadUnits, Close) can only be occupied together with sites
    whose lock set does not conflict with theirs, and those are ordered by
    confMu, the transaction, currMu. *)
Definition stats_rank0 : lock -> nat := rank_of [(confMu, 1); (currMu, 2); (dbw, 3)].
Definition stats_rkd (_ : acq_site) : list (string * nat) := [(confMu, 1); (dbw, 2); (currMu, 3)].

Lemma stats_sites_gated : gated_with stats_rank0 stats_rkd stats_sites = true.
Proof. vm_compute. reflexivity. Qed.

(** the cycle is there: under the global ranking alone the sites do not pass *)
Lemma stats_sites_not_ranked : forallb (site_ascending stats_rank0) stats_sites = false.
Proof. vm_compute. reflexivity. Qed.

Lemma stats_ops_take_locks_at_sites : forallb (conforms_sites stats_sites []) stats_ops = true.
Proof. vm_compute. reflexivity. Qed.

(** Any number of instances of the operations, in any mix and interleaving:
    no reachable state of the lock machine (writer preference included) is
    deadlocked. *)
Theorem stats_ops_no_deadlock : forall progs,
  Forall (fun p => In p stats_ops) progs ->
  forall s, reachable (init progs) s -> ~ deadlocked s.
Proof.
  intros progs HF. apply (gated_no_deadlock stats_rank0 stats_rkd stats_sites stats_sites_gated).
  rewrite Forall_forall in *. intros p Hp.
  pose proof stats_ops_take_locks_at_sites as H. rewrite forallb_forall in H. apply H. apply HF. exact Hp.
Qed.

(** every cycle among the statistics acquisition sites contains two sites
    that cannot be occupied at the same time *)
Lemma stats_cycles_conflict : no_compatible_cycle stats_sites.
Proof. exact (gated_cycles_conflict stats_rank0 stats_rkd stats_sites stats_sites_gated). Qed.

(** * Clean shutdown at the turn of the hour *)

(** Close, the hourly flush and any number of updates (and of the other
    operations), started together: Close is one confMu write section like the
    flush and Update, so (by [stats_ops_serialised]) their bodies never
    overlap: the execution is flush; Close or Close; flush with the updates
    before, between or after; no two of them are ever about to touch a field
    with one writing; and no interleaving blocks for good. *)
Theorem shutdown_during_flush :
  conforms_tight stats_table [] p_close = true /\
  conforms_sites stats_sites [] p_close = true /\
  one_write_section p_close = true /\ one_write_section (tl p_flush) = true /\
  one_write_section p_update = true /\
  forall progs, Forall (fun p => In p stats_ops) progs ->
    (forall s, reachable (init progs) s -> ~ race s) /\
    (forall s, reachable (init (map (sections None) progs)) s -> ~ race s) /\
    (forall s, reachable (init progs) s -> ~ deadlocked s).
Proof.
  split; [vm_compute; reflexivity|]. split; [vm_compute; reflexivity|].
  split; [vm_compute; reflexivity|]. split; [vm_compute; reflexivity|].
  split; [vm_compute; reflexivity|].
  intros progs HF. split; [exact (stats_ops_race_free progs HF)|]. split.
  - apply stats_ops_serialised. rewrite Forall_forall in *. intros p Hp.
    apply in_map_iff in Hp as (q & <- & Hq). apply in_map. apply HF. exact Hq.
  - exact (stats_ops_no_deadlock progs HF).
Qed.

(** Before bf01866 Close did not take confMu: write transaction, then currMu.
    Its sites together with the others do not pass the criterion ... *)
Definition sites_before_fix : list acq_site :=
  [AcqSite "" "(*stats.StatsCtx).Close" [] (dbw, W) "internal/stats/stats.go";
   AcqSite "" "(*stats.StatsCtx).Close" [(dbw, W)] (currMu, R) "internal/stats/stats.go"] ++
  filter (fun s => negb (String.eqb (s_fn s) "(*stats.StatsCtx).Close") &&
                   negb (String.eqb (s_fn s) "(*stats.StatsCtx).Close$1")) stats_sites.

Lemma close_before_fix_ungated :
  conforms_sites sites_before_fix [] p_close_before_fix = true /\
  conforms_sites sites_before_fix [] p_flush = true /\
  gated_with stats_rank0 stats_rkd sites_before_fix = false.
Proof. vm_compute. repeat split. Qed.

(** ... and the machine deadlocks: the flush holds confMu and currMu and has
    announced itself for the write transaction, Close holds the transaction
    and waits for currMu.  (The flush keeps confMu: every later Update blocks
    as well.) *)
Theorem close_before_fix_deadlocks :
  exists s, reachable (init [p_flush; p_close_before_fix]) s /\ deadlocked s.
Proof.
  eexists; split.
  - unfold init, p_flush, p_close_before_fix; simpl.
    eapply reach_front. { apply step_fst; apply ts_rd. }
    eapply reach_front. { apply step_fst; apply ts_announce. }
    eapply reach_front. { apply step_fst; apply ts_acq_w; reflexivity. }
    eapply reach_front. { apply step_fst; apply ts_announce. }
    eapply reach_front. { apply step_fst; apply ts_acq_w; reflexivity. }
    eapply reach_front. { apply step_fst; apply ts_rd. }
    eapply reach_front. { apply step_fst; apply ts_rd. }
    eapply reach_front. { apply step_fst; apply ts_rd. }
    eapply reach_front. { apply step_snd; apply ts_announce. }
    eapply reach_front. { apply step_snd; apply ts_acq_w; reflexivity. }
    eapply reach_front. { apply step_fst; apply ts_announce. }
    apply reach_refl.
  - split.
    + eexists; split; [left; reflexivity|discriminate].
    + intros th [<-|[<-|[]]] _; [apply blocked_w|apply blocked_r]; vm_compute; reflexivity.
Qed.

(** With a third thread: an Update that arrives then blocks on confMu, which
    the flush never releases. *)
Lemma step_thd :
  forall lt lt' x y th th' post, tstep lt th lt' th' ->
    step (ST lt (x :: y :: th :: post)) (ST lt' (x :: y :: th' :: post)).
Proof. intros lt lt' x y th th' post H; exact (step_thread lt lt' [x; y] th th' post H). Qed.

Theorem close_before_fix_blocks_updates :
  exists s, reachable (init [p_flush; p_close_before_fix; p_update]) s /\ deadlocked s.
Proof.
  eexists; split.
  - unfold init, p_flush, p_close_before_fix, p_update; simpl.
    eapply reach_front. { apply step_fst; apply ts_rd. }
    eapply reach_front. { apply step_fst; apply ts_announce. }
    eapply reach_front. { apply step_fst; apply ts_acq_w; reflexivity. }
    eapply reach_front. { apply step_fst; apply ts_announce. }
    eapply reach_front. { apply step_fst; apply ts_acq_w; reflexivity. }
    eapply reach_front. { apply step_fst; apply ts_rd. }
    eapply reach_front. { apply step_fst; apply ts_rd. }
    eapply reach_front. { apply step_fst; apply ts_rd. }
    eapply reach_front. { apply step_snd; apply ts_announce. }
    eapply reach_front. { apply step_snd; apply ts_acq_w; reflexivity. }
    eapply reach_front. { apply step_fst; apply ts_announce. }
    eapply reach_front. { apply step_thd; apply ts_announce. }
    apply reach_refl.
  - split.
    + eexists; split; [left; reflexivity|discriminate].
    + intros th [<-|[<-|[<-|[]]]] _; [apply blocked_w|apply blocked_r|apply blocked_w]; vm_compute; reflexivity.
Qed.

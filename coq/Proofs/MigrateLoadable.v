(** C13, part 6: what an upgrade leaves behind is what the typed loader takes.

    [loadable v m] (Model/MigrateLoad.v) is the kind check of the typed loader
    on the keys the steps touch, for a document of schema version [v].  The
    statement wanted: a successful upgrade of a document loadable at its
    version is loadable at the target version.  It is composed over the step
    table from one preservation lemma per step.  The lemmas proved so far are
    listed in [proved_steps]; the full statement stays visible as
    [loadable_preserved_statement], and is evaluated by the harness on every
    document it upgrades ([Run/C13.v], [loadable_kept]). *)
From Coq Require Import List ZArith String Ascii Bool Lia Arith.
From AGH Require Import Model.Migrate Model.MigrateLoad Proofs.Migrate Proofs.MigrateFrame Proofs.MigrateSim
  Proofs.MigrateElems.
Import ListNotations.
Local Open Scope string_scope.
Local Open Scope list_scope.

(** The fields of an object, named (the anonymous loop inside [conforms]). *)
Fixpoint fields_ok (m : obj) (fs : list (string * sh)) : bool :=
  match fs with
  | [] => true
  | (k, s) :: fs' => match get k m with None => true | Some x => conforms s x end && fields_ok m fs'
  end.

Lemma conforms_obj n fs m : conforms (SObj n fs) (VObj m) = fields_ok m fs.
Proof. induction fs as [|[k s] fs IH]; cbn; [reflexivity|]. now rewrite <- IH. Qed.

(** ** Composition of a version-indexed invariant over the step table *)

Definition step_keeps (Inv : nat -> obj -> Prop) (n : nat) (s : step) : Prop :=
  forall m m', Inv n m -> s (Some m) = Ok m' -> Inv (S n) m'.

Fixpoint kept_from (Inv : nat -> obj -> Prop) (n : nat) (l : list step) : Prop :=
  match l with
  | [] => True
  | s :: l' => step_keeps Inv n s /\ kept_from Inv (S n) l'
  end.

Lemma kept_skipn Inv c : forall n l, kept_from Inv n l -> kept_from Inv (n + c) (skipn c l).
Proof.
  induction c as [|c IH]; intros n l H.
  - cbn [skipn]. now rewrite Nat.add_0_r.
  - destruct l as [|s l]; [exact I|].
    destruct H as [_ H]. cbn [skipn]. replace (n + S c)%nat with (S n + c)%nat by lia. now apply IH.
Qed.

Lemma kept_firstn Inv c : forall n l, kept_from Inv n l -> kept_from Inv n (firstn c l).
Proof.
  induction c as [|c IH]; intros n l H; [exact I|].
  destruct l as [|s l]; [exact I|].
  destruct H as [H1 H2]. cbn [firstn]. split; auto.
Qed.

Lemma run_steps_kept Inv l : forall n m m',
  kept_from Inv n l -> run_steps l m = Ok m' -> Inv n m -> Inv (n + List.length l)%nat m'.
Proof.
  induction l as [|s l IH]; intros n m m' F H Hm.
  - cbn in H. injection H as <-. cbn. now rewrite Nat.add_0_r.
  - destruct F as [Fs Fl]. cbn [run_steps] in H.
    destruct (s (Some m)) as [m1| |] eqn:E; cbn [bind] in H; try discriminate.
    cbn [List.length]. replace (n + S (List.length l))%nat with (S n + List.length l)%nat by lia.
    eapply IH; eauto.
Qed.

Lemma upgrade_kept O Inv a cur tgt m m' :
  kept_from Inv a (skipn a (map snd (steps O))) ->
  (a <= cur <= tgt)%nat -> (tgt <= 29)%nat ->
  upgrade O cur tgt m = Ok m' -> Inv cur m -> Inv tgt m'.
Proof.
  intros K R1 R2 H Hm. unfold upgrade in H.
  set (all := map snd (steps O)) in *.
  assert (Len : List.length all = 29%nat) by reflexivity.
  replace cur with (a + (cur - a))%nat in H at 2 by lia.
  rewrite skipn_plus in H.
  pose proof (kept_firstn Inv (tgt - cur) _ _ (kept_skipn Inv (cur - a) _ _ K)) as K'.
  replace (a + (cur - a))%nat with cur in K' by lia.
  pose proof (run_steps_kept Inv _ _ _ _ K' H Hm) as G.
  rewrite firstn_length, skipn_length, skipn_length, Len in G.
  replace (cur + Nat.min (tgt - cur) (29 - a - (cur - a)))%nat with tgt in G by lia.
  exact G.
Qed.

(** ** The statement *)

Definition loadable_preserved_statement : Prop :=
  forall O cur tgt m m', (cur <= tgt <= 29)%nat ->
    upgrade O cur tgt m = Ok m' -> loadable cur m = true -> loadable tgt m' = true.

Definition L (v : nat) (m : obj) : Prop := loadable v m = true.

(** ** Tactics for one step *)

Lemma andb_split a b : a && b = true -> a = true /\ b = true.
Proof. apply andb_prop. Qed.

(** Replace [schema n] by its value and expose the top-level fields. *)
Ltac open_schema H :=
  unfold L, loadable in H;
  match type of H with
  | conforms (schema ?n) _ = true =>
      let s := eval vm_compute in (schema n) in change (schema n) with s in H
  end;
  rewrite conforms_obj in H.

Ltac open_goal :=
  unfold L, loadable;
  match goal with
  | |- conforms (schema ?n) _ = true =>
      let s := eval vm_compute in (schema n) in change (schema n) with s
  end;
  rewrite conforms_obj.

Ltac split_hyps :=
  repeat match goal with
  | H : _ && _ = true |- _ => apply andb_split in H; destruct H
  | H : true = true |- _ => clear H
  end.

(** A key the earlier version does not know yet is absent. *)
Ltac absent_keys :=
  repeat match goal with
  | H : match get ?k ?m with None => true | Some _ => false end = true |- _ =>
      let E := fresh "A" in destruct (get k m) eqn:E; [discriminate H | clear H]
  end.

Ltac crack H :=
  repeat (cbn [bind of_opt fv_val zobj zarr zint zstr zbool has_ty coerce zero moves fst snd] in H;
          match type of H with
          | Ok _ = Ok _ => injection H as H; subst
          | context [match ?x with _ => _ end] =>
              match x with
              | context [match _ with _ => _ end] => fail 1
              | _ => destruct x eqn:?; try discriminate H
              end
          | context [if ?x then _ else _] => destruct x eqn:?; try discriminate H
          end).

Ltac get_rw :=
  repeat first
    [ rewrite get_upd_eq | rewrite get_del_eq
    | rewrite get_upd_ne by discriminate | rewrite get_del_ne by discriminate ].

Ltac use_eqs :=
  repeat match goal with
  | E : get ?k ?m = _ |- context [get ?k ?m] => rewrite E
  | E : get ?k ?m = _, H : context [get ?k ?m] |- _ => rewrite E in H
  end.

Ltac open_hyps :=
  repeat match goal with
  | H : conforms (SObj _ _) (VObj _) = true |- _ => rewrite conforms_obj in H; cbn [fields_ok] in H
  | H : _ && _ = true |- _ => apply andb_split in H; destruct H
  | H : true = true |- _ => clear H
  | H : context [conforms SNone] |- _ =>
      match type of H with
      | (match get ?k ?m with _ => _ end) = true =>
          destruct (get k m) eqn:?; [cbn [conforms] in H; discriminate H | clear H]
      end
  end.

Ltac leaf :=
  solve [ cbn; repeat match goal with
                 | |- context [match ?x with _ => _ end] => destruct x; cbn
                 | |- context [if ?x then _ else _] => destruct x; cbn
                 end; reflexivity ].

Ltac piece0 :=
  get_rw; use_eqs;
  first [ assumption | reflexivity
        | rewrite conforms_obj; cbn [fields_ok]; repeat (apply andb_true_intro; split); piece0 ].

Ltac piece1 :=
  get_rw; use_eqs; cbn [get String.eqb Ascii.eqb Bool.eqb]; get_rw;
  first [ assumption | reflexivity
        | rewrite conforms_obj; cbn [fields_ok]; repeat (apply andb_true_intro; split); piece1
        | match goal with
          | |- (match get ?k ?m with _ => _ end) = true =>
              is_var m; destruct (get k m) as [[]|] eqn:?;
              try reflexivity; try (cbn [conforms] in *; discriminate);
              try assumption; open_hyps; piece1
          end
        | leaf
        | idtac ].

Ltac piece := first [ solve [piece0] | piece1 ].

(** One step: open both schemas, take the step apart, prove every field. *)
Ltac pres_step :=
  intros m m' Hm E; open_schema Hm; open_goal;
  cbn [fields_ok] in Hm; open_hyps;
  cbn [stamp bind] in E;
  unfold with_obj, move_in, field_val in E; cbn [moves] in E; unfold move_val, field_val in E;
  repeat rewrite (get_upd_ne _ "schema_version") in E by discriminate;
  crack E;
  use_eqs; open_hyps; use_eqs; open_hyps; use_eqs; open_hyps;
  cbn [fields_ok]; repeat (apply andb_true_intro; split); piece.

Section WithOracles.
Variable O : oracles.

Lemma keep1 : step_keeps L 0 step1.
Proof.
  intros m m' Hm E. open_schema Hm. open_goal. cbn in E. injection E as <-.
  cbn [fields_ok] in *. rewrite get_upd_eq. get_rw.
  apply andb_split in Hm. destruct Hm as [_ Hm]. cbn [conforms]. exact Hm.
Qed.

End WithOracles.

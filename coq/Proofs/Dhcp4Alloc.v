(** C10: the allocateLease loop of the model never runs out of fuel: every
    round that block-lists an address either uses up a free pool offset or
    turns an expired lease into an unexpired block-list entry. *)
From Coq Require Import List ZArith NArith Bool Lia.
From AGH Require Import Base.Run Model.Dhcp4 Proofs.Dhcp4.
Import ListNotations.
Local Open Scope N_scope.

Definition measure (c : conf) (now : Z) (s : state) : nat :=
  (length (free_offs c s) + length (filter (expired now) (leases s)))%nat.

Lemma filter_update_lt {A} (p : A -> bool) f L i a :
  nth_error L i = Some a -> p a = true -> p (f a) = false ->
  (length (filter p (update_nth i f L)) < length (filter p L))%nat.
Proof.
  intros E Hp Hf. destruct (nth_error_split' _ _ _ E) as (l1 & l2 & -> & <-).
  rewrite update_nth_split, !filter_app. cbn [filter]. rewrite Hp, Hf, !app_length. cbn. lia.
Qed.

Lemma filter_single_false {A} (p : A -> bool) x : p x = false -> filter p [x] = [].
Proof. intros H. cbn. rewrite H. reflexivity. Qed.

Lemma update_nth_twice {A} (f g : A -> A) L : forall i,
  update_nth i f (update_nth i g L) = update_nth i (fun x => f (g x)) L.
Proof. induction L as [|a L IH]; destruct i; cbn; auto. f_equal. apply IH. Qed.

Lemma blocklist_leases c now i s l :
  nth_error (leases s) i = Some l ->
  leases (blocklist c now i s) =
  update_nth i (fun l => Lease (l_ip l) blocklist_mac [] (l_static l) (now + c_lease c)%Z) (leases s).
Proof. intros E. unfold blocklist. rewrite E. reflexivity. Qed.

Lemma blocklisted_not_expired c now ip st :
  (0 <= c_lease c)%Z -> expired now (Lease ip blocklist_mac [] st (now + c_lease c)%Z) = false.
Proof.
  intros H. unfold expired. cbn [l_static l_exp].
  replace (now + c_lease c <? now)%Z with false by (symmetry; apply Z.ltb_ge; lia).
  apply andb_false_r.
Qed.

(** One round of the loop that ends in block-listing. *)
Lemma iter_measure c now mac s s1 i :
  (0 <= c_lease c)%Z -> reserve c now mac s = (s1, RsAt i) ->
  (measure c now (blocklist c now i s1) < measure c now s)%nat.
Proof.
  intros Hl. unfold reserve.
  destruct (next_ip c s) as [ip1|] eqn:En.
  - destruct (add_lease c _ s) as [s'|] eqn:Ea; [|discriminate].
    intros E; inversion E; subst s1 i; clear E.
    destruct (add_lease_some _ _ _ _ Ea) as (EL & _ & _ & EO & Hp). cbn in Hp.
    destruct (next_ip_spec c s ip1 En) as (o & -> & Ho & Hfree).
    assert (Ei : nth_error (leases s') (length (leases s)) =
                 Some (Lease (c_start c + o) mac [] false exp_zero)).
    { rewrite EL, nth_error_app2, Nat.sub_diag by lia. reflexivity. }
    unfold measure, free_offs. rewrite blocklist_offs, EO.
    rewrite (blocklist_leases _ _ _ _ _ Ei), EL, update_nth_split, filter_app.
    rewrite filter_single_false by (apply blocklisted_not_expired; exact Hl). rewrite app_nil_r.
    assert (Hlt : (length (filter (fun x => negb (set_off c (c_start c + o) true (offs (ix s)) x))
                                  (pool_offsets c))
                   < length (filter (fun x => negb (offs (ix s) x)) (pool_offsets c)))%nat).
    { apply filter_len_lt with (a := o); auto.
      - intros x Hq. apply negb_true_iff in Hq. apply negb_true_iff.
        destruct (offs (ix s) x) eqn:E; auto. exfalso.
        assert (set_off c (c_start c + o) true (offs (ix s)) x = true)
          by (apply set_off_true; auto). congruence.
      - rewrite Hfree. reflexivity.
      - apply negb_false_iff. apply set_off_true. right. split; auto. lia. }
    cbn [l_ip]. lia.
  - destruct (find_expired now (leases s)) as [[j l]|] eqn:Ef; [|discriminate].
    intros E; inversion E; subst s1 i; clear E.
    apply find_index_some in Ef as [Ej Ee].
    set (g := fun l0 : lease => set_mac l0 mac).
    assert (Ej' : nth_error (leases (set_leases s (update_nth j g (leases s)))) j = Some (g l))
      by (apply nth_error_update_nth; auto).
    unfold measure, free_offs. rewrite blocklist_offs.
    rewrite (blocklist_leases _ _ _ _ _ Ej'). cbn [leases set_leases ix offs].
    rewrite update_nth_twice.
    assert (Hlt : (length (filter (expired now)
                     (update_nth j (fun x => Lease (l_ip (g x)) blocklist_mac [] (l_static (g x))
                                                   (now + c_lease c)%Z) (leases s)))
                   < length (filter (expired now) (leases s)))%nat).
    { eapply filter_update_lt; eauto. apply blocklisted_not_expired; auto. }
    lia.
Qed.

Lemma reserve_no_fuel c now mac s : snd (reserve c now mac s) <> RsFuel.
Proof.
  unfold reserve. destruct (next_ip c s).
  - destruct (add_lease c _ s); cbn; discriminate.
  - destruct (find_expired now (leases s)) as [[? ?]|]; cbn; discriminate.
Qed.

Theorem allocate_fuel_enough c now busy mac : (0 <= c_lease c)%Z -> forall fuel s,
  (measure c now s < fuel)%nat -> snd (allocate fuel c now busy mac s) <> RsFuel.
Proof.
  intros Hl. induction fuel as [|f IH]; intros s Hm; [lia|]. cbn [allocate].
  pose proof (reserve_no_fuel c now mac s) as Hr.
  destruct (reserve c now mac s) as [s1 r] eqn:Er. cbn [snd] in Hr.
  destruct r; cbn [snd]; try discriminate; try congruence.
  destruct (mem_ip (ip_at s1 i) busy); [|cbn; discriminate].
  apply IH. pose proof (iter_measure c now mac s s1 i Hl Er). lia.
Qed.

Lemma measure_fuel c now s : (measure c now s < alloc_fuel c s)%nat.
Proof.
  unfold measure, alloc_fuel, free_offs.
  assert (Hall : forall {A} (p : A -> bool) l, (length (filter p l) <= length l)%nat).
  { intros A p l. induction l as [|y l IHl]; cbn; [lia|]. destruct (p y); cbn; lia. }
  pose proof (Hall _ (fun o => negb (offs (ix s) o)) (pool_offsets c)).
  pose proof (Hall _ (expired now) (leases s)). lia.
Qed.

Lemma request_lease_no_fuel c mac sid reqip ci s r :
  request_lease c mac sid reqip ci s = inl r -> r <> RFuel.
Proof.
  intros Er. unfold request_lease in Er.
  repeat match type of Er with
         | context [if ?b then _ else _] => destruct b
         | context [match ?o with Some _ => _ | None => _ end] => destruct o
         | context [match check_lease ?a ?b ?c with _ => _ end] => destruct (check_lease a b c)
         end; inversion Er; discriminate.
Qed.

(** No operation of the model ever answers "out of fuel" (lease times are
    not negative: LeaseDuration is an unsigned number of seconds). *)
Theorem step_never_fuel c s now busy o :
  (0 <= c_lease c)%Z -> snd (step c s now busy o) <> RFuel.
Proof.
  intros Hl. destruct o; cbn [step].
  - unfold discover. destruct (find_lease mac (leases s)) as [[? ?]|]; [cbn; discriminate|].
    pose proof (allocate_fuel_enough c now busy mac Hl _ s (measure_fuel c now s)) as H.
    destruct (allocate _ c now busy mac s) as [s' r]. cbn [snd] in H.
    destruct r; cbn; try discriminate. congruence.
  - unfold request. destruct (request_lease c mac sid reqip ciaddr s) as [r|[i l]] eqn:Er.
    + cbn. eapply request_lease_no_fuel; eauto.
    + destruct (l_static l); cbn; discriminate.
  - unfold decline. destruct (find_index _ (leases s)) as [[? old]|]; [|cbn; discriminate].
    destruct (rm_dynamic_lease c _ _ _ s) as [s1 e]. destruct e; [cbn; discriminate|].
    pose proof (allocate_fuel_enough c now busy mac Hl _ s1 (measure_fuel c now s1)) as H.
    destruct (allocate _ c now busy mac s1) as [s2 r]. cbn [snd] in H.
    destruct r; cbn; try discriminate. congruence.
  - unfold release. destruct (find_index _ (leases s)) as [[? old]|]; [|cbn; discriminate].
    destruct (rm_dynamic_lease c _ _ _ s) as [s1 e]. destruct e; cbn; discriminate.
  - unfold static_add. destruct (ip =? c_gw c); [cbn; discriminate|].
    destruct (negb (valid_mac mac)); [cbn; discriminate|].
    destruct (if is_nil host then Some [] else _) as [h|]; [|cbn; discriminate].
    destruct (rm_dynamic_lease c mac ip h s) as [s1 e]. destruct e; [cbn; discriminate|].
    destruct (add_lease c _ s1); cbn; discriminate.
  - unfold static_update. destruct (find_lease mac (leases s)) as [[? found]|]; [|cbn; discriminate].
    destruct (validate_static c mac ip host s) as [h|]; [|cbn; discriminate].
    destruct (rm_lease c _ _ _ s) as [s1|]; [|cbn; discriminate].
    destruct (add_lease c _ s1); cbn; discriminate.
  - unfold static_remove. destruct (negb (valid_mac mac)); [cbn; discriminate|].
    destruct (rm_lease c ip mac host s); cbn; discriminate.
  - cbn. discriminate.
  - cbn. discriminate.
Qed.

(** * The instant of the deadline

    findExpiredLease uses Expiry.Before(now) and GetLeases Expiry.After(now),
    both strict: at the very instant of its deadline a dynamic lease is not
    reported as active any more and is not yet recycled; one nanosecond later
    it is recycled. *)
Lemma deadline_instant l s :
  l_static l = false -> In l (leases s) ->
  expired (l_exp l) l = false /\ ~ In l (active (l_exp l) s) /\ expired (l_exp l + 1) l = true.
Proof.
  intros Hs Hin. unfold expired, active. rewrite Hs. cbn [negb andb]. repeat split.
  - apply Z.ltb_irrefl.
  - rewrite filter_In, Hs, Z.ltb_irrefl. cbn. intros [_ H]. discriminate.
  - apply Z.ltb_lt. lia.
Qed.

(** With the pool exhausted the FIRST expired dynamic lease of the table is
    the one handed on (whatever its address), static leases never. *)
Lemma recycled_is_first_expired c now mac s i :
  next_ip c s = None -> snd (reserve c now mac s) = RsAt i ->
  exists l, nth_error (leases s) i = Some l /\ expired now l = true /\
    forall j l', (j < i)%nat -> nth_error (leases s) j = Some l' -> expired now l' = false.
Proof.
  intros En. unfold reserve. rewrite En.
  destruct (find_expired now (leases s)) as [[j l]|] eqn:Ef; cbn [snd]; [|discriminate].
  intros E; inversion E; subst j; clear E. unfold find_expired in Ef.
  exists l. destruct (find_index_some _ _ _ _ Ef) as [Ei Ee]. repeat split; auto.
  revert i l Ef Ei Ee. induction (leases s) as [|a L IH]; intros i l Ef Ei Ee j l' Hj Ej; [destruct i; discriminate|].
  cbn in Ef. destruct (expired now a) eqn:Ea.
  - inversion Ef; subst. lia.
  - destruct (find_index (expired now) L) as [[k x]|] eqn:Ek; [|discriminate].
    inversion Ef; subst. destruct j; cbn in Ej; [inversion Ej; subst; exact Ea|].
    destruct (find_index_some _ _ _ _ Ek) as [Ek1 Ek2].
    eapply (IH k l eq_refl Ek1 Ek2 j l'); [lia|exact Ej].
Qed.

(** * Hardware addresses of different lengths

    (Since repair 58b961b reserveLease replaces the address of the recycled
    lease instead of copy()ing into it.)  Four clients fill the pool, client 1
    renews, the others expire, and a client whose 8-byte address
    00:00:00:00:00:01:00:07 starts with client 1's six bytes asks: it gets the
    recycled lease under its own address, every client has one lease. *)
Definition mixed_history : list event :=
  let t := example_now in
  let sid := Some 167772162 in
  [ (t, [], ODiscover (mac6 1)); (t, [], ORequest (mac6 1) sid (Some 167772164) 0 []);
    (t, [], ODiscover (mac6 2)); (t, [], ORequest (mac6 2) sid (Some 167772165) 0 []);
    (t, [], ODiscover (mac6 3)); (t, [], ORequest (mac6 3) sid (Some 167772166) 0 []);
    (t, [], ODiscover (mac6 4)); (t, [], ORequest (mac6 4) sid (Some 167772167) 0 []);
    ((t + 1800000000000)%Z, [], ORequest (mac6 1) None None 167772164 []);
    ((t + 3800000000000)%Z, [], ODiscover 18446744073709617159) ].

Example mixed_history_ok :
  hist_ok mixed_history /\
  map l_mac (leases (run example_conf mixed_history empty_state)) =
    [mac6 1; 18446744073709617159; mac6 3; mac6 4].
Proof. split; [repeat constructor; vm_compute; auto|vm_compute; reflexivity]. Qed.

(** * DECLINE under probing: the replacement address does not answer the probe *)
Theorem decline_not_busy c s now busy mac reqip ci s' mt yi :
  Inv c s -> valid_mac mac = true ->
  decline c now busy mac reqip ci s = (s', ROk mt yi) -> yi <> 0 -> mem_ip yi busy = false.
Proof.
  intros I Hlen. unfold decline.
  destruct (find_index _ (leases s)) as [[oi old]|] eqn:Ef; [|intros H; inversion H; subst; congruence].
  apply find_index_some in Ef as [_ Ep]. apply andb_true_iff in Ep as [Em _]. apply N.eqb_eq in Em.
  pose proof (rm_dynamic_lease_inv c (l_mac old) (l_ip old) (l_host old) s I) as I1.
  pose proof (rm_dynamic_lease_clears c (l_mac old) (l_ip old) (l_host old) s) as C1.
  destruct (rm_dynamic_lease c (l_mac old) (l_ip old) (l_host old) s) as [s1 e].
  destruct e; [intros H; inversion H|]. cbn [fst snd] in *.
  destruct (C1 eq_refl) as [Cm _]. rewrite Em in Cm.
  pose proof (allocate_at c now busy mac (alloc_fuel c s1) s1 I1 Hlen (not_in_cmacs _ _ Cm)) as R.
  destruct (allocate _ c now busy mac s1) as [s2 r]; cbn [fst snd] in *.
  destruct r; intros H; inversion H; subst; try congruence.
  intros _. destruct (R _ eq_refl) as (l & El & _ & _ & Eb). unfold ip_at. rewrite El. exact Eb.
Qed.
